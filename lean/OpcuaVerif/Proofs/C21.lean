import OpcuaVerif.Model.C21

/-!
C21 — Publish responses pair with requests and deliver every data change once.
Property theorems only; the model is `OpcuaVerif.Model.SubM` with the ghost logs of `Model.C21`.
`SubM.current` is this repository copy (after the `fix:` commit that keeps a collected notification
when no publish request is queued), `SubM.pinned` the source before it.
-/
namespace OpcuaVerif.C21
open OpcuaVerif.SubM

/-! ### responses pair with requests, oldest first -/


def transIds (t : List (Nat × Req × Msg)) : List Nat := t.map (·.2.1.id)

theorem pairUp_ids (sid : Nat) (reqs : List Req) (ms : List Msg) (acc : List (Nat × Req × Msg)) :
    transIds (pairUp sid reqs ms acc).2.2 ++ (pairUp sid reqs ms acc).1.map (·.id)
      = transIds acc ++ reqs.map (·.id) := by
  induction reqs generalizing ms acc with
  | nil => cases ms <;> simp [pairUp]
  | cons r reqs ih =>
    cases ms with
    | nil => simp [pairUp]
    | cons m ms =>
      simp only [pairUp]
      rw [ih]
      simp [transIds]

theorem visit_ids (c : Cfg) (t : Bool) (ids : List Nat) (ss ss' : Sess)
    (trans trans' : List (Nat × Req × Msg)) (h : visit c t ids ss trans = .ok (ss', trans')) :
    transIds trans' ++ reqIds ss' = transIds trans ++ reqIds ss ∧ ss'.resps = ss.resps := by
  induction ids generalizing ss trans with
  | nil => simp only [visit] at h; cases h; exact ⟨rfl, rfl⟩
  | cons id ids ih =>
    simp only [visit] at h
    split at h
    · cases h
    · split at h
      · cases h
      · rename_i s hs s1 h1
        have := ih _ _ h
        obtain ⟨e1, e2⟩ := this
        refine ⟨?_, by simpa using e2⟩
        rw [e1]
        simp only [reqIds]
        exact pairUp_ids id ss.reqs s1.notifs trans

theorem transmit_ids (trans : List (Nat × Req × Msg)) (ss : Sess) :
    respIds (transmit trans ss) = respIds ss ++ transIds trans ∧ (transmit trans ss).reqs = ss.reqs := by
  induction trans generalizing ss with
  | nil => simp [transmit, transIds]
  | cons t rest ih =>
    obtain ⟨sid, r, m⟩ := t
    simp only [transmit]
    obtain ⟨e1, e2⟩ := ih { ss with
      retrans := insertKey (sid, m.seq) m ss.retrans,
      resps := ss.resps ++ [{ reqId := r.id, subId := sid, avail := availSeqs ss.retrans sid,
                              more := rest.any (fun e => e.1 = sid), msg := m, results := r.results }] }
    refine ⟨?_, e2⟩
    rw [e1]
    simp [respIds, transIds]

/-- a tick answers queued requests oldest first and never invents or drops one -/
theorem sessTick_pairs (c : Cfg) (t : Bool) (ss ss' : Sess) (h : sessTick c t ss = .ok ss') :
    respIds ss' ++ reqIds ss' = respIds ss ++ reqIds ss := by
  unfold sessTick at h
  split at h
  · cases h
  · rename_i s1 trans hv
    cases h
    obtain ⟨e1, e2⟩ := visit_ids c t _ ss s1 [] trans hv
    obtain ⟨e3, e4⟩ := transmit_ids trans s1
    show respIds (transmit trans s1) ++ (transmit trans s1).reqs.map (·.id) = _
    rw [e3, e4]
    have e1' : transIds trans ++ reqIds s1 = reqIds ss := by simpa [transIds] using e1
    rw [List.append_assoc]
    show respIds s1 ++ (transIds trans ++ reqIds s1) = _
    rw [e1']
    simp [respIds, e2]

theorem publish_pairs (c : Cfg) (ss ss' : Sess) (rid : Nat) (acks : Option (List (Nat × Nat))) (res : PubRes)
    (h : publish c ss rid acks = .ok (ss', res)) :
    respIds ss' ++ reqIds ss' = respIds ss ++ reqIds ss ++ (if res = .queued then [rid] else []) := by
  unfold publish at h
  split at h
  · cases h; simp
  · simp only [] at h
    split at h
    · cases h
    · rename_i s1 hpre
      have h1 : respIds s1 ++ reqIds s1 = respIds ss ++ reqIds ss := by
        split at hpre
        · exact sessTick_pairs c false ss s1 hpre
        · cases hpre; rfl
      split at h
      · cases h; simp [h1]
      · split at h
        · cases h
        · rename_i s2 ht
          cases h
          have := sessTick_pairs c false _ _ ht
          rw [this]
          cases acks <;> simp [respIds, reqIds, ← List.append_assoc] <;>
            (simp only [respIds, reqIds] at h1; rw [h1])


/-- **`responses_pair`, over every history** of client / timer / address space operations: the request
ids of all publish responses handed to the transport, followed by those of the responses still queued,
followed by the requests still queued, is exactly the list of accepted publish requests in the order
they were accepted.  Hence every response answers a previously accepted request, no request is
answered twice (ids being distinct), and requests are answered oldest first. -/
theorem responses_pair (c : Cfg) (maxQ : Nat) (ops : List Op) (g g' : G)
    (hi : g.answered ++ respIds g.ss ++ reqIds g.ss = g.accepted)
    (h : grun c maxQ g ops = some g') :
    g'.answered ++ respIds g'.ss ++ reqIds g'.ss = g'.accepted := by
  induction ops generalizing g with
  | nil => simp only [grun] at h; cases h; exact hi
  | cons op ops ih =>
    simp only [grun] at h
    split at h
    · rename_i g1 hs
      refine ih g1 ?_ h
      cases op with
      | createSub p i k l e => simp only [gstep] at hs; cases hs; simpa [createSub, respIds, reqIds] using hi
      | deleteSub sid =>
        simp only [gstep] at hs; cases hs
        unfold deleteSub; split <;> simpa [respIds, reqIds] using hi
      | setPublishing sid e =>
        simp only [gstep] at hs; cases hs
        unfold setPublishing; split <;> simpa [respIds, reqIds] using hi
      | createItem sid hd n q d m s =>
        simp only [gstep] at hs; cases hs
        unfold createItem; split
        · simpa [respIds, reqIds] using hi
        · simp only []; split <;> simpa [respIds, reqIds] using hi
      | deleteItem sid iid =>
        simp only [gstep] at hs; cases hs
        unfold deleteItem; split
        · simpa [respIds, reqIds] using hi
        · simp only []; split <;> simpa [respIds, reqIds] using hi
      | write n v => simp only [gstep] at hs; cases hs; simpa [write, respIds, reqIds] using hi
      | timer dt =>
        simp only [gstep] at hs
        split at hs
        · rename_i ss' ht
          cases hs
          have := sessTick_pairs c true _ _ ht
          simp only [respIds, reqIds] at this hi ⊢
          rw [List.append_assoc, this, ← List.append_assoc]; exact hi
        · cases hs
      | publish rid acks =>
        simp only [gstep] at hs
        split at hs
        · rename_i ss' hp
          cases hs
          have := publish_pairs c _ _ rid acks _ hp
          simp only [if_true] at this
          simp only []
          rw [List.append_assoc, this, ← hi]
          simp
        · rename_i ss' r hne hp
          cases hs
          have := publish_pairs c _ _ rid acks _ hp
          have hr : r ≠ .queued := by
            intro e; exact hne e
          simp only [hr, if_false, List.append_nil] at this
          simp only []
          rw [List.append_assoc, this, ← List.append_assoc]; exact hi
        · cases hs
      | republish sid seq =>
        simp only [gstep] at hs; cases hs
        unfold republish; split <;> simpa [respIds, reqIds] using hi
      | modifySub sid p i k l =>
        simp only [gstep] at hs; cases hs
        unfold modifySub; split <;> simpa [respIds, reqIds] using hi
      | setMode sid iid m =>
        simp only [gstep] at hs; cases hs
        unfold setMode; split
        · simpa [respIds, reqIds] using hi
        · simp only []; split <;> simpa [respIds, reqIds] using hi
      | modifyItem sid iid hd q d sp =>
        have hfr : (modifyItem g.ss maxQ sid iid hd q d sp).1.reqs = g.ss.reqs ∧
            (modifyItem g.ss maxQ sid iid hd q d sp).1.resps = g.ss.resps := by
          unfold modifyItem
          split
          · exact ⟨rfl, rfl⟩
          · simp only []
            split
            · exact ⟨rfl, rfl⟩
            · split <;> exact ⟨rfl, rfl⟩
        simp only [gstep] at hs
        split at hs
        · cases hs
        · cases hs
          simpa [respIds, reqIds, hfr.1, hfr.2] using hi
      | setTriggering sid iid a r =>
        simp only [gstep] at hs; cases hs
        unfold setTriggering; split
        · simpa [respIds, reqIds] using hi
        · simp only []; split <;> simpa [respIds, reqIds] using hi
      | resend sid =>
        simp only [gstep] at hs; cases hs
        unfold resendData; split <;> simpa [respIds, reqIds] using hi
      | take =>
        simp only [gstep, takeResponses] at hs; cases hs
        simpa [respIds, reqIds] using hi
    · cases h

/-- from the empty session -/
theorem responses_pair_init (c : Cfg) (maxQ : Nat) (nodes : List (Nat × Nat)) (ops : List Op) (g' : G)
    (h : grun c maxQ (ginit nodes) ops = some g') :
    g'.answered ++ respIds g'.ss ++ reqIds g'.ss = g'.accepted :=
  responses_pair c maxQ ops (ginit nodes) g' rfl h

/-- the notifications of a subscription leave in the order they were queued: what the pairing loop
hands to the transmission queue, followed by what stays queued, is the old queue -/
theorem pairUp_msgs (sid : Nat) (reqs : List Req) (ms : List Msg) (acc : List (Nat × Req × Msg)) :
    ((pairUp sid reqs ms acc).2.2.drop acc.length).map (·.2.2) ++ (pairUp sid reqs ms acc).2.1 = ms ∧
    (pairUp sid reqs ms acc).2.2.take acc.length = acc := by
  induction reqs generalizing ms acc with
  | nil => cases ms <;> simp [pairUp]
  | cons r reqs ih =>
    cases ms with
    | nil => simp [pairUp]
    | cons m ms =>
      simp only [pairUp]
      obtain ⟨e1, e2⟩ := ih ms (acc ++ [(sid, r, m)])
      have hlen : (acc ++ [(sid, r, m)]).length = acc.length + 1 := by simp
      refine ⟨?_, ?_⟩
      · have h3 : (pairUp sid reqs ms (acc ++ [(sid, r, m)])).2.2 =
            (acc ++ [(sid, r, m)]) ++ (pairUp sid reqs ms (acc ++ [(sid, r, m)])).2.2.drop (acc.length + 1) := by
          conv => lhs; rw [← List.take_append_drop (acc.length + 1) (pairUp sid reqs ms (acc ++ [(sid, r, m)])).2.2]
          rw [← hlen, e2]
        rw [h3, List.append_assoc, List.drop_left' rfl]
        rw [hlen] at e1
        simp only [List.singleton_append, List.map_cons, List.cons_append, List.nil_append]
        rw [e1]
      · have := congrArg (List.take acc.length) e2
        rw [List.take_take] at this
        simpa [Nat.min_eq_left (Nat.le_succ _)] using this

/-! ### sequence numbers -/


theorem updateState_frame (c : Cfg) (s : Subn) (rpr : Bool) (p : Params) :
    (updateState c s rpr p).1.notifs = s.notifs ∧ (updateState c s rpr p).1.lastSeq = s.lastSeq ∧
    (updateState c s rpr p).1.seqNext = s.seqNext ∧ (updateState c s rpr p).1.enabled = s.enabled ∧
    (updateState c s rpr p).1.items = s.items ∧ (updateState c s rpr p).1.id = s.id := by
  unfold updateState
  split
  · simp
  · split <;> (repeat' split) <;> simp [resetLife, resetKa, startTimer]

theorem chain_append (a : Nat) (l : List Nat) (x : Nat) (h : chain a l) (hx : x = a + l.length + 1) :
    chain a (l ++ [x]) := by
  induction l generalizing a with
  | nil => simp [chain] at *; omega
  | cons y ys ih =>
    simp only [chain, List.cons_append] at *
    refine ⟨h.1, ih y h.2 ?_⟩
    simp at hx; omega

theorem enqueue_seq (s s' : Subn) (m : Msg) (h : enqueueNotification s m = .ok s') :
    s'.notifs = s.notifs ++ [m] ∧ m.seq = s.lastSeq + 1 ∧ s'.lastSeq = m.seq ∧ s'.seqNext = s.seqNext ∧
    s'.enabled = s.enabled := by
  unfold enqueueNotification at h
  split at h
  · cases h
  · rename_i hne
    cases h
    exact ⟨rfl, by omega, rfl, rfl, rfl⟩

theorem seqInv_enqueue (s s' : Subn) (m : Msg) (base : Nat)
    (hc : chain base (s.notifs.map (·.seq))) (hb : base + s.notifs.length = s.lastSeq)
    (hn : s.seqNext = m.seq + 1) (h : enqueueNotification s m = .ok s') : SeqInv s' := by
  obtain ⟨e1, e2, e3, e4, _⟩ := enqueue_seq s s' m h
  refine ⟨base, ?_, ?_, ?_⟩
  · rw [e1, List.map_append]
    exact chain_append base _ _ hc (by simp; omega)
  · rw [e1, e3]; simp; omega
  · rw [e4, e3, hn]

theorem seqInv_enqueue' (s0 s s' : Subn) (m : Msg) (base : Nat)
    (hc : chain base (s0.notifs.map (·.seq))) (hb : base + s0.notifs.length = s0.lastSeq)
    (e1 : s.notifs = s0.notifs) (e2 : s.lastSeq = s0.lastSeq)
    (hn : s.seqNext = m.seq + 1) (h : enqueueNotification s m = .ok s') : SeqInv s' :=
  seqInv_enqueue s s' m base (by rw [e1]; exact hc) (by rw [e1, e2]; exact hb) hn h

/-- what `handle_state_result` is entered with -/
def SeqPre (s : Subn) (n : Option Msg) : Prop :=
  ∃ base, chain base (s.notifs.map (·.seq)) ∧ base + s.notifs.length = s.lastSeq ∧
    (match n with
     | none => s.seqNext = s.lastSeq + 1
     | some m => m.seq = s.lastSeq + 1 ∧ s.seqNext = m.seq + 1)

theorem handleStateResult_seq (c : Cfg) (now : Nat) (s s' : Subn) (a : Action) (n : Option Msg)
    (hp : SeqPre s n) (h : handleStateResult c now s a n = .ok s') : SeqInv s' := by
  obtain ⟨base, hc, hb, hn⟩ := hp
  cases a with
  | none =>
    cases n with
    | none => simp only [handleStateResult] at h; cases h; exact ⟨base, hc, hb, hn⟩
    | some m =>
      simp only [handleStateResult] at h
      split at h
      · exact seqInv_enqueue s s' m base hc hb hn.2 h
      · cases h; exact ⟨base, hc, hb, by simpa using hn.1⟩
  | keepAlive =>
    simp only [handleStateResult] at h
    cases n with
    | none =>
      simp only [] at h hn
      refine seqInv_enqueue' s _ s' _ base hc hb ?_ ?_ ?_ h <;> rfl
    | some m =>
      simp only [] at h hn
      refine seqInv_enqueue' s _ s' _ base hc hb ?_ ?_ ?_ h <;> rfl
  | notifications =>
    cases n with
    | none => simp only [handleStateResult] at h; cases h; exact ⟨base, hc, hb, hn⟩
    | some m => simp only [handleStateResult] at h; exact seqInv_enqueue s s' m base hc hb hn.2 h
  | created =>
    cases n with
    | none => simp only [handleStateResult] at h; cases h; exact ⟨base, hc, hb, hn⟩
    | some m => simp [handleStateResult] at h
  | expired =>
    cases n with
    | none =>
      simp only [handleStateResult] at h
      refine seqInv_enqueue' s _ s' _ base hc hb ?_ ?_ ?_ h <;> rfl
    | some m =>
      simp only [handleStateResult] at h
      split at h
      · refine seqInv_enqueue' s _ s' _ base hc hb ?_ ?_ ?_ h <;> rfl
      · cases h

theorem elapsedStep_frame (now : Nat) (t : Bool) (s : Subn) :
    (elapsedStep now t s).1.notifs = s.notifs ∧ (elapsedStep now t s).1.lastSeq = s.lastSeq ∧
    (elapsedStep now t s).1.seqNext = s.seqNext ∧ (elapsedStep now t s).1.enabled = s.enabled ∧
    (elapsedStep now t s).1.state = s.state ∧ (elapsedStep now t s).1.life = s.life := by
  unfold elapsedStep
  split
  · simp
  · split
    · simp
    · split
      · simp
      · split <;> simp

theorem collectStep_pre (nodes : List (Nat × Nat)) (now : Nat) (el : Bool) (s : Subn) (h : SeqInv s) :
    SeqPre (collectStep nodes now el s).1 (collectStep nodes now el s).2 := by
  obtain ⟨base, hc, hb, hn⟩ := h
  unfold collectStep
  split
  · exact ⟨base, hc, hb, hn⟩
  · simp only []
    split
    · exact ⟨base, hc, hb, hn⟩
    · exact ⟨base, hc, hb, by simp [hn]⟩

/-- **Sequence numbers**: one tick of a subscription keeps the invariant "the queued notifications
carry consecutive sequence numbers ending at the last one handed out", and only appends. -/
theorem subTick_seq (c : Cfg) (nodes : List (Nat × Nat)) (now : Nat) (t rq : Bool) (s s' : Subn)
    (hi : SeqInv s) (h : subTick c nodes now t rq s = .ok s') : SeqInv s' := by
  unfold subTick at h
  simp only [] at h
  have hi1 : SeqInv (elapsedStep now t s).1 := by
    obtain ⟨base, hc, hb, hn⟩ := hi
    obtain ⟨e1, e2, e3, _⟩ := elapsedStep_frame now t s
    exact ⟨base, by rw [e1]; exact hc, by rw [e1, e2]; exact hb, by rw [e3, e2]; exact hn⟩
  have hp := collectStep_pre nodes now (elapsedStep now t s).2 _ hi1
  generalize collectStep nodes now (elapsedStep now t s).2 (elapsedStep now t s).1 = cs at h hp
  obtain ⟨s2, n⟩ := cs
  simp only [] at h hp
  split at h
  · have hf := fun p => updateState_frame c s2 (!t) p
    refine handleStateResult_seq c now _ s' _ _ ?_ h
    obtain ⟨base, hc, hb, hn⟩ := hp
    refine ⟨base, by rw [(hf _).1]; exact hc, by rw [(hf _).1, (hf _).2.1]; exact hb, ?_⟩
    cases n with
    | none => simp only [] at hn ⊢; rw [(hf _).2.2.1, (hf _).2.1]; exact hn
    | some m => simp only [] at hn ⊢; rw [(hf _).2.2.1, (hf _).2.1]; exact hn
  · cases h
    obtain ⟨base, hc, hb, hn⟩ := hp
    cases n with
    | none => exact ⟨base, hc, hb, hn⟩
    | some m =>
      rename_i hcond
      simp at hcond


/-! ### nothing collected is dropped -/


/-- nothing is taken out of the item queues on a tick on which the publishing interval did not elapse -/
theorem tickItems_not_elapsed (nodes : List (Nat × Nat)) (now : Nat) (resend : Bool) (items : List MItem) :
    (tickItems nodes now false resend items).2 = [] := by
  induction items with
  | nil => rfl
  | cons it rest ih => simp [tickItems, ih]

theorem triggeredBy_not_elapsed (nodes : List (Nat × Nat)) (now : Nat) (resend : Bool) (items : List MItem) :
    triggeredBy nodes now false resend items = [] := by
  unfold triggeredBy
  induction items with
  | nil => rfl
  | cons it rest ih => simpa using ih

/-- nothing is handed over (neither by the loop nor by triggering) when the interval did not elapse -/
theorem tickAll_not_elapsed (nodes : List (Nat × Nat)) (now : Nat) (resend : Bool) (items : List MItem) :
    (tickAll nodes now false resend items).2 = [] := by
  unfold tickAll
  simp [tickItems_not_elapsed, triggeredBy_not_elapsed, triggerItems]

theorem collectStep_not_elapsed (nodes : List (Nat × Nat)) (now : Nat) (s : Subn) :
    (collectStep nodes now false s).2 = none := by
  unfold collectStep
  split
  · rfl
  · simp [tickAll_not_elapsed]

/-- the subscription is about to expire on its next state update -/
def Expiring (s : Subn) : Prop :=
  (s.state = .normal ∨ s.state = .late ∨ s.state = .keepAlive) ∧ s.life = 1

theorem collectStep_frame (nodes : List (Nat × Nat)) (now : Nat) (el : Bool) (s : Subn) :
    (collectStep nodes now el s).1.notifs = s.notifs ∧ (collectStep nodes now el s).1.enabled = s.enabled ∧
    (collectStep nodes now el s).1.state = s.state ∧ (collectStep nodes now el s).1.life = s.life ∧
    (collectStep nodes now el s).1.lastSeq = s.lastSeq := by
  unfold collectStep
  split
  · simp
  · simp only []
    split <;> simp

/-- with publishing enabled, a collected data notification always leads to an action that queues it
(`None` — kept since the fix —, or `ReturnNotifications`), unless the subscription expires -/
theorem updateState_action_of_data (c : Cfg) (s : Subn) (p : Params) (hen : s.enabled = true)
    (hav : p.avail = true) (ht : p.timer = true) (hx : ¬ Expiring s) (hs : s.state ≠ .creating) :
    (updateState c s false p).2.2 = .none ∨ (updateState c s false p).2.2 = .notifications := by
  unfold updateState
  unfold Expiring at hx
  rw [if_neg hx]
  cases hst : s.state with
  | creating => exact absurd hst hs
  | closed => simp
  | normal =>
    simp only [hen, hav, ht]
    by_cases hr : p.reqQueued = true <;> simp [hr]
  | late => simp [hen, hav, ht]
  | keepAlive =>
    simp only [hen, hav, ht]
    by_cases hr : p.reqQueued = true
    · simp [hr]
    · by_cases hk : s.ka = 1
      · simp [hr, hk]
      · by_cases hk2 : s.ka > 1 <;> simp [hr, hk, hk2]

theorem collectStep_some (nodes : List (Nat × Nat)) (now : Nat) (el : Bool) (s : Subn) (m : Msg)
    (h : (collectStep nodes now el s).2 = some m) : s.state ≠ .creating ∧ el = true := by
  refine ⟨?_, ?_⟩
  · intro hc
    unfold collectStep at h
    simp [hc] at h
  · cases el with
    | true => rfl
    | false => rw [collectStep_not_elapsed] at h; cases h

/-- **Nothing collected is dropped**: on a timer tick of a live subscription with publishing
enabled, the data change notification built from what the monitored items handed over is appended to
the subscription's outgoing queue — whether or not a publish request is queued (`rq`). -/
theorem collected_is_queued (c : Cfg) (hk : c.keepOnNone = true) (nodes : List (Nat × Nat)) (now : Nat)
    (rq : Bool) (s s' : Subn) (m : Msg) (hen : s.enabled = true) (hx : ¬ Expiring s)
    (hm : (collectStep nodes now (elapsedStep now true s).2 (elapsedStep now true s).1).2 = some m)
    (h : subTick c nodes now true rq s = .ok s') : s'.notifs = s.notifs ++ [m] := by
  obtain ⟨e1, e2, e3, e4, e5, e6⟩ := elapsedStep_frame now true s
  obtain ⟨g1, g2, g3, g4, g5⟩ := collectStep_frame nodes now (elapsedStep now true s).2 (elapsedStep now true s).1
  obtain ⟨hnc, hel⟩ := collectStep_some _ _ _ _ _ hm
  unfold subTick at h
  simp only [] at h
  generalize hcs : collectStep nodes now (elapsedStep now true s).2 (elapsedStep now true s).1 = cs at h hm g1 g2 g3 g4 g5
  obtain ⟨s2, n⟩ := cs
  simp only [] at h hm g1 g2 g3 g4 g5
  subst hm
  simp only [Option.isSome_some, Bool.or_true, Bool.true_or, if_true] at h
  have hf := fun p => updateState_frame c s2 false p
  have hen2 : s2.enabled = true := by rw [g2, e4]; exact hen
  have hx2 : ¬ Expiring s2 := by
    unfold Expiring at hx ⊢
    rw [g3, g4, e5, e6]; exact hx
  have hs2 : s2.state ≠ .creating := by rw [g3]; exact hnc
  have hact := fun p hav ht => updateState_action_of_data c s2 p hen2 hav ht hx2 hs2
  have hnot : (!true) = false := rfl
  rw [hnot] at h
  have key : ∀ (u : Subn) (a : Action), handleStateResult c now u a (some m) = .ok s' →
      u.notifs = s2.notifs → u.enabled = true → (a = .none ∨ a = .notifications) →
      s'.notifs = s2.notifs ++ [m] := by
    intro u a h hu1 hu2 ha
    rcases ha with rfl | rfl
    · simp only [handleStateResult, hk, hu2, and_self, if_true] at h
      rw [(enqueue_seq u s' m h).1, hu1]
    · simp only [handleStateResult] at h
      rw [(enqueue_seq u s' m h).1, hu1]
  have := key _ _ h (hf _).1 (by rw [(hf _).2.2.2.1]; exact hen2) (hact _ rfl hel)
  rw [this, g1, e1]


/-- `seq_increasing_partial` = `subTick_seq`: the per-tick form of the sequence-number invariant (queued
notifications carry consecutive numbers, a tick only appends the successor).  Superseded by
`seq_increasing` below, which states the property on the `sent` log of whole histories. -/
theorem seq_increasing_partial (c : Cfg) (nodes : List (Nat × Nat)) (now : Nat) (t rq : Bool) (s s' : Subn)
    (hi : SeqInv s) (h : subTick c nodes now t rq s = .ok s') : SeqInv s' :=
  subTick_seq c nodes now t rq s s' hi h

/-- **`delivery_exact_partial`** = `collected_is_queued`, the entry link of delivery: while publishing is
enabled and the subscription is not expiring, whatever the monitored items hand over on an elapsed
interval is appended to the subscription's queue (never dropped, whether or not a request is queued).
From there on `delivery_exact_flow` (below, over whole histories) shows that it keeps its place in
sent ++ queued responses ++ subscription queue for ever.  Still missing for the statement per *item*:
the ghost log of the values sampled into the item queues (with the C24 overflow discards) and its
composition with these two theorems. -/
theorem delivery_exact_partial (c : Cfg) (hk : c.keepOnNone = true) (nodes : List (Nat × Nat)) (now : Nat)
    (rq : Bool) (s s' : Subn) (m : Msg) (hen : s.enabled = true) (hx : ¬ Expiring s)
    (hm : (collectStep nodes now (elapsedStep now true s).2 (elapsedStep now true s).1).2 = some m)
    (h : subTick c nodes now true rq s = .ok s') : s'.notifs = s.notifs ++ [m] :=
  collected_is_queued c hk nodes now rq s s' m hen hx hm h

/-! ### end to end: the flow of a subscription only grows at its end -/

/-- the queued notifications of subscription `sid` (none if it does not exist) -/
def notifsOf (subs : List Subn) (sid : Nat) : List Msg :=
  match getSub subs sid with
  | some s => s.notifs
  | none => []

def transMsgs (t : List (Nat × Req × Msg)) (sid : Nat) : List Msg :=
  (t.filter (fun e => e.1 = sid)).map (·.2.2)

def respMsgs (rs : List Resp) (sid : Nat) : List Msg :=
  (rs.filter (fun r => r.subId = sid)).map (·.msg)

def sentMsgs (sent : List (Nat × Msg)) (sid : Nat) : List Msg :=
  (sent.filter (fun p => p.1 = sid)).map (·.2)

/-- everything of subscription `sid` that was handed to the transport, is queued as a response, or is
still queued in the subscription — in this order -/
def flow (g : G) (sid : Nat) : List Msg :=
  sentMsgs g.sent sid ++ respMsgs g.ss.resps sid ++ notifsOf g.ss.subs sid

theorem getSub_updSub (subs : List Subn) (s : Subn) (sid : Nat) :
    getSub (updSub subs s) sid =
      if sid = s.id then (if hasSub subs sid then some s else none) else getSub subs sid := by
  induction subs with
  | nil => simp [updSub, getSub, hasSub]
  | cons t rest ih =>
    unfold updSub getSub hasSub at *
    simp only [List.map_cons, List.find?_cons, List.any_cons]
    by_cases h1 : t.id = s.id
    · by_cases h2 : sid = s.id
      · subst h2; simp [h1]
      · have : ¬ t.id = sid := by omega
        have h3 : ¬ s.id = sid := fun e => h2 e.symm
        simp only [h1, if_true, h3, decide_false, h2, if_false, this]
        simpa [h2] using ih
    · by_cases h2 : sid = s.id
      · subst h2
        simp only [h1, if_false, decide_false, Bool.false_or, if_true]
        simpa using ih
      · simp only [h1, if_false, h2]
        by_cases h3 : t.id = sid
        · simp [h3]
        · simp only [h3, decide_false]
          simpa [h2] using ih

theorem getSub_none_iff (subs : List Subn) (sid : Nat) : getSub subs sid = none ↔ hasSub subs sid = false := by
  unfold getSub hasSub
  induction subs with
  | nil => simp
  | cons t rest ih =>
    by_cases h : t.id = sid <;> simp [List.find?_cons, h, ih]

theorem getSub_id (subs : List Subn) (sid : Nat) (s : Subn) (h : getSub subs sid = some s) : s.id = sid := by
  unfold getSub at h
  have := List.find?_some h
  simpa using this

theorem notifsOf_updSub (subs : List Subn) (s : Subn) (sid : Nat) :
    notifsOf (updSub subs s) sid = if sid = s.id ∧ hasSub subs sid = true then s.notifs else notifsOf subs sid := by
  unfold notifsOf
  rw [getSub_updSub]
  by_cases h : sid = s.id
  · subst h
    by_cases h2 : hasSub subs s.id = true
    · simp [h2]
    · have : getSub subs s.id = none := (getSub_none_iff subs s.id).mpr (by simpa using h2)
      simp [h2, this]
  · simp [h]

theorem getSub_filter_ne (subs : List Subn) (id sid : Nat) :
    getSub (subs.filter (fun t => t.id ≠ id)) sid = if sid = id then none else getSub subs sid := by
  unfold getSub
  induction subs with
  | nil => simp
  | cons t rest ih =>
    by_cases h1 : t.id = id
    · rw [List.filter_cons_of_neg (by simpa using h1), ih]
      by_cases h2 : sid = id
      · simp [h2]
      · have : ¬ t.id = sid := by omega
        simp [h2, List.find?_cons, this]
    · rw [List.filter_cons_of_pos (by simpa using h1)]
      simp only [List.find?_cons]
      by_cases h3 : t.id = sid
      · have : ¬ sid = id := by omega
        simp [h3, this]
      · simp only [h3, decide_false]
        exact ih

theorem notifsOf_filter_ne (subs : List Subn) (id sid : Nat) :
    notifsOf (subs.filter (fun t => t.id ≠ id)) sid = if sid = id then [] else notifsOf subs sid := by
  unfold notifsOf
  rw [getSub_filter_ne]
  by_cases h : sid = id <;> simp [h]

theorem getSub_map (subs : List Subn) (f : Subn → Subn) (hf : ∀ s, (f s).id = s.id) (sid : Nat) :
    getSub (subs.map f) sid = (getSub subs sid).map f := by
  unfold getSub
  induction subs with
  | nil => rfl
  | cons t rest ih =>
    simp only [List.map_cons, List.find?_cons, hf]
    by_cases h : t.id = sid
    · simp [h]
    · simp only [h, decide_false]; exact ih

theorem notifsOf_map (subs : List Subn) (f : Subn → Subn) (hf : ∀ s, (f s).id = s.id)
    (hn : ∀ s, (f s).notifs = s.notifs) (sid : Nat) : notifsOf (subs.map f) sid = notifsOf subs sid := by
  unfold notifsOf
  rw [getSub_map subs f hf]
  cases getSub subs sid <;> simp [hn]

theorem notifsOf_append_new (subs : List Subn) (s : Subn) (hs : s.notifs = []) (sid : Nat) :
    notifsOf (subs ++ [s]) sid = notifsOf subs sid := by
  unfold notifsOf getSub
  rw [List.find?_append]
  cases h : List.find? (fun t => decide (t.id = sid)) subs with
  | some x => simp
  | none =>
    simp only [Option.none_or, List.find?_cons]
    by_cases h2 : s.id = sid <;> simp [h2, hs]

theorem elapsedStep_id (now : Nat) (t : Bool) (s : Subn) :
    (elapsedStep now t s).1.notifs = s.notifs ∧ (elapsedStep now t s).1.id = s.id := by
  unfold elapsedStep
  split
  · simp
  · split
    · simp
    · split
      · simp
      · split <;> simp

theorem collectStep_id (nodes : List (Nat × Nat)) (now : Nat) (el : Bool) (s : Subn) :
    (collectStep nodes now el s).1.notifs = s.notifs ∧ (collectStep nodes now el s).1.id = s.id := by
  unfold collectStep
  split
  · simp
  · simp only []
    split <;> simp

theorem updateState_id (c : Cfg) (s : Subn) (rpr : Bool) (p : Params) :
    (updateState c s rpr p).1.notifs = s.notifs ∧ (updateState c s rpr p).1.id = s.id := by
  unfold updateState
  split
  · simp
  · split <;> (repeat' split) <;> simp [resetLife, resetKa, startTimer]

theorem enqueue_appends (s s' : Subn) (m : Msg) (h : enqueueNotification s m = .ok s') :
    s'.notifs = s.notifs ++ [m] ∧ s'.id = s.id := by
  unfold enqueueNotification at h
  split at h
  · cases h
  · cases h; exact ⟨rfl, rfl⟩

theorem handleStateResult_appends (c : Cfg) (now : Nat) (s s' : Subn) (a : Action) (n : Option Msg)
    (h : handleStateResult c now s a n = .ok s') : ∃ l, s'.notifs = s.notifs ++ l ∧ s'.id = s.id := by
  have enq : ∀ (u : Subn) (m : Msg), u.notifs = s.notifs → u.id = s.id → enqueueNotification u m = .ok s' →
      ∃ l, s'.notifs = s.notifs ++ l ∧ s'.id = s.id := by
    intro u m h1 h2 h
    obtain ⟨e1, e2⟩ := enqueue_appends u s' m h
    exact ⟨[m], by rw [e1, h1], by rw [e2, h2]⟩
  cases a with
  | none =>
    cases n with
    | none => simp only [handleStateResult] at h; cases h; exact ⟨[], by simp, rfl⟩
    | some m =>
      simp only [handleStateResult] at h
      split at h
      · exact enq s m rfl rfl h
      · cases h; exact ⟨[], by simp, rfl⟩
  | keepAlive =>
    cases n with
    | none => simp only [handleStateResult] at h; refine enq _ _ ?_ ?_ h <;> rfl
    | some m => simp only [handleStateResult] at h; refine enq _ _ ?_ ?_ h <;> rfl
  | notifications =>
    cases n with
    | none => simp only [handleStateResult] at h; cases h; exact ⟨[], by simp, rfl⟩
    | some m => simp only [handleStateResult] at h; exact enq s m rfl rfl h
  | created =>
    cases n with
    | none => simp only [handleStateResult] at h; cases h; exact ⟨[], by simp, rfl⟩
    | some m => simp [handleStateResult] at h
  | expired =>
    cases n with
    | none => simp only [handleStateResult] at h; refine enq _ _ ?_ ?_ h <;> rfl
    | some m =>
      simp only [handleStateResult] at h
      split at h
      · refine enq _ _ ?_ ?_ h <;> rfl
      · cases h

/-- a tick of a subscription only appends to its queue of notifications -/
theorem subTick_appends (c : Cfg) (nodes : List (Nat × Nat)) (now : Nat) (t rq : Bool) (s s' : Subn)
    (h : subTick c nodes now t rq s = .ok s') : ∃ l, s'.notifs = s.notifs ++ l ∧ s'.id = s.id := by
  unfold subTick at h
  simp only [] at h
  obtain ⟨a1, a2⟩ := elapsedStep_id now t s
  obtain ⟨b1, b2⟩ := collectStep_id nodes now (elapsedStep now t s).2 (elapsedStep now t s).1
  generalize collectStep nodes now (elapsedStep now t s).2 (elapsedStep now t s).1 = cs at h b1 b2
  obtain ⟨s2, n⟩ := cs
  simp only [] at h b1 b2
  split at h
  · obtain ⟨l, e1, e2⟩ := handleStateResult_appends c now _ s' _ _ h
    have hf := fun p => updateState_id c s2 (!t) p
    exact ⟨l, by rw [e1, (hf _).1, b1, a1], by rw [e2, (hf _).2, b2, a2]⟩
  · cases h; exact ⟨[], by simp [b1, a1], by rw [b2, a2]⟩

theorem transMsgs_append (a b : List (Nat × Req × Msg)) (sid : Nat) :
    transMsgs (a ++ b) sid = transMsgs a sid ++ transMsgs b sid := by
  simp [transMsgs, List.filter_append]

theorem pairUp_transMsgs (sid sid' : Nat) (reqs : List Req) (ms : List Msg) (acc : List (Nat × Req × Msg)) :
    transMsgs (pairUp sid reqs ms acc).2.2 sid' ++ (if sid' = sid then (pairUp sid reqs ms acc).2.1 else [])
      = transMsgs acc sid' ++ (if sid' = sid then ms else []) := by
  induction reqs generalizing ms acc with
  | nil => cases ms <;> simp [pairUp]
  | cons r reqs ih =>
    cases ms with
    | nil => simp [pairUp]
    | cons m ms =>
      simp only [pairUp]
      rw [ih, transMsgs_append]
      by_cases h : sid' = sid
      · subst h; simp [transMsgs]
      · have : ¬ sid = sid' := fun e => h e.symm
        simp [transMsgs, h, this]

/-- what is on its way for subscription `sid` inside a tick: already handed to the transmission queue,
or still queued in the subscription -/
def pend (ss : Sess) (trans : List (Nat × Req × Msg)) (sid : Nat) : List Msg :=
  transMsgs trans sid ++ notifsOf ss.subs sid

theorem visit_flow (c : Cfg) (t : Bool) (sid : Nat) (ids : List Nat) (ss ss' : Sess)
    (trans trans' : List (Nat × Req × Msg)) (h : visit c t ids ss trans = .ok (ss', trans')) :
    (∃ l, pend ss' trans' sid = pend ss trans sid ++ l) ∧ ss'.resps = ss.resps := by
  induction ids generalizing ss trans with
  | nil => simp only [visit] at h; cases h; exact ⟨⟨[], by simp⟩, rfl⟩
  | cons id ids ih =>
    simp only [visit] at h
    split at h
    · cases h
    · rename_i s hs
      split at h
      · cases h
      · rename_i s1 h1
        obtain ⟨⟨l2, e2⟩, r2⟩ := ih _ _ h
        refine ⟨?_, by simpa using r2⟩
        obtain ⟨l1, n1, i1⟩ := subTick_appends c ss.nodes ss.now t (!ss.reqs.isEmpty) s s1 h1
        have hid : s.id = id := getSub_id _ _ _ hs
        have hhas : hasSub ss.subs id = true := by
          cases hh : hasSub ss.subs id with
          | true => rfl
          | false => rw [(getSub_none_iff _ _).mpr hh] at hs; cases hs
        have hpu := pairUp_transMsgs id sid ss.reqs s1.notifs trans
        refine ⟨(if sid = id then l1 else []) ++ l2, ?_⟩
        rw [e2]
        simp only [pend] at *
        by_cases hsid : sid = id
        · subst hsid
          simp only [if_true] at hpu ⊢
          have hn0 : notifsOf ss.subs sid = s.notifs := by simp [notifsOf, hs]
          have hnew : notifsOf (if s1.state = SState.closed ∧ (pairUp sid ss.reqs s1.notifs trans).2.1.isEmpty = true
              then ss.subs.filter (fun t => t.id ≠ sid)
              else updSub ss.subs { s1 with notifs := (pairUp sid ss.reqs s1.notifs trans).2.1 }) sid
              = (pairUp sid ss.reqs s1.notifs trans).2.1 := by
            split
            · rename_i hc
              rw [notifsOf_filter_ne]
              simp only [if_true]
              exact (List.isEmpty_iff.mp hc.2).symm
            · rw [notifsOf_updSub]
              simp [i1, hid, hhas]
          skip
          rw [hnew, hpu, hn0, n1]
          simp
        · simp only [hsid, if_false, List.append_nil, List.nil_append] at hpu ⊢
          have hnew : notifsOf (if s1.state = SState.closed ∧ (pairUp id ss.reqs s1.notifs trans).2.1.isEmpty = true
              then ss.subs.filter (fun t => t.id ≠ id)
              else updSub ss.subs { s1 with notifs := (pairUp id ss.reqs s1.notifs trans).2.1 }) sid
              = notifsOf ss.subs sid := by
            split
            · rw [notifsOf_filter_ne]; simp [hsid]
            · rw [notifsOf_updSub]
              have : ¬ sid = s1.id := by rw [i1, hid]; exact hsid
              simp [this]
          skip
          rw [hnew, hpu]

theorem transmit_flow (trans : List (Nat × Req × Msg)) (ss : Sess) (sid : Nat) :
    respMsgs (transmit trans ss).resps sid = respMsgs ss.resps sid ++ transMsgs trans sid ∧
    (transmit trans ss).subs = ss.subs := by
  induction trans generalizing ss with
  | nil => simp [transmit, transMsgs]
  | cons x rest ih =>
    obtain ⟨sd, r, m⟩ := x
    simp only [transmit]
    obtain ⟨e1, e2⟩ := ih { ss with
      retrans := insertKey (sd, m.seq) m ss.retrans,
      resps := ss.resps ++ [{ reqId := r.id, subId := sd, avail := availSeqs ss.retrans sd,
                              more := rest.any (fun e => e.1 = sd), msg := m, results := r.results }] }
    refine ⟨?_, e2⟩
    rw [e1]
    by_cases h : sd = sid <;> simp [respMsgs, transMsgs, List.filter_append, List.filter_cons, h]

/-- the part of the flow that lives in the session -/
def inSess (ss : Sess) (sid : Nat) : List Msg := respMsgs ss.resps sid ++ notifsOf ss.subs sid

/-- **One tick of the session only appends to the flow of every subscription**: what was queued as a
response or in the subscription stays, in the same order (moving from the subscription to the responses),
and newly produced notifications come after it. -/
theorem sessTick_flow (c : Cfg) (t : Bool) (ss ss' : Sess) (sid : Nat) (h : sessTick c t ss = .ok ss') :
    ∃ l, inSess ss' sid = inSess ss sid ++ l := by
  unfold sessTick at h
  split at h
  · cases h
  · rename_i s1 trans hv
    cases h
    obtain ⟨⟨l, e1⟩, e2⟩ := visit_flow c t sid _ ss s1 [] trans hv
    obtain ⟨f1, f2⟩ := transmit_flow trans s1 sid
    refine ⟨l, ?_⟩
    simp only [inSess]
    rw [f1, f2, e2, List.append_assoc]
    simp only [pend, transMsgs, List.filter_nil, List.map_nil, List.nil_append] at e1
    show respMsgs ss.resps sid ++ (transMsgs trans sid ++ notifsOf s1.subs sid) = _
    simp only [transMsgs]
    rw [e1, List.append_assoc]

theorem publish_flow (c : Cfg) (ss ss' : Sess) (rid : Nat) (acks : Option (List (Nat × Nat))) (res : PubRes)
    (sid : Nat) (h : publish c ss rid acks = .ok (ss', res)) : ∃ l, inSess ss' sid = inSess ss sid ++ l := by
  unfold publish at h
  split at h
  · cases h; exact ⟨[], by simp⟩
  · simp only [] at h
    split at h
    · cases h
    · rename_i s1 hpre
      have h1 : ∃ l, inSess s1 sid = inSess ss sid ++ l := by
        split at hpre
        · exact sessTick_flow c false ss s1 sid hpre
        · cases hpre; exact ⟨[], by simp⟩
      obtain ⟨l1, e1⟩ := h1
      split at h
      · cases h; exact ⟨l1, e1⟩
      · split at h
        · cases h
        · rename_i s2 ht
          cases h
          obtain ⟨l2, e2⟩ := sessTick_flow c false _ _ sid ht
          refine ⟨l1 ++ l2, ?_⟩
          rw [e2, ← List.append_assoc, ← e1]
          cases acks <;> rfl

theorem notifsOf_updSub_same (subs : List Subn) (k : Nat) (s s2 : Subn) (sid : Nat)
    (hs : getSub subs k = some s) (hi : s2.id = s.id) (hn : s2.notifs = s.notifs) :
    notifsOf (updSub subs s2) sid = notifsOf subs sid := by
  rw [notifsOf_updSub]
  by_cases h : sid = s2.id ∧ hasSub subs sid = true
  · rw [if_pos h]
    have hk : s.id = k := getSub_id _ _ _ hs
    have : sid = k := by rw [h.1, hi, hk]
    subst this
    simp [notifsOf, hs, hn]
  · rw [if_neg h]

theorem flow_eq (g : G) (sid : Nat) : flow g sid = sentMsgs g.sent sid ++ inSess g.ss sid := by
  simp [flow, inSess, List.append_assoc]

/-! the new operations change a subscription without touching its queue or its counters -/

/-- `ss'` is `ss` with one subscription replaced by one with the same id, queue and counters -/
def UpdShape (ss ss' : Sess) : Prop :=
  ss' = ss ∨ ∃ k s s2, getSub ss.subs k = some s ∧ s2.id = s.id ∧ s2.notifs = s.notifs ∧
    s2.lastSeq = s.lastSeq ∧ s2.seqNext = s.seqNext ∧ ss' = { ss with subs := updSub ss.subs s2 }

/-- `ss'` is `ss` with a map over the subscriptions that keeps ids, queues and counters -/
def MapShape (ss ss' : Sess) : Prop :=
  ss' = ss ∨ ∃ f : Subn → Subn, (∀ s, (f s).id = s.id ∧ (f s).notifs = s.notifs ∧
    (f s).lastSeq = s.lastSeq ∧ (f s).seqNext = s.seqNext) ∧ ss' = { ss with subs := ss.subs.map f }

theorem modifySub_shape (ss : Sess) (sid p i k l : Nat) : MapShape ss (modifySub ss sid p i k l).1 := by
  unfold modifySub
  split
  · exact Or.inr ⟨_, fun s => by split <;> exact ⟨rfl, rfl, rfl, rfl⟩, rfl⟩
  · exact Or.inl rfl

theorem resendData_shape (ss : Sess) (sid : Nat) : MapShape ss (resendData ss sid).1 := by
  unfold resendData
  split
  · exact Or.inr ⟨_, fun s => by split <;> exact ⟨rfl, rfl, rfl, rfl⟩, rfl⟩
  · exact Or.inl rfl

theorem setMode_shape (ss : Sess) (sid iid : Nat) (m : Mode) : UpdShape ss (setMode ss sid iid m).1 := by
  unfold setMode
  split
  · exact Or.inl rfl
  · rename_i s hs
    simp only []
    split
    · exact Or.inr (by refine ⟨sid, s, _, hs, ?_, ?_, ?_, ?_, rfl⟩ <;> rfl)
    · exact Or.inl rfl

theorem setTriggering_shape (ss : Sess) (sid iid : Nat) (a r : List Nat) :
    UpdShape ss (setTriggering ss sid iid a r).1 := by
  unfold setTriggering
  split
  · exact Or.inl rfl
  · rename_i s hs
    simp only []
    split
    · exact Or.inl rfl
    · exact Or.inr (by refine ⟨sid, s, _, hs, ?_, ?_, ?_, ?_, rfl⟩ <;> rfl)

theorem modifyItem_shape (ss : Sess) (maxQ sid iid h q : Nat) (d : Bool) (sp : Option Nat) :
    UpdShape ss (modifyItem ss maxQ sid iid h q d sp).1 := by
  unfold modifyItem
  split
  · exact Or.inl rfl
  · rename_i s hs
    simp only []
    split
    · exact Or.inr (by refine ⟨sid, s, _, hs, ?_, ?_, ?_, ?_, rfl⟩ <;> rfl)
    · split
      · exact Or.inl rfl
      · exact Or.inr (by refine ⟨sid, s, _, hs, ?_, ?_, ?_, ?_, rfl⟩ <;> rfl)

theorem inSess_of_UpdShape (ss ss' : Sess) (h : UpdShape ss ss') (sid : Nat) : inSess ss' sid = inSess ss sid := by
  rcases h with rfl | ⟨k, s, s2, hs, e1, e2, _, _, rfl⟩
  · rfl
  · simp only [inSess]; rw [notifsOf_updSub_same _ _ _ _ _ hs e1 e2]

theorem inSess_of_MapShape (ss ss' : Sess) (h : MapShape ss ss') (sid : Nat) : inSess ss' sid = inSess ss sid := by
  rcases h with rfl | ⟨f, hf, rfl⟩
  · rfl
  · simp only [inSess]; rw [notifsOf_map _ f (fun s => (hf s).1) (fun s => (hf s).2.1)]

/-- one operation of the history only appends to the flow of a subscription (unless it deletes it) -/
theorem gstep_flow (c : Cfg) (maxQ : Nat) (g g' : G) (op : Op) (sid : Nat) (hd : op ≠ .deleteSub sid)
    (h : gstep c maxQ g op = some g') : ∃ l, flow g' sid = flow g sid ++ l := by
  have same : ∀ (ss' : Sess), inSess ss' sid = inSess g.ss sid →
      ∃ l, flow { g with ss := ss' } sid = flow g sid ++ l := by
    intro ss' e; exact ⟨[], by simp [flow_eq, e]⟩
  cases op with
  | createSub p i k l e =>
    simp only [gstep] at h; cases h
    apply same
    simp only [inSess, createSub]
    rw [notifsOf_append_new _ _ rfl]
  | deleteSub sid' =>
    simp only [gstep] at h; cases h
    apply same
    have hne : ¬ sid = sid' := fun e => hd (by rw [e])
    unfold deleteSub
    split
    · simp only [inSess]; rw [notifsOf_filter_ne]; simp [hne]
    · rfl
  | setPublishing sid' e =>
    simp only [gstep] at h; cases h
    apply same
    unfold setPublishing
    split
    · simp only [inSess]
      rw [notifsOf_map]
      · intro s; split <;> rfl
      · intro s; split <;> rfl
    · rfl
  | createItem sid' hd' n q d m sp =>
    simp only [gstep] at h; cases h
    apply same
    unfold createItem
    split
    · rfl
    · rename_i s hs
      simp only []
      split
      · simp only [inSess]; refine congrArg (respMsgs g.ss.resps sid ++ ·) (notifsOf_updSub_same _ _ _ _ _ hs ?_ ?_) <;> rfl
      · simp only [inSess]; refine congrArg (respMsgs g.ss.resps sid ++ ·) (notifsOf_updSub_same _ _ _ _ _ hs ?_ ?_) <;> rfl
  | deleteItem sid' iid =>
    simp only [gstep] at h; cases h
    apply same
    unfold deleteItem
    split
    · rfl
    · rename_i s hs
      simp only []
      split
      · simp only [inSess]; refine congrArg (respMsgs g.ss.resps sid ++ ·) (notifsOf_updSub_same _ _ _ _ _ hs ?_ ?_) <;> rfl
      · simp only [inSess]; refine congrArg (respMsgs g.ss.resps sid ++ ·) (notifsOf_updSub_same _ _ _ _ _ hs ?_ ?_) <;> rfl
  | write n v => simp only [gstep] at h; cases h; exact same _ rfl
  | timer dt =>
    simp only [gstep] at h
    split at h
    · rename_i ss' ht
      cases h
      obtain ⟨l, e⟩ := sessTick_flow c true _ ss' sid ht
      exact ⟨l, by simp only [flow_eq]; rw [e]; simp [inSess, List.append_assoc]⟩
    · cases h
  | publish rid acks =>
    simp only [gstep] at h
    split at h
    · rename_i ss' hp
      cases h
      obtain ⟨l, e⟩ := publish_flow c _ _ rid acks _ sid hp
      exact ⟨l, by simp only [flow_eq]; rw [e]; simp [List.append_assoc]⟩
    · rename_i ss' r hne hp
      cases h
      obtain ⟨l, e⟩ := publish_flow c _ _ rid acks _ sid hp
      exact ⟨l, by simp only [flow_eq]; rw [e]; simp [List.append_assoc]⟩
    · cases h
  | republish sid' seq =>
    simp only [gstep] at h; cases h
    apply same
    unfold republish
    split
    · simp only [inSess]
      rw [notifsOf_map]
      · intro s; split <;> rfl
      · intro s; split <;> rfl
    · rfl
  | modifySub sid' p i k l =>
    simp only [gstep] at h; cases h
    exact same _ (inSess_of_MapShape _ _ (modifySub_shape _ _ _ _ _ _) sid)
  | setMode sid' iid m =>
    simp only [gstep] at h; cases h
    exact same _ (inSess_of_UpdShape _ _ (setMode_shape _ _ _ _) sid)
  | modifyItem sid' iid hd' q d sp =>
    simp only [gstep] at h
    split at h
    · cases h
    · cases h
      exact same _ (inSess_of_UpdShape _ _ (modifyItem_shape _ _ _ _ _ _ _ _) sid)
  | setTriggering sid' iid a r =>
    simp only [gstep] at h; cases h
    exact same _ (inSess_of_UpdShape _ _ (setTriggering_shape _ _ _ _ _) sid)
  | resend sid' =>
    simp only [gstep] at h; cases h
    exact same _ (inSess_of_MapShape _ _ (resendData_shape _ _) sid)
  | take =>
    simp only [gstep, takeResponses] at h; cases h
    refine ⟨[], ?_⟩
    simp [flow, sentMsgs, respMsgs, List.filter_append, List.filter_map, Function.comp_def, List.map_map]

/-- **`delivery_exact_flow`, over every history**: for a subscription that the history does not delete,
the flow — messages handed to the transport, then queued responses, then the subscription's own queue —
only grows at its end.  A notification that entered the subscription's queue (`collected_is_queued`:
every notification built from what the monitored items handed over does) keeps its position for ever:
it is never dropped, duplicated or reordered on its way to the client. -/
theorem delivery_exact_flow (c : Cfg) (maxQ : Nat) (sid : Nat) (ops : List Op) (g g' : G)
    (hd : Op.deleteSub sid ∉ ops) (h : grun c maxQ g ops = some g') :
    ∃ l, flow g' sid = flow g sid ++ l := by
  induction ops generalizing g with
  | nil => simp only [grun] at h; cases h; exact ⟨[], by simp⟩
  | cons op ops ih =>
    simp only [grun] at h
    split at h
    · rename_i g1 hs
      obtain ⟨l1, e1⟩ := gstep_flow c maxQ g g1 op sid (fun e => hd (by rw [e]; exact List.mem_cons_self)) hs
      obtain ⟨l2, e2⟩ := ih g1 (fun hm => hd (List.mem_cons_of_mem _ hm)) h
      exact ⟨l1 ++ l2, by rw [e2, e1, List.append_assoc]⟩
    · cases h


/-! ### sequence numbers over whole histories -/

/-- the sequence-number part of what `handle_state_result` is entered with -/
def NumPre (s : Subn) (n : Option Msg) : Prop :=
  match n with
  | none => s.seqNext = s.lastSeq + 1
  | some m => m.seq = s.lastSeq + 1 ∧ s.seqNext = m.seq + 1

/-- a step leaves the queue alone or appends one message carrying the next sequence number -/
def Grow (s s' : Subn) : Prop :=
  s'.id = s.id ∧ s'.seqNext = s'.lastSeq + 1 ∧
  ((s'.notifs = s.notifs ∧ s'.lastSeq = s.lastSeq) ∨
   (∃ m, s'.notifs = s.notifs ++ [m] ∧ m.seq = s.lastSeq + 1 ∧ s'.lastSeq = s.lastSeq + 1))

theorem enqueue_grow (s0 s s' : Subn) (m : Msg) (hi : s.id = s0.id) (hn : s.notifs = s0.notifs)
    (hl : s.lastSeq = s0.lastSeq) (hs : s.seqNext = m.seq + 1) (h : enqueueNotification s m = .ok s') :
    Grow s0 s' := by
  unfold enqueueNotification at h
  split at h
  · cases h
  · rename_i hne
    cases h
    refine ⟨hi, by simp [hs], Or.inr ⟨m, by simp [hn], by omega, by simp; omega⟩⟩

theorem handleStateResult_grow (c : Cfg) (now : Nat) (s s' : Subn) (a : Action) (n : Option Msg)
    (hp : NumPre s n) (h : handleStateResult c now s a n = .ok s') : Grow s s' := by
  cases a with
  | none =>
    cases n with
    | none => simp only [handleStateResult] at h; cases h; exact ⟨rfl, hp, Or.inl ⟨rfl, rfl⟩⟩
    | some m =>
      simp only [handleStateResult] at h
      simp only [NumPre] at hp
      split at h
      · exact enqueue_grow s s s' m rfl rfl rfl hp.2 h
      · cases h; exact ⟨rfl, by simp [hp.1], Or.inl ⟨rfl, rfl⟩⟩
  | keepAlive =>
    cases n with
    | none => simp only [handleStateResult] at h; refine enqueue_grow s _ s' _ ?_ ?_ ?_ ?_ h <;> rfl
    | some m => simp only [handleStateResult] at h; refine enqueue_grow s _ s' _ ?_ ?_ ?_ ?_ h <;> rfl
  | notifications =>
    cases n with
    | none => simp only [handleStateResult] at h; cases h; exact ⟨rfl, hp, Or.inl ⟨rfl, rfl⟩⟩
    | some m =>
      simp only [handleStateResult] at h
      simp only [NumPre] at hp
      exact enqueue_grow s s s' m rfl rfl rfl hp.2 h
  | created =>
    cases n with
    | none => simp only [handleStateResult] at h; cases h; exact ⟨rfl, hp, Or.inl ⟨rfl, rfl⟩⟩
    | some m => simp [handleStateResult] at h
  | expired =>
    cases n with
    | none => simp only [handleStateResult] at h; refine enqueue_grow s _ s' _ ?_ ?_ ?_ ?_ h <;> rfl
    | some m =>
      simp only [handleStateResult] at h
      split at h
      · refine enqueue_grow s _ s' _ ?_ ?_ ?_ ?_ h <;> rfl
      · cases h

theorem elapsedStep_nums (now : Nat) (t : Bool) (s : Subn) :
    (elapsedStep now t s).1.notifs = s.notifs ∧ (elapsedStep now t s).1.id = s.id ∧
    (elapsedStep now t s).1.lastSeq = s.lastSeq ∧ (elapsedStep now t s).1.seqNext = s.seqNext := by
  unfold elapsedStep
  split
  · simp
  · split
    · simp
    · split
      · simp
      · split <;> simp

theorem collectStep_nums (nodes : List (Nat × Nat)) (now : Nat) (el : Bool) (s : Subn)
    (h : s.seqNext = s.lastSeq + 1) :
    (collectStep nodes now el s).1.notifs = s.notifs ∧ (collectStep nodes now el s).1.id = s.id ∧
    (collectStep nodes now el s).1.lastSeq = s.lastSeq ∧
    NumPre (collectStep nodes now el s).1 (collectStep nodes now el s).2 := by
  unfold collectStep
  split
  · exact ⟨rfl, rfl, rfl, h⟩
  · simp only []
    split
    · exact ⟨rfl, rfl, rfl, h⟩
    · exact ⟨rfl, rfl, rfl, by simp [NumPre, h]⟩

/-- one tick of a subscription leaves its queue alone or appends one message with the next sequence
number; the counters stay in step -/
theorem subTick_grow (c : Cfg) (nodes : List (Nat × Nat)) (now : Nat) (t rq : Bool) (s s' : Subn)
    (hs : s.seqNext = s.lastSeq + 1) (h : subTick c nodes now t rq s = .ok s') : Grow s s' := by
  unfold subTick at h
  simp only [] at h
  obtain ⟨a1, a2, a3, a4⟩ := elapsedStep_nums now t s
  obtain ⟨b1, b2, b3, b4⟩ := collectStep_nums nodes now (elapsedStep now t s).2 (elapsedStep now t s).1
    (by rw [a4, a3]; exact hs)
  generalize collectStep nodes now (elapsedStep now t s).2 (elapsedStep now t s).1 = cs at h b1 b2 b3 b4
  obtain ⟨s2, n⟩ := cs
  simp only [] at h b1 b2 b3 b4
  have lift : ∀ u : Subn, u.id = s2.id → u.notifs = s2.notifs → u.lastSeq = s2.lastSeq → Grow u s' → Grow s s' := by
    intro u h1 h2 h3 hg
    obtain ⟨g1, g2, g3⟩ := hg
    refine ⟨by rw [g1, h1, b2, a2], g2, ?_⟩
    rcases g3 with ⟨e1, e2⟩ | ⟨m, e1, e2, e3⟩
    · exact Or.inl ⟨by rw [e1, h2, b1, a1], by rw [e2, h3, b3, a3]⟩
    · exact Or.inr ⟨m, by rw [e1, h2, b1, a1], by rw [e2, h3, b3, a3], by rw [e3, h3, b3, a3]⟩
  split at h
  · have hf := fun p => updateState_frame c s2 (!t) p
    refine lift _ (hf _).2.2.2.2.2 (hf _).1 (hf _).2.1 (handleStateResult_grow c now _ s' _ n ?_ h)
    cases n with
    | none => simp only [NumPre] at b4 ⊢; rw [(hf _).2.2.1, (hf _).2.1]; exact b4
    | some m => simp only [NumPre] at b4 ⊢; rw [(hf _).2.2.1, (hf _).2.1]; exact b4
  · have e : s2 = s' := by cases h; rfl
    subst e
    cases n with
    | none => exact lift s2 rfl rfl rfl ⟨rfl, b4, Or.inl ⟨rfl, rfl⟩⟩
    | some m => rename_i hc; simp at hc

theorem chain_append_iff (a : Nat) (x y : List Nat) :
    chain a (x ++ y) ↔ chain a x ∧ chain (a + x.length) y := by
  induction x generalizing a with
  | nil => simp [chain]
  | cons b bs ih =>
    simp only [List.cons_append, chain, List.length_cons, ih]
    constructor
    · rintro ⟨h1, h2, h3⟩; subst h1; exact ⟨⟨rfl, h2⟩, by rw [show a + (bs.length + 1) = a + 1 + bs.length by omega]; exact h3⟩
    · rintro ⟨⟨h1, h2⟩, h3⟩; subst h1; exact ⟨rfl, h2, by rw [show a + 1 + bs.length = a + (bs.length + 1) by omega]; exact h3⟩

/-- the numbering invariant of subscription `sid` inside a tick; `pre` = what already left the
subscription and the transmission queue (sent and queued responses) -/
def Num (pre : List Msg) (ss : Sess) (trans : List (Nat × Req × Msg)) (sid : Nat) : Prop :=
  chain 0 ((pre ++ pend ss trans sid).map (·.seq)) ∧
  ∀ s, getSub ss.subs sid = some s → (pre ++ pend ss trans sid).length = s.lastSeq ∧ s.seqNext = s.lastSeq + 1

/-- the subscriptions after one subscription was visited (as written in `visit`) -/
def stepSubs (subs : List Subn) (id : Nat) (s1 : Subn) (ms : List Msg) : List Subn :=
  if s1.state = SState.closed ∧ ms.isEmpty = true then subs.filter (fun t => t.id ≠ id)
  else updSub subs { s1 with notifs := ms }

def stepSess (ss : Sess) (reqs : List Req) (subs' : List Subn) : Sess := { ss with reqs := reqs, subs := subs' }

theorem visit_num (c : Cfg) (t : Bool) (sid : Nat) (pre : List Msg) (ids : List Nat) (ss ss' : Sess)
    (trans trans' : List (Nat × Req × Msg)) (h : visit c t ids ss trans = .ok (ss', trans'))
    (hn : Num pre ss trans sid) :
    Num pre ss' trans' sid ∧
    (getSub ss.subs sid = none → getSub ss'.subs sid = none ∧ pend ss' trans' sid = pend ss trans sid) := by
  induction ids generalizing ss trans with
  | nil => simp only [visit] at h; cases h; exact ⟨hn, fun h => ⟨h, rfl⟩⟩
  | cons id ids ih =>
    simp only [visit] at h
    split at h
    · cases h
    · rename_i s hs
      split at h
      · cases h
      · rename_i s1 h1
        have hid : s.id = id := getSub_id _ _ _ hs
        have hhas : hasSub ss.subs id = true := by
          cases hh : hasSub ss.subs id with
          | true => rfl
          | false => rw [(getSub_none_iff _ _).mpr hh] at hs; cases hs
        have hpu := pairUp_transMsgs id sid ss.reqs s1.notifs trans
        have i1 : s1.id = s.id := (subTick_appends c _ _ _ _ s s1 h1).choose_spec.2
        have h' : visit c t ids (stepSess ss (pairUp id ss.reqs s1.notifs trans).1
            (stepSubs ss.subs id s1 (pairUp id ss.reqs s1.notifs trans).2.1))
            (pairUp id ss.reqs s1.notifs trans).2.2 = .ok (ss', trans') := h
        by_cases hsid : sid = id
        · subst hsid
          obtain ⟨hc, hl⟩ := hn
          obtain ⟨hlen, hsn⟩ := hl s hs
          obtain ⟨g1, g2, g3⟩ := subTick_grow c ss.nodes ss.now t (!ss.reqs.isEmpty) s s1 hsn h1
          have hn0 : notifsOf ss.subs sid = s.notifs := by simp [notifsOf, hs]
          simp only [if_true] at hpu
          have hno : notifsOf (stepSubs ss.subs sid s1 (pairUp sid ss.reqs s1.notifs trans).2.1) sid
              = (pairUp sid ss.reqs s1.notifs trans).2.1 := by
            unfold stepSubs
            split
            · rename_i hcl
              rw [notifsOf_filter_ne]; simp only [if_true]
              exact (List.isEmpty_iff.mp hcl.2).symm
            · rw [notifsOf_updSub]; simp [g1, hid, hhas]
          have hget : ∀ u, getSub (stepSubs ss.subs sid s1 (pairUp sid ss.reqs s1.notifs trans).2.1) sid = some u →
              u.lastSeq = s1.lastSeq ∧ u.seqNext = s1.seqNext := by
            intro u hu
            unfold stepSubs at hu
            split at hu
            · rw [getSub_filter_ne] at hu; simp at hu
            · rw [getSub_updSub] at hu
              simp only [g1, hid, if_true, hhas] at hu
              cases hu; exact ⟨rfl, rfl⟩
          have hp : pend (stepSess ss (pairUp sid ss.reqs s1.notifs trans).1
              (stepSubs ss.subs sid s1 (pairUp sid ss.reqs s1.notifs trans).2.1))
              (pairUp sid ss.reqs s1.notifs trans).2.2 sid = transMsgs trans sid ++ s1.notifs := by
            simp only [pend, stepSess]; rw [hno, hpu]
          simp only [pend, hn0] at hc hlen
          have hstep : Num pre (stepSess ss (pairUp sid ss.reqs s1.notifs trans).1
              (stepSubs ss.subs sid s1 (pairUp sid ss.reqs s1.notifs trans).2.1))
              (pairUp sid ss.reqs s1.notifs trans).2.2 sid := by
            rw [Num, hp]
            rcases g3 with ⟨e1, e2⟩ | ⟨m, e1, e2, e3⟩
            · refine ⟨by rw [e1]; exact hc, fun u hu => ?_⟩
              obtain ⟨u1, u2⟩ := hget u hu
              rw [u1, u2, e1, e2]; exact ⟨hlen, by rw [← e2]; exact g2⟩
            · have hre : pre ++ (transMsgs trans sid ++ (s.notifs ++ [m])) =
                  (pre ++ (transMsgs trans sid ++ s.notifs)) ++ [m] := by simp
              refine ⟨?_, fun u hu => ?_⟩
              · rw [e1, hre, List.map_append, chain_append_iff]
                refine ⟨hc, ?_⟩
                simp only [List.map_cons, List.map_nil, chain, and_true, List.length_map]
                rw [hlen, e2]; omega
              · obtain ⟨u1, u2⟩ := hget u hu
                rw [u1, u2, e1]
                refine ⟨?_, g2⟩
                rw [hre, List.length_append, hlen, e3]; simp
          obtain ⟨r1, r2⟩ := ih _ _ h' hstep
          exact ⟨r1, fun hnone => by rw [hs] at hnone; cases hnone⟩
        · -- another subscription is visited: nothing of `sid` changes
          simp only [hsid, if_false, List.append_nil] at hpu
          have hne : ¬ sid = s1.id := by rw [i1, hid]; exact hsid
          have hget : getSub (stepSubs ss.subs id s1 (pairUp id ss.reqs s1.notifs trans).2.1) sid
              = getSub ss.subs sid := by
            unfold stepSubs
            split
            · rw [getSub_filter_ne]; simp [hsid]
            · rw [getSub_updSub]; simp [hne]
          have hpend : pend (stepSess ss (pairUp id ss.reqs s1.notifs trans).1
              (stepSubs ss.subs id s1 (pairUp id ss.reqs s1.notifs trans).2.1))
              (pairUp id ss.reqs s1.notifs trans).2.2 sid = pend ss trans sid := by
            simp only [pend, notifsOf, stepSess]
            rw [hget, hpu]
          have hstep : Num pre (stepSess ss (pairUp id ss.reqs s1.notifs trans).1
              (stepSubs ss.subs id s1 (pairUp id ss.reqs s1.notifs trans).2.1))
              (pairUp id ss.reqs s1.notifs trans).2.2 sid := by
            rw [Num, hpend]
            exact ⟨hn.1, fun u hu => hn.2 u (by rw [← hget]; exact hu)⟩
          obtain ⟨r1, r2⟩ := ih _ _ h' hstep
          refine ⟨r1, fun hnone => ?_⟩
          obtain ⟨q1, q2⟩ := r2 (by show getSub (stepSubs ss.subs id s1 _) sid = none; rw [hget]; exact hnone)
          exact ⟨q1, by rw [q2, hpend]⟩

/-- the numbering invariant of subscription `sid` between ticks; `pre` = what was handed to the transport -/
def NumS (pre : List Msg) (ss : Sess) (sid : Nat) : Prop :=
  chain 0 ((pre ++ inSess ss sid).map (·.seq)) ∧
  ∀ s, getSub ss.subs sid = some s → (pre ++ inSess ss sid).length = s.lastSeq ∧ s.seqNext = s.lastSeq + 1

theorem sessTick_num (c : Cfg) (t : Bool) (ss ss' : Sess) (sid : Nat) (pre : List Msg)
    (h : sessTick c t ss = .ok ss') (hn : NumS pre ss sid) :
    NumS pre ss' sid ∧
    (getSub ss.subs sid = none → getSub ss'.subs sid = none ∧ inSess ss' sid = inSess ss sid) := by
  unfold sessTick at h
  split at h
  · cases h
  · rename_i s1 trans hv
    cases h
    have hn0 : Num (pre ++ respMsgs ss.resps sid) ss [] sid := by
      obtain ⟨c1, c2⟩ := hn
      simp only [inSess] at c1 c2
      refine ⟨by simpa [pend, transMsgs, List.append_assoc] using c1, fun s hs => ?_⟩
      have := c2 s hs
      simpa [pend, transMsgs, List.append_assoc] using this
    obtain ⟨⟨d1, d2⟩, d3⟩ := visit_num c t sid _ _ ss s1 [] trans hv hn0
    obtain ⟨f1, f2⟩ := transmit_flow trans s1 sid
    have hr : s1.resps = ss.resps := (visit_flow c t sid _ ss s1 [] trans hv).2
    have hin : inSess { transmit trans s1 with retrans := cleanup (transmit trans s1).subs (transmit trans s1).retrans } sid
        = respMsgs ss.resps sid ++ pend s1 trans sid := by
      simp only [inSess, pend]
      rw [f1, f2, hr, List.append_assoc]
    refine ⟨⟨?_, fun s hs => ?_⟩, fun hnone => ?_⟩
    · rw [hin, ← List.append_assoc]; exact d1
    · rw [hin, ← List.append_assoc]
      exact d2 s (by simpa [f2] using hs)
    · obtain ⟨q1, q2⟩ := d3 hnone
      refine ⟨by simpa [f2] using q1, ?_⟩
      rw [hin, q2]
      simp [pend, transMsgs, inSess]

theorem publish_num (c : Cfg) (ss ss' : Sess) (rid : Nat) (acks : Option (List (Nat × Nat))) (res : PubRes)
    (sid : Nat) (pre : List Msg) (h : publish c ss rid acks = .ok (ss', res)) (hn : NumS pre ss sid) :
    NumS pre ss' sid ∧
    (getSub ss.subs sid = none → getSub ss'.subs sid = none ∧ inSess ss' sid = inSess ss sid) := by
  unfold publish at h
  split at h
  · cases h; exact ⟨hn, fun h => ⟨h, rfl⟩⟩
  · simp only [] at h
    split at h
    · cases h
    · rename_i s1 hpre
      have h1 : NumS pre s1 sid ∧
          (getSub ss.subs sid = none → getSub s1.subs sid = none ∧ inSess s1 sid = inSess ss sid) := by
        split at hpre
        · exact sessTick_num c false ss s1 sid pre hpre hn
        · cases hpre; exact ⟨hn, fun h => ⟨h, rfl⟩⟩
      obtain ⟨n1, k1⟩ := h1
      split at h
      · cases h; exact ⟨n1, k1⟩
      · split at h
        · cases h
        · rename_i s2 ht
          cases h
          have hmid : ∀ (rt : List ((Nat × Nat) × Msg)) (rq : List Req),
              NumS pre { s1 with retrans := rt, reqs := rq } sid := fun _ _ => n1
          cases acks with
          | none =>
            obtain ⟨n2, k2⟩ := sessTick_num c false _ _ sid pre ht (hmid _ _)
            refine ⟨n2, fun hnone => ?_⟩
            obtain ⟨a1, a2⟩ := k1 hnone
            obtain ⟨b1, b2⟩ := k2 a1
            exact ⟨b1, by rw [b2]; exact a2⟩
          | some as =>
            obtain ⟨n2, k2⟩ := sessTick_num c false _ _ sid pre ht (hmid _ _)
            refine ⟨n2, fun hnone => ?_⟩
            obtain ⟨a1, a2⟩ := k1 hnone
            obtain ⟨b1, b2⟩ := k2 a1
            exact ⟨b1, by rw [b2]; exact a2⟩

theorem visit_next (c : Cfg) (t : Bool) (ids : List Nat) (ss ss' : Sess)
    (trans trans' : List (Nat × Req × Msg)) (h : visit c t ids ss trans = .ok (ss', trans')) :
    ss'.nextSubId = ss.nextSubId := by
  induction ids generalizing ss trans with
  | nil => simp only [visit] at h; cases h; rfl
  | cons id ids ih =>
    simp only [visit] at h
    split at h
    · cases h
    · split at h
      · cases h
      · simpa using ih _ _ h

theorem transmit_next (trans : List (Nat × Req × Msg)) (ss : Sess) :
    (transmit trans ss).nextSubId = ss.nextSubId := by
  induction trans generalizing ss with
  | nil => rfl
  | cons x rest ih => obtain ⟨a, b, c⟩ := x; simp only [transmit]; rw [ih]

theorem sessTick_next (c : Cfg) (t : Bool) (ss ss' : Sess) (h : sessTick c t ss = .ok ss') :
    ss'.nextSubId = ss.nextSubId := by
  unfold sessTick at h
  split at h
  · cases h
  · rename_i s1 trans hv
    cases h
    simp only [transmit_next]
    exact visit_next c t _ ss s1 [] trans hv

theorem publish_next (c : Cfg) (ss ss' : Sess) (rid : Nat) (acks : Option (List (Nat × Nat))) (res : PubRes)
    (h : publish c ss rid acks = .ok (ss', res)) : ss'.nextSubId = ss.nextSubId := by
  unfold publish at h
  split at h
  · cases h; rfl
  · simp only [] at h
    split at h
    · cases h
    · rename_i s1 hpre
      have h1 : s1.nextSubId = ss.nextSubId := by
        split at hpre
        · exact sessTick_next c false ss s1 hpre
        · cases hpre; rfl
      split at h
      · cases h; exact h1
      · split at h
        · cases h
        · rename_i s2 ht
          cases h
          rw [sessTick_next c false _ _ ht]
          cases acks <;> exact h1

/-- the invariant of a whole session history -/
def INV (g : G) : Prop :=
  (∀ sid, NumS (sentMsgs g.sent sid) g.ss sid) ∧
  (∀ sid, g.ss.nextSubId ≤ sid → getSub g.ss.subs sid = none ∧ flow g sid = [])

theorem getSub_append_new (subs : List Subn) (s : Subn) (sid : Nat) :
    getSub (subs ++ [s]) sid = (getSub subs sid).or (if s.id = sid then some s else none) := by
  unfold getSub
  rw [List.find?_append]
  by_cases h : s.id = sid <;> simp [List.find?_cons, h]

/-- an operation that changes neither the queues nor the counters of any subscription keeps the invariant -/
theorem INV_of_frame (g : G) (ss' : Sess) (hi : INV g)
    (h1 : ∀ sid, inSess ss' sid = inSess g.ss sid)
    (h2 : ∀ sid s', getSub ss'.subs sid = some s' →
      ∃ s, getSub g.ss.subs sid = some s ∧ s'.lastSeq = s.lastSeq ∧ s'.seqNext = s.seqNext)
    (h3 : ∀ sid, getSub g.ss.subs sid = none → getSub ss'.subs sid = none)
    (h4 : ss'.nextSubId = g.ss.nextSubId) : INV { g with ss := ss' } := by
  obtain ⟨i1, i2⟩ := hi
  refine ⟨fun sid => ?_, fun sid hle => ?_⟩
  · obtain ⟨c1, c2⟩ := i1 sid
    refine ⟨by simp only []; rw [h1]; exact c1, fun s' hs' => ?_⟩
    obtain ⟨s, e1, e2, e3⟩ := h2 sid s' hs'
    simp only []
    rw [h1, e2, e3]; exact c2 s e1
  · obtain ⟨f1, f2⟩ := i2 sid (by rw [← h4]; exact hle)
    refine ⟨h3 sid f1, ?_⟩
    rw [flow_eq] at f2 ⊢
    simp only []
    rw [h1]; exact f2

theorem chain_prefix (a : Nat) (x y : List Nat) (h : chain a (x ++ y)) : chain a x :=
  ((chain_append_iff a x y).mp h).1

theorem INV_of_UpdShape (g : G) (ss' : Sess) (hi : INV g) (h : UpdShape g.ss ss') : INV { g with ss := ss' } := by
  have hin := inSess_of_UpdShape _ _ h
  rcases h with rfl | ⟨k, s, s2, hs, e1, e2, e3, e4, rfl⟩
  · exact hi
  · have hk : s.id = k := getSub_id _ _ _ hs
    refine INV_of_frame g _ hi hin (fun sid s' hs' => ?_) (fun sid hn => ?_) rfl
    · simp only [] at hs'
      rw [getSub_updSub] at hs'
      split at hs'
      · rename_i hsid
        split at hs'
        · cases hs'
          exact ⟨s, by rw [hsid, e1, hk]; exact hs, e3, e4⟩
        · cases hs'
      · exact ⟨s', hs', rfl, rfl⟩
    · simp only []
      rw [getSub_updSub]
      split
      · have : hasSub g.ss.subs sid = false := (getSub_none_iff _ _).mp hn
        simp [this]
      · exact hn

theorem INV_of_MapShape (g : G) (ss' : Sess) (hi : INV g) (h : MapShape g.ss ss') : INV { g with ss := ss' } := by
  have hin := inSess_of_MapShape _ _ h
  rcases h with rfl | ⟨f, hf, rfl⟩
  · exact hi
  · refine INV_of_frame g _ hi hin (fun sid s' hs' => ?_) (fun sid hn => ?_) rfl
    · simp only [] at hs'
      rw [getSub_map _ _ (fun s => (hf s).1)] at hs'
      cases hg : getSub g.ss.subs sid with
      | none => rw [hg] at hs'; cases hs'
      | some s => rw [hg] at hs'; simp at hs'; subst hs'; exact ⟨s, rfl, (hf s).2.2.1, (hf s).2.2.2⟩
    · simp only []; rw [getSub_map _ _ (fun s => (hf s).1), hn]; rfl

theorem gstep_INV (c : Cfg) (maxQ : Nat) (g g' : G) (op : Op) (hi : INV g)
    (h : gstep c maxQ g op = some g') : INV g' := by
  cases op with
  | createSub p i k l e =>
    simp only [gstep] at h; cases h
    obtain ⟨i1, i2⟩ := hi
    have hin : ∀ sid, inSess (createSub g.ss p i k l e).1 sid = inSess g.ss sid := by
      intro sid; simp only [inSess, createSub]; rw [notifsOf_append_new _ _ rfl]
    refine ⟨fun sid => ?_, fun sid hle => ?_⟩
    · obtain ⟨c1, c2⟩ := i1 sid
      refine ⟨by simp only []; rw [hin]; exact c1, fun s' hs' => ?_⟩
      simp only [] at hs' ⊢
      rw [hin]
      simp only [createSub] at hs'
      rw [getSub_append_new] at hs'
      cases hg : getSub g.ss.subs sid with
      | some s => rw [hg] at hs'; simp at hs'; subst hs'; exact c2 s hg
      | none =>
        rw [hg] at hs'
        simp only [Option.none_or] at hs'
        split at hs'
        · rename_i hid
          cases hs'
          obtain ⟨_, f2⟩ := i2 sid (by omega)
          rw [flow_eq] at f2
          simp [f2]
        · cases hs'
    · simp only [createSub] at hle ⊢
      obtain ⟨f1, f2⟩ := i2 sid (by omega)
      refine ⟨?_, ?_⟩
      · rw [getSub_append_new, f1]
        have : ¬ g.ss.nextSubId = sid := by omega
        simp [this]
      · rw [flow_eq] at f2 ⊢
        have := hin sid
        simp only [createSub] at this
        simp only []; rw [this]; exact f2
  | deleteSub sid' =>
    simp only [gstep] at h; cases h
    unfold deleteSub
    split
    · obtain ⟨i1, i2⟩ := hi
      refine ⟨fun sid => ?_, fun sid hle => ?_⟩
      · obtain ⟨c1, c2⟩ := i1 sid
        by_cases hs : sid = sid'
        · subst hs
          refine ⟨?_, fun s' hs' => ?_⟩
          · simp only [inSess] at c1 ⊢
            rw [notifsOf_filter_ne]; simp only [if_true, List.append_nil]
            rw [← List.append_assoc, List.map_append] at c1
            exact chain_prefix _ _ _ c1
          · simp only [] at hs'; rw [getSub_filter_ne] at hs'; simp at hs'
        · refine ⟨?_, fun s' hs' => ?_⟩
          · simp only [inSess] at c1 ⊢; rw [notifsOf_filter_ne]; simp only [hs, if_false]; exact c1
          · simp only [] at hs' ⊢
            rw [getSub_filter_ne] at hs'; simp only [hs, if_false] at hs'
            simp only [inSess]; rw [notifsOf_filter_ne]; simp only [hs, if_false]
            exact c2 s' hs'
      · obtain ⟨f1, f2⟩ := i2 sid hle
        refine ⟨by simp only []; rw [getSub_filter_ne]; split <;> simp [f1], ?_⟩
        rw [flow_eq] at f2 ⊢
        simp only [inSess] at f2 ⊢
        rw [notifsOf_filter_ne]
        split
        · simp at f2 ⊢; exact ⟨f2.1, f2.2.1⟩
        · exact f2
    · exact hi
  | setPublishing sid' e =>
    simp only [gstep] at h; cases h
    unfold setPublishing
    split
    · refine INV_of_frame g _ hi (fun sid => ?_) (fun sid s' hs' => ?_) (fun sid hn => ?_) rfl
      · simp only [inSess]; rw [notifsOf_map]
        · intro s; split <;> rfl
        · intro s; split <;> rfl
      · simp only [] at hs'
        rw [getSub_map _ _ (by intro s; split <;> rfl)] at hs'
        cases hg : getSub g.ss.subs sid with
        | none => rw [hg] at hs'; cases hs'
        | some s => rw [hg] at hs'; simp at hs'; subst hs'; exact ⟨s, rfl, by split <;> rfl, by split <;> rfl⟩
      · simp only []; rw [getSub_map _ _ (by intro s; split <;> rfl), hn]; rfl
    · exact hi
  | createItem sid' hd' n q d m sp =>
    simp only [gstep] at h; cases h
    unfold createItem
    split
    · exact hi
    · rename_i s hs
      have hk : s.id = sid' := getSub_id _ _ _ hs
      have frame : ∀ s2 : Subn, s2.id = s.id → s2.notifs = s.notifs → s2.lastSeq = s.lastSeq →
          s2.seqNext = s.seqNext → INV { g with ss := { g.ss with subs := updSub g.ss.subs s2 } } := by
        intro s2 e1 e2 e3 e4
        refine INV_of_frame g _ hi (fun sid => ?_) (fun sid s' hs' => ?_) (fun sid hn => ?_) rfl
        · simp only [inSess]; rw [notifsOf_updSub_same _ _ _ _ _ hs e1 e2]
        · simp only [] at hs'
          rw [getSub_updSub] at hs'
          split at hs'
          · rename_i hsid
            split at hs'
            · cases hs'
              exact ⟨s, by rw [hsid, e1, hk]; exact hs, e3, e4⟩
            · cases hs'
          · exact ⟨s', hs', rfl, rfl⟩
        · simp only []
          rw [getSub_updSub]
          split
          · rename_i hsid
            have : hasSub g.ss.subs sid = false := (getSub_none_iff _ _).mp hn
            simp [this]
          · exact hn
      simp only []
      split
      · exact frame _ rfl rfl rfl rfl
      · exact frame _ rfl rfl rfl rfl
  | deleteItem sid' iid =>
    simp only [gstep] at h; cases h
    unfold deleteItem
    split
    · exact hi
    · rename_i s hs
      have hk : s.id = sid' := getSub_id _ _ _ hs
      have frame : ∀ s2 : Subn, s2.id = s.id → s2.notifs = s.notifs → s2.lastSeq = s.lastSeq →
          s2.seqNext = s.seqNext → INV { g with ss := { g.ss with subs := updSub g.ss.subs s2 } } := by
        intro s2 e1 e2 e3 e4
        refine INV_of_frame g _ hi (fun sid => ?_) (fun sid s' hs' => ?_) (fun sid hn => ?_) rfl
        · simp only [inSess]; rw [notifsOf_updSub_same _ _ _ _ _ hs e1 e2]
        · simp only [] at hs'
          rw [getSub_updSub] at hs'
          split at hs'
          · rename_i hsid
            split at hs'
            · cases hs'
              exact ⟨s, by rw [hsid, e1, hk]; exact hs, e3, e4⟩
            · cases hs'
          · exact ⟨s', hs', rfl, rfl⟩
        · simp only []
          rw [getSub_updSub]
          split
          · have : hasSub g.ss.subs sid = false := (getSub_none_iff _ _).mp hn
            simp [this]
          · exact hn
      simp only []
      split
      · exact frame _ rfl rfl rfl rfl
      · exact frame _ rfl rfl rfl rfl
  | write n v =>
    simp only [gstep] at h; cases h
    exact INV_of_frame g _ hi (fun _ => rfl) (fun sid s' hs' => ⟨s', hs', rfl, rfl⟩) (fun _ hn => hn) rfl
  | timer dt =>
    simp only [gstep] at h
    split at h
    · rename_i ss' ht
      cases h
      obtain ⟨i1, i2⟩ := hi
      have hnx : ss'.nextSubId = g.ss.nextSubId := sessTick_next c true { g.ss with now := g.ss.now + dt } ss' ht
      refine ⟨fun sid => (sessTick_num c true _ ss' sid _ ht (i1 sid)).1, fun sid hle => ?_⟩
      obtain ⟨f1, f2⟩ := i2 sid (by rw [← hnx]; exact hle)
      obtain ⟨q1, q2⟩ := (sessTick_num c true _ ss' sid _ ht (i1 sid)).2 f1
      refine ⟨q1, ?_⟩
      rw [flow_eq] at f2 ⊢
      simp only []; rw [q2]; exact f2
    · cases h
  | publish rid acks =>
    have core : ∀ (ss' : Sess) (r : PubRes) (acc : List Nat), publish c g.ss rid acks = .ok (ss', r) →
        INV { g with ss := ss', accepted := acc } := by
      intro ss' r acc hp
      obtain ⟨i1, i2⟩ := hi
      have hnx := publish_next c _ _ rid acks r hp
      refine ⟨fun sid => (publish_num c _ _ rid acks r sid _ hp (i1 sid)).1, fun sid hle => ?_⟩
      obtain ⟨f1, f2⟩ := i2 sid (by rw [← hnx]; exact hle)
      obtain ⟨q1, q2⟩ := (publish_num c _ _ rid acks r sid _ hp (i1 sid)).2 f1
      refine ⟨q1, ?_⟩
      rw [flow_eq] at f2 ⊢
      simp only []; rw [q2]; exact f2
    simp only [gstep] at h
    split at h
    · rename_i ss' hp; cases h; exact core ss' _ _ hp
    · rename_i ss' r hne hp; cases h; exact core ss' r _ hp
    · cases h
  | republish sid' seq =>
    simp only [gstep] at h; cases h
    unfold republish
    split
    · refine INV_of_frame g _ hi (fun sid => ?_) (fun sid s' hs' => ?_) (fun sid hn => ?_) rfl
      · simp only [inSess]; rw [notifsOf_map]
        · intro s; split <;> rfl
        · intro s; split <;> rfl
      · simp only [] at hs'
        rw [getSub_map _ _ (by intro s; split <;> rfl)] at hs'
        cases hg : getSub g.ss.subs sid with
        | none => rw [hg] at hs'; cases hs'
        | some s => rw [hg] at hs'; simp at hs'; subst hs'; exact ⟨s, rfl, by split <;> rfl, by split <;> rfl⟩
      · simp only []; rw [getSub_map _ _ (by intro s; split <;> rfl), hn]; rfl
    · exact hi
  | modifySub sid' p i k l =>
    simp only [gstep] at h; cases h
    exact INV_of_MapShape g _ hi (modifySub_shape _ _ _ _ _ _)
  | setMode sid' iid m =>
    simp only [gstep] at h; cases h
    exact INV_of_UpdShape g _ hi (setMode_shape _ _ _ _)
  | modifyItem sid' iid hd' q d sp =>
    simp only [gstep] at h
    split at h
    · cases h
    · cases h
      exact INV_of_UpdShape g _ hi (modifyItem_shape _ _ _ _ _ _ _ _)
  | setTriggering sid' iid a r =>
    simp only [gstep] at h; cases h
    exact INV_of_UpdShape g _ hi (setTriggering_shape _ _ _ _ _)
  | resend sid' =>
    simp only [gstep] at h; cases h
    exact INV_of_MapShape g _ hi (resendData_shape _ _)
  | take =>
    simp only [gstep, takeResponses] at h; cases h
    obtain ⟨i1, i2⟩ := hi
    have hflow : ∀ sid, sentMsgs (g.sent ++ g.ss.resps.map fun r => (r.subId, r.msg)) sid ++
        inSess { g.ss with resps := [] } sid = sentMsgs g.sent sid ++ inSess g.ss sid := by
      intro sid
      simp [sentMsgs, respMsgs, inSess, List.filter_append, List.filter_map, Function.comp_def, List.map_map]
    refine ⟨fun sid => ?_, fun sid hle => ?_⟩
    · obtain ⟨c1, c2⟩ := i1 sid
      refine ⟨by simp only []; rw [hflow]; exact c1, fun s hs => ?_⟩
      simp only [] at hs ⊢
      rw [hflow]; exact c2 s hs
    · obtain ⟨f1, f2⟩ := i2 sid hle
      refine ⟨f1, ?_⟩
      rw [flow_eq] at f2 ⊢
      simp only []; rw [hflow]; exact f2

theorem INV_init (nodes : List (Nat × Nat)) : INV (ginit nodes) := by
  refine ⟨fun sid => ⟨by simp [ginit, init, sentMsgs, inSess, respMsgs, notifsOf, getSub, chain], ?_⟩, fun sid _ => ?_⟩
  · intro s hs; simp [ginit, init, getSub] at hs
  · simp [ginit, init, getSub, flow, sentMsgs, respMsgs, notifsOf]

theorem grun_INV (c : Cfg) (maxQ : Nat) (ops : List Op) (g g' : G) (hi : INV g)
    (h : grun c maxQ g ops = some g') : INV g' := by
  induction ops generalizing g with
  | nil => simp only [grun] at h; cases h; exact hi
  | cons op ops ih =>
    simp only [grun] at h
    split at h
    · rename_i g1 hs; exact ih g1 (gstep_INV c maxQ g g1 op hi hs) h
    · cases h

/-- **`seq_increasing`, over every history** from the empty session: for every subscription id the
notification messages handed to the transport carry the sequence numbers 1, 2, 3, … in this order
(strictly increasing, consecutive), and they continue through the queued responses and the
subscription's own queue. -/
theorem seq_increasing (c : Cfg) (maxQ : Nat) (nodes : List (Nat × Nat)) (ops : List Op) (g' : G)
    (h : grun c maxQ (ginit nodes) ops = some g') (sid : Nat) :
    chain 0 ((sentMsgs g'.sent sid).map (·.seq)) ∧ chain 0 ((flow g' sid).map (·.seq)) := by
  obtain ⟨i1, _⟩ := grun_INV c maxQ ops _ g' (INV_init nodes) h
  obtain ⟨c1, _⟩ := i1 sid
  refine ⟨?_, by rw [flow_eq]; exact c1⟩
  rw [List.map_append] at c1
  exact chain_prefix _ _ _ c1


/-! ### items → notification -/

/-- what one item hands over on a tick on which the publishing interval elapsed: its whole queue
(oldest first) if it is a reporting item that has something to report, nothing otherwise -/
def handsOver (nodes : List (Nat × Nat)) (now : Nat) (resend : Bool) (it : MItem) : List Entry :=
  let r := itemTick nodes now true resend it
  if r.2 = .report then entriesOf r.1.handle r.1.q.queue else []

theorem drain_spec (q : C24.Item) :
    (match C24.drain q with
     | (q', some d) => (q'.queue, d)
     | (q', none) => (q'.queue, [])) = ([], q.queue) := by
  unfold C24.drain
  cases h : q.queue with
  | nil => simp [h]
  | cons a l => simp [h]

theorem drain_queue_empty (q : C24.Item) : (C24.drain q).1.queue = [] := by
  unfold C24.drain
  cases h : q.queue with
  | nil => simp [h]
  | cons a l => simp [h]

/-- the item after such a tick -/
def afterTick (nodes : List (Nat × Nat)) (now : Nat) (resend : Bool) (it : MItem) : MItem :=
  let r := itemTick nodes now true resend it
  if r.2 = .report then { r.1 with q := (C24.drain r.1.q).1 } else r.1

/-- **items → notification**: on an elapsed interval the data change notification is built from exactly
the queues of the reporting items (in item order, each queue oldest first) and those queues are empty
afterwards (`afterTick`, `drain_queue_empty`) — nothing stays behind and nothing is invented at this link. -/
theorem tickItems_hands_over (nodes : List (Nat × Nat)) (now : Nat) (resend : Bool) (items : List MItem) :
    (tickItems nodes now true resend items).2 = items.flatMap (handsOver nodes now resend) ∧
    (tickItems nodes now true resend items).1 = items.map (afterTick nodes now resend) := by
  induction items with
  | nil => simp [tickItems]
  | cons it rest ih =>
    obtain ⟨ih1, ih2⟩ := ih
    simp only [tickItems, List.flatMap_cons, List.map_cons, ih1, ih2, handsOver, afterTick]
    by_cases hr : (itemTick nodes now true resend it).2 = .report
    · simp only [hr, and_self, if_true]
      have := drain_spec (itemTick nodes now true resend it).1.q
      cases hd : C24.drain (itemTick nodes now true resend it).1.q with
      | mk q' o =>
        rw [hd] at this
        cases o with
        | none => simp only [] at this; simp [← (Prod.mk.inj this).2, entriesOf]
        | some d => simp only [] at this; simp [← (Prod.mk.inj this).2]
    · simp [hr]

theorem afterTick_reported_empty (nodes : List (Nat × Nat)) (now : Nat) (resend : Bool) (it : MItem)
    (h : (itemTick nodes now true resend it).2 = .report) : (afterTick nodes now resend it).q.queue = [] := by
  simp only [afterTick, h, if_true]
  exact drain_queue_empty _

/-- an item that follows the publishing interval and is in Reporting mode samples on every elapsed
interval: a changed value is appended to its queue by the C24 `enqueue` (whose theorems say what an
overflow keeps), and is handed over in the same tick -/
theorem interval_item_reports (nodes : List (Nat × Nat)) (now : Nat) (it : MItem) (v : Nat)
    (hm : it.mode = .reporting) (hs : it.sampling = none) (hv : lookup nodes it.node = some v)
    (hc : it.last ≠ some v) :
    (itemTick nodes now true false it).2 = .report ∧
    (itemTick nodes now true false it).1.q = C24.enqueue it.q (v * handleBase + it.handle) ∧
    (itemTick nodes now true false it).1.last = some v := by
  cases hl : it.last with
  | none => simp [itemTick, hm, hs, checkValue, hv, hl]
  | some l =>
    have hne : ¬ v = l := by intro e; subst e; exact hc hl
    simp [itemTick, hm, hs, checkValue, hv, hl, hne]


/-! ### non-vacuity, the defect that was repaired -/

/-- the probe of DESIGN §6: initial value and three writes over four intervals without a queued
request, then publish requests -/
def probeOps : List Op :=
  [.createSub 0 1 3 20 true, .createItem 1 1 1 1 true .reporting none,
   .timer 1, .timer 1, .write 1 11, .timer 1, .write 1 12, .timer 1, .write 1 13, .timer 1,
   .publish 1 none, .publish 2 none, .publish 3 none, .publish 4 none, .timer 1,
   .publish 5 none, .publish 6 none, .timer 1, .take]

def dataOf (g : G) : List (List Nat) :=
  g.sent.filterMap fun p => match p.2.body with
    | .data es => some (es.map (·.value))
    | _ => none

/-- current source: every sampled value arrives, once, in order; sequence numbers 1,2,3,… -/
example : (grun current 5 (ginit [(1, 0)]) probeOps).map dataOf = some [[0], [11], [12], [13]] := by
  decide +kernel

example : (grun current 5 (ginit [(1, 0)]) probeOps).map (fun g => (g.sent.map (·.2.seq), g.answered))
    = some ([1, 2, 3, 4], [1, 2, 3, 4]) := by decide +kernel

/-- **The repaired defect** (pinned source): the same history delivers no value at all — the
notifications collected while no publish request was queued were discarded after the item queue had
been drained; the client only ever sees keep-alives. -/
theorem C21_counterexample_no_request :
    (grun pinned 5 (ginit [(1, 0)]) probeOps).map dataOf = some [] := by decide +kernel

/-- a state satisfying the hypotheses of `collected_is_queued`: enabled, not expiring, data collected -/
def demoSub : Subn := {
  id := 1, priority := 0, interval := 1, maxLife := 20, maxKa := 3, state := .normal, life := 20, ka := 3,
  firstSent := false, enabled := true, resend := false, seqNext := 1, lastSeq := 0, nextItemId := 2,
  lastElapsed := none,
  notifs := [],
  items := [{ id := 1, handle := 1, node := 1, mode := .reporting, sampling := none, lastSample := none,
              q := C24.mk 5 1 true, last := none, triggers := [] }] }

example : demoSub.enabled = true ∧ ¬ Expiring demoSub ∧ SeqInv demoSub ∧
    (collectStep [(1, 0)] 1 (elapsedStep 1 true demoSub).2 (elapsedStep 1 true demoSub).1).2.isSome = true := by
  refine ⟨rfl, ?_, ⟨0, trivial, rfl, rfl⟩, by decide +kernel⟩
  unfold Expiring; decide

end OpcuaVerif.C21
