import OpcuaVerif.Lemmas.EncFaultRec
import OpcuaVerif.Lemmas.EncSchemaFault
import OpcuaVerif.Lemmas.EncTcpFault
import OpcuaVerif.Generated.Schemas

/-!
C02 — Decoding arbitrary bytes never panics, overflows the stack or over-allocates.
Property theorems only.

Model: `OpcuaVerif.Model.Enc`.  A decoder returns `ok v rest | err | fault f` with
`f ∈ {stack, alloc, panic}`: `stack` = the native recursion of the decoder family
(`Variant::decode` → `decode_variant_value` → `DataValue::decode` / `DiagnosticInfo::decode` → …)
needed more than `fuel` frames; `alloc` = a single allocation request (`vec![0; n]`,
`Vec::with_capacity(n)`, in elements) above `cap`; `panic` = the `chrono` overflow in
`DateTime::from(i64)` (the only panic site on the decode paths).  `lk = true` is the current source.
-/
namespace OpcuaVerif.C02
open OpcuaVerif.Enc

/-- the stack (frames of the recursive family) that always suffices under `o` -/
def stackBound (o : Opts) : Nat := 3 * o.maxDepth + 3

/-- **Totality**: with `stackBound o` frames and an allocation budget that covers the configured
limits, decoding ANY bytes as a Variant returns a value or an error — no panic, no stack
exhaustion, no allocation request above the limits. -/
theorem dec_total_variant (o : Opts) (cap : Nat) (hc : CapOK o cap) (fuel : Nat) (b : Bytes)
    (hf : stackBound o ≤ fuel) : (decV o cap true fuel 0 b).isFault = none := by
  have h := (no_fault o cap hc fuel).1 0 b (by unfold stackBound at hf; omega)
  cases hr : decV o cap true fuel 0 b with
  | fault k => rw [hr] at h; exact h.elim
  | ok v r => rfl
  | err => rfl

theorem dec_total_data_value (o : Opts) (cap : Nat) (hc : CapOK o cap) (fuel : Nat) (b : Bytes)
    (hf : stackBound o ≤ fuel) : (decDV o cap true fuel 0 b).isFault = none := by
  have h := (no_fault o cap hc fuel).2.2.1 0 b (by unfold stackBound at hf; omega)
  cases hr : decDV o cap true fuel 0 b with
  | fault k => rw [hr] at h; exact h.elim
  | ok v r => rfl
  | err => rfl

theorem dec_total_diagnostic_info (o : Opts) (cap : Nat) (hc : CapOK o cap) (fuel : Nat) (b : Bytes)
    (hf : stackBound o ≤ fuel) : (decDI o cap true fuel 0 b).isFault = none := by
  have h := (no_fault o cap hc fuel).2.2.2 0 b (by unfold stackBound at hf; omega)
  cases hr : decDI o cap true fuel 0 b with
  | fault k => rw [hr] at h; exact h.elim
  | ok v r => rfl
  | err => rfl

/-- **No panic, no over-allocation — independently of the stack** (and for both lock variants):
whatever the fuel, the only fault possible is stack exhaustion. -/
theorem dec_no_panic_no_overalloc (o : Opts) (cap : Nat) (lk : Bool) (hc : CapOK o cap) (fuel d : Nat)
    (b : Bytes) (f : Fault) (h : decV o cap lk fuel d b = .fault f) : f = .stack := by
  have := (only_stack o cap lk hc fuel).1 d b
  rw [h] at this
  exact this

/-- the allocation bound is tight in the sense of the model: a budget below a limit can be
exceeded (a 4-byte string request under `cap = 3`) -/
theorem alloc_request_reaches_limit :
    (decV Opts.default 3 true 10 0 [12, 4, 0, 0, 0, 97, 98, 99, 100]).isFault = some .alloc := by
  decide

/-- **Depth limit enforced**: everything a decoder hands out nests within the configured depth
(each Variant-in-Variant, DataValue, DiagnosticInfo level and each ExtensionObject holds a lock). -/
theorem depth_limit_enforced (o : Opts) (cap fuel d : Nat) (b : Bytes) (v : V) (r : Bytes)
    (h : decV o cap true fuel d b = .ok v r) : DepV o d v :=
  Res.all_of_ok ((depth_sound o cap fuel).1 d b) h

theorem depth_limit_enforced_data_value (o : Opts) (cap fuel d : Nat) (b : Bytes) (v : DV) (r : Bytes)
    (h : decDV o cap true fuel d b = .ok v r) : DepDV o d v :=
  Res.all_of_ok ((depth_sound o cap fuel).2.2.1 d b) h

theorem depth_limit_enforced_diagnostic_info (o : Opts) (cap fuel d : Nat) (b : Bytes) (v : DI) (r : Bytes)
    (h : decDI o cap true fuel d b = .ok v r) : DepDI o d v :=
  Res.all_of_ok ((depth_sound o cap fuel).2.2.2 d b) h

/-- **Deep nesting is rejected, cheaply**: `n > maxDepth` nested `DataValue{Variant::DataValue…}`
prefixes are answered with an error using at most `3·maxDepth + 1` frames, for every `n`. -/
theorem nested_data_value_rejected (o : Opts) (cap n fuel : Nat) (tail : Bytes) (hn : o.maxDepth < n)
    (hf : 3 * o.maxDepth + 1 ≤ fuel) : decDV o cap true fuel 0 (nestDV n tail) = .err :=
  new_dv_rejected o cap tail n 0 fuel (by omega) (by omega)

/-- `MessageChunk::decode` is total and asks for at most `max_message_size` bytes (or at most
2^32 − 1, the wire bound, when no maximum is configured). -/
theorem chunk_total (o : Opts) (cap : Nat) (b : Bytes)
    (h1 : o.maxMsg > 0 → o.maxMsg ≤ cap) (h2 : o.maxMsg = 0 → 4294967295 ≤ cap) :
    (decChunk o cap b).isFault = none := by
  have h := decChunk_noFault o cap b h1 h2
  cases hr : decChunk o cap b with
  | fault k => rw [hr] at h; exact h.elim
  | ok v r => rfl
  | err => rfl

/-! ### the defect that was repaired (`lk = false`: no depth lock in DataValue / DiagnosticInfo) -/

/-- Before the fix the native recursion was unbounded: for EVERY stack size `3n` there is an
input (`n` nested `01 17` prefixes, 2n bytes) that exhausts it — under every decoding option. -/
theorem C02_counterexample_data_value_unbounded (o : Opts) (cap n : Nat) (tail : Bytes) :
    decDV o cap false (3 * n) 0 (nestDV n tail) = .fault .stack :=
  old_dv_unbounded o cap 0 n tail

/-- Same for the inner diagnostic info (`40` prefixes). -/
theorem C02_counterexample_diagnostic_info_unbounded (o : Opts) (cap n : Nat) (tail : Bytes) :
    decDI o cap false n 0 (nestDI n tail) = .fault .stack :=
  old_di_unbounded o cap 0 n tail

/-! ### non-vacuity -/

example : CapOK Opts.default 65535 := by simp [CapOK, Opts.default]
example : stackBound Opts.default = 33 := by decide
/-- 12 nested DataValues under the default depth 10: an error with 33 frames -/
example : decDV Opts.default 65535 true 33 0 (nestDV 12 [0]) = .err :=
  nested_data_value_rejected Opts.default 65535 12 33 [0] (by decide) (by decide)
/-- … while 3 levels decode -/
example : (decDV Opts.default 65535 true 33 0 (nestDV 3 [0])).val?.isSome = true := by decide

/-! ### generated service structures (schemas regenerated from the source by translator T1) -/

/-- **Totality for every generated request / response structure**: decoding ANY bytes as ANY
schema — in particular each of the 283 in `Gen.schemas` — returns a value or an error: no panic, no
stack exhaustion (embedded Variants are the only recursion), no allocation above the limits
(`read_array` checks `max_array_length` before `Vec::with_capacity`). -/
theorem dec_total_schema (o : Opts) (cap : Nat) (hc : CapOK o cap) (fuel : Nat) (hf : stackBound o ≤ fuel)
    (t : Ty) (b : Bytes) : (decS o cap fuel t 0 b).isFault = none := by
  have h := decS_noFault o cap fuel hc (by unfold stackBound at hf; omega) t 0 b
  cases hr : decS o cap fuel t 0 b with
  | fault k => rw [hr] at h; exact h.elim
  | ok v r => rfl
  | err => rfl

example : (Gen.schemas.lookup "ReadRequest").isSome = true := by decide +kernel

/-! ### UA-TCP messages, message headers and the object-id dispatch -/

private theorem isFault_none_of_noFault {α : Type} {x : Res α} (h : x.NoFault) : x.isFault = none := by
  cases x with
  | fault k => exact h.elim
  | ok v r => rfl
  | err => rfl

/-- `MessageHeader::decode` is total on all bytes -/
theorem msg_header_total (b : Bytes) : (decMsgHeader b).isFault = none :=
  isFault_none_of_noFault (decMsgHeader_noFault b)

/-- `MessageChunkHeader::decode` is total on all bytes -/
theorem chunk_header_total (b : Bytes) : (decChunkHeader b).isFault = none :=
  isFault_none_of_noFault (decChunkHeader_noFault b)

/-- `HelloMessage::decode`: total; the endpoint url is bounded by `max_string_length` -/
theorem hello_total (o : Opts) (cap : Nat) (hc : o.maxStr ≤ cap) (b : Bytes) :
    (decHello o cap b).isFault = none := isFault_none_of_noFault (decHello_noFault o cap b hc)

/-- `AcknowledgeMessage::decode` is total -/
theorem ack_total (b : Bytes) : (decAck b).isFault = none := isFault_none_of_noFault (decAck_noFault b)

/-- `ErrorMessage::decode` is total -/
theorem error_msg_total (o : Opts) (cap : Nat) (hc : o.maxStr ≤ cap) (b : Bytes) :
    (decErrorMsg o cap b).isFault = none := isFault_none_of_noFault (decErrorMsg_noFault o cap b hc)

/-- **`SupportedMessage::decode_by_object_id` is total**, for every dispatch table (in particular the
regenerated `Gen.dispatchTable` with its 77 entries), every object id — known, unknown to the
dispatch (→ `Invalid`, nothing read) — and all bytes. -/
theorem dispatch_total (o : Opts) (cap : Nat) (hc : CapOK o cap) (fuel : Nat) (hf : stackBound o ≤ fuel)
    (table : List (Nat × Ty)) (id : Nat) (b : Bytes) :
    (decByObjectId o cap fuel table id b).isFault = none :=
  isFault_none_of_noFault
    (decByObjectId_noFault o cap fuel hc (by unfold stackBound at hf; omega) table id b)

/-- an object id outside the dispatch table reads nothing and yields `Invalid` -/
theorem dispatch_unknown_id (o : Opts) (cap fuel : Nat) (table : List (Nat × Ty)) (id : Nat) (b : Bytes)
    (h : table.lookup id = none) : decByObjectId o cap fuel table id b = .ok none b := by
  simp [decByObjectId, h]

/-- regenerated: the dispatch table has 77 entries with distinct ids, all of them `ObjectId`s -/
theorem dispatch_table_regular :
    Gen.dispatchTable.length = 77 ∧ (Gen.dispatchTable.map (·.1)).Nodup
      ∧ (Gen.dispatchTable.all fun p => Gen.objectIds.contains p.1) = true := by decide +kernel

/-- current `MessageHeader::read_bytes`: total, allocation bounded by `max_message_size` -/
theorem read_bytes_total (o : Opts) (cap : Nat) (b : Bytes)
    (h1 : o.maxMsg > 0 → o.maxMsg ≤ cap) (h2 : o.maxMsg = 0 → 4294967295 ≤ cap) :
    (readBytes true o cap b).isFault = none := isFault_none_of_noFault (readBytes_noFault o cap b h1 h2)

/-- before the fix: a declared size below the 8 header bytes panicked (`result[8..]` of a shorter
vector), e.g. `HELF` + size 3 -/
theorem C02_counterexample_read_bytes_panics (o : Opts) :
    (readBytes false o 1000 [72, 69, 76, 70, 3, 0, 0, 0]).isFault = some .panic := by
  simp [readBytes, msgType, rd32, guardAlloc, Res.isFault]

/-- before the fix: the declared size (up to 2^32 − 1) was allocated whatever `max_message_size` said -/
theorem C02_counterexample_read_bytes_unbounded_alloc (o : Opts) :
    (readBytes false o 65535 [72, 69, 76, 70, 255, 255, 255, 255]).isFault = some .alloc := by
  simp [readBytes, msgType, rd32, guardAlloc, Res.isFault]

end OpcuaVerif.C02
