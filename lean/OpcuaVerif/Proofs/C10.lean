import OpcuaVerif.Model.C10
import OpcuaVerif.Proofs.C11
import OpcuaVerif.Proofs.SrvConn

/-!
C10 — Memory held for an incomplete incoming message is bounded.
Server: see `Proofs/SrvConn.lean` — `pending_bounded` (invariant over every frame history, all chunk
types and flags), `over_count_closes`, `over_size_closes`, `unbounded_grows`,
`C10_counterexample_unbounded_opn` (pinned source).  Framing layer: `oversize_rejected`,
`retained_bounded`, `C10_counterexample_codec_waits` (pinned source).
-/
namespace OpcuaVerif.C10
open OpcuaVerif.C11 OpcuaVerif.C12

/-! ### framing layer -/

/-- **An oversized declared frame is rejected at once**: as soon as the 8 header bytes (and one
more byte) are in the buffer, whatever else is or is not there. -/
theorem oversize_rejected (o : Opts) (t0 t1 t2 t3 : Nat) (rest : Bytes) (size : Nat) (tail : Bytes)
    (he : o.early = true) (hm : o.maxMsg > 0) (hr : readU32 rest = some (size, tail)) (hbig : size > o.maxMsg)
    (hlen : (t0 :: t1 :: t2 :: t3 :: rest).length > 8) :
    decodeStep o (t0 :: t1 :: t2 :: t3 :: rest) = .error := by
  unfold decodeStep
  rw [if_pos hlen]
  simp only [hr]
  rw [if_pos ⟨he, hm, hbig⟩]

/-- if `decode` asks for more bytes, the buffer is small -/
theorem none_small (o : Opts) (b : Bytes) (he : o.early = true) (hm : o.maxMsg > 0)
    (h : decodeStep o b = .none) : b.length ≤ max o.maxMsg 8 := by
  unfold decodeStep at h
  by_cases hl : b.length > 8
  · rw [if_pos hl] at h
    match b, h with
    | t0 :: t1 :: t2 :: t3 :: r', h =>
      cases hr : readU32 r' with
      | none =>
        -- impossible: more than 8 bytes
        exfalso
        match r', hr with
        | [], _ => simp at hl
        | [_], _ => simp at hl
        | [_, _], _ => simp at hl
        | [_, _, _], _ => simp at hl
        | _ :: _ :: _ :: _ :: _, hr => simp [readU32] at hr
      | some p =>
        obtain ⟨size, r2⟩ := p
        simp only [hr] at h
        by_cases hbig : o.early = true ∧ o.maxMsg > 0 ∧ size > o.maxMsg
        · rw [if_pos hbig] at h; simp at h
        · rw [if_neg hbig] at h
          by_cases hs : (t0 :: t1 :: t2 :: t3 :: r').length ≥ size
          · rw [if_pos hs] at h
            cases hp : parse o (mtype t0 t1 t2 t3) ((t0 :: t1 :: t2 :: t3 :: r').take size) <;> simp [hp] at h
          · have : size ≤ o.maxMsg := by
              by_cases hh : size > o.maxMsg
              · exact absurd ⟨he, hm, hh⟩ hbig
              · omega
            omega
  · omega

/-- **The codec never retains more than `max(max_message_size, 8)` bytes** waiting for the rest of
a frame, however the peer declares sizes and however the stream is segmented. -/
theorem retained_bounded (o : Opts) (he : o.early = true) (hm : o.maxMsg > 0) (segs : List Bytes)
    (r : Bytes) (h : (feedAll o (some []) segs).2 = some r) : r.length ≤ max o.maxMsg 8 := by
  rw [feedAll_eq o segs [] (drain_nil o)] at h
  simp only [List.nil_append] at h
  cases hd : drain o segs.flatten with
  | mk fs t =>
    rw [hd] at h
    cases t with
    | err => simp [tailState] at h
    | more r' =>
      simp [tailState] at h
      subst h
      have hr := drain_rest o _ segs.flatten fs r' (Nat.le_refl _) hd
      rw [drain_eq] at hr
      cases hs : decodeStep o r' with
      | none => exact none_small o r' he hm hs
      | error => simp [hs] at hr
      | frame f x => simp [hs] at hr

/-- pinned source: a 9-byte buffer whose header declares `u32::MAX` bytes just waits, although the
limit is 16 -/
theorem C10_counterexample_codec_waits :
    decodeStep ⟨16, 100, false⟩ [77, 83, 71, 70, 255, 255, 255, 255, 0] = .none ∧
    decodeStep ⟨16, 100, true⟩ [77, 83, 71, 70, 255, 255, 255, 255, 0] = .error := by
  constructor <;> decide

end OpcuaVerif.C10
