import OpcuaVerif.Model.C10
import OpcuaVerif.Proofs.C11

/-!
C10 — Memory held for an incomplete incoming message is bounded.
Server: `pending_bounded` (invariant over every chunk history), `over_limit_closes`,
`C10_counterexample_unbounded` (pinned source).  Framing layer: `oversize_rejected`,
`retained_bounded`, `C10_counterexample_codec_waits` (pinned source).
-/
namespace OpcuaVerif.C10
open OpcuaVerif.C11 OpcuaVerif.C12

/-- the limits hold for what is buffered -/
def Bounded (s : Srv) : Prop :=
  (s.maxChunks > 0 → s.pending.length ≤ s.maxChunks) ∧ (s.maxMsg > 0 → s.bytes ≤ s.maxMsg)

theorem sum_append_single (l : List Nat) (n : Nat) : (l ++ [n]).sum = l.sum + n := by
  induction l with
  | nil => simp
  | cons a r ih => simp [ih]; omega

/-- one chunk: limits unchanged, bound preserved -/
theorem chunk_bounded (s : Srv) (c : CI) (f : Fin) (size : Nat) (h : Bounded s) :
    Bounded (s.chunk true c f size).1 ∧ (s.chunk true c f size).1.maxChunks = s.maxChunks ∧
    (s.chunk true c f size).1.maxMsg = s.maxMsg := by
  obtain ⟨h1, h2⟩ := h
  unfold Srv.chunk
  split
  · exact ⟨⟨h1, h2⟩, rfl, rfl⟩
  · cases f with
    | abort => simp [Bounded, Srv.bytes]
    | intermediate =>
      simp only [true_and]
      split
      · simp [Bounded, Srv.bytes]
      · rename_i hc
        split
        · simp [Bounded, Srv.bytes]
        · rename_i hb
          simp only [↓reduceIte]
          constructor
          · constructor
            · intro hp; simp only [List.length_append, List.length_singleton]; simp at hc; have := hc hp; omega
            · intro hp
              simp only [Srv.bytes, List.map_append, List.map_cons, List.map_nil, sum_append_single]
              simp only [Srv.bytes] at hb
              simp at hb
              have := hb hp; omega
          · simp
    | final =>
      simp only [true_and]
      split
      · simp [Bounded, Srv.bytes]
      · split
        · simp [Bounded, Srv.bytes]
        · simp only [reduceCtorEq, ↓reduceIte]
          cases recv s.last s.chanId (List.map (fun p => some p.1) (s.pending ++ [(c, size)])) with
          | err e => simp [Bounded, Srv.bytes]
          | panic => simp [Bounded, Srv.bytes]
          | ok l =>
            simp only
            split
            · simp [Bounded, Srv.bytes]
            · split <;> simp [Bounded, Srv.bytes]

/-- **The server never holds more than the limits.** After any history of chunks (valid or not,
intermediate, final, abort) on an open connection, the number of buffered chunks is at most
`max_chunk_count` and their bytes at most `max_message_size` (each when non-zero). -/
theorem pending_bounded : ∀ (h : List (CI × Fin × Nat)) (s : Srv), Bounded s →
    Bounded (Srv.run true s h) ∧ (Srv.run true s h).maxChunks = s.maxChunks ∧ (Srv.run true s h).maxMsg = s.maxMsg := by
  intro h
  induction h with
  | nil => intro s hb; exact ⟨hb, rfl, rfl⟩
  | cons x r ih =>
    intro s hb
    obtain ⟨c, f, n⟩ := x
    simp only [Srv.run]
    obtain ⟨b1, e1, e2⟩ := chunk_bounded s c f n hb
    obtain ⟨b2, e3, e4⟩ := ih _ b1
    exact ⟨b2, by rw [e3, e1], by rw [e4, e2]⟩

/-- a peer exceeding the chunk-count limit gets an error and the connection is closed -/
theorem over_count_closes (s : Srv) (c : CI) (f : Fin) (size : Nat) (hopen : s.closed = false) (hf : f ≠ .abort)
    (hp : s.maxChunks > 0) (hfull : s.pending.length ≥ s.maxChunks) :
    (s.chunk true c f size).2 = .rejected "BadEncodingLimitsExceeded" ∧ (s.chunk true c f size).1.closed = true ∧
    (s.chunk true c f size).1.pending = [] := by
  unfold Srv.chunk
  cases f with
  | abort => exact absurd rfl hf
  | intermediate => simp [hopen, hp, hfull]
  | final => simp [hopen, hp, hfull]

/-- … and likewise for the byte limit -/
theorem over_size_closes (s : Srv) (c : CI) (f : Fin) (size : Nat) (hopen : s.closed = false) (hf : f ≠ .abort)
    (hcount : ¬ (s.maxChunks > 0 ∧ s.pending.length ≥ s.maxChunks))
    (hp : s.maxMsg > 0) (hbig : s.bytes + size > s.maxMsg) :
    (s.chunk true c f size).2 = .rejected "BadTcpMessageTooLarge" ∧ (s.chunk true c f size).1.closed = true ∧
    (s.chunk true c f size).1.pending = [] := by
  unfold Srv.chunk
  cases f with
  | abort => exact absurd rfl hf
  | intermediate => simp [hopen, hcount, hp, hbig]
  | final => simp [hopen, hcount, hp, hbig]

def srv0 (mc mm : Nat) : Srv :=
  { maxChunks := mc, maxMsg := mm, l0 := 70, chanId := 1, last := 1, pending := [], closed := false }

theorem srv0_bounded (mc mm : Nat) : Bounded (srv0 mc mm) := by simp [Bounded, srv0, Srv.bytes]

/-- pinned source (no limit check): `n` intermediate chunks are all kept, whatever the limits -/
theorem unbounded_grows (c : CI) (size : Nat) : ∀ (n : Nat) (s : Srv), s.closed = false →
    (Srv.run false s (List.replicate n (c, Fin.intermediate, size))).pending.length = s.pending.length + n := by
  intro n
  induction n with
  | zero => intro s _; rfl
  | succ n ih =>
    intro s hs
    simp only [List.replicate_succ, Srv.run]
    have h1 : (s.chunk false c .intermediate size).1 = { s with pending := s.pending ++ [(c, size)] } := by
      simp [Srv.chunk, hs]
    rw [h1, ih _ (by simpa using hs)]
    simp; omega

/-- pinned source: 2000 identical intermediate chunks are accepted with `max_chunk_count = 5` -/
theorem C10_counterexample_unbounded :
    (Srv.run false (srv0 5 327675) (List.replicate 2000 (⟨1, 2, 9⟩, Fin.intermediate, 8196))).pending.length = 2000 := by
  rw [unbounded_grows ⟨1, 2, 9⟩ 8196 2000 (srv0 5 327675) rfl]
  rfl

/-- after the fix the sixth chunk is refused -/
example : (Srv.run true (srv0 5 327675) (List.replicate 2000 (⟨1, 2, 9⟩, Fin.intermediate, 8196))).pending.length ≤ 5 := by
  obtain ⟨b, e1, _⟩ := pending_bounded (List.replicate 2000 (⟨1, 2, 9⟩, Fin.intermediate, 8196)) _ (srv0_bounded 5 327675)
  have h := b.1
  rw [e1] at h
  exact h (by decide)

/-! ### framing layer -/

/-- **An oversized declared frame is rejected at once**: as soon as the 8 header bytes (and one
more byte) are in the buffer, whatever else is or is not there. -/
theorem oversize_rejected (o : Opts) (t0 t1 t2 t3 : Nat) (rest : Bytes) (size : Nat) (tail : Bytes)
    (he : o.early = true) (hm : o.maxMsg > 0) (hr : readU32 rest = some (size, tail)) (hbig : size > o.maxMsg)
    (hlen : (t0 :: t1 :: t2 :: t3 :: rest).length > 8) :
    decodeStep o (t0 :: t1 :: t2 :: t3 :: rest) = .error := by
  unfold decodeStep
  rw [if_pos hlen]
  simp only [hr]
  rw [if_pos ⟨he, hm, hbig⟩]

/-- if `decode` asks for more bytes, the buffer is small -/
theorem none_small (o : Opts) (b : Bytes) (he : o.early = true) (hm : o.maxMsg > 0)
    (h : decodeStep o b = .none) : b.length ≤ max o.maxMsg 8 := by
  unfold decodeStep at h
  by_cases hl : b.length > 8
  · rw [if_pos hl] at h
    match b, h with
    | t0 :: t1 :: t2 :: t3 :: r', h =>
      cases hr : readU32 r' with
      | none =>
        -- impossible: more than 8 bytes
        exfalso
        match r', hr with
        | [], _ => simp at hl
        | [_], _ => simp at hl
        | [_, _], _ => simp at hl
        | [_, _, _], _ => simp at hl
        | _ :: _ :: _ :: _ :: _, hr => simp [readU32] at hr
      | some p =>
        obtain ⟨size, r2⟩ := p
        simp only [hr] at h
        by_cases hbig : o.early = true ∧ o.maxMsg > 0 ∧ size > o.maxMsg
        · rw [if_pos hbig] at h; simp at h
        · rw [if_neg hbig] at h
          by_cases hs : (t0 :: t1 :: t2 :: t3 :: r').length ≥ size
          · rw [if_pos hs] at h
            cases hp : parse o (mtype t0 t1 t2 t3) ((t0 :: t1 :: t2 :: t3 :: r').take size) <;> simp [hp] at h
          · have : size ≤ o.maxMsg := by
              by_cases hh : size > o.maxMsg
              · exact absurd ⟨he, hm, hh⟩ hbig
              · omega
            omega
  · omega

/-- **The codec never retains more than `max(max_message_size, 8)` bytes** waiting for the rest of
a frame, however the peer declares sizes and however the stream is segmented. -/
theorem retained_bounded (o : Opts) (he : o.early = true) (hm : o.maxMsg > 0) (segs : List Bytes)
    (r : Bytes) (h : (feedAll o (some []) segs).2 = some r) : r.length ≤ max o.maxMsg 8 := by
  rw [feedAll_eq o segs [] (drain_nil o)] at h
  simp only [List.nil_append] at h
  cases hd : drain o segs.flatten with
  | mk fs t =>
    rw [hd] at h
    cases t with
    | err => simp [tailState] at h
    | more r' =>
      simp [tailState] at h
      subst h
      have hr := drain_rest o _ segs.flatten fs r' (Nat.le_refl _) hd
      rw [drain_eq] at hr
      cases hs : decodeStep o r' with
      | none => exact none_small o r' he hm hs
      | error => simp [hs] at hr
      | frame f x => simp [hs] at hr

/-- pinned source: a 9-byte buffer whose header declares `u32::MAX` bytes just waits, although the
limit is 16 -/
theorem C10_counterexample_codec_waits :
    decodeStep ⟨16, 100, false⟩ [77, 83, 71, 70, 255, 255, 255, 255, 0] = .none ∧
    decodeStep ⟨16, 100, true⟩ [77, 83, 71, 70, 255, 255, 255, 255, 0] = .error := by
  constructor <;> decide

end OpcuaVerif.C10
