import OpcuaVerif.Model.C25

/-!
C25 — Data change filters report exactly the changes they describe.
Property theorems only.  The model is `OpcuaVerif.Model.C25`; `current` is the repository copy after
the `fix:` commits, `pinned` the source before them (counterexample theorems only).
-/
namespace OpcuaVerif.C25

/-! ### what "the value changed" means for an accepted filter -/

/-- The value part of the specification: with no deadband, or when one of the two values is not
numeric, the values differ by plain comparison; with an absolute deadband `d` two numeric values
differ when `|v - last|` (in `f64` arithmetic, as the code computes it) is not within `d`. -/
def valueChanged (f : DCF) (v last : Val) : Bool :=
  match v, last with
  | .null, .null => false
  | .null, _ => true
  | _, .null => true
  | v, last =>
    if f.dbType = 0 then !veq v last
    else match asF64 v, asF64 last with
      | some a, some b => !fle (fabs (fsub a b)) (decode64 f.dbVal)
      | _, _ => !veq v last

/-- the filters `from_filter` lets through -/
def accepts (f : DCF) : Bool :=
  match fromFilter current (some f) with
  | .ok _ => true
  | .error _ => false

def Accepted (f : DCF) : Prop := accepts f = true

instance (f : DCF) : Decidable (Accepted f) := by unfold Accepted; infer_instance

theorem fromFilter_some (f : DCF) :
    fromFilter current (some f) =
      if f.trigger > 2 then .error .unexpected
      else if f.dbType = 2 then .error .unsupported
      else if f.dbType ≠ 0 ∧ (f.dbType ≠ 1 ∨ fge0 (decode64 f.dbVal) = false) then .error .deadbandInvalid
      else .ok (.dcf f) := by
  simp [fromFilter, current]

theorem accepted_iff (f : DCF) :
    Accepted f ↔ f.trigger ≤ 2 ∧ (f.dbType = 0 ∨ (f.dbType = 1 ∧ fge0 (decode64 f.dbVal) = true)) := by
  unfold Accepted accepts
  rw [fromFilter_some]
  by_cases h0 : f.trigger > 2
  · simp [h0]; omega
  · by_cases h2 : f.dbType = 2
    · simp [h0, h2]
    · by_cases h1 : f.dbType = 0
      · simp [h0, h1]; omega
      · by_cases h3 : f.dbType = 1
        · by_cases h4 : fge0 (decode64 f.dbVal) = true
          · simp [h0, h3, h4]; omega
          · simp [h0, h3, h4]
        · simp [h0, h1, h2, h3]

theorem accepted_ok (f : DCF) : Accepted f ↔ fromFilter current (some f) = .ok (.dcf f) := by
  unfold Accepted accepts
  rw [fromFilter_some]
  by_cases h0 : f.trigger > 2
  · simp [h0]
  · by_cases h2 : f.dbType = 2
    · simp [h0, h2]
    · by_cases h3 : f.dbType ≠ 0 ∧ (f.dbType ≠ 1 ∨ fge0 (decode64 f.dbVal) = false)
      · rw [if_neg h0, if_neg h2, if_pos h3]; simp
      · rw [if_neg h0, if_neg h2, if_neg h3]; simp

/-- whatever `from_filter` returns `ok` for is either no filter or an accepted filter -/
theorem fromFilter_ok (o : Option DCF) (flt : Filter) (h : fromFilter current o = .ok flt) :
    flt = .none ∨ ∃ f, flt = .dcf f ∧ Accepted f := by
  cases o with
  | none => left; simp [fromFilter] at h; exact h.symm
  | some f =>
    right
    refine ⟨f, ?_, ?_⟩
    · rw [fromFilter_some] at h
      by_cases h0 : f.trigger > 2
      · simp [h0] at h
      · by_cases h2 : f.dbType = 2
        · simp [h0, h2] at h
        · by_cases h3 : f.dbType ≠ 0 ∧ (f.dbType ≠ 1 ∨ fge0 (decode64 f.dbVal) = false)
          · rw [if_neg h0, if_neg h2, if_pos h3] at h; cases h
          · rw [if_neg h0, if_neg h2, if_neg h3] at h; cases h; rfl
    · unfold Accepted accepts; rw [h]

theorem fge0_not_flt0 (d : F) (h : fge0 d = true) : flt0 d = false := by
  cases d with
  | nan => simp [fge0] at h
  | inf n => simpa [fge0, flt0] using h
  | fin n m e =>
    simp only [fge0, Bool.or_eq_true, Bool.not_eq_true', decide_eq_true_eq] at h
    simp only [flt0, Bool.and_eq_false_imp, decide_eq_false_iff_not, Decidable.not_not]
    intro hn
    rcases h with h | h
    · rw [h] at hn; cases hn
    · exact h

/-- **The error arm is dead for accepted filters**: `compare_value` never returns
`Err(BadDeadbandFilterInvalid)`, so `unwrap_or(true)` ("treat as unchanged") is never taken. -/
theorem accepted_never_errs (f : DCF) (h : Accepted f) (v1 v2 : Val) :
    compareValue current f v1 v2 ≠ none := by
  obtain ⟨-, h⟩ := (accepted_iff f).mp h
  unfold compareValue
  rcases h with h | ⟨h, hd⟩
  · simp [h]
  · have := fge0_not_flt0 _ hd
    cases asF64 v1 <;> cases asF64 v2 <;> simp [h, this]

/-- `compare_value_option` is exactly the negation of `valueChanged` for accepted filters -/
theorem compareValueOption_spec (f : DCF) (h : Accepted f) (v last : Val) :
    compareValueOption current f v last = !valueChanged f v last := by
  obtain ⟨-, hacc⟩ := (accepted_iff f).mp h
  have hcv : ∀ a b : Val, a ≠ .null → b ≠ .null →
      (compareValue current f a b).getD true = !(if f.dbType = 0 then !veq a b
        else match asF64 a, asF64 b with
          | some x, some y => !fle (fabs (fsub x y)) (decode64 f.dbVal)
          | _, _ => !veq a b) := by
    intro a b _ _
    unfold compareValue
    rcases hacc with h0 | ⟨h1, hd⟩
    · simp [h0]
    · have := fge0_not_flt0 _ hd
      cases asF64 a <;> cases asF64 b <;> simp [h1, this, current, absCompare]
  cases v <;> cases last <;>
    first
    | rfl
    | (simp only [compareValueOption, valueChanged]; exact hcv _ _ (by simp) (by simp))

/-! ### report_iff, per trigger -/

/-- **Status trigger**: a sample is reported exactly when its status differs from the last
reported sample's. -/
theorem report_iff_status (f : DCF) (ttr : Nat) (l s : Sample) (ht : f.trigger = 0) :
    dataChange current { filter := .dcf f, ttr := ttr, last := some l } s = true ↔ s.status ≠ l.status := by
  simp [dataChange, compare, ht]

/-- **StatusValue trigger**: reported exactly when the status differs or the value changed in the
sense of `valueChanged` (plain comparison, or beyond the absolute deadband). -/
theorem report_iff_status_value (f : DCF) (h : Accepted f) (ttr : Nat) (l s : Sample) (ht : f.trigger = 1) :
    dataChange current { filter := .dcf f, ttr := ttr, last := some l } s = true ↔
      (s.status ≠ l.status ∨ valueChanged f s.value l.value = true) := by
  simp only [dataChange, compare, ht, compareValueOption_spec f h]
  by_cases hs : s.status = l.status <;> simp [hs]

/-- **StatusValueTimestamp trigger**: additionally a change of the source or server timestamp. -/
theorem report_iff_status_value_timestamp (f : DCF) (h : Accepted f) (ttr : Nat) (l s : Sample)
    (ht : f.trigger = 2) :
    dataChange current { filter := .dcf f, ttr := ttr, last := some l } s = true ↔
      (s.status ≠ l.status ∨ valueChanged f s.value l.value = true ∨ s.src ≠ l.src ∨ s.srv ≠ l.srv) := by
  simp only [dataChange, compare, ht, compareValueOption_spec f h]
  by_cases hs : s.status = l.status <;> by_cases hv : valueChanged f s.value l.value = true <;>
    by_cases h1 : s.src = l.src <;> by_cases h2 : s.srv = l.srv <;> simp [hs, hv, h1, h2, current]

/-- no filter: plain comparison of the values -/
theorem report_iff_nofilter (ttr : Nat) (l s : Sample) :
    dataChange current { filter := .none, ttr := ttr, last := some l } s = true ↔
      optEq s.value l.value = false := by
  simp [dataChange]

/-- the first sample of an item is always reported -/
theorem first_sample_reported (flt : Filter) (ttr : Nat) (s : Sample) :
    dataChange current { filter := flt, ttr := ttr, last := none } s = true := rfl

/-! ### the baseline is the last *reported* value, over every history -/

/-- feed a history of samples; returns the final item and the per-sample notifications -/
def run (it : Item) : List Sample → Item × List (Option Sample)
  | [] => (it, [])
  | s :: ss =>
    let (it', n) := sample current it s
    let (it'', ns) := run it' ss
    (it'', n :: ns)

/-- the samples of a history that were reported (unstripped), in order -/
def reported (it : Item) : List Sample → List Sample
  | [] => []
  | s :: ss =>
    if dataChange current it s then s :: reported (sample current it s).1 ss
    else reported (sample current it s).1 ss

/-- **Baseline**: after any history the item compares against the last sample it reported (or still
against its initial baseline when nothing was reported) — never against an unreported sample. -/
theorem baseline_is_last_reported (it : Item) (ss : List Sample) :
    (run it ss).1.last = ((reported it ss).getLast?).or it.last := by
  induction ss generalizing it with
  | nil => simp [run, reported]
  | cons s ss ih =>
    simp only [run, reported]
    rw [ih]
    by_cases h : dataChange current it s = true
    · simp only [sample, h, if_true]
      rw [List.getLast?_cons]
      cases (reported { it with last := some s } ss).getLast? <;> simp
    · have h' : dataChange current it s = false := by simpa using h
      simp [sample, h']

/-- one notification per reported sample, carrying that sample with the unrequested timestamps removed -/
theorem notifications_are_reported_samples (it : Item) (ss : List Sample) :
    (run it ss).2.filterMap id = (reported it ss).map (strip it.ttr) := by
  induction ss generalizing it with
  | nil => simp [run, reported]
  | cons s ss ih =>
    simp only [run, reported]
    cases h : dataChange current it s
    · have := ih it
      simp [sample, h, this]
    · have := ih { it with last := some s }
      simp [sample, h, this]

/-! ### an accepted filter can report -/

def sampleOf (v : Val) : Sample := { status := some 0, value := v, src := some 0, srv := some 0 }

/-- f64::MAX and -f64::MAX -/
def dblMax : Nat := 0x7fefffffffffffff
def dblNegMax : Nat := 0xffefffffffffffff

theorem sub_max_overflows : fsub (decode64 dblMax) (decode64 dblNegMax) = .inf false := by decide +kernel

theorem decode64_cases (b : Nat) :
    decode64 b = .nan ∨ (∃ n, decode64 b = .inf n) ∨ ∃ n m e, decode64 b = .fin n m e := by
  unfold decode64
  simp only []
  split
  · split
    · right; left; exact ⟨_, rfl⟩
    · left; rfl
  · split
    · right; right; exact ⟨_, _, _, rfl⟩
    · right; right; exact ⟨_, _, _, rfl⟩

/-- **An accepted filter is never one that can never report**: for every filter `from_filter`
accepts there is a numeric value change (finite doubles, same status and timestamps) that the item
reports — for the Status trigger a status change — provided the deadband is not `+∞`
(an infinite absolute deadband describes "no finite move is large enough", and the item still reports
status changes: `accepted_status_change_reported`). -/
theorem accepted_filter_can_report (f : DCF) (h : Accepted f) (ttr : Nat) (ht : f.trigger ≠ 0)
    (hfin : decode64 f.dbVal ≠ .inf false) :
    dataChange current { filter := .dcf f, ttr := ttr, last := some (sampleOf (.dbl dblNegMax)) }
      (sampleOf (.dbl dblMax)) = true := by
  obtain ⟨htr, hacc⟩ := (accepted_iff f).mp h
  have hv : valueChanged f (.dbl dblMax) (.dbl dblNegMax) = true := by
    simp only [valueChanged, asF64]
    rcases hacc with h0 | ⟨h1, hd⟩
    · simp only [h0, if_true]; decide +kernel
    · have : f.dbType ≠ 0 := by omega
      simp only [this, if_false, sub_max_overflows, fabs]
      rcases decode64_cases f.dbVal with hn | ⟨n, hi⟩ | ⟨n, m, e, hf⟩
      · rw [hn]; rfl
      · rw [hi] at hd hfin ⊢
        cases n
        · exact absurd rfl hfin
        · simp [fge0] at hd
      · rw [hf]; rfl
  by_cases h1 : f.trigger = 1
  · exact (report_iff_status_value f h ttr _ _ h1).mpr (Or.inr hv)
  · have h2 : f.trigger = 2 := by omega
    exact (report_iff_status_value_timestamp f h ttr _ _ h2).mpr (Or.inr (Or.inl hv))

/-- every accepted filter (any trigger, any deadband) reports a status change -/
theorem accepted_status_change_reported (f : DCF) (h : Accepted f) (ttr : Nat) (l s : Sample)
    (hs : s.status ≠ l.status) :
    dataChange current { filter := .dcf f, ttr := ttr, last := some l } s = true := by
  obtain ⟨htr, -⟩ := (accepted_iff f).mp h
  by_cases h0 : f.trigger = 0
  · exact (report_iff_status f ttr l s h0).mpr hs
  · by_cases h1 : f.trigger = 1
    · exact (report_iff_status_value f h ttr l s h1).mpr (Or.inl hs)
    · exact (report_iff_status_value_timestamp f h ttr l s (by omega)).mpr (Or.inl hs)

/-! ### the `f64` comparison is exact on integers up to 2^52 -/

theorem bitlen_le (m : Nat) (h : m < 2 ^ 53) : bitlen m ≤ 53 := by
  unfold bitlen
  split
  · omega
  · rename_i hm
    have := (Nat.log2_lt hm).mpr h
    omega

theorem round64_exact (neg : Bool) (m : Nat) (h0 : m ≠ 0) (h : m < 2 ^ 53) :
    round64 neg m 0 = .fin neg m 0 := by
  have hb : (Int.ofNat (bitlen m)) ≤ 53 := Int.ofNat_le.mpr (bitlen_le m h)
  unfold round64
  rw [if_neg h0]
  dsimp only
  rw [if_pos (by omega), if_neg (by omega)]

/-- `Variant::as_f64` of an integer below 2^53 in magnitude is that integer -/
theorem ofInt_exact (n : Int) (h0 : n ≠ 0) (h : n.natAbs < 2 ^ 53) :
    ofInt n = .fin (decide (n < 0)) n.natAbs 0 := by
  unfold ofInt
  exact round64_exact _ _ (by omega) h

/-- **Absolute deadband on integers is exact below 2^52**: for integer values of magnitude below
2^52 the `f64` computation `|a - b| ≤ d` of the code equals the comparison of the exact integer
distance with the deadband (so small integer moves are never lost). -/
theorem abs_exact_small_ints (a b : Int) (d : F) (ha : a.natAbs < 2 ^ 52) (hb : b.natAbs < 2 ^ 52)
    (ha0 : a ≠ 0) (hb0 : b ≠ 0) (hab : a ≠ b) :
    absCompare (ofInt a) (ofInt b) d = fle (.fin false (a - b).natAbs 0) d := by
  rw [ofInt_exact a ha0 (by omega), ofInt_exact b hb0 (by omega)]
  unfold absCompare fsub
  simp only [Int.min_self, scale, Int.sub_self, Int.toNat_zero, Nat.pow_zero, Nat.mul_one]
  have hs1 : signed (decide (a < 0)) a.natAbs = a := by
    unfold signed; by_cases h : a < 0 <;> simp [h] <;> omega
  have hs2 : signed (decide (b < 0)) b.natAbs = b := by
    unfold signed; by_cases h : b < 0 <;> simp [h] <;> omega
  rw [hs1, hs2]
  have hne : (a - b).natAbs ≠ 0 := by omega
  have hlt : (a - b).natAbs < 2 ^ 53 := by omega
  rw [round64_exact _ _ hne hlt]
  rfl

/-! ### non-vacuity -/

/-- an accepted absolute-deadband filter, a history with moves on both sides of the deadband -/
example : Accepted { trigger := 1, dbType := 1, dbVal := 0x4000000000000000 } := by decide

example :
    (run { filter := .dcf { trigger := 1, dbType := 1, dbVal := 0x4000000000000000 }, ttr := 3, last := none }
      [sampleOf (.int 6 10), sampleOf (.int 6 12), sampleOf (.int 6 13), sampleOf (.int 6 11)]).2.map Option.isSome
      = [true, false, true, false] := by decide +kernel

example : (2 : Int) ^ 52 ≠ 0 ∧ ((2 : Int) ^ 52).natAbs ≤ 2 ^ 52 := by decide

/-! ### the defects that were repaired, and the one that is recorded -/

/-- Pinned source: a Percent deadband is accepted although no EU range is ever supplied, and then
**no** numeric value change is ever reported, whatever its size. -/
theorem C25_counterexample_percent_accepted :
    (∀ d, fromFilter pinned (some { trigger := 1, dbType := 2, dbVal := d })
        = .ok (.dcf { trigger := 1, dbType := 2, dbVal := d })) ∧
    (∀ d ttr (l s : Sample), s.status = l.status → (asF64 s.value).isSome → (asF64 l.value).isSome →
      dataChange pinned { filter := .dcf { trigger := 1, dbType := 2, dbVal := d }, ttr := ttr, last := some l } s
        = false) := by
  refine ⟨fun d => by simp [fromFilter, pinned], ?_⟩
  intro d ttr l s hs h1 h2
  have hcv : ∀ a b : Val, (asF64 a).isSome → (asF64 b).isSome →
      compareValue pinned { trigger := 1, dbType := 2, dbVal := d } a b = none := by
    intro a b ha hb
    unfold compareValue
    cases hx : asF64 a <;> cases hy : asF64 b <;> simp_all
  have h := hcv _ _ h1 h2
  simp only [dataChange, compare, hs]
  cases hv : s.value <;> cases hl : l.value <;> simp_all [compareValueOption, asF64]

/-- the same with the probe of DESIGN §6: 0 → 1 000 000 is not reported -/
theorem C25_counterexample_percent_probe :
    dataChange pinned { filter := .dcf { trigger := 1, dbType := 2, dbVal := 0x4024000000000000 }, ttr := 3, last := some (sampleOf (.int 6 0)) } (sampleOf (.int 6 1000000)) = false := by decide +kernel

/-- after the fix the same filter is refused -/
theorem percent_rejected (tr d : Nat) :
    fromFilter current (some { trigger := tr, dbType := 2, dbVal := d }) ≠ .ok (.dcf { trigger := tr, dbType := 2, dbVal := d }) := by
  unfold fromFilter current
  by_cases h : tr > 2 <;> simp [h]

/-- Pinned source: a negative deadband and an unknown deadband type are accepted as well (same
"never reports" behaviour). -/
theorem C25_counterexample_negative_deadband :
    fromFilter pinned (some { trigger := 1, dbType := 1, dbVal := 0xbff0000000000000 })
      = .ok (.dcf { trigger := 1, dbType := 1, dbVal := 0xbff0000000000000 }) ∧
    dataChange pinned { filter := .dcf { trigger := 1, dbType := 1, dbVal := 0xbff0000000000000 }, ttr := 3, last := some (sampleOf (.int 6 0)) } (sampleOf (.int 6 1000000)) = false :=
  ⟨by simp [fromFilter, pinned], by decide +kernel⟩

/-- Pinned source: with a deadband filter an unchanged non-numeric value was reported at every sample. -/
theorem C25_counterexample_nonnumeric_deadband :
    dataChange pinned { filter := .dcf { trigger := 1, dbType := 1, dbVal := 0x3ff0000000000000 }, ttr := 3, last := some (sampleOf (.str [97])) } (sampleOf (.str [97])) = true := by decide +kernel

/-- Pinned source: StatusValueTimestamp ignored a change of the source timestamp. -/
theorem C25_counterexample_source_timestamp :
    dataChange pinned { filter := .dcf { trigger := 2, dbType := 0, dbVal := 0 }, ttr := 2, last := some { status := some 0, value := .int 6 5, src := some 1, srv := some 1 } }
      { status := some 0, value := .int 6 5, src := some 2, srv := some 1 } = false := by decide +kernel

/-- **Recorded (known) finding**, present in the current source: 64-bit integers are compared through
`f64`, so a move of 1 beyond 2^53 is not reported even with deadband 0. -/
theorem C25_counterexample_int64_precision :
    dataChange current { filter := .dcf { trigger := 1, dbType := 1, dbVal := 0 }, ttr := 3, last := some (sampleOf (.int 8 9007199254740992)) } (sampleOf (.int 8 9007199254740993)) = false := by
  decide +kernel

end OpcuaVerif.C25
