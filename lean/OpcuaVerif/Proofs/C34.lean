import OpcuaVerif.Lemmas.C34
import OpcuaVerif.Proofs.C29

/-!
C34 — Node management results describe what actually happened.

Model: `OpcuaVerif.Model.C34` (`add_node`, `add_reference`, `delete_node`, `delete_reference` of
node_management.rs over the address space model of C28/C29 and the id counter).  The address space
part of a state is `(s.sp, s.info)` = nodes, references, classes and browse names; the id counter
`s.next` is not part of the address space (a failed AddNodes item may consume ids).
-/
namespace OpcuaVerif.C34
open OpcuaVerif.C28 OpcuaVerif.C29

/-- the address space did not change -/
def Same (s s' : NS) : Prop := s'.sp = s.sp ∧ s'.info = s.info ∧ s'.canModify = s.canModify

/-! ### AddNodes -/

/-- **AddNodes, Good.**  The returned id was not a node before and is one now (in particular a
server-assigned id never collides with an existing node), it carries the requested class and
browse name, the parent existed, and the parent now references the new node with the requested
reference type. -/
theorem add_good_means_present (hier : Nat → Bool) (s s' : NS) (it : AddNodesItem) (id : Option Nat)
    (h : addNode hier s it = .ok s' .good id) :
    ∃ n name rt, id = some n ∧ it.name = some name ∧ it.refType = some rt ∧
      exists? s n = false ∧ exists? s' n = true ∧ exists? s it.parent = true ∧
      R s'.sp.refs it.parent rt n ∧ hasRef s'.sp.refs it.parent n rt = true ∧
      classOf s' n = some it.nodeClass ∧ nameOf s' n = some name ∧
      (∀ x, exists? s x = true → exists? s' x = true) ∧
      (C28.Inv s.sp.refs → C28.Inv s'.sp.refs) := by
  unfold addNode addNodeWith at h
  cases hp : precheck hier s it with
  | error st =>
    rw [hp] at h; simp only [] at h
    cases h; exact absurd rfl (precheck_error_modify hp)
  | ok pr =>
    obtain ⟨name, rt⟩ := pr
    rw [hp] at h; simp only [] at h
    cases hc : chooseId false s it.requested with
    | none => rw [hc] at h; cases h
    | some pr2 =>
      obtain ⟨n, next⟩ := pr2
      rw [hc] at h; simp only [] at h
      obtain ⟨hfresh, -⟩ := chooseId_fresh hp hc
      cases hpc : postcheck { s with next := next } it with
      | some st =>
        rw [hpc] at h; simp only [] at h
        cases h; exact absurd rfl (postcheck_some hpc)
      | none =>
        rw [hpc] at h; simp only [] at h
        obtain ⟨-, hpar, -⟩ := postcheck_none hpc
        have hpar' : exists? s it.parent = true := hpar
        have hfresh' : exists? { s with next := next } n = false := hfresh
        unfold commitAdd at h
        simp only [hfresh', Bool.not_false, if_true, Bool.false_eq_true, if_false] at h
        cases hl : insertRef s.sp.refs it.parent n rt with
        | none => rw [hl] at h; cases h
        | some refs1 =>
          rw [hl] at h; simp only [] at h
          cases ht : typedRefs refs1 it.nodeClass it.typeDef n with
          | none => rw [ht] at h; cases h
          | some refs2 =>
            rw [ht] at h; simp only [] at h
            cases h
            obtain ⟨hk1, hk2⟩ := typedRefs_keeps ht
            have hR : R refs2 it.parent rt n := hk1 _ _ _ ((R_insertRef hl _ _ _).2 (Or.inr ⟨rfl, rfl, rfl⟩))
            have hpo := (precheck_ok hp)
            refine ⟨n, name, rt, rfl, hpo.2.1, hpo.2.2.1, hfresh, ?_, hpar', hR, ?_, ?_, ?_, ?_, ?_⟩
            · simp [exists?]
            · exact (C28.hasRef_iff _ _ _ _).2 hR
            · simp [classOf, exists?, AMap.get_set]
            · simp [nameOf, exists?, AMap.get_set]
            · intro x hx
              simp only [exists?, List.contains_eq_mem, List.mem_append, decide_eq_true_eq] at hx ⊢
              exact Or.inl hx
            · intro hi; exact hk2 (inv_insertRef hl hi)

/-- **Server-assigned node ids never collide with existing nodes.** -/
theorem assigned_ids_fresh (hier : Nat → Bool) (s s' : NS) (it : AddNodesItem) (n : Nat)
    (_hreq : it.requested = none) (h : addNode hier s it = .ok s' .good (some n)) :
    exists? s n = false := by
  obtain ⟨n', name, rt, hid, -, -, hfresh, -⟩ := add_good_means_present hier s s' it _ h
  cases hid
  exact hfresh

theorem commitAdd_status {p : Bool} {s s' : NS} {it : AddNodesItem} {name rt n : Nat} {st : Status}
    {id : Option Nat} (h : commitAdd p s it name rt n = .ok s' st id) : st = .good := by
  unfold commitAdd at h
  simp only [] at h
  split at h
  · cases h
  · split at h
    · cases h
    · cases h; rfl

/-- **AddNodes, Bad ⇒ nothing changed** (nodes, references, classes, browse names), and no id is
returned. -/
theorem add_bad_is_noop (hier : Nat → Bool) (s s' : NS) (it : AddNodesItem) (st : Status)
    (id : Option Nat) (h : addNode hier s it = .ok s' st id) (hb : st ≠ .good) :
    Same s s' ∧ id = none := by
  unfold addNode addNodeWith at h
  cases hp : precheck hier s it with
  | error st0 =>
    rw [hp] at h; simp only [] at h
    cases h; exact ⟨⟨rfl, rfl, rfl⟩, rfl⟩
  | ok pr =>
    obtain ⟨name, rt⟩ := pr
    rw [hp] at h; simp only [] at h
    cases hc : chooseId false s it.requested with
    | none => rw [hc] at h; cases h
    | some pr2 =>
      obtain ⟨n, next⟩ := pr2
      rw [hc] at h; simp only [] at h
      cases hpc : postcheck { s with next := next } it with
      | some st0 =>
        rw [hpc] at h; simp only [] at h
        cases h; exact ⟨⟨rfl, rfl, rfl⟩, rfl⟩
      | none =>
        rw [hpc] at h; simp only [] at h
        exact absurd (commitAdd_status h) hb

/-- AddNodes never panics (the self reference panic of `insert_reference` is out of reach: the
parent and the type definition exist, the new id does not) -/
theorem add_total (hier : Nat → Bool) (s : NS) (it : AddNodesItem) :
    ∃ s' st id, addNode hier s it = .ok s' st id := by
  unfold addNode addNodeWith
  cases hp : precheck hier s it with
  | error st => exact ⟨_, _, _, rfl⟩
  | ok pr =>
    obtain ⟨name, rt⟩ := pr
    simp only []
    obtain ⟨n, next, hc⟩ := chooseId_some s it.requested
    rw [hc]; simp only []
    obtain ⟨hfresh, -⟩ := chooseId_fresh hp hc
    cases hpc : postcheck { s with next := next } it with
    | some st => exact ⟨_, _, _, rfl⟩
    | none =>
      simp only []
      obtain ⟨hv, hpar, -⟩ := postcheck_none hpc
      have hfresh' : exists? { s with next := next } n = false := hfresh
      have hne : it.parent ≠ n := by
        intro e; rw [e] at hpar; rw [hfresh'] at hpar; cases hpar
      unfold commitAdd
      simp only [hfresh', Bool.not_false, if_true, Bool.false_eq_true, if_false]
      obtain ⟨refs1, hl⟩ := Option.isSome_iff_exists.1 ((insertRef_isSome s.sp.refs it.parent n rt).2 hne)
      rw [hl]; simp only []
      obtain ⟨refs2, ht⟩ := typedRefs_some { s with next := next } refs1 it n hv hfresh'
      rw [ht]
      exact ⟨_, _, _, rfl⟩

/-! ### AddReferences, DeleteNodes, DeleteReferences -/

theorem addRefCheck_error {s : NS} {it : AddReferencesItem} {st : Status}
    (h : addRefCheck s it = .error st) : st ≠ .good := by
  unfold addRefCheck at h
  repeat' split at h
  all_goals first
    | (cases h; simp)
    | (cases h; done)

theorem addRefCheck_ok {s : NS} {it : AddReferencesItem} {t : Nat} (h : addRefCheck s it = .ok t) :
    it.refType = some t ∧ exists? s it.source = true ∧ exists? s it.target = true ∧
      hasRef s.sp.refs it.source it.target t = false ∧ it.source ≠ it.target := by
  unfold addRefCheck at h
  repeat' split at h
  all_goals first
    | (cases h; done)
    | skip
  all_goals (cases h; simp_all)

/-- **AddReferences, Bad ⇒ nothing changed.** -/
theorem addref_bad_is_noop (s s' : NS) (it : AddReferencesItem) (st : Status)
    (h : addReference s it = .ok s' st ()) (hb : st ≠ .good) : s' = s := by
  unfold addReference at h
  cases hc : addRefCheck s it with
  | error st0 => rw [hc] at h; simp only [] at h; cases h; rfl
  | ok t =>
    rw [hc] at h; simp only [] at h
    cases hl : linkRefs s it t with
    | none => rw [hl] at h; cases h
    | some refs => rw [hl] at h; simp only [] at h; cases h; exact absurd rfl hb

/-- AddReferences, Good: source and target exist, the reference exists afterwards in the requested
direction, nothing else was added, no node changed -/
theorem addref_good (s s' : NS) (it : AddReferencesItem) (h : addReference s it = .ok s' .good ()) :
    ∃ t, it.refType = some t ∧ exists? s it.source = true ∧ exists? s it.target = true ∧
      s'.sp.nodes = s.sp.nodes ∧ s'.info = s.info ∧
      (∀ x u y, R s'.sp.refs x u y ↔ (R s.sp.refs x u y ∨
        (if it.isForward = true then x = it.source ∧ u = t ∧ y = it.target
         else x = it.target ∧ u = t ∧ y = it.source))) ∧
      (C28.Inv s.sp.refs → C28.Inv s'.sp.refs) := by
  unfold addReference at h
  cases hc : addRefCheck s it with
  | error st0 =>
    rw [hc] at h; simp only [] at h; cases h; exact absurd rfl (addRefCheck_error hc)
  | ok t =>
    rw [hc] at h; simp only [] at h
    obtain ⟨h1, h2, h3, -, -⟩ := addRefCheck_ok hc
    cases hl : linkRefs s it t with
    | none => rw [hl] at h; cases h
    | some refs =>
      rw [hl] at h; simp only [] at h; cases h
      unfold linkRefs at hl
      refine ⟨t, h1, h2, h3, rfl, rfl, ?_, ?_⟩
      · intro x u y
        split at hl
        · rename_i hf; simp only [hf, if_true]; exact R_insertRef hl x u y
        · rename_i hf; simp only [hf, Bool.false_eq_true, if_false]; exact R_insertRef hl x u y
      · intro hi
        split at hl <;> exact inv_insertRef hl hi

/-- **AddReferences never panics**: a reference from a node to itself is answered
BadReferenceNotAllowed before `insert_reference` (which would panic) is reached -/
theorem addref_total (s : NS) (it : AddReferencesItem) : ∃ s' st, addReference s it = .ok s' st () := by
  unfold addReference
  cases hc : addRefCheck s it with
  | error st => exact ⟨_, _, rfl⟩
  | ok t =>
    simp only []
    have hne := (addRefCheck_ok hc).2.2.2.2
    have : ∃ refs, linkRefs s it t = some refs := by
      unfold linkRefs
      split
      · exact Option.isSome_iff_exists.1 ((insertRef_isSome _ _ _ _).2 hne)
      · exact Option.isSome_iff_exists.1 ((insertRef_isSome _ _ _ _).2 (fun e => hne e.symm))
    obtain ⟨refs, hl⟩ := this
    rw [hl]
    exact ⟨_, _, rfl⟩

theorem delete_flag (agg : Nat → Bool) (sp : Space) (n : Nat) (dtr : Bool) (hi : C28.Inv sp.refs)
    (hex : n ∈ sp.nodes) : ∃ sp', C29.delete agg sp n dtr = some (sp', true) := by
  have hlt : remaining (candidates sp n) [] < (candidates sp n).length + 1 :=
    Nat.lt_succ_of_le (remaining_le _ _)
  obtain ⟨sp', b, v', D, e, -, -, -, hb⟩ :=
    deleteV_spec_flag agg dtr (candidates sp n) _ sp n [] hi (tgtIn_candidates sp n) List.mem_cons_self hlt
  have := hb (by simp) hex
  subst this
  exact ⟨sp', by simp [C29.delete, e]⟩

/-- **DeleteNodes**: it always returns; Bad ⇒ nothing changed; Good ⇒ the node existed and the
new address space is what `AddressSpace::delete` makes of it (property C29 says what that is). -/
theorem delnode_spec (agg : Nat → Bool) (s : NS) (n : Nat) (dtr : Bool) (hi : C28.Inv s.sp.refs) :
    ∃ s' st, deleteNode agg s n dtr = some (s', st) ∧
      (st ≠ .good → s' = s) ∧
      (st = .good → exists? s n = true ∧ exists? s' n = false ∧
        ∃ b, C29.delete agg s.sp n dtr = some (s'.sp, b)) := by
  unfold deleteNode deleteNodeWith
  by_cases hm : s.canModify = true
  · by_cases hex : exists? s n = true
    · have hmem : n ∈ s.sp.nodes := by simpa [exists?] using hex
      obtain ⟨sp', hd⟩ := delete_flag agg s.sp n dtr hi hmem
      refine ⟨{ s with sp := sp' }, .good, by simp [hm, hex, hd], by simp, fun _ => ⟨hex, ?_, true, hd⟩⟩
      have := (delete_removes_closure agg s.sp sp' n dtr true hi hd n)
      simp only [exists?, List.contains_eq_mem, decide_eq_false_iff_not]
      intro hmem'
      exact (this.1 hmem').2 Reach.refl
    · exact ⟨s, .badNodeIdUnknown, by simp [hm, hex], fun _ => rfl, by simp⟩
  · exact ⟨s, .badUserAccessDenied, by simp [hm], fun _ => rfl, by simp⟩

theorem delRefCheck_error {s : NS} {it : DeleteReferencesItem} {st : Status}
    (h : delRefCheck s it = .error st) : st ≠ .good := by
  unfold delRefCheck at h
  repeat' split at h
  all_goals first
    | (cases h; simp)
    | (cases h; done)

/-- **DeleteReferences, Bad ⇒ nothing changed.** -/
theorem delref_bad_is_noop (s : NS) (it : DeleteReferencesItem) (h : (deleteReference s it).2 ≠ .good) :
    (deleteReference s it).1 = s := by
  unfold deleteReference at h ⊢
  cases hc : delRefCheck s it with
  | error st => rfl
  | ok t => rw [hc] at h; exact absurd rfl h

/-- DeleteReferences, Good: exactly the named reference(s) are gone, every other one stays, no
node changed -/
theorem delref_good (s : NS) (it : DeleteReferencesItem) (h : (deleteReference s it).2 = .good) :
    ∃ t, it.refType = some t ∧ (deleteReference s it).1.sp.nodes = s.sp.nodes ∧
      (deleteReference s it).1.info = s.info ∧
      (∀ x u y, R (deleteReference s it).1.sp.refs x u y ↔ (R s.sp.refs x u y ∧
        ¬ (if it.bidirectional = true then
            (x = it.source ∧ u = t ∧ y = it.target) ∨ (x = it.target ∧ u = t ∧ y = it.source)
           else if it.isForward = true then x = it.source ∧ u = t ∧ y = it.target
           else x = it.target ∧ u = t ∧ y = it.source))) ∧
      (C28.Inv s.sp.refs → C28.Inv (deleteReference s it).1.sp.refs) := by
  unfold deleteReference at h ⊢
  cases hc : delRefCheck s it with
  | error st => rw [hc] at h; exact absurd h (delRefCheck_error hc)
  | ok t =>
    have ht : it.refType = some t := by
      unfold delRefCheck at hc
      repeat' split at hc
      all_goals first
        | (cases hc; done)
        | (cases hc; assumption)
    refine ⟨t, ht, rfl, rfl, ?_, ?_⟩
    · intro x u y
      simp only [unlinkRefs]
      by_cases hb : it.bidirectional = true
      · simp only [hb, if_true, R_deleteRef, not_or, and_assoc]
      · by_cases hf : it.isForward = true
        · simp only [hb, hf, if_true, Bool.false_eq_true, if_false, R_deleteRef]
        · simp only [hb, hf, Bool.false_eq_true, if_false, R_deleteRef]
    · intro hi
      simp only [unlinkRefs]
      by_cases hb : it.bidirectional = true
      · simp only [hb, if_true]; exact inv_deleteRef _ _ _ _ (inv_deleteRef _ _ _ _ hi)
      · by_cases hf : it.isForward = true
        · simp only [hb, hf, if_true, Bool.false_eq_true, if_false]; exact inv_deleteRef _ _ _ _ hi
        · simp only [hb, hf, Bool.false_eq_true, if_false]; exact inv_deleteRef _ _ _ _ hi

/-! ### Histories: every reachable state satisfies the hypothesis of the theorems above -/

inductive Req where
  | addNode (it : AddNodesItem)
  | addRef (it : AddReferencesItem)
  | delNode (n : Nat) (dtr : Bool)
  | delRef (it : DeleteReferencesItem)
deriving Repr

/-- one request item; `none` does not occur for states with an exact index (`step_total`) -/
def stepReq (hier agg : Nat → Bool) (s : NS) : Req → Option (NS × Status)
  | .addNode it => match addNode hier s it with
    | .ok s' st _ => some (s', st)
    | .panic => none
  | .addRef it => match addReference s it with
    | .ok s' st _ => some (s', st)
    | .panic => none
  | .delNode n dtr => deleteNode agg s n dtr
  | .delRef it => some (deleteReference s it)

def runReq (hier agg : Nat → Bool) : NS → List Req → Option NS
  | s, [] => some s
  | s, r :: rs => match stepReq hier agg s r with
    | some (s', _) => runReq hier agg s' rs
    | none => none

theorem step_inv (hier agg : Nat → Bool) (s s' : NS) (r : Req) (st : Status)
    (hi : C28.Inv s.sp.refs) (h : stepReq hier agg s r = some (s', st)) : C28.Inv s'.sp.refs := by
  cases r with
  | addNode it =>
    simp only [stepReq] at h
    cases ha : addNode hier s it with
    | panic => rw [ha] at h; cases h
    | ok s1 st1 id =>
      rw [ha] at h; cases h
      by_cases hg : st = .good
      · subst hg
        obtain ⟨_, _, _, -, -, -, -, -, -, -, -, -, -, -, hinv⟩ := add_good_means_present hier s s' it id ha
        exact hinv hi
      · rw [(add_bad_is_noop hier s s' it st id ha hg).1.1]; exact hi
  | addRef it =>
    simp only [stepReq] at h
    cases ha : addReference s it with
    | panic => rw [ha] at h; cases h
    | ok s1 st1 u =>
      rw [ha] at h; cases h
      by_cases hg : st = .good
      · subst hg
        obtain ⟨_, _, _, _, _, _, _, hinv⟩ := addref_good s s' it ha
        exact hinv hi
      · rw [addref_bad_is_noop s s' it st ha hg]; exact hi
  | delNode n dtr =>
    simp only [stepReq] at h
    obtain ⟨s2, st2, e, hbad, hgood⟩ := delnode_spec agg s n dtr hi
    rw [e] at h; cases h
    by_cases hg : st = .good
    · obtain ⟨_, _, b, hd⟩ := hgood hg
      obtain ⟨sp2, b2, D, e2, p, _, _⟩ := delete_spec agg s.sp n dtr hi
      rw [hd] at e2; cases e2
      exact p.inv
    · rw [hbad hg]; exact hi
  | delRef it =>
    have h' : deleteReference s it = (s', st) := by simpa [stepReq] using h
    have h1 : (deleteReference s it).1 = s' := by rw [h']
    by_cases hg : (deleteReference s it).2 = .good
    · obtain ⟨_, _, _, _, _, hinv⟩ := delref_good s it hg
      rw [← h1]; exact hinv hi
    · rw [← h1, delref_bad_is_noop s it hg]; exact hi

/-- no request item panics or fails to return -/
theorem step_total (hier agg : Nat → Bool) (s : NS) (r : Req) (hi : C28.Inv s.sp.refs) :
    ∃ s' st, stepReq hier agg s r = some (s', st) := by
  cases r with
  | addNode it =>
    obtain ⟨s', st, id, h⟩ := add_total hier s it
    exact ⟨s', st, by simp [stepReq, h]⟩
  | addRef it =>
    obtain ⟨s', st, h⟩ := addref_total s it
    exact ⟨s', st, by simp [stepReq, h]⟩
  | delNode n dtr =>
    obtain ⟨s', st, h, -⟩ := delnode_spec agg s n dtr hi
    exact ⟨s', st, by simp [stepReq, h]⟩
  | delRef it => exact ⟨_, _, rfl⟩

/-- **Every state reached by any history of node management requests has an exact reference
index**, so the per-request theorems of this file (and of C28/C29) apply to it. -/
theorem run_inv (hier agg : Nat → Bool) (rs : List Req) (s s' : NS) (hi : C28.Inv s.sp.refs)
    (h : runReq hier agg s rs = some s') : C28.Inv s'.sp.refs := by
  induction rs generalizing s with
  | nil => simp only [runReq, Option.some.injEq] at h; subst h; exact hi
  | cons r rs ih =>
    simp only [runReq] at h
    cases hs : stepReq hier agg s r with
    | none => rw [hs] at h; cases h
    | some pr =>
      obtain ⟨s1, st⟩ := pr
      rw [hs] at h
      exact ih s1 (step_inv hier agg s s1 r st hi hs) h

/-- **No history of node management requests panics or hangs.** -/
theorem run_total (hier agg : Nat → Bool) (rs : List Req) (s : NS) (hi : C28.Inv s.sp.refs) :
    ∃ s', runReq hier agg s rs = some s' := by
  induction rs generalizing s with
  | nil => exact ⟨s, rfl⟩
  | cons r rs ih =>
    obtain ⟨s1, st, hs⟩ := step_total hier agg s r hi
    obtain ⟨s', h'⟩ := ih s1 (step_inv hier agg s s1 r st hi hs)
    exact ⟨s', by simp [runReq, hs, h']⟩

/-! ### Non-vacuity and the defects that were repaired -/

def hierStd (t : Nat) : Bool := [33, 34, 35, 36, 44, 46, 47, 48, 49, 56].contains t
def aggStd (t : Nat) : Bool := [44, 46, 47, 49, 56].contains t

/-- the Objects folder, BaseObjectType and BaseDataVariableType -/
def init : NS :=
  { sp := { nodes := [58, 63, 85], refs := C28.empty },
    info := [(58, (clsObjectType, 9058)), (63, (clsVariableType, 9063)), (85, (clsObject, 9085))],
    next := 0, canModify := true }

def objItem (req : Option Nat) (parent rt name : Nat) : AddNodesItem :=
  { requested := req, serverIndex := 0, parent := parent, refType := some rt, name := some name,
    nodeClass := clsObject, typeDef := some 58, attrsFit := true }

/-- a Good AddNodes exists (the hypotheses of `add_good_means_present` are satisfiable), and a
server-assigned id steps over an id that a client took before -/
example : ∃ s1 s2, addNode hierStd init (objItem (some 1000) 85 35 1) = .ok s1 .good (some 1000) ∧
    addNode hierStd s1 (objItem none 85 35 2) = .ok s2 .good (some 1001) ∧
    hasRef s2.sp.refs 85 1001 35 = true ∧ exists? s1 1001 = false := by
  refine ⟨_, _, rfl, rfl, by decide, by decide⟩

example : C28.Inv init.sp.refs := C28.inv_empty

/-- **Pinned source, defect 1**: Good, but the parent does not reference the new node (the link was
stored as a forward reference of the new node).  Witness `corpus/C34/findings.ops`. -/
theorem C34_counterexample_parent_link :
    ∃ s1, addNodeWith true hierStd init (objItem none 85 35 1) = .ok s1 .good (some 1000) ∧
      hasRef s1.sp.refs 85 1000 35 = false ∧ hasRef s1.sp.refs 1000 85 35 = true := by
  refine ⟨_, rfl, by decide, by decide⟩

/-- **Pinned source, defect 2**: the server-assigned id 1000 collides with the node a client added
under that id; the request reports Good with the existing node's id and no node is added. -/
theorem C34_counterexample_id_collision :
    ∃ s1 s2, addNodeWith true hierStd init (objItem (some 1000) 85 35 1) = .ok s1 .good (some 1000) ∧
      addNodeWith true hierStd s1 (objItem none 85 35 2) = .ok s2 .good (some 1000) ∧
      exists? s1 1000 = true ∧ s2.sp.nodes = s1.sp.nodes ∧ nameOf s2 1000 = some 1 := by
  refine ⟨_, _, rfl, rfl, by decide, by decide, by decide⟩

/-- a node 1001 that exists and is still named as HasComponent by the leftover references of the
deleted node 1000 (reached by: add 1000, add 1001 under it, DeleteNodes 1000 without its target
references, add 1001 again) -/
def leftover : NS :=
  { init with
    sp := { nodes := [58, 63, 85, 1001],
            refs := { fwd := [(1000, [(47, 1001)]), (85, [(35, 1001)])], inv := [(1001, [1000, 85])] } },
    info := (1001, (clsObject, 2)) :: init.info }

/-- **Source before the third fix**: DeleteNodes of the id 1000, which is not a node, reports
BadNodeIdUnknown — after deleting node 1001. -/
theorem C34_counterexample_delete_absent :
    exists? leftover 1000 = false ∧ exists? leftover 1001 = true ∧
    (deleteNodeWith false aggStd leftover 1000 false).map (fun r => (r.2, exists? r.1 1001)) =
      some (.badNodeIdUnknown, false) := by
  decide

/-- the repaired `delete_node` leaves that state alone -/
example : deleteNode aggStd leftover 1000 false = some (leftover, .badNodeIdUnknown) := by decide

theorem serveItems_go_length {ι α : Type} (step : NS → ι → Option (NS × α)) :
    ∀ (l : List ι) (s s' : NS) (acc rs : List α),
      serveItems.go step s l acc = .results s' rs → rs.length = acc.length + l.length := by
  intro l
  induction l with
  | nil => intro s s' acc rs h; simp [serveItems.go] at h; rw [← h.2]; simp
  | cons it rest ih =>
    intro s s' acc rs h
    unfold serveItems.go at h
    cases hs : step s it with
    | none => rw [hs] at h; cases h
    | some pr =>
      obtain ⟨s1, r⟩ := pr
      rw [hs] at h
      have := ih s1 s' (r :: acc) rs h
      simp at this ⊢; omega

/-- **Request level**: a service call either faults without looking at any item — exactly when the
list is missing, empty or longer than the limit — or answers with one result per item. -/
theorem serveItems_spec {ι α : Type} (limit : Nat) (step : NS → ι → Option (NS × α)) (s : NS)
    (items : Option (List ι)) :
    (∀ st, serveItems limit step s items = .fault st →
      (st = .badNothingToDo ∧ (items = none ∨ items = some [])) ∨
      (st = .badTooManyOperations ∧ ∃ l, items = some l ∧ limit < l.length)) ∧
    (∀ s' rs, serveItems limit step s items = .results s' rs →
      ∃ l, items = some l ∧ l ≠ [] ∧ l.length ≤ limit ∧ rs.length = l.length) := by
  unfold serveItems
  cases items with
  | none => exact ⟨fun st h => by cases h; exact Or.inl ⟨rfl, Or.inl rfl⟩, fun s' rs h => by cases h⟩
  | some l =>
    simp only []
    cases l with
    | nil => exact ⟨fun st h => by simp at h; exact Or.inl ⟨h.symm, Or.inr rfl⟩, fun s' rs h => by simp at h⟩
    | cons x rest =>
      simp only [List.isEmpty_cons, Bool.false_eq_true, if_false]
      by_cases hl : (x :: rest).length ≤ limit
      · simp only [hl, if_true]
        refine ⟨fun st h => ?_, fun s' rs h => ⟨x :: rest, rfl, by simp, hl, ?_⟩⟩
        · exfalso
          -- the item loop never produces a fault
          have : ∀ (l : List ι) (s : NS) (acc : List α) st, serveItems.go step s l acc ≠ .fault st := by
            intro l
            induction l with
            | nil => intro s acc st h; simp [serveItems.go] at h
            | cons it r ih =>
              intro s acc st h
              unfold serveItems.go at h
              cases hs : step s it with
              | none => rw [hs] at h; cases h
              | some pr => rw [hs] at h; exact ih _ _ _ h
          exact this _ _ _ _ h
        · have := serveItems_go_length step (x :: rest) s s' [] rs h
          simpa using this
      · simp only [hl, if_false]
        exact ⟨fun st h => by cases h; exact Or.inr ⟨rfl, _, rfl, by omega⟩, fun s' rs h => by cases h⟩

end OpcuaVerif.C34
