import OpcuaVerif.Model.C12Client
import OpcuaVerif.Proofs.C12

/-!
C12 / C10, client side: the client's receive path (`client/transport/core.rs`).
`cli_total` (no panic after the fixes), `cli_completed_bounds`, `cli_last_monotone`,
`cli_replay_rejected` (C12), `cli_pending_bounded` (C10), `C12_counterexample_merge_overflow`.
-/
namespace OpcuaVerif.C12
open OpcuaVerif.C11

theorem mergeLoop_total : ∀ (l : List CC) (e : Nat), mergeLoop true e l ≠ none := by
  intro l
  induction l with
  | nil => intro e; simp [mergeLoop]
  | cons c r ih =>
    intro e
    simp only [mergeLoop]
    split
    · exact ih e
    · by_cases h1 : e + 1 < 4294967296
      · simp only [h1, ↓reduceIte]; intro h; exact ih _ (by simpa using h)
      · simp only [h1, ↓reduceIte]; intro h; exact ih _ (by simpa using h)

theorem insertBySeq_length (c : CC) : ∀ l : List CC, (insertBySeq c l).length = l.length + 1 := by
  intro l
  induction l with
  | nil => rfl
  | cons d r ih => simp only [insertBySeq]; split <;> simp [ih]

theorem sortBySeq_length (l : List CC) : (sortBySeq l).length = l.length := by
  have gen : ∀ (l acc : List CC), (l.foldl (fun acc c => insertBySeq c acc) acc).length = acc.length + l.length := by
    intro l
    induction l with
    | nil => intro acc; rfl
    | cons c r ih => intro acc; simp only [List.foldl_cons, ih, insertBySeq_length, List.length_cons]; omega
  simpa [sortBySeq] using gen l []

/-- `merge_chunks` (after the fix) never panics on a non-empty chunk list -/
theorem mergeChunks_total (l : List CC) (h : l ≠ []) : mergeChunks true l ≠ none := by
  unfold mergeChunks
  split
  · simp
  · have hl := sortBySeq_length l
    cases hs : sortBySeq l with
    | nil => rw [hs] at hl; cases l <;> simp_all
    | cons c0 r => exact mergeLoop_total _ _

/-- **The client's receive path never panics** (after the fixes), whatever chunk arrives. -/
theorem cli_total (s : Cli) (ci : CI) (f : Fin) : (s.chunk true ci f).2 ≠ .panic := by
  unfold Cli.chunk
  split
  · simp
  · cases lookupReq ci.req s.states with
    | none => simp
    | some chunks =>
      cases f with
      | intermediate => simp only; split <;> simp
      | abort => simp
      | final =>
        simp only
        cases hm : mergeChunks true (chunks ++ [⟨ci, .final⟩]) with
        | none => exact absurd hm (mergeChunks_total _ (by simp))
        | some ret =>
          simp only
          have ht := recv_total s.last s.chanId (ret.map fun c => some c.ci)
          unfold recv at ht
          cases hr : recvWith true s.last s.chanId (ret.map fun c => some c.ci) with
          | panic => exact absurd hr ht
          | err e => simp
          | ok l => simp only; split <;> simp

/-- pinned source: a two-chunk response whose second chunk is numbered `u32::MAX` overflows
`expect_sequence_number += 1` in `merge_chunks` -/
theorem C12_counterexample_merge_overflow :
    mergeChunks false [⟨⟨1, 4294967294, 1001⟩, .intermediate⟩, ⟨⟨1, 4294967295, 1001⟩, .final⟩] = none := by
  decide

/-- … and after the fix it is merged and accepted -/
example : ((Cli.init 5 1).request.1.chunk true ⟨1, 4294967294, 1001⟩ .intermediate).1.chunk true ⟨1, 4294967295, 1001⟩ .final
    = ({ (Cli.init 5 1).request.1 with states := [], last := 4294967295 }, .completed 1001) := by decide

/-- a completed response: its merged chunks were validated against the mark, which moved up past
all of them -/
theorem cli_completed_bounds (s s' : Cli) (ci : CI) (f : Fin) (r : Nat)
    (h : s.chunk true ci f = (s', .completed r)) :
    ∃ ret : List CC, ret ≠ [] ∧ recv s.last s.chanId ((ret.map (·.ci)).map some) = .ok s'.last ∧
      s.last < s'.last ∧ ∀ c ∈ ret, s.last < c.ci.seq ∧ c.ci.seq ≤ s'.last := by
  unfold Cli.chunk at h
  split at h
  · simp at h
  · cases hl : lookupReq ci.req s.states with
    | none => simp [hl] at h
    | some chunks =>
      simp only [hl] at h
      cases f with
      | intermediate => simp only at h; split at h <;> simp at h
      | abort => simp at h
      | final =>
        simp only at h
        cases hm : mergeChunks true (chunks ++ [⟨ci, .final⟩]) with
        | none => simp [hm] at h
        | some ret =>
          simp only [hm] at h
          cases hr : recvWith true s.last s.chanId (ret.map fun c => some c.ci) with
          | panic => simp [hr] at h
          | err e => simp [hr] at h
          | ok l =>
            simp only [hr] at h
            split at h
            · simp at h
              obtain ⟨h1, _⟩ := h
              subst h1
              have hr' : recv s.last s.chanId ((ret.map (·.ci)).map some) = .ok l := by
                unfold recv; rw [List.map_map]; exact hr
              obtain ⟨hne, hlt, hb⟩ := recv_ok_bounds s.last s.chanId (ret.map (·.ci)) l hr'
              refine ⟨ret, ?_, hr', hlt, ?_⟩
              · intro h0; subst h0; exact hne rfl
              · intro c hc; exact hb c.ci (List.mem_map_of_mem hc)
            · simp at h

/-- the client's high-water mark never goes down -/
theorem cli_last_monotone (s : Cli) (ci : CI) (f : Fin) : s.last ≤ (s.chunk true ci f).1.last := by
  unfold Cli.chunk
  split
  · exact Nat.le_refl _
  · cases lookupReq ci.req s.states with
    | none => exact Nat.le_refl _
    | some chunks =>
      cases f with
      | intermediate => simp only; split <;> exact Nat.le_refl _
      | abort => exact Nat.le_refl _
      | final =>
        simp only
        cases mergeChunks true (chunks ++ [⟨ci, .final⟩]) with
        | none => exact Nat.le_refl _
        | some ret =>
          simp only
          cases hr : recvWith true s.last s.chanId (ret.map fun c => some c.ci) with
          | panic => exact Nat.le_refl _
          | err e => exact Nat.le_refl _
          | ok l =>
            have hr' : recv s.last s.chanId ((ret.map (·.ci)).map some) = .ok l := by
              unfold recv; rw [List.map_map]; exact hr
            have := (recv_ok_bounds s.last s.chanId (ret.map (·.ci)) l hr').2.1
            simp only; split <;> (simp only; omega)

/-- **Replay on the client.** A single final chunk numbered at or below the mark, for a request that
is pending with nothing stored yet, is rejected and the transport closes. -/
theorem cli_replay_rejected (s : Cli) (ci : CI) (hopen : s.closed = false)
    (hp : lookupReq ci.req s.states = some []) (hold : ci.seq ≤ s.last) :
    (s.chunk true ci .final).2 = .closedErr "BadSequenceNumberInvalid" := by
  unfold Cli.chunk
  simp only [hopen, Bool.false_eq_true, ↓reduceIte, hp, List.nil_append]
  have hm : mergeChunks true [⟨ci, .final⟩] = some [⟨ci, .final⟩] := by simp [mergeChunks]
  simp only [hm, List.map_cons, List.map_nil]
  have hr : recvWith true s.last s.chanId [some ci] = .err "BadSequenceNumberInvalid" := by
    unfold recvWith
    cases ha : addU32 s.last 1 with
    | none => rfl
    | some st =>
      obtain ⟨h1, _⟩ := addU32_some ha
      simp only [validateChunksWith]
      rw [if_pos (by omega)]
  simp only [hr]

/-! ### C10 on the client: chunks held per pending response -/

def PendingBounded (s : Cli) : Prop :=
  ∀ p ∈ s.states, s.maxPending > 0 → p.2.length ≤ s.maxPending

theorem request_bounded (s : Cli) (h : PendingBounded s) : PendingBounded s.request.1 := by
  intro p hp hm
  simp only [Cli.request, List.mem_append, List.mem_singleton] at hp
  rcases hp with hp | hp
  · exact h p hp hm
  · subst hp; simp

theorem chunk_pending_bounded (s : Cli) (ci : CI) (f : Fin) (h : PendingBounded s) :
    PendingBounded (s.chunk true ci f).1 ∧ (s.chunk true ci f).1.maxPending = s.maxPending := by
  have herase : ∀ r, PendingBounded { s with states := eraseReq r s.states } := by
    intro r p hp hm
    simp only [eraseReq, List.mem_filter] at hp
    exact h p hp.1 hm
  unfold Cli.chunk
  split
  · exact ⟨h, rfl⟩
  · cases lookupReq ci.req s.states with
    | none => exact ⟨h, rfl⟩
    | some chunks =>
      cases f with
      | abort => exact ⟨herase _, rfl⟩
      | intermediate =>
        simp only
        split
        · exact ⟨herase _, rfl⟩
        · rename_i hc
          refine ⟨?_, rfl⟩
          intro p hp hm
          simp only [setReq, List.mem_map] at hp
          obtain ⟨q, hq, hqe⟩ := hp
          split at hqe
          · subst hqe
            simp only [List.length_append, List.length_singleton]
            simp only [List.length_append, List.length_singleton, not_and, Nat.not_lt] at hc
            exact hc hm
          · subst hqe; exact h q hq hm
      | final =>
        simp only
        cases mergeChunks true (chunks ++ [⟨ci, .final⟩]) with
        | none => exact ⟨h, rfl⟩
        | some ret =>
          simp only
          cases recvWith true s.last s.chanId (ret.map fun c => some c.ci) with
          | panic => exact ⟨h, rfl⟩
          | err e => exact ⟨fun p hp hm => herase ci.req p hp hm, rfl⟩
          | ok l =>
            simp only
            split
            · exact ⟨fun p hp hm => herase ci.req p hp hm, rfl⟩
            · exact ⟨fun p hp hm => herase ci.req p hp hm, rfl⟩

/-- operations on the client transport: a new request, or an incoming chunk -/
inductive CliOp where
  | request
  | chunk (ci : CI) (f : Fin)
deriving Repr, DecidableEq

def Cli.run : Cli → List CliOp → Cli
  | s, [] => s
  | s, .request :: r => Cli.run s.request.1 r
  | s, .chunk ci f :: r => Cli.run (s.chunk true ci f).1 r

/-- **The client never holds more than `max_pending_incoming` chunks for one response** (when the
limit is non-zero), after any history of requests and incoming chunks. -/
theorem cli_pending_bounded (mp chan : Nat) (ops : List CliOp) : PendingBounded (Cli.run (Cli.init mp chan) ops) := by
  have gen : ∀ (ops : List CliOp) (s : Cli), PendingBounded s → PendingBounded (Cli.run s ops) := by
    intro ops
    induction ops with
    | nil => intro s h; exact h
    | cons op r ih =>
      intro s h
      cases op with
      | request => exact ih _ (request_bounded s h)
      | chunk ci f => exact ih _ (chunk_pending_bounded s ci f h).1
  exact gen ops _ (by intro p hp; simp [Cli.init] at hp)

/-- over any history the mark is monotone -/
theorem cli_run_last_monotone : ∀ (ops : List CliOp) (s : Cli), s.last ≤ (Cli.run s ops).last := by
  intro ops
  induction ops with
  | nil => intro s; exact Nat.le_refl _
  | cons op r ih =>
    intro s
    cases op with
    | request => exact ih s.request.1
    | chunk ci f => exact Nat.le_trans (cli_last_monotone s ci f) (ih _)

end OpcuaVerif.C12
