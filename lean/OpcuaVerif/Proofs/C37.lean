import OpcuaVerif.Model.C37

/-!
C37 — Reconnect back-off follows its policy and never overflows.
Property theorems.  The model is `OpcuaVerif.Model.C37` (`next = nextWith .fixed` is the source after
the `fix:` commit; `nextWith .pinned` is kept for the record of the repaired defects).
-/
namespace OpcuaVerif.C37

/-! ### `Duration` arithmetic in nanoseconds -/

/-- total nanoseconds -/
def Dur.toNs (d : Dur) : Nat := d.secs * NANOS + d.nanos

/-- representable `Duration` -/
def Dur.wf (d : Dur) : Prop := d.secs < U64 ∧ d.nanos < NANOS

instance (d : Dur) : Decidable d.wf := by unfold Dur.wf; infer_instance

/-- `Duration::MAX` in nanoseconds -/
def DMAXNS : Nat := U64 * NANOS - 1

theorem dmax_wf : Dur.dmax.wf := by decide
theorem dmax_toNs : Dur.dmax.toNs = DMAXNS := by decide

theorem toNs_le_max (d : Dur) (h : d.wf) : d.toNs ≤ DMAXNS := by
  simp only [Dur.wf, Dur.toNs, DMAXNS, NANOS, U64] at *; omega

theorem toNs_inj (a b : Dur) (ha : a.wf) (hb : b.wf) (h : a.toNs = b.toNs) : a = b := by
  cases a; cases b
  simp only [Dur.wf, Dur.toNs, NANOS, U64] at *
  simp only [Dur.mk.injEq]; omega

/-- `checked_mul(2)` is exact doubling, and fails exactly when the double is not representable -/
theorem checkedMul2_spec (d : Dur) (h : d.wf) :
    (∀ r, d.checkedMul2 = some r → r.wf ∧ r.toNs = 2 * d.toNs) ∧
    (d.checkedMul2 = none ↔ DMAXNS < 2 * d.toNs) := by
  unfold Dur.checkedMul2
  by_cases h1 : d.secs * 2 ≥ U64
  · rw [if_pos h1]
    refine ⟨(by intro r hr; cases hr), ?_⟩
    simp only [Dur.wf, NANOS, U64, DMAXNS, Dur.toNs, true_iff] at *; omega
  · rw [if_neg h1]
    by_cases h2 : d.secs * 2 + d.nanos * 2 / NANOS ≥ U64
    · rw [if_pos h2]
      refine ⟨(by intro r hr; cases hr), ?_⟩
      simp only [Dur.wf, NANOS, U64, DMAXNS, Dur.toNs, true_iff] at *; omega
    · rw [if_neg h2]
      refine ⟨?_, ?_⟩
      · intro r hr
        cases hr
        simp only [Dur.wf, NANOS, U64, Dur.toNs] at *
        omega
      · simp only [Dur.wf, NANOS, U64, DMAXNS, Dur.toNs, reduceCtorEq, false_iff] at *; omega

/-- The `checked_add` of the carry inside `checked_mul(2)` can never overflow: twice the seconds is
even and below 2^64, the carry is at most one (the model arm `mul-add-overflow` is unreachable). -/
theorem checkedMul2_add_never_overflows (d : Dur) (h : d.wf) (h1 : d.secs * 2 < U64) :
    d.secs * 2 + d.nanos * 2 / NANOS < U64 := by
  simp only [Dur.wf, NANOS, U64] at *
  omega

/-- `saturating_mul(2)` = min(MAX, 2·d) -/
theorem satMul2_spec (d : Dur) (h : d.wf) : d.satMul2.wf ∧ d.satMul2.toNs = min DMAXNS (2 * d.toNs) := by
  have ⟨h1, h2⟩ := checkedMul2_spec d h
  unfold Dur.satMul2
  cases hc : d.checkedMul2 with
  | none =>
    have := h2.mp hc
    refine ⟨dmax_wf, ?_⟩
    rw [dmax_toNs]; omega
  | some r =>
    have ⟨hw, hr⟩ := h1 r hc
    have hn : ¬ (DMAXNS < 2 * d.toNs) := by
      intro hlt; have := h2.mpr hlt; rw [hc] at this; cases this
    refine ⟨hw, ?_⟩
    simp only [hr]; omega

/-- the derived lexicographic order is the order of the nanosecond values -/
theorem gt_iff (a b : Dur) (ha : a.wf) (hb : b.wf) : a.gt b = true ↔ b.toNs < a.toNs := by
  simp only [Dur.wf, NANOS, U64] at ha hb
  simp only [Dur.gt, Dur.toNs, NANOS, Bool.or_eq_true, Bool.and_eq_true, decide_eq_true_eq]
  omega

theorem dmin_spec (a b : Dur) (ha : a.wf) (hb : b.wf) :
    (a.dmin b).wf ∧ (a.dmin b).toNs = min a.toNs b.toNs := by
  unfold Dur.dmin
  by_cases h : a.gt b = true
  · have := (gt_iff a b ha hb).mp h
    rw [if_pos h]; exact ⟨hb, by omega⟩
  · have hn : ¬ (b.toNs < a.toNs) := fun hlt => h ((gt_iff a b ha hb).mpr hlt)
    rw [if_neg h]; exact ⟨ha, by omega⟩

/-! ### The delay sequence -/

/-- what the repaired code stores as the next delay: `max_sleep.min(current_sleep.saturating_mul(2))` -/
def stepDur (mx d : Dur) : Dur := mx.dmin d.satMul2

/-- i-th delay when the current one is `d` -/
def seqFrom (mx : Dur) : Dur → Nat → Dur
  | d, 0 => d
  | d, i + 1 => seqFrom mx (stepDur mx d) i

/-- the first `k` results of a policy that does not end: `Some(d0), Some(d1), …` -/
def expected (mx : Dur) : Dur → Nat → List Out
  | _, 0 => []
  | d, k + 1 => .delay d :: expected mx (stepDur mx d) k

/-- the policy's delay sequence in exact integer nanoseconds, as the property words it:
the first is the initial delay, each later one is double the previous, capped at the maximum. -/
def delayNs (maxNs initNs : Nat) : Nat → Nat
  | 0 => initNs
  | i + 1 => min maxNs (2 * delayNs maxNs initNs i)

theorem stepDur_spec (mx d : Dur) (hm : mx.wf) (hd : d.wf) :
    (stepDur mx d).wf ∧ (stepDur mx d).toNs = min mx.toNs (2 * d.toNs) := by
  have ⟨h1, h2⟩ := satMul2_spec d hd
  have ⟨h3, h4⟩ := dmin_spec mx d.satMul2 hm h1
  have := toNs_le_max mx hm
  refine ⟨h3, ?_⟩
  unfold stepDur; rw [h4, h2]; omega

theorem seqFrom_succ (mx d : Dur) (i : Nat) : seqFrom mx d (i + 1) = stepDur mx (seqFrom mx d i) := by
  induction i generalizing d with
  | zero => rfl
  | succ i ih => rw [seqFrom, ih]; rfl

theorem seqFrom_wf (mx d : Dur) (hm : mx.wf) (hd : d.wf) (i : Nat) : (seqFrom mx d i).wf := by
  induction i with
  | zero => exact hd
  | succ i ih => rw [seqFrom_succ]; exact (stepDur_spec mx _ hm ih).1

/-- **doubling_capped**: every delay after the first is exactly `min(max, 2·previous)` in exact
(unbounded) arithmetic — in particular when `2·previous` exceeds `Duration::MAX`. -/
theorem doubling_capped (mx d : Dur) (hm : mx.wf) (hd : d.wf) (i : Nat) :
    (seqFrom mx d (i + 1)).toNs = min mx.toNs (2 * (seqFrom mx d i).toNs) := by
  rw [seqFrom_succ]; exact (stepDur_spec mx _ hm (seqFrom_wf mx d hm hd i)).2

/-- the model's sequence is the specification sequence `delayNs` -/
theorem seqFrom_eq_delayNs (mx d : Dur) (hm : mx.wf) (hd : d.wf) (i : Nat) :
    (seqFrom mx d i).toNs = delayNs mx.toNs d.toNs i := by
  induction i with
  | zero => rfl
  | succ i ih => rw [doubling_capped mx d hm hd, ih]; rfl

/-- closed form: after the first, the i-th delay is `min(max, 2^i · initial)` -/
theorem delayNs_closed_form (m a : Nat) (i : Nat) : delayNs m a (i + 1) = min m (2 ^ (i + 1) * a) := by
  induction i with
  | zero => simp [delayNs]
  | succ i ih =>
    rw [delayNs, ih]
    have : 2 ^ (i + 1 + 1) * a = 2 * (2 ^ (i + 1) * a) := by
      rw [Nat.pow_succ, Nat.mul_comm (2 ^ (i + 1)) 2, Nat.mul_assoc]
    rw [this]; omega

theorem expected_length (mx d : Dur) (k : Nat) : (expected mx d k).length = k := by
  induction k generalizing d with
  | zero => rfl
  | succ k ih => simp [expected, ih]

theorem expected_get (mx d : Dur) (k i : Nat) (h : i < k) :
    (expected mx d k)[i]? = some (.delay (seqFrom mx d i)) := by
  induction k generalizing d i with
  | zero => omega
  | succ k ih =>
    cases i with
    | zero => simp [expected, seqFrom]
    | succ i => simp only [expected, List.getElem?_cons_succ, seqFrom]; exact ih _ i (by omega)

/-! ### The iterator -/

/-- type invariant of `ExponentialBackoff` (field ranges) plus `retry_count ≤ max_retries`, which
`new` establishes and `next` keeps -/
def WF (s : Backoff) : Prop :=
  s.maxSleep.wf ∧ s.cur.wf ∧ s.count < U32 ∧
  (∀ m, s.maxRetries = some m → m < U32 ∧ s.count ≤ m)

/-- the retry limit is a `u32` -/
def limitOk : Option Nat → Prop
  | some m => m < U32
  | none => True

instance : (o : Option Nat) → Decidable (limitOk o)
  | some m => inferInstanceAs (Decidable (m < U32))
  | none => inferInstanceAs (Decidable True)

/-- the policy's fields have their Rust types (`Duration`, `Option<u32>`, `Duration`) -/
def Policy.wf (p : Policy) : Prop := p.maxSleep.wf ∧ p.initial.wf ∧ limitOk p.limit

instance (p : Policy) : Decidable p.wf := by unfold Policy.wf; infer_instance

theorem Policy.wf_limit (p : Policy) (h : p.wf) (m : Nat) (hm : p.limit = some m) : m < U32 := by
  have := h.2.2; rw [hm] at this; exact this

theorem init_wf (p : Policy) (h : p.wf) : WF (init p) := by
  refine ⟨h.1, h.2.1, by simp [init, U32], ?_⟩
  intro m hm; exact ⟨p.wf_limit h m hm, by simp [init]⟩

/-- one call on a limited policy that is not used up -/
theorem next_limited (s : Backoff) (m : Nat) (hm : s.maxRetries = some m) (hc : s.count < m) (hU : m < U32) :
    next s = (.delay s.cur, { s with cur := stepDur s.maxSleep s.cur, count := s.count + 1 }) := by
  unfold next nextWith exhausted
  simp [hm, stepDur, show ¬ m ≤ s.count by omega, show ¬ U32 ≤ s.count + 1 by omega]

/-- one call on a limited policy that is used up -/
theorem next_exhausted (s : Backoff) (m : Nat) (hm : s.maxRetries = some m) (hc : m ≤ s.count) :
    next s = (.done, s) := by
  unfold next nextWith exhausted
  simp [hm, hc]

/-- one call on an unlimited policy -/
theorem next_unlimited (s : Backoff) (hm : s.maxRetries = none) :
    next s = (.delay s.cur, { s with cur := stepDur s.maxSleep s.cur }) := by
  unfold next nextWith exhausted
  simp [hm, stepDur]

/-- **no_panic (one call)**: for every state of the right types, `next` does not panic. -/
theorem next_no_panic (s : Backoff) (h : WF s) : (next s).1 ≠ .panic := by
  obtain ⟨_, _, _, h4⟩ := h
  cases hm : s.maxRetries with
  | none => rw [next_unlimited s hm]; simp
  | some m =>
    have ⟨hU, hle⟩ := h4 m hm
    by_cases hc : s.count < m
    · rw [next_limited s m hm hc hU]; simp
    · rw [next_exhausted s m hm (by omega)]; simp

theorem next_wf (s : Backoff) (h : WF s) : WF (next s).2 := by
  obtain ⟨h1, h2, h3, h4⟩ := h
  cases hm : s.maxRetries with
  | none =>
    rw [next_unlimited s hm]
    exact ⟨h1, (stepDur_spec _ _ h1 h2).1, h3, by intro m hm'; simp [hm] at hm'⟩
  | some m =>
    have ⟨hU, hle⟩ := h4 m hm
    by_cases hc : s.count < m
    · rw [next_limited s m hm hc hU]
      refine ⟨h1, (stepDur_spec _ _ h1 h2).1, by simp only; omega, ?_⟩
      intro m' hm'
      simp only [hm] at hm'; cases hm'
      exact ⟨hU, by simp only; omega⟩
    · rw [next_exhausted s m hm (by omega)]; exact ⟨h1, h2, h3, h4⟩

/-- A limited policy with `r` retries left: the next `n` calls give the first `min n r` delays of
the sequence and then `None` for ever. -/
theorem outputs_limited (s : Backoff) (m : Nat) (hm : s.maxRetries = some m) (hle : s.count ≤ m) (hU : m < U32) (n : Nat) :
    outputs .fixed s n =
      expected s.maxSleep s.cur (min n (m - s.count)) ++ List.replicate (n - (m - s.count)) .done := by
  induction n generalizing s with
  | zero => simp [outputs, expected]
  | succ n ih =>
    by_cases hc : s.count < m
    · have hn := next_limited s m hm hc hU
      unfold next at hn
      simp only [outputs, hn]
      rw [ih _ (by simpa using hm) (by simp only; omega)]
      have e1 : min (n + 1) (m - s.count) = min n (m - (s.count + 1)) + 1 := by omega
      have e2 : n + 1 - (m - s.count) = n - (m - (s.count + 1)) := by omega
      simp only [e1, e2, expected, List.cons_append]
    · have hn := next_exhausted s m hm (by omega)
      unfold next at hn
      simp only [outputs, hn]
      rw [ih s hm hle]
      have e0 : m - s.count = 0 := by omega
      simp only [e0, Nat.min_zero, expected, List.nil_append, Nat.sub_zero, List.replicate_succ]

/-- An unlimited policy yields a delay on every call. -/
theorem outputs_unlimited (s : Backoff) (hm : s.maxRetries = none) (n : Nat) :
    outputs .fixed s n = expected s.maxSleep s.cur n := by
  induction n generalizing s with
  | zero => simp [outputs, expected]
  | succ n ih =>
    have hn := next_unlimited s hm
    unfold next at hn
    simp only [outputs, hn, expected]
    rw [ih _ (by simpa using hm)]

/-- **yields_limit**: a policy with retry limit `L` yields exactly `L` delays — the first `L`
calls return the policy's delays, every later call returns `None`. -/
theorem yields_limit (p : Policy) (L : Nat) (hl : p.limit = some L) (hU : L < U32) (n : Nat) :
    outputs .fixed (init p) n = expected p.maxSleep p.initial (min n L) ++ List.replicate (n - L) .done := by
  have := outputs_limited (init p) L (by simpa [init] using hl) (by simp [init]) hU n
  simpa [init] using this

/-- **yields_limit (unlimited)**: a policy without a limit yields a delay on each of any number
of calls (there is no counter left that could overflow). -/
theorem yields_unbounded (p : Policy) (hl : p.limit = none) (n : Nat) :
    outputs .fixed (init p) n = expected p.maxSleep p.initial n := by
  have := outputs_unlimited (init p) (by simpa [init] using hl) n
  simpa [init] using this

/-- **first_is_initial** and **doubling_capped** on the yielded values: the i-th value yielded by
a policy (i below the limit, if any) is `Some(d)` with `d` representable and
`d = delayNs max initial i` nanoseconds. -/
theorem kth_delay (p : Policy) (hp : p.wf) (n i : Nat) (hi : i < n) (hl : ∀ L, p.limit = some L → i < L) :
    ∃ d, (outputs .fixed (init p) n)[i]? = some (.delay d) ∧ d.wf ∧
      d.toNs = delayNs p.maxSleep.toNs p.initial.toNs i := by
  refine ⟨seqFrom p.maxSleep p.initial i, ?_, seqFrom_wf _ _ hp.1 hp.2.1 i, seqFrom_eq_delayNs _ _ hp.1 hp.2.1 i⟩
  cases hlim : p.limit with
  | none => rw [yields_unbounded p hlim n]; exact expected_get _ _ _ _ hi
  | some L =>
    have hiL := hl L hlim
    rw [yields_limit p L hlim (p.wf_limit hp L hlim) n]
    rw [List.getElem?_append_left (by rw [expected_length]; omega)]
    exact expected_get _ _ _ _ (by omega)

theorem first_is_initial (p : Policy) (n : Nat) (hn : 0 < n) (hl : p.limit ≠ some 0) (hp : p.wf) :
    (outputs .fixed (init p) n)[0]? = some (.delay p.initial) := by
  cases hlim : p.limit with
  | none => rw [yields_unbounded p hlim n]; exact expected_get _ _ _ _ hn
  | some L =>
    have : 0 < L := by
      cases L with
      | zero => exact absurd hlim hl
      | succ L => omega
    rw [yields_limit p L hlim (p.wf_limit hp L hlim) n]
    rw [List.getElem?_append_left (by rw [expected_length]; omega)]
    exact expected_get _ _ _ _ (by omega)

theorem expected_no_panic (mx d : Dur) (k : Nat) : Out.panic ∉ expected mx d k := by
  induction k generalizing d with
  | zero => simp [expected]
  | succ k ih => simp only [expected, List.mem_cons, not_or]; exact ⟨by simp, ih _⟩

/-- **no_panic**: for all initial/maximum durations (including zero and `Duration::MAX`), all
limits and any number of calls, producing the sequence never panics. -/
theorem no_panic (p : Policy) (hp : p.wf) (n : Nat) : Out.panic ∉ outputs .fixed (init p) n := by
  cases hlim : p.limit with
  | none => rw [yields_unbounded p hlim n]; exact expected_no_panic _ _ _
  | some L =>
    rw [yields_limit p L hlim (p.wf_limit hp L hlim) n]
    intro h
    rcases List.mem_append.mp h with h | h
    · exact expected_no_panic _ _ _ h
    · have := (List.mem_replicate.mp h).2; cases this

/-! ### Non-vacuity -/

abbrev defaultPolicy : Policy := policyDefault

example : defaultPolicy.wf := by decide

/-- the repository's own unit test `session_retry`, on the model -/
example : outputs .fixed (init defaultPolicy) 12 =
    [.delay ⟨0, 500000000⟩, .delay ⟨1, 0⟩, .delay ⟨2, 0⟩, .delay ⟨4, 0⟩, .delay ⟨8, 0⟩, .delay ⟨16, 0⟩,
     .delay ⟨30, 0⟩, .delay ⟨30, 0⟩, .delay ⟨30, 0⟩, .delay ⟨30, 0⟩, .done, .done] := by decide

/-- a policy at the representable maximum is well-formed and yields MAX for ever -/
example : (Policy.mk Dur.dmax none Dur.dmax).wf ∧
    outputs .fixed (init ⟨Dur.dmax, none, Dur.dmax⟩) 3 = [.delay Dur.dmax, .delay Dur.dmax, .delay Dur.dmax] := by
  decide

/-! ### The user of the policy: `AsyncSecureChannel::connect` -/

/-- with one iterator for the whole call, a limited policy with `r` retries left gives up after
exactly `r + 1` further failed attempts (given enough fuel) -/
theorem connectAttempts_limited (p : Policy) (m : Nat) (hU : m < U32) (r : Nat) :
    ∀ (s : Backoff) (made extra : Nat), s.maxRetries = some m → s.count + r = m →
      connectAttempts false p (r + 1 + extra) s made = some (made + r + 1) := by
  induction r with
  | zero =>
    intro s made extra hm hc
    have hn := next_exhausted s m hm (by omega)
    rw [show 0 + 1 + extra = extra + 1 by omega]
    simp only [connectAttempts, Bool.false_eq_true, if_false, hn]
  | succ r ih =>
    intro s made extra hm hc
    have hn := next_limited s m hm (by omega) hU
    rw [show r + 1 + 1 + extra = (r + 1 + extra) + 1 by omega]
    simp only [connectAttempts, Bool.false_eq_true, if_false, hn]
    rw [ih _ (made + 1) extra (by simpa using hm) (by simp only; omega)]
    congr 1; omega

/-- **connect_respects_limit**: against a server on which every attempt fails, `connect` makes
exactly `limit + 1` attempts (the first one and `limit` retries) and then gives up. -/
theorem connect_respects_limit (p : Policy) (L : Nat) (hl : p.limit = some L) (hU : L < U32) (extra : Nat) :
    connectAttempts false p (L + 1 + extra) (init p) 0 = some (L + 1) := by
  have := connectAttempts_limited p L hU L (init p) 0 extra (by simpa [init] using hl) (by simp [init])
  simpa using this

/-- The pinned `connect` created a new iterator in every round: with any retry limit above zero it
never gives up, whatever the fuel. -/
theorem C37_counterexample_connect_never_gives_up (p : Policy) (L : Nat) (hl : p.limit = some (L + 1))
    (hU : L + 1 < U32) : ∀ (fuel : Nat) (b : Backoff) (made : Nat), connectAttempts true p fuel b made = none := by
  intro fuel
  induction fuel with
  | zero => intro b made; rfl
  | succ fuel ih =>
    intro b made
    have hn := next_limited (init p) (L + 1) (by simpa [init] using hl) (by simp [init]) hU
    simp only [connectAttempts, if_true, hn]
    exact ih _ _

example : connectAttempts false defaultPolicy 20 (init defaultPolicy) 0 = some 11 := by decide

/-! ### The two defects of the pinned source (repaired by the `fix:` commit) -/

/-- `current_sleep * 2` panics as soon as the current delay is more than half of `Duration::MAX`
(first call of a policy whose initial delay is `Duration::MAX`). -/
theorem C37_counterexample_mul_overflow :
    (nextWith .pinned (init ⟨Dur.dmax, some 10, Dur.dmax⟩)).1 = .panic := by decide

/-- general form: the pinned `next` panics in every non-exhausted state whose current delay
cannot be doubled, whatever the cap is. -/
theorem pinned_panics_when_double_overflows (s : Backoff) (h : s.cur.wf) (hx : exhausted s = false)
    (hov : DMAXNS < 2 * s.cur.toNs) : (nextWith .pinned s).1 = .panic := by
  have hc := (checkedMul2_spec s.cur h).2.mpr hov
  unfold nextWith
  simp [hx, hc]

/-- `retry_count += 1` ran for unlimited policies too: the call made with the counter at
`u32::MAX` panics. -/
theorem C37_counterexample_count_overflow :
    (nextWith .pinned { maxSleep := ⟨30, 0⟩, maxRetries := none, cur := ⟨30, 0⟩, count := U32 - 1 }).1 = .panic := by
  decide

/-- … and that state is reached: every unlimited policy whose delays can be doubled panics on
call number 2^32 (`N + 1 = U32`, i.e. after `N = u32::MAX` successful calls) in the pinned source. -/
theorem pinned_unlimited_panics (p : Policy) (hp : p.wf) (hl : p.limit = none)
    (hi : 2 * p.initial.toNs ≤ DMAXNS) (hm : 2 * p.maxSleep.toNs ≤ DMAXNS) (N : Nat) (hN : N + 1 = U32) :
    ∃ s, iterate .pinned (init p) N = some s ∧ (nextWith .pinned s).1 = .panic := by
  -- invariant: after k < 2^32 calls the counter is k and the current delay can be doubled
  have key : ∀ k (s : Backoff), s.maxRetries = none → s.maxSleep = p.maxSleep → s.cur.wf →
      2 * s.cur.toNs ≤ DMAXNS → s.count + k < U32 →
      ∃ s', iterate .pinned s k = some s' ∧ s'.maxRetries = none ∧ s'.maxSleep = p.maxSleep ∧ s'.cur.wf ∧
        2 * s'.cur.toNs ≤ DMAXNS ∧ s'.count = s.count + k := by
    intro k
    induction k with
    | zero => intro s h1 h2 h3 h4 _; exact ⟨s, rfl, h1, h2, h3, h4, rfl⟩
    | succ k ih =>
      intro s h1 h2 h3 h4 h5
      have ⟨hs, hn⟩ := checkedMul2_spec s.cur h3
      cases hc : s.cur.checkedMul2 with
      | none => have := hn.mp hc; omega
      | some d2 =>
        have ⟨hw, hd⟩ := hs d2 hc
        have ⟨hw', hmin⟩ := dmin_spec s.maxSleep d2 (h2 ▸ hp.1) hw
        have hstep : nextWith .pinned s =
            (.delay s.cur, { s with cur := s.maxSleep.dmin d2, count := s.count + 1 }) := by
          unfold nextWith exhausted
          simp [h1, hc, show ¬ U32 ≤ s.count + 1 by omega]
        have hdbl : 2 * (s.maxSleep.dmin d2).toNs ≤ DMAXNS := by
          rw [hmin, h2]; exact Nat.le_trans (Nat.mul_le_mul_left 2 (Nat.min_le_left _ _)) hm
        have hcnt : s.count + 1 + k < U32 := by omega
        have := ih { s with cur := s.maxSleep.dmin d2, count := s.count + 1 } h1 h2 hw' hdbl hcnt
        obtain ⟨s', e1, e2, e3, e4, e5, e6⟩ := this
        refine ⟨s', ?_, e2, e3, e4, e5, by rw [e6]; simp only; omega⟩
        simp only [iterate, hstep]; exact e1
  obtain ⟨s', e1, e2, _, e4, e5, e6⟩ := key N (init p) (by simpa [init] using hl) rfl hp.2.1
    (by simpa [init] using hi) (by simp only [init]; omega)
  refine ⟨s', e1, ?_⟩
  have ⟨hs, hn⟩ := checkedMul2_spec s'.cur e4
  cases hc : s'.cur.checkedMul2 with
  | none => have := hn.mp hc; omega
  | some d2 =>
    have h0 : (init p).count = 0 := rfl
    unfold nextWith exhausted
    simp [e2, hc, show U32 ≤ s'.count + 1 by omega]

/-- the hypotheses of `pinned_unlimited_panics` are satisfiable (the repository's own
`session_retry_infinity` policy) -/
example : (Policy.mk ⟨3, 0⟩ none ⟨0, 500000000⟩).wf ∧ 2 * (Dur.mk 0 500000000).toNs ≤ DMAXNS ∧
    2 * (Dur.mk 3 0).toNs ≤ DMAXNS := by decide

end OpcuaVerif.C37
