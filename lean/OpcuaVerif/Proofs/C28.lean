import OpcuaVerif.Lemmas.C28

/-!
C28 — The reference index always matches the set of references.

The model is `OpcuaVerif.Model.C28` (`References` of references.rs).  The abstract state of a
`Refs` value is the relation `R s a t b` ("`a` holds a reference of type `t` to `b`"); the
invariant `Inv` says that the reverse lookup is exactly the set of referring nodes.  Per-operation
refinement lemmas (`R_insertRef`, `R_deleteRef`, `R_deleteNodeRefs`, `inv_*`) are in
`OpcuaVerif.Lemmas.C28`; this file states the property over all histories.
-/
namespace OpcuaVerif.C28

/-! ### Queries -/

theorem hasRef_iff (s : Refs) (a b t : Nat) : hasRef s a b t = true ↔ R s a t b := by
  unfold hasRef R fwdL
  cases s.fwd.get a <;> simp

theorem filterByType_none (s : Refs) (fuel : Nat) (l : List (Nat × Nat)) :
    filterByType s fuel none l = some l := by
  cases l <;> rfl

theorem filterByType_exact (s : Refs) (fuel ty : Nat) (l : List (Nat × Nat)) :
    filterByType s fuel (some (ty, false)) l = some (l.filter (fun r => r.1 == ty)) := by
  induction l with
  | nil => rfl
  | cons r rest ih =>
    unfold filterByType
    simp only [ih, typeMatches]
    by_cases h : ty = r.1
    · have : (r.1 == ty) = true := by simp [h]
      simp [h]
    · have : (r.1 == ty) = false := by simp; exact fun e => h e.symm
      simp [h, this]

/-- what a `find_*` call returned, as a plain list (`None` = nothing found) -/
def found (r : Option (List (Nat × Nat))) : List (Nat × Nat) := r.getD []

theorem found_ite (l : List (Nat × Nat)) : found (if l.isEmpty then none else some l) = l := by
  cases l <;> rfl

/-- `find_references` without a filter reports exactly the references held by the node -/
theorem findRefs_none (s : Refs) (fuel a : Nat) :
    ∃ r, findRefs s fuel a none = some r ∧ ∀ t b, (t, b) ∈ found r ↔ R s a t b := by
  unfold findRefs R fwdL
  cases hg : s.fwd.get a with
  | none => exact ⟨none, rfl, by simp [found]⟩
  | some l =>
    simp only [filterByType_none]
    exact ⟨_, rfl, by intro t b; rw [found_ite]; simp⟩

/-- … and with an exact type filter exactly those of that type -/
theorem findRefs_exact (s : Refs) (fuel a ty : Nat) :
    ∃ r, findRefs s fuel a (some (ty, false)) = some r ∧
      ∀ t b, (t, b) ∈ found r ↔ (R s a t b ∧ t = ty) := by
  unfold findRefs R fwdL
  cases hg : s.fwd.get a with
  | none => exact ⟨none, rfl, by simp [found]⟩
  | some l =>
    simp only [filterByType_exact]
    exact ⟨_, rfl, by intro t b; rw [found_ite]; simp [List.mem_filter]⟩

theorem mem_backRefs (s : Refs) (b src t a : Nat) :
    (t, a) ∈ backRefs s b src ↔ a = src ∧ R s src t b := by
  unfold backRefs R fwdL
  cases s.fwd.get src with
  | none => simp
  | some l =>
    simp only [List.mem_map, List.mem_filter, Option.getD_some]
    constructor
    · rintro ⟨⟨t', b'⟩, ⟨hm, hb⟩, he⟩
      simp at hb he; obtain ⟨rfl, rfl⟩ := he; subst hb; exact ⟨rfl, hm⟩
    · rintro ⟨rfl, hm⟩
      exact ⟨(t, b), ⟨hm, by simp⟩, rfl⟩

theorem findInvAux_none (s : Refs) (fuel b : Nat) (srcs : List Nat) :
    ∃ out, findInvAux s fuel b none srcs = some out ∧
      ∀ t a, (t, a) ∈ out ↔ a ∈ srcs ∧ R s a t b := by
  induction srcs with
  | nil => exact ⟨[], rfl, by simp⟩
  | cons src rest ih =>
    obtain ⟨out, ho, hm⟩ := ih
    refine ⟨backRefs s b src ++ out, by simp [findInvAux, filterByType_none, ho], ?_⟩
    intro t a
    rw [List.mem_append, mem_backRefs, hm]
    constructor
    · rintro (⟨rfl, h⟩ | ⟨h1, h2⟩)
      · exact ⟨List.mem_cons_self, h⟩
      · exact ⟨List.mem_cons_of_mem _ h1, h2⟩
    · rintro ⟨h1, h2⟩
      cases h1 with
      | head => exact Or.inl ⟨rfl, h2⟩
      | tail _ h1 => exact Or.inr ⟨h1, h2⟩

theorem findInvAux_exact (s : Refs) (fuel b ty : Nat) (srcs : List Nat) :
    ∃ out, findInvAux s fuel b (some (ty, false)) srcs = some out ∧
      ∀ t a, (t, a) ∈ out ↔ a ∈ srcs ∧ R s a t b ∧ t = ty := by
  induction srcs with
  | nil => exact ⟨[], rfl, by simp⟩
  | cons src rest ih =>
    obtain ⟨out, ho, hm⟩ := ih
    refine ⟨(backRefs s b src).filter (fun r => r.1 == ty) ++ out,
      by simp [findInvAux, filterByType_exact, ho], ?_⟩
    intro t a
    rw [List.mem_append, List.mem_filter, mem_backRefs, hm]
    simp only [beq_iff_eq]
    constructor
    · rintro (⟨⟨rfl, h⟩, h3⟩ | ⟨h1, h2⟩)
      · exact ⟨List.mem_cons_self, h, h3⟩
      · exact ⟨List.mem_cons_of_mem _ h1, h2⟩
    · rintro ⟨h1, h2, h3⟩
      cases h1 with
      | head => exact Or.inl ⟨⟨rfl, h2⟩, h3⟩
      | tail _ h1 => exact Or.inr ⟨h1, h2, h3⟩

/-- `find_inverse_references` without a filter reports exactly the references that point at the
node (as (type, source)) — this is where the reverse lookup has to be complete -/
theorem findInv_none (s : Refs) (fuel b : Nat) (hi : Inv s) :
    ∃ r, findInv s fuel b none = some r ∧ ∀ t a, (t, a) ∈ found r ↔ R s a t b := by
  unfold findInv
  cases hg : s.inv.get b with
  | none =>
    refine ⟨none, rfl, ?_⟩
    intro t a
    have : invL s b = [] := by simp [invL, hg]
    constructor
    · intro h; simp [found] at h
    · intro h; have hh := hi.complete a t b h; rw [this] at hh; simp at hh
  | some srcs =>
    have hl : invL s b = srcs := by simp [invL, hg]
    obtain ⟨out, ho, hm⟩ := findInvAux_none s fuel b srcs
    simp only [ho]
    refine ⟨_, rfl, ?_⟩
    intro t a
    rw [found_ite, hm]
    constructor
    · exact fun h => h.2
    · intro h; exact ⟨hl ▸ hi.complete a t b h, h⟩

theorem findInv_exact (s : Refs) (fuel b ty : Nat) (hi : Inv s) :
    ∃ r, findInv s fuel b (some (ty, false)) = some r ∧
      ∀ t a, (t, a) ∈ found r ↔ (R s a t b ∧ t = ty) := by
  unfold findInv
  cases hg : s.inv.get b with
  | none =>
    refine ⟨none, rfl, ?_⟩
    intro t a
    have : invL s b = [] := by simp [invL, hg]
    constructor
    · intro h; simp [found] at h
    · intro h; have hh := hi.complete a t b h.1; rw [this] at hh; simp at hh
  | some srcs =>
    have hl : invL s b = srcs := by simp [invL, hg]
    obtain ⟨out, ho, hm⟩ := findInvAux_exact s fuel b ty srcs
    simp only [ho]
    refine ⟨_, rfl, ?_⟩
    intro t a
    rw [found_ite, hm]
    constructor
    · exact fun h => h.2
    · intro h; exact ⟨hl ▸ hi.complete a t b h.1, h⟩


/-! ### Histories -/

inductive Op where
  | ins (a b t : Nat)
  | del (a b t : Nat)
  | deln (n : Nat)
deriving Repr, DecidableEq

/-- one operation on the implementation model; `none` = panic (self reference) -/
def step (s : Refs) : Op → Option Refs
  | .ins a b t => insertRef s a b t
  | .del a b t => some (deleteRef s a b t).1
  | .deln n => some (deleteNodeRefs s n).1

def run : Refs → List Op → Option Refs
  | s, [] => some s
  | s, op :: ops => match step s op with
    | some s' => run s' ops
    | none => none

/-- the specification: a set of (source, type, target) triples -/
abbrev Spec := Nat → Nat → Nat → Prop

def specStep (S : Spec) : Op → Spec
  | .ins a b t => fun x u y => S x u y ∨ (x = a ∧ u = t ∧ y = b)
  | .del a b t => fun x u y => S x u y ∧ ¬ (x = a ∧ u = t ∧ y = b)
  | .deln n => fun x u y => S x u y ∧ x ≠ n ∧ y ≠ n

def specRun (S : Spec) (ops : List Op) : Spec := ops.foldl specStep S

/-- no operation of the history inserts a self reference (the real code panics there; that panic
belongs to property C33) -/
def NoSelfRef (ops : List Op) : Prop := ∀ a b t, Op.ins a b t ∈ ops → a ≠ b

theorem step_refines (s s' : Refs) (op : Op) (hi : Inv s) (h : step s op = some s') :
    Inv s' ∧ ∀ x u y, R s' x u y ↔ specStep (R s) op x u y := by
  cases op with
  | ins a b t => exact ⟨inv_insertRef h hi, R_insertRef h⟩
  | del a b t =>
    simp only [step, Option.some.injEq] at h; subst h
    exact ⟨inv_deleteRef s a b t hi, R_deleteRef s a b t⟩
  | deln n =>
    simp only [step, Option.some.injEq] at h; subst h
    exact ⟨inv_deleteNodeRefs s n hi, fun x u y => R_deleteNodeRefs s n x u y hi⟩

theorem specRun_congr (S S' : Spec) (ops : List Op) (h : ∀ x u y, S x u y ↔ S' x u y) :
    ∀ x u y, specRun S ops x u y ↔ specRun S' ops x u y := by
  induction ops generalizing S S' with
  | nil => exact h
  | cons op ops ih =>
    apply ih
    intro x u y
    cases op <;> simp only [specStep, h]

/-- **Refinement over every history.**  After any sequence of reference insertions, reference
deletions and node deletions the references of the implementation model are exactly the triples that
were added and not removed, and the reverse lookup is exact again. -/
theorem run_refines (ops : List Op) (s s' : Refs) (hi : Inv s) (h : run s ops = some s') :
    Inv s' ∧ ∀ x u y, R s' x u y ↔ specRun (R s) ops x u y := by
  induction ops generalizing s with
  | nil => simp only [run, Option.some.injEq] at h; subst h; exact ⟨hi, fun _ _ _ => Iff.rfl⟩
  | cons op ops ih =>
    simp only [run] at h
    cases hs : step s op with
    | none => rw [hs] at h; cases h
    | some s1 =>
      rw [hs] at h
      obtain ⟨hi1, h1⟩ := step_refines s s1 op hi hs
      obtain ⟨hi', h'⟩ := ih s1 hi1 h
      refine ⟨hi', fun x u y => (h' x u y).trans ?_⟩
      exact specRun_congr _ _ ops h1 x u y

/-- a history without self references never panics -/
theorem run_total (ops : List Op) (s : Refs) (hn : NoSelfRef ops) : ∃ s', run s ops = some s' := by
  induction ops generalizing s with
  | nil => exact ⟨s, rfl⟩
  | cons op ops ih =>
    have hn' : NoSelfRef ops := fun a b t h => hn a b t (List.mem_cons_of_mem _ h)
    cases op with
    | ins a b t =>
      have hab : a ≠ b := hn a b t List.mem_cons_self
      have := (insertRef_isSome s a b t).2 hab
      obtain ⟨s1, hs1⟩ := Option.isSome_iff_exists.1 this
      obtain ⟨s', hs'⟩ := ih s1 hn'
      exact ⟨s', by simp [run, step, hs1, hs']⟩
    | del a b t => simpa [run, step] using ih _ hn'
    | deln n => simpa [run, step] using ih _ hn'

/-- **C28.**  Starting from no references, after any history (without self references) the run
completes, and every existence check, forward query and inverse query — unfiltered or filtered by an
exact reference type — of every node reports exactly the references that were added and not
removed. -/
theorem index_matches_reference_set (ops : List Op) (hn : NoSelfRef ops) :
    ∃ s, run empty ops = some s ∧
      let S := specRun (fun _ _ _ => False) ops
      (∀ a b t, hasRef s a b t = true ↔ S a t b) ∧
      (∀ fuel a, ∃ r, findRefs s fuel a none = some r ∧ ∀ t b, (t, b) ∈ found r ↔ S a t b) ∧
      (∀ fuel b, ∃ r, findInv s fuel b none = some r ∧ ∀ t a, (t, a) ∈ found r ↔ S a t b) ∧
      (∀ fuel a ty, ∃ r, findRefs s fuel a (some (ty, false)) = some r ∧
        ∀ t b, (t, b) ∈ found r ↔ (S a t b ∧ t = ty)) ∧
      (∀ fuel b ty, ∃ r, findInv s fuel b (some (ty, false)) = some r ∧
        ∀ t a, (t, a) ∈ found r ↔ (S a t b ∧ t = ty)) := by
  obtain ⟨s, hs⟩ := run_total ops empty hn
  obtain ⟨hi, hr⟩ := run_refines ops empty s inv_empty hs
  have hR : ∀ x u y, R s x u y ↔ specRun (fun _ _ _ => False) ops x u y := by
    intro x u y
    rw [hr]
    apply specRun_congr
    intro x u y; simp [R, fwdL, empty, AMap.get]
  refine ⟨s, hs, ?_, ?_, ?_, ?_, ?_⟩
  · intro a b t; rw [hasRef_iff, hR]
  · intro fuel a
    obtain ⟨r, h1, h2⟩ := findRefs_none s fuel a
    exact ⟨r, h1, fun t b => (h2 t b).trans (hR a t b)⟩
  · intro fuel b
    obtain ⟨r, h1, h2⟩ := findInv_none s fuel b hi
    exact ⟨r, h1, fun t a => (h2 t a).trans (hR a t b)⟩
  · intro fuel a ty
    obtain ⟨r, h1, h2⟩ := findRefs_exact s fuel a ty
    exact ⟨r, h1, fun t b => (h2 t b).trans (by rw [hR])⟩
  · intro fuel b ty
    obtain ⟨r, h1, h2⟩ := findInv_exact s fuel b ty hi
    exact ⟨r, h1, fun t a => (h2 t a).trans (by rw [hR])⟩

/-- **Deleting one reference never removes or hides a different one**: any other reference is
still held, still found from its source and still found from its target. -/
theorem delete_keeps_other_references (s : Refs) (hi : Inv s) (a b t x u y : Nat)
    (hr : R s x u y) (hne : ¬ (x = a ∧ u = t ∧ y = b)) :
    let s' := (deleteRef s a b t).1
    hasRef s' x y u = true ∧
    (∀ fuel, ∃ r, findRefs s' fuel x none = some r ∧ (u, y) ∈ found r) ∧
    (∀ fuel, ∃ r, findInv s' fuel y none = some r ∧ (u, x) ∈ found r) := by
  have hr' : R (deleteRef s a b t).1 x u y := (R_deleteRef s a b t x u y).2 ⟨hr, hne⟩
  have hi' := inv_deleteRef s a b t hi
  refine ⟨(hasRef_iff _ _ _ _).2 hr', ?_, ?_⟩
  · intro fuel
    obtain ⟨r, h1, h2⟩ := findRefs_none (deleteRef s a b t).1 fuel x
    exact ⟨r, h1, (h2 u y).2 hr'⟩
  · intro fuel
    obtain ⟨r, h1, h2⟩ := findInv_none (deleteRef s a b t).1 fuel y hi'
    exact ⟨r, h1, (h2 u x).2 hr'⟩

/-- the same for a node deletion: references that do not mention the node stay -/
theorem delete_node_keeps_other_references (s : Refs) (hi : Inv s) (n x u y : Nat)
    (hr : R s x u y) (hx : x ≠ n) (hy : y ≠ n) : R (deleteNodeRefs s n).1 x u y :=
  (R_deleteNodeRefs s n x u y hi).2 ⟨hr, hx, hy⟩

/-! ### Non-vacuity and the defect that was repaired -/

def sample : List Op := [.ins 1 2 47, .ins 2 1 47, .ins 1 3 35, .del 1 2 47, .deln 3]

/-- `NoSelfRef` and `Inv` are satisfied by a non-trivial reachable state, and on it the opposite
reference survives the deletion -/
example : ∃ s, run empty sample = some s ∧ hasRef s 2 1 47 = true ∧ hasRef s 1 2 47 = false ∧
    hasRef s 1 3 35 = false ∧ findInv s 8 1 none = some (some [(47, 2)]) := by
  exact ⟨_, rfl, by decide, by decide, by decide, by decide⟩

example : NoSelfRef sample := by
  intro a b t h
  simp [sample] at h
  rcases h with ⟨rfl, rfl, -⟩ | ⟨rfl, rfl, -⟩ | ⟨rfl, rfl, -⟩ <;> decide

/-- The pinned source handed the targets that were no longer referenced to
`remove_node_from_referenced_nodes`: deleting A→B also deleted B→A.  Record of the repaired defect
(witness replayed on the real code: `corpus/C28/cross-delete.ops`). -/
theorem C28_counterexample_cross_delete :
    ∃ s1 s2, insertRef empty 1 2 47 = some s1 ∧ insertRef s1 2 1 47 = some s2 ∧
      hasRef s2 2 1 47 = true ∧ hasRef (deleteRefWith true s2 1 2 47).1 2 1 47 = false := by
  exact ⟨_, _, rfl, rfl, by decide, by decide⟩

/-! ### Filters with subtypes (`reference_type_matches`) -/

/-- `b` is `a` or a direct or indirect subtype of `a` according to the HasSubtype references held -/
inductive Sub (s : Refs) : Nat → Nat → Prop
  | refl (a : Nat) : Sub s a a
  | head {a b c : Nat} : R s a hasSubtype b → Sub s b c → Sub s a c

theorem mem_subtypes (s : Refs) (cur y : Nat) (l : List (Nat × Nat)) (hg : s.fwd.get cur = some l) :
    y ∈ (l.filter (fun r => r.1 == hasSubtype)).map (fun r => r.2) ↔ R s cur hasSubtype y := by
  unfold R fwdL
  rw [hg]
  simp only [List.mem_map, List.mem_filter, Option.getD_some]
  constructor
  · rintro ⟨⟨t, y'⟩, ⟨hm, ht⟩, rfl⟩
    simp at ht; subst ht; exact hm
  · intro hm; exact ⟨(hasSubtype, y), ⟨hm, by simp⟩, rfl⟩

/-- the walk of `reference_type_matches` answers `true` only for a subtype … -/
theorem subtypeSearch_sound (s : Refs) (sub : Nat) : ∀ fuel stack,
    subtypeSearch s sub fuel stack = some true → ∃ c ∈ stack, Sub s c sub := by
  intro fuel
  induction fuel with
  | zero => intro stack h; simp [subtypeSearch] at h
  | succ fuel ih =>
    intro stack h
    cases stack with
    | nil => simp [subtypeSearch] at h
    | cons cur rest =>
      unfold subtypeSearch at h
      split at h
      · rename_i he; exact ⟨cur, List.mem_cons_self, he ▸ Sub.refl _⟩
      · cases hg : s.fwd.get cur with
        | none =>
          rw [hg] at h
          obtain ⟨c, hc, hs⟩ := ih _ h
          exact ⟨c, List.mem_cons_of_mem _ hc, hs⟩
        | some l =>
          rw [hg] at h
          simp only [] at h
          split at h
          · rename_i hc
            have : sub ∈ (l.filter (fun r => r.1 == hasSubtype)).map (fun r => r.2) := by simpa using hc
            exact ⟨cur, List.mem_cons_self, Sub.head ((mem_subtypes s cur sub l hg).1 this) (Sub.refl _)⟩
          · obtain ⟨c, hc, hs⟩ := ih _ h
            rcases List.mem_append.1 hc with hc | hc
            · have hc' : c ∈ (l.filter (fun r => r.1 == hasSubtype)).map (fun r => r.2) := by
                simpa using hc
              exact ⟨cur, List.mem_cons_self, Sub.head ((mem_subtypes s cur c l hg).1 hc') hs⟩
            · exact ⟨c, List.mem_cons_of_mem _ hc, hs⟩

/-- … and `false` only when nothing on the stack has it as a subtype -/
theorem subtypeSearch_complete (s : Refs) (sub : Nat) : ∀ fuel stack,
    subtypeSearch s sub fuel stack = some false → ∀ c ∈ stack, ¬ Sub s c sub := by
  intro fuel
  induction fuel with
  | zero => intro stack h; simp [subtypeSearch] at h
  | succ fuel ih =>
    intro stack h
    cases stack with
    | nil => intro c hc; cases hc
    | cons cur rest =>
      unfold subtypeSearch at h
      split at h
      · cases h
      · rename_i hne
        cases hg : s.fwd.get cur with
        | none =>
          rw [hg] at h
          have hrest := ih _ h
          intro c hc
          cases hc with
          | head =>
            intro hs
            cases hs with
            | refl => exact hne rfl
            | head hr _ => simp [R, fwdL, hg] at hr
          | tail _ hc => exact hrest c hc
        | some l =>
          rw [hg] at h
          simp only [] at h
          split at h
          · cases h
          · have hall := ih _ h
            intro c hc
            cases hc with
            | head =>
              intro hs
              cases hs with
              | refl => exact hne rfl
              | head hr hs' =>
                rename_i b
                have hb : b ∈ (l.filter (fun r => r.1 == hasSubtype)).map (fun r => r.2) :=
                  (mem_subtypes s cur b l hg).2 hr
                exact hall b (List.mem_append_left _ (by simpa using hb)) hs'
            | tail _ hc => exact hall c (List.mem_append_right _ hc)

/-- what a reference filter asks of the type `t` of a reference -/
def Matches (s : Refs) (ty : Nat) (incl : Bool) (t : Nat) : Prop :=
  if incl = true then Sub s ty t else ty = t

/-- `reference_type_matches`, whenever the walk returns -/
theorem typeMatches_spec (s : Refs) (fuel ty sub : Nat) (incl b : Bool)
    (h : typeMatches s fuel ty sub incl = some b) : b = true ↔ Matches s ty incl sub := by
  unfold typeMatches at h
  unfold Matches
  split at h
  · rename_i he; cases h; subst he; simp; intro _; exact Sub.refl _
  · rename_i hne
    cases incl with
    | false => simp at h; subst h; simp [hne]
    | true =>
      simp only [if_true] at h ⊢
      cases b with
      | true =>
        obtain ⟨c, hc, hs⟩ := subtypeSearch_sound s sub fuel _ h
        simp at hc; subst hc; simp [hs]
      | false =>
        have := subtypeSearch_complete s sub fuel _ h ty List.mem_cons_self
        simp [this]

theorem filterByType_spec (s : Refs) (fuel ty : Nat) (incl : Bool) :
    ∀ (l out : List (Nat × Nat)), filterByType s fuel (some (ty, incl)) l = some out →
      ∀ r, r ∈ out ↔ (r ∈ l ∧ Matches s ty incl r.1) := by
  intro l
  induction l with
  | nil => intro out h; simp [filterByType] at h; subst h; simp
  | cons x rest ih =>
    intro out h
    unfold filterByType at h
    simp only [] at h
    cases hm : typeMatches s fuel ty x.1 incl with
    | none => rw [hm] at h; simp at h
    | some b =>
      cases hr : filterByType s fuel (some (ty, incl)) rest with
      | none => rw [hm, hr] at h; cases b <;> simp at h
      | some out' =>
        rw [hm, hr] at h
        have hspec := typeMatches_spec s fuel ty x.1 incl b hm
        have ih' := ih out' hr
        intro r
        cases b with
        | true =>
          simp only [Option.some.injEq] at h; subst h
          have hx : Matches s ty incl x.1 := hspec.1 rfl
          rw [List.mem_cons, ih', List.mem_cons]
          constructor
          · rintro (rfl | ⟨h1, h2⟩)
            · exact ⟨Or.inl rfl, hx⟩
            · exact ⟨Or.inr h1, h2⟩
          · rintro ⟨rfl | h1, h2⟩
            · exact Or.inl rfl
            · exact Or.inr ⟨h1, h2⟩
        | false =>
          simp only [Option.some.injEq] at h; subst h
          have hx : ¬ Matches s ty incl x.1 := fun hmm => by have := hspec.2 hmm; cases this
          rw [ih', List.mem_cons]
          constructor
          · rintro ⟨h1, h2⟩; exact ⟨Or.inr h1, h2⟩
          · rintro ⟨rfl | h1, h2⟩
            · exact absurd h2 hx
            · exact ⟨h1, h2⟩

/-- **`find_references` with any type filter** (exact or with subtypes): whenever the subtype walk
returns, the result is exactly the node's references whose type the filter admits.  Partial: that the
walk returns is not proved — it does not on a HasSubtype cycle that misses the type (C33). -/
theorem findRefs_filtered_partial (s : Refs) (fuel a ty : Nat) (incl : Bool)
    (r : Option (List (Nat × Nat))) (h : findRefs s fuel a (some (ty, incl)) = some r) :
    ∀ t b, (t, b) ∈ found r ↔ (R s a t b ∧ Matches s ty incl t) := by
  unfold findRefs at h
  unfold R fwdL
  cases hg : s.fwd.get a with
  | none => rw [hg] at h; cases h; simp [found]
  | some l =>
    rw [hg] at h
    simp only [] at h
    cases hf : filterByType s fuel (some (ty, incl)) l with
    | none => rw [hf] at h; cases h
    | some out =>
      rw [hf] at h
      simp only [Option.some.injEq] at h; subst h
      intro t b
      rw [found_ite]
      exact filterByType_spec s fuel ty incl l out hf (t, b)

theorem findInvAux_spec (s : Refs) (fuel b ty : Nat) (incl : Bool) :
    ∀ (srcs : List Nat) (out : List (Nat × Nat)),
      findInvAux s fuel b (some (ty, incl)) srcs = some out →
      ∀ t a, (t, a) ∈ out ↔ (a ∈ srcs ∧ R s a t b ∧ Matches s ty incl t) := by
  intro srcs
  induction srcs with
  | nil => intro out h; simp [findInvAux] at h; subst h; simp
  | cons src rest ih =>
    intro out h
    unfold findInvAux at h
    cases hx : filterByType s fuel (some (ty, incl)) (backRefs s b src) with
    | none => rw [hx] at h; simp at h
    | some x =>
      cases hy : findInvAux s fuel b (some (ty, incl)) rest with
      | none => rw [hx, hy] at h; simp at h
      | some y =>
        rw [hx, hy] at h
        simp only [Option.some.injEq] at h; subst h
        intro t a
        rw [List.mem_append, filterByType_spec s fuel ty incl _ x hx (t, a), mem_backRefs, ih y hy]
        constructor
        · rintro (⟨⟨rfl, h1⟩, h2⟩ | ⟨h1, h2⟩)
          · exact ⟨List.mem_cons_self, h1, h2⟩
          · exact ⟨List.mem_cons_of_mem _ h1, h2⟩
        · rintro ⟨h1, h2, h3⟩
          cases h1 with
          | head => exact Or.inl ⟨⟨rfl, h2⟩, h3⟩
          | tail _ h1 => exact Or.inr ⟨h1, h2, h3⟩

/-- **`find_inverse_references` with any type filter**, whenever the subtype walk returns (needs the
reverse lookup to be complete) -/
theorem findInv_filtered_partial (s : Refs) (fuel b ty : Nat) (incl : Bool) (hi : Inv s)
    (r : Option (List (Nat × Nat))) (h : findInv s fuel b (some (ty, incl)) = some r) :
    ∀ t a, (t, a) ∈ found r ↔ (R s a t b ∧ Matches s ty incl t) := by
  unfold findInv at h
  cases hg : s.inv.get b with
  | none =>
    rw [hg] at h; cases h
    intro t a
    have hnil : invL s b = [] := by simp [invL, hg]
    constructor
    · intro hm; simp [found] at hm
    · intro hm; have hh := hi.complete a t b hm.1; rw [hnil] at hh; simp at hh
  | some srcs =>
    rw [hg] at h
    simp only [] at h
    have hl : invL s b = srcs := by simp [invL, hg]
    cases hf : findInvAux s fuel b (some (ty, incl)) srcs with
    | none => rw [hf] at h; cases h
    | some out =>
      rw [hf] at h
      simp only [Option.some.injEq] at h; subst h
      intro t a
      rw [found_ite, findInvAux_spec s fuel b ty incl srcs out hf]
      constructor
      · exact fun hm => hm.2
      · intro hm; exact ⟨hl ▸ hi.complete a t b hm.1, hm⟩

/-- non-vacuity: a two-level hierarchy on which the walk returns and finds the indirect subtype -/
example : ∃ s, run empty [.ins 44 47 45, .ins 47 49 45, .ins 1 2 49, .ins 1 3 35] = some s ∧
    findRefs s 16 1 (some (44, true)) = some (some [(49, 2)]) ∧
    findInv s 16 2 (some (44, true)) = some (some [(49, 1)]) ∧
    findRefs s 16 1 (some (44, false)) = some none := by
  exact ⟨_, rfl, by decide, by decide, by decide⟩

/-! ### The subtype walk returns when the HasSubtype references have no cycle -/

/-- more fuel never changes an answer -/
theorem subtypeSearch_mono (s : Refs) (sub : Nat) : ∀ fuel stack r k,
    subtypeSearch s sub fuel stack = some r → subtypeSearch s sub (fuel + k) stack = some r := by
  intro fuel
  induction fuel with
  | zero => intro stack r k h; simp [subtypeSearch] at h
  | succ fuel ih =>
    intro stack r k h
    rw [show fuel + 1 + k = (fuel + k) + 1 by omega]
    cases stack with
    | nil => simpa [subtypeSearch] using h
    | cons cur rest =>
      unfold subtypeSearch at h ⊢
      split
      · rename_i he; simpa [he] using h
      · rename_i hne
        rw [if_neg hne] at h
        cases hg : s.fwd.get cur with
        | none => rw [hg] at h; exact ih _ _ _ h
        | some l =>
          rw [hg] at h
          simp only [] at h ⊢
          split
          · rename_i hc; rw [if_pos hc] at h; exact h
          · rename_i hc; rw [if_neg hc] at h; exact ih _ _ _ h

/-- the walk over `a ++ b` is the walk over `a` followed, if `a` does not decide, by the walk over `b` -/
theorem subtypeSearch_append (s : Refs) (sub : Nat) : ∀ fuel a b r,
    subtypeSearch s sub fuel a = some r →
      (r = true → ∀ g, subtypeSearch s sub (fuel + g) (a ++ b) = some true) ∧
      (r = false → ∀ g r', subtypeSearch s sub g b = some r' →
        subtypeSearch s sub (fuel + g) (a ++ b) = some r') := by
  intro fuel
  induction fuel with
  | zero => intro a b r h; simp [subtypeSearch] at h
  | succ fuel ih =>
    intro a b r h
    cases a with
    | nil =>
      simp only [subtypeSearch, Option.some.injEq] at h
      subst h
      refine ⟨by simp, fun _ g r' hb => ?_⟩
      rw [List.nil_append, show fuel + 1 + g = g + (fuel + 1) by omega]
      exact subtypeSearch_mono s sub g b r' _ hb
    | cons cur rest =>
      have e : ∀ g, fuel + 1 + g = (fuel + g) + 1 := by intro g; omega
      unfold subtypeSearch at h
      split at h
      · rename_i he
        cases h
        refine ⟨fun _ g => ?_, by simp⟩
        rw [e, List.cons_append]; unfold subtypeSearch; simp [he]
      · rename_i hne
        cases hg : s.fwd.get cur with
        | none =>
          rw [hg] at h
          obtain ⟨h1, h2⟩ := ih rest b r h
          constructor
          · intro hr g; rw [e, List.cons_append]; unfold subtypeSearch; simp only [hne, if_false, hg]
            exact h1 hr g
          · intro hr g r' hb; rw [e, List.cons_append]; unfold subtypeSearch
            simp only [hne, if_false, hg]; exact h2 hr g r' hb
        | some l =>
          rw [hg] at h
          simp only [] at h
          split at h
          · rename_i hc
            cases h
            refine ⟨fun _ g => ?_, by simp⟩
            rw [e, List.cons_append]; unfold subtypeSearch; simp only [hne, if_false, hg]; rw [if_pos hc]
          · rename_i hc
            obtain ⟨h1, h2⟩ := ih _ b r h
            constructor
            · intro hr g; rw [e, List.cons_append]; unfold subtypeSearch
              simp only [hne, if_false, hg, hc]
              rw [← List.append_assoc]; exact h1 hr g
            · intro hr g r' hb; rw [e, List.cons_append]; unfold subtypeSearch
              simp only [hne, if_false, hg, hc]
              rw [← List.append_assoc]; exact h2 hr g r' hb

/-- the HasSubtype references have no cycle: some rank goes down along each of them -/
def Acyclic (s : Refs) : Prop := ∃ rk : Nat → Nat, ∀ a b, R s a hasSubtype b → rk b < rk a

theorem subtypeSearch_terminates_ranked (s : Refs) (sub : Nat) (rk : Nat → Nat)
    (hrk : ∀ a b, R s a hasSubtype b → rk b < rk a) :
    ∀ k stack, (∀ c ∈ stack, rk c < k) → ∃ fuel r, subtypeSearch s sub fuel stack = some r := by
  intro k
  induction k with
  | zero =>
    intro stack h
    cases stack with
    | nil => exact ⟨1, false, rfl⟩
    | cons c _ => exact absurd (h c List.mem_cons_self) (Nat.not_lt_zero _)
  | succ k ih =>
    intro stack
    induction stack with
    | nil => intro _; exact ⟨1, false, rfl⟩
    | cons cur rest ihs =>
      intro h
      obtain ⟨f2, r2, h2⟩ := ihs (fun c hc => h c (List.mem_cons_of_mem _ hc))
      by_cases he : sub = cur
      · exact ⟨1, true, by simp [subtypeSearch, he]⟩
      · cases hg : s.fwd.get cur with
        | none => exact ⟨f2 + 1, r2, by unfold subtypeSearch; simp only [he, if_false, hg]; exact h2⟩
        | some l =>
          by_cases hc : ((l.filter (fun r => r.1 == hasSubtype)).map (fun r => r.2)).contains sub = true
          · exact ⟨1, true, by unfold subtypeSearch; simp only [he, if_false, hg]; rw [if_pos hc]⟩
          · have hlow : ∀ c ∈ ((l.filter (fun r => r.1 == hasSubtype)).map (fun r => r.2)).reverse, rk c < k := by
              intro c hcm
              have hcm' : c ∈ (l.filter (fun r => r.1 == hasSubtype)).map (fun r => r.2) := by simpa using hcm
              have := hrk cur c ((mem_subtypes s cur c l hg).1 hcm')
              have := h cur List.mem_cons_self
              omega
            obtain ⟨f1, r1, h1⟩ := ih _ hlow
            obtain ⟨a1, a2⟩ := subtypeSearch_append s sub f1 _ rest r1 h1
            cases r1 with
            | true =>
              refine ⟨f1 + 0 + 1, true, ?_⟩
              unfold subtypeSearch; simp only [he, if_false, hg, hc]
              exact a1 rfl 0
            | false =>
              refine ⟨f1 + f2 + 1, r2, ?_⟩
              unfold subtypeSearch; simp only [he, if_false, hg, hc]
              exact a2 rfl f2 r2 h2

theorem le_sum_of_mem (rk : Nat → Nat) (l : List Nat) (c : Nat) (h : c ∈ l) : rk c ≤ (l.map rk).sum := by
  induction l with
  | nil => cases h
  | cons x r ih =>
    simp only [List.map_cons, List.sum_cons]
    cases h with
    | head => omega
    | tail _ h => have := ih h; omega

/-- **On an acyclic type hierarchy `reference_type_matches` returns**: there is an amount of fuel from
which on the walk gives an answer (and `typeMatches_spec` says which). -/
theorem typeMatches_terminates (s : Refs) (hac : Acyclic s) (ty sub : Nat) (incl : Bool) :
    ∃ fuel0 b, ∀ fuel, fuel0 ≤ fuel → typeMatches s fuel ty sub incl = some b := by
  obtain ⟨rk, hrk⟩ := hac
  unfold typeMatches
  by_cases he : ty = sub
  · exact ⟨0, true, fun _ _ => by simp [he]⟩
  · cases incl with
    | false => exact ⟨0, false, fun _ _ => by simp [he]⟩
    | true =>
      obtain ⟨f, r, h⟩ := subtypeSearch_terminates_ranked s sub rk hrk (rk ty + 1) [ty]
        (by intro c hc; simp at hc; subst hc; omega)
      refine ⟨f, r, fun fuel hf => ?_⟩
      simp only [he, if_false, if_true]
      obtain ⟨k, rfl⟩ := Nat.exists_eq_add_of_le hf
      exact subtypeSearch_mono s sub f [ty] r k h

theorem filterByType_terminates (s : Refs) (hac : Acyclic s) (f : Filter) (l : List (Nat × Nat)) :
    ∃ fuel0, ∀ fuel, fuel0 ≤ fuel → ∃ out, filterByType s fuel f l = some out := by
  cases f with
  | none => exact ⟨0, fun fuel _ => ⟨l, filterByType_none s fuel l⟩⟩
  | some p =>
    obtain ⟨ty, incl⟩ := p
    induction l with
    | nil => exact ⟨0, fun _ _ => ⟨[], rfl⟩⟩
    | cons x rest ih =>
      obtain ⟨f1, h1⟩ := ih
      obtain ⟨f2, b, h2⟩ := typeMatches_terminates s hac ty x.1 incl
      refine ⟨f1 + f2, fun fuel hf => ?_⟩
      obtain ⟨out, ho⟩ := h1 fuel (by omega)
      have hb := h2 fuel (by omega)
      unfold filterByType
      simp only [hb, ho]
      cases b <;> exact ⟨_, rfl⟩

/-- **`find_references` with any filter, total on acyclic hierarchies**: with enough fuel the call
returns, and its result is exactly the node's references whose type the filter admits. -/
theorem findRefs_filtered_acyclic (s : Refs) (hac : Acyclic s) (a ty : Nat) (incl : Bool) :
    ∃ fuel0, ∀ fuel, fuel0 ≤ fuel → ∃ r, findRefs s fuel a (some (ty, incl)) = some r ∧
      ∀ t b, (t, b) ∈ found r ↔ (R s a t b ∧ Matches s ty incl t) := by
  cases hg : s.fwd.get a with
  | none =>
    refine ⟨0, fun fuel _ => ?_⟩
    have h : findRefs s fuel a (some (ty, incl)) = some none := by simp [findRefs, hg]
    exact ⟨none, h, findRefs_filtered_partial s fuel a ty incl none h⟩
  | some l =>
    obtain ⟨f0, h0⟩ := filterByType_terminates s hac (some (ty, incl)) l
    refine ⟨f0, fun fuel hf => ?_⟩
    obtain ⟨out, ho⟩ := h0 fuel hf
    have h : findRefs s fuel a (some (ty, incl)) = some (if out.isEmpty then none else some out) := by
      simp [findRefs, hg, ho]
    exact ⟨_, h, findRefs_filtered_partial s fuel a ty incl _ h⟩

theorem findInvAux_terminates (s : Refs) (hac : Acyclic s) (b : Nat) (f : Filter) (srcs : List Nat) :
    ∃ fuel0, ∀ fuel, fuel0 ≤ fuel → ∃ out, findInvAux s fuel b f srcs = some out := by
  induction srcs with
  | nil => exact ⟨0, fun _ _ => ⟨[], rfl⟩⟩
  | cons src rest ih =>
    obtain ⟨f1, h1⟩ := ih
    obtain ⟨f2, h2⟩ := filterByType_terminates s hac f (backRefs s b src)
    refine ⟨f1 + f2, fun fuel hf => ?_⟩
    obtain ⟨y, hy⟩ := h1 fuel (by omega)
    obtain ⟨x, hx⟩ := h2 fuel (by omega)
    exact ⟨x ++ y, by simp [findInvAux, hx, hy]⟩

/-- **`find_inverse_references` with any filter, total on acyclic hierarchies** -/
theorem findInv_filtered_acyclic (s : Refs) (hac : Acyclic s) (hi : Inv s) (b ty : Nat) (incl : Bool) :
    ∃ fuel0, ∀ fuel, fuel0 ≤ fuel → ∃ r, findInv s fuel b (some (ty, incl)) = some r ∧
      ∀ t a, (t, a) ∈ found r ↔ (R s a t b ∧ Matches s ty incl t) := by
  cases hg : s.inv.get b with
  | none =>
    refine ⟨0, fun fuel _ => ?_⟩
    have h : findInv s fuel b (some (ty, incl)) = some none := by simp [findInv, hg]
    exact ⟨none, h, findInv_filtered_partial s fuel b ty incl hi none h⟩
  | some srcs =>
    obtain ⟨f0, h0⟩ := findInvAux_terminates s hac b (some (ty, incl)) srcs
    refine ⟨f0, fun fuel hf => ?_⟩
    obtain ⟨out, ho⟩ := h0 fuel hf
    have h : findInv s fuel b (some (ty, incl)) = some (if out.isEmpty then none else some out) := by
      simp [findInv, hg, ho]
    exact ⟨_, h, findInv_filtered_partial s fuel b ty incl hi _ h⟩

theorem mem_fwd_of_get (m : AMap (List (Nat × Nat))) (k : Nat) (v : List (Nat × Nat))
    (h : m.get k = some v) : (k, v) ∈ m := by
  induction m with
  | nil => simp [AMap.get] at h
  | cons e r ih =>
    obtain ⟨k', v'⟩ := e
    unfold AMap.get at h
    split at h
    · rename_i hk; cases h; subst hk; exact List.mem_cons_self
    · exact List.mem_cons_of_mem _ (ih h)

/-- an executable test for `Acyclic` with a given rank -/
def rankCheck (s : Refs) (rk : Nat → Nat) : Bool :=
  s.fwd.all fun e => e.2.all fun r => r.1 != hasSubtype || decide (rk r.2 < rk e.1)

theorem acyclic_of_rankCheck (s : Refs) (rk : Nat → Nat) (h : rankCheck s rk = true) : Acyclic s := by
  refine ⟨rk, fun a b hr => ?_⟩
  unfold R fwdL at hr
  cases hg : s.fwd.get a with
  | none => rw [hg] at hr; simp at hr
  | some l =>
    rw [hg] at hr
    simp only [Option.getD_some] at hr
    unfold rankCheck at h
    rw [List.all_eq_true] at h
    have h1 := h (a, l) (mem_fwd_of_get _ _ _ hg)
    rw [List.all_eq_true] at h1
    have h2 := h1 (hasSubtype, b) hr
    simpa using h2

/-- non-vacuity: the two-level hierarchy Aggregates ⊃ HasComponent ⊃ HasOrderedComponent is acyclic -/
example : ∃ s, run empty [.ins 44 47 45, .ins 47 49 45, .ins 1 2 49] = some s ∧ Acyclic s :=
  ⟨_, rfl, acyclic_of_rankCheck _ (fun n => if n = 44 then 2 else if n = 47 then 1 else 0) (by decide)⟩

/-- a HasSubtype cycle is not `Acyclic` (there the real walk may not return) -/
example : ∃ s, run empty [.ins 44 47 45, .ins 47 44 45] = some s ∧ ¬ Acyclic s := by
  refine ⟨_, rfl, ?_⟩
  rintro ⟨rk, h⟩
  have h1 := h 44 47 (by decide)
  have h2 := h 47 44 (by decide)
  omega

/-! ### The remaining public entry points: `insert` with a direction, `find_references_by_direction`,
`get_type_id` -/

/-- `References::insert` of one entry: a forward entry adds source → node, an inverse entry
node → source -/
theorem R_insertMany_one {s s' : Refs} {src node t : Nat} {inverse : Bool}
    (h : insertMany s src [(node, t, inverse)] = some s') (x u y : Nat) :
    R s' x u y ↔ (R s x u y ∨
      (if inverse = true then x = node ∧ u = t ∧ y = src else x = src ∧ u = t ∧ y = node)) := by
  unfold insertMany at h
  cases inverse with
  | true =>
    simp only [if_true] at h ⊢
    cases hi : insertRef s node src t with
    | none => rw [hi] at h; cases h
    | some s1 => rw [hi] at h; simp only [insertMany, Option.some.injEq] at h; subst h; exact R_insertRef hi x u y
  | false =>
    simp only [Bool.false_eq_true, if_false] at h ⊢
    cases hi : insertRef s src node t with
    | none => rw [hi] at h; cases h
    | some s1 => rw [hi] at h; simp only [insertMany, Option.some.injEq] at h; subst h; exact R_insertRef hi x u y

/-- `get_type_id` answers with a HasTypeDefinition target of the node, and with `None` exactly when
the node has no such reference -/
theorem getTypeId_spec (s : Refs) (n : Nat) :
    (∀ t, getTypeId s n = some t → R s n typeDefRef t) ∧
    (getTypeId s n = none ↔ ∀ t, ¬ R s n typeDefRef t) := by
  unfold getTypeId R fwdL
  cases s.fwd.get n with
  | none => simp
  | some l =>
    simp only [Option.getD_some]
    constructor
    · intro t h
      rw [Option.map_eq_some_iff] at h
      obtain ⟨⟨u, y⟩, hf, rfl⟩ := h
      have hm := List.mem_of_find?_eq_some hf
      have hp := List.find?_some hf
      simp at hp; subst hp; exact hm
    · rw [Option.map_eq_none_iff, List.find?_eq_none]
      constructor
      · intro h t hm; have := h (typeDefRef, t) hm; simp at this
      · intro h x hx
        obtain ⟨u, y⟩ := x
        simp only [beq_iff_eq]
        intro hu; subst hu; exact h y hx

/-- `find_references_by_direction(Both)`, unfiltered: the part before the returned index is exactly
the node's references, the part from it on exactly the references that point at the node -/
theorem findByDirection_both (s : Refs) (fuel n : Nat) (hi : Inv s) :
    ∃ l idx, findByDirection s fuel n .both none = some (l, idx) ∧
      (∀ t b, (t, b) ∈ l.take idx ↔ R s n t b) ∧ (∀ t a, (t, a) ∈ l.drop idx ↔ R s a t n) := by
  obtain ⟨r1, h1, m1⟩ := findRefs_none s fuel n
  obtain ⟨r2, h2, m2⟩ := findInv_none s fuel n hi
  refine ⟨r1.getD [] ++ r2.getD [], (r1.getD []).length, by simp [findByDirection, h1, h2], ?_, ?_⟩
  · intro t b; rw [List.take_left']; exact m1 t b; rfl
  · intro t a; rw [List.drop_left']; exact m2 t a; rfl

/-! ### A dead branch of `reference_type_matches` -/

/-- the walk without its first test (`if *ref_subtype == current`) -/
def subtypeSearchNoHead (s : Refs) (sub : Nat) : Nat → List Nat → Option Bool
  | 0, _ => none
  | _ + 1, [] => some false
  | fuel + 1, cur :: rest =>
    match s.fwd.get cur with
    | some l =>
      let subtypes := (l.filter (fun r => r.1 == hasSubtype)).map (fun r => r.2)
      if subtypes.contains sub then some true
      else subtypeSearchNoHead s sub fuel (subtypes.reverse ++ rest)
    | none => subtypeSearchNoHead s sub fuel rest

/-- **The test `ref_subtype == current` inside the loop is never true**: the stack starts as `[ty]` with
`ty ≠ sub` and a type is pushed only after `subtypes.contains(ref_subtype)` was false, so the walk
gives the same answer without that test (this is why mutating its result is not observable). -/
theorem subtypeSearch_head_test_dead (s : Refs) (sub : Nat) : ∀ fuel stack, sub ∉ stack →
    subtypeSearch s sub fuel stack = subtypeSearchNoHead s sub fuel stack := by
  intro fuel
  induction fuel with
  | zero => intro stack _; rfl
  | succ fuel ih =>
    intro stack hn
    cases stack with
    | nil => rfl
    | cons cur rest =>
      have hc : sub ≠ cur := fun e => hn (e ▸ List.mem_cons_self)
      have hr : sub ∉ rest := fun h => hn (List.mem_cons_of_mem _ h)
      unfold subtypeSearch subtypeSearchNoHead
      rw [if_neg hc]
      cases hg : s.fwd.get cur with
      | none => exact ih rest hr
      | some l =>
        simp only []
        split
        · rfl
        · rename_i hcon
          apply ih
          intro hm
          rcases List.mem_append.1 hm with h | h
          · exact hcon (by simpa using h)
          · exact hr h

/-! ### Batch inserts: `insert_references` and `insert` with several entries -/

/-- **A batch insert is the union with all of its entries** — whichever of them existed before, in
whatever position, and however often an entry is repeated: afterwards the references are exactly
the old ones plus every entry of the batch, and the reverse lookup is exact again. -/
theorem R_insertRefs : ∀ (l : List (Nat × Nat × Nat)) (s s' : Refs), insertRefs s l = some s' →
    (∀ x u y, R s' x u y ↔ (R s x u y ∨ (x, y, u) ∈ l)) ∧ (Inv s → Inv s') := by
  intro l
  induction l with
  | nil => intro s s' h; simp [insertRefs] at h; subst h; simp
  | cons e rest ih =>
    intro s s' h
    obtain ⟨a, b, t⟩ := e
    unfold insertRefs at h
    cases hi : insertRef s a b t with
    | none => rw [hi] at h; cases h
    | some s1 =>
      rw [hi] at h
      obtain ⟨h1, h2⟩ := ih s1 s' h
      refine ⟨fun x u y => ?_, fun hinv => h2 (inv_insertRef hi hinv)⟩
      rw [h1, R_insertRef hi, List.mem_cons]
      constructor
      · rintro ((hr | ⟨rfl, rfl, rfl⟩) | hm)
        · exact Or.inl hr
        · exact Or.inr (Or.inl rfl)
        · exact Or.inr (Or.inr hm)
      · rintro (hr | he | hm)
        · exact Or.inl (Or.inl hr)
        · cases he; exact Or.inl (Or.inr ⟨rfl, rfl, rfl⟩)
        · exact Or.inr hm

/-- the batch goes through exactly when it holds no reference from a node to itself -/
theorem insertRefs_isSome : ∀ (l : List (Nat × Nat × Nat)) (s : Refs),
    (insertRefs s l).isSome = true ↔ ∀ e ∈ l, e.1 ≠ e.2.1 := by
  intro l
  induction l with
  | nil => intro s; simp [insertRefs]
  | cons e rest ih =>
    intro s
    obtain ⟨a, b, t⟩ := e
    unfold insertRefs
    by_cases hab : a = b
    · subst hab
      have : insertRef s a a t = none := by simp [insertRef]
      rw [this]; simp
    · obtain ⟨s1, hs1⟩ := Option.isSome_iff_exists.1 ((insertRef_isSome s a b t).2 hab)
      rw [hs1]; simp only []
      rw [ih s1]
      simp [hab]

/-- consequently the order of the entries and repetitions do not matter -/
theorem insertRefs_order_irrelevant (l l' : List (Nat × Nat × Nat)) (s s1 s2 : Refs)
    (hl : ∀ e, e ∈ l ↔ e ∈ l') (h1 : insertRefs s l = some s1) (h2 : insertRefs s l' = some s2) :
    ∀ x u y, R s1 x u y ↔ R s2 x u y := by
  intro x u y
  rw [(R_insertRefs l s s1 h1).1, (R_insertRefs l' s s2 h2).1, hl]

/-- `References::insert` with several (node, type, direction) entries: every entry is added, forward
entries as source → node, inverse ones as node → source -/
theorem R_insertMany : ∀ (l : List (Nat × Nat × Bool)) (s s' : Refs) (src : Nat),
    insertMany s src l = some s' →
    (∀ x u y, R s' x u y ↔ (R s x u y ∨
      ∃ e ∈ l, (if e.2.2 = true then x = e.1 ∧ u = e.2.1 ∧ y = src else x = src ∧ u = e.2.1 ∧ y = e.1))) ∧
    (Inv s → Inv s') := by
  intro l
  induction l with
  | nil => intro s s' src h; simp [insertMany] at h; subst h; simp
  | cons e rest ih =>
    intro s s' src h
    obtain ⟨node, t, inv⟩ := e
    unfold insertMany at h
    cases hi : (if inv = true then insertRef s node src t else insertRef s src node t) with
    | none => rw [hi] at h; cases h
    | some s1 =>
      rw [hi] at h
      obtain ⟨h1, h2⟩ := ih s1 s' src h
      have hone : ∀ x u y, R s1 x u y ↔ (R s x u y ∨
          (if inv = true then x = node ∧ u = t ∧ y = src else x = src ∧ u = t ∧ y = node)) := by
        intro x u y
        cases inv with
        | true => simp only [if_true] at hi ⊢; exact R_insertRef hi x u y
        | false => simp only [Bool.false_eq_true, if_false] at hi ⊢; exact R_insertRef hi x u y
      have hinv1 : Inv s → Inv s1 := by
        intro hv
        cases inv with
        | true => simp only [if_true] at hi; exact inv_insertRef hi hv
        | false => simp only [Bool.false_eq_true, if_false] at hi; exact inv_insertRef hi hv
      refine ⟨fun x u y => ?_, fun hv => h2 (hinv1 hv)⟩
      rw [h1, hone]
      constructor
      · rintro ((hr | he) | ⟨e, hm, he⟩)
        · exact Or.inl hr
        · exact Or.inr ⟨(node, t, inv), List.mem_cons_self, he⟩
        · exact Or.inr ⟨e, List.mem_cons_of_mem _ hm, he⟩
      · rintro (hr | ⟨e, hm, he⟩)
        · exact Or.inl (Or.inl hr)
        · cases hm with
          | head => exact Or.inl (Or.inr he)
          | tail _ hm => exact Or.inr ⟨e, hm, he⟩

/-- non-vacuity: a batch whose first entry exists already still adds the other two -/
example : ∃ s1 s2, insertRef empty 100 101 47 = some s1 ∧
    insertRefs s1 [(100, 101, 47), (100, 102, 47), (102, 100, 35)] = some s2 ∧
    hasRef s2 100 102 47 = true ∧ hasRef s2 102 100 35 = true := by
  exact ⟨_, _, rfl, rfl, by decide, by decide⟩

end OpcuaVerif.C28
