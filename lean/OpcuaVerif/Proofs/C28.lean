import OpcuaVerif.Lemmas.C28

/-!
C28 — The reference index always matches the set of references.

The model is `OpcuaVerif.Model.C28` (`References` of references.rs).  The abstract state of a
`Refs` value is the relation `R s a t b` ("`a` holds a reference of type `t` to `b`"); the
invariant `Inv` says that the reverse lookup is exactly the set of referring nodes.  Per-operation
refinement lemmas (`R_insertRef`, `R_deleteRef`, `R_deleteNodeRefs`, `inv_*`) are in
`OpcuaVerif.Lemmas.C28`; this file states the property over all histories.
-/
namespace OpcuaVerif.C28

/-! ### Queries -/

theorem hasRef_iff (s : Refs) (a b t : Nat) : hasRef s a b t = true ↔ R s a t b := by
  unfold hasRef R fwdL
  cases s.fwd.get a <;> simp

theorem filterByType_none (s : Refs) (fuel : Nat) (l : List (Nat × Nat)) :
    filterByType s fuel none l = some l := by
  cases l <;> rfl

theorem filterByType_exact (s : Refs) (fuel ty : Nat) (l : List (Nat × Nat)) :
    filterByType s fuel (some (ty, false)) l = some (l.filter (fun r => r.1 == ty)) := by
  induction l with
  | nil => rfl
  | cons r rest ih =>
    unfold filterByType
    simp only [ih, typeMatches]
    by_cases h : ty = r.1
    · have : (r.1 == ty) = true := by simp [h]
      simp [h]
    · have : (r.1 == ty) = false := by simp; exact fun e => h e.symm
      simp [h, this]

/-- what a `find_*` call returned, as a plain list (`None` = nothing found) -/
def found (r : Option (List (Nat × Nat))) : List (Nat × Nat) := r.getD []

theorem found_ite (l : List (Nat × Nat)) : found (if l.isEmpty then none else some l) = l := by
  cases l <;> rfl

/-- `find_references` without a filter reports exactly the references held by the node -/
theorem findRefs_none (s : Refs) (fuel a : Nat) :
    ∃ r, findRefs s fuel a none = some r ∧ ∀ t b, (t, b) ∈ found r ↔ R s a t b := by
  unfold findRefs R fwdL
  cases hg : s.fwd.get a with
  | none => exact ⟨none, rfl, by simp [found]⟩
  | some l =>
    simp only [filterByType_none]
    exact ⟨_, rfl, by intro t b; rw [found_ite]; simp⟩

/-- … and with an exact type filter exactly those of that type -/
theorem findRefs_exact (s : Refs) (fuel a ty : Nat) :
    ∃ r, findRefs s fuel a (some (ty, false)) = some r ∧
      ∀ t b, (t, b) ∈ found r ↔ (R s a t b ∧ t = ty) := by
  unfold findRefs R fwdL
  cases hg : s.fwd.get a with
  | none => exact ⟨none, rfl, by simp [found]⟩
  | some l =>
    simp only [filterByType_exact]
    exact ⟨_, rfl, by intro t b; rw [found_ite]; simp [List.mem_filter]⟩

theorem mem_backRefs (s : Refs) (b src t a : Nat) :
    (t, a) ∈ backRefs s b src ↔ a = src ∧ R s src t b := by
  unfold backRefs R fwdL
  cases s.fwd.get src with
  | none => simp
  | some l =>
    simp only [List.mem_map, List.mem_filter, Option.getD_some]
    constructor
    · rintro ⟨⟨t', b'⟩, ⟨hm, hb⟩, he⟩
      simp at hb he; obtain ⟨rfl, rfl⟩ := he; subst hb; exact ⟨rfl, hm⟩
    · rintro ⟨rfl, hm⟩
      exact ⟨(t, b), ⟨hm, by simp⟩, rfl⟩

theorem findInvAux_none (s : Refs) (fuel b : Nat) (srcs : List Nat) :
    ∃ out, findInvAux s fuel b none srcs = some out ∧
      ∀ t a, (t, a) ∈ out ↔ a ∈ srcs ∧ R s a t b := by
  induction srcs with
  | nil => exact ⟨[], rfl, by simp⟩
  | cons src rest ih =>
    obtain ⟨out, ho, hm⟩ := ih
    refine ⟨backRefs s b src ++ out, by simp [findInvAux, filterByType_none, ho], ?_⟩
    intro t a
    rw [List.mem_append, mem_backRefs, hm]
    constructor
    · rintro (⟨rfl, h⟩ | ⟨h1, h2⟩)
      · exact ⟨List.mem_cons_self, h⟩
      · exact ⟨List.mem_cons_of_mem _ h1, h2⟩
    · rintro ⟨h1, h2⟩
      cases h1 with
      | head => exact Or.inl ⟨rfl, h2⟩
      | tail _ h1 => exact Or.inr ⟨h1, h2⟩

theorem findInvAux_exact (s : Refs) (fuel b ty : Nat) (srcs : List Nat) :
    ∃ out, findInvAux s fuel b (some (ty, false)) srcs = some out ∧
      ∀ t a, (t, a) ∈ out ↔ a ∈ srcs ∧ R s a t b ∧ t = ty := by
  induction srcs with
  | nil => exact ⟨[], rfl, by simp⟩
  | cons src rest ih =>
    obtain ⟨out, ho, hm⟩ := ih
    refine ⟨(backRefs s b src).filter (fun r => r.1 == ty) ++ out,
      by simp [findInvAux, filterByType_exact, ho], ?_⟩
    intro t a
    rw [List.mem_append, List.mem_filter, mem_backRefs, hm]
    simp only [beq_iff_eq]
    constructor
    · rintro (⟨⟨rfl, h⟩, h3⟩ | ⟨h1, h2⟩)
      · exact ⟨List.mem_cons_self, h, h3⟩
      · exact ⟨List.mem_cons_of_mem _ h1, h2⟩
    · rintro ⟨h1, h2, h3⟩
      cases h1 with
      | head => exact Or.inl ⟨⟨rfl, h2⟩, h3⟩
      | tail _ h1 => exact Or.inr ⟨h1, h2, h3⟩

/-- `find_inverse_references` without a filter reports exactly the references that point at the
node (as (type, source)) — this is where the reverse lookup has to be complete -/
theorem findInv_none (s : Refs) (fuel b : Nat) (hi : Inv s) :
    ∃ r, findInv s fuel b none = some r ∧ ∀ t a, (t, a) ∈ found r ↔ R s a t b := by
  unfold findInv
  cases hg : s.inv.get b with
  | none =>
    refine ⟨none, rfl, ?_⟩
    intro t a
    have : invL s b = [] := by simp [invL, hg]
    constructor
    · intro h; simp [found] at h
    · intro h; have hh := hi.complete a t b h; rw [this] at hh; simp at hh
  | some srcs =>
    have hl : invL s b = srcs := by simp [invL, hg]
    obtain ⟨out, ho, hm⟩ := findInvAux_none s fuel b srcs
    simp only [ho]
    refine ⟨_, rfl, ?_⟩
    intro t a
    rw [found_ite, hm]
    constructor
    · exact fun h => h.2
    · intro h; exact ⟨hl ▸ hi.complete a t b h, h⟩

theorem findInv_exact (s : Refs) (fuel b ty : Nat) (hi : Inv s) :
    ∃ r, findInv s fuel b (some (ty, false)) = some r ∧
      ∀ t a, (t, a) ∈ found r ↔ (R s a t b ∧ t = ty) := by
  unfold findInv
  cases hg : s.inv.get b with
  | none =>
    refine ⟨none, rfl, ?_⟩
    intro t a
    have : invL s b = [] := by simp [invL, hg]
    constructor
    · intro h; simp [found] at h
    · intro h; have hh := hi.complete a t b h.1; rw [this] at hh; simp at hh
  | some srcs =>
    have hl : invL s b = srcs := by simp [invL, hg]
    obtain ⟨out, ho, hm⟩ := findInvAux_exact s fuel b ty srcs
    simp only [ho]
    refine ⟨_, rfl, ?_⟩
    intro t a
    rw [found_ite, hm]
    constructor
    · exact fun h => h.2
    · intro h; exact ⟨hl ▸ hi.complete a t b h.1, h⟩


/-! ### Histories -/

inductive Op where
  | ins (a b t : Nat)
  | del (a b t : Nat)
  | deln (n : Nat)
deriving Repr, DecidableEq

/-- one operation on the implementation model; `none` = panic (self reference) -/
def step (s : Refs) : Op → Option Refs
  | .ins a b t => insertRef s a b t
  | .del a b t => some (deleteRef s a b t).1
  | .deln n => some (deleteNodeRefs s n).1

def run : Refs → List Op → Option Refs
  | s, [] => some s
  | s, op :: ops => match step s op with
    | some s' => run s' ops
    | none => none

/-- the specification: a set of (source, type, target) triples -/
abbrev Spec := Nat → Nat → Nat → Prop

def specStep (S : Spec) : Op → Spec
  | .ins a b t => fun x u y => S x u y ∨ (x = a ∧ u = t ∧ y = b)
  | .del a b t => fun x u y => S x u y ∧ ¬ (x = a ∧ u = t ∧ y = b)
  | .deln n => fun x u y => S x u y ∧ x ≠ n ∧ y ≠ n

def specRun (S : Spec) (ops : List Op) : Spec := ops.foldl specStep S

/-- no operation of the history inserts a self reference (the real code panics there; that panic
belongs to property C33) -/
def NoSelfRef (ops : List Op) : Prop := ∀ a b t, Op.ins a b t ∈ ops → a ≠ b

theorem step_refines (s s' : Refs) (op : Op) (hi : Inv s) (h : step s op = some s') :
    Inv s' ∧ ∀ x u y, R s' x u y ↔ specStep (R s) op x u y := by
  cases op with
  | ins a b t => exact ⟨inv_insertRef h hi, R_insertRef h⟩
  | del a b t =>
    simp only [step, Option.some.injEq] at h; subst h
    exact ⟨inv_deleteRef s a b t hi, R_deleteRef s a b t⟩
  | deln n =>
    simp only [step, Option.some.injEq] at h; subst h
    exact ⟨inv_deleteNodeRefs s n hi, fun x u y => R_deleteNodeRefs s n x u y hi⟩

theorem specRun_congr (S S' : Spec) (ops : List Op) (h : ∀ x u y, S x u y ↔ S' x u y) :
    ∀ x u y, specRun S ops x u y ↔ specRun S' ops x u y := by
  induction ops generalizing S S' with
  | nil => exact h
  | cons op ops ih =>
    apply ih
    intro x u y
    cases op <;> simp only [specStep, h]

/-- **Refinement over every history.**  After any sequence of reference insertions, reference
deletions and node deletions the references of the implementation model are exactly the triples that
were added and not removed, and the reverse lookup is exact again. -/
theorem run_refines (ops : List Op) (s s' : Refs) (hi : Inv s) (h : run s ops = some s') :
    Inv s' ∧ ∀ x u y, R s' x u y ↔ specRun (R s) ops x u y := by
  induction ops generalizing s with
  | nil => simp only [run, Option.some.injEq] at h; subst h; exact ⟨hi, fun _ _ _ => Iff.rfl⟩
  | cons op ops ih =>
    simp only [run] at h
    cases hs : step s op with
    | none => rw [hs] at h; cases h
    | some s1 =>
      rw [hs] at h
      obtain ⟨hi1, h1⟩ := step_refines s s1 op hi hs
      obtain ⟨hi', h'⟩ := ih s1 hi1 h
      refine ⟨hi', fun x u y => (h' x u y).trans ?_⟩
      exact specRun_congr _ _ ops h1 x u y

/-- a history without self references never panics -/
theorem run_total (ops : List Op) (s : Refs) (hn : NoSelfRef ops) : ∃ s', run s ops = some s' := by
  induction ops generalizing s with
  | nil => exact ⟨s, rfl⟩
  | cons op ops ih =>
    have hn' : NoSelfRef ops := fun a b t h => hn a b t (List.mem_cons_of_mem _ h)
    cases op with
    | ins a b t =>
      have hab : a ≠ b := hn a b t List.mem_cons_self
      have := (insertRef_isSome s a b t).2 hab
      obtain ⟨s1, hs1⟩ := Option.isSome_iff_exists.1 this
      obtain ⟨s', hs'⟩ := ih s1 hn'
      exact ⟨s', by simp [run, step, hs1, hs']⟩
    | del a b t => simpa [run, step] using ih _ hn'
    | deln n => simpa [run, step] using ih _ hn'

/-- **C28.**  Starting from no references, after any history (without self references) the run
completes, and every existence check, forward query and inverse query — unfiltered or filtered by an
exact reference type — of every node reports exactly the references that were added and not
removed. -/
theorem index_matches_reference_set (ops : List Op) (hn : NoSelfRef ops) :
    ∃ s, run empty ops = some s ∧
      let S := specRun (fun _ _ _ => False) ops
      (∀ a b t, hasRef s a b t = true ↔ S a t b) ∧
      (∀ fuel a, ∃ r, findRefs s fuel a none = some r ∧ ∀ t b, (t, b) ∈ found r ↔ S a t b) ∧
      (∀ fuel b, ∃ r, findInv s fuel b none = some r ∧ ∀ t a, (t, a) ∈ found r ↔ S a t b) ∧
      (∀ fuel a ty, ∃ r, findRefs s fuel a (some (ty, false)) = some r ∧
        ∀ t b, (t, b) ∈ found r ↔ (S a t b ∧ t = ty)) ∧
      (∀ fuel b ty, ∃ r, findInv s fuel b (some (ty, false)) = some r ∧
        ∀ t a, (t, a) ∈ found r ↔ (S a t b ∧ t = ty)) := by
  obtain ⟨s, hs⟩ := run_total ops empty hn
  obtain ⟨hi, hr⟩ := run_refines ops empty s inv_empty hs
  have hR : ∀ x u y, R s x u y ↔ specRun (fun _ _ _ => False) ops x u y := by
    intro x u y
    rw [hr]
    apply specRun_congr
    intro x u y; simp [R, fwdL, empty, AMap.get]
  refine ⟨s, hs, ?_, ?_, ?_, ?_, ?_⟩
  · intro a b t; rw [hasRef_iff, hR]
  · intro fuel a
    obtain ⟨r, h1, h2⟩ := findRefs_none s fuel a
    exact ⟨r, h1, fun t b => (h2 t b).trans (hR a t b)⟩
  · intro fuel b
    obtain ⟨r, h1, h2⟩ := findInv_none s fuel b hi
    exact ⟨r, h1, fun t a => (h2 t a).trans (hR a t b)⟩
  · intro fuel a ty
    obtain ⟨r, h1, h2⟩ := findRefs_exact s fuel a ty
    exact ⟨r, h1, fun t b => (h2 t b).trans (by rw [hR])⟩
  · intro fuel b ty
    obtain ⟨r, h1, h2⟩ := findInv_exact s fuel b ty hi
    exact ⟨r, h1, fun t a => (h2 t a).trans (by rw [hR])⟩

/-- **Deleting one reference never removes or hides a different one**: any other reference is
still held, still found from its source and still found from its target. -/
theorem delete_keeps_other_references (s : Refs) (hi : Inv s) (a b t x u y : Nat)
    (hr : R s x u y) (hne : ¬ (x = a ∧ u = t ∧ y = b)) :
    let s' := (deleteRef s a b t).1
    hasRef s' x y u = true ∧
    (∀ fuel, ∃ r, findRefs s' fuel x none = some r ∧ (u, y) ∈ found r) ∧
    (∀ fuel, ∃ r, findInv s' fuel y none = some r ∧ (u, x) ∈ found r) := by
  have hr' : R (deleteRef s a b t).1 x u y := (R_deleteRef s a b t x u y).2 ⟨hr, hne⟩
  have hi' := inv_deleteRef s a b t hi
  refine ⟨(hasRef_iff _ _ _ _).2 hr', ?_, ?_⟩
  · intro fuel
    obtain ⟨r, h1, h2⟩ := findRefs_none (deleteRef s a b t).1 fuel x
    exact ⟨r, h1, (h2 u y).2 hr'⟩
  · intro fuel
    obtain ⟨r, h1, h2⟩ := findInv_none (deleteRef s a b t).1 fuel y hi'
    exact ⟨r, h1, (h2 u x).2 hr'⟩

/-- the same for a node deletion: references that do not mention the node stay -/
theorem delete_node_keeps_other_references (s : Refs) (hi : Inv s) (n x u y : Nat)
    (hr : R s x u y) (hx : x ≠ n) (hy : y ≠ n) : R (deleteNodeRefs s n).1 x u y :=
  (R_deleteNodeRefs s n x u y hi).2 ⟨hr, hx, hy⟩

/-! ### Non-vacuity and the defect that was repaired -/

def sample : List Op := [.ins 1 2 47, .ins 2 1 47, .ins 1 3 35, .del 1 2 47, .deln 3]

/-- `NoSelfRef` and `Inv` are satisfied by a non-trivial reachable state, and on it the opposite
reference survives the deletion -/
example : ∃ s, run empty sample = some s ∧ hasRef s 2 1 47 = true ∧ hasRef s 1 2 47 = false ∧
    hasRef s 1 3 35 = false ∧ findInv s 8 1 none = some (some [(47, 2)]) := by
  exact ⟨_, rfl, by decide, by decide, by decide, by decide⟩

example : NoSelfRef sample := by
  intro a b t h
  simp [sample] at h
  rcases h with ⟨rfl, rfl, -⟩ | ⟨rfl, rfl, -⟩ | ⟨rfl, rfl, -⟩ <;> decide

/-- The pinned source handed the targets that were no longer referenced to
`remove_node_from_referenced_nodes`: deleting A→B also deleted B→A.  Record of the repaired defect
(witness replayed on the real code: `corpus/C28/cross-delete.ops`). -/
theorem C28_counterexample_cross_delete :
    ∃ s1 s2, insertRef empty 1 2 47 = some s1 ∧ insertRef s1 2 1 47 = some s2 ∧
      hasRef s2 2 1 47 = true ∧ hasRef (deleteRefWith true s2 1 2 47).1 2 1 47 = false := by
  exact ⟨_, _, rfl, rfl, by decide, by decide⟩

end OpcuaVerif.C28
