import OpcuaVerif.Model.C35

/-!
C35 — Every client request completes exactly once.
Property theorems.  The model is `OpcuaVerif.Model.C35`; a history is any list of `Op`s
(request submissions, polls of the transport, chunks for any request id, deadlines passing,
timeout sweeps, TCP errors, closes — in any interleaving).
-/
namespace OpcuaVerif.C35

/-- the whole history: final state and every completion in the order it happened -/
def runLog : State → List Op → State × Done
  | s, [] => (s, [])
  | s, op :: ops => ((runLog (step s op).1 ops).1, (step s op).2 ++ (runLog (step s op).1 ops).2)

/-- how often request `r` occurs -/
def cLog (r : Nat) (d : Done) : Nat := (d.map (·.1)).count r
def cPend (r : Nat) (ps : List Pend) : Nat := (ps.map (·.req)).count r
def cQueue (r : Nat) (qs : List Queued) : Nat := (qs.filterMap (·.req)).count r

/-- Accounting invariant: every request submitted so far (numbers below `nextReq`) is in exactly
one place — completed, pending in `message_states`, or still in the request channel — and numbers
not yet handed out are nowhere. -/
def expect (r n : Nat) : Nat := if r < n then 1 else 0

def Acc (s : State) (log : Done) : Prop :=
  ∀ r, cLog r log + cPend r s.pending + cQueue r s.queue = expect r s.nextReq

/-- a closed transport holds nothing -/
def ClosedEmpty (s : State) : Prop := s.closed = true → s.pending = [] ∧ s.queue = []

/-- chunks are stored under the request id they arrived with -/
def ChunksFiled (s : State) : Prop := ∀ p ∈ s.pending, ∀ c ∈ p.chunks, c.rid = p.rid

theorem cLog_append (r : Nat) (a b : Done) : cLog r (a ++ b) = cLog r a + cLog r b := by
  simp [cLog, List.count_append]

theorem cPend_append (r : Nat) (a b : List Pend) : cPend r (a ++ b) = cPend r a + cPend r b := by
  simp [cPend, List.count_append]

theorem cQueue_append (r : Nat) (a b : List Queued) : cQueue r (a ++ b) = cQueue r a + cQueue r b := by
  simp [cQueue, List.filterMap_append, List.count_append]

/-- splitting the pending requests into timed-out and remaining ones loses nobody -/
theorem cPend_filter (r : Nat) (ps : List Pend) :
    cPend r ps = cLog r ((ps.filter (fun p => p.expired)).map (fun p => (p.req, Res.err BadTimeout)))
      + cPend r (ps.filter (fun p => !p.expired)) := by
  induction ps with
  | nil => simp [cPend, cLog]
  | cons p ps ih =>
    cases he : p.expired <;>
      simp [cPend, cLog, List.filter, he, List.count_cons] at ih ⊢ <;> omega

theorem cPend_remove (r : Nat) (ps : List Pend) (rid : Nat) (p : Pend) (h : findRid ps rid = some p) :
    cPend r ps = cPend r (removeRid ps rid) + (if p.req = r then 1 else 0) := by
  induction ps with
  | nil => simp [findRid] at h
  | cons x xs ih =>
    simp only [findRid] at h
    by_cases hx : (x.rid == rid) = true
    · simp only [hx, if_true, Option.some.injEq] at h
      subst h
      simp [removeRid, hx, cPend, List.count_cons]
    · simp only [hx] at h
      have := ih h
      simp only [cPend, removeRid, hx, List.map_cons, List.count_cons] at this ⊢
      simp only [Bool.false_eq_true, if_false, List.map_cons, List.count_cons]
      omega

theorem findRid_rid (ps : List Pend) (rid : Nat) (p : Pend) (h : findRid ps rid = some p) :
    p.rid = rid ∧ p ∈ ps := by
  induction ps with
  | nil => simp [findRid] at h
  | cons x xs ih =>
    simp only [findRid] at h
    by_cases hx : (x.rid == rid) = true
    · simp only [hx, if_true, Option.some.injEq] at h
      subst h
      exact ⟨by simpa using hx, List.mem_cons_self⟩
    · simp only [hx] at h
      have := ih h
      exact ⟨this.1, List.mem_cons_of_mem _ this.2⟩

/-- replacing the entry of a request id by one for the same request changes nobody's place -/
theorem cPend_replace (r : Nat) (ps : List Pend) (p q : Pend) (h : findRid ps q.rid = some p)
    (hq : q.req = p.req) : cPend r (replaceRid ps q) = cPend r ps := by
  induction ps with
  | nil => simp [findRid] at h
  | cons x xs ih =>
    simp only [findRid] at h
    by_cases hx : (x.rid == q.rid) = true
    · simp only [hx, if_true, Option.some.injEq] at h
      subst h
      simp [replaceRid, hx, cPend, hq]
    · simp only [hx] at h
      have := ih h
      simp only [cPend, replaceRid, hx, List.map_cons, List.count_cons] at this ⊢
      simp only [Bool.false_eq_true, if_false, List.map_cons, List.count_cons]
      omega

theorem cLog_single (r q : Nat) (x : Res) : cLog r [(q, x)] = if q = r then 1 else 0 := by
  simp [cLog, List.count_cons]

theorem cPend_single (r : Nat) (p : Pend) : cPend r [p] = if p.req = r then 1 else 0 := by
  simp [cPend, List.count_cons]

theorem cQueue_cons (r : Nat) (q : Queued) (qs : List Queued) :
    cQueue r (q :: qs) = cQueue r qs + (if q.req = some r then 1 else 0) := by
  cases hq : q.req with
  | none => simp [cQueue, List.filterMap_cons, hq]
  | some x => simp [cQueue, List.filterMap_cons, hq, List.count_cons]

theorem cPend_advance (r : Nat) (s : State) (dt : Int) : cPend r (advance s dt).pending = cPend r s.pending := by
  simp [cPend, advance, List.map_map, Function.comp_def]

theorem sweep_acc (s : State) (log : Done) (h : Acc s log) : Acc (sweep s).1 (log ++ (sweep s).2) := by
  intro r
  have := h r
  have hf := cPend_filter r s.pending
  simp only [sweep, cLog_append]
  omega

/-- the completions of a chunk op: either none, or exactly the request registered under the id -/
theorem chunk_acc (s : State) (log : Done) (c : Chunk) (h : Acc s log) :
    Acc (chunk s c).1 (log ++ (chunk s c).2.1) := by
  intro r
  have hr := h r
  unfold chunk
  cases hf : findRid s.pending c.rid with
  | none => simpa using hr
  | some p =>
    have hrem := cPend_remove r s.pending c.rid p hf
    have hrid := (findRid_rid _ _ _ hf).1
    simp only
    cases c.kind with
    | inter =>
      simp only
      split
      · simp only [cLog_append, cLog_single]; omega
      · have := cPend_replace r s.pending p { p with chunks := p.chunks ++ [c] } (by simpa [hrid] using hf) rfl
        simp only [cLog_append, this]; simpa [cLog] using hr
    | abort => simp only [cLog_append, cLog_single]; omega
    | final =>
      simp only
      split
      · simp only [cLog_append, cLog_single]; omega
      · split
        · simp only [cLog_append, cLog_single]; omega
        · split <;> (simp only [cLog_append, cLog_single]; omega)

theorem step_acc (s : State) (log : Done) (op : Op) (h : Acc s log) :
    Acc (step s op).1 (log ++ (step s op).2) := by
  cases op with
  | submit late =>
    intro r
    have := h r
    have hex : expect r (s.nextReq + 1) = expect r s.nextReq + (if s.nextReq = r then 1 else 0) := by
      unfold expect
      by_cases e : s.nextReq = r
      · subst e; simp
      · by_cases l : r < s.nextReq
        · rw [if_pos l, if_pos (by omega), if_neg e]
        · rw [if_neg l, if_neg (by omega), if_neg e]
    have hnone : s.nextReq = r → cLog r log + cPend r s.pending + cQueue r s.queue = 0 := by
      intro e; rw [this, ← e]; simp [expect]
    simp only [step, submit]
    by_cases hc : s.closed = true
    · simp only [hc, if_true, cLog_append, cLog_single, hex]; omega
    · simp only [hc, Bool.false_eq_true, if_false, cQueue_append, List.append_nil, hex]
      have : cQueue r [⟨some s.nextReq, late⟩] = if s.nextReq = r then 1 else 0 := by
        simp [cQueue, List.count_cons]
      rw [this]; omega
  | submitNoResponse late =>
    intro r
    have := h r
    have hex : expect r (s.nextReq + 1) = expect r s.nextReq + (if s.nextReq = r then 1 else 0) := by
      unfold expect
      by_cases e : s.nextReq = r
      · subst e; simp
      · by_cases l : r < s.nextReq
        · rw [if_pos l, if_pos (by omega), if_neg e]
        · rw [if_neg l, if_neg (by omega), if_neg e]
    simp only [step, submitNoResponse]
    by_cases hc : s.closed = true
    · simp only [hc, if_true, cLog_append, cLog_single, hex]; omega
    · simp only [hc, Bool.false_eq_true, if_false, cQueue_append, cLog_append, cLog_single, hex]
      have : cQueue r [⟨none, late⟩] = 0 := by simp [cQueue]
      rw [this]; omega
  | pump =>
    have hs := sweep_acc s log h
    intro r
    have := hs r
    simp only [step, pump]
    split
    · cases hq : (sweep s).1.queue with
      | nil => simpa [hq] using this
      | cons q rest =>
        rw [hq, cQueue_cons] at this
        cases hr : q.req with
        | none =>
          simp only [hr, List.append_nil, reduceCtorEq, if_false] at this ⊢
          omega
        | some x =>
          simp only [hr, cPend_append, cPend_single, Option.some.injEq] at this ⊢
          omega
    · simpa using this
  | sweep => exact sweep_acc s log h
  | setDeadline rid d =>
    intro r
    have := h r
    simp only [step, setDeadline]
    cases hf : findRid s.pending rid with
    | none => simpa using this
    | some p =>
      have hrid := (findRid_rid _ _ _ hf).1
      have := cPend_replace r s.pending p { p with deadline := d } (by simpa [hrid] using hf) rfl
      simp only [List.append_nil, this]; exact h r
  | chunk c => exact chunk_acc s log c h
  | close st =>
    intro r
    have := h r
    have e1 : ∀ (x : Nat) (ps : List Pend), cLog r (ps.map (fun p => (p.req, Res.err x))) = cPend r ps := by
      intro x ps; simp [cLog, cPend, List.map_map, Function.comp_def]
    have e2 : ∀ (x : Nat) (qs : List Queued),
        cLog r (qs.filterMap (fun q => q.req.map (fun r' => (r', Res.err x)))) = cQueue r qs := by
      intro x qs
      induction qs with
      | nil => simp [cLog, cQueue]
      | cons q qs ih =>
        cases hq : q.req with
        | none => simpa [cLog, cQueue, List.filterMap_cons, hq] using ih
        | some y =>
          simp only [cLog, cQueue, List.filterMap_cons, hq, Option.map_some, List.map_cons, List.count_cons] at ih ⊢
          omega
    simp only [step, close, cLog_append, e1, e2]
    have z1 : cPend r ([] : List Pend) = 0 := by simp [cPend]
    have z2 : cQueue r ([] : List Queued) = 0 := by simp [cQueue]
    simp only [z1, z2]
    omega
  | errmsg => intro r; simpa [step] using h r
  | wake =>
    have h1 := sweep_acc s log h
    simp only [step, wake]
    cases hn : nextTimeout (sweep s).1 with
    | none => simpa [hn] using h1
    | some t =>
      simp only [hn]
      have h2 : Acc (advance (sweep s).1 t) (log ++ (sweep s).2) := by
        intro r; have := h1 r; rw [cPend_advance]; exact this
      have h3 := sweep_acc _ _ h2
      simpa [List.append_assoc] using h3

theorem run_acc (ops : List Op) (s : State) (log : Done) (h : Acc s log) :
    Acc (runLog s ops).1 (log ++ (runLog s ops).2) := by
  induction ops generalizing s log with
  | nil => simpa [runLog] using h
  | cons op ops ih =>
    have := ih (step s op).1 (log ++ (step s op).2) (step_acc s log op h)
    simpa [runLog, List.append_assoc] using this

theorem init_acc (a b : Nat) : Acc (init a b) [] := by
  intro r; simp [init, cLog, cPend, cQueue, expect]

/-- **at_most_once**: in every history no request completes twice — and a completed request is
neither pending nor queued any more. -/
theorem at_most_once (a b : Nat) (ops : List Op) (r : Nat) :
    cLog r (runLog (init a b) ops).2 ≤ 1 := by
  have := run_acc ops (init a b) [] (init_acc a b) r
  simp only [List.nil_append] at this
  unfold expect at this
  split at this <;> omega

/-- requests that were never submitted never complete -/
theorem only_submitted_complete (a b : Nat) (ops : List Op) (r : Nat)
    (h : (runLog (init a b) ops).1.nextReq ≤ r) : cLog r (runLog (init a b) ops).2 = 0 := by
  have := run_acc ops (init a b) [] (init_acc a b) r
  simp only [List.nil_append] at this
  unfold expect at this
  rw [if_neg (by omega)] at this; omega

theorem sweep_closed (s : State) : (sweep s).1.closed = s.closed := rfl

theorem submit_closed (s : State) (l : Bool) : (submit s l).1.closed = s.closed := by
  unfold submit; split <;> rfl

theorem pump_closed (s : State) : (pump s).1.closed = s.closed := by
  unfold pump
  simp only
  split
  · split <;> rfl
  · rfl

theorem setDeadline_closed (s : State) (rid : Nat) (d : Int) : (setDeadline s rid d).1.closed = s.closed := by
  unfold setDeadline; split <;> rfl

theorem submitNoResponse_closed (s : State) (l : Bool) : (submitNoResponse s l).1.closed = s.closed := by
  unfold submitNoResponse; split <;> rfl

theorem chunk_closed (s : State) (c : Chunk) : (chunk s c).1.closed = s.closed := by
  unfold chunk
  cases findRid s.pending c.rid with
  | none => rfl
  | some p =>
    simp only
    cases c.kind with
    | inter => simp only; split <;> rfl
    | abort => rfl
    | final =>
      simp only
      split
      · rfl
      · split
        · rfl
        · split <;> rfl

theorem step_closedEmpty (s : State) (op : Op) (h : ClosedEmpty s) : ClosedEmpty (step s op).1 := by
  intro hc
  cases op with
  | close st => simp [step, close]
  | errmsg => simpa [step] using h hc
  | wake =>
    have hcl : (step s .wake).1.closed = s.closed := by
      simp only [step, wake]
      cases nextTimeout (sweep s).1 <;> rfl
    rw [hcl] at hc
    have ⟨hp, hq⟩ := h hc
    simp [step, wake, sweep, nextTimeout, minDeadline, hp, hq]
  | submit late =>
    simp only [step] at hc ⊢
    rw [submit_closed] at hc
    have ⟨hp, hq⟩ := h hc
    simp [submit, hc, hp, hq]
  | pump =>
    simp only [step] at hc ⊢
    rw [pump_closed] at hc
    have ⟨hp, hq⟩ := h hc
    simp only [pump, sweep, hp, hq, List.filter_nil, List.map_nil, List.length_nil]
    split <;> simp
  | sweep =>
    simp only [step] at hc ⊢
    rw [sweep_closed] at hc
    have ⟨hp, hq⟩ := h hc
    simp [sweep, hp, hq]
  | setDeadline rid d =>
    simp only [step] at hc ⊢
    rw [setDeadline_closed] at hc
    have ⟨hp, hq⟩ := h hc
    simp [setDeadline, findRid, hp, hq]
  | submitNoResponse late =>
    simp only [step] at hc ⊢
    rw [submitNoResponse_closed] at hc
    have ⟨hp, hq⟩ := h hc
    simp [submitNoResponse, hc, hp, hq]
  | chunk c =>
    simp only [step] at hc ⊢
    rw [chunk_closed] at hc
    have ⟨hp, hq⟩ := h hc
    simp [chunk, findRid, hp, hq]

theorem run_closedEmpty (ops : List Op) (s : State) (h : ClosedEmpty s) : ClosedEmpty (runLog s ops).1 := by
  induction ops generalizing s with
  | nil => simpa [runLog] using h
  | cons op ops ih => simpa [runLog] using ih _ (step_closedEmpty s op h)

/-- **exactly_once_after_close**: whenever the transport is closed — at the `close` itself and
after any further activity (late chunks, new submissions, polls) — every request submitted so far
has completed exactly once. -/
theorem exactly_once_after_close (a b : Nat) (ops : List Op)
    (hc : (runLog (init a b) ops).1.closed = true) (r : Nat) (hr : r < (runLog (init a b) ops).1.nextReq) :
    cLog r (runLog (init a b) ops).2 = 1 := by
  have hacc := run_acc ops (init a b) [] (init_acc a b) r
  have hce := run_closedEmpty ops (init a b) (by intro h; simp [init] at h) hc
  simp only [List.nil_append, hce.1, hce.2, cPend, cQueue, List.map_nil, List.filterMap_nil, List.count_nil] at hacc
  unfold expect at hacc
  rw [if_pos hr] at hacc
  omega

/-- `close` closes -/
theorem close_closes (s : State) (st : Nat) : (step s (.close st)).1.closed = true := by
  simp [step, close]

/-- **unknown_ignored**: a chunk whose request id is not pending (never issued, already answered,
timed out, or closed) changes nothing and completes nothing. -/
theorem unknown_ignored (s : State) (c : Chunk) (h : findRid s.pending c.rid = none) :
    step s (.chunk c) = (s, []) := by
  simp [step, chunk, h]

theorem mem_insertBySeq (c x : Chunk) (l : List Chunk) (h : x ∈ insertBySeq c l) : x = c ∨ x ∈ l := by
  induction l with
  | nil => simpa [insertBySeq] using h
  | cons d ds ih =>
    simp only [insertBySeq] at h
    split at h
    · simpa using h
    · rcases List.mem_cons.mp h with h | h
      · exact Or.inr (by simp [h])
      · rcases ih h with h | h
        · exact Or.inl h
        · exact Or.inr (List.mem_cons_of_mem _ h)

theorem mem_sortBySeq (x : Chunk) (l : List Chunk) (h : x ∈ sortBySeq l) : x ∈ l := by
  induction l with
  | nil => simpa [sortBySeq] using h
  | cons c cs ih =>
    simp only [sortBySeq] at h
    rcases mem_insertBySeq c x _ h with h | h
    · simp [h]
    · exact List.mem_cons_of_mem _ (ih h)

theorem mem_keepConsecutive (x : Chunk) (e : Nat) (l : List Chunk) (h : x ∈ keepConsecutive e l) : x ∈ l := by
  induction l generalizing e with
  | nil => simpa [keepConsecutive] using h
  | cons c cs ih =>
    simp only [keepConsecutive] at h
    split at h
    · rcases List.mem_cons.mp h with h | h
      · simp [h]
      · exact List.mem_cons_of_mem _ (ih _ h)
    · exact List.mem_cons_of_mem _ (ih _ h)

theorem mem_mergeChunks (x : Chunk) (l : List Chunk) (h : x ∈ mergeChunks l) : x ∈ l := by
  unfold mergeChunks at h
  split at h
  · exact h
  · simp only at h
    generalize hs : sortBySeq l = sorted at h
    cases sorted with
    | nil => simp at h
    | cons c rest =>
      simp only at h
      have := mem_keepConsecutive x _ _ h
      exact mem_sortBySeq x l (hs ▸ this)

theorem decodeMerged_head (m : List Chunk) (msg : Nat) (pl : List (Nat × Nat)) (h : decodeMerged m = some (msg, pl)) :
    ∃ c0 ∈ m, c0.msg = msg ∧ c0.idx = 0 := by
  cases m with
  | nil => simp [decodeMerged] at h
  | cons c rest =>
    simp only [decodeMerged] at h
    by_cases hc : (kindsOk (c :: rest) && c.idx == 0 && decide (c.total ≤ (c :: rest).length)) = true
    · rw [if_pos hc] at h
      simp only [Option.some.injEq, Prod.mk.injEq] at h
      simp only [Bool.and_eq_true, beq_iff_eq, decide_eq_true_eq] at hc
      exact ⟨c, List.mem_cons_self, h.1, hc.1.2⟩
    · rw [if_neg hc] at h; simp at h

/-- **right_recipient**: a response is delivered only by a Final chunk, only to the request that is
registered under that chunk's request id, and the delivered message (identified by the marker in its
header piece) arrived in a chunk that carried this same request id. -/
theorem right_recipient (s : State) (hf : ChunksFiled s) (op : Op) (q m : Nat) (pl : List (Nat × Nat))
    (h : (q, Res.response m pl) ∈ (step s op).2) :
    ∃ (c : Chunk) (p : Pend) (c0 : Chunk), op = .chunk c ∧ c.kind = .final ∧ findRid s.pending c.rid = some p ∧ p.req = q ∧
      c0.msg = m ∧ c0.idx = 0 ∧ c0.rid = c.rid := by
  cases op with
  | submit late =>
    simp only [step, submit] at h
    by_cases hc : s.closed = true <;> simp [hc] at h
  | pump =>
    have hsw : ∀ x ∈ (sweep s).2, x ≠ (q, Res.response m pl) := by
      intro x hx; simp only [sweep, List.mem_map] at hx
      obtain ⟨p, _, rfl⟩ := hx; simp
    simp only [step, pump] at h
    split at h
    · split at h <;> exact absurd rfl (hsw _ h)
    · exact absurd rfl (hsw _ h)
  | sweep => simp [step, sweep] at h
  | setDeadline rid d => simp [step] at h
  | submitNoResponse late =>
    simp only [step, submitNoResponse] at h
    by_cases hc : s.closed = true <;> simp [hc] at h
  | close st =>
    simp only [step, close, List.mem_append, List.mem_map, List.mem_filterMap, Prod.mk.injEq] at h
    rcases h with ⟨_, _, _, h⟩ | ⟨q', _, h⟩
    · cases h
    · cases hq : q'.req <;> simp [hq] at h
  | errmsg => simp [step] at h
  | wake =>
    exfalso
    have hsw : ∀ (x : State) (y : Nat × Res), y ∈ (sweep x).2 → y ≠ (q, Res.response m pl) := by
      intro x y hy; simp only [sweep, List.mem_map] at hy
      obtain ⟨p, _, rfl⟩ := hy; simp
    simp only [step, wake] at h
    cases hn : nextTimeout (sweep s).1 with
    | none => simp only [hn] at h; exact hsw _ _ h rfl
    | some t =>
      simp only [hn, List.mem_append] at h
      rcases h with h | h <;> exact hsw _ _ h rfl
  | chunk c =>
    simp only [step] at h
    unfold chunk at h
    cases hfind : findRid s.pending c.rid with
    | none => simp [hfind] at h
    | some p =>
      have ⟨hrid, hmem⟩ := findRid_rid _ _ _ hfind
      simp only [hfind] at h
      cases hk : c.kind <;> simp only [hk] at h
      · split at h <;> simp at h
      · split at h
        · simp at h
        · rename_i f rest hm
          split at h
          · simp at h
          · split at h
            · rename_i m' pl' hd
              simp only [List.mem_singleton, Prod.mk.injEq, Res.response.injEq] at h
              obtain ⟨c0, hc0, hmsg, hidx⟩ := decodeMerged_head _ _ _ hd
              have hin : c0 ∈ p.chunks ++ [c] := mem_mergeChunks c0 _ (by first | exact hc0 | (rw [hm]; exact hc0))
              refine ⟨c, p, c0, rfl, hk, hfind, h.1.symm, by rw [hmsg]; exact h.2.1.symm, hidx, ?_⟩
              rcases List.mem_append.mp hin with hin | hin
              · rw [hf p hmem c0 hin, hrid]
              · simp only [List.mem_singleton] at hin; rw [hin]
            · simp at h
      · simp at h

theorem mem_replaceRid (ps : List Pend) (q x : Pend) (h : x ∈ replaceRid ps q) : x = q ∨ x ∈ ps := by
  induction ps with
  | nil => simp [replaceRid] at h
  | cons y ys ih =>
    simp only [replaceRid] at h
    split at h
    · rcases List.mem_cons.mp h with h | h
      · exact Or.inl h
      · exact Or.inr (List.mem_cons_of_mem _ h)
    · rcases List.mem_cons.mp h with h | h
      · exact Or.inr (by simp [h])
      · rcases ih h with h | h
        · exact Or.inl h
        · exact Or.inr (List.mem_cons_of_mem _ h)

theorem mem_removeRid (ps : List Pend) (rid : Nat) (x : Pend) (h : x ∈ removeRid ps rid) : x ∈ ps := by
  induction ps with
  | nil => simp [removeRid] at h
  | cons y ys ih =>
    simp only [removeRid] at h
    split at h
    · exact List.mem_cons_of_mem _ h
    · rcases List.mem_cons.mp h with h | h
      · simp [h]
      · exact List.mem_cons_of_mem _ (ih h)

/-- the hypothesis of `right_recipient` holds in every reachable state -/
theorem step_chunksFiled (s : State) (op : Op) (h : ChunksFiled s) : ChunksFiled (step s op).1 := by
  cases op with
  | submit late =>
    simp only [step, submit]
    split <;> exact h
  | pump =>
    have hsw : ChunksFiled (sweep s).1 := by
      intro p hp; exact h p (List.mem_filter.mp hp).1
    simp only [step, pump]
    split
    · cases hq : (sweep s).1.queue with
      | nil => simpa [hq] using hsw
      | cons q rest =>
        simp only
        intro p hp c hc
        rcases List.mem_append.mp hp with hp | hp
        · exact hsw p hp c hc
        · cases hr : q.req with
          | none => simp [hr] at hp
          | some x => simp only [hr, List.mem_singleton] at hp; subst hp; simp at hc
    · exact hsw
  | sweep => intro p hp; exact h p (List.mem_filter.mp hp).1
  | submitNoResponse late =>
    simp only [step, submitNoResponse]
    split <;> exact h
  | setDeadline rid d =>
    simp only [step, setDeadline]
    cases hf : findRid s.pending rid with
    | none => exact h
    | some p =>
      have ⟨_, hmem⟩ := findRid_rid _ _ _ hf
      intro x hx c hc
      rcases mem_replaceRid _ _ _ hx with hx | hx
      · subst hx; exact h p hmem c hc
      · exact h x hx c hc
  | chunk c =>
    simp only [step]
    unfold chunk
    cases hf : findRid s.pending c.rid with
    | none => exact h
    | some p =>
      have ⟨hrid, hmem⟩ := findRid_rid _ _ _ hf
      have hrem : ChunksFiled { s with pending := removeRid s.pending c.rid } := by
        intro x hx; exact h x (mem_removeRid _ _ _ hx)
      simp only
      cases hk : c.kind <;> simp only
      · split
        · exact hrem
        · intro x hx d hd
          rcases mem_replaceRid _ _ _ hx with hx | hx
          · subst hx
            rcases List.mem_append.mp hd with hd | hd
            · exact h p hmem d hd
            · simp only [List.mem_singleton] at hd; rw [hd]; exact hrid.symm
          · exact h x hx d hd
      · split
        · exact hrem
        · split
          · exact hrem
          · split <;> exact hrem
      · exact hrem
  | close st => intro p hp; simp [step, close] at hp
  | errmsg => exact h
  | wake =>
    have hsw : ∀ x : State, ChunksFiled x → ChunksFiled (sweep x).1 := by
      intro x hx p hp; exact hx p (List.mem_filter.mp hp).1
    have hadv : ∀ (x : State) (t : Int), ChunksFiled x → ChunksFiled (advance x t) := by
      intro x t hx p hp c hc
      simp only [advance, List.mem_map] at hp
      obtain ⟨p0, hp0, rfl⟩ := hp
      exact hx p0 hp0 c hc
    simp only [step, wake]
    cases nextTimeout (sweep s).1 with
    | none => exact hsw s h
    | some t => exact hsw _ (hadv _ t (hsw s h))

theorem run_chunksFiled (ops : List Op) (s : State) (h : ChunksFiled s) : ChunksFiled (runLog s ops).1 := by
  induction ops generalizing s with
  | nil => simpa [runLog] using h
  | cons op ops ih => simpa [runLog] using ih _ (step_chunksFiled s op h)

theorem init_chunksFiled (a b : Nat) : ChunksFiled (init a b) := by
  intro p hp; simp [init] at hp

/-- **timeout_only_after_deadline**: a request is completed with BadTimeout only when its own
deadline has passed (or the transport itself is being closed with that status). -/
theorem timeout_only_after_deadline (s : State) (op : Op) (q : Nat)
    (hw : op ≠ .wake) (h : (q, Res.err BadTimeout) ∈ (step s op).2) :
    (∃ p ∈ s.pending, p.req = q ∧ p.expired = true) ∨ op = .close BadTimeout := by
  have sweepCase : (q, Res.err BadTimeout) ∈ (sweep s).2 → ∃ p ∈ s.pending, p.req = q ∧ p.expired = true := by
    intro h
    simp only [sweep, List.mem_map, List.mem_filter, Prod.mk.injEq] at h
    obtain ⟨p, ⟨hp, he⟩, hq, _⟩ := h
    exact ⟨p, hp, hq, he⟩
  cases op with
  | submit late =>
    simp only [step, submit] at h
    split at h
    · simp [BadTimeout, BadConnectionClosed] at h
    · simp at h
  | pump =>
    left
    apply sweepCase
    simp only [step, pump] at h
    split at h
    · split at h <;> exact h
    · exact h
  | sweep => left; exact sweepCase (by simpa [step] using h)
  | setDeadline rid d => simp [step] at h
  | submitNoResponse late =>
    simp only [step, submitNoResponse] at h
    split at h <;> simp [BadTimeout, BadConnectionClosed] at h
  | errmsg => simp [step] at h
  | wake => exact absurd rfl hw
  | close st =>
    right
    simp only [step, close, List.mem_append, List.mem_map, List.mem_filterMap, Prod.mk.injEq, Res.err.injEq] at h
    have : (if st / 1073741824 = 0 then BadConnectionClosed else st) = BadTimeout := by
      rcases h with ⟨_, _, _, h⟩ | ⟨q', _, h⟩
      · exact h
      · cases hq : q'.req with
        | none => rw [hq] at h; simp at h
        | some y =>
          rw [hq] at h
          simp only [Option.map_some, Option.some.injEq, Prod.mk.injEq, Res.err.injEq] at h
          exact h.2
    split at this
    · simp [BadTimeout, BadConnectionClosed] at this
    · rw [this]
  | chunk c =>
    exfalso
    simp only [step] at h
    unfold chunk at h
    cases hfind : findRid s.pending c.rid with
    | none => simp [hfind] at h
    | some p =>
      simp only [hfind] at h
      cases hk : c.kind <;> simp only [hk] at h
      · split at h
        · simp [BadTimeout, BadEncodingLimitsExceeded] at h
        · simp at h
      · split at h
        · simp [BadTimeout, BadConnectionClosed] at h
        · split at h
          · simp [BadTimeout, BadConnectionClosed] at h
          · split at h
            · simp at h
            · simp [BadTimeout, BadConnectionClosed] at h
      · simp [BadTimeout, BadCommunicationError] at h

/-- … and a pending request whose deadline has not passed survives a sweep -/
theorem not_expired_survives_sweep (s : State) (p : Pend) (hp : p ∈ s.pending) (he : p.expired = false) :
    p ∈ (sweep s).1.pending := by
  simp [sweep, List.mem_filter, hp, he]

/-- `expired` is exactly "the deadline is not in the future" -/
theorem expired_iff (p : Pend) : p.expired = true ↔ p.deadline ≤ 0 := by
  simp [Pend.expired]

/-- the instant `next_timeout` returns is the earliest of the remaining deadlines -/
theorem minDeadline_spec (ps : List Pend) (m : Int) (h : minDeadline ps = some m) :
    (∃ p ∈ ps, p.deadline = m) ∧ ∀ p ∈ ps, m ≤ p.deadline := by
  induction ps generalizing m with
  | nil => simp [minDeadline] at h
  | cons x xs ih =>
    simp only [minDeadline] at h
    cases hm : minDeadline xs with
    | none =>
      simp only [hm, Option.some.injEq] at h
      cases xs with
      | nil => subst h; simp
      | cons y ys => simp only [minDeadline] at hm; split at hm <;> simp at hm
    | some m' =>
      simp only [hm, Option.some.injEq] at h
      have ⟨⟨p, hp, hpm⟩, hall⟩ := ih m' hm
      by_cases hlt : x.deadline < m'
      · rw [if_pos hlt] at h; subst h
        refine ⟨⟨x, by simp, rfl⟩, ?_⟩
        intro q hq
        rcases List.mem_cons.mp hq with rfl | hq
        · exact Int.le_refl _
        · have := hall q hq; omega
      · rw [if_neg hlt] at h; subst h
        refine ⟨⟨p, List.mem_cons_of_mem _ hp, hpm⟩, ?_⟩
        intro q hq
        rcases List.mem_cons.mp hq with rfl | hq
        · omega
        · exact hall q hq

/-- **next_timeout_earliest**: what `next_timeout` reports lies in the future, belongs to a pending
request, and no remaining request is due earlier -/
theorem next_timeout_earliest (s : State) (m : Int) (h : nextTimeout s = some m) :
    0 < m ∧ (∃ p ∈ s.pending, p.deadline = m) ∧ ∀ p ∈ s.pending, p.expired = false → m ≤ p.deadline := by
  have ⟨⟨p, hp, hpm⟩, hall⟩ := minDeadline_spec _ m h
  have hpf := List.mem_filter.mp hp
  refine ⟨?_, ⟨p, hpf.1, hpm⟩, ?_⟩
  · have : p.expired = false := by simpa using hpf.2
    simp [Pend.expired] at this; omega
  · intro q hq he
    exact hall q (List.mem_filter.mpr ⟨hq, by simp [he]⟩)

/-- request ids of pending requests are strictly increasing (hence unique: the association list is
a faithful picture of the `HashMap`) and never above the last id handed out -/
def RidsOk (s : State) : Prop :=
  (s.pending.map (·.rid)).Pairwise (· < ·) ∧ ∀ p ∈ s.pending, p.rid ≤ s.lastRid

theorem removeRid_sublist (ps : List Pend) (rid : Nat) : (removeRid ps rid).Sublist ps := by
  induction ps with
  | nil => simp [removeRid]
  | cons x xs ih =>
    simp only [removeRid]
    split
    · exact List.sublist_cons_self _ _
    · exact ih.cons_cons _

theorem replaceRid_rids (ps : List Pend) (q : Pend) : (replaceRid ps q).map (·.rid) = ps.map (·.rid) := by
  induction ps with
  | nil => simp [replaceRid]
  | cons x xs ih =>
    simp only [replaceRid]
    split
    · rename_i h; simp only [List.map_cons]; rw [show q.rid = x.rid by simpa using (beq_iff_eq.mp h).symm]
    · simp [ih]

theorem ridsOk_sub (s : State) (ps : List Pend) (h : RidsOk s) (hs : ps.Sublist s.pending) :
    RidsOk { s with pending := ps } :=
  ⟨h.1.sublist (hs.map _), fun p hp => h.2 p (hs.subset hp)⟩

theorem ridsOk_replace (s : State) (q : Pend) (h : RidsOk s) (hq : q.rid ≤ s.lastRid) :
    RidsOk { s with pending := replaceRid s.pending q } := by
  refine ⟨by simp only [replaceRid_rids]; exact h.1, ?_⟩
  intro p hp
  rcases mem_replaceRid _ _ _ hp with hp | hp
  · subst hp; exact hq
  · exact h.2 p hp

theorem step_ridsOk (s : State) (op : Op) (h : RidsOk s) : RidsOk (step s op).1 := by
  cases op with
  | submit late => simp only [step, submit]; split <;> exact h
  | submitNoResponse late => simp only [step, submitNoResponse]; split <;> exact h
  | sweep => exact ridsOk_sub s _ h (List.filter_sublist)
  | errmsg => exact h
  | wake =>
    have hsw : ∀ x : State, RidsOk x → RidsOk (sweep x).1 := fun x hx => ridsOk_sub x _ hx (List.filter_sublist)
    have hadv : ∀ (x : State) (t : Int), RidsOk x → RidsOk (advance x t) := by
      intro x t hx
      refine ⟨?_, ?_⟩
      · simpa [advance, List.map_map, Function.comp_def] using hx.1
      · intro p hp
        simp only [advance, List.mem_map] at hp
        obtain ⟨p0, hp0, rfl⟩ := hp
        exact hx.2 p0 hp0
    simp only [step, wake]
    cases nextTimeout (sweep s).1 with
    | none => exact hsw s h
    | some t => exact hsw _ (hadv _ t (hsw s h))
  | close st => exact ⟨by simp [step, close], by intro p hp; simp [step, close] at hp⟩
  | setDeadline rid d =>
    simp only [step, setDeadline]
    cases hf : findRid s.pending rid with
    | none => exact h
    | some p =>
      have ⟨_, hmem⟩ := findRid_rid _ _ _ hf
      exact ridsOk_replace s _ h (h.2 p hmem)
  | pump =>
    have hsw : RidsOk (sweep s).1 := ridsOk_sub s _ h (List.filter_sublist)
    simp only [step, pump]
    split
    · cases hq : (sweep s).1.queue with
      | nil => simpa [hq] using hsw
      | cons q rest =>
        cases hr : q.req with
        | none =>
          simp only [hr, List.append_nil]
          exact ⟨hsw.1, fun p hp => Nat.le_succ_of_le (hsw.2 p hp)⟩
        | some x =>
          simp only [hr]
          refine ⟨?_, ?_⟩
          · simp only [List.map_append, List.map_cons, List.map_nil]
            rw [List.pairwise_append]
            refine ⟨hsw.1, by simp, ?_⟩
            intro a ha b hb
            simp only [List.mem_singleton] at hb
            obtain ⟨p, hp, rfl⟩ := List.mem_map.mp ha
            have := hsw.2 p hp
            have e : (sweep s).1.lastRid = s.lastRid := rfl
            omega
          · intro p hp
            rcases List.mem_append.mp hp with hp | hp
            · have := hsw.2 p hp
              have e : (sweep s).1.lastRid = s.lastRid := rfl
              simp only; omega
            · simp only [List.mem_singleton] at hp; subst hp; simp
    · exact hsw
  | chunk c =>
    simp only [step]
    unfold chunk
    cases hf : findRid s.pending c.rid with
    | none => exact h
    | some p =>
      have ⟨hrid, hmem⟩ := findRid_rid _ _ _ hf
      have hrem : ∀ (k : Nat), RidsOk { s with pending := removeRid s.pending c.rid, lastSeq := k } :=
        fun k => ⟨(ridsOk_sub s _ h (removeRid_sublist _ _)).1, (ridsOk_sub s _ h (removeRid_sublist _ _)).2⟩
      have hrem0 := ridsOk_sub s _ h (removeRid_sublist s.pending c.rid)
      simp only
      cases hk : c.kind <;> simp only
      · split
        · exact hrem0
        · exact ridsOk_replace s _ h (h.2 p hmem)
      · split
        · exact hrem0
        · split
          · exact hrem0
          · split <;> exact hrem _
      · exact hrem0

theorem run_ridsOk (ops : List Op) (s : State) (h : RidsOk s) : RidsOk (runLog s ops).1 := by
  induction ops generalizing s with
  | nil => simpa [runLog] using h
  | cons op ops ih => simpa [runLog] using ih _ (step_ridsOk s op h)

/-- **rids_unique**: in every reachable state the pending request ids are pairwise different -/
theorem rids_unique (a b : Nat) (ops : List Op) :
    ((runLog (init a b) ops).1.pending.map (·.rid)).Pairwise (· < ·) :=
  (run_ridsOk ops (init a b) ⟨by simp [init], by intro p hp; simp [init] at hp⟩).1

/-- **wake_on_schedule**: when the transport sleeps until the instant `next_timeout` gave it and looks
again, exactly the requests whose deadline is that instant time out — nobody earlier (everything
still pending was due at that instant or later) and nobody is left over whose deadline has passed. -/
theorem wake_on_schedule (s : State) (t : Int) (ht : nextTimeout (sweep s).1 = some t) (q : Nat) (r : Res) :
    (q, r) ∈ (sweep (advance (sweep s).1 t)).2 ↔
      r = Res.err BadTimeout ∧ ∃ p ∈ (sweep s).1.pending, p.req = q ∧ p.deadline = t := by
  have ⟨_, _, hall⟩ := next_timeout_earliest (sweep s).1 t ht
  have hne : ∀ p ∈ (sweep s).1.pending, p.expired = false := by
    intro p hp; simp only [sweep, List.mem_filter] at hp; simpa using hp.2
  constructor
  · intro h
    simp only [sweep, advance, List.mem_map, List.mem_filter, Prod.mk.injEq] at h
    obtain ⟨p', ⟨⟨p, hp, rfl⟩, he⟩, hq, hr⟩ := h
    refine ⟨hr.symm, p, ?_, hq, ?_⟩
    · simpa [sweep, List.mem_filter] using hp
    · have h1 := hall p (by simpa [sweep, List.mem_filter] using hp) (hne p (by simpa [sweep, List.mem_filter] using hp))
      simp only [Pend.expired, decide_eq_true_eq] at he
      omega
  · rintro ⟨rfl, p, hp, hq, hd⟩
    simp only [sweep, advance, List.mem_map, List.mem_filter, Prod.mk.injEq]
    refine ⟨{ p with deadline := p.deadline - t }, ⟨⟨p, by simpa [sweep, List.mem_filter] using hp, rfl⟩, ?_⟩, hq, trivial⟩
    simp [Pend.expired, hd]

/-- after the wake-up nothing overdue is left -/
theorem wake_leaves_nothing_overdue (s : State) (p : Pend) (hp : p ∈ (wake s).1.pending) : 0 < p.deadline := by
  have key : ∀ x : State, ∀ p ∈ (sweep x).1.pending, 0 < p.deadline := by
    intro x p hp
    simp only [sweep, List.mem_filter, Pend.expired, Bool.not_eq_true', decide_eq_false_iff_not] at hp
    omega
  simp only [wake] at hp
  cases hn : nextTimeout (sweep s).1 with
  | none => simp only [hn] at hp; exact key s p hp
  | some t => simp only [hn] at hp; exact key _ p hp

/-! ### Non-vacuity -/

/-- a response racing with the deadline: the response wins if it arrives before the sweep, the
timeout wins otherwise; either way the request completes once and the loser is ignored -/
example :
    (runLog (init 2 5) [.submit false, .pump, .setDeadline 1001 (-1), .chunk ⟨1001, 1, .final, 7, 0, 1⟩, .sweep, .close 0]).2
      = [(0, .response 7 [(7, 0)])] ∧
    (runLog (init 2 5) [.submit false, .pump, .setDeadline 1001 (-1), .sweep, .chunk ⟨1001, 1, .final, 7, 0, 1⟩, .close 0]).2
      = [(0, .err BadTimeout)] := by decide

/-- multi-chunk response with the final chunk overtaking, a duplicate, an unknown id; then close -/
example :
    (runLog (init 2 5) [.submit false, .submit false, .pump, .pump,
        .chunk ⟨1001, 3, .final, 1, 2, 3⟩ ]).2 = [(0, .err BadConnectionClosed)] ∧
    (runLog (init 2 5) [.submit false, .submit false, .pump, .pump,
        .chunk ⟨1001, 2, .inter, 1, 1, 3⟩, .chunk ⟨1001, 1, .inter, 1, 0, 3⟩, .chunk ⟨1001, 2, .inter, 1, 1, 3⟩,
        .chunk ⟨1009, 9, .final, 9, 0, 1⟩, .chunk ⟨1001, 3, .final, 1, 2, 3⟩, .close 0]).2
      = [(0, .response 1 [(1, 0), (1, 1), (1, 2)]), (1, .err BadConnectionClosed)] := by decide

end OpcuaVerif.C35
