import OpcuaVerif.Lemmas.EncRT
import OpcuaVerif.Lemmas.EncSoundRec
import OpcuaVerif.Lemmas.EncSchemaRT
import OpcuaVerif.Lemmas.EncMono

/-!
C03 — Configured decoding limits are enforced exactly.  Property theorems only.

Model: `OpcuaVerif.Model.Enc` (decoders of `lib/src/types` and `MessageChunk::decode`); the
predicates `InV` (every string / byte string / array / dimension array in a value is within its
limit) and `WFV` (valid value within the limits) are in `Lemmas/EncSpec.lean`.
-/
namespace OpcuaVerif.C03
open OpcuaVerif.Enc
set_option linter.unusedSimpArgs false

/-! ### nothing over a limit is ever produced (any input bytes, any nesting position) -/

/-- **Soundness, Variant**: whatever bytes are decoded, with whatever stack and allocation budget,
at any gauge depth, a Variant that comes out contains no string, byte string, array or dimension
array longer than its configured maximum — wherever it is nested. -/
theorem limits_sound_variant (o : Opts) (cap : Nat) (lk : Bool) (fuel d : Nat) (b : Bytes) (v : V)
    (r : Bytes) (h : decV o cap lk fuel d b = .ok v r) : InV o v :=
  Res.all_of_ok ((sound_all o cap lk fuel).1 d b) h

/-- **Soundness, DataValue** -/
theorem limits_sound_data_value (o : Opts) (cap : Nat) (lk : Bool) (fuel d : Nat) (b : Bytes) (v : DV)
    (r : Bytes) (h : decDV o cap lk fuel d b = .ok v r) : InDV o v :=
  Res.all_of_ok ((sound_all o cap lk fuel).2.2.1 d b) h

/-- **Soundness, DiagnosticInfo** -/
theorem limits_sound_diagnostic_info (o : Opts) (cap : Nat) (lk : Bool) (fuel d : Nat) (b : Bytes)
    (v : DI) (r : Bytes) (h : decDI o cap lk fuel d b = .ok v r) : InDI o v :=
  Res.all_of_ok ((sound_all o cap lk fuel).2.2.2 d b) h

/-! ### everything within the limits is accepted -/

/-- **Completeness, Variant**: the encoding of a valid value all of whose lengths (and nesting)
are within the limits is accepted, embedded in front of any further bytes `r`, which are left
untouched. -/
theorem limits_complete_variant (o : Opts) (cap : Nat) (hc : CapOK o cap) (x : V) (fuel : Nat)
    (r : Bytes) (hw : WFV o 0 x) (hf : frV x ≤ fuel) :
    decV o cap true fuel 0 (encV true x ++ r) = .ok (normV x) r :=
  (rtV o cap hc x).2 fuel 0 r hw hf

theorem limits_complete_data_value (o : Opts) (cap : Nat) (hc : CapOK o cap) (x : DV) (fuel : Nat)
    (r : Bytes) (hw : WFDV o 0 x) (hf : frDV x ≤ fuel) :
    decDV o cap true fuel 0 (encDV true x ++ r) = .ok (normDV x) r :=
  rtDV o cap hc x fuel 0 r hw hf

theorem limits_complete_diagnostic_info (o : Opts) (cap : Nat) (hc : CapOK o cap) (x : DI) (fuel : Nat)
    (r : Bytes) (hw : WFDI o 0 x) (hf : frDI x ≤ fuel) :
    decDI o cap true fuel 0 (encDI true x ++ r) = .ok x r :=
  rtDI o cap hc x fuel 0 r hw hf

/-! ### the boundary of each length field -/

/-- **String boundary**: a declared length `n` (as the unsigned reading of the `i32`) followed by
`body` is accepted exactly when it is −1 (null) or non-negative, at most `max_string_length`,
covered by the stream, and valid UTF-8 — `n = maxStr` is accepted, `n = maxStr + 1` is not. -/
theorem str_boundary (o : Opts) (cap n : Nat) (body : Bytes) (hn : n < 4294967296) (hc : o.maxStr ≤ cap) :
    (∃ s r, decStr o cap (le32 n ++ body) = .ok s r) ↔
      (n = 4294967295 ∨ (n < 2147483648 ∧ n ≤ o.maxStr ∧ n ≤ body.length ∧ utf8Valid (body.take n) = true)) := by
  simp only [decStr, rd32_le32 n body hn, guardAlloc]
  by_cases h1 : n = 4294967295
  · simp [h1]
  by_cases h2 : n ≥ 2147483648
  · simp only [h1, h2, if_true, if_false]
    constructor
    · rintro ⟨s, r, h⟩; cases h
    · rintro (h | ⟨a1, a2, a3, a4⟩) <;> first | omega | contradiction | simp_all
  by_cases h3 : n > o.maxStr
  · simp only [h1, h2, h3, if_true, if_false]
    constructor
    · rintro ⟨s, r, h⟩; cases h
    · rintro (h | ⟨a1, a2, a3, a4⟩) <;> first | omega | contradiction | simp_all
  have h4 : ¬ n > cap := by omega
  by_cases h5 : body.length < n
  · simp only [h1, h2, h3, h4, h5, if_true, if_false]
    constructor
    · rintro ⟨s, r, h⟩; cases h
    · rintro (h | ⟨a1, a2, a3, a4⟩) <;> first | omega | contradiction | simp_all
  cases h6 : utf8Valid (body.take n)
  · simp only [h1, h2, h3, h4, h5, h6, if_true, if_false]
    constructor
    · rintro ⟨s, r, h⟩; cases h
    · rintro (h | ⟨_, _, _, e⟩)
      · first | omega | contradiction
      · first | cases e | contradiction | simp_all
  · simp only [h1, h2, h3, h4, h5, h6, if_true, if_false]
    constructor
    · intro _; right; exact ⟨by omega, by omega, by omega, by first | trivial | rfl⟩
    · intro _; exact ⟨_, _, rfl⟩

/-- **ByteString boundary** -/
theorem bstr_boundary (o : Opts) (cap n : Nat) (body : Bytes) (hn : n < 4294967296) (hc : o.maxBytes ≤ cap) :
    (∃ s r, decBStr o cap (le32 n ++ body) = .ok s r) ↔
      (n = 4294967295 ∨ (n < 2147483648 ∧ n ≤ o.maxBytes ∧ n ≤ body.length)) := by
  simp only [decBStr, rd32_le32 n body hn, guardAlloc]
  by_cases h1 : n = 4294967295
  · simp [h1]
  by_cases h2 : n ≥ 2147483648
  · simp only [h1, h2, if_true, if_false]
    constructor
    · rintro ⟨s, r, h⟩; cases h
    · rintro (h | ⟨a1, a2, a3⟩) <;> first | omega | contradiction | simp_all
  by_cases h3 : n > o.maxBytes
  · simp only [h1, h2, h3, if_true, if_false]
    constructor
    · rintro ⟨s, r, h⟩; cases h
    · rintro (h | ⟨a1, a2, a3⟩) <;> first | omega | contradiction | simp_all
  have h4 : ¬ n > cap := by omega
  by_cases h5 : body.length < n
  · simp only [h1, h2, h3, h4, h5, if_true, if_false]
    constructor
    · rintro ⟨s, r, h⟩; cases h
    · rintro (h | ⟨a1, a2, a3⟩) <;> first | omega | contradiction | simp_all
  · simp only [h1, h2, h3, h4, h5, if_true, if_false]
    constructor
    · intro _; right; exact ⟨by omega, by omega, by omega⟩
    · intro _; exact ⟨_, _, rfl⟩

/-- **Variant array boundary**: an array header (any element type, with or without the dimensions
bit) that declares more than `max_array_length` values is rejected before any value is read and
before anything is allocated (the result is an error for every allocation budget, even 0),
whatever follows. -/
theorem variant_array_over_limit (o : Opts) (cap : Nat) (lk : Bool) (f d ty n : Nat) (hasDims : Bool)
    (rest : Bytes) (h1 : 1 ≤ ty) (h2 : ty ≤ 25) (hn : n < 2147483648) (hover : n > o.maxArr) :
    decV o cap lk (f + 1) d ((ty + 128 + (if hasDims then 64 else 0)) :: (le32 n ++ rest)) = .err := by
  rw [decV_arr o cap lk f d ty hasDims _ h1 h2, rd32_le32 n rest (by omega)]
  simp only []
  rw [if_neg (by omega), if_neg (by omega), if_pos hover]

/-- **Dimension array boundary** (`read_array`): more than `max_array_length` dimensions are
rejected before allocation. -/
theorem dim_array_over_limit (o : Opts) (cap n : Nat) (rest : Bytes) (hn : n < 2147483648)
    (hover : n > o.maxArr) : decDimArray o cap (le32 n ++ rest) = .err := by
  simp only [decDimArray, rd32_le32 n rest (by omega)]
  rw [if_neg (by omega), if_neg (by omega), if_pos hover]

/-- negative lengths other than −1 are rejected by every length field -/
theorem negative_length_rejected (o : Opts) (cap n : Nat) (rest : Bytes) (hn : n < 4294967295)
    (hneg : n ≥ 2147483648) :
    decStr o cap (le32 n ++ rest) = .err ∧ decBStr o cap (le32 n ++ rest) = .err
      ∧ decDimArray o cap (le32 n ++ rest) = .err := by
  have hlt : n < 4294967296 := by omega
  have h1 : ¬ n = 4294967295 := by omega
  simp [decStr, decBStr, decDimArray, rd32_le32 n rest hlt, h1, hneg]

/-! ### chunks -/

/-- A chunk whose declared size exceeds a non-zero `max_message_size` is rejected, whatever the
allocation budget: nothing is allocated for it and its body is not read. -/
theorem chunk_limit (o : Opts) (cap : Nat) (ty : Bytes) (fin size chan : Nat) (rest b : Bytes)
    (hh : decChunkHeader b = .ok (ty, fin, size, chan) rest)
    (hm : o.maxMsg > 0) (hs : size > o.maxMsg) : decChunk o cap b = .err := by
  simp [decChunk, hh, Res.bind, hm, hs]

/-- … and one whose size is within the maximum (or when no maximum is configured) is accepted. -/
theorem chunk_within (o : Opts) (cap : Nat) (ty : Bytes) (fin size chan : Nat) (rest b : Bytes)
    (hh : decChunkHeader b = .ok (ty, fin, size, chan) rest)
    (hs : o.maxMsg = 0 ∨ size ≤ o.maxMsg) (hc : size ≤ cap) :
    ∃ data r, decChunk o cap b = .ok data r := by
  have h1 : ¬ (o.maxMsg > 0 ∧ size > o.maxMsg) := by omega
  have h2 : ¬ size > cap := by omega
  simp only [decChunk, hh, Res.bind_ok, h1, if_false, guardAlloc, h2]
  split
  · exact ⟨_, _, rfl⟩
  · exact ⟨_, _, rfl⟩

/-! ### non-vacuity -/

/-- a DataValue holding a 2-element string array with dimensions, and a status -/
def sample : DV :=
  .mk1 (.arr 12 [.sc (.str (some [104, 105])), .sc (.str none)] (some [2]))
    { status := some 2147483648, srcTs := none, srcPs := none, srvTs := none, srvPs := none }

example : WFDV Opts.default 0 sample := by
  simp [sample, WFDV, WFV, WFElems, WFScalar, WFStr, WFDims, WFDVRest, WFOpt, V.tid, Scalar.tid,
    AllPos, dimsProd, Opts.default, utf8Valid]

example : CapOK Opts.default 65535 := by simp [CapOK, Opts.default]

/-- the hypotheses of the soundness theorems are satisfiable: a concrete successful decode -/
example : ∃ v r, decDV Opts.default 65535 true 10 0 (encDV true sample ++ [7]) = .ok v r :=
  ⟨_, _, rfl⟩

/-- under a string limit of 1 the same bytes are rejected (the 2-byte string is over the limit) -/
example : (decDV { Opts.default with maxStr := 1 } 65535 true 10 0 (encDV true sample)).val?.isSome = false := by
  decide

/-- a chunk header `MSG F size=20 chan=1` -/
example : decChunkHeader [77, 83, 71, 70, 20, 0, 0, 0, 1, 0, 0, 0, 9] = .ok ([77, 83, 71], 70, 20, 1) [9] := by
  rfl

/-! ### arrays of generated structures (`read_array`, schema-directed decoder) -/

/-- an array field of any generated structure (any element schema) that declares more than
`max_array_length` elements is rejected before allocation, whatever follows -/
theorem struct_array_over_limit (o : Opts) (cap fuel : Nat) (t : Ty) (d n : Nat) (rest : Bytes)
    (hn : n < 2147483648) (hover : n > o.maxArr) : decS o cap fuel (.arr t) d (le32 n ++ rest) = .err := by
  simp only [decS, rd32_le32 n rest (by omega)]
  rw [if_neg (by omega), if_neg (by omega), if_pos hover]

/-- … and every valid value of every schema whose arrays, strings and byte strings are within the
limits is accepted and exactly consumed (the generic round trip of C01) -/
theorem struct_within_limits_accepted (o : Opts) (cap : Nat) (hc : CapOK o cap) (t : Ty) (v : SVal)
    (fuel : Nat) (r : Bytes) (hw : WFS o 0 t v) (hf : frS v ≤ fuel) :
    decS o cap fuel t 0 (encS t v ++ r) = .ok (normS v) r :=
  rtS o cap fuel hc v t 0 r hw hf

/-! ### "exactly": over the limit ⇒ rejected, wherever it is nested -/

/-- **Over-limit values are rejected**: take any value `x` that is valid under some larger limits
`o'` (so that it has an encoding the decoder could accept at all).  If `x` contains — at any nesting
position — a string, byte string, array or dimension array longer than the maximum configured in
`o`, then decoding its encoding under `o` does not succeed, whatever follows it in the stream. -/
theorem over_limit_rejected (o o' : Opts) (hle : OptsLe o o') (cap : Nat) (hc : CapOK o' cap) (x : V)
    (fuel : Nat) (r : Bytes) (hw : WFV o' 0 x) (hf : frV x ≤ fuel) (hover : ¬ InV o (normV x)) :
    ∀ v r', decV o cap true fuel 0 (encV true x ++ r) ≠ .ok v r' := by
  intro v r' hd
  have h1 := (mono_all o o' hle cap fuel).1 0 _ v r' hd
  have h2 := (rtV o' cap hc x).2 fuel 0 r hw hf
  rw [h2] at h1
  injection h1 with hv _
  have h3 := limits_sound_variant o cap true fuel 0 _ v r' hd
  rw [← hv] at h3
  exact hover h3

/-- non-vacuity of `over_limit_rejected`: a 5-byte string inside a DataValue inside a Variant is
over `maxStr = 4` and valid under the default limits -/
example : ¬ InV { Opts.default with maxStr := 4 }
    (normV (.dv (.mk1 (.sc (.str (some [97, 98, 99, 100, 101]))) ⟨none, none, none, none, none⟩))) := by
  simp [normV, normDV, normScalar, InV, InDV, InScalar, InStr, Opts.default]

end OpcuaVerif.C03
