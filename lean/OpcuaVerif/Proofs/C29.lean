import OpcuaVerif.Lemmas.C29
import OpcuaVerif.Proofs.C28

/-!
C29 — Deleting a node terminates and leaves no dangling references.

Model: `OpcuaVerif.Model.C29` (`AddressSpace::delete` with its visited set, on the `References`
model of C28).  `Reach agg s n x`: `x` is `n` or is aggregated by `n`, directly or through other
nodes.  The induction over the recursion is `deleteV_spec` in `OpcuaVerif.Lemmas.C29`.
All theorems are for every state whose reverse lookup is exact (`C28.Inv`, which every history of
`References` operations establishes: `C28.run_refines`), every node, both values of
`delete_target_references`, and every `agg`.
-/
namespace OpcuaVerif.C29
open OpcuaVerif.C28

theorem remaining_le (U v : List Nat) : remaining U v ≤ U.length := List.countP_le_length

/-- What one top-level `delete` does: it returns, and there is a set `D` of deleted nodes … -/
theorem delete_spec (agg : Nat → Bool) (sp : Space) (n : Nat) (dtr : Bool) (hi : C28.Inv sp.refs) :
    ∃ sp' b D, delete agg sp n dtr = some (sp', b) ∧ PostD agg dtr sp [] sp' D D ∧ n ∈ D ∧
      ∀ x ∈ D, Reach agg sp.refs n x := by
  have hlt : remaining (candidates sp n) [] < (candidates sp n).length + 1 :=
    Nat.lt_succ_of_le (remaining_le _ _)
  obtain ⟨sp', b, v', D, e, p, hn, hre⟩ :=
    deleteV_spec agg dtr (candidates sp n) _ sp n [] hi (tgtIn_candidates sp n) List.mem_cons_self hlt
  have hv : v' = D := by rw [p.vis]; simp
  subst hv
  exact ⟨sp', b, v', by simp [delete, e], p, hn, hre⟩

/-- **The deletion always terminates** — for any reference graph, cycles of aggregating references
included: the recursion of `delete` finishes within the fuel `delete` gives it (one unit per node
that could be visited). -/
theorem delete_terminates (agg : Nat → Bool) (sp : Space) (n : Nat) (dtr : Bool)
    (hi : C28.Inv sp.refs) : ∃ r, delete agg sp n dtr = some r := by
  obtain ⟨sp', b, _, e, _⟩ := delete_spec agg sp n dtr hi
  exact ⟨(sp', b), e⟩

/-- the set of deleted nodes is exactly the aggregation closure of the node -/
theorem deleted_iff_reach {agg : Nat → Bool} {dtr : Bool} {sp sp' : Space} {n : Nat} {D : List Nat}
    (p : PostD agg dtr sp [] sp' D D) (hn : n ∈ D) (hre : ∀ x ∈ D, Reach agg sp.refs n x) (x : Nat) :
    x ∈ D ↔ Reach agg sp.refs n x := by
  constructor
  · exact hre x
  · intro h
    induction h with
    | refl => exact hn
    | step _ ha hr ih => exact p.closed _ ih _ _ ha hr

/-- **The node, and every node it aggregates, are removed — and no other node.** -/
theorem delete_removes_closure (agg : Nat → Bool) (sp sp' : Space) (n : Nat) (dtr b : Bool)
    (hi : C28.Inv sp.refs) (h : delete agg sp n dtr = some (sp', b)) (x : Nat) :
    x ∈ sp'.nodes ↔ (x ∈ sp.nodes ∧ ¬ Reach agg sp.refs n x) := by
  obtain ⟨sp2, b2, D, e, p, hn, hre⟩ := delete_spec agg sp n dtr hi
  rw [h] at e; cases e
  rw [p.nodes, List.mem_filter, ← deleted_iff_reach p hn hre]
  simp

/-- **No dangling references, and no reference lost that should stay**: with
`delete_target_references` the references of the new state are exactly the old ones that mention no
removed node. -/
theorem no_dangling (agg : Nat → Bool) (sp sp' : Space) (n : Nat) (b : Bool)
    (hi : C28.Inv sp.refs) (h : delete agg sp n true = some (sp', b)) (x u y : Nat) :
    R sp'.refs x u y ↔ (R sp.refs x u y ∧ ¬ Reach agg sp.refs n x ∧ ¬ Reach agg sp.refs n y) := by
  obtain ⟨sp2, b2, D, e, p, hn, hre⟩ := delete_spec agg sp n true hi
  rw [h] at e; cases e
  rw [p.refsT rfl, deleted_iff_reach p hn hre, deleted_iff_reach p hn hre]

/-- … so no query of the new state can report a removed node: nothing is held by it, nothing
points at it, and the reverse lookup is exact again (`C28.Inv`), which is what
`find_inverse_references` needs (`C28.findInv_none`). -/
theorem no_dangling_queries (agg : Nat → Bool) (sp sp' : Space) (n : Nat) (b : Bool)
    (hi : C28.Inv sp.refs) (h : delete agg sp n true = some (sp', b)) (x : Nat)
    (hx : Reach agg sp.refs n x) :
    C28.Inv sp'.refs ∧ (∀ a t, hasRef sp'.refs x a t = false ∧ hasRef sp'.refs a x t = false) ∧
    (∀ fuel, findRefs sp'.refs fuel x none = some none) ∧
    (∀ fuel, findInv sp'.refs fuel x none = some none) := by
  have hno := no_dangling agg sp sp' n b hi h
  obtain ⟨sp2, b2, D, e, p, -, -⟩ := delete_spec agg sp n true hi
  rw [h] at e; cases e
  have hi' := p.inv
  have hf : fwdL sp'.refs x = [] := by
    apply List.eq_nil_iff_forall_not_mem.2
    rintro ⟨t, y⟩ hm
    exact ((hno x t y).1 hm).2.1 hx
  have hI : invL sp'.refs x = [] := by
    apply List.eq_nil_iff_forall_not_mem.2
    intro a hm
    obtain ⟨t, ht⟩ := hi'.exact a x hm
    exact ((hno a t x).1 ht).2.2 hx
  have hfg : sp'.refs.fwd.get x = none := by
    cases hg : sp'.refs.fwd.get x with
    | none => rfl
    | some l =>
      have := hi'.ne.1 x l hg
      simp [fwdL, hg] at hf; exact absurd hf this
  have hig : sp'.refs.inv.get x = none := by
    cases hg : sp'.refs.inv.get x with
    | none => rfl
    | some l =>
      have := hi'.ne.2 x l hg
      simp [invL, hg] at hI; exact absurd hI this
  refine ⟨hi', ?_, ?_, ?_⟩
  · intro a t
    constructor
    · simp [hasRef, hfg]
    · cases hh : hasRef sp'.refs a x t with
      | false => rfl
      | true => exact absurd hx ((hno a t x).1 ((C28.hasRef_iff _ _ _ _).1 hh)).2.2
  · intro fuel; simp [findRefs, hfg]
  · intro fuel; simp [findInv, hig]

/-- without `delete_target_references` the references are left alone -/
theorem delete_keeps_refs (agg : Nat → Bool) (sp sp' : Space) (n : Nat) (b : Bool)
    (hi : C28.Inv sp.refs) (h : delete agg sp n false = some (sp', b)) : sp'.refs = sp.refs := by
  obtain ⟨sp2, b2, D, e, p, -, -⟩ := delete_spec agg sp n false hi
  rw [h] at e; cases e
  exact p.refsF rfl

/-- **The parameter `agg` and the real walk.**  `find_aggregates_of` is
`find_references(n, (Aggregates, true))`.  If `agg` is the subtype closure of `Aggregates` (44) in
the HasSubtype references of the state, then — whenever the walk of `reference_type_matches`
returns — the children the real function finds are exactly `aggregatesOf agg` (C28's
`findRefs_filtered_partial`). -/
theorem aggregatesOf_is_find_aggregates_of (agg : Nat → Bool) (sp : Space) (fuel n : Nat)
    (hagg : ∀ t, agg t = true ↔ C28.Sub sp.refs 44 t) (r : Option (List (Nat × Nat)))
    (h : findRefs sp.refs fuel n (some (44, true)) = some r) (c : Nat) :
    c ∈ aggregatesOf agg sp n ↔ ∃ t, (t, c) ∈ C28.found r := by
  rw [mem_aggregatesOf]
  constructor
  · rintro ⟨u, ha, hr⟩
    exact ⟨u, (C28.findRefs_filtered_partial sp.refs fuel n 44 true r h u c).2
      ⟨hr, by simpa [C28.Matches] using (hagg u).1 ha⟩⟩
  · rintro ⟨t, hm⟩
    obtain ⟨hr, hs⟩ := (C28.findRefs_filtered_partial sp.refs fuel n 44 true r h t c).1 hm
    exact ⟨t, (hagg t).2 (by simpa [C28.Matches] using hs), hr⟩

/-! ### Non-vacuity and the defect that was repaired -/

def aggStd (t : Nat) : Bool := t == 44 || t == 46 || t == 47 || t == 49 || t == 56

def cycOps : List C28.Op := [.ins 1 2 47, .ins 1 3 35, .ins 2 1 47]

/-- two nodes that are HasComponent of each other, plus a bystander referenced from the cycle -/
def cycRefs : Refs := (C28.run C28.empty cycOps).getD C28.empty

def cyc : Space := { nodes := [1, 2, 3], refs := cycRefs }

/-- the hypothesis `Inv` holds of a state with a cycle (it is reached by three insertions) -/
theorem cyc_inv : C28.Inv cyc.refs :=
  (C28.run_refines cycOps C28.empty cycRefs C28.inv_empty (by decide)).1

example : hasRef cyc.refs 1 2 47 = true ∧ hasRef cyc.refs 2 1 47 = true ∧ hasRef cyc.refs 1 3 35 = true := by
  decide

/-- on the cycle the repaired `delete` returns, removes both nodes of the cycle and every
reference that mentions them, and keeps the bystander -/
example : delete aggStd cyc 1 true = some ({ nodes := [3], refs := C28.empty }, true) := by decide

/-- **The pinned source never returns on a cycle**: whatever the fuel (= stack), the recursion
`delete 1 → delete 2 → delete 1 → …` does not reach the point where anything is removed.  Record of
the repaired defect (witness replayed on the real code: `corpus/C29/cycle.ops`, process abort). -/
theorem C29_counterexample_cycle (fuel : Nat) (dtr : Bool) :
    deleteOld aggStd dtr fuel cyc 1 = none ∧ deleteOld aggStd dtr fuel cyc 2 = none := by
  induction fuel with
  | zero => exact ⟨rfl, rfl⟩
  | succ fuel ih =>
    have a1 : aggregatesOf aggStd cyc 1 = [2] := by decide
    have a2 : aggregatesOf aggStd cyc 2 = [1] := by decide
    constructor
    · simp only [deleteOld, a1, foldChildren, ih.2]
    · simp only [deleteOld, a2, foldChildren, ih.1]

end OpcuaVerif.C29
