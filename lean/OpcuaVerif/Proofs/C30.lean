import OpcuaVerif.Model.C30
import OpcuaVerif.Generated.C30Mutators

/-!
C30 — Browsing in pages returns the full result exactly once; continuation points are single use,
invalid after release or after an address-space change, and bounded per session.
Property theorems (and the lemmas they need).  The model is `OpcuaVerif.Model.C30`.
-/
namespace OpcuaVerif.C30

/-! ### invariant of the continuation-point store -/

/-- a stored continuation point is well formed w.r.t. the address space clock and the id counter -/
def CPok (lastMod nextId : Nat) (c : CP) : Prop :=
  c.start < c.descs.length ∧ c.id < nextId ∧ c.lm ≤ lastMod ∧ 0 < c.maxRefs

structure SInv (lastMod : Nat) (s : Sess) : Prop where
  ok : ∀ c ∈ s.cps, CPok lastMod s.nextId c
  nodup : s.cps.Pairwise (fun a b => a.id ≠ b.id)
  bounded : s.cps.length ≤ maxCPs

def Inv (st : St) : Prop := SInv st.sp.lastMod st.se

theorem init_inv : Inv init := by
  refine ⟨?_, ?_, ?_⟩ <;> simp [init, maxCPs]

theorem SInv.mono {lm lm' : Nat} {s : Sess} (h : SInv lm s) (hle : lm ≤ lm') : SInv lm' s :=
  ⟨fun c hc => by have := h.ok c hc; unfold CPok at *; omega, h.nodup, h.bounded⟩

/-- shrinking the store to a sublist keeps the invariant -/
theorem SInv.sublist {lm : Nat} {s : Sess} {l : List CP} (h : SInv lm s) (hl : l.Sublist s.cps) :
    SInv lm { s with cps := l } :=
  ⟨fun c hc => h.ok c (hl.subset hc), h.nodup.sublist hl, by have := hl.length_le; have := h.bounded; simp only; omega⟩

theorem addCP_mem {cps : List CP} {c x : CP} (h : x ∈ addCP cps c) : x ∈ cps ∨ x = c := by
  unfold addCP at h
  rcases List.mem_append.mp h with h | h
  · exact Or.inl (List.mem_of_mem_drop h)
  · exact Or.inr (by simpa using h)

theorem addCP_self (cps : List CP) (c : CP) : c ∈ addCP cps c := by
  unfold addCP; simp

theorem addCP_length {cps : List CP} {c : CP} (h : cps.length ≤ maxCPs) :
    (addCP cps c).length ≤ maxCPs := by
  unfold addCP maxCPs at *; simp; omega

theorem addCP_pairwise {cps : List CP} {c : CP} (h : cps.Pairwise (fun a b => a.id ≠ b.id))
    (hf : ∀ x ∈ cps, x.id ≠ c.id) : (addCP cps c).Pairwise (fun a b => a.id ≠ b.id) := by
  unfold addCP
  rw [List.pairwise_append]
  refine ⟨h.sublist (List.drop_sublist _ _), by simp, ?_⟩
  intro a ha b hb
  have : b = c := by simpa using hb
  subst this
  exact hf a (List.mem_of_mem_drop ha)

/-- `reference_description_to_browse_result` keeps the invariant (and does not panic) whenever the
starting index lies inside the list. -/
theorem toResult_inv {lm : Nat} {s : Sess} (h : SInv lm s) (descs : List Desc) (start k : Nat)
    (hs : start ≤ descs.length) :
    ∃ s' r, toResult lm s descs start k = some (s', r) ∧ SInv lm s' ∧ s.nextId ≤ s'.nextId := by
  unfold toResult
  rw [if_neg (by omega)]
  split
  · rename_i hk
    refine ⟨_, _, rfl, ⟨?_, ?_, ?_⟩, by simp⟩
    · intro c hc
      rcases addCP_mem hc with hc | hc
      · have := h.ok c hc; unfold CPok at *; simp only; omega
      · subst hc; unfold CPok; simp only; omega
    · refine addCP_pairwise h.nodup ?_
      intro x hx; have := (h.ok x hx).2.1; simp only; omega
    · exact addCP_length h.bounded
  · exact ⟨_, _, rfl, h, Nat.le_refl _⟩

theorem findCP_sublist (cps : List CP) (id : Nat) : (findCP cps id).2.Sublist cps := by
  induction cps with
  | nil => simp [findCP]
  | cons c rest ih =>
    unfold findCP
    split
    · exact List.sublist_cons_self c rest
    · exact ih.cons_cons c

theorem findCP_some {cps : List CP} {id : Nat} {c : CP} (h : (findCP cps id).1 = some c) :
    c ∈ cps ∧ c.id = id := by
  induction cps with
  | nil => simp [findCP] at h
  | cons x rest ih =>
    unfold findCP at h
    split at h
    · rename_i hx; simp at h; subst h; exact ⟨by simp, hx⟩
    · have := ih h; exact ⟨List.mem_cons_of_mem _ this.1, this.2⟩

theorem findCP_none {cps : List CP} {id : Nat} (h : (findCP cps id).1 = none) :
    ∀ c ∈ cps, c.id ≠ id := by
  induction cps with
  | nil => simp
  | cons x rest ih =>
    unfold findCP at h
    split at h
    · simp at h
    · rename_i hx
      intro c hc
      rcases List.mem_cons.mp hc with hc | hc
      · subst hc; exact hx
      · exact ih h c hc

/-- after a find the id is gone from the store (ids are pairwise distinct) -/
theorem findCP_removes {cps : List CP} {id : Nat} (hp : cps.Pairwise (fun a b => a.id ≠ b.id)) :
    ∀ c ∈ (findCP cps id).2, c.id ≠ id := by
  induction cps with
  | nil => simp [findCP]
  | cons x rest ih =>
    unfold findCP
    split
    · rename_i hx
      intro c hc
      have := (List.pairwise_cons.mp hp).1 c hc
      omega
    · rename_i hx
      intro c hc
      rcases List.mem_cons.mp hc with hc | hc
      · subst hc; exact hx
      · exact ih (List.pairwise_cons.mp hp).2 c hc

theorem nextOne_inv {lm : Nat} {s : Sess} (h : SInv lm s) (id : Nat) :
    ∃ s' r, nextOne lm s id = some (s', r) ∧ SInv lm s' ∧ s.nextId ≤ s'.nextId := by
  unfold nextOne
  split
  · exact ⟨_, _, rfl, h, Nat.le_refl _⟩
  · rename_i c rest heq
    have h1 : (findCP s.cps id).1 = some c := by rw [heq]
    have h2 : (findCP s.cps id).2 = rest := by rw [heq]
    have hc := (findCP_some h1).1
    have hsub : rest.Sublist s.cps := h2 ▸ findCP_sublist s.cps id
    have := toResult_inv (h.sublist hsub) c.descs c.start c.maxRefs (by have := (h.ok c hc).1; omega)
    simpa using this

theorem nextMany_inv {lm : Nat} (ids : List Nat) : ∀ {s : Sess}, SInv lm s →
    ∃ s' rs, nextMany lm s ids = some (s', rs) ∧ SInv lm s' ∧ s.nextId ≤ s'.nextId ∧ rs.length = ids.length := by
  induction ids with
  | nil => intro s h; exact ⟨s, [], rfl, h, Nat.le_refl _, rfl⟩
  | cons id ids ih =>
    intro s h
    obtain ⟨s1, r, e1, h1, n1⟩ := nextOne_inv h id
    obtain ⟨s2, rs, e2, h2, n2, l2⟩ := ih h1
    refine ⟨s2, r :: rs, ?_, h2, by omega, by simp [l2]⟩
    simp [nextMany, e1, e2]

theorem browse_inv {s : Sess} (sp : Space) (h : SInv sp.lastMod s) (n dir ty : Nat) (sub : Bool) (mask rmask req : Nat) :
    ∃ s' r, browse sp s n dir ty sub mask rmask req = some (s', r) ∧ SInv sp.lastMod s' ∧ s.nextId ≤ s'.nextId := by
  unfold browse
  cases browseDescs sp n dir ty sub mask rmask with
  | none => exact ⟨_, _, rfl, h, Nat.le_refl _⟩
  | some ds => exact toResult_inv h ds 0 (clampMax req) (Nat.zero_le _)

theorem browseMany_inv (sp : Space) (dir ty : Nat) (sub : Bool) (mask rmask req : Nat) (ns : List Nat) :
    ∀ {s : Sess}, SInv sp.lastMod s →
    ∃ s' rs, browseMany sp dir ty sub mask rmask req s ns = some (s', rs) ∧ SInv sp.lastMod s' ∧ s.nextId ≤ s'.nextId := by
  induction ns with
  | nil => intro s h; exact ⟨s, [], rfl, h, Nat.le_refl _⟩
  | cons n ns ih =>
    intro s h
    obtain ⟨s1, r, e1, h1, n1⟩ := browse_inv sp h n dir ty sub mask rmask req
    obtain ⟨s2, rs, e2, h2, n2⟩ := ih h1
    exact ⟨s2, r :: rs, by simp [browseMany, e1, e2], h2, by omega⟩

/-! ### the address-space clock only moves forward -/

theorem foldl_lastMod_le (g : Space → Nat → Space) (hg : ∀ sp c, sp.lastMod ≤ (g sp c).lastMod)
    (l : List Nat) : ∀ sp : Space, sp.lastMod ≤ (l.foldl g sp).lastMod := by
  induction l with
  | nil => intro sp; exact Nat.le_refl _
  | cons c l ih => intro sp; exact Nat.le_trans (hg sp c) (ih _)

theorem deleteNodeRefs_lastMod (sp : Space) (id : Nat) : (deleteNodeRefs sp id).1.lastMod = sp.lastMod := rfl

theorem deleteNodeWith_lastMod_le (b : Bool) (f : Nat) : ∀ (sp : Space) (id : Nat) (dtr : Bool),
    sp.lastMod ≤ (deleteNodeWith b f sp id dtr).1.lastMod := by
  induction f with
  | zero => intro sp id dtr; simp [deleteNodeWith]
  | succ f ih =>
    intro sp id dtr
    unfold deleteNodeWith
    have hf := foldl_lastMod_le (fun sp c => (deleteNodeWith b f sp c dtr).1) (fun sp c => ih sp c dtr)
      (aggregatesOf sp id) sp
    cases b <;> cases dtr <;> simp [bump, deleteNodeRefs_lastMod] at * <;> omega

/-- the repaired `delete` always advances `last_modified` -/
theorem deleteNode_bumps (f : Nat) (sp : Space) (id : Nat) (dtr : Bool) :
    sp.lastMod < (deleteNodeWith true (f + 1) sp id dtr).1.lastMod := by
  unfold deleteNodeWith
  have hf := foldl_lastMod_le (fun sp c => (deleteNodeWith true f sp c dtr).1)
    (fun sp c => deleteNodeWith_lastMod_le true f sp c dtr) (aggregatesOf sp id) sp
  cases dtr <;> simp [bump, deleteNodeRefs_lastMod] at * <;> omega

/-- an entry point either leaves the address space literally unchanged or advances the clock -/
def SameOrBump (sp sp' : Space) : Prop := sp' = sp ∨ sp.lastMod < sp'.lastMod

theorem SameOrBump.le {sp sp' : Space} (h : SameOrBump sp sp') : sp.lastMod ≤ sp'.lastMod := by
  rcases h with h | h
  · rw [h]; exact Nat.le_refl _
  · omega

theorem SameOrBump.trans_bump {a b c : Space} (h1 : a.lastMod ≤ b.lastMod) (h2 : b.lastMod < c.lastMod) :
    SameOrBump a c := Or.inr (by omega)

theorem insertNode_sob (sp : Space) (id cls : Nat) : SameOrBump sp (insertNode sp id cls).1 := by
  unfold insertNode; split
  · exact Or.inl rfl
  · exact Or.inr (by simp [bump])

theorem insertNodeP_sob (sp : Space) (id cls parent ty : Nat) : SameOrBump sp (insertNodeP sp id cls parent ty).1 := by
  unfold insertNodeP; split
  · exact Or.inl rfl
  · exact Or.inr (by simp [bump])

theorem addFolder_sob (sp : Space) (id parent : Nat) : SameOrBump sp (addFolder sp id parent).1 := by
  unfold addFolder; split
  · exact Or.inl rfl
  · exact Or.inr (by simp [bump])

theorem addVariables_bumps (parent : Nat) (ids : List Nat) : ∀ sp : Space,
    sp.lastMod < (addVariables sp parent ids).1.lastMod := by
  induction ids with
  | nil => intro sp; simp [addVariables, bump]
  | cons id ids ih =>
    intro sp
    have h1 := (insertNodeP_sob sp id 2 parent 35).le
    have h2 := ih (insertNodeP sp id 2 parent 35).1
    simp only [addVariables]; omega

theorem deleteRef_bumps (sp : Space) (s t ty : Nat) : sp.lastMod < (deleteRefWith true sp s t ty).1.lastMod := by
  simp [deleteRefWith, bump]

/-- **Every mutating entry point of `AddressSpace` and of the NodeManagement services either
changes nothing or advances `last_modified`** (for `delete` with either value of
`delete_target_references` and for `delete_reference` this is what the `fix:` commit established). -/
theorem applyMut_sob (sp : Space) (m : Mut) : SameOrBump sp (applyMut true sp m).1 := by
  cases m with
  | node id cls => exact insertNode_sob _ _ _
  | nodep id cls parent ty => exact insertNodeP_sob _ _ _ _ _
  | ref s t ty => exact Or.inr (by simp [applyMut, insertRef, bump])
  | refs l => exact Or.inr (by simp [applyMut, insertRefs, bump])
  | settype id t => exact Or.inr (by simp [applyMut, insertRef, bump])
  | folder id parent => exact addFolder_sob _ _ _
  | addvars parent ids => exact Or.inr (addVariables_bumps _ _ _)
  | delref s t ty => exact Or.inr (deleteRef_bumps _ _ _ _)
  | delnode id dtr => exact Or.inr (deleteNode_bumps _ _ _ _)
  | sdelnode id dtr =>
    simp only [applyMut]
    split
    · exact Or.inl rfl
    · exact Or.inr (deleteNode_bumps _ _ _ _)
  | sdelref s t ty fwd bidir =>
    simp only [applyMut]
    repeat' split
    all_goals first
      | exact Or.inl rfl
      | exact Or.inr (deleteRef_bumps _ _ _ _)
      | exact Or.inr (Nat.lt_trans (deleteRef_bumps sp s t ty) (deleteRef_bumps _ _ _ _))
  | saddref s t ty fwd cls =>
    simp only [applyMut]
    repeat' split
    all_goals first
      | exact Or.inl rfl
      | exact Or.inr (by simp [insertRef, bump])

/-- does this op really change the structure of the address space (nodes or references)? -/
def changes (st : St) : Op → Bool
  | .mutate m => decide ((applyMut true st.sp m).1.nodes ≠ st.sp.nodes ∨ (applyMut true st.sp m).1.refs ≠ st.sp.refs)
  | _ => false

theorem step_lastMod_le (st : St) (op : Op) : st.sp.lastMod ≤ (step st op).1.sp.lastMod := by
  cases op <;> simp only [step, stepWith]
  · exact (applyMut_sob _ _).le
  · split <;> simp
  · split
    · simp
    · split
      · simp
      · split <;> simp
  · split
    · simp
    · split <;> simp
  · split <;> simp

/-- **whenever nodes or references change, `last_modified` advances** -/
theorem change_bumps (st : St) (op : Op) (h : changes st op = true) :
    st.sp.lastMod < (step st op).1.sp.lastMod := by
  cases op with
  | mutate m =>
    simp only [changes, decide_eq_true_eq] at h
    simp only [step, stepWith]
    rcases applyMut_sob st.sp m with hs | hs
    · rw [hs] at h; simp at h
    · exact hs
  | browse => simp [changes] at h
  | browsem => simp [changes] at h
  | next => simp [changes] at h
  | release => simp [changes] at h

/-! ### the invariant holds along every history, and nothing panics -/

theorem step_inv (st : St) (op : Op) (h : Inv st) : Inv (step st op).1 ∧ (step st op).2 ≠ .panic := by
  have hle := step_lastMod_le st op
  unfold Inv at *
  cases op with
  | mutate m => exact ⟨h.mono hle, by simp [step, stepWith]⟩
  | browse n dir ty sub mask rmask req =>
    simp only [step, stepWith, browse]
    cases hd : browseDescs st.sp n dir ty sub mask rmask with
    | none => simpa using h
    | some ds =>
      obtain ⟨s', r, e, hi, -⟩ := toResult_inv h ds 0 (clampMax req) (Nat.zero_le _)
      simp [e, hi]
  | browsem ns dir ty sub mask rmask req limit =>
    simp only [step, stepWith]
    split
    · exact ⟨h, by simp⟩
    · split
      · exact ⟨h, by simp⟩
      · obtain ⟨s', rs, e, hi, -⟩ := browseMany_inv st.sp dir ty sub mask rmask req ns h
        simp [e, hi]
  | next ids =>
    simp only [step, stepWith]
    split
    · exact ⟨h, by simp⟩
    · have h0 : SInv st.sp.lastMod { st.se with cps := removeExpired st.sp.lastMod st.se.cps } :=
        h.sublist (List.filter_sublist)
      obtain ⟨s', rs, e, hi, -⟩ := nextMany_inv ids h0
      simp [e, hi]
  | release ids =>
    simp only [step, stepWith]
    split
    · exact ⟨h, by simp⟩
    · exact ⟨h.sublist (List.filter_sublist), by simp⟩

theorem run_inv (ops : List Op) : ∀ st, Inv st → Inv (run st ops).1 ∧ Res.panic ∉ (run st ops).2 := by
  induction ops with
  | nil => intro st h; exact ⟨h, by simp [run, runWith]⟩
  | cons op ops ih =>
    intro st h
    have h1 := step_inv st op h
    have h2 := ih _ h1.1
    simp only [run, runWith] at *
    refine ⟨h2.1, ?_⟩
    simp only [List.mem_cons, not_or]
    exact ⟨fun e => h1.2 e.symm, h2.2⟩

/-- **No history of Browse / BrowseNext / release / address-space modifications panics**
(in particular the `usize` subtraction `len - starting_index` never underflows). -/
theorem no_panic (ops : List Op) : Res.panic ∉ (run init ops).2 :=
  (run_inv ops init init_inv).2

/-- **The server keeps a bounded number of continuation points per session**, along every history. -/
theorem cp_bounded (ops : List Op) : (run init ops).1.se.cps.length ≤ maxCPs :=
  (run_inv ops init init_inv).1.bounded

/-! ### continuation points that can never be used (again) -/

/-- `id` was issued and is not in the store -/
def Gone (s : Sess) (id : Nat) : Prop := id < s.nextId ∧ ∀ c ∈ s.cps, c.id ≠ id

/-- `id` was issued and, if still stored, is older than the last change of the address space -/
def DeadS (lm : Nat) (s : Sess) (id : Nat) : Prop :=
  id < s.nextId ∧ ∀ c ∈ s.cps, c.id = id → c.lm < lm

/-- the continuation point `id` has been issued and can never be used (again) -/
def Dead (st : St) (id : Nat) : Prop := DeadS st.sp.lastMod st.se id

theorem Gone.deadS {s : Sess} {id : Nat} (h : Gone s id) (lm : Nat) : DeadS lm s id :=
  ⟨h.1, fun c hc e => absurd e (h.2 c hc)⟩

theorem toResult_deadS {lm lm0 : Nat} {s s' : Sess} {descs : List Desc} {start k id : Nat} {r : BrowseResult}
    (e : toResult lm s descs start k = some (s', r)) (hg : DeadS lm0 s id) : DeadS lm0 s' id := by
  unfold toResult at e
  split at e
  · simp at e
  · split at e
    · simp only [Option.some.injEq, Prod.mk.injEq] at e
      obtain ⟨e, -⟩ := e; subst e
      refine ⟨by have := hg.1; simp only; omega, ?_⟩
      intro c hc hid
      rcases addCP_mem hc with hc | hc
      · exact hg.2 c hc hid
      · subst hc; simp only at hid; have := hg.1; omega
    · simp only [Option.some.injEq, Prod.mk.injEq] at e
      obtain ⟨e, -⟩ := e; subst e; exact hg

theorem toResult_gone {lm : Nat} {s s' : Sess} {descs : List Desc} {start k id : Nat} {r : BrowseResult}
    (e : toResult lm s descs start k = some (s', r)) (hg : Gone s id) : Gone s' id := by
  unfold toResult at e
  split at e
  · simp at e
  · split at e
    · simp only [Option.some.injEq, Prod.mk.injEq] at e
      obtain ⟨e, -⟩ := e; subst e
      refine ⟨by have := hg.1; simp only; omega, ?_⟩
      intro c hc
      rcases addCP_mem hc with hc | hc
      · exact hg.2 c hc
      · subst hc; simp only; have := hg.1; omega
    · simp only [Option.some.injEq, Prod.mk.injEq] at e
      obtain ⟨e, -⟩ := e; subst e; exact hg

theorem findCP_none_of {cps : List CP} {id : Nat} (h : ∀ c ∈ cps, c.id ≠ id) : (findCP cps id).1 = none := by
  cases hf : (findCP cps id).1 with
  | none => rfl
  | some c => have := findCP_some hf; exact absurd this.2 (h c this.1)

theorem nextOne_gone {lm : Nat} {s s' : Sess} {id id' : Nat} {r : BrowseResult}
    (e : nextOne lm s id' = some (s', r)) (hg : Gone s id) :
    Gone s' id ∧ (id' = id → r = invalidResult) := by
  unfold nextOne at e
  split at e
  · simp only [Option.some.injEq, Prod.mk.injEq] at e
    obtain ⟨e1, e2⟩ := e; subst e1; exact ⟨hg, fun _ => e2.symm⟩
  · rename_i c rest heq
    have h1 : (findCP s.cps id').1 = some c := by rw [heq]
    have h2 : (findCP s.cps id').2 = rest := by rw [heq]
    have hsub : rest.Sublist s.cps := h2 ▸ findCP_sublist s.cps id'
    have hg' : Gone { s with cps := rest } id := ⟨hg.1, fun c hc => hg.2 c (hsub.subset hc)⟩
    refine ⟨toResult_gone e hg', ?_⟩
    intro hid; subst hid
    have := findCP_none_of hg.2
    rw [h1] at this; simp at this

theorem nextMany_gone {lm : Nat} {id : Nat} (ids : List Nat) : ∀ {s s' : Sess} {rs : List BrowseResult},
    nextMany lm s ids = some (s', rs) → Gone s id →
    Gone s' id ∧ ∀ p ∈ ids.zip rs, p.1 = id → p.2 = invalidResult := by
  induction ids with
  | nil => intro s s' rs e hg; simp [nextMany] at e; obtain ⟨e1, e2⟩ := e; subst e1 e2; exact ⟨hg, by simp⟩
  | cons i ids ih =>
    intro s s' rs e hg
    unfold nextMany at e
    cases h1 : nextOne lm s i with
    | none => simp [h1] at e
    | some p1 =>
      obtain ⟨s1, r1⟩ := p1
      simp only [h1] at e
      cases h2 : nextMany lm s1 ids with
      | none => simp [h2] at e
      | some p2 =>
        obtain ⟨s2, rs2⟩ := p2
        simp only [h2, Option.some.injEq, Prod.mk.injEq] at e
        obtain ⟨e1, e2⟩ := e; subst e1 e2
        have g1 := nextOne_gone h1 hg
        have g2 := ih h2 g1.1
        refine ⟨g2.1, ?_⟩
        intro p hp hid
        simp only [List.zip_cons_cons, List.mem_cons] at hp
        rcases hp with hp | hp
        · subst hp; exact g1.2 hid
        · exact g2.2 p hp hid

/-- using a continuation point removes it: after `nextMany` over a list that mentions an issued
id, that id is gone -/
theorem nextMany_uses {lm : Nat} {id : Nat} (ids : List Nat) : ∀ {s s' : Sess} {rs : List BrowseResult},
    SInv lm s → id < s.nextId → id ∈ ids → nextMany lm s ids = some (s', rs) → Gone s' id := by
  induction ids with
  | nil => intro s s' rs _ _ hm; simp at hm
  | cons i ids ih =>
    intro s s' rs hi hlt hm e
    unfold nextMany at e
    cases h1 : nextOne lm s i with
    | none => simp [h1] at e
    | some p1 =>
      obtain ⟨s1, r1⟩ := p1
      simp only [h1] at e
      cases h2 : nextMany lm s1 ids with
      | none => simp [h2] at e
      | some p2 =>
        obtain ⟨s2, rs2⟩ := p2
        simp only [h2, Option.some.injEq, Prod.mk.injEq] at e
        obtain ⟨e1, e2⟩ := e; subst e1 e2
        obtain ⟨s1', r1', e1', hi1, hn1⟩ := nextOne_inv hi i
        rw [h1] at e1'; simp only [Option.some.injEq, Prod.mk.injEq] at e1'
        obtain ⟨e1a, -⟩ := e1'; subst e1a
        by_cases hid : i = id
        · subst hid
          -- the head use removes it
          have hg1 : Gone s1 i := by
            unfold nextOne at h1
            split at h1
            · rename_i heq
              simp only [Option.some.injEq, Prod.mk.injEq] at h1
              obtain ⟨e1, -⟩ := h1; subst e1
              have : (findCP s.cps i).1 = none := by rw [heq]
              exact ⟨hlt, findCP_none this⟩
            · rename_i c rest heq
              have h2' : (findCP s.cps i).2 = rest := by rw [heq]
              have hrm := findCP_removes (id := i) hi.nodup
              rw [h2'] at hrm
              exact toResult_gone h1 ⟨hlt, hrm⟩
          exact (nextMany_gone ids h2 hg1).1
        · have hm' : id ∈ ids := by
            rcases List.mem_cons.mp hm with h | h
            · exact absurd h.symm hid
            · exact h
          exact ih hi1 (by omega) hm' h2

theorem mutation_keeps_session (st : St) (op : Op) (h : changes st op = true) : (step st op).1.se = st.se := by
  cases op <;> simp [step, stepWith, changes] at *

theorem browse_deadS {sp : Space} {lm0 : Nat} {s s' : Sess} {n dir ty : Nat} {sub : Bool} {mask rmask req id : Nat}
    {r : BrowseResult} (e : browse sp s n dir ty sub mask rmask req = some (s', r)) (hg : DeadS lm0 s id) :
    DeadS lm0 s' id := by
  unfold browse at e
  cases hb : browseDescs sp n dir ty sub mask rmask with
  | none => simp [hb] at e; obtain ⟨e1, -⟩ := e; subst e1; exact hg
  | some ds => simp only [hb] at e; exact toResult_deadS e hg

theorem browseMany_deadS {sp : Space} {lm0 : Nat} {dir ty : Nat} {sub : Bool} {mask rmask req id : Nat} (ns : List Nat) :
    ∀ {s s' : Sess} {rs : List BrowseResult}, browseMany sp dir ty sub mask rmask req s ns = some (s', rs) →
      DeadS lm0 s id → DeadS lm0 s' id := by
  induction ns with
  | nil => intro s s' rs e hg; simp [browseMany] at e; obtain ⟨e1, -⟩ := e; subst e1; exact hg
  | cons n ns ih =>
    intro s s' rs e hg
    unfold browseMany at e
    cases h1 : browse sp s n dir ty sub mask rmask req with
    | none => simp [h1] at e
    | some p1 =>
      obtain ⟨s1, r1⟩ := p1
      simp only [h1] at e
      cases h2 : browseMany sp dir ty sub mask rmask req s1 ns with
      | none => simp [h2] at e
      | some p2 =>
        obtain ⟨s2, rs2⟩ := p2
        simp only [h2, Option.some.injEq, Prod.mk.injEq] at e
        obtain ⟨e1, -⟩ := e; subst e1
        exact ih h2 (browse_deadS h1 hg)

/-- `Dead` is stable under every operation -/
theorem step_dead (st : St) (op : Op) (id : Nat) (hd : Dead st id) : Dead (step st op).1 id := by
  have hle := step_lastMod_le st op
  have mono : ∀ {lm lm' : Nat} {s : Sess}, DeadS lm s id → lm ≤ lm' → DeadS lm' s id :=
    fun h hl => ⟨h.1, fun c hc e => Nat.lt_of_lt_of_le (h.2 c hc e) hl⟩
  unfold Dead at *
  cases op with
  | mutate m => exact mono (by simpa [step, stepWith] using hd) hle
  | browse n dir ty sub mask rmask req =>
    simp only [step, stepWith, browse]
    cases hb : browseDescs st.sp n dir ty sub mask rmask with
    | none => simpa using hd
    | some ds =>
      simp only
      cases ht : toResult st.sp.lastMod st.se ds 0 (clampMax req) with
      | none => simpa using hd
      | some p => obtain ⟨s', r⟩ := p; simpa using toResult_deadS ht hd
  | browsem ns dir ty sub mask rmask req limit =>
    simp only [step, stepWith]
    split
    · exact hd
    · split
      · exact hd
      · cases hb : browseMany st.sp dir ty sub mask rmask req st.se ns with
        | none => simpa using hd
        | some p => obtain ⟨s', rs⟩ := p; simpa using browseMany_deadS ns hb hd
  | next ids =>
    simp only [step, stepWith]
    split
    · exact hd
    · have hg : Gone { st.se with cps := removeExpired st.sp.lastMod st.se.cps } id := by
        refine ⟨hd.1, ?_⟩
        intro c hc hid
        have hc' := List.mem_filter.mp hc
        have := hd.2 c hc'.1 hid
        have h2 : st.sp.lastMod ≤ c.lm := by simpa using hc'.2
        omega
      cases hn : nextMany st.sp.lastMod { st.se with cps := removeExpired st.sp.lastMod st.se.cps } ids with
      | none => simpa using hd
      | some p => obtain ⟨s', rs⟩ := p; simpa using (nextMany_gone ids hn hg).1.deadS _
  | release ids =>
    simp only [step, stepWith]
    split
    · exact hd
    · exact ⟨hd.1, fun c hc e => hd.2 c (List.mem_filter.mp hc).1 e⟩

theorem run_dead (ops : List Op) (id : Nat) : ∀ st, Dead st id → Dead (run st ops).1 id := by
  induction ops with
  | nil => intro st h; simpa [run, runWith] using h
  | cons op ops ih => intro st h; exact ih _ (step_dead st op id h)

/-- a dead continuation point is answered with BadContinuationPointInvalid, wherever it occurs in
the BrowseNext request -/
theorem dead_next_invalid (st : St) (id : Nat) (hd : Dead st id) (ids : List Nat) (rs : List BrowseResult)
    (e : (step st (.next ids)).2 = .nexts rs) : ∀ p ∈ ids.zip rs, p.1 = id → p.2 = invalidResult := by
  simp only [step, stepWith] at e
  split at e
  · simp at e
  · have hg : Gone { st.se with cps := removeExpired st.sp.lastMod st.se.cps } id := by
      refine ⟨hd.1, ?_⟩
      intro c hc hid
      have hc' := List.mem_filter.mp hc
      have := hd.2 c hc'.1 hid
      have h2 : st.sp.lastMod ≤ c.lm := by simpa using hc'.2
      omega
    cases hn : nextMany st.sp.lastMod { st.se with cps := removeExpired st.sp.lastMod st.se.cps } ids with
    | none => simp [hn] at e
    | some p =>
      obtain ⟨s', rs'⟩ := p
      simp only [hn, Res.nexts.injEq] at e
      subst e
      exact (nextMany_gone ids hn hg).2

/-- BrowseNext over a non-empty list always answers every entry (no fault, no panic) -/
theorem next_total (st : St) (h : Inv st) (ids : List Nat) (hne : ids ≠ []) :
    ∃ rs, (step st (.next ids)).2 = .nexts rs ∧ rs.length = ids.length := by
  simp only [step, stepWith]
  rw [if_neg (by simpa using hne)]
  have h0 : SInv st.sp.lastMod { st.se with cps := removeExpired st.sp.lastMod st.se.cps } :=
    h.sublist (List.filter_sublist)
  obtain ⟨s', rs, e, -, -, hl⟩ := nextMany_inv ids h0
  exact ⟨rs, by simp [e], hl⟩

/-- using an issued continuation point kills it -/
theorem used_dead (st : St) (h : Inv st) (id : Nat) (hlt : id < st.se.nextId) (ids : List Nat)
    (hm : id ∈ ids) : Dead (step st (.next ids)).1 id := by
  simp only [step, stepWith]
  rw [if_neg (by intro he; simp at he; subst he; simp at hm)]
  have h0 : SInv st.sp.lastMod { st.se with cps := removeExpired st.sp.lastMod st.se.cps } :=
    h.sublist (List.filter_sublist)
  obtain ⟨s', rs, e, -, -, -⟩ := nextMany_inv ids h0
  simp only [e]
  exact (nextMany_uses ids h0 hlt hm e).deadS _

/-- releasing an issued continuation point kills it -/
theorem released_dead (st : St) (id : Nat) (hlt : id < st.se.nextId) (ids : List Nat)
    (hm : id ∈ ids) : Dead (step st (.release ids)).1 id := by
  simp only [step, stepWith]
  rw [if_neg (by intro he; simp at he; subst he; simp at hm)]
  refine ⟨hlt, ?_⟩
  intro c hc hid
  have := (List.mem_filter.mp hc).2
  simp [hid, hm] at this

/-- a change of the address space kills every continuation point issued before it -/
theorem changed_dead (st : St) (h : Inv st) (id : Nat) (hlt : id < st.se.nextId) (op : Op)
    (hc : changes st op = true) : Dead (step st op).1 id := by
  have hb := change_bumps st op hc
  have hs := mutation_keeps_session st op hc
  unfold Dead DeadS
  rw [hs]
  exact ⟨hlt, fun c hcm _ => Nat.lt_of_le_of_lt (h.ok c hcm).2.2.1 hb⟩

/-- **A continuation point can be used once**: after a BrowseNext that named the issued point
`id`, whatever happens next (`ops`), every later BrowseNext answers `id` with
BadContinuationPointInvalid. -/
theorem cp_single_use (st : St) (h : Inv st) (id : Nat) (hlt : id < st.se.nextId) (ids : List Nat)
    (hm : id ∈ ids) (ops : List Op) (ids' : List Nat) (rs : List BrowseResult)
    (e : (step (run (step st (.next ids)).1 ops).1 (.next ids')).2 = .nexts rs) :
    ∀ p ∈ ids'.zip rs, p.1 = id → p.2 = invalidResult :=
  dead_next_invalid _ id (run_dead ops id _ (used_dead st h id hlt ids hm)) ids' rs e

/-- **A continuation point is invalid after release**, for ever. -/
theorem cp_released_invalid (st : St) (id : Nat) (hlt : id < st.se.nextId) (ids : List Nat)
    (hm : id ∈ ids) (ops : List Op) (ids' : List Nat) (rs : List BrowseResult)
    (e : (step (run (step st (.release ids)).1 ops).1 (.next ids')).2 = .nexts rs) :
    ∀ p ∈ ids'.zip rs, p.1 = id → p.2 = invalidResult :=
  dead_next_invalid _ id (run_dead ops id _ (released_dead st id hlt ids hm)) ids' rs e

/-- **A continuation point is invalid after the address space changes** (node inserted, reference
inserted, reference deleted, node deleted), for ever. -/
theorem cp_invalid_after_change (st : St) (h : Inv st) (id : Nat) (hlt : id < st.se.nextId) (op : Op)
    (hc : changes st op = true) (ops : List Op) (ids' : List Nat) (rs : List BrowseResult)
    (e : (step (run (step st op).1 ops).1 (.next ids')).2 = .nexts rs) :
    ∀ p ∈ ids'.zip rs, p.1 = id → p.2 = invalidResult :=
  dead_next_invalid _ id (run_dead ops id _ (changed_dead st h id hlt op hc)) ids' rs e

/-! ### paging returns the full result exactly once -/

/-- with pairwise distinct ids, finding a stored point returns exactly that point -/
theorem findCP_mem {cps : List CP} {c : CP} (hp : cps.Pairwise (fun a b => a.id ≠ b.id)) (hc : c ∈ cps) :
    (findCP cps c.id).1 = some c := by
  induction cps with
  | nil => simp at hc
  | cons x rest ih =>
    have hp' := List.pairwise_cons.mp hp
    unfold findCP
    split
    · rename_i hx
      rcases List.mem_cons.mp hc with hc | hc
      · subst hc; rfl
      · exact absurd hx (hp'.1 c hc)
    · rename_i hx
      rcases List.mem_cons.mp hc with hc | hc
      · subst hc; exact absurd rfl hx
      · exact ih hp'.2 hc

theorem nextOne_eq {lm : Nat} {s : Sess} {id : Nat} {c : CP} (h : (findCP s.cps id).1 = some c) :
    nextOne lm s id = toResult lm { s with cps := (findCP s.cps id).2 } c.descs c.start c.maxRefs := by
  unfold nextOne
  split
  · rename_i heq; rw [heq] at h; simp at h
  · rename_i c' rest heq
    rw [heq] at h
    simp only [Option.some.injEq] at h
    subst h; rw [heq]

/-- the session after a BrowseNext on the live point `c`, and the page it returns -/
def afterNext (st : St) (c : CP) : St × Res :=
  let rest := (findCP (removeExpired st.sp.lastMod st.se.cps) c.id).2
  if c.maxRefs < c.descs.length - c.start then
    ({ st with se := ⟨addCP rest ⟨st.se.nextId, st.sp.lastMod, c.maxRefs, c.start + c.maxRefs, c.descs⟩,
                       st.se.nextId + 1⟩ },
      .nexts [⟨.good, some st.se.nextId, some ((c.descs.drop c.start).take c.maxRefs)⟩])
  else ({ st with se := ⟨rest, st.se.nextId⟩ }, .nexts [⟨.good, none, some (c.descs.drop c.start)⟩])

/-- BrowseNext on a stored, still valid continuation point returns the next slice of the stored
result, and a new point exactly when something remains. -/
theorem next_live (st : St) (h : Inv st) (c : CP) (hc : c ∈ st.se.cps) (hv : st.sp.lastMod ≤ c.lm) :
    step st (.next [c.id]) = afterNext st c := by
  have hok := h.ok c hc
  have hc' : c ∈ removeExpired st.sp.lastMod st.se.cps := List.mem_filter.mpr ⟨hc, by simpa using hv⟩
  have hp' : (removeExpired st.sp.lastMod st.se.cps).Pairwise (fun a b => a.id ≠ b.id) :=
    h.nodup.sublist List.filter_sublist
  have hf := findCP_mem hp' hc'
  have hne : nextOne st.sp.lastMod { st.se with cps := removeExpired st.sp.lastMod st.se.cps } c.id
      = toResult st.sp.lastMod { st.se with cps := (findCP (removeExpired st.sp.lastMod st.se.cps) c.id).2 }
          c.descs c.start c.maxRefs := nextOne_eq (s := { st.se with cps := removeExpired st.sp.lastMod st.se.cps }) hf
  unfold CPok at hok
  simp only [step, stepWith, afterNext, nextMany, hne, toResult, List.isEmpty_cons, Bool.false_eq_true, if_false]
  rw [if_neg (by omega)]
  by_cases hk : c.maxRefs < c.descs.length - c.start
  · rw [if_pos ⟨hok.2.2.2, hk⟩, if_pos hk]
  · rw [if_neg (fun hh => hk hh.2), if_neg hk]

/-- the pages a client collects by calling BrowseNext with the latest continuation point until the
server returns none -/
def walk : Nat → St → Nat → List (List Desc)
  | 0, _, _ => []
  | f + 1, st, id =>
    match step st (.next [id]) with
    | (st', .nexts [⟨.good, some id', some p⟩]) => p :: walk f st' id'
    | (_, .nexts [⟨.good, none, some p⟩]) => [p]
    | _ => []

theorem walk_concat (f : Nat) : ∀ (st : St) (c : CP), Inv st → c ∈ st.se.cps → st.sp.lastMod ≤ c.lm →
    c.descs.length - c.start ≤ f →
    (walk f st c.id).flatten = c.descs.drop c.start ∧
      ∀ p ∈ walk f st c.id, p.length ≤ c.maxRefs ∧ p ≠ [] := by
  induction f with
  | zero =>
    intro st c h hc _ hf
    have := (h.ok c hc).1; omega
  | succ f ih =>
    intro st c h hc hv hf
    have hok := h.ok c hc
    unfold CPok at hok
    have hstep := next_live st h c hc hv
    have hinv := (step_inv st (.next [c.id]) h).1
    unfold walk
    rw [hstep] at hinv ⊢
    unfold afterNext at hinv ⊢
    by_cases hk : c.maxRefs < c.descs.length - c.start
    · rw [if_pos hk] at hinv ⊢
      simp only
      -- the new continuation point
      have hc2 := addCP_self (findCP (removeExpired st.sp.lastMod st.se.cps) c.id).2
        ⟨st.se.nextId, st.sp.lastMod, c.maxRefs, c.start + c.maxRefs, c.descs⟩
      have := ih _ _ hinv hc2 (Nat.le_refl _) (by simp only; omega)
      simp only at this
      refine ⟨?_, ?_⟩
      · rw [List.flatten_cons, this.1, ← List.drop_drop, List.take_append_drop]
      · intro p hp
        rcases List.mem_cons.mp hp with hp | hp
        · subst hp
          refine ⟨by simp; omega, ?_⟩
          intro he
          have := congrArg List.length he
          simp at this; omega
        · exact this.2 p hp
    · rw [if_neg hk] at hinv ⊢
      simp only [List.flatten_cons, List.flatten_nil, List.append_nil, List.mem_singleton, true_and]
      intro p hp; subst hp
      refine ⟨by simp; omega, ?_⟩
      intro he
      have := congrArg List.length he
      simp at this; omega

/-- **Browse followed by BrowseNext until no continuation point remains returns exactly the
references of the unpaged result `ds`, in the same order** (so nothing is lost, repeated or
reordered); every page respects the (clamped) page size and no page is empty. -/
theorem pages_concat (st : St) (h : Inv st) (n dir ty : Nat) (sub : Bool) (mask rmask req : Nat)
    (ds : List Desc) (hd : browseDescs st.sp n dir ty sub mask rmask = some ds) :
    ∃ st' p0 cp, step st (.browse n dir ty sub mask rmask req) = (st', .browse ⟨.good, cp, some p0⟩) ∧
      match cp with
      | none => p0 = ds
      | some id => p0 ++ (walk ds.length st' id).flatten = ds ∧
          ∀ p ∈ p0 :: walk ds.length st' id, p.length ≤ clampMax req ∧ p ≠ [] := by
  have hinv := (step_inv st (.browse n dir ty sub mask rmask req) h).1
  have hk0 : 0 < clampMax req := by unfold clampMax; split <;> (try split) <;> omega
  simp only [step, stepWith, browse, hd, toResult] at hinv ⊢
  rw [if_neg (by omega)] at hinv ⊢
  by_cases hk : clampMax req < ds.length - 0
  · rw [if_pos ⟨hk0, hk⟩] at hinv ⊢
    refine ⟨_, _, _, rfl, ?_⟩
    simp only
    have hc2 := addCP_self st.se.cps ⟨st.se.nextId, st.sp.lastMod, clampMax req, 0 + clampMax req, ds⟩
    have := walk_concat ds.length _ _ hinv hc2 (Nat.le_refl _) (by simp only; omega)
    simp only at this
    refine ⟨?_, ?_⟩
    · rw [this.1]; simp
    · intro p hp
      rcases List.mem_cons.mp hp with hp | hp
      · subst hp
        refine ⟨by simp; omega, ?_⟩
        intro he
        have := congrArg List.length he
        rw [List.length_take, List.length_drop] at this
        simp only [List.length_nil] at this; omega
      · exact this.2 p hp
  · rw [if_neg (fun hh => hk hh.2)]
    exact ⟨_, _, _, rfl, by simp⟩

/-! ### the recorded defect of the pinned source (before the `fix:` commit) -/

/-- witness: browse node 1 with page size 1, delete one of the remaining references, continue -/
def witnessOps : List Op :=
  [.mutate (.node 1 1), .mutate (.node 2 1), .mutate (.node 3 1), .mutate (.ref 1 2 35), .mutate (.ref 1 3 35),
   .browse 1 0 0 false 0 63 1, .mutate (.delref 1 3 35), .next [1]]

/-- On the pinned source (`delete_reference` does not call `update_last_modified`) the
continuation point survives the deletion and still returns the deleted reference. -/
theorem C30_counterexample_delete_keeps_cp :
    (runWith false init witnessOps).2.getLast? =
      some (.nexts [⟨.good, none, some [⟨3, 35, true, 1⟩]⟩]) := by decide

/-- the same history on the repaired source: the point is invalid -/
theorem witness_fixed : (run init witnessOps).2.getLast? = some (.nexts [invalidResult]) := by decide

/-- same for `AddressSpace::delete` -/
def witnessOps2 : List Op :=
  [.mutate (.node 1 1), .mutate (.node 2 1), .mutate (.node 3 1), .mutate (.ref 1 2 35), .mutate (.ref 1 3 35),
   .browse 1 0 0 false 0 63 1, .mutate (.delnode 3 true), .next [1]]

theorem C30_counterexample_delete_node_keeps_cp :
    (runWith false init witnessOps2).2.getLast? =
      some (.nexts [⟨.good, none, some [⟨3, 35, true, 1⟩]⟩]) := by decide

theorem witness2_fixed : (run init witnessOps2).2.getLast? = some (.nexts [invalidResult]) := by decide

/-! ### every structural mutator of the real `AddressSpace` advances `last_modified` (regenerated) -/

/-- the conditional paths to `update_last_modified()` that were reviewed against the model: in each,
the skipped case changes nothing (`insert` of an existing node id: `insertNode` / `insertNodeP` /
`addFolder` return the space unchanged; `delete_visiting` returns early only for a node it has
already visited in the same call, never at the entry from `delete`, which passes a fresh set). -/
def acceptedGuards : List (String × String) := [
  ("insert", "else [if self.node_exists(&node_id)]"),
  ("add_folder_with_id", "in insert: else [if self.node_exists(&node_id)]"),
  ("add_folder", "in add_folder_with_id: in insert: else [if self.node_exists(&node_id)]"),
  ("delete", "in delete_visiting: after exit in [if !visited.insert(node_id.clone())]")]

/-- Regenerated from `address_space.rs` at every check: each `pub fn … (&mut self …)` of
`AddressSpace` that changes `node_map` or `references` calls `update_last_modified()` (itself or
through a function that does) as an UNCONDITIONAL top-level statement of its body, or under exactly
one of the reviewed guards above.  A bump moved into a branch, behind a new early return or into a
loop / closure produces a different guard text and fails this theorem. -/
theorem all_mutators_bump :
    ∀ m ∈ Generated.mutators, m.2.1 = "always" ∨ (m.2.1 = "cond" ∧ (m.1, m.2.2) ∈ acceptedGuards) := by decide

/-- the entry points the model contains are among the regenerated mutators -/
theorem modelled_mutators_listed :
    ["insert", "insert_reference", "insert_references", "set_node_type", "add_folder_with_id", "add_variables",
     "delete", "delete_reference"].all
      (fun n => Generated.mutators.any (·.1 == n)) = true := by decide

/-! ### non-vacuity -/

/-- a reachable state with a live continuation point (hypotheses of `cp_single_use`,
`cp_invalid_after_change`, `next_live`, `walk_concat` are satisfiable) -/
example : let st := (run init (witnessOps.take 6)).1
    Inv st ∧ (1 < st.se.nextId) ∧ (∃ c ∈ st.se.cps, c.id = 1 ∧ st.sp.lastMod ≤ c.lm) ∧
      changes st (.mutate (.delref 1 3 35)) = true :=
  ⟨(run_inv _ init init_inv).1, by decide, by decide, by decide⟩

example : browseDescs (run init (witnessOps.take 5)).1.sp 1 0 0 false 0 63 =
    some [⟨2, 35, true, 1⟩, ⟨3, 35, true, 1⟩] := by decide

end OpcuaVerif.C30
