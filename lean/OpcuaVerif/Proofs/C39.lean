import OpcuaVerif.Model.C39
import OpcuaVerif.Proofs.C06
set_option maxRecDepth 8000

/-!
C39 — Event filters evaluate safely and with the specified operator semantics.

Property theorems (model: `OpcuaVerif.Model.C39`, the code after the seven `fix:` commits):

* safety      : `eval_total` / `evalElem_no_panic` — no clause (well formed or not, accepted by
                `validate_where_clause` or not — it accepts everything) makes evaluation panic
* termination : `eval_terminates` / `evalElem_fuel` — the recursion is bounded by the number of elements
                (the model's fuel `length + 1` is never exhausted)
* logic       : `and_truth_table`, `or_truth_table`, `not_truth_table` (Part 4 tables 120/121),
                `logic_non_boolean_is_null`
* comparison  : `compare_int_correct` (two integers of any two integer types compare as numbers,
                or the comparison is an error when the implicit conversion fails),
                `comparison_operators`, `between_spec`, `inList_spec`
* LIKE        : `like_correct_partial` (agreement with the reference LIKE on patterns of ordinary
                characters and `%`); `C39_counterexample_like_underscore`, `…_like_newline`
                (recorded findings)
* fixed defects on the model of the old code: `C39_counterexample_panics`,
                `C39_counterexample_nan_and_strings`
-/
namespace OpcuaVerif.C39
open OpcuaVerif.C06 (NT Val Fl inRange)

/-! ### Evaluation never panics -/

theorem bind_no_panic (r : Res) (f : V → Res) (hr : r ≠ .panic) (hf : ∀ v, f v ≠ .panic) :
    r.bind f ≠ .panic := by
  cases r <;> simp_all [Res.bind]

theorem compareConverted_some (v1 v2 : V) : compareConverted false v1 v2 ≠ none := by
  unfold compareConverted
  split <;> (try split) <;> (try split) <;> (try split) <;> simp_all

theorem compareValues_some (v1 v2 : V) : compareValues false v1 v2 ≠ none := by
  unfold compareValues
  exact compareConverted_some _ _

theorem bitwiseConverted_some (isAnd : Bool) (v1 v2 : V) : bitwiseConverted false isAnd v1 v2 ≠ none := by
  unfold bitwiseConverted
  split <;> (try split) <;> simp

theorem compareOperands_no_panic (vo : Operand → Res) (hvo : ∀ o, vo o ≠ .panic) (a b : Operand) :
    compareOperands false vo a b ≠ .inl .panic := by
  unfold compareOperands
  have ha := hvo a
  have hb := hvo b
  cases h1 : vo a with
  | panic => exact absurd h1 ha
  | err c => simp
  | ok v1 =>
    cases h2 : vo b with
    | panic => exact absurd h2 hb
    | err c => simp
    | ok v2 =>
      have := compareValues_some v1 v2
      simp only []
      split <;> simp_all

theorem cmpRes_no_panic (r : Res ⊕ Cmp) (f : Cmp → Bool) (hr : r ≠ .inl .panic) :
    cmpRes r f ≠ .panic := by
  unfold cmpRes
  cases r <;> simp_all

theorem inListGo_no_panic (vo : Operand → Res) (hvo : ∀ o, vo o ≠ .panic) (o0 : Operand)
    (os : List Operand) : inListGo false vo o0 os ≠ .panic := by
  induction os with
  | nil => simp [inListGo]
  | cons o rest ih =>
    unfold inListGo
    have := compareOperands_no_panic vo hvo o0 o
    split <;> simp_all

theorem applyOp_no_panic (vo : Operand → Res) (hvo : ∀ o, vo o ≠ .panic) (op : FOp)
    (os : List Operand) (hlen : minOperands op ≤ os.length) : applyOp false vo op os ≠ .panic := by
  have hva : ∀ t o, valueAs vo t o ≠ .panic :=
    fun t o => bind_no_panic _ _ (hvo o) (by intro v; simp)
  have hc := compareOperands_no_panic vo hvo
  rcases os with _ | ⟨a, _ | ⟨b, _ | ⟨c, rest⟩⟩⟩ <;> cases op <;>
    (try (simp [minOperands] at hlen; done)) <;>
    simp only [applyOp, List.getElem?_cons_zero, List.getElem?_cons_succ, List.drop]
  all_goals first
    | exact cmpRes_no_panic _ _ (hc _ _)
    | exact inListGo_no_panic vo hvo _ _
    | (simp; done)
    | (apply bind_no_panic _ _ (hvo _); intro v; simp; done)
    | (apply bind_no_panic _ _ (hva _ _); intro v; split <;> simp; done)
    | (have := hc a b
       split
       · rename_i e he; rw [he] at this; simpa using this
       · split
         · exact cmpRes_no_panic _ _ (hc _ _)
         · simp)
    | (apply bind_no_panic _ _ (hva _ _); intro v1
       apply bind_no_panic _ _ (hva _ _); intro v2
       split <;> (try split) <;> simp; done)
    | (apply bind_no_panic _ _ (hvo _); intro v1
       apply bind_no_panic _ _ (hvo _); intro v2
       split <;> (try split) <;> simp; done)
    | (apply bind_no_panic _ _ (hvo _); intro v1
       apply bind_no_panic _ _ (hvo _); intro v2
       split
       · simp
       · rename_i h
         exact absurd h (bitwiseConverted_some _ _ _))



theorem valueOf_no_panic (ev : List Nat → Element → Res) (hev : ∀ u e, ev u e ≠ .panic)
    (elems : List Element) (used : List Nat) (o : Operand) :
    valueOfWith false ev elems used o ≠ .panic := by
  cases o <;> simp [valueOfWith]
  · split
    · simp
    · split <;> simp [hev]

/-- **No clause makes the evaluator panic** (model of the code after the fixes): for every fuel,
every element list — malformed or not —, every set of used elements and every element. -/
theorem evalElem_no_panic (fuel : Nat) (elems : List Element) (used : List Nat) (e : Element) :
    evalElem false fuel elems used e ≠ .panic := by
  induction fuel generalizing used e with
  | zero => simp [evalElem]
  | succ n ih =>
    unfold evalElem
    split
    · simp
    · split
      · simp
      · split
        · simp
        · split
          · simp
          · rename_i os _ _ hlen
            apply applyOp_no_panic
            · intro o
              exact valueOf_no_panic _ (fun u e => ih u e) elems used o
            · simp at hlen
              omega

/-- `evaluate_where_clause` never panics, whatever `validate_where_clause` let through (it lets
everything through: it only reports per-element status codes). -/
theorem eval_total (elems : List Element) : evalClause false elems ≠ .panic := by
  unfold evalClause
  split
  · simp
  · exact evalElem_no_panic _ _ _ _


/-! ### Evaluation terminates within the fuel `number of elements + 1` -/

theorem bind_fuel (r : Res) (f : V → Res) (hr : r ≠ .err .outOfFuel) (hf : ∀ v, f v ≠ .err .outOfFuel) :
    r.bind f ≠ .err .outOfFuel := by
  cases r <;> simp_all [Res.bind]

theorem compareOperands_fuel (vo : Operand → Res) (hvo : ∀ o, vo o ≠ .err .outOfFuel) (a b : Operand) :
    compareOperands false vo a b ≠ .inl (.err .outOfFuel) := by
  unfold compareOperands
  have ha := hvo a
  have hb := hvo b
  cases h1 : vo a with
  | panic => simp
  | err c => simp; intro h; subst h; exact ha h1
  | ok v1 =>
    cases h2 : vo b with
    | panic => simp
    | err c => simp; intro h; subst h; exact hb h2
    | ok v2 =>
      simp only []
      split <;> simp

theorem cmpRes_fuel (r : Res ⊕ Cmp) (f : Cmp → Bool) (hr : r ≠ .inl (.err .outOfFuel)) :
    cmpRes r f ≠ .err .outOfFuel := by
  unfold cmpRes
  cases r <;> simp_all

theorem inListGo_fuel (vo : Operand → Res) (o0 : Operand) (os : List Operand) :
    inListGo false vo o0 os ≠ .err .outOfFuel := by
  induction os with
  | nil => simp [inListGo]
  | cons o rest ih =>
    unfold inListGo
    split <;> simp_all

theorem applyOp_fuel (vo : Operand → Res) (hvo : ∀ o, vo o ≠ .err .outOfFuel) (op : FOp)
    (os : List Operand) (hlen : minOperands op ≤ os.length) :
    applyOp false vo op os ≠ .err .outOfFuel := by
  have hva : ∀ t o, valueAs vo t o ≠ .err .outOfFuel :=
    fun t o => bind_fuel _ _ (hvo o) (by intro v; simp)
  have hc := compareOperands_fuel vo hvo
  rcases os with _ | ⟨a, _ | ⟨b, _ | ⟨c, rest⟩⟩⟩ <;> cases op <;>
    (try (simp [minOperands] at hlen; done)) <;>
    simp only [applyOp, List.getElem?_cons_zero, List.getElem?_cons_succ, List.drop]
  all_goals first
    | exact cmpRes_fuel _ _ (hc _ _)
    | exact inListGo_fuel vo _ _
    | (simp; done)
    | (apply bind_fuel _ _ (hvo _); intro v; simp; done)
    | (apply bind_fuel _ _ (hva _ _); intro v; split <;> simp; done)
    | (have := hc a b
       split
       · rename_i e he; rw [he] at this; simpa using this
       · split
         · exact cmpRes_fuel _ _ (hc _ _)
         · simp)
    | (apply bind_fuel _ _ (hva _ _); intro v1
       apply bind_fuel _ _ (hva _ _); intro v2
       split <;> (try split) <;> simp; done)
    | (apply bind_fuel _ _ (hvo _); intro v1
       apply bind_fuel _ _ (hvo _); intro v2
       split <;> (try split) <;> simp; done)
    | (apply bind_fuel _ _ (hvo _); intro v1
       apply bind_fuel _ _ (hvo _); intro v2
       split <;> simp)

/-- number of element indices below `n` that are not yet marked as used -/
def unused (n : Nat) (used : List Nat) : Nat := (List.range n).countP (fun j => !used.contains j)

theorem unused_cons (n i : Nat) (used : List Nat) (hi : i < n) (hu : used.contains i = false) :
    unused n (i :: used) + 1 = unused n used := by
  induction n with
  | zero => omega
  | succ m ih =>
    unfold unused at *
    rw [List.range_succ, List.countP_append, List.countP_append]
    by_cases him : i = m
    · subst him
      have e : (List.range i).countP (fun j => !(i :: used).contains j) =
          (List.range i).countP (fun j => !used.contains j) := by
        apply List.countP_congr
        intro j hj
        have : j ≠ i := by have := List.mem_range.mp hj; omega
        simp [List.contains_cons, this]
      rw [e]
      have hu' : i ∉ used := by simpa using hu
      simp [hu']
    · have := ih (by omega)
      have e : ([m].countP fun j => !(i :: used).contains j) = [m].countP fun j => !used.contains j := by
        have : m ≠ i := fun h => him h.symm
        simp [List.contains_cons, this]
      rw [e]
      omega

theorem evalElem_fuel (fuel : Nat) (elems : List Element) (used : List Nat) (e : Element)
    (hf : unused elems.length used + 1 ≤ fuel) :
    evalElem false fuel elems used e ≠ .err .outOfFuel := by
  induction fuel generalizing used e with
  | zero => omega
  | succ n ih =>
    unfold evalElem
    split
    · simp
    · split
      · simp
      · split
        · simp
        · split
          · simp
          · rename_i os _ _ hlen
            apply applyOp_fuel
            · intro o
              cases o <;> simp [valueOfWith]
              rename_i i
              split
              · simp
              · rename_i hc
                split
                · rename_i e' he'
                  apply ih
                  have hi : i < elems.length := by
                    have := List.getElem?_eq_some_iff.mp he'
                    exact this.1
                  have := unused_cons elems.length i used hi (by simpa using hc)
                  omega
                · simp
            · simp at hlen
              omega

/-- **Evaluation terminates**: with the fuel `evaluate_where_clause` is modelled with (one unit per
nesting level; a level marks one more element as used, so there are at most `length` levels) the
model never runs out of fuel — the recursion of the real code is bounded by the number of elements. -/
theorem eval_terminates (elems : List Element) : evalClause false elems ≠ .err .outOfFuel := by
  unfold evalClause
  split
  · simp
  · rename_i e rest
    apply evalElem_fuel
    have : unused (e :: rest).length [0] ≤ (e :: rest).length := by
      unfold unused
      have := List.countP_le_length (p := fun j => !([0] : List Nat).contains j) (l := List.range (e :: rest).length)
      simpa using this
    -- index 0 is used, so strictly fewer than `length` remain; `length + 1` units are plenty
    omega


/-! ### Three-valued logic -/

/-- three-valued logic of Part 4 (tables 120, 121 and NOT): `none` = NULL -/
def tri : Option Bool → V
  | some b => boolV b
  | none => .empty

def and3 : Option Bool → Option Bool → Option Bool
  | some false, _ | _, some false => some false
  | some true, some true => some true
  | _, _ => none

def or3 : Option Bool → Option Bool → Option Bool
  | some true, _ | _, some true => some true
  | some false, some false => some false
  | _, _ => none

def not3 : Option Bool → Option Bool
  | some b => some (!b)
  | none => none

/-- operands that evaluate to given values, whatever the rest of the filter is -/
def litVo : Operand → Res
  | .lit v => .ok v
  | _ => .err .operandInvalid

theorem and_truth_table (a b : Option Bool) :
    applyOp false litVo .and [.lit (tri a), .lit (tri b)] = .ok (tri (and3 a b)) := by
  rcases a with _ | _ | _ <;> rcases b with _ | _ | _ <;> decide

theorem or_truth_table (a b : Option Bool) :
    applyOp false litVo .or [.lit (tri a), .lit (tri b)] = .ok (tri (or3 a b)) := by
  rcases a with _ | _ | _ <;> rcases b with _ | _ | _ <;> decide

theorem not_truth_table (a : Option Bool) :
    applyOp false litVo .not [.lit (tri a)] = .ok (tri (not3 a)) := by
  rcases a with _ | _ | _ <;> decide

/-- an operand that is not a Boolean (a number, a string, a NodeId) counts as NULL in And/Or/Not -/
theorem logic_non_boolean_is_null (v : V) (hv : ∀ x, v ≠ .num .boolean x) (b : Option Bool) :
    applyOp false litVo .and [.lit v, .lit (tri b)] = applyOp false litVo .and [.lit .empty, .lit (tri b)] ∧
    applyOp false litVo .or [.lit v, .lit (tri b)] = applyOp false litVo .or [.lit .empty, .lit (tri b)] ∧
    applyOp false litVo .not [.lit v] = .ok .empty := by
  have hc : convertV v (.num .boolean) = .empty := by
    unfold convertV
    cases v with
    | empty => simp [V.typeId]
    | str s => simp [V.typeId]
    | nid i => simp [V.typeId]
    | num t x =>
      have ht : t ≠ .boolean := by intro h; subst h; exact hv x rfl
      have : C06.convert t .boolean x = none := by
        cases t <;> first | exact absurd rfl ht | (cases x <;> rfl)
      simp [V.typeId, ht, this]
  have he : convertV .empty (.num .boolean) = .empty := by decide
  simp [applyOp, litVo, valueAs, Res.bind, hc, he]


/-! ### The defects that were fixed -/

def i32 (x : Int) : Operand := .lit (.num .int32 (.int x))
def u64 (x : Int) : Operand := .lit (.num .uint64 (.int x))
def f64 (x : Fl) : Operand := .lit (.num .double (.flt x))
def strL (s : List Nat) : Operand := .lit (.str (some s))
def bl (b : Bool) : Operand := .lit (boolV b)
def nul : Operand := .lit .empty

/-- the five panics of the code before the fixes (all on clauses that validation lets through) -/
theorem C39_counterexample_panics :
    evalClause true [⟨.and, some [bl true]⟩] = .panic ∧
    evalClause true [⟨.not, some [.elem 7]⟩] = .panic ∧
    evalClause true [⟨.gte, some [.attr, i32 0]⟩] = .panic ∧
    evalClause true [⟨.equals, some [u64 1, i32 (-1)]⟩] = .panic ∧
    evalClause true [⟨.bitAnd, some [i32 (-1), nul]⟩] = .panic := by decide

theorem C39_fixed_panics :
    evalClause false [⟨.and, some [bl true]⟩] = .err .operandCountMismatch ∧
    evalClause false [⟨.not, some [.elem 7]⟩] = .err .operandInvalid ∧
    evalClause false [⟨.gte, some [.attr, i32 0]⟩] = .err .operandInvalid ∧
    evalClause false [⟨.equals, some [u64 1, i32 (-1)]⟩] = .ok (boolV false) ∧
    evalClause false [⟨.bitAnd, some [i32 (-1), nul]⟩] = .ok .empty := by decide

/-- before the fix NaN compared as "greater", and two equal strings were never Equal -/
theorem C39_counterexample_nan_and_strings :
    evalClause true [⟨.gt, some [f64 .nan, f64 (.fin false 1 0)]⟩] = .ok (boolV true) ∧
    evalClause true [⟨.equals, some [strL [97], strL [97]]⟩] = .ok (boolV false) ∧
    evalClause false [⟨.gt, some [f64 .nan, f64 (.fin false 1 0)]⟩] = .ok (boolV false) ∧
    evalClause false [⟨.equals, some [strL [97], strL [97]]⟩] = .ok (boolV true) := by decide

example : likeToRegex [97, 95, 99] = [94, 97, 63, 99, 36] := by decide
example : likeImpl [97, 95, 99] [97, 98, 99] = some false := by decide
example : likeImpl [97, 95, 99] [97, 99] = some true := by decide
example : likeImpl [95, 97] [99, 99, 97] = some true := by decide
example : likeImpl [37] [97, 10, 98] = some false := by decide



/-! ### Reference LIKE (Part 4): `%` any run, `_` exactly one, `[..]`/`[^..]`, `\` escapes -/

inductive LTok where
  | lit (c : Nat)
  | anyRun
  | anyOne
  | cls (neg : Bool) (ranges : List (Nat × Nat))
deriving Repr, DecidableEq

/-- list items up to the closing bracket: `\x` is the character x, `a-c` a range -/
def specClassItems : Nat → List Nat → List (Nat × Nat) → Option (List (Nat × Nat) × List Nat)
  | 0, _, _ => none
  | _ + 1, [], _ => none
  | _ + 1, 93 :: rest, acc => if acc.isEmpty then none else some (acc.reverse, rest)
  | fuel + 1, cs, acc =>
    let atom : List Nat → Option (Nat × List Nat) := fun
      | 92 :: c :: r => some (c, r)
      | [92] => none
      | c :: r => some (c, r)
      | [] => none
    match atom cs with
    | none => none
    | some (lo, rest) =>
      match rest with
      | 45 :: 93 :: _ => specClassItems fuel rest ((lo, lo) :: acc)
      | 45 :: rest2 =>
        match atom rest2 with
        | none => none
        | some (hi, rest3) => if lo > hi then none else specClassItems fuel rest3 ((lo, hi) :: acc)
      | _ => specClassItems fuel rest ((lo, lo) :: acc)

/-- `none`: the pattern is not well formed (dangling `\`, unclosed or empty list, reversed range) -/
def likeTokensGo : Nat → List Nat → Option (List LTok)
  | 0, _ => none
  | _ + 1, [] => some []
  | fuel + 1, c :: rest =>
    if c = 92 then
      match rest with
      | d :: rest2 => (likeTokensGo fuel rest2).map (.lit d :: ·)
      | [] => none
    else if c = 37 then (likeTokensGo fuel rest).map (.anyRun :: ·)
    else if c = 95 then (likeTokensGo fuel rest).map (.anyOne :: ·)
    else if c = 91 then
      let (neg, body) := match rest with
        | 94 :: r => (true, r)
        | r => (false, r)
      match specClassItems (body.length + 1) body [] with
      | none => none
      | some (rs, rest2) => (likeTokensGo fuel rest2).map (.cls neg rs :: ·)
    else (likeTokensGo fuel rest).map (.lit c :: ·)

def likeTokens (p : List Nat) : Option (List LTok) := likeTokensGo (p.length + 1) p

def specStar (k : List Nat → Bool) : List Nat → Bool
  | [] => k []
  | c :: s => k (c :: s) || specStar k s

def specMatch : List LTok → List Nat → Bool
  | [] => fun s => s.isEmpty
  | .lit c :: r => fun s =>
    match s with
    | d :: s' => d = c && specMatch r s'
    | [] => false
  | .anyOne :: r => fun s =>
    match s with
    | _ :: s' => specMatch r s'
    | [] => false
  | .cls neg rs :: r => fun s =>
    match s with
    | d :: s' => ((rs.any fun (lo, hi) => lo ≤ d && d ≤ hi) != neg) && specMatch r s'
    | [] => false
  | .anyRun :: r => specStar (specMatch r)

/-- the specified LIKE; `none` = pattern not well formed -/
def likeSpec (p s : List Nat) : Option Bool := (likeTokens p).map (specMatch · s)

/-- `_` must match exactly one character: the implementation turns it into the regex `?` -/
theorem C39_counterexample_like_underscore :
    likeSpec [97, 95, 99] [97, 98, 99] = some true ∧ likeImpl [97, 95, 99] [97, 98, 99] = some false ∧
    likeSpec [97, 95, 99] [97, 99] = some false ∧ likeImpl [97, 95, 99] [97, 99] = some true ∧
    likeSpec [95, 97] [99, 99, 97] = some false ∧ likeImpl [95, 97] [99, 99, 97] = some true := by
  decide

/-- `%` must match any run of characters: the implementation's `.*` stops at a newline -/
theorem C39_counterexample_like_newline :
    likeSpec [37] [97, 10, 98] = some true ∧ likeImpl [37] [97, 10, 98] = some false := by decide

/-- before `fix: LIKE escape handling …`: after an escaped backslash a wildcard was taken literally
(`\\%` did not match `\ab`), and an escaped regex meta character became "backslash, any character"
(`a\.b` did not match `a.b` but matched `a\xb`) -/
theorem C39_counterexample_like_escapes :
    likeSpec [92, 92, 37] [92, 97, 98] = some true ∧ likeImplOld [92, 92, 37] [92, 97, 98] = some false ∧
    likeSpec [97, 92, 46, 98] [97, 46, 98] = some true ∧ likeImplOld [97, 92, 46, 98] [97, 46, 98] = some false ∧
    likeSpec [97, 92, 46, 98] [97, 92, 99, 98] = some false ∧
    likeImplOld [97, 92, 46, 98] [97, 92, 99, 98] = some true ∧
    -- an escaped letter reached the regex as the escape sequence `\a` (the bell character)
    likeSpec [99, 92, 97] [99, 97] = some true ∧ likeToRegexOld [99, 92, 97] = [94, 99, 92, 97, 36] := by
  decide

theorem C39_fixed_like_escapes :
    likeImpl [92, 92, 37] [92, 97, 98] = some true ∧ likeImpl [92, 92, 37] [92, 37] = some true ∧
    likeImpl [97, 92, 46, 98] [97, 46, 98] = some true ∧
    likeImpl [97, 92, 46, 98] [97, 92, 99, 98] = some false ∧
    likeImpl [99, 92, 97] [99, 97] = some true := by decide

/-! ### Agreement on the patterns made of ordinary characters and `%` -/

/-- a character that none of `like_to_regex`, the regex syntax and LIKE treats specially -/
def plain (c : Nat) : Bool :=
  !(isRegexMeta c || c = 94 || c = 91 || c = 93 || c = 37 || c = 95 || c = 92 || c = 124 || c = 123 ||
    c = 125)

def PlainPct (p : List Nat) : Prop := ∀ c ∈ p, plain c = true ∨ c = 37

def trC (c : Nat) : List Nat := if c = 37 then [46, 42] else [c]
def itemC (c : Nat) : Item := if c = 37 then ⟨.any, .star⟩ else ⟨.lit c, .one⟩
def tokC (c : Nat) : LTok := if c = 37 then .anyRun else .lit c

theorem plain_facts (c : Nat) (h : plain c = true) :
    c ≠ 36 ∧ c ≠ 40 ∧ c ≠ 41 ∧ c ≠ 46 ∧ c ≠ 43 ∧ c ≠ 42 ∧ c ≠ 63 ∧ c ≠ 94 ∧ c ≠ 91 ∧ c ≠ 93 ∧ c ≠ 37 ∧
    c ≠ 95 ∧ c ≠ 92 ∧ c ≠ 124 ∧ c ≠ 123 ∧ c ≠ 125 := by
  simp [plain, isRegexMeta] at h
  omega

theorem likeToRegexGo_plain (p : List Nat) (hp : PlainPct p) (out : List Nat) :
    likeToRegexGo p false false out = (p.flatMap trC).reverse ++ out := by
  induction p generalizing out with
  | nil => simp [likeToRegexGo]
  | cons c rest ih =>
    have hrest : PlainPct rest := fun d hd => hp d (List.mem_cons_of_mem _ hd)
    rcases hp c (List.mem_cons_self ..) with h | h
    · obtain ⟨h1, h2, h3, h4, h5, h6, h7, h8, h9, h10, h11, h12, h13, -⟩ := plain_facts c h
      have hm : isRegexMeta c = false := by simp [isRegexMeta, *]
      have hn : (!false && c == 92) = false := by simp [h13]
      unfold likeToRegexGo
      simp only [hn, hm, h8, h9, h11, h12, Bool.false_eq_true, if_false, or_self]
      rw [ih hrest]
      simp [trC, h11]
    · subst h
      have hm : isRegexMeta 37 = false := by decide
      have hn : (!false && (37 : Nat) == 92) = false := by decide
      unfold likeToRegexGo
      simp only [hn, hm, Bool.false_eq_true, if_false, false_or]
      simp only [show ((37 : Nat) = 94) = False by decide, show ((37 : Nat) = 91) = False by decide,
        if_false, if_true]
      have := ih hrest (42 :: 46 :: out)
      simp [trC, this]

theorem endsEscaped_plain (p : List Nat) (hp : PlainPct p) : endsEscaped p false = false := by
  induction p with
  | nil => rfl
  | cons c rest ih =>
    have hrest : PlainPct rest := fun d hd => hp d (List.mem_cons_of_mem _ hd)
    have hc : c ≠ 92 := by
      rcases hp c (List.mem_cons_self ..) with h | h
      · exact (plain_facts c h).2.2.2.2.2.2.2.2.2.2.2.2.1
      · subst h; decide
    have hb : (c == 92) = false := by simp [hc]
    simp [endsEscaped, hb, ih hrest]

theorem likeToRegex_plain (p : List Nat) (hp : PlainPct p) :
    likeToRegex p = 94 :: (p.flatMap trC ++ [36]) := by
  unfold likeToRegex
  simp only [endsEscaped_plain p hp, Bool.false_eq_true, if_false]
  rw [likeToRegexGo_plain p hp]
  simp

theorem parseSeq_plain (p : List Nat) (hp : PlainPct p) (fuel : Nat) (acc : List Item)
    (hf : (p.flatMap trC).length + 1 ≤ fuel) :
    parseSeq fuel (p.flatMap trC ++ [36]) true acc = .ok true (acc.reverse ++ p.map itemC) := by
  induction p generalizing fuel acc with
  | nil =>
    cases fuel with
    | zero => simp at hf
    | succ n => simp [parseSeq]
  | cons c rest ih =>
    have hrest : PlainPct rest := fun d hd => hp d (List.mem_cons_of_mem _ hd)
    rcases hp c (List.mem_cons_self ..) with h | h
    · obtain ⟨h1, h2, h3, h4, h5, h6, h7, h8, h9, h10, h11, h12, h13, h14, h15, h16⟩ := plain_facts c h
      have hl : (List.flatMap trC (c :: rest)).length = (rest.flatMap trC).length + 1 := by
        simp [trC, h11]
      cases fuel with
      | zero => omega
      | succ n =>
        have e : List.flatMap trC (c :: rest) ++ [36] = c :: (rest.flatMap trC ++ [36]) := by
          simp [trC, h11]
        rw [e]
        unfold parseSeq
        simp only [h1, h13, h4, h7, h6, h9, h5, h2, h3, h8, h14, h15, h16, if_false, or_self]
        rw [ih hrest n _ (by omega)]
        simp [itemC, h11]
    · subst h
      have hl : (List.flatMap trC (37 :: rest)).length = (rest.flatMap trC).length + 2 := by
        simp [trC]
      match fuel, hf with
      | n + 2, hf =>
        have e : List.flatMap trC (37 :: rest) ++ [36] = 46 :: 42 :: (rest.flatMap trC ++ [36]) := by
          simp [trC]
        rw [e]
        unfold parseSeq
        simp only [show (46 : Nat) ≠ 36 by decide, show (46 : Nat) ≠ 92 by decide, if_false, if_true]
        unfold parseSeq
        simp only [show (42 : Nat) ≠ 36 by decide, show (42 : Nat) ≠ 92 by decide,
          show (42 : Nat) ≠ 46 by decide, show (42 : Nat) ≠ 63 by decide, if_false, if_true,
          List.isEmpty_cons, Bool.false_eq_true, bumpQuant]
        rw [ih hrest n _ (by omega)]
        simp [itemC]

theorem starK_eq_specStar (k k' : List Nat → Bool) (s : List Nat) (hs : 10 ∉ s)
    (hk : ∀ t, 10 ∉ t → k t = k' t) : starK .any k s = specStar k' s := by
  induction s with
  | nil => simp [starK, specStar, hk]
  | cons c t ih =>
    have hc : c ≠ 10 := fun h => hs (by simp [h])
    have ht : 10 ∉ t := fun h => hs (List.mem_cons_of_mem _ h)
    have hc' : (c != 10) = true := by simp [hc]
    simp [starK, specStar, Atom.matches, hc', ih ht, hk (c :: t) hs]

theorem matchItems_plain (p : List Nat) (s : List Nat) (hs : 10 ∉ s) :
    matchItems (p.map itemC) s = specMatch (p.map tokC) s := by
  induction p generalizing s with
  | nil => simp [matchItems, specMatch]
  | cons c rest ih =>
    by_cases h : c = 37
    · subst h
      simp only [List.map_cons, itemC, tokC, if_true, matchItems, specMatch]
      exact starK_eq_specStar _ _ s hs (fun t ht => ih t ht)
    · simp only [List.map_cons, itemC, tokC, h, if_false, matchItems, specMatch]
      cases s with
      | nil => rfl
      | cons d t =>
        have ht : 10 ∉ t := fun h => hs (List.mem_cons_of_mem _ h)
        simp [Atom.matches, ih t ht]

theorem likeTokensGo_plain (p : List Nat) (hp : PlainPct p) (fuel : Nat) (hf : p.length + 1 ≤ fuel) :
    likeTokensGo fuel p = some (p.map tokC) := by
  induction p generalizing fuel with
  | nil =>
    cases fuel with
    | zero => simp at hf
    | succ n => simp [likeTokensGo]
  | cons c rest ih =>
    have hrest : PlainPct rest := fun d hd => hp d (List.mem_cons_of_mem _ hd)
    cases fuel with
    | zero => simp at hf
    | succ n =>
      have := ih hrest n (by simp at hf; omega)
      rcases hp c (List.mem_cons_self ..) with h | h
      · obtain ⟨h1, h2, h3, h4, h5, h6, h7, h8, h9, h10, h11, h12, h13, -⟩ := plain_facts c h
        unfold likeTokensGo
        simp [h13, h11, h12, h9, this, tokC]
      · subst h
        unfold likeTokensGo
        simp [this, tokC]

/-- **LIKE agrees with the specification on every pattern made of ordinary characters and `%`**
(no `_`, no lists, no escapes, no characters that are special for the regex syntax), for every
subject string without a newline.  What is missing for the full statement: `_` (recorded finding:
it is translated to `?`), newlines under `%` (recorded finding), lists and escapes (covered by the
differential run only). -/
theorem like_correct_partial (p s : List Nat) (hp : PlainPct p) (hs : 10 ∉ s) :
    likeImpl p s = likeSpec p s := by
  unfold likeImpl likeSpec likeTokens parseRegex
  rw [likeToRegex_plain p hp]
  simp only []
  rw [parseSeq_plain p hp _ [] (by simp), likeTokensGo_plain p hp _ (by omega)]
  simp [matchItems_plain p s hs]

example : PlainPct [97, 37, 98, 37] ∧ likeImpl [97, 37, 98, 37] [97, 99, 99, 98] = some true := by
  constructor
  · intro c hc; simp at hc; rcases hc with h | h | h | h <;> subst h <;> decide
  · decide



/-! ### Comparison operators -/

/-- proper integer types (not Boolean, not a float) -/
def properInt (t : NT) : Bool := t.isInt && t != .boolean

/-- implicit conversion towards the type of higher precedence is available for every pair of
integer types, and fails exactly when the value does not fit -/
theorem convert_up (s d : NT) (y : Int) (hs : properInt s = true) (hd : properInt d = true)
    (hp : (TId.num d).precedence < (TId.num s).precedence) (hy : inRange s y) :
    C06.convert s d (.int y) = if inRange d y then some (.int y) else none := by
  have hsi : s.isInt = true := by simp [properInt] at hs; exact hs.1
  have hdi : d.isInt = true := by simp [properInt] at hd; exact hd.1
  by_cases hr : inRange d y
  · rw [if_pos hr]
    cases h : C06.convert s d (.int y) with
    | some r => rw [(C06.convert_int_preserves s d y r hsi hdi hy h).1]
    | none =>
      exfalso
      have hk : C06.convertKind s d = .wrap ∨ C06.convertKind s d = .checked ∨
          (C06.convertKind s d = .guardNeg ∧ d.minV = 0) := by
        revert hs hd hp
        cases s <;> cases d <;> decide
      have hne : s ≠ d := by intro e; subst e; exact Nat.lt_irrefl _ hp
      unfold C06.convert C06.convertWith at h
      simp only [hne, if_false] at h
      rcases hk with hk | hk | ⟨hk, h0⟩ <;> rw [hk] at h <;> simp [C06.applyCK, hr] at h
      unfold inRange at hr
      omega
  · rw [if_neg hr]
    exact C06.convert_out_of_range_none s d y hsi hdi hy hr

def order (x y : Int) : Cmp := if x < y then .lt else if x = y then .eq else .gt

/-- **Comparison of two integers of any two integer types is the mathematical comparison** of the
two numbers whenever the operand of lower precedence fits the other operand's type, and an error
(every comparison operator FALSE) otherwise — e.g. `UInt64 1` against `Int32 −1`. -/
theorem compare_int_correct (s d : NT) (x y : Int) (hs : properInt s = true) (hd : properInt d = true)
    (hx : inRange s x) (hy : inRange d y) :
    compareValues false (.num s (.int x)) (.num d (.int y)) =
      some (if (TId.num s).precedence ≤ (TId.num d).precedence
            then (if inRange s y then order x y else .error)
            else (if inRange d x then order x y else .error)) := by
  have hsb : s ≠ .boolean := by simp [properInt] at hs; exact hs.2
  have hdb : d ≠ .boolean := by simp [properInt] at hd; exact hd.2
  have cmpInt : ∀ (t : NT), t ≠ .boolean → ∀ a b : Int,
      compareConverted false (.num t (.int a)) (.num t (.int b)) = some (order a b) := by
    intro t ht a b
    cases t <;> first | exact absurd rfl ht | rfl
  have cmpEmptyR : ∀ (t : NT), t ≠ .boolean → ∀ a : Int,
      compareConverted false (.num t (.int a)) .empty = some .error := by
    intro t ht a
    cases t <;> first | exact absurd rfl ht | rfl
  unfold compareValues convertPair
  by_cases hsd : s = d
  · subst hsd
    simp [V.typeId, hy, cmpInt s hsb]
  · have hne : TId.num s ≠ TId.num d := by intro h; injection h with h; exact hsd h
    have hpne : (TId.num s).precedence ≠ (TId.num d).precedence := by
      revert hsd; cases s <;> cases d <;> decide
    simp only [V.typeId, ne_eq, hne, not_false_eq_true, if_true]
    by_cases hlt : (TId.num s).precedence < (TId.num d).precedence
    · have hle : (TId.num s).precedence ≤ (TId.num d).precedence := by omega
      simp only [hlt, hle, if_true]
      have hcv : convertV (.num d (.int y)) (.num s) =
          if inRange s y then .num s (.int y) else .empty := by
        unfold convertV
        have : TId.num d ≠ TId.num s := fun h => hne h.symm
        simp only [V.typeId, this, if_false]
        rw [convert_up d s y hd hs hlt hy]
        by_cases hr : inRange s y <;> simp [hr]
      rw [hcv]
      split
      · exact cmpInt s hsb x y
      · exact cmpEmptyR s hsb x
    · have hgt : (TId.num d).precedence < (TId.num s).precedence := by omega
      have hle : ¬ (TId.num s).precedence ≤ (TId.num d).precedence := by omega
      simp only [hlt, hle, if_false]
      have hcv : convertV (.num s (.int x)) (.num d) =
          if inRange d x then .num d (.int x) else .empty := by
        unfold convertV
        simp only [V.typeId, hne, if_false]
        rw [convert_up s d x hs hd hgt hx]
        by_cases hr : inRange d x <;> simp [hr]
      rw [hcv]
      split
      · exact cmpInt d hdb x y
      · rfl

example : compareValues false (.num .uint64 (.int 1)) (.num .int32 (.int (-1))) = some .error := by decide
example : compareValues false (.num .byte (.int 200)) (.num .int64 (.int (-5))) = some .gt := by decide



theorem compareOperands_lit (v1 v2 : V) (c : Cmp) (h : compareValues false v1 v2 = some c) :
    compareOperands false litVo (.lit v1) (.lit v2) = .inr c := by
  simp [compareOperands, litVo, h]

/-- the five comparison operators are the five readings of one comparison result `c`
(`error`/`ne` make all of them FALSE except that `ne` is simply "not equal") -/
theorem comparison_operators (v1 v2 : V) (c : Cmp) (h : compareValues false v1 v2 = some c) :
    applyOp false litVo .equals [.lit v1, .lit v2] = .ok (boolV (c = .eq)) ∧
    applyOp false litVo .gt [.lit v1, .lit v2] = .ok (boolV (c = .gt)) ∧
    applyOp false litVo .lt [.lit v1, .lit v2] = .ok (boolV (c = .lt)) ∧
    applyOp false litVo .gte [.lit v1, .lit v2] = .ok (boolV (c = .gt || c = .eq)) ∧
    applyOp false litVo .lte [.lit v1, .lit v2] = .ok (boolV (c = .lt || c = .eq)) := by
  have := compareOperands_lit v1 v2 c h
  simp [applyOp, this, cmpRes]

/-- Between is `operand[0] ≥ operand[1]` and `operand[0] ≤ operand[2]` -/
theorem between_spec (v0 v1 v2 : V) (c1 c2 : Cmp) (h1 : compareValues false v0 v1 = some c1)
    (h2 : compareValues false v0 v2 = some c2) :
    applyOp false litVo .between [.lit v0, .lit v1, .lit v2] =
      .ok (boolV ((c1 = .gt || c1 = .eq) && (c2 = .lt || c2 = .eq))) := by
  have e1 := compareOperands_lit v0 v1 c1 h1
  have e2 := compareOperands_lit v0 v2 c2 h2
  simp only [applyOp, List.getElem?_cons_zero, List.getElem?_cons_succ, e1, e2, cmpRes]
  by_cases hc : c1 = .gt ∨ c1 = .eq
  · rw [if_pos hc]
    rcases hc with hc | hc <;> simp [hc]
  · rw [if_neg hc]
    have : (decide (c1 = .gt) || decide (c1 = .eq)) = false := by
      simp only [not_or] at hc
      simp [hc.1, hc.2]
    simp [this]

/-- InList is TRUE exactly when some listed operand Equals operand[0] -/
theorem inList_spec (v0 : V) (vs : List V) :
    applyOp false litVo .inList (.lit v0 :: vs.map .lit) =
      .ok (boolV (vs.any fun v => compareValues false v0 v = some .eq)) := by
  simp only [applyOp, List.getElem?_cons_zero, List.drop_one, List.tail_cons]
  induction vs with
  | nil => simp [inListGo]
  | cons v rest ih =>
    simp only [List.map_cons, inListGo]
    cases hc : compareValues false v0 v with
    | none => exact absurd hc (compareValues_some v0 v)
    | some c =>
      rw [compareOperands_lit v0 v c hc]
      cases c <;> simp [ih, hc]


end OpcuaVerif.C39
