import OpcuaVerif.Model.C39
namespace OpcuaVerif.C39
end OpcuaVerif.C39
