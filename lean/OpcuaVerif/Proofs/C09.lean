import OpcuaVerif.Lemmas.C09

/-!
C09 — the secure-channel receive path is total on arbitrary peer bytes.

Property theorems only.  Model: `OpcuaVerif.Model.C09` (`recvWith`, `recv := recvWith Fixes.current`);
helper lemmas: `OpcuaVerif.Lemmas.C09`.
-/
namespace OpcuaVerif.C09

/-- the OPN branch returns for every header and every answer of the primitives -/
theorem recvOpn_total (C : Crypto) (laws : CryptoLaws C) (ch : Chan) (hwf : ch.wf) (src : Bytes)
    (ah : AsymHdr) (start : Nat) (hs : start ≤ src.length) (hc : ah.cert.bytes.length ≤ start) :
    (recvOpn Fixes.current C ch src ah start).2.returns := by
  unfold recvOpn
  split
  · simp [Outcome.returns]
  split
  · simp [Outcome.returns]
  · simp [Outcome.returns]
  · rename_i p _ _
    split
    · simp [Fixes.current, Outcome.returns]
    · rename_i cert hcert
      split
      · simp [Outcome.returns]
      · simp [Outcome.returns]
      · rename_i vk hx
        have h1 := laws.certLen cert vk hx
        have h2 : cert.length ≤ start := by simpa [hcert, Fld.bytes] using hc
        exact asym_total C laws _ (fun k hk => hwf k hk) p src start cert _ vk hs (by omega)

/-- **Totality of the receive path.**  Whatever bytes arrive (`src`), in whatever channel state
(`ch`: any policy, any mode, with or without own certificate / private key / derived keys, any
decoding limits) and whatever OpenSSL answers (`C`, constrained only by the three length laws),
`verify_and_remove_security` returns a chunk or a status code: it does not panic and its loops
terminate. -/
theorem recv_total (C : Crypto) (laws : CryptoLaws C) (ch : Chan) (hwf : ch.wf) (src : Bytes) :
    (recv C ch src).2.returns := by
  unfold recv recvWith
  split
  · simp [Outcome.returns]
  · rename_i size rest hh
    have hl := rdHeader_len hh
    split
    · simp [Outcome.returns]
    · rename_i ah rest' ha
      have hl2 := rdAsym_len ha
      split
      · simp [Outcome.returns]
      · exact recvOpn_total C laws ch hwf src ah _ (by omega) (by omega)
  · split
    · split
      · simp [Outcome.returns]
      · exact sym_total C laws ch src
    · simp [Outcome.returns]

/-- `returns` says exactly: not a panic (at any site), not fuel exhaustion -/
theorem returns_iff (o : Outcome) : o.returns ↔ (∀ s, o ≠ .panic s) ∧ o ≠ .fuel := by
  cases o <;> simp [Outcome.returns]

/-- the receive path changes nothing of the channel but the policy (set from an OPN header) -/
theorem recv_state (F : Fixes) (C : Crypto) (ch : Chan) (src : Bytes) :
    ∃ p, (recvWith F C ch src).1 = { ch with policy := p } := by
  unfold recvWith
  split
  · exact ⟨ch.policy, rfl⟩
  · split
    · exact ⟨ch.policy, rfl⟩
    · split
      · exact ⟨ch.policy, rfl⟩
      · unfold recvOpn
        split
        · exact ⟨ch.policy, rfl⟩
        split
        · exact ⟨ch.policy, rfl⟩
        · exact ⟨ch.policy, rfl⟩
        · rename_i p _ _
          split
          · exact ⟨p, rfl⟩
          · split <;> exact ⟨p, rfl⟩
  · split
    · split <;> exact ⟨ch.policy, rfl⟩
    · exact ⟨ch.policy, rfl⟩

theorem recv_wf (F : Fixes) (C : Crypto) (ch : Chan) (hwf : ch.wf) (src : Bytes) :
    (recvWith F C ch src).1.wf := by
  obtain ⟨p, h⟩ := recv_state F C ch src
  rw [h]; exact hwf

/-- a whole connection: every chunk the peer sends, one after the other, each with its own
answers of the primitives -/
def run : Chan → List (Crypto × Bytes) → List Outcome
  | _, [] => []
  | ch, (C, src) :: rest => (recv C ch src).2 :: run (recv C ch src).1 rest

/-- **Totality over every history**: no sequence of chunks, however malformed, makes any call of
the receive path panic — including the calls after an `OPN` chunk has switched the policy. -/
theorem run_total (ch : Chan) (hwf : ch.wf) (chunks : List (Crypto × Bytes))
    (laws : ∀ x ∈ chunks, CryptoLaws x.1) : ∀ o ∈ run ch chunks, o.returns := by
  induction chunks generalizing ch with
  | nil => simp [run]
  | cons x xs ih =>
    obtain ⟨C, src⟩ := x
    intro o ho
    simp only [run, List.mem_cons] at ho
    rcases ho with rfl | ho
    · exact recv_total C (laws (C, src) (by simp)) ch hwf src
    · exact ih _ (recv_wf _ C ch hwf src) (fun y hy => laws y (by simp [hy])) o ho

/-! ### Non-vacuity: the laws are satisfiable, and chunks ARE accepted -/

/-- toy primitives: a "certificate" is at least 4 bytes and holds a 4-byte key, RSA and AES are the
identity, every signature verifies -/
def toy : Crypto where
  x509 := fun c => if c.length ≥ 4 then some (some 4) else none
  thumbEq := fun _ => true
  rsaDec := fun _ _ b => some b
  rsaVerify := fun _ _ _ _ => some true
  aesDec := fun b => some b
  hmacOk := fun _ _ _ => true

example : CryptoLaws toy where
  rsaLen := by intro p i b out h; simp [toy] at h; subst h; exact Nat.le_refl _
  aesLen := by intro b out h; simp [toy] at h; subst h; rfl
  certLen := by
    intro c n h
    simp only [toy] at h
    split at h
    · simp at h; omega
    · simp at h

def chanB256s (mode : Mode) : Chan :=
  { policy := .b256s, mode := mode, ownCert := some 4, ownKey := some 4, keys := true,
    maxStr := 65535, maxBs := 65535 }

example : (chanB256s .sign).wf := by intro k h; simp [chanB256s] at h; omega

/-- a signed 52-byte MSG chunk is accepted and loses its 32 signature bytes -/
example : (recv toy (chanB256s .sign)
    ([77, 83, 71, 70, 52, 0, 0, 0, 9, 0, 0, 0, 1, 0, 0, 0, 5, 0, 0, 0] ++ List.replicate 32 7)).2 =
    .ok [77, 83, 71, 70, 20, 0, 0, 0, 9, 0, 0, 0, 1, 0, 0, 0, 5, 0, 0, 0] := by decide

/-- an OPN chunk (policy Basic256, 4-byte certificate, null thumbprint, 8 "encrypted" bytes:
2 body bytes, padding `01 01`, 4 signature bytes) is accepted; the policy switches to Basic256 -/
def opnOk : Bytes :=
  [79, 80, 78, 70, 87, 0, 0, 0, 0, 0, 0, 0, 51, 0, 0, 0] ++ Policy.b256.uri ++
  [4, 0, 0, 0, 1, 2, 3, 4, 255, 255, 255, 255] ++ [9, 9, 1, 1, 5, 5, 5, 5]

example : recv toy (chanB256s .none) opnOk =
    ({ chanB256s .none with policy := .b256 },
     .ok (([79, 80, 78, 70, 81, 0, 0, 0, 0, 0, 0, 0, 51, 0, 0, 0] ++ Policy.b256.uri ++
       [4, 0, 0, 0, 1, 2, 3, 4, 255, 255, 255, 255]) ++ [9, 9])) := by decide

/-! ### The repaired defects: each one panics in the model of the pinned source -/

/-- MSG chunk of 20 bytes on a Basic256Sha256/Sign channel: `message_size - signature_size`
underflows, whatever the primitives answer (corpus/C09/sym-short.ops is the same shape) -/
theorem C09_counterexample_sym_short (C : Crypto) :
    (recvWith Fixes.pinned C (chanB256s .sign)
      [77, 83, 71, 70, 20, 0, 0, 0, 0, 0, 0, 0, 0, 0, 0, 0, 1, 2, 3, 4]).2 = .panic .symShort := by
  rfl

/-- SignAndEncrypt: 49 bytes = 16 header + 33 cipher-text bytes, not a multiple of the AES block -/
theorem C09_counterexample_aes_block (C : Crypto) :
    (recvWith Fixes.pinned C (chanB256s .signEncrypt)
      ([77, 83, 71, 70, 49, 0, 0, 0, 0, 0, 0, 0, 0, 0, 0, 0] ++ List.replicate 33 0)).2
      = .panic .aesBlock := by
  rfl

/-- Sign mode set, keys never derived (e.g. the OPN was answered with a service fault) -/
theorem C09_counterexample_no_keys (C : Crypto) :
    (recvWith Fixes.pinned C { chanB256s .sign with keys := false }
      ([77, 83, 71, 70, 52, 0, 0, 0, 0, 0, 0, 0, 0, 0, 0, 0] ++ List.replicate 36 0)).2
      = .panic .noKeys := by
  rfl

/-- OPN chunk naming Basic256 with a null sender certificate -/
theorem C09_counterexample_null_cert (C : Crypto) :
    (recvWith Fixes.pinned C (chanB256s .none)
      ([79, 80, 78, 70, 75, 0, 0, 0, 0, 0, 0, 0, 51, 0, 0, 0] ++ Policy.b256.uri ++
       [255, 255, 255, 255, 255, 255, 255, 255])).2 = .panic .nullCert := by
  rfl

/-- a well-formed OPN chunk received by a channel without own certificate … -/
theorem C09_counterexample_no_own_cert :
    (recvWith Fixes.pinned toy { chanB256s .none with ownCert := none } opnOk).2
      = .panic .noOwnCert := by decide

/-- … or without private key -/
theorem C09_counterexample_no_own_key :
    (recvWith Fixes.pinned toy { chanB256s .none with ownKey := none } opnOk).2
      = .panic .noOwnKey := by decide

/-- cipher text one byte longer than a multiple of the key size -/
theorem C09_counterexample_rsa_block :
    (recvWith Fixes.pinned toy (chanB256s .none)
      ([79, 80, 78, 70, 88, 0, 0, 0, 0, 0, 0, 0, 51, 0, 0, 0] ++ Policy.b256.uri ++
       [4, 0, 0, 0, 1, 2, 3, 4, 255, 255, 255, 255] ++ [9, 9, 1, 1, 5, 5, 5, 5, 0])).2
      = .panic .rsaBlock := by decide

/-- correctly "signed" plain text whose padding length byte (255) exceeds the message -/
theorem C09_counterexample_padding :
    (recvWith Fixes.pinned toy (chanB256s .none)
      ([79, 80, 78, 70, 87, 0, 0, 0, 0, 0, 0, 0, 51, 0, 0, 0] ++ Policy.b256.uri ++
       [4, 0, 0, 0, 1, 2, 3, 4, 255, 255, 255, 255] ++ [9, 9, 255, 255, 5, 5, 5, 5])).2
      = .panic .padUnderflow := by decide

/-- every one of these inputs is answered with a status code by the current source -/
example : (recv toy (chanB256s .none)
      ([79, 80, 78, 70, 87, 0, 0, 0, 0, 0, 0, 0, 51, 0, 0, 0] ++ Policy.b256.uri ++
       [4, 0, 0, 0, 1, 2, 3, 4, 255, 255, 255, 255] ++ [9, 9, 255, 255, 5, 5, 5, 5])).2
      = .err .badSecurityChecksFailed := by decide

end OpcuaVerif.C09
