import OpcuaVerif.Model.C20

/-!
C20 — Session activation authenticates the user exactly as configured.
Property theorems.  The model is `OpcuaVerif.Model.C20`.
-/
namespace OpcuaVerif.C20

/-! ### what "as configured" means -/

/-- password `p` is the right one for a configured `pass` entry -/
def PassOk (pass : Option Nat) (p : Nat) : Prop :=
  match pass with
  | none => p = 0
  | some q => q = p

theorem passOk_iff (pass : Option Nat) (p : Nat) : passOk pass p = true ↔ PassOk pass p := by
  cases pass <;> simp [passOk, PassOk]

/-- user `name` with clear password `p` is a user/password user configured for the endpoint -/
def UserConfigured (c : Cfg) (name p : Nat) : Prop :=
  ∃ id ∈ c.tokenIds, ∃ pass, lookupUser c id = some (.userpass name pass) ∧ PassOk pass p

/-- a certificate with thumbprint `t` is configured for the endpoint -/
def ThumbConfigured (c : Cfg) (t : Nat) : Prop :=
  ∃ id ∈ c.tokenIds, lookupUser c id = some (.x509 (some t))

/-- the supplied password is right: in the clear, or encrypted with a supported algorithm *for the
session's current nonce* -/
def PasswordFor (c : Cfg) (nonce : Nat) (pw : Pw) (p : Nat) : Prop :=
  match pw with
  | .plain q e => q = p ∧ (e = true → c.hasKey = true)
  | .plainBad => False
  | .enc d u q n => c.hasKey = true ∧ d ≠ .unknown ∧ d = u ∧ q = p ∧ n = nonce

theorem clearPassword_ok_iff (c : Cfg) (nonce : Nat) (pw : Pw) (p : Nat) :
    clearPassword c nonce pw = .ok p ↔ PasswordFor c nonce pw p := by
  cases pw with
  | plain q e =>
    cases e
    · simp [clearPassword, PasswordFor]
    · by_cases hk : c.hasKey = true <;> simp [clearPassword, PasswordFor, hk]
  | plainBad => simp [clearPassword, PasswordFor]
  | enc d u q n =>
    simp only [clearPassword, PasswordFor]
    by_cases hk : c.hasKey = true
    · by_cases hd : d = .unknown
      · simp [hk, hd]
      · by_cases hu : d = u
        · subst hu
          by_cases hn : n = nonce <;> simp [hk, hd, hn]
        · simp [hk, hd, hu]
    · simp [hk]

theorem matchUser_ok_only_if (c : Cfg) (name p : Nat) (ids : List Nat) (id : Nat)
    (h : matchUser c name p ids = .ok id) :
    id ∈ ids ∧ ∃ pass, lookupUser c id = some (.userpass name pass) ∧ PassOk pass p := by
  induction ids with
  | nil => simp [matchUser] at h
  | cons a rest ih =>
    simp only [matchUser] at h
    split at h
    · rename_i n pass hl
      split at h
      · rename_i hn
        subst hn
        split at h
        · rename_i hv
          cases h
          exact ⟨by simp, pass, hl, (passOk_iff pass p).mp hv⟩
        · simp at h
      · obtain ⟨h1, h2⟩ := ih h
        exact ⟨by simp [h1], h2⟩
    · obtain ⟨h1, h2⟩ := ih h
      exact ⟨by simp [h1], h2⟩

/-- user names are not configured twice on an endpoint (otherwise the first entry decides) -/
def NamesDistinct (c : Cfg) : Prop :=
  ∀ id1 ∈ c.tokenIds, ∀ id2 ∈ c.tokenIds, ∀ n p1 p2,
    lookupUser c id1 = some (.userpass n p1) → lookupUser c id2 = some (.userpass n p2) → id1 = id2

theorem matchUser_ok_if (c : Cfg) (name p : Nat) (ids : List Nat)
    (hd : ∀ id1 ∈ ids, ∀ id2 ∈ ids, ∀ n p1 p2,
      lookupUser c id1 = some (.userpass n p1) → lookupUser c id2 = some (.userpass n p2) → id1 = id2)
    (id : Nat) (hid : id ∈ ids) (pass : Option Nat)
    (hl : lookupUser c id = some (.userpass name pass)) (hp : PassOk pass p) :
    matchUser c name p ids = .ok id := by
  induction ids with
  | nil => simp at hid
  | cons a rest ih =>
    simp only [matchUser]
    by_cases ha : a = id
    · subst ha
      simp only [hl, ↓reduceIte, (passOk_iff pass p).mpr hp]
    · have hid' : id ∈ rest := by
        simp only [List.mem_cons] at hid
        rcases hid with h | h
        · exact absurd h.symm ha
        · exact h
      have hrest := ih (fun i1 h1 i2 h2 => hd i1 (by simp [h1]) i2 (by simp [h2])) hid'
      split
      · rename_i n pass' hl'
        split
        · rename_i hn
          subst hn
          exact absurd (hd a (by simp) id (by simp [hid']) _ _ _ hl' hl) ha
        · exact hrest
      · exact hrest

theorem matchThumb_ok_only_if (c : Cfg) (t : Nat) (ids : List Nat) (id : Nat)
    (h : matchThumb c t ids = .ok id) : id ∈ ids ∧ lookupUser c id = some (.x509 (some t)) := by
  induction ids with
  | nil => simp [matchThumb] at h
  | cons a rest ih =>
    simp only [matchThumb] at h
    split at h
    · rename_i t' hl
      split at h
      · rename_i ht
        cases h
        subst ht
        exact ⟨by simp, hl⟩
      · obtain ⟨h1, h2⟩ := ih h
        exact ⟨by simp [h1], h2⟩
    · obtain ⟨h1, h2⟩ := ih h
      exact ⟨by simp [h1], h2⟩

theorem matchThumb_ok_if (c : Cfg) (t : Nat) (ids : List Nat) (id : Nat) (hid : id ∈ ids)
    (hl : lookupUser c id = some (.x509 (some t))) : ∃ id', matchThumb c t ids = .ok id' := by
  induction ids with
  | nil => simp at hid
  | cons a rest ih =>
    simp only [matchThumb]
    simp only [List.mem_cons] at hid
    split
    · rename_i t' hl'
      split
      · exact ⟨a, rfl⟩
      · rename_i hne
        rcases hid with h | h
        · subst h; rw [hl] at hl'; cases hl'; exact absurd rfl hne
        · exact ih h
    · rename_i hno
      rcases hid with h | h
      · subst h; exact absurd hl (hno t)
      · exact ih h

/-- **The property's sentence.**  ActivateSession is to succeed exactly when: the session's endpoint
exists for the channel; on a secured channel the client signature covers the session's current
nonce; and
* anonymous token — the endpoint allows anonymous access (and the policy id is the anonymous one);
* user name token — that user is configured for the endpoint and the password, in the clear or
  encrypted for the session's current nonce, is that user's password;
* X.509 token — the signature verifies (made by the certificate's key over the server certificate
  and the session's current nonce) and the certificate's thumbprint is configured for the endpoint. -/
def Accept (c : Cfg) (nonce : Nat) (cs : ClientSig) (tok : IdTok) : Prop :=
  c.endpointOk = true ∧ (c.secured = true → c.hasCert = true ∧ cs = .over nonce) ∧
  match tok with
  | .empty => 0 ∈ c.tokenIds
  | .anon pid => pid = pidAnonymous ∧ 0 ∈ c.tokenIds
  | .user pid name pw =>
    supportsUserPass c = true ∧ pid = c.pwPolicyId ∧
      ∃ nm p, name = some nm ∧ PasswordFor c nonce pw p ∧ UserConfigured c nm p
  | .x509 pid cert sig =>
    supportsX509 c = true ∧ pid = pidX509 ∧ c.hasCert = true ∧
      ∃ t, cert = some t ∧ sigValid sig t nonce = true ∧ ThumbConfigured c t
  | .invalid => False

theorem sigStatus_none_iff (c : Cfg) (nonce : Nat) (cs : ClientSig) :
    clientSigStatus c nonce cs = none ↔ (c.secured = true → c.hasCert = true ∧ cs = .over nonce) := by
  unfold clientSigStatus
  by_cases hs : c.secured = true <;> by_cases hc : c.hasCert = true <;> simp [hs, hc]
  cases cs with
  | over n => by_cases hn : n = nonce <;> simp [hn]
  | null => simp

theorem authenticate_ok_only_if (c : Cfg) (nonce : Nat) (cs : ClientSig) (tok : IdTok) (id : Nat)
    (hsig : c.secured = true → c.hasCert = true ∧ cs = .over nonce)
    (h : authenticate c nonce tok = .ok id) : Accept c nonce cs tok := by
  unfold authenticate at h
  by_cases he : c.endpointOk = true
  · simp only [he, Bool.not_true, Bool.false_eq_true, ↓reduceIte] at h
    refine ⟨he, hsig, ?_⟩
    cases tok with
    | invalid => simp [authTok] at h
    | empty =>
      simp only [authTok] at h ⊢
      split at h
      · simp at h
      · rename_i hs; simpa [supportsAnonymous] using hs
    | anon pid =>
      simp only [authTok] at h ⊢
      split at h
      · simp at h
      · rename_i hp
        split at h
        · simp at h
        · rename_i hs
          exact ⟨by simpa using hp, by simpa [supportsAnonymous] using hs⟩
    | user pid name pw =>
      simp only [authTok] at h ⊢
      split at h
      · simp at h
      · rename_i hs
        split at h
        · simp at h
        · rename_i hp
          cases name with
          | none => simp at h
          | some nm =>
            simp only at h
            split at h
            · simp at h
            · rename_i p hcp
              obtain ⟨hid, pass, hl, hpo⟩ := matchUser_ok_only_if c nm p c.tokenIds id h
              exact ⟨by simpa using hs, by simpa using hp, nm, p, rfl,
                (clearPassword_ok_iff c nonce pw p).mp hcp, id, hid, pass, hl, hpo⟩
    | x509 pid cert sig =>
      simp only [authTok] at h ⊢
      split at h
      · simp at h
      · rename_i hs
        split at h
        · simp at h
        · rename_i hp
          split at h
          · simp at h
          · rename_i hc
            cases cert with
            | none => simp at h
            | some t =>
              simp only at h
              split at h
              · simp at h
              · rename_i hv
                obtain ⟨hid, hl⟩ := matchThumb_ok_only_if c t c.tokenIds id h
                exact ⟨by simpa using hs, by simpa using hp, by simpa using hc, t, rfl, by simpa using hv, id, hid, hl⟩
  · simp [he] at h

theorem authenticate_ok_if (c : Cfg) (hnd : NamesDistinct c) (nonce : Nat) (cs : ClientSig) (tok : IdTok)
    (h : Accept c nonce cs tok) : ∃ id, authenticate c nonce tok = .ok id := by
  obtain ⟨he, -, ht⟩ := h
  unfold authenticate
  simp only [he, Bool.not_true, Bool.false_eq_true, ↓reduceIte]
  unfold authTok
  cases tok with
  | invalid => exact absurd ht (by simp)
  | empty =>
    have : supportsAnonymous c = true := by simpa [supportsAnonymous] using ht
    simp [this]
  | anon pid =>
    obtain ⟨hp, hs⟩ := ht
    have : supportsAnonymous c = true := by simpa [supportsAnonymous] using hs
    simp [this, hp]
  | user pid name pw =>
    obtain ⟨hs, hp, nm, p, rfl, hpw, id, hid, pass, hl, hpo⟩ := ht
    have hcp := (clearPassword_ok_iff c nonce pw p).mpr hpw
    simp only [hs, hp, hcp, Bool.not_true, Bool.false_eq_true, ↓reduceIte, ne_eq, not_true_eq_false]
    exact ⟨id, matchUser_ok_if c nm p c.tokenIds hnd id hid pass hl hpo⟩
  | x509 pid cert sig =>
    obtain ⟨hs, hp, hc, t, rfl, hv, id, hid, hl⟩ := ht
    simp only [hs, hp, hc, hv, Bool.not_true, Bool.false_eq_true, ↓reduceIte, ne_eq, not_true_eq_false]
    exact matchThumb_ok_if c t c.tokenIds id hid hl

/-- **activate_ok_only_if** — ActivateSession succeeds only in the situations the property lists
(every configuration, every token, every nonce). -/
theorem activate_ok_only_if (c : Cfg) (nonce : Nat) (cs : ClientSig) (tok : IdTok)
    (h : activateStatus c nonce cs tok = none) : Accept c nonce cs tok := by
  unfold activateStatus at h
  by_cases he : c.endpointOk = true
  · simp only [he, Bool.not_true, Bool.false_eq_true, ↓reduceIte] at h
    split at h
    · simp at h
    · rename_i hsig
      have hsig' := (sigStatus_none_iff c nonce cs).mp hsig
      split at h
      · simp at h
      · rename_i id hid
        exact authenticate_ok_only_if c nonce cs tok id hsig' hid
  · simp [he] at h

/-- **activate_ok_iff** — … and in exactly those (user names configured once per endpoint). -/
theorem activate_ok_iff (c : Cfg) (hnd : NamesDistinct c) (nonce : Nat) (cs : ClientSig) (tok : IdTok) :
    activateStatus c nonce cs tok = none ↔ Accept c nonce cs tok := by
  refine ⟨activate_ok_only_if c nonce cs tok, ?_⟩
  intro h
  obtain ⟨id, hid⟩ := authenticate_ok_if c hnd nonce cs tok h
  obtain ⟨he, hs, -⟩ := h
  unfold activateStatus
  simp only [he, Bool.not_true, Bool.false_eq_true, ↓reduceIte]
  rw [(sigStatus_none_iff c nonce cs).mpr hs]
  simp [hid]

/-! ### nonces: fresh per response, so replayed tokens are rejected -/

/-- Nonces handed out are `1, 2, 3, …` (never null, never repeated), every session's nonce is the
one handed out last to it. -/
def NonceInv (s : St) : Prop :=
  (∀ (k v : Nat), s.handed[k]? = some v → v = k + 1) ∧
  (∀ x ∈ s.sessions, ∃ k : Nat, s.handed[k]? = some x.nonce)

theorem init_nonceInv (c : Cfg) : NonceInv (St.init c) := by
  simp [NonceInv, St.init]

theorem getElem?_append_singleton {l : List Nat} {a k v : Nat} (h : (l ++ [a])[k]? = some v) :
    l[k]? = some v ∨ (k = l.length ∧ v = a) := by
  by_cases hk : k < l.length
  · left; rwa [List.getElem?_append_left hk] at h
  · right
    rw [List.getElem?_append_right (by omega)] at h
    have : k - l.length = 0 := by
      rcases Nat.eq_zero_or_pos (k - l.length) with h0 | h0
      · exact h0
      · rw [List.getElem?_eq_none (by simp; omega)] at h; simp at h
    rw [this] at h
    simp at h
    exact ⟨by omega, h.symm⟩

theorem mem_set {l : List Sess} {i : Nat} {x y : Sess} (h : y ∈ l.set i x) : y ∈ l ∨ y = x := by
  rcases List.mem_or_eq_of_mem_set h with h | h
  · exact Or.inl h
  · exact Or.inr h

theorem step_nonceInv (fresh : Bool) (s : St) (hf : fresh = true ∨ s.cfg.secured = true) (op : Op)
    (h : NonceInv s) : NonceInv (stepWith fresh s op).1 := by
  have hnew : newNonce fresh s = s.handed.length + 1 := by
    unfold newNonce
    rcases hf with hf | hf <;> simp [hf]
  obtain ⟨h1, h2⟩ := h
  have happ : ∀ (k v : Nat), (s.handed ++ [s.handed.length + 1])[k]? = some v → v = k + 1 := by
    intro k v hk
    rcases getElem?_append_singleton hk with hk | ⟨rfl, rfl⟩
    · exact h1 k v hk
    · rfl
  have hmono : ∀ (v k : Nat), s.handed[k]? = some v → (s.handed ++ [s.handed.length + 1])[k]? = some v := by
    intro v k hk
    have : k < s.handed.length := by
      rcases Nat.lt_or_ge k s.handed.length with h | h
      · exact h
      · rw [List.getElem?_eq_none h] at hk; simp at hk
    rw [List.getElem?_append_left this]; exact hk
  cases op with
  | create =>
    simp only [stepWith]
    split
    · exact ⟨h1, h2⟩
    · rw [hnew]
      refine ⟨happ, ?_⟩
      intro x hx
      simp only [List.mem_append, List.mem_singleton] at hx
      rcases hx with hx | rfl
      · obtain ⟨k, hk⟩ := h2 x hx
        exact ⟨k, hmono _ k hk⟩
      · exact ⟨s.handed.length, by simp⟩
  | activate i cs tok =>
    simp only [stepWith]
    split
    · exact ⟨h1, h2⟩
    · rename_i x hx
      have hxm : x ∈ s.sessions := List.mem_of_getElem? hx
      split
      · refine ⟨h1, ?_⟩
        intro y hy
        rcases mem_set hy with hy | rfl
        · exact h2 y hy
        · exact h2 x hxm
      · rw [hnew]
        refine ⟨happ, ?_⟩
        intro y hy
        rcases mem_set hy with hy | rfl
        · obtain ⟨k, hk⟩ := h2 y hy
          exact ⟨k, hmono _ k hk⟩
        · exact ⟨s.handed.length, by simp⟩

theorem run_nonceInv (fresh : Bool) (c : Cfg) (hf : fresh = true ∨ c.secured = true) (ops : List Op) :
    ∀ s, s.cfg = c → NonceInv s → NonceInv (runWith fresh s ops) ∧ (runWith fresh s ops).cfg = c := by
  induction ops with
  | nil => intro s hc h; exact ⟨h, hc⟩
  | cons op ops ih =>
    intro s hc h
    have hcfg : (stepWith fresh s op).1.cfg = c := by
      cases op with
      | create => simp only [stepWith]; split <;> simp [hc]
      | activate i cs tok =>
        simp only [stepWith]
        split
        · exact hc
        · split <;> simp [hc]
    exact ih _ hcfg (step_nonceInv fresh s (by rw [hc]; exact hf) op h)

/-- **nonces_never_repeat** — in the current source every Create/ActivateSession response of a
connection carries a nonce that is not null and differs from every nonce handed out before
(random values are modelled as a counter), whatever the channel's security policy. -/
theorem nonces_never_repeat (c : Cfg) (ops : List Op) (j k v w : Nat)
    (hj : (run (St.init c) ops).handed[j]? = some v) (hk : (run (St.init c) ops).handed[k]? = some w)
    (hjk : j ≠ k) : v ≠ w ∧ v ≠ 0 := by
  have h := (run_nonceInv true c (Or.inl rfl) ops (St.init c) rfl (init_nonceInv c)).1
  have e1 := h.1 j v hj
  have e2 := h.1 k w hk
  omega

/-- **replayed_encrypted_token_rejected** — in every reachable state, a user name token whose
password was encrypted for a nonce handed out at another position than the session's current nonce
(an earlier response of this session, or a response of another session) is rejected, for every
configuration, channel policy, user, password and algorithm. -/
theorem replayed_encrypted_token_rejected (c : Cfg) (ops : List Op) (i : Nat) (x : Sess)
    (hx : (run (St.init c) ops).sessions[i]? = some x) (j k v : Nat)
    (hj : (run (St.init c) ops).handed[j]? = some v)
    (hk : (run (St.init c) ops).handed[k]? = some x.nonce) (hjk : j ≠ k)
    (cs : ClientSig) (pid : Nat) (name : Option Nat) (d u : Alg) (p : Nat) :
    ∃ e, (step (run (St.init c) ops) (.activate i cs (.user pid name (.enc d u p v)))).2 = .fault e := by
  have hne := (nonces_never_repeat c ops j k v x.nonce hj hk hjk).1
  have hcfg := (run_nonceInv true c (Or.inl rfl) ops (St.init c) rfl (init_nonceInv c)).2
  have hst : activateStatus (run (St.init c) ops).cfg x.nonce cs (.user pid name (.enc d u p v)) ≠ none := by
    intro h
    obtain ⟨-, -, -, -, nm, q, -, hpw, -⟩ := activate_ok_only_if _ _ _ _ h
    simp only [PasswordFor] at hpw
    exact hne hpw.2.2.2.2
  simp only [step, stepWith, hx]
  cases hs : activateStatus (run (St.init c) ops).cfg x.nonce cs (.user pid name (.enc d u p v)) with
  | none => exact absurd hs hst
  | some e => exact ⟨e, rfl⟩

/-- the same for X.509 user tokens: a signature made over an earlier nonce does not verify -/
theorem replayed_user_signature_rejected (c : Cfg) (ops : List Op) (i : Nat) (x : Sess)
    (hx : (run (St.init c) ops).sessions[i]? = some x) (j k v : Nat)
    (hj : (run (St.init c) ops).handed[j]? = some v)
    (hk : (run (St.init c) ops).handed[k]? = some x.nonce) (hjk : j ≠ k)
    (cs : ClientSig) (pid : Nat) (cert : Option Nat) (key : Nat) :
    ∃ e, (step (run (St.init c) ops) (.activate i cs (.x509 pid cert (.by key v)))).2 = .fault e := by
  have hne := (nonces_never_repeat c ops j k v x.nonce hj hk hjk).1
  have hst : activateStatus (run (St.init c) ops).cfg x.nonce cs (.x509 pid cert (.by key v)) ≠ none := by
    intro h
    obtain ⟨-, -, -, -, -, t, -, hv, -⟩ := activate_ok_only_if _ _ _ _ h
    simp only [sigValid, Bool.and_eq_true, beq_iff_eq] at hv
    exact hne hv.2
  simp only [step, stepWith, hx]
  cases hs : activateStatus (run (St.init c) ops).cfg x.nonce cs (.x509 pid cert (.by key v)) with
  | none => exact absurd hs hst
  | some e => exact ⟨e, rfl⟩

/-- a failed ActivateSession leaves the session nonce as it was and de-activates the session -/
theorem failed_activation_keeps_nonce (fresh : Bool) (s : St) (i : Nat) (x : Sess)
    (hx : s.sessions[i]? = some x) (cs : ClientSig) (tok : IdTok) (e : Status)
    (h : (stepWith fresh s (.activate i cs tok)).2 = .fault e) :
    (stepWith fresh s (.activate i cs tok)).1.sessions[i]? = some { x with activated := false } ∧
    (stepWith fresh s (.activate i cs tok)).1.handed = s.handed := by
  simp only [stepWith, hx] at h ⊢
  split at h
  · rename_i hs
    skip
    have hi : i < s.sessions.length := by
      rcases Nat.lt_or_ge i s.sessions.length with h | h
      · exact h
      · rw [List.getElem?_eq_none h] at hx; simp at hx
    simp [setAt, hi]
  · simp at h

/-! ### the defect of the pinned source (recorded finding, fixed) -/

/-- a None-channel endpoint that allows user 1 (password 1) -/
def cfgNone : Cfg :=
  { endpointOk := true, tokenIds := [1], users := [(1, .userpass 1 (some 1))], pwPolicyId := 1,
    hasKey := true, hasCert := true, secured := false }

/-- the token of the witness: password 1 encrypted (OAEP) for the nonce of the CreateSession response -/
def replayTok (nonce : Nat) : IdTok := .user 1 (some 1) (.enc .oaep .oaep 1 nonce)

/-- **Counterexample for the pinned source** (`SecurityPolicy::None.random_nonce()` = null, model
`stepWith false`): on a None channel the token that was accepted once is accepted again after the
session nonce was "renewed" — the replay is not rejected. -/
theorem C20_counterexample_none_channel_replay :
    let s1 := (stepWith false (St.init cfgNone) .create).1
    let tok := replayTok (s1.handed[0]?.getD 99)
    let s2 := (stepWith false s1 (.activate 0 .null tok)).1
    (stepWith false s1 (.activate 0 .null tok)).2 = .activated 1 ∧
    (stepWith false s2 (.activate 0 .null tok)).2 = .activated 2 := by
  decide

/-- the same witness on the repaired source: first use accepted, replay rejected -/
theorem C20_witness_rejected_after_fix :
    let s1 := (stepWith true (St.init cfgNone) .create).1
    let tok := replayTok (s1.handed[0]?.getD 99)
    let s2 := (stepWith true s1 (.activate 0 .null tok)).1
    (stepWith true s1 (.activate 0 .null tok)).2 = .activated 1 ∧
    (stepWith true s2 (.activate 0 .null tok)).2 = .fault .BadDecodingError := by
  decide

/-- the current source is the repaired variant -/
theorem source_is_fresh : step = stepWith true := rfl

/-! ### non-vacuity -/

/-- a secured endpoint with anonymous access, two users and one certificate -/
def cfgDemo : Cfg :=
  { endpointOk := true, tokenIds := [0, 1, 2, 4],
    users := [(1, .userpass 1 (some 1)), (2, .userpass 2 none), (3, .userpass 3 (some 2)), (4, .x509 (some 1)), (5, .x509 (some 2))],
    pwPolicyId := 3, hasKey := true, hasCert := true, secured := true }

example : NamesDistinct cfgDemo := by
  intro id1 h1 id2 h2 n p1 p2
  simp only [cfgDemo, List.mem_cons, List.mem_nil_iff, or_false] at h1 h2
  rcases h1 with rfl | rfl | rfl | rfl <;> rcases h2 with rfl | rfl | rfl | rfl <;>
    simp [lookupUser, cfgDemo, List.lookup]
  all_goals (intro h; subst h; simp)

example : activateStatus cfgDemo 7 (.over 7) (.anon 0) = none := by decide
example : activateStatus cfgDemo 7 (.over 7) (.user 3 (some 1) (.enc .oaep .oaep 1 7)) = none := by decide
example : activateStatus cfgDemo 7 (.over 7) (.user 3 (some 1) (.enc .oaep .oaep 1 6)) = some .BadDecodingError := by decide
example : activateStatus cfgDemo 7 (.over 7) (.user 3 (some 3) (.plain 2 false)) = some .BadUserAccessDenied := by decide
example : activateStatus cfgDemo 7 (.over 7) (.user 3 (some 2) (.plain 0 false)) = none := by decide
example : activateStatus cfgDemo 7 (.over 7) (.x509 4 (some 1) (.by 1 7)) = none := by decide
example : activateStatus cfgDemo 7 (.over 7) (.x509 4 (some 2) (.by 2 7)) = some .BadIdentityTokenInvalid := by decide
example : activateStatus cfgDemo 7 (.over 6) (.anon 0) = some .BadSecurityChecksFailed := by decide

/-- hypotheses of `replayed_encrypted_token_rejected` are satisfiable: after create + one successful
activation the session's nonce sits at index 1 and index 0 holds an earlier one -/
example :
    let s := run (St.init cfgNone) [.create, .activate 0 .null (.user 1 (some 1) (.plain 1 false))]
    s.sessions[0]? = some { nonce := 2, activated := true, user := some 1 } ∧ s.handed = [1, 2] := by
  decide

end OpcuaVerif.C20
