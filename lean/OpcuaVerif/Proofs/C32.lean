import OpcuaVerif.Model.C32

/-!
C32 — Attribute reads and writes obey access rights and never crash.
Property theorems.  The model is `OpcuaVerif.Model.C32`.
-/
namespace OpcuaVerif.C32

/-! ### totality: every read / write returns a status -/

/-- the parser only produces ranges with `min < max` -/
theorem parsePart_wf (s : Bytes) (r : NR) (h : parsePart s = some r) : r.wf = true := by
  unfold parsePart at h
  split at h
  · split at h
    · simp at h; subst h; rfl
    · simp at h
  · split at h
    · rename_i hc
      simp at h; subst h
      simp [NR.wf, hc.2.2.1]
    · simp at h
  · simp at h

theorem parseRange_wf (s : Bytes) (r : NR) (h : parseRange s = some r) : r.wf = true := by
  unfold parseRange at h
  split at h
  · simp at h; subst h; rfl
  · simp only at h
    split at h
    · exact parsePart_wf s r h
    · split at h
      · split at h
        · simp at h; subst h; rfl
        · simp at h
      · simp at h

theorem strSubstring_checked_ne_panic (b : Option Bytes) (min max : Nat) :
    strSubstring true b min max ≠ .panic := by
  cases b with
  | none => simp [strSubstring]
  | some v =>
    simp only [strSubstring, if_true]
    repeat' split
    all_goals simp

theorem bstrSubstring_ne_panic (b : Option Bytes) (min max : Nat) (h : min ≤ max) :
    bstrSubstring b min max ≠ .panic := by
  unfold bstrSubstring
  split
  · simp
  · split
    · simp
    · simp only
      split
      · rw [if_neg (by omega)]; simp
      · rw [if_neg (by omega)]; simp

theorem liftOne_ne_panic {x : Sl Elem} (h : x ≠ .panic) : liftOne x ≠ .panic := by
  cases x <;> simp [liftOne] at *

/-- `range_of` (with the repaired `substring`) never panics, for every value and every range the
parser can produce -/
theorem rangeOf_total (v : Val) (r : NR) (hwf : r.wf = true) : rangeOfWith true v r ≠ .panic := by
  unfold rangeOfWith
  cases r with
  | none => simp
  | multi => simp
  | index i =>
    simp only
    split
    · exact liftOne_ne_panic (strSubstring_checked_ne_panic _ _ _)
    · exact liftOne_ne_panic (bstrSubstring_ne_panic _ _ _ (Nat.le_refl _))
    · split <;> simp
    · simp
  | range a b =>
    have hab : a < b := by simpa [NR.wf] using hwf
    simp only
    split
    · exact liftOne_ne_panic (strSubstring_checked_ne_panic _ _ _)
    · exact liftOne_ne_panic (bstrSubstring_ne_panic _ _ _ (by omega))
    · split
      · simp
      · rename_i h1
        have hlt : ¬ ((if b ≥ ‹List Elem›.length then ‹List Elem›.length - 1 else b) + 1 < a) := by
          split <;> omega
        rw [if_neg hlt]; simp
    · simp

/-- **Read returns a status (never panics) for every node, attribute id, index-range string and
stored value.** -/
theorem read_total (var : Option Var) (attr : Nat) (range : Bytes) : read var attr range ≠ .panic := by
  unfold read readWith
  split
  · simp
  · split
    · simp
    · split
      · simp
      · rename_i r hr
        have hwf := parseRange_wf range r hr
        split
        · simp
        · split
          · simp
          · split
            · have := rangeOf_total ‹Var›.value r hwf
              split <;> simp_all
            · split <;> simp

/-! `write` is a total function into `Status × Option Var` by construction: the model has no panic
outcome on the write path because the code has no slicing / indexing there that is not guarded
(`set_range_of` checks `idx < len` and `min < len` before it assigns; see `copyRange`). -/

/-! ### access rights and type compatibility -/

/-- **A write succeeds only if the user access level allows writing, the attribute is Value and the
value's type is compatible.** -/
theorem write_good_requires (v : Var) (attr : Nat) (range : Bytes) (x : Option Val)
    (h : (write (some v) attr range x).1 = .good) :
    attr = 13 ∧ canWrite v = true ∧ ∃ y, x = some y ∧ validate v y = true := by
  unfold write at h
  simp only at h
  split at h
  · simp at h
  · split at h
    · simp at h
    · rename_i hw
      simp only [Bool.not_eq_true', decide_eq_false_iff_not, Classical.not_not] at hw
      split at h
      · simp at h
      · split at h
        · simp at h
        · rename_i y
          split at h
          · simp at h
          · rename_i hv
            simp only [Bool.not_eq_true', Bool.not_eq_false] at hv
            exact ⟨hw.1, hw.2, y, rfl, by simpa using hv⟩

/-- **A read of the value succeeds only with CurrentRead.** -/
theorem read_value_requires_access (v : Var) (attr : Nat) (range : Bytes) (y : Val)
    (h : read (some v) attr range = .value y) : canRead v = true := by
  unfold read readWith at h
  simp only at h
  split at h
  · simp at h
  · split at h
    · simp at h
    · split at h
      · simp at h
      · rename_i hr; simpa using hr

theorem write_good_or_noop (var : Option Var) (attr : Nat) (range : Bytes) (x : Option Val) :
    (write var attr range x).1 = .good ∨ (write var attr range x).2 = var := by
  unfold write
  repeat' split
  all_goals (try simp)
  generalize setRangeOf _ _ _ = e
  cases e <;> simp

/-- **A rejected write leaves the variable unchanged.** -/
theorem rejected_write_is_noop (var : Option Var) (attr : Nat) (range : Bytes) (x : Option Val)
    (h : (write var attr range x).1 ≠ .good) : (write var attr range x).2 = var := by
  rcases write_good_or_noop var attr range x with h' | h'
  · exact absurd h' h
  · exact h'

/-- only the value of the variable can change (data type, rank, access level are untouched) -/
theorem write_keeps_meta (v : Var) (attr : Nat) (range : Bytes) (x : Option Val) :
    ∃ v', (write (some v) attr range x).2 = some v' ∧ v'.dataType = v.dataType ∧ v'.rank = v.rank ∧
      v'.access = v.access := by
  unfold write
  simp only
  split
  · exact ⟨v, rfl, rfl, rfl, rfl⟩
  · split
    · exact ⟨v, rfl, rfl, rfl, rfl⟩
    · split
      · exact ⟨v, rfl, rfl, rfl, rfl⟩
      · split
        · exact ⟨v, rfl, rfl, rfl, rfl⟩
        · split
          · exact ⟨v, rfl, rfl, rfl, rfl⟩
          · split
            · exact ⟨_, rfl, rfl, rfl, rfl⟩
            · split
              · exact ⟨_, rfl, rfl, rfl, rfl⟩
              · exact ⟨v, rfl, rfl, rfl, rfl⟩

/-! ### a successful write is observed by a subsequent read -/

theorem convert_arr (v : Var) (t : Nat) (es : List Elem) : convert v (.arr t es) = .arr t es := by
  unfold convert; split <;> rfl

/-- **Whole-value write, then whole-value read.**  (`convert` is the ByteString → Byte-array
conversion of `Variable::set_value`; it is the identity unless the variable is a Byte array and the
value a ByteString.) -/
theorem read_after_write_whole (v : Var) (range : Bytes) (y : Val)
    (hr : parseRange range = some .none) (hw : canWrite v = true) (hv : validate v y = true) :
    write (some v) 13 range (some y) = (.good, some { v with value := convert v y }) ∧
      (canRead v = true →
        read (some { v with value := convert v y }) 13 range = .value (convert v y)) := by
  constructor
  · simp [write, attrValid, hw, hr, hv]
  · intro hrd
    have : canRead { v with value := convert v y } = true := hrd
    simp [read, readWith, attrValid, hr, this, rangeOfWith]

/-- the copy loop of `set_range_of`: which element ends up where -/
theorem copyRange_getElem? (vals other : List Elem) (a b j : Nat) :
    (copyRange vals other a b)[j]? =
      if a ≤ j ∧ j ≤ b ∧ j - a < other.length ∧ j < vals.length then other[j - a]? else vals[j]? := by
  unfold copyRange
  rw [List.getElem?_mapIdx]
  cases hv : vals[j]? with
  | none =>
    have hj : ¬ j < vals.length := by
      have := List.getElem?_eq_none_iff.mp hv; omega
    simp [hj]
  | some e =>
    have hj : j < vals.length := by
      by_cases h : j < vals.length
      · exact h
      · rw [List.getElem?_eq_none_iff.mpr (by omega)] at hv; simp at hv
    simp only [Option.map_some]
    by_cases h1 : a ≤ j ∧ j ≤ b
    · rw [if_pos h1]
      cases ho : other[j - a]? with
      | none =>
        have h2 : ¬ j - a < other.length := by
          have := List.getElem?_eq_none_iff.mp ho; omega
        rw [if_neg (fun h => h2 h.2.2.1)]
      | some o =>
        have h2 : j - a < other.length := by
          by_cases h : j - a < other.length
          · exact h
          · rw [List.getElem?_eq_none_iff.mpr (by omega)] at ho; simp at ho
        rw [if_pos ⟨h1.1, h1.2, h2, hj⟩]
    · rw [if_neg h1, if_neg (fun h => h1 ⟨h.1, h.2.1⟩)]

theorem copyRange_length (vals other : List Elem) (a b : Nat) :
    (copyRange vals other a b).length = vals.length := by
  unfold copyRange; simp

/-- **Index write, then read of the same index**: the written element is read back, every other
element is unchanged. -/
theorem read_after_write_index (v : Var) (ty oty i : Nat) (vals os : List Elem) (o : Elem) (range : Bytes)
    (hval : v.value = .arr ty vals) (hr : parseRange range = some (.index i))
    (hw : canWrite v = true) (hrd : canRead v = true)
    (hv : validate v (.arr oty (o :: os)) = true)
    (hty : (Val.arr ty vals).arrayTy = some o.ty) (ho : o.ty ≠ 22) (hi : i < vals.length) :
    write (some v) 13 range (some (.arr oty (o :: os))) =
        (.good, some { v with value := .arr ty (vals.set i o) }) ∧
      read (some { v with value := .arr ty (vals.set i o) }) 13 range = .value (.arr ty [o]) ∧
      ∀ j, j ≠ i → (vals.set i o)[j]? = vals[j]? := by
  have hne : ¬ i ≥ vals.length := by omega
  refine ⟨?_, ?_, ?_⟩
  · have h2 : (Val.arr oty (o :: os)).arrayTy = some o.ty := by simp [Val.arrayTy, Elem.dty, ho]
    simp [write, attrValid, hw, hr, hv, convert_arr, setRangeOf, hval, hty, h2, hne]
  · have : canRead { v with value := Val.arr ty (vals.set i o) } = true := hrd
    simp [read, readWith, attrValid, hr, this, rangeOfWith, hi]
  · intro j hj
    rw [List.getElem?_set_ne (Ne.symm hj)]

/-- **Range write, then read of the same range**: the write succeeds, the read returns the elements
`a ..= min b (len-1)`, of which the first `min (b-a+1) (len-a) |other|` are the written ones (the
elements actually copied are read back) and the rest are the old ones. -/
theorem read_after_write_range (v : Var) (ty oty a b : Nat) (vals os : List Elem) (o : Elem) (range : Bytes)
    (hval : v.value = .arr ty vals) (hr : parseRange range = some (.range a b))
    (hw : canWrite v = true) (hrd : canRead v = true)
    (hv : validate v (.arr oty (o :: os)) = true)
    (hty : (Val.arr ty vals).arrayTy = some o.ty) (ho : o.ty ≠ 22) (ha : a < vals.length) :
    let nv := copyRange vals (o :: os) a b
    write (some v) 13 range (some (.arr oty (o :: os))) = (.good, some { v with value := .arr ty nv }) ∧
      ∃ rs, read (some { v with value := .arr ty nv }) 13 range = .value (.arr ty rs) ∧
        ∀ k, a + k ≤ b → a + k < vals.length →
          rs[k]? = if k < (o :: os).length then (o :: os)[k]? else vals[a + k]? := by
  have hne : ¬ a ≥ vals.length := by omega
  intro nv
  refine ⟨?_, ?_⟩
  · have h2 : (Val.arr oty (o :: os)).arrayTy = some o.ty := by simp [Val.arrayTy, Elem.dty, ho]
    simp [write, attrValid, hw, hr, hv, convert_arr, setRangeOf, hval, hty, h2, hne, nv]
  · have hc : canRead { v with value := Val.arr ty nv } = true := hrd
    have hl : nv.length = vals.length := copyRange_length _ _ _ _
    refine ⟨(nv.drop a).take ((if b ≥ nv.length then nv.length - 1 else b) + 1 - a), ?_, ?_⟩
    · have hab : a < b := by simpa [NR.wf] using parseRange_wf range _ hr
      have hlt : ¬ ((if b ≥ nv.length then nv.length - 1 else b) + 1 < a) := by
        split <;> omega
      simp only [read, readWith, attrValid, hr, hc, rangeOfWith]
      simp [hl, hne]
      rw [hl] at hlt
      rw [if_neg (by simpa using hlt)]
    · intro k hk1 hk2
      rw [List.getElem?_take]
      have hlt : k < (if b ≥ nv.length then nv.length - 1 else b) + 1 - a := by
        split <;> omega
      rw [if_pos hlt, List.getElem?_drop, copyRange_getElem?]
      by_cases hk : k < (o :: os).length
      · rw [if_pos ⟨by omega, hk1, by simpa [Nat.add_sub_cancel_left] using hk, hk2⟩, if_pos hk]
        simp [Nat.add_sub_cancel_left]
      · rw [if_neg (by intro h; exact hk (by simpa [Nat.add_sub_cancel_left] using h.2.2.1)), if_neg hk]

/-! ### the recorded defect of the pinned source (before the `fix:` commit) -/

/-- "héllo" = 68 c3 a9 6c 6c 6f -/
def hello : Val := .one (.str (some [0x68, 0xc3, 0xa9, 0x6c, 0x6c, 0x6f]))

/-- On the pinned source, reading index 2 of "héllo" (inside the two-byte `é`) panics. -/
theorem C32_counterexample_substring_panics :
    readWith false (some ⟨12, -1, 3, hello⟩) 13 [0x32] = .panic := by decide

/-- the repaired source answers BadIndexRangeNoData, and still slices on character boundaries -/
theorem witness_fixed :
    read (some ⟨12, -1, 3, hello⟩) 13 [0x32] = .status .badIndexRangeNoData ∧
    read (some ⟨12, -1, 3, hello⟩) 13 [0x31, 0x3a, 0x32] = .value (.one (.str (some [0xc3, 0xa9]))) := by
  decide

/-! ### non-vacuity of the hypotheses above -/

example : ∃ (v : Var) (range : Bytes) (y : Val), parseRange range = some .none ∧ canWrite v = true ∧
    validate v y = true ∧ canRead v = true := ⟨⟨6, -1, 3, .empty⟩, [], .one (.num 6 5), by decide⟩

example : ∃ (v : Var) (ty oty a b : Nat) (vals os : List Elem) (o : Elem) (range : Bytes),
    v.value = .arr ty vals ∧ parseRange range = some (.range a b) ∧ canWrite v = true ∧ canRead v = true ∧
    validate v (.arr oty (o :: os)) = true ∧ (Val.arr ty vals).arrayTy = some o.ty ∧ o.ty ≠ 22 ∧ a < vals.length :=
  ⟨⟨27, 1, 3, .arr 6 [.num 6 1, .num 6 2, .num 6 3]⟩, 6, 6, 1, 5, _, [.num 6 8], .num 6 7, [0x31, 0x3a, 0x35],
    rfl, by decide, by decide, by decide, by decide, by decide, by decide, by decide⟩

/-- a ByteString written to a Byte array is read back as that array -/
example : (write (some ⟨3, 1, 3, .arr 3 []⟩) 13 [] (some (.one (.bstr (some [10, 11]))))).2 =
    some ⟨3, 1, 3, .arr 3 [.num 3 10, .num 3 11]⟩ := by decide

/-! ### nodes of every class, every attribute (Read / Write on the whole API surface) -/

/-- **Read of any attribute of any node class returns a status, never panics.** -/
theorem readNode_total (node : Option Node) (attr : Nat) (range : Bytes) : readNode node attr range ≠ .panic := by
  unfold readNode readNodeWith
  split
  · simp
  · split
    · exact read_total _ _ _
    · repeat' split
      all_goals simp

theorem setAttribute_good_or_same (n : Node) (a : Nat) (x : Val) :
    (setAttribute n a x).1 = .good ∨ (setAttribute n a x).2 = n := by
  unfold setAttribute
  cases setAttr? n.cls a x <;> simp

/-- a write that is not Good leaves the node (every attribute, the value, the masks) unchanged -/
theorem writeNode_good_or_noop (node : Option Node) (attr : Nat) (range : Bytes) (null : Bool) (x : Option Val) :
    (writeNode node attr range null x).1 = .good ∨ (writeNode node attr range null x).2 = node := by
  unfold writeNode
  split
  · simp
  · rename_i n
    split
    · have := write_good_or_noop (some n.var) attr range x
      cases hw : write (some n.var) attr range x with
      | mk st ov =>
        rw [hw] at this
        cases ov with
        | none => simp
        | some v =>
          simp only at this ⊢
          rcases this with h | h
          · exact Or.inl h
          · right; simp only [Option.some.injEq] at h; subst h; rfl
    · repeat' split
      all_goals (try simp)
      rename_i y _
      rcases setAttribute_good_or_same n attr y with h | h
      · exact Or.inl h
      · exact Or.inr h

theorem writeNode_rejected_is_noop (node : Option Node) (attr : Nat) (range : Bytes) (null : Bool) (x : Option Val)
    (h : (writeNode node attr range null x).1 ≠ .good) : (writeNode node attr range null x).2 = node := by
  rcases writeNode_good_or_noop node attr range null x with h' | h'
  · exact absurd h' h
  · exact h'

/-- **A Good write of a Variable's Value needs CurrentWrite *as it is now* (after any earlier write
to UserAccessLevel) and a compatible value; a Good write of any other attribute needs the bit of
that attribute in the node's current write mask.** -/
theorem writeNode_good_requires (n : Node) (attr : Nat) (range : Bytes) (null : Bool) (x : Option Val)
    (h : (writeNode (some n) attr range null x).1 = .good) :
    (n.cls = 2 ∧ attr = 13 ∧ canWrite n.var = true ∧ ∃ y, x = some y ∧ validate n.var y = true) ∨
    (¬ (n.cls = 2 ∧ attr = 13) ∧ isWritable n attr = true) := by
  unfold writeNode at h
  simp only at h
  split at h
  · rename_i hc
    left
    have hg : (write (some n.var) attr range x).1 = .good := by
      cases hw : write (some n.var) attr range x with
      | mk st ov => rw [hw] at h; cases ov <;> simpa using h
    obtain ⟨h1, h2, h3⟩ := write_good_requires n.var attr range x hg
    exact ⟨hc.1, h1, h2, h3⟩
  · rename_i hc
    right
    refine ⟨hc, ?_⟩
    split at h
    · simp at h
    · split at h
      · simp at h
      · rename_i hw; simpa using hw

theorem applyUpd_keeps_value (n : Node) (u : Upd) : (applyUpd n u).var.value = n.var.value ∧ (applyUpd n u).cls = n.cls := by
  cases u <;> exact ⟨rfl, rfl⟩

/-- writing the UserAccessLevel attribute is observed by the access checks that follow -/
theorem access_write_observed (n : Node) (b : Int) (hc : n.cls = 2) (hm : isWritable n 18 = true) :
    ∃ n', writeNode (some n) 18 [] true (some (.one (.num 3 b))) = (.good, some n') ∧
      n'.var.access = b.toNat % 16 ∧ n'.var.value = n.var.value := by
  refine ⟨{ n with var := { n.var with access := b.toNat % 16 } }, ?_, rfl, rfl⟩
  simp [writeNode, attrValid, hm, parseRange, setAttribute, setAttr?, hc, applyUpd]

/-- only a write to the Value attribute can change a variable's value -/
theorem writeNode_other_attr_keeps_value (n : Node) (attr : Nat) (range : Bytes) (null : Bool) (x : Option Val)
    (ha : attr ≠ 13) : ∃ n', (writeNode (some n) attr range null x).2 = some n' ∧ n'.var.value = n.var.value ∧ n'.cls = n.cls := by
  unfold writeNode
  simp only
  rw [if_neg (fun h => ha h.2)]
  by_cases h1 : (!attrValid attr) = true
  · rw [if_pos h1]; exact ⟨n, rfl, rfl, rfl⟩
  rw [if_neg h1]
  by_cases h2 : (!isWritable n attr) = true
  · rw [if_pos h2]; exact ⟨n, rfl, rfl, rfl⟩
  rw [if_neg h2]
  by_cases h3 : attr ≠ 13 ∧ (!null) = true
  · rw [if_pos h3]; exact ⟨n, rfl, rfl, rfl⟩
  rw [if_neg h3]
  cases parseRange range with
  | none => exact ⟨n, rfl, rfl, rfl⟩
  | some r =>
    cases x with
    | none => exact ⟨n, rfl, rfl, rfl⟩
    | some y =>
      simp only
      rw [if_neg ha]
      unfold setAttribute
      cases hs : setAttr? n.cls attr y with
      | error e => exact ⟨n, rfl, rfl, rfl⟩
      | ok u => exact ⟨applyUpd n u, rfl, (applyUpd_keeps_value n u).1, (applyUpd_keeps_value n u).2⟩

end OpcuaVerif.C32
