import OpcuaVerif.Model.C38
import OpcuaVerif.Generated.LockEdges

/-!
C38 — Server locks are always taken in one global order.

Part 1 (general, once and for all): if every acquisition is of a class of strictly greater rank
than every class the acquiring task holds, no configuration has a wait-for cycle.
Part 2 (instance, regenerated on every run): the rank computed by the translator is checked
against every observed nesting that lies between different strongly connected components.
Part 3 (the finding): the observed nestings inside one component cannot be ranked at all, and two
tasks following two observed nestings of an inverted pair form a wait-for cycle at the level of
lock classes.

PARTIAL by nature: only executed lock sites are seen; classes stand for all lock objects of a
type; reader/writer sharing and parking_lot's fairness are not modelled.
-/
namespace OpcuaVerif.C38

/-! ### Part 1 — ranked acquisition discipline ⇒ no wait-for cycle -/

/-- a configuration of tasks `τ` over lock classes `α`: what each task holds and what it is blocked on -/
structure Config (τ α : Type) where
  holds : τ → α → Prop
  waits : τ → Option α

/-- wait-for cycle `t 0 → t 1 → … → t k → t 0`: each task is blocked on a class that the next one holds
(`k = 0`: a task blocked on a class it holds itself) -/
def WaitCycle {τ α : Type} (cfg : Config τ α) : Prop :=
  ∃ (k : Nat) (t : Nat → τ) (c : Nat → α),
    ∀ i, i ≤ k → cfg.waits (t i) = some (c i) ∧ cfg.holds (t (if i = k then 0 else i + 1)) (c i)

/-- the discipline: whatever a task waits for ranks strictly above everything it holds -/
def Disciplined {τ α : Type} (rank : α → Nat) (cfg : Config τ α) : Prop :=
  ∀ t c h, cfg.waits t = some c → cfg.holds t h → rank h < rank c

theorem ranked_no_deadlock {τ α : Type} (rank : α → Nat) (cfg : Config τ α)
    (hd : Disciplined rank cfg) : ¬ WaitCycle cfg := by
  rintro ⟨k, t, c, hc⟩
  -- along the cycle the rank of the awaited class strictly increases …
  have step : ∀ i, i < k → rank (c i) < rank (c (i + 1)) := by
    intro i hi
    have h1 := hc i (by omega)
    have h2 := hc (i + 1) (by omega)
    rw [if_neg (by omega)] at h1
    exact hd (t (i + 1)) (c (i + 1)) (c i) h2.1 h1.2
  have mono : ∀ i, i ≤ k → rank (c 0) + i ≤ rank (c i) := by
    intro i
    induction i with
    | zero => intro _; omega
    | succ i ih => intro hi; have := step i (by omega); have := ih (by omega); omega
  -- … and closes: contradiction
  have hk := hc k (Nat.le_refl k)
  rw [if_pos rfl] at hk
  have h0 := hc 0 (Nat.zero_le k)
  have := hd (t 0) (c 0) (c k) h0.1 hk.2
  have := mono k (Nat.le_refl k)
  omega

/-- the set of nestings a system can exhibit: `(h, c)` = "`c` is requested while `h` is held" -/
def Within {τ α : Type} (E : List (α × α)) (cfg : Config τ α) : Prop :=
  ∀ t c h, cfg.waits t = some c → cfg.holds t h → (h, c) ∈ E

def EdgesRanked {α : Type} (rank : α → Nat) (E : List (α × α)) : Prop :=
  ∀ e ∈ E, rank e.1 < rank e.2

/-- if all nestings of a system respect a rank, none of its configurations has a wait-for cycle -/
theorem no_deadlock_of_edges_ranked {τ α : Type} (rank : α → Nat) (E : List (α × α)) (cfg : Config τ α)
    (hE : EdgesRanked rank E) (hw : Within E cfg) : ¬ WaitCycle cfg :=
  ranked_no_deadlock rank cfg (fun t c h h1 h2 => hE (h, c) (hw t c h h1 h2))

/-- non-vacuity: a two-task configuration that is disciplined (ranks 0 < 1) and where someone waits -/
example : Disciplined (fun b : Bool => if b then 1 else 0)
    ({ holds := fun (t : Bool) x => t = true ∧ x = false, waits := fun t => if t then some true else none }
      : Config Bool Bool) := by
  intro t c h hw hh
  cases t <;> simp_all

/-! ### Part 2 — the observed nestings between components respect the regenerated rank -/

/-- the regenerated rank as a total function (classes outside the table do not occur in the edges) -/
def rankNat (c : Class) : Nat :=
  match rankOf Gen.rankTable c with
  | some r => r
  | none => 0

/-- every ranked nesting is accepted by the executable check the driver uses -/
theorem observed_edges_checked : ∀ e ∈ Gen.rankedEdges, checkEdge Gen.rankTable e.1 e.2 = .ranked := by
  decide

/-- **observed_edges_ranked** (regenerated obligation): the rank computed by the translator strictly
increases along every observed nesting between different components. -/
theorem observed_edges_ranked : EdgesRanked rankNat Gen.rankedEdges := by
  unfold EdgesRanked; decide

/-- hence: any configuration whose hold/wait pairs are among those nestings has no wait-for cycle -/
theorem no_deadlock_within_ranked_observed {τ : Type} (cfg : Config τ Class)
    (hw : Within Gen.rankedEdges cfg) : ¬ WaitCycle cfg :=
  no_deadlock_of_edges_ranked rankNat Gen.rankedEdges cfg observed_edges_ranked hw

/-! ### Part 3 — the recorded finding: nestings that admit no global order -/

/-- a closed chain of nestings cannot be ranked -/
theorem inverted_pair_no_rank {α : Type} (E : List (α × α)) (a b : α) (h1 : (a, b) ∈ E) (h2 : (b, a) ∈ E) :
    ¬ ∃ rank : α → Nat, EdgesRanked rank E := by
  rintro ⟨rank, hr⟩
  have x := hr (a, b) h1
  have y := hr (b, a) h2
  simp only at x y
  omega

/-- two tasks that each follow one nesting of an inverted pair block each other -/
theorem inverted_pair_deadlock {α : Type} (E : List (α × α)) (a b : α) (h1 : (a, b) ∈ E) (h2 : (b, a) ∈ E) :
    ∃ cfg : Config Bool α, Within E cfg ∧ WaitCycle cfg := by
  refine ⟨{ holds := fun t x => if t then x = a else x = b, waits := fun t => if t then some b else some a }, ?_, ?_⟩
  · intro t c h hw hh
    cases t
    · simp only [Bool.false_eq_true, if_false, Option.some.injEq] at hw hh; subst hw; subst hh; exact h2
    · simp only [if_true, Option.some.injEq] at hw hh; subst hw; subst hh; exact h1
  · refine ⟨1, fun i => i == 0, fun i => if i = 0 then b else a, ?_⟩
    intro i hi
    have : i = 0 ∨ i = 1 := by omega
    rcases this with rfl | rfl <;> simp

/-- every generated inverted pair really is observed in both orders -/
theorem inversions_observed :
    ∀ p ∈ Gen.inversions, p ∈ Gen.cyclicEdges ∧ (p.2, p.1) ∈ Gen.cyclicEdges := by decide

/-- **C38_counterexample_no_global_order**: the nestings observed on the unchanged server cannot all
respect one order of the lock classes (whenever the translator reports an inverted pair), and at
the level of lock classes each inverted pair is a deadlock of two tasks. -/
theorem C38_counterexample_no_global_order :
    ∀ p ∈ Gen.inversions,
      (¬ ∃ rank : Class → Nat, EdgesRanked rank Gen.cyclicEdges) ∧
      (∃ cfg : Config Bool Class, Within Gen.cyclicEdges cfg ∧ WaitCycle cfg) := by
  intro p hp
  have ⟨h1, h2⟩ := inversions_observed p hp
  exact ⟨inverted_pair_no_rank _ p.1 p.2 h1 h2, inverted_pair_deadlock _ p.1 p.2 h1 h2⟩

/-- the pinned tree does have inverted pairs (the documented order ServerState → Session →
AddressSpace is not kept by the Call service and by session set-up / tear-down; the pairs are listed
with their source locations in the comments of `Generated/LockEdges.lean`) -/
theorem C38_counterexample_has_inversion : Gen.inversions ≠ [] := by decide

end OpcuaVerif.C38
