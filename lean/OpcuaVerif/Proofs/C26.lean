import OpcuaVerif.Model.C26

/-!
C26 — Client timestamps and wall-clock jumps cannot crash subscription processing.
Property theorems only.  Model: `OpcuaVerif.Model.C26` (`fixed = true` is the current source).
-/
namespace OpcuaVerif.C26

open OpcuaVerif.C22 (Sess Resp)

/-! ### No panic from time arithmetic, for every timestamp and every clock movement -/

/-- `test_and_set_publishing_interval_elapsed` is total: any `now`, also before the last time -/
theorem elapsedCheck_total (last now : Int) (interval : Nat) :
    ∃ r, elapsedCheck true last now interval = some r := by
  unfold elapsedCheck
  split
  · exact ⟨_, rfl⟩
  · split <;> exact ⟨_, rfl⟩

/-- the sampling-interval test of `MonitoredItem::tick` is total -/
theorem itemTick_total (samp last now : Int) (e : Bool) :
    ∃ r, itemTick true samp last now e = some r := by
  unfold itemTick itemCheck
  split
  · exact ⟨_, rfl⟩
  · split
    · exact ⟨_, rfl⟩
    · split <;> exact ⟨_, rfl⟩

/-- `expire_stale_publish_requests` is total: any request timestamps (past, future, null,
extremes), any `now` -/
theorem expire_total (timeout now : Int) (rs : List Req) :
    ∃ kept out, expire true timeout now rs = some (kept, out) := by
  induction rs with
  | nil => exact ⟨[], [], rfl⟩
  | cons r rs ih =>
    obtain ⟨kept, out, h⟩ := ih
    have hr : ∃ b, isExpired true timeout now r = some b := by
      unfold isExpired; split <;> exact ⟨_, rfl⟩
    obtain ⟨b, hb⟩ := hr
    cases b
    · exact ⟨r :: kept, out, by simp [expire, hb, h]⟩
    · exact ⟨kept, r :: out, by simp [expire, hb, h]⟩

/-- **No crash from time.**  One round of the subscription timer task (expire, tick) at ANY time
`now` — before or after anything seen so far — with ANY queued request headers can only fail if
the subscription state machine itself fails on the tick (which C22 excludes); the time arithmetic
never does. -/
theorem cycle_panics_only_in_state_machine (s : St) (now : Int)
    (h : ∀ (reqs : List Nat) (e : Bool), C22.sessTick { s.z with reqs := reqs } true e ≠ none) :
    ∃ r, cycle true s now = some r := by
  obtain ⟨kept, out, he⟩ := expire_total s.timeout now (s.z.reqs.map (lookup s.hdrs))
  simp only [cycle, expireStep, he]
  unfold timerTick
  simp only
  cases hsub : s.z.sub with
  | none => exact ⟨_, rfl⟩
  | some sub =>
    simp only
    have key : ∀ e : Bool, ∃ r, C22.sessTick { sub := some sub, reqs := kept.map (·.rid) } true e = some r := by
      intro e
      have := h (kept.map (·.rid)) e
      dsimp only at this
      rw [hsub] at this
      cases hh : C22.sessTick { sub := some sub, reqs := kept.map (·.rid) } true e with
      | none => exact absurd hh this
      | some r => exact ⟨r, rfl⟩
    by_cases hc : sub.state = .creating
    · obtain ⟨r, hr⟩ := key true
      simp [hc, hr]
    · obtain ⟨⟨el, l'⟩, hel⟩ := elapsedCheck_total s.last now s.interval
      obtain ⟨r, hr⟩ := key el
      simp [hc, hel, hr]

/-- the same without a hypothesis: if a round of the timer task fails, then the state machine
fails on some tick of this subscription -/
theorem cycle_none_only_from_state_machine (s : St) (now : Int) (hn : cycle true s now = none) :
    ∃ (reqs : List Nat) (e : Bool), C22.sessTick { s.z with reqs := reqs } true e = none := by
  by_cases hh : ∃ (reqs : List Nat) (e : Bool), C22.sessTick { s.z with reqs := reqs } true e = none
  · exact hh
  · exfalso
    obtain ⟨r, hr⟩ := cycle_panics_only_in_state_machine s now (fun reqs e hc => hh ⟨reqs, e, hc⟩)
    rw [hr] at hn
    cases hn

/-- the hypothesis of `cycle_panics_only_in_state_machine` is satisfiable (a session whose
subscription has been removed; for live subscriptions it is what the C22 theorems establish) -/
example (reqs : List Nat) (e : Bool) :
    C22.sessTick { ({ sub := none, reqs := [] } : Sess) with reqs := reqs } true e ≠ none := by
  simp [C22.sessTick, C22.sessTickWith]

/-! ### BadTimeout only after the timeout, and exactly then -/

/-- **Timeouts are justified, and complete.**  After `expire_stale_publish_requests` at `now`:
a request is answered with BadTimeout iff more than its timeout (its hint if `0 < hint <` the
server default, else the default) has elapsed since its header timestamp; in particular never for
a timestamp ahead of `now`. -/
theorem timeout_only_after (timeout now : Int) (rs kept out : List Req)
    (h : expire true timeout now rs = some (kept, out)) :
    (∀ r ∈ out, r ∈ rs ∧ now - r.ts > (effTimeout timeout r.hint : Int) * 1000) ∧
    (∀ r ∈ kept, r ∈ rs ∧ ¬ now - r.ts > (effTimeout timeout r.hint : Int) * 1000) := by
  induction rs generalizing kept out with
  | nil =>
    simp only [expire, Option.some.injEq, Prod.mk.injEq] at h
    obtain ⟨rfl, rfl⟩ := h
    simp
  | cons r rs ih =>
    obtain ⟨k0, o0, h0⟩ := expire_total timeout now rs
    obtain ⟨iho, ihk⟩ := ih k0 o0 h0
    simp only [expire, h0] at h
    unfold isExpired at h
    by_cases hf : now < r.ts
    · -- timestamp ahead of the clock: kept
      simp only [hf, if_true, Bool.false_eq_true, if_false, Option.some.injEq, Prod.mk.injEq] at h
      obtain ⟨rfl, rfl⟩ := h
      have hpos : (0 : Int) ≤ (effTimeout timeout r.hint : Int) * 1000 := by omega
      refine ⟨fun x hx => ⟨List.mem_cons_of_mem _ (iho x hx).1, (iho x hx).2⟩, ?_⟩
      intro x hx
      rcases List.mem_cons.mp hx with rfl | hx
      · exact ⟨List.mem_cons_self, by omega⟩
      · exact ⟨List.mem_cons_of_mem _ (ihk x hx).1, (ihk x hx).2⟩
    · simp only [hf, if_false] at h
      by_cases he : now - r.ts > (effTimeout timeout r.hint : Int) * 1000
      · simp only [he, decide_true, if_true, Option.some.injEq, Prod.mk.injEq] at h
        obtain ⟨rfl, rfl⟩ := h
        refine ⟨?_, fun x hx => ⟨List.mem_cons_of_mem _ (ihk x hx).1, (ihk x hx).2⟩⟩
        intro x hx
        rcases List.mem_cons.mp hx with rfl | hx
        · exact ⟨List.mem_cons_self, he⟩
        · exact ⟨List.mem_cons_of_mem _ (iho x hx).1, (iho x hx).2⟩
      · simp only [he, decide_false, Bool.false_eq_true, if_false, Option.some.injEq,
          Prod.mk.injEq] at h
        obtain ⟨rfl, rfl⟩ := h
        refine ⟨fun x hx => ⟨List.mem_cons_of_mem _ (iho x hx).1, (iho x hx).2⟩, ?_⟩
        intro x hx
        rcases List.mem_cons.mp hx with rfl | hx
        · exact ⟨List.mem_cons_self, he⟩
        · exact ⟨List.mem_cons_of_mem _ (ihk x hx).1, (ihk x hx).2⟩

/-- the applicable timeout is the hint only when it is positive and shorter than the server's -/
theorem effTimeout_spec (timeout : Int) (hint : Nat) (ht : 0 ≤ timeout) :
    (effTimeout timeout hint : Int) = if 0 < hint ∧ (hint : Int) < timeout then (hint : Int) else timeout := by
  unfold effTimeout
  split
  · simp
  · simp [ht, Int.toNat_of_nonneg ht]

/-! ### What a backwards clock does now -/

/-- after the clock went backwards the interval restarts at the new time: nothing fires at once,
and the next interval elapses one full interval later -/
theorem backwards_clock_restarts_interval (last now : Int) (interval : Nat) (h : now < last) :
    elapsedCheck true last now interval = some (false, now) ∧
      elapsedCheck true now (now + interval) interval = some (true, now + interval) := by
  unfold elapsedCheck
  constructor
  · simp [h]
  · have : ¬ (now + (interval : Int) < now) := by omega
    simp [this]
    omega

/-! ### A changed publishing interval -/

/-- **"Interval elapsed" is computed from the CURRENT interval.**  After ModifySubscription has set a
new publishing interval `i'`, a timer tick at `now ≥ last` of a subscription that has left Creating
counts as elapsed exactly when `now − last ≥ i'` — whatever the interval was before — and only then
restarts the interval at `now`. -/
theorem elapsed_uses_current_interval (s : St) (i' : Nat) (now : Int) (sub : C22.Subn)
    (hs : s.z.sub = some sub) (hc : sub.state ≠ .creating) (hn : s.last ≤ now) (s2 : St) (out : List Resp)
    (h : timerTick true (setInterval s i') now = some (s2, out)) :
    (s2.last = now ↔ (now - s.last ≥ i' ∨ now = s.last)) ∧ (s2.last = now ∨ s2.last = s.last) := by
  have hsub : (setInterval s i').z.sub = some (C22.modifySub sub sub.maxKa sub.maxLife) := by
    simp [setInterval, hs]
  have hst : (C22.modifySub sub sub.maxKa sub.maxLife).state ≠ .creating := hc
  unfold timerTick at h
  rw [hsub] at h
  simp only [hst, if_false] at h
  have hl : (setInterval s i').last = s.last := rfl
  have hi : (setInterval s i').interval = i' := rfl
  rw [hl, hi] at h
  unfold elapsedCheck at h
  have hnb : ¬ now < s.last := by omega
  simp only [hnb, if_false] at h
  by_cases he : now - s.last ≥ (i' : Int)
  · simp only [he, if_true] at h
    split at h
    · cases h
    · simp only [Option.some.injEq, Prod.mk.injEq] at h
      obtain ⟨rfl, _⟩ := h
      exact ⟨⟨fun _ => Or.inl he, fun _ => rfl⟩, Or.inl rfl⟩
  · simp only [he, if_false] at h
    split at h
    · cases h
    · simp only [Option.some.injEq, Prod.mk.injEq] at h
      obtain ⟨rfl, _⟩ := h
      refine ⟨⟨fun h1 => Or.inr ?_, fun h1 => ?_⟩, Or.inr rfl⟩
      · exact h1.symm
      · rcases h1 with h1 | h1
        · exact absurd h1 he
        · exact h1.symm

/-! ### Non-vacuity and the repaired defects -/

example : expire true 30000 1000000 [⟨1, 61000000, 0⟩, ⟨2, -30000001, 0⟩, ⟨3, -29000000, 0⟩, ⟨4, 0, 500⟩] =
    some ([⟨1, 61000000, 0⟩, ⟨3, -29000000, 0⟩], [⟨2, -30000001, 0⟩, ⟨4, 0, 500⟩]) := by decide

/-- **Repaired defect 1.**  Pinned `expire_stale_publish_requests`: a queued request whose header
timestamp is 60 s ahead of the server clock panics (`to_std().unwrap()` on a negative duration). -/
theorem C26_counterexample_future_timestamp :
    expire false 30000 0 [⟨1, 60000000, 0⟩] = none := by decide

/-- **Repaired defect 2.**  Pinned `test_and_set_publishing_interval_elapsed`: the clock one
microsecond behind the start of the interval panics. -/
theorem C26_counterexample_clock_backwards :
    elapsedCheck false 1000000 999999 100000 = none := by decide

/-- **Repaired defect 3.**  Pinned `MonitoredItem::tick` with a positive sampling interval and
`now` before the last sample time panics. -/
theorem C26_counterexample_item_clock_backwards :
    itemTick false 100000 1000000 999999 true = none := by decide

end OpcuaVerif.C26
