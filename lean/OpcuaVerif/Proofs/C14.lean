import OpcuaVerif.Model.C14

/-!
C14 — Security token renewal never breaks a healthy channel.

The property is FALSE of the code (one key slot per direction, see `Model/C14.lean`); this file
proves (a) two concrete counterexamples, each replayed on the real `SecureChannel` pair by the
correspondence harness (`corpus/C14/single-slot.ops`), (b) the exact acceptance rule of the
implementation, (c) `renewal_quiescent_partial`: if neither side produces a MSG between the Renew
request and the moment the client switches keys, every message of every schedule is accepted, and
(d) a message under keys nobody issued is never accepted on a secured channel.
-/
namespace OpcuaVerif.C14

/-- The property's acceptance rule for a MSG under token `e` arriving at the SERVER in state `s`:
it was secured under the server's current token, or under the previous one and the server has not
yet received a message under the new one. -/
def serverMustAccept (s : St) (e : Nat) : Bool := e == s.sKey || (e + 1 == s.sKey && !s.sSeenNew)

/-- The same for the CLIENT; a token announced by an OPN response the client transport has
already received (but the session task has not applied yet) counts as issued. -/
def clientMustAccept (s : St) (e : Nat) : Bool :=
  e == s.cKey || s.pend == some e || (e + 1 == s.cKey && !s.cSeenNew)

/-- A step violates the property: an honest message that must be accepted is rejected. -/
def violation (s : St) : Op → Bool
  | .sStep => match s.c2s with
    | .msg e :: _ => serverMustAccept s e && !implAccepts s.secured s.sKey e
    | _ => false
  | .cStep => match s.s2c with
    | .msg e :: _ => clientMustAccept s e && !implAccepts s.secured s.cKey e
    | _ => false
  | _ => false

/-- **Counterexample 1 (server side).** Client sends Renew, then a request under the still current
token 0; the server processes Renew (switching its only key slot) and then rejects the request. -/
theorem C14_counterexample_server_switch :
    (run (init true) [.cRenew, .cSend, .sStep, .sStep]).2 = [.queued, .queued, .renewed 1, .rejected 0]
    ∧ violation (run (init true) [.cRenew, .cSend, .sStep]).1 .sStep = true := by decide

/-- **Counterexample 2 (client side).** The server's first message under the new token reaches the
client transport after the OPN response but before the session task applied it. -/
theorem C14_counterexample_client_apply_race :
    (run (init true) [.cRenew, .sStep, .sSend, .cStep, .cStep]).2 =
        [.queued, .renewed 1, .queued, .gotResp 1, .rejected 1]
    ∧ violation (run (init true) [.cRenew, .sStep, .sSend, .cStep]).1 .cStep = true := by decide

/-- The implementation's acceptance rule, exactly: on a secured channel a delivered MSG is accepted
iff it was secured under the receiver's single current key. -/
theorem server_accepts_iff (s : St) (e : Nat) (rest : List Item) (h : s.c2s = .msg e :: rest) :
    (step s .sStep).2 = (if !s.secured || e == s.sKey then Out.accepted e else Out.rejected e) := by
  simp only [step, h, implAccepts]
  split <;> simp_all

theorem client_accepts_iff (s : St) (e : Nat) (rest : List Item) (h : s.s2c = .msg e :: rest) :
    (step s .cStep).2 = (if !s.secured || e == s.cKey then Out.accepted e else Out.rejected e) := by
  simp only [step, h, implAccepts]
  split <;> simp_all

/-- **Unknown tokens are rejected.** On a secured channel, whatever the history, a delivered message
whose keys belong to a token the receiver does not currently hold is never accepted — in
particular a message forged under keys nobody issued. -/
theorem unknown_token_rejected_server (s : St) (e : Nat) (rest : List Item)
    (hs : s.secured = true) (h : s.c2s = .msg e :: rest) (hne : e ≠ s.sKey) :
    (step s .sStep).2 = .rejected e := by
  rw [server_accepts_iff s e rest h]; simp [hs, hne]

theorem unknown_token_rejected_client (s : St) (e : Nat) (rest : List Item)
    (hs : s.secured = true) (h : s.s2c = .msg e :: rest) (hne : e ≠ s.cKey) :
    (step s .cStep).2 = .rejected e := by
  rw [client_accepts_iff s e rest h]; simp [hs, hne]

/-! ### Quiescent renewal -/

/-- The schedule discipline under which renewal is safe: honest parties only, the client sends no
MSG while its renewal is outstanding, the server sends none between processing Renew and the
client's key switch. -/
def allowed (s : St) : Op → Bool
  | .cSend => !s.outstanding
  | .sSend => s.sKey == s.cKey
  | .cForge _ => false
  | .sForge _ => false
  | .cRenewSame => false
  | _ => true

def Quiescent : St → List Op → Prop
  | _, [] => True
  | s, op :: ops => allowed s op = true ∧ Quiescent (step s op).1 ops

def allMsg (k : Nat) (l : List Item) : Prop := ∀ i ∈ l, i = .msg k

/-- The four phases of a quiescent renewal. -/
def QInv (s : St) : Prop := s.pendFault = false ∧ (
  (s.outstanding = false ∧ s.sKey = s.cKey ∧ s.pend = none ∧ allMsg s.cKey s.c2s ∧ allMsg s.cKey s.s2c)
  ∨ (s.outstanding = true ∧ s.sKey = s.cKey ∧ s.pend = none ∧
      (∃ pre, s.c2s = pre ++ [.renewReq] ∧ allMsg s.cKey pre) ∧ allMsg s.cKey s.s2c)
  ∨ (s.outstanding = true ∧ s.sKey = s.cKey + 1 ∧ s.pend = none ∧ s.c2s = [] ∧
      (∃ pre, s.s2c = pre ++ [.renewResp (s.cKey + 1)] ∧ allMsg s.cKey pre))
  ∨ (s.outstanding = true ∧ s.sKey = s.cKey + 1 ∧ s.pend = some (s.cKey + 1) ∧ s.c2s = [] ∧ s.s2c = []))

theorem allMsg_append {k : Nat} {l : List Item} (h : allMsg k l) : allMsg k (l ++ [.msg k]) := by
  intro i hi
  rcases List.mem_append.mp hi with h1 | h1
  · exact h i h1
  · simpa using h1

theorem allMsg_tail {k : Nat} {i : Item} {l : List Item} (h : allMsg k (i :: l)) : allMsg k l :=
  fun j hj => h j (List.mem_cons_of_mem _ hj)

theorem allMsg_nil {k : Nat} : allMsg k [] := by intro i hi; cases hi

theorem init_qinv (b : Bool) : QInv (init b) := by
  refine ⟨rfl, ?_⟩
  left; simp [init, allMsg]

def isRejected : Out → Bool
  | .rejected _ => true
  | _ => false

/-- One allowed step keeps the phase invariant and rejects nothing. -/
theorem qstep (s : St) (op : Op) (hI : QInv s) (ha : allowed s op = true) :
    QInv (step s op).1 ∧ isRejected (step s op).2 = false := by
  obtain ⟨hf, hI⟩ := hI
  rcases hI with ⟨ho, hk, hp, hc, hs⟩ | ⟨ho, hk, hp, ⟨pre, hc, hpre⟩, hs⟩ | ⟨ho, hk, hp, hc, ⟨pre, hs, hpre⟩⟩ |
    ⟨ho, hk, hp, hc, hs⟩
  · -- phase 0: no renewal in progress
    cases op with
    | cSend => exact ⟨⟨hf, Or.inl ⟨ho, hk, hp, allMsg_append hc, hs⟩⟩, rfl⟩
    | sSend => refine ⟨⟨hf, Or.inl ⟨ho, hk, hp, hc, ?_⟩⟩, rfl⟩; simp only [step]; rw [hk]; exact allMsg_append hs
    | cRenew =>
      simp only [step, ho]
      exact ⟨⟨hf, Or.inr (Or.inl ⟨rfl, hk, hp, ⟨s.c2s, rfl, hc⟩, hs⟩)⟩, rfl⟩
    | cForge e => simp [allowed] at ha
    | sForge e => simp [allowed] at ha
    | cRenewSame => simp [allowed] at ha
    | cApply => simp only [step, hp, hf, Bool.false_eq_true, if_false]; exact ⟨⟨hf, Or.inl ⟨ho, hk, hp, hc, hs⟩⟩, rfl⟩
    | sStep =>
      simp only [step]
      cases hl : s.c2s with
      | nil => exact ⟨⟨hf, Or.inl ⟨ho, hk, hp, by rw [hl]; exact allMsg_nil, hs⟩⟩, rfl⟩
      | cons i rest =>
        have hi : i = .msg s.cKey := hc i (by rw [hl]; simp)
        subst hi
        have hrest : allMsg s.cKey rest := allMsg_tail (by rw [← hl]; exact hc)
        simp only [implAccepts, hk, beq_self_eq_true, Bool.or_true, if_true]
        exact ⟨⟨hf, Or.inl ⟨ho, rfl, hp, hrest, hs⟩⟩, rfl⟩
    | cStep =>
      simp only [step]
      cases hl : s.s2c with
      | nil => exact ⟨⟨hf, Or.inl ⟨ho, hk, hp, hc, by rw [hl]; exact allMsg_nil⟩⟩, rfl⟩
      | cons i rest =>
        have hi : i = .msg s.cKey := hs i (by rw [hl]; simp)
        subst hi
        have hrest : allMsg s.cKey rest := allMsg_tail (by rw [← hl]; exact hs)
        simp only [implAccepts, beq_self_eq_true, Bool.or_true, if_true]
        exact ⟨⟨hf, Or.inl ⟨ho, hk, hp, hc, hrest⟩⟩, rfl⟩
  · -- phase A: Renew request on its way to the server
    cases op with
    | cSend => simp [allowed, ho] at ha
    | sSend =>
      refine ⟨⟨hf, Or.inr (Or.inl ⟨ho, hk, hp, ⟨pre, hc, hpre⟩, ?_⟩)⟩, rfl⟩
      simp only [step]; rw [hk]; exact allMsg_append hs
    | cRenew => simp only [step, ho, if_true]; exact ⟨⟨hf, Or.inr (Or.inl ⟨ho, hk, hp, ⟨pre, hc, hpre⟩, hs⟩)⟩, rfl⟩
    | cForge e => simp [allowed] at ha
    | sForge e => simp [allowed] at ha
    | cRenewSame => simp [allowed] at ha
    | cApply => simp only [step, hp, hf, Bool.false_eq_true, if_false]; exact ⟨⟨hf, Or.inr (Or.inl ⟨ho, hk, hp, ⟨pre, hc, hpre⟩, hs⟩)⟩, rfl⟩
    | sStep =>
      simp only [step]
      cases pre with
      | nil =>
        simp only [List.nil_append] at hc
        rw [hc]
        refine ⟨⟨hf, Or.inr (Or.inr (Or.inl ⟨ho, by simp [hk], hp, rfl, ⟨s.s2c, ?_, hs⟩⟩))⟩, rfl⟩
        simp [hk]
      | cons i rest =>
        have hi : i = .msg s.cKey := hpre i (by simp)
        subst hi
        rw [hc]
        simp only [List.cons_append, implAccepts, hk, beq_self_eq_true, Bool.or_true, if_true]
        exact ⟨⟨hf, Or.inr (Or.inl ⟨ho, rfl, hp, ⟨rest, rfl, allMsg_tail hpre⟩, hs⟩)⟩, rfl⟩
    | cStep =>
      simp only [step]
      cases hl : s.s2c with
      | nil => exact ⟨⟨hf, Or.inr (Or.inl ⟨ho, hk, hp, ⟨pre, hc, hpre⟩, by rw [hl]; exact allMsg_nil⟩)⟩, rfl⟩
      | cons i rest =>
        have hi : i = .msg s.cKey := hs i (by rw [hl]; simp)
        subst hi
        have hrest : allMsg s.cKey rest := allMsg_tail (by rw [← hl]; exact hs)
        simp only [implAccepts, beq_self_eq_true, Bool.or_true, if_true]
        exact ⟨⟨hf, Or.inr (Or.inl ⟨ho, hk, hp, ⟨pre, hc, hpre⟩, hrest⟩)⟩, rfl⟩
  · -- phase B: OPN response on its way to the client
    cases op with
    | cSend => simp [allowed, ho] at ha
    | sSend => simp [allowed, hk] at ha
    | cRenew =>
      simp only [step, ho, if_true]
      exact ⟨⟨hf, Or.inr (Or.inr (Or.inl ⟨ho, hk, hp, hc, ⟨pre, hs, hpre⟩⟩))⟩, rfl⟩
    | cForge e => simp [allowed] at ha
    | sForge e => simp [allowed] at ha
    | cRenewSame => simp [allowed] at ha
    | cApply =>
      simp only [step, hp, hf, Bool.false_eq_true, if_false]
      exact ⟨⟨hf, Or.inr (Or.inr (Or.inl ⟨ho, hk, hp, hc, ⟨pre, hs, hpre⟩⟩))⟩, rfl⟩
    | sStep =>
      simp only [step, hc]
      exact ⟨⟨hf, Or.inr (Or.inr (Or.inl ⟨ho, hk, hp, hc, ⟨pre, hs, hpre⟩⟩))⟩, rfl⟩
    | cStep =>
      simp only [step]
      cases pre with
      | nil =>
        simp only [List.nil_append] at hs
        rw [hs]
        exact ⟨⟨hf, Or.inr (Or.inr (Or.inr ⟨ho, hk, rfl, hc, rfl⟩))⟩, rfl⟩
      | cons i rest =>
        have hi : i = .msg s.cKey := hpre i (by simp)
        subst hi
        rw [hs]
        simp only [List.cons_append, implAccepts, beq_self_eq_true, Bool.or_true, if_true]
        exact ⟨⟨hf, Or.inr (Or.inr (Or.inl ⟨ho, hk, hp, hc, ⟨rest, rfl, allMsg_tail hpre⟩⟩))⟩, rfl⟩
  · -- phase C: response received, waiting for the session task to apply it
    cases op with
    | cSend => simp [allowed, ho] at ha
    | sSend => simp [allowed, hk] at ha
    | cRenew =>
      simp only [step, ho, if_true]
      exact ⟨⟨hf, Or.inr (Or.inr (Or.inr ⟨ho, hk, hp, hc, hs⟩))⟩, rfl⟩
    | cForge e => simp [allowed] at ha
    | sForge e => simp [allowed] at ha
    | cRenewSame => simp [allowed] at ha
    | cApply =>
      simp only [step, hp, hf, Bool.false_eq_true, if_false]
      exact ⟨⟨rfl, Or.inl ⟨rfl, hk, rfl, by rw [hc]; exact allMsg_nil, by rw [hs]; exact allMsg_nil⟩⟩, rfl⟩
    | sStep => simp only [step, hc]; exact ⟨⟨hf, Or.inr (Or.inr (Or.inr ⟨ho, hk, hp, hc, hs⟩))⟩, rfl⟩
    | cStep => simp only [step, hs]; exact ⟨⟨hf, Or.inr (Or.inr (Or.inr ⟨ho, hk, hp, hc, hs⟩))⟩, rfl⟩

/-- **Partial theorem** (the part of C14 that holds): for EVERY schedule of any length that obeys the
quiescence discipline — any number of renewals, any interleaving of sends, deliveries and key
switches otherwise — no message is ever rejected.  What is missing from the full property: schedules
in which a MSG is secured between the Renew request and the client's key switch (the two
counterexamples above). -/
theorem renewal_quiescent_partial (b : Bool) (ops : List Op) (hq : Quiescent (init b) ops) :
    ∀ o ∈ (run (init b) ops).2, isRejected o = false := by
  suffices H : ∀ (ops : List Op) (s : St), QInv s → Quiescent s ops → ∀ o ∈ (run s ops).2, isRejected o = false from
    H ops _ (init_qinv b) hq
  intro ops
  induction ops with
  | nil => intro s _ _ o ho; simp [run] at ho
  | cons op ops ih =>
    intro s hI hQ o ho
    obtain ⟨ha, hQ'⟩ := hQ
    obtain ⟨hI', hr⟩ := qstep s op hI ha
    simp only [run] at ho
    rcases List.mem_cons.mp ho with h | h
    · rw [h]; exact hr
    · exact ih _ hI' hQ' o h

/-- non-vacuity: a schedule with two full renewals and traffic in both directions is quiescent -/
example : Quiescent (init true)
    [.cSend, .sSend, .cRenew, .sStep, .sStep, .cStep, .cStep, .cApply, .cSend, .sSend, .sStep, .cStep,
     .cRenew, .sStep, .cStep, .cApply, .cSend, .sStep] := by
  simp [Quiescent, allowed, step, init, implAccepts]

end OpcuaVerif.C14
