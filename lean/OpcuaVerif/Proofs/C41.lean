import OpcuaVerif.Lemmas.C41
import OpcuaVerif.Lemmas.C41Sound
import OpcuaVerif.Lemmas.C41Samples
import OpcuaVerif.Generated.ConfigSchema

/-!
C41 — Saved configurations load back unchanged (derive layer).
Property theorems only; model `OpcuaVerif.Model.C41Schema`, schemas regenerated from the Rust structs
(`Generated.ConfigSchema`), lemmas `OpcuaVerif.Lemmas.C41`.

A configuration value is represented by its canonical document (`wf S d`: fields in declaration order,
`None`s skipped or `null` as the attributes say, sets and maps sorted, integers in range, durations
normalised).  `norm S d` = load the document into the struct and write it back.
PARTIAL with respect to the property: the YAML text layer (`serde_yaml::to_string` / `from_str`) is not
modelled; it is exercised by the oracle of the correspondence run on every generated valid configuration.
-/
namespace OpcuaVerif.C41
open OpcuaVerif.Generated.ConfigSchema

/-- generic: for every sane schema, loading the canonical document of a value gives that value back -/
theorem load_saved_generic (S : Ty) (d : Doc) (hS : tyOk S = true) (h : wf S d = true) : norm S d = some d :=
  norm_wf S d hS h

/-- regenerated obligation: the schemas read from server/config.rs and client/config.rs are sane
(distinct field names in every struct, no `Option<Option<_>>`) -/
theorem schemas_ok : tyOk serverConfig = true ∧ tyOk clientConfig = true := by decide

theorem server_config_roundtrip_partial (d : Doc) (h : wf serverConfig d = true) : norm serverConfig d = some d :=
  norm_wf _ d schemas_ok.1 h

theorem client_config_roundtrip_partial (d : Doc) (h : wf clientConfig d = true) : norm clientConfig d = some d :=
  norm_wf _ d schemas_ok.2 h

/-- whatever `is_valid` checks: the loaded configuration is the saved one, hence still valid -/
theorem valid_preserved (S : Ty) (Valid : Doc → Prop) (d : Doc) (hS : tyOk S = true) (h : wf S d = true)
    (hv : Valid d) : ∃ d', norm S d = some d' ∧ d' = d ∧ Valid d' :=
  ⟨d, norm_wf S d hS h, rfl, hv⟩

/-- regenerated obligation (attribute rules): `skip_serializing_if = "Option::is_none"` only on `Option`
fields and string defaults only on `String` fields, in both configuration schemas -/
theorem schemas_ok_strong : tyOk' serverConfig = true ∧ tyOk' clientConfig = true := by decide

/-- whatever document loads — also hand-edited files with reordered keys, unknown keys, missing optional
fields, unsorted sets — loads to a typed value … -/
theorem loaded_is_typed (S : Ty) (d d' : Doc) (hS : tyOk' S = true) (h : norm S d = some d') : wf S d' = true :=
  norm_sound S d d' hS h

/-- … and saving and loading THAT value again changes nothing (load ∘ save ∘ load = load) -/
theorem load_save_load_server (d d' : Doc) (h : norm serverConfig d = some d') : norm serverConfig d' = some d' :=
  norm_wf _ d' schemas_ok.1 (norm_sound _ d d' schemas_ok_strong.1 h)

theorem load_save_load_client (d d' : Doc) (h : norm clientConfig d = some d') : norm clientConfig d' = some d' :=
  norm_wf _ d' schemas_ok.2 (norm_sound _ d d' schemas_ok_strong.2 h)

/-! ### non-vacuity: two configurations produced by the real code in a correspondence run -/

set_option maxRecDepth 10000 in
theorem sample_server_wf : wf serverConfig sampleServerDoc = true := by
  simp [serverConfig, sampleServerDoc, wf, wfFields, wfList, wfVals, sortedKV, sortedStr, allStr, keyLt, isOpt, isNull]

set_option maxRecDepth 10000 in
theorem sample_client_wf : wf clientConfig sampleClientDoc = true := by
  simp [clientConfig, sampleClientDoc, wf, wfFields, wfList, wfVals, sortedKV, sortedStr, allStr, keyLt, isOpt, isNull,
    kSecs, kNanos, u64Max]

example : norm serverConfig sampleServerDoc = some sampleServerDoc :=
  server_config_roundtrip_partial _ sample_server_wf
example : norm clientConfig sampleClientDoc = some sampleClientDoc :=
  client_config_roundtrip_partial _ sample_client_wf

/-! ### the loader on non-canonical documents (what the model predicts and the code does) -/

/-- a missing `Option` field is `None`; a `skip_serializing_if` None is not written -/
example : norm (.struct (.cons ['a'] (.opt .str) true none (.cons ['b'] (.opt .str) false none .nil))) (.map []) =
    some (.map [(['b'], .null)]) := by simp [norm, normFields, lookup, isOpt]
/-- a set is written sorted and without duplicates -/
example : norm .strSet (.seq [.str ['b'], .str ['a'], .str ['b']]) = some (.seq [.str ['a'], .str ['b']]) := by
  simp [norm, allStr, sortStr, insStr, keyLt]
/-- Duration: the nanosecond carry -/
example : norm .duration (.map [(kSecs, .int 1), (kNanos, .int 2000000001)]) =
    some (.map [(kSecs, .int 3), (kNanos, .int 1)]) := by
  simp [norm, normDuration, durKeysOk, lookup, kSecs, kNanos, u64Max]

end OpcuaVerif.C41
