import OpcuaVerif.Proofs.C09

/-!
C08 — modified or foreign secured chunks are never accepted.

Property theorems only.  The model is the receive path of `OpcuaVerif.Model.C09`
(`recv = recvWith Fixes.current`).  The cryptographic idealisations (`MacIdeal`, `SigIdeal`) are
explicit hypotheses; `toyMac` shows they are consistent.
-/
namespace OpcuaVerif.C08
open OpcuaVerif.C09

/-- Idealised MAC (unforgeability): under the channel's verification key only the (data, mac)
pairs in `S` — the ones the legitimate key holder produced — verify. -/
def MacIdeal (C : Crypto) (p : Policy) (S : List (Bytes × Bytes)) : Prop :=
  ∀ d s, C.hmacOk p d s = true → (d, s) ∈ S

/-- what the sender puts on the wire in Sign mode for signed data `x.1` with mac `x.2` -/
def wireSign (x : Bytes × Bytes) : Bytes := x.1 ++ x.2

/-- … and in SignAndEncrypt mode: the first 16 bytes (message + security header) in clear, the rest
(sequence header, body, padding, mac) AES-encrypted -/
def wireSE (aesEnc : Bytes → Bytes) (x : Bytes × Bytes) : Bytes :=
  (x.1 ++ x.2).take 16 ++ aesEnc ((x.1 ++ x.2).drop 16)

/-- **Acceptance, Sign mode**: exactly the chunks that are long enough, on a channel with keys,
whose last `sig` bytes are a valid mac of everything before them. -/
theorem sign_accept_iff (C : Crypto) (ch : Chan) (src d : Bytes) (hs : ch.secured)
    (hm : ch.mode = .sign) :
    recvSym Fixes.current C ch src 16 = .ok d ↔
      16 + ch.policy.symSig ≤ src.length ∧ ch.keys = true ∧
      C.hmacOk ch.policy (src.take (src.length - ch.policy.symSig))
        (src.drop (src.length - ch.policy.symSig)) = true ∧
      d = setSizeTrunc src (src.length - ch.policy.symSig) := by
  obtain ⟨hp, _⟩ := hs
  unfold recvSym
  simp only [Fixes.current, hm, hp, ne_eq, not_false_eq_true, true_or, and_self, true_and, if_true]
  by_cases h1 : src.length < 16 + ch.policy.symSig
  · simp [h1]; omega
  · rw [if_neg h1, if_neg (by omega)]
    cases hk : ch.keys
    · simp
    · simp only [Bool.not_true, Bool.false_eq_true, if_false]
      by_cases hh : C.hmacOk ch.policy (src.take (src.length - ch.policy.symSig))
          (src.drop (src.length - ch.policy.symSig)) = true
      · simp [hh]; constructor
        · intro h; exact ⟨by omega, h.symm⟩
        · intro h; exact h.2.symm
      · simp [hh]

/-- the decrypted image of a SignAndEncrypt chunk -/
def image (src pt : Bytes) : Bytes := src.take 16 ++ pt

/-- **Acceptance, SignAndEncrypt mode**: long enough, keys, block-aligned cipher text, and the
last `sig` bytes of the decrypted image are a valid mac of everything before them. -/
theorem se_accept_iff (C : Crypto) (laws : CryptoLaws C) (ch : Chan) (src d : Bytes)
    (hs : ch.secured) (hm : ch.mode = .signEncrypt) :
    recvSym Fixes.current C ch src 16 = .ok d ↔
      16 + ch.policy.symSig ≤ src.length ∧ ch.keys = true ∧ (src.length - 16) % 16 = 0 ∧
      ∃ pt, C.aesDec (src.drop 16) = some pt ∧
        C.hmacOk ch.policy ((image src pt).take (src.length - ch.policy.symSig))
          ((image src pt).drop (src.length - ch.policy.symSig)) = true ∧
        ∃ padStart, verifyPadding Fixes.current (image src pt) ch.policy.symSig
            (src.length - ch.policy.symSig) = .inr padStart ∧
          d = setSizeTrunc (image src pt) padStart := by
  obtain ⟨hp, _⟩ := hs
  unfold recvSym
  generalize hF : Fixes.current = F
  have f1 : F.symShort = true := by subst hF; rfl
  have f2 : F.keys = true := by subst hF; rfl
  have f3 : F.aesBlock = true := by subst hF; rfl
  have f4 : F.symPadding = true := by subst hF; rfl
  simp only [f1, f2, f3, f4, hm, hp, ne_eq, not_false_eq_true, or_true, and_self, true_and, if_true,
    reduceCtorEq, if_false]
  by_cases h1 : src.length < 16 + ch.policy.symSig
  · simp [h1]; omega
  · rw [if_neg h1, if_neg (by omega)]
    cases hk : ch.keys
    · simp
    · simp only [Bool.not_true, Bool.false_eq_true, if_false, List.length_drop]
      by_cases hb : (src.length - 16) % 16 = 0
      · simp only [hb, not_true_eq_false, if_false]
        cases ha : C.aesDec (src.drop 16) with
        | none => simp
        | some pt =>
          have hl := laws.aesLen _ _ ha
          simp only [List.length_drop] at hl
          simp only []
          rw [if_neg (by omega), if_neg (by omega)]
          have e1 : src.length - (16 + pt.length) = 0 := by omega
          have e2 : 16 + pt.length - ch.policy.symSig = src.length - ch.policy.symSig := by omega
          have himg : (image src pt).length = src.length := by
            simp [image, List.length_take]; omega
          have e3 : ((image src pt).drop (src.length - ch.policy.symSig)).take ch.policy.symSig
              = (image src pt).drop (src.length - ch.policy.symSig) := by
            apply List.take_of_length_le; simp [himg]; omega
          simp only [e1, e2, List.replicate_zero, List.append_nil]
          show (if C.hmacOk ch.policy ((image src pt).take _) (((image src pt).drop _).take _) = true
            then _ else _) = _ ↔ _
          rw [e3]
          by_cases hh : C.hmacOk ch.policy ((image src pt).take (src.length - ch.policy.symSig))
              ((image src pt).drop (src.length - ch.policy.symSig)) = true
          · simp only [hh, if_true]
            subst hF
            simp only [image] at hh ⊢
            cases hv : verifyPadding Fixes.current (List.take 16 src ++ pt) ch.policy.symSig
                (src.length - ch.policy.symSig) with
            | inl o =>
              constructor
              · intro h
                simp only [] at h
                subst h
                exact absurd hv (verifyPadding_inl_not_ok _ _ _ _ _)
              · rintro ⟨_, _, _, pt', h1', _, ps, h3, _⟩; cases h1'; rw [hv] at h3; cases h3
            | inr ps =>
              constructor
              · intro h; simp only [] at h; cases h
                exact ⟨by omega, trivial, trivial, pt, rfl, hh, ps, hv, rfl⟩
              · rintro ⟨_, _, _, pt', h1', _, ps', h3, h4⟩; cases h1'; rw [hv] at h3; cases h3; rw [h4]
          · simp only [hh]
            constructor
            · intro h; simp at h
            · rintro ⟨_, _, _, pt', h1', h2, _⟩; cases h1'; exact absurd h2 hh
      · simp [hb]


/-- **No byte is outside the MAC**: signed range and signature range partition the (decrypted)
chunk — every byte position belongs to exactly one of them. -/
theorem covers_all_bytes (w : Bytes) (sig : Nat) (_h : sig ≤ w.length) :
    w.take (w.length - sig) ++ w.drop (w.length - sig) = w ∧
    (w.take (w.length - sig)).length + (w.drop (w.length - sig)).length = w.length := by
  constructor
  · exact List.take_append_drop _ _
  · simp <;> omega

/-- **Sign mode: whatever is accepted was sent.**  Under the MAC idealisation an accepted chunk is
bit-identical to the wire form of a (data, mac) pair the legitimate peer produced. -/
theorem sign_accepted_was_sent (C : Crypto) (ch : Chan) (S : List (Bytes × Bytes))
    (hideal : MacIdeal C ch.policy S) (src d : Bytes) (hs : ch.secured) (hm : ch.mode = .sign)
    (h : recvSym Fixes.current C ch src 16 = .ok d) : ∃ x ∈ S, src = wireSign x := by
  obtain ⟨_, _, hh, _⟩ := (sign_accept_iff C ch src d hs hm).mp h
  exact ⟨_, hideal _ _ hh, by simp [wireSign]⟩

/-- **SignAndEncrypt mode: whatever is accepted was sent** (`aesEnc` is the sender's encryption,
inverse of the receiver's decryption). -/
theorem se_accepted_was_sent (C : Crypto) (laws : CryptoLaws C) (aesEnc : Bytes → Bytes)
    (henc : ∀ c p, C.aesDec c = some p → aesEnc p = c) (ch : Chan) (S : List (Bytes × Bytes))
    (hideal : MacIdeal C ch.policy S) (src d : Bytes) (hs : ch.secured)
    (hm : ch.mode = .signEncrypt) (h : recvSym Fixes.current C ch src 16 = .ok d) :
    ∃ x ∈ S, src = wireSE aesEnc x := by
  obtain ⟨hlen, _, _, pt, hpt, hh, _⟩ := (se_accept_iff C laws ch src d hs hm).mp h
  refine ⟨_, hideal _ _ hh, ?_⟩
  have hl := laws.aesLen _ _ hpt
  simp only [List.length_drop] at hl
  simp only [wireSE, List.take_append_drop]
  have hl16 : (src.take 16).length = 16 := by simp; omega
  have e1 : (image src pt).take 16 = src.take 16 := by
    simp only [image]
    rw [List.take_append_of_le_length (by omega)]
    simp [List.take_take]
  have e2 : (image src pt).drop 16 = pt := by
    simp only [image]
    rw [List.drop_append_of_le_length (by omega)]
    have : (src.take 16).drop 16 = [] := by
      apply List.drop_of_length_le; omega
    simp [this]
  rw [e1, e2, henc _ _ hpt, List.take_append_drop]

/-- the two wire forms, by mode -/
def wire (aesEnc : Bytes → Bytes) (m : Mode) (x : Bytes × Bytes) : Bytes :=
  if m = .signEncrypt then wireSE aesEnc x else wireSign x

/-- **Modified or foreign MSG/CLO chunks are rejected** (entry point `recv`, any MSG/CLO chunk, any
secured channel): a chunk that is not bit-identical to one the legitimate peer put on the wire —
a byte changed, removed, appended, or the whole chunk secured under other keys — is never
accepted, neither as the original nor as any other chunk. -/
theorem sym_not_sent_rejected (C : Crypto) (laws : CryptoLaws C) (aesEnc : Bytes → Bytes)
    (henc : ∀ c p, C.aesDec c = some p → aesEnc p = c) (ch : Chan) (S : List (Bytes × Bytes))
    (hideal : MacIdeal C ch.policy S) (hs : ch.secured) (src : Bytes)
    (hnot : ∀ x ∈ S, src ≠ wire aesEnc ch.mode x)
    (hkind : ∀ size rest, rdHeader src ≠ some (.opn, size, rest)) :
    ∀ d, (recv C ch src).2 ≠ .ok d := by
  intro d h
  unfold recv recvWith at h
  split at h
  · cases h
  · rename_i size rest hh; exact hkind _ _ hh
  · split at h
    · split at h
      · cases h
      · simp only [] at h
        rcases hs.2 with hm | hm
        · obtain ⟨x, hx, he⟩ := sign_accepted_was_sent C ch S hideal src d hs hm h
          exact hnot x hx (by simp [wire, hm, he])
        · obtain ⟨x, hx, he⟩ := se_accepted_was_sent C laws aesEnc henc ch S hideal src d hs hm h
          exact hnot x hx (by simp [wire, hm, he])
    · cases h

/-- a single sent chunk `w`: every different byte string `w'` of the same length (bit flips) … -/
theorem flip_rejected (C : Crypto) (laws : CryptoLaws C) (aesEnc : Bytes → Bytes)
    (henc : ∀ c p, C.aesDec c = some p → aesEnc p = c) (ch : Chan) (x : Bytes × Bytes)
    (hideal : MacIdeal C ch.policy [x]) (hs : ch.secured) (w' : Bytes)
    (hne : w' ≠ wire aesEnc ch.mode x)
    (hkind : ∀ size rest, rdHeader w' ≠ some (.opn, size, rest)) :
    ∀ d, (recv C ch w').2 ≠ .ok d :=
  sym_not_sent_rejected C laws aesEnc henc ch [x] hideal hs w'
    (by intro y hy; simp at hy; subst hy; exact hne) hkind

/-- … and every truncation or extension of it is rejected -/
theorem trunc_ext_rejected (C : Crypto) (laws : CryptoLaws C) (aesEnc : Bytes → Bytes)
    (henc : ∀ c p, C.aesDec c = some p → aesEnc p = c) (ch : Chan) (x : Bytes × Bytes)
    (hideal : MacIdeal C ch.policy [x]) (hs : ch.secured) (w' : Bytes)
    (hlen : w'.length ≠ (wire aesEnc ch.mode x).length)
    (hkind : ∀ size rest, rdHeader w' ≠ some (.opn, size, rest)) :
    ∀ d, (recv C ch w').2 ≠ .ok d :=
  flip_rejected C laws aesEnc henc ch x hideal hs w' (by intro h; rw [h] at hlen; exact hlen rfl) hkind

/-- chunks secured under OTHER keys: if nothing the foreign key holder produced (`S'`) coincides
with something our peer produced, none of it is accepted -/
theorem foreign_key_rejected (C : Crypto) (laws : CryptoLaws C) (aesEnc : Bytes → Bytes)
    (henc : ∀ c p, C.aesDec c = some p → aesEnc p = c) (ch : Chan) (S : List (Bytes × Bytes))
    (hideal : MacIdeal C ch.policy S) (hs : ch.secured) (foreign : List Bytes)
    (hsep : ∀ w ∈ foreign, ∀ x ∈ S, w ≠ wire aesEnc ch.mode x)
    (hkind : ∀ w ∈ foreign, ∀ size rest, rdHeader w ≠ some (.opn, size, rest)) :
    ∀ w ∈ foreign, ∀ d, (recv C ch w).2 ≠ .ok d :=
  fun w hw => sym_not_sent_rejected C laws aesEnc henc ch S hideal hs w (hsep w hw) (hkind w hw)

/-! ### OPN chunks -/

/-- Idealised signature: only (data, signature) pairs the holder of `cert`'s private key produced
verify. -/
def SigIdeal (C : Crypto) (p : Policy) (cert : Bytes) (S : List (Bytes × Bytes)) : Prop :=
  ∀ d s, C.rsaVerify p cert d s = some true → (d, s) ∈ S

/-- **An OPN chunk accepted by a secured channel names the channel's own policy and carries a
signature that verified** under the certificate in its header (for every crypto instance). -/
theorem opn_accepted_verified (C : Crypto) (ch : Chan) (src d : Bytes) (hs : ch.secured)
    (ah : AsymHdr) (start : Nat) (h : (recvOpn Fixes.current C ch src ah start).2 = .ok d) :
    policyOfUri ah.uri.bytes = some ch.policy ∧
    ∃ cert data sig, ah.cert = .val cert ∧ C.rsaVerify ch.policy cert data sig = some true := by
  unfold recvOpn at h
  split at h
  · cases h
  · rename_i hg
    have hpol : policyOfUri ah.uri.bytes = some ch.policy := by
      simp only [Fixes.current, true_and, not_and, ne_eq, Decidable.not_not] at hg
      exact hg hs
    refine ⟨hpol, ?_⟩
    split at h
    · cases h
    · rename_i hn; rw [hpol] at hn; exact absurd (Option.some.inj hn) hs.1
    · rename_i p _ hp
      rw [hpol] at hp; cases hp
      split at h
      · simp [Fixes.current] at h
      · rename_i cert hcert
        split at h
        · cases h
        · cases h
        · rename_i vk hx
          simp only [] at h
          unfold asymDecryptVerify at h
          split at h
          · simp [Fixes.current] at h
          · split at h
            · cases h
            · split at h
              · simp [Fixes.current] at h
              · simp only [] at h
                split at h
                · cases h
                · split at h
                  · cases h
                  · cases h
                  · cases h
                  · (try simp only [] at h)
                    split at h
                    · cases h
                    · split at h
                      · cases h
                      · split at h
                        · cases h
                        · cases h
                        · rename_i hv
                          exact ⟨cert, _, _, hcert, hv⟩

/-- **Verified before use**: on a secured channel every chunk the receive path returns has passed
a MAC verification (MSG/CLO) or a signature verification under the channel's policy (OPN) — there
is no accepting path around the checks. -/
theorem verified_before_use (C : Crypto) (laws : CryptoLaws C) (ch : Chan) (src d : Bytes)
    (hs : ch.secured) (h : (recv C ch src).2 = .ok d) :
    (∃ data sig, C.hmacOk ch.policy data sig = true) ∨
    (∃ cert data sig, C.rsaVerify ch.policy cert data sig = some true) := by
  unfold recv recvWith at h
  split at h
  · cases h
  · split at h
    · cases h
    · split at h
      · cases h
      · obtain ⟨_, cert, data, sig, _, hv⟩ := opn_accepted_verified C ch src d hs _ _ h
        exact .inr ⟨cert, data, sig, hv⟩
  · split at h
    · split at h
      · cases h
      · simp only [] at h
        rcases hs.2 with hm | hm
        · obtain ⟨_, _, hh, _⟩ := (sign_accept_iff C ch src d hs hm).mp h
          exact .inl ⟨_, _, hh⟩
        · obtain ⟨_, _, _, pt, _, hh, _⟩ := (se_accept_iff C laws ch src d hs hm).mp h
          exact .inl ⟨_, _, hh⟩
    · cases h

/-- an unsigned OPN chunk naming policy None: 12 header bytes, the None URI, null certificate, null
thumbprint, sequence header and a 2-byte body -/
def opnNone : Bytes :=
  [79, 80, 78, 70, 81, 0, 0, 0, 0, 0, 0, 0, 47, 0, 0, 0] ++ Policy.none.uri ++
  [255, 255, 255, 255, 255, 255, 255, 255] ++ [1, 0, 0, 0, 1, 0, 0, 0, 9, 9]

/-- **The recorded (and repaired) hole**: the pinned source returned this chunk UNVERIFIED on a
Basic256Sha256/SignAndEncrypt channel, whatever the primitives answer — `verified_before_use` was
false of it (corpus/C08/opn-none-on-secured.ops shows the same on the real code). -/
theorem C08_counterexample_opn_none (C : Crypto) :
    (recvWith Fixes.pinned C (chanB256s .signEncrypt) opnNone).2 = .ok opnNone := by
  rfl

/-- the current source rejects it -/
example (C : Crypto) :
    (recv C (chanB256s .signEncrypt) opnNone).2 = .err .badSecurityPolicyRejected := by
  rfl

/-! ### Non-vacuity -/

/-- a MAC that is ideal by construction for the sent set `S` -/
def toyMac (S : List (Bytes × Bytes)) : Crypto :=
  { toy with hmacOk := fun _ d s => decide ((d, s) ∈ S) }

example (S : List (Bytes × Bytes)) (p : Policy) : MacIdeal (toyMac S) p S := by
  intro d s h; simpa [toyMac] using h

example (S : List (Bytes × Bytes)) : ∀ c p, (toyMac S).aesDec c = some p → id p = c := by
  intro c p h; simp [toyMac, toy] at h; exact h.symm

def sentData : Bytes := [77, 83, 71, 70, 52, 0, 0, 0, 9, 0, 0, 0, 1, 0, 0, 0, 5, 0, 0, 0]
def sentMac : Bytes := List.replicate 32 7

/-- the sent chunk is accepted … -/
example : (recv (toyMac [(sentData, sentMac)]) (chanB256s .sign) (sentData ++ sentMac)).2 =
    .ok [77, 83, 71, 70, 20, 0, 0, 0, 9, 0, 0, 0, 1, 0, 0, 0, 5, 0, 0, 0] := by decide

/-- … one flipped bit in the body, in the mac, or a dropped / appended byte is not -/
example : (recv (toyMac [(sentData, sentMac)]) (chanB256s .sign)
    ([77, 83, 71, 70, 52, 0, 0, 0, 9, 0, 0, 0, 1, 0, 0, 0, 4, 0, 0, 0] ++ sentMac)).2 =
    .err .badSecurityChecksFailed := by decide

example : (recv (toyMac [(sentData, sentMac)]) (chanB256s .sign)
    (sentData ++ List.replicate 31 7 ++ [6])).2 = .err .badSecurityChecksFailed := by decide

example : (recv (toyMac [(sentData, sentMac)]) (chanB256s .sign)
    ([77, 83, 71, 70, 53, 0, 0, 0, 9, 0, 0, 0, 1, 0, 0, 0, 5, 0, 0, 0] ++ sentMac ++ [0])).2 =
    .err .badSecurityChecksFailed := by decide

end OpcuaVerif.C08
