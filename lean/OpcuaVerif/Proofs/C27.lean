import OpcuaVerif.Model.C27

/-!
C27 — Higher-priority subscriptions are served first.
Property theorems only.  Model: `OpcuaVerif.Model.C27` (the loop of `Subscriptions::tick` over the
subscriptions in sorted order; every subscription is the C22 machine, but the theorems hold for
whatever one subscription tick does).
-/
namespace OpcuaVerif.C27

open OpcuaVerif.C22 (Subn Msg Variant subTickWith pairLoop readyToRemove)

/-- "`a` may be served before `b`" -/
def Ge (a b : Entry) : Prop := a.prio ≥ b.prio

theorem mem_insertBy (d : Bool) (x b : Entry) (l : List Entry) :
    b ∈ insertBy d x l ↔ b = x ∨ b ∈ l := by
  induction l with
  | nil => simp [insertBy]
  | cons y ys ih =>
    simp only [insertBy]
    split
    · simp only [List.mem_cons, ih]
      constructor <;> (intro h; rcases h with h | h | h <;> simp [h])
    · simp [List.mem_cons]

theorem insertBy_pairwise (x : Entry) (l : List Entry) (h : l.Pairwise Ge) :
    (insertBy true x l).Pairwise Ge := by
  induction l with
  | nil => simp [insertBy]
  | cons y ys ih =>
    obtain ⟨hy, hys⟩ := List.pairwise_cons.mp h
    simp only [insertBy, before, if_true]
    split
    · rename_i hlt
      refine List.pairwise_cons.mpr ⟨?_, ih hys⟩
      intro b hb
      rcases (mem_insertBy true x b ys).mp hb with rfl | hb
      · have : y.prio > b.prio := by simpa using hlt
        exact Nat.le_of_lt this
      · exact hy b hb
    · rename_i hge
      have hxy : x.prio ≥ y.prio := by
        have : ¬ y.prio > x.prio := by simpa using hge
        omega
      refine List.pairwise_cons.mpr ⟨?_, h⟩
      intro b hb
      rcases List.mem_cons.mp hb with rfl | hb
      · exact hxy
      · exact Nat.le_trans (hy b hb) hxy

/-- the order in which `Subscriptions::tick` visits the subscriptions is by non-increasing priority -/
theorem sortBy_sorted (l : List Entry) : (sortBy true l).Pairwise Ge := by
  induction l with
  | nil => simp [sortBy]
  | cons x xs ih => exact insertBy_pairwise x _ ih

theorem mem_sortBy (d : Bool) (b : Entry) (l : List Entry) : b ∈ sortBy d l ↔ b ∈ l := by
  induction l with
  | nil => simp [sortBy]
  | cons x xs ih => simp [sortBy, mem_insertBy, ih]

/-- ties keep the map (id) order: the visiting order of two equal-priority subscriptions is the
order they have in the map (stability of the sort) -/
theorem insertBy_sublist (d : Bool) (x : Entry) (l : List Entry) : l.Sublist (insertBy d x l) := by
  induction l with
  | nil => simp
  | cons y ys ih =>
    simp only [insertBy]
    split
    · exact List.Sublist.cons_cons y ih
    · exact List.Sublist.cons x (List.Sublist.refl _)

theorem filter_insertBy (d : Bool) (p : Nat) (x : Entry) (l : List Entry) :
    (insertBy d x l).filter (fun a => a.prio == p) = (x :: l).filter (fun a => a.prio == p) := by
  induction l with
  | nil => simp [insertBy]
  | cons y ys ih =>
    simp only [insertBy]
    split
    · rename_i hb
      have hne : x.prio ≠ y.prio := by
        unfold before at hb
        cases d <;> simp at hb <;> omega
      simp only [List.filter_cons, ih]
      by_cases hx : x.prio = p <;> by_cases hy : y.prio = p <;> simp [hx, hy]
      omega
    · rfl

/-- **Ties in id order.**  The sort is stable: subscriptions of equal priority are visited in the
order of the map, i.e. ascending id. -/
theorem sort_stable (d : Bool) (p : Nat) (l : List Entry) :
    (sortBy d l).filter (fun a => a.prio == p) = l.filter (fun a => a.prio == p) := by
  induction l with
  | nil => rfl
  | cons x xs ih =>
    simp only [sortBy, filter_insertBy]
    simp only [List.filter_cons, ih]
theorem pairLoop_out (rs : List Nat) (ms : List (Msg × Nat)) (h : (pairLoop rs ms).1 ≠ []) : rs ≠ [] := by
  cases rs with
  | nil => cases ms <;> simp [pairLoop] at h
  | cons r rs => simp

theorem pairLoop_len : ∀ (rs : List Nat) (ms : List (Msg × Nat)),
    (pairLoop rs ms).2.1.length ≤ rs.length
  | [], ms => by cases ms <;> simp [pairLoop]
  | r :: rs, [] => by simp [pairLoop]
  | r :: rs, m :: ms => by
    have := pairLoop_len rs ms
    rcases hp : pairLoop rs ms with ⟨o, r', m'⟩
    rw [hp] at this
    simp only [pairLoop, hp, List.length_cons]
    simp only at this
    omega

/-- facts about one iteration of the loop -/
theorem processOne_facts (v : Variant) (t e : Bool) (z z1 : MSess) (o : Entry) (out : List MResp)
    (off : Bool) (h : processOne v t e z o = some (z1, out, off)) :
    (∀ r ∈ out, r.sub = o.id ∧ r.prio = o.prio) ∧ (out ≠ [] → off = true) ∧
      off = !z.reqs.isEmpty ∧ z1.reqs.length ≤ z.reqs.length := by
  unfold processOne at h
  split at h
  · cases h
  · dsimp only at h
    split at h
    · cases h
    · rename_i en _ s' _
      simp only [Option.some.injEq, Prod.mk.injEq] at h
      obtain ⟨hz, hout, hoff⟩ := h
      subst hz hout hoff
      refine ⟨?_, ?_, rfl, ?_⟩
      · intro r hr
        obtain ⟨x, _, rfl⟩ := List.mem_map.mp hr
        exact ⟨rfl, rfl⟩
      · intro hne
        have : (pairLoop z.reqs s'.notifs).1 ≠ [] := by
          intro h0; apply hne; simp [h0]
        have := pairLoop_out _ _ this
        cases hz : z.reqs <;> simp_all
      · exact pairLoop_len _ _

/-- facts about the whole loop -/
theorem tickList_facts (v : Variant) (t e : Bool) (os : List Entry) : ∀ (z z2 : MSess)
    (out : List MResp) (offs : List (Entry × Bool)),
    tickList v t e z os = some (z2, out, offs) →
    (∀ r ∈ out, ∃ o ∈ os, r.sub = o.id ∧ r.prio = o.prio) ∧
      (out ≠ [] → z.reqs ≠ []) ∧ offs.map (·.1) = os ∧ z2.reqs.length ≤ z.reqs.length := by
  induction os with
  | nil =>
    intro z z2 out offs h
    simp only [tickList, Option.some.injEq, Prod.mk.injEq] at h
    obtain ⟨rfl, rfl, rfl⟩ := h
    simp
  | cons o os ih =>
    intro z z2 out offs h
    simp only [tickList] at h
    split at h
    · cases h
    · rename_i z1 out1 off hp
      split at h
      · cases h
      · rename_i z2' out2 offs2 hl
        simp only [Option.some.injEq, Prod.mk.injEq] at h
        obtain ⟨rfl, rfl, rfl⟩ := h
        obtain ⟨p1, p2, p3, p4⟩ := processOne_facts v t e z z1 o out1 off hp
        obtain ⟨l1, l2, l3, l4⟩ := ih z1 z2' out2 offs2 hl
        refine ⟨?_, ?_, by simp [l3], by omega⟩
        · intro r hr
          rcases List.mem_append.mp hr with hr | hr
          · exact ⟨o, by simp, p1 r hr⟩
          · obtain ⟨o', ho', h'⟩ := l1 r hr
            exact ⟨o', by simp [ho'], h'⟩
        · intro hne
          by_cases h1 : out1 = []
          · have : out2 ≠ [] := by intro h2; apply hne; simp [h1, h2]
            have := l2 this
            intro hz; rw [hz] at p4
            have : z1.reqs = [] := List.length_eq_zero_iff.mp (Nat.le_zero.mp p4)
            contradiction
          · have := p2 h1
            rw [p3] at this
            intro hz; simp [hz] at this

/-- **Responses leave in priority order.**  Whatever the subscriptions do in their own ticks, the
publish responses produced by one `Subscriptions::tick` are in non-increasing priority order. -/
theorem responses_in_priority_order (v : Variant) (t e : Bool) (os : List Entry) (hs : os.Pairwise Ge) :
    ∀ (z z2 : MSess) (out : List MResp) (offs : List (Entry × Bool)),
    tickList v t e z os = some (z2, out, offs) → out.Pairwise (fun a b => a.prio ≥ b.prio) := by
  induction os with
  | nil =>
    intro z z2 out offs h
    simp only [tickList, Option.some.injEq, Prod.mk.injEq] at h
    obtain ⟨_, rfl, _⟩ := h
    simp
  | cons o os ih =>
    intro z z2 out offs h
    obtain ⟨ho, hos⟩ := List.pairwise_cons.mp hs
    simp only [tickList] at h
    split at h
    · cases h
    · rename_i z1 out1 off hp
      split at h
      · cases h
      · rename_i z2' out2 offs2 hl
        simp only [Option.some.injEq, Prod.mk.injEq] at h
        obtain ⟨rfl, rfl, rfl⟩ := h
        obtain ⟨p1, _⟩ := processOne_facts v t e z z1 o out1 off hp
        obtain ⟨l1, _⟩ := tickList_facts v t e os z1 z2' out2 offs2 hl
        refine List.pairwise_append.mpr ⟨?_, ih hos z1 z2' out2 offs2 hl, ?_⟩
        · -- all responses of one subscription carry its priority
          refine List.pairwise_iff_forall_sublist.mpr ?_ |> fun x => x
          intro a b hab
          have ha := (p1 a (hab.subset (by simp))).2
          have hb := (p1 b (hab.subset (by simp))).2
          omega
        · intro a ha b hb
          obtain ⟨o', ho', _, hb'⟩ := l1 b hb
          have := ho o' ho'
          rw [(p1 a ha).2, hb']
          exact this

/-- **A request is offered to higher priorities first.**  If a subscription consumed a publish
request in a tick, then every subscription of strictly higher priority was ticked in that same
tick with a publish request available to it (it had the first claim on the requests). -/
theorem higher_priority_offered_first (v : Variant) (t e : Bool) (os : List Entry) (hs : os.Pairwise Ge) :
    ∀ (z z2 : MSess) (out : List MResp) (offs : List (Entry × Bool)),
    tickList v t e z os = some (z2, out, offs) →
    ∀ r ∈ out, ∀ ob ∈ offs, ob.1.prio > r.prio → ob.2 = true := by
  induction os with
  | nil =>
    intro z z2 out offs h
    simp only [tickList, Option.some.injEq, Prod.mk.injEq] at h
    obtain ⟨_, rfl, _⟩ := h
    simp
  | cons o os ih =>
    intro z z2 out offs h
    obtain ⟨ho, hos⟩ := List.pairwise_cons.mp hs
    have hfacts := tickList_facts v t e (o :: os) z z2 out offs h
    simp only [tickList] at h
    split at h
    · cases h
    · rename_i z1 out1 off hp
      split at h
      · cases h
      · rename_i z2' out2 offs2 hl
        simp only [Option.some.injEq, Prod.mk.injEq] at h
        obtain ⟨rfl, rfl, rfl⟩ := h
        obtain ⟨p1, p2, p3, p4⟩ := processOne_facts v t e z z1 o out1 off hp
        obtain ⟨l1, l2, l3, l4⟩ := tickList_facts v t e os z1 z2' out2 offs2 hl
        intro r hr ob hob hgt
        rcases List.mem_cons.mp hob with rfl | hob
        · -- the first subscription of the loop: something was answered, so a request was queued
          have hne : out1 ++ out2 ≠ [] := by intro h0; rw [h0] at hr; cases hr
          have := hfacts.2.1 hne
          simp only [p3]
          cases hz : z.reqs <;> simp_all
        · rcases List.mem_append.mp hr with hr | hr
          · -- r belongs to the first (highest) subscription: nothing later has a higher priority
            exfalso
            have hmem : ob.1 ∈ os := by
              rw [← l3]; exact List.mem_map.mpr ⟨ob, hob, rfl⟩
            have := ho ob.1 hmem
            rw [(p1 r hr).2] at hgt
            unfold Ge at this
            omega
          · exact ih hos z1 z2' out2 offs2 hl r hr ob hob hgt

/-- the two theorems for `Subscriptions::tick` of the current source (`sort_by` descending) -/
theorem tick_serves_by_priority (z z2 : MSess) (t e : Bool) (out : List MResp)
    (offs : List (Entry × Bool)) (h : tick z t e = some (z2, out, offs)) :
    out.Pairwise (fun a b => a.prio ≥ b.prio) ∧
      (∀ r ∈ out, ∀ ob ∈ offs, ob.1.prio > r.prio → ob.2 = true) ∧
      (∀ x ∈ z.subs, ∃ ob ∈ offs, ob.1 = x) :=
  ⟨responses_in_priority_order _ t e _ (sortBy_sorted z.subs) z z2 out offs h,
   higher_priority_offered_first _ t e _ (sortBy_sorted z.subs) z z2 out offs h,
   by
    intro x hx
    have := (tickList_facts _ t e _ z z2 out offs h).2.2.1
    have hx' : x ∈ sortBy true z.subs := (mem_sortBy true x z.subs).mpr hx
    rw [← this] at hx'
    obtain ⟨ob, hob, rfl⟩ := List.mem_map.mp hx'
    exact ⟨ob, hob, rfl⟩⟩

/-! ### Current priorities, after any history of inserts, removals and priority changes -/

/-- what it means for the responses `out` / offers `offs` of one tick, started in session `z`, to
respect the priorities the subscriptions have IN `z` (not the ones they had earlier) -/
def Good (z : MSess) (out : List MResp) (offs : List (Entry × Bool)) : Prop :=
  out.Pairwise (fun a b => a.prio ≥ b.prio) ∧
  (∀ r ∈ out, ∃ x ∈ z.subs, x.id = r.sub ∧ x.prio = r.prio) ∧
  (∀ r ∈ out, ∀ ob ∈ offs, ob.1.prio > r.prio → ob.2 = true) ∧
  (∀ x ∈ z.subs, ∃ ob ∈ offs, ob.1 = x)

/-- **Every tick serves by the CURRENT priorities.**  For every session `z` — hence after any
history whatsoever — the priority carried by each response of `tick z` is the priority its
subscription has in `z` now, the responses are in non-increasing order of those priorities, and
every subscription of `z` with a strictly higher current priority than an answered one was offered
a request first. -/
theorem tick_good (z z2 : MSess) (t e : Bool) (out : List MResp) (offs : List (Entry × Bool))
    (h : tick z t e = some (z2, out, offs)) : Good z out offs := by
  obtain ⟨h1, h2, h3⟩ := tick_serves_by_priority z z2 t e out offs h
  refine ⟨h1, ?_, h2, h3⟩
  intro r hr
  obtain ⟨o, ho, hid, hp⟩ := (tickList_facts _ t e _ z z2 out offs h).1 r hr
  exact ⟨o, (mem_sortBy true o z.subs).mp ho, hid.symm, hp.symm⟩

/-- operations between ticks -/
inductive Op where
  | timer (e w : Bool)
  | publish (r : Nat)
  | setPrio (id p : Nat)          -- ModifySubscription
  | remove (id : Nat)             -- DeleteSubscriptions
  | add (x : Entry)               -- CreateSubscription
deriving Repr

def stepH (z : MSess) : Op → Option MSess
  | .timer e w => (tick (if w then write z else z) true e).map (·.1)
  | .publish r =>
    match publish z r with
    | .ok z' _ => some z'
    | .tooMany z' _ => some z'
    | .panic => none
  | .setPrio id p => some ((setPrio z id p).getD z)
  | .remove id => some (remove z id).1
  | .add x => some (add z x)

def runH : MSess → List Op → Option MSess
  | z, [] => some z
  | z, op :: ops =>
    match stepH z op with
    | some z' => runH z' ops
    | none => none

/-- the statement over histories: whatever inserts, removals, priority changes, requests and
ticks came before, the next timer tick respects the priorities as they are at that moment -/
theorem history_tick_good (z0 : MSess) (pre : List Op) (z : MSess) (_h : runH z0 pre = some z)
    (e w : Bool) (z2 : MSess) (out : List MResp) (offs : List (Entry × Bool))
    (ht : tick (if w then write z else z) true e = some (z2, out, offs)) :
    Good (if w then write z else z) out offs :=
  tick_good _ z2 true e out offs ht

/-- after a priority change the visiting order is sorted by the NEW priorities -/
theorem order_follows_setPrio (z z' : MSess) (id p : Nat) (_h : setPrio z id p = some z') :
    (sortBy true z'.subs).Pairwise Ge := sortBy_sorted z'.subs

/-! ### Non-vacuity and the repaired defect -/

def entry (id prio : Nat) : Entry := { id := id, prio := prio, s := C22.mk 30 3 true true }

/-- two subscriptions, ids 5 and 9, priorities 1 and 200, data ready on both, one publish request -/
def twoSubs : MSess := { subs := [entry 5 1, entry 9 200], reqs := [] }

def answered (r : Option (MSess × List MResp × List (Entry × Bool))) : Option (List Nat) :=
  r.map fun x => x.2.1.map (·.sub)

def afterCreation (desc : Bool) : Option MSess :=
  match publishWith C22.current desc twoSubs 1 with
  | .ok z _ => some z
  | _ => none

/-- the current source answers the priority-200 subscription (id 9) -/
example : (afterCreation true).bind (fun z => answered (tickWith C22.current true z true true)) = some [9] := by
  decide

/-- **Repaired defect.**  With the pinned ascending sort the single request goes to the priority-1
subscription (id 5) although the priority-200 subscription has a notification ready. -/
theorem C27_counterexample_ascending_sort :
    (afterCreation false).bind (fun z => answered (tickWith C22.current false z true true)) = some [5] := by
  decide

/-- both subscriptions leave Creating and, one interval later, each holds a data notification that
no request has collected yet -/
def warm : Option MSess :=
  ((tick twoSubs true true).bind fun r => tick r.1 true true).map (·.1)

/-- ModifySubscription flips the two priorities: 5 ↦ 200, 9 ↦ 1; then one publish request arrives -/
def flipped : Option MSess :=
  (warm.bind fun z => (setPrio z 5 200).bind fun z1 => setPrio z1 9 1).map fun z => { z with reqs := [7] }

/-- non-vacuity of `history_tick_good`: after the priority change the current source gives the
request to subscription 5 (now priority 200) -/
example : flipped.bind (fun z => answered (tick z false false)) = some [5] := by decide

/-- **A cached service order would be a defect.**  Visiting the subscriptions in the order that was
sorted BEFORE the priority change gives the request to subscription 9 (now priority 1) although
subscription 5 (now priority 200) has a notification ready. -/
theorem C27_counterexample_stale_order :
    flipped.bind (fun z => answered (tickList C22.current false false z (sortBy true twoSubs.subs))) =
      some [9] := by decide

end OpcuaVerif.C27
