import OpcuaVerif.Lemmas.C04
import OpcuaVerif.Lemmas.C04Date

/-!
C04 — Textual identifiers parse back to the value they were printed from; parsing never panics.
Property theorems only; the model is `OpcuaVerif.Model.C04` (+ `Model.Text`), helper lemmas are in
`OpcuaVerif.Lemmas.Text`, `Lemmas.C04`, `Lemmas.C04Date`.

The well-formedness predicates are exactly the property's quantifier:
`WFIdent` — numeric (u32), NON-EMPTY string, 16-byte guid, NON-EMPTY byte string;
`WFNode`  — namespace index ≤ 65535 and `WFIdent`;
`ValidNR` — none / index / `min < max` / 2..10 dimensions of index-or-range (values ≤ u32::MAX).
-/
namespace OpcuaVerif.C04
open OpcuaVerif.Text

/-! ### round trips -/

/-- Guid: hyphenated lower-case text parses back (uuid `try_parse` over the bytes of the text). -/
theorem guid_text_roundtrip (g : List Nat) (hl : g.length = 16) (hb : ∀ b ∈ g, b < 256) :
    parseGuid (utf8 (printGuid g)) = some g := guid_roundtrip g hl hb

/-- base64 text of a byte string decodes back (standard alphabet, canonical padding required). -/
theorem base64_text_roundtrip (bs : List Nat) (h : ∀ b ∈ bs, b < 256) :
    b64Decode (utf8 (b64Encode bs)) = some bs := by
  rw [utf8_ascii _ (b64Encode_ascii bs h)]; exact b64_roundtrip_bytes bs h

/-- Identifier: `from_str(to_string(i)) = Ok(i)` for every identifier of the quantifier. -/
theorem ident_roundtrip (i : Ident) (h : WFIdent i) : identFromStr (printIdent i) = .ok i :=
  ident_roundtrip_with true i h

/-- NodeId: every namespace index, every identifier kind. -/
theorem nodeid_roundtrip (n : NodeId) (h : WFNode n) : parseNodeId (printNodeId n) = .ok n :=
  nodeid_roundtrip_with true n h

/-- ExpandedNodeId without namespace URI: every server index and namespace index (incl. 0). -/
theorem exp_roundtrip_nouri (e : ExpNodeId) (hu : e.uri = none) (hs : e.svr ≤ 4294967295)
    (hn : WFNode e.node) : parseExp (printExp e) = .ok e :=
  exp_roundtrip_nouri_with true e hu hs hn

/-- ExpandedNodeId with a non-empty namespace URI (any characters, `%` and `;` escaped).
PARTIAL: restricted to namespace index 0 — the printed form `svr=…;nsu=…;<id>` has no place for the
index, so a non-zero index is lost (recorded finding `C04-expanded-uri-drops-namespace`,
`C04_counterexample_exp_uri_drops_ns`). -/
theorem exp_roundtrip_uri_partial (e : ExpNodeId) (u : List Char) (hu : e.uri = some u) (hne : u ≠ [])
    (hs : e.svr ≤ 4294967295) (hns : e.node.ns = 0) (hi : WFIdent e.node.id) :
    parseExp (printExp e) = .ok e :=
  exp_roundtrip_uri_with true e u hu hne hs hns hi

/-- the `%`/`;` escaping of namespace URIs is invertible for EVERY string -/
theorem uri_unescape_escape (u : List Char) : unescapeUri (escapeUri u) = u := unescape_escape u

/-- NumericRange: every valid range. -/
theorem nr_roundtrip (r : NR) (h : ValidNR r) : parseNR (printNR r) = some r := nr_roundtrip' r h

/-- all values fit `u32` (they are `u32` in the Rust type) -/
def dimBounded : Dim → Prop
  | .none => True
  | .index n => n ≤ 4294967295
  | .range a b => a ≤ 4294967295 ∧ b ≤ 4294967295

def NRBounded : NR → Prop
  | .one d => dimBounded d
  | .multi ds => ∀ d ∈ ds, dimBounded d

/-- NumericRange, stated with the crate's own validity function (current source): whatever
`is_valid()` accepts prints to a text that parses back to it. -/
theorem nr_roundtrip_is_valid (r : NR) (hb : NRBounded r) (hv : isValidNR true r = true) :
    parseNR (printNR r) = some r := by
  apply nr_roundtrip
  cases r with
  | one d =>
    cases d with
    | none => simp [ValidNR]
    | index n => exact hb
    | range a b =>
      have h1 : a < b := by simpa [isValidNR, dimValid] using hv
      have h2 : b ≤ 4294967295 := hb.2
      exact ⟨h1, h2⟩
  | multi ds =>
    simp only [isValidNR, if_true, Bool.and_eq_true, decide_eq_true_eq, List.all_eq_true] at hv
    refine ⟨hv.1.1, hv.1.2, ?_⟩
    intro d hd
    have h1 := hv.2 d hd
    have h2 := hb d hd
    cases d with
    | none => simp [dimIndexOrRange] at h1
    | index n => exact h2
    | range a b =>
      have : a < b := by simpa [dimIndexOrRange, dimValid] using h1
      exact ⟨this, h2.2⟩

/-- DateTime: every tick count from 1601-01-01T00:00:00Z to 9999-12-31T23:59:59Z prints (RFC 3339,
0/3/6/9 fraction digits) to a text that parses back to exactly the same ticks (100 ns). -/
theorem dt_roundtrip (t : Nat) (ht : t ≤ endTicks) : parsePrinted (printDateTime t) = some (some (t : Int)) :=
  dt_roundtrip' t ht

/-! ### parsing never panics (arbitrary strings) -/

theorem identFromStr_no_panic (s : List Char) : identFromStr s ≠ .panic := identFromStr_total s

theorem parseNodeId_no_panic (s : List Char) : parseNodeId s ≠ .panic := parseNodeId_total true s

theorem parseExp_no_panic (s : List Char) : parseExp s ≠ .panic := parseExp_total true true s

/- `parseGuid`, `parseNR` and `parsePrinted` are `Option`-valued total functions: the modelled code has
no panic site on those paths (no slicing/indexing/unwrap outside the regex captures). -/

/-! ### non-vacuity -/

example : WFNode ⟨65535, .str (some ['a', '\n', ';', 'é'])⟩ := by
  refine ⟨by decide, ?_⟩; simp [WFIdent]
example : WFIdent (.bytes (some [0, 255])) := by
  refine ⟨by simp, ?_⟩; intro x hx; simp at hx; omega
example : WFIdent (.guid (List.replicate 16 255)) := by
  refine ⟨by simp, ?_⟩; intro b hb; simp at hb; omega
example : ValidNR (.multi [.index 0, .range 1 4294967295]) := by
  refine ⟨by decide, by decide, ?_⟩
  intro d hd; simp at hd; rcases hd with rfl | rfl <;> simp [ValidLeaf]
example : (132223104001234567 : Nat) ≤ endTicks := by decide
example : parseNodeId (printNodeId ⟨2, .str (some ['a', '\n', 'b'])⟩) = .ok ⟨2, .str (some ['a', '\n', 'b'])⟩ := by
  decide
example : parseExp (printExp ⟨⟨0, .numeric 5⟩, some ['a', ';', '%', '3', 'b'], 7⟩)
    = .ok ⟨⟨0, .numeric 5⟩, some ['a', ';', '%', '3', 'b'], 7⟩ := by decide

/-! ### the defects of the pinned source (now fixed), on the model with the pinned flags -/

/-- pinned `Identifier::from_str("aé")`: `&s[..2]` is not on a char boundary → panic -/
theorem C04_counterexample_ident_boundary_pinned : identFromStrWith false ['a', 'é'] = .panic := by decide

/-- pinned regex without `(?s)`: a string identifier containing `\n` prints to a text that is rejected -/
theorem C04_counterexample_newline_pinned :
    parseNodeIdWith false true (printNodeId ⟨0, .str (some ['a', '\n', 'b'])⟩) = .err := by decide

/-- pinned regex with a mandatory `ns=`/`nsu=` group: `svr=0;i=5` (namespace 0, no URI) is rejected -/
theorem C04_counterexample_exp_ns0_pinned :
    parseExpWith true true false (printExp ⟨⟨0, .numeric 5⟩, none, 0⟩) = .err := by decide

/-! ### recorded findings of the current source -/

/-- a namespace URI hides the namespace index: index 2 comes back as 0 -/
theorem C04_counterexample_exp_uri_drops_ns :
    parseExp (printExp ⟨⟨2, .numeric 5⟩, some ['u'], 0⟩) = .ok ⟨⟨0, .numeric 5⟩, some ['u'], 0⟩ := by decide

/-- an empty (non-null) namespace URI comes back as the null string -/
theorem C04_counterexample_exp_empty_uri :
    parseExp (printExp ⟨⟨1, .numeric 5⟩, some [], 0⟩) = .ok ⟨⟨1, .numeric 5⟩, none, 0⟩ := by decide

/-- pinned `is_valid()` accepted `MultipleRanges` lists that the text form cannot express (one element,
no element, a `None` element); the current one rejects them -/
theorem C04_counterexample_range_degenerate_pinned :
    (isValidNR false (.multi [.index 1]) = true ∧ parseNR (printNR (.multi [.index 1])) = some (.one (.index 1))) ∧
    (isValidNR false (.multi []) = true ∧ parseNR (printNR (.multi [])) = some (.one .none)) ∧
    (isValidNR false (.multi [.none, .index 1]) = true ∧ parseNR (printNR (.multi [.none, .index 1])) = none) ∧
    isValidNR true (.multi [.index 1]) = false ∧ isValidNR true (.multi []) = false ∧
    isValidNR true (.multi [.none, .index 1]) = false := by decide

end OpcuaVerif.C04
