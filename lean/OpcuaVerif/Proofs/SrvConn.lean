import OpcuaVerif.Model.SrvConn
import OpcuaVerif.Proofs.C12

/-!
Theorems about the model of one server connection (`Model/SrvConn.lean`), shared by
C10 (`pending_bounded`, `over_count_closes`, `over_size_closes`, `unbounded_grows`,
`C10_counterexample_unbounded_opn`) and C15 (`only_hello_first`, `no_service_before_open`,
`first_open_is_issue`, `clo_closes`, `nothing_after_close`, `nothing_after_error`,
`C15_counterexample_service_before_open`).  Histories range over Hello / non-chunk frames and
chunks of every type (MSG, OPN, CLO) × every flag (C, F, A) × malformations, in any order.
-/
namespace OpcuaVerif.SrvConn
open OpcuaVerif.C11 OpcuaVerif.C12

/-- the four things `process_chunk` can do -/
def PcSpec (g b : Bool) (c : Conn) (k : Chunk) (c' : Conn) (o : Out) : Prop :=
    c'.lens = c.lens ∧ c'.maxChunks = c.maxChunks ∧ c'.maxMsg = c.maxMsg ∧
    ((∃ e, o = .closeErr e ∧ c'.phase = .closed ∧ c'.issued = c.issued ∧
        (c'.pending = [] ∨ c'.pending = c.pending)) ∨
     (o = .stored ∧ k.fin ≠ .final ∧ c'.phase = c.phase ∧ c'.issued = c.issued ∧
        (c'.pending = [] ∨
          (c'.pending = c.pending ++ [(k.ty, k.ci, k.size)] ∧
            (b = true → (c.maxChunks > 0 → c.pending.length < c.maxChunks) ∧
                        (c.maxMsg > 0 → c.bytes + k.size ≤ c.maxMsg))))) ∨
     (∃ ch tk rq, o = .opnResponse ch tk rq ∧ c'.phase = c.phase ∧ c'.pending = [] ∧ k.ty = .opn ∧ k.fin = .final ∧
        (c.issued = false → ∃ m n, (if c.pending.isEmpty then k.rk else c.curRk) = .open false m true n ∧ m ≠ .invalid) ∧
        c'.issued = true) ∨
     (∃ e rq, o = .opnFault e rq ∧ c'.phase = c.phase ∧ c'.pending = [] ∧ c'.issued = c.issued ∧ k.ty = .opn ∧
        k.fin = .final) ∨
     (∃ n rq, o = .service n rq ∧ c'.phase = c.phase ∧ c'.pending = [] ∧ c'.issued = c.issued ∧ k.ty = .msg ∧
        k.fin = .final ∧ (g = true → c.issued = true)))

theorem closeKeep_spec (g b : Bool) (c : Conn) (k : Chunk) (e : String) :
    PcSpec g b c k (closeKeep c e).1 (closeKeep c e).2 := by
  simp [PcSpec, closeKeep]

theorem closeWith_spec (g b : Bool) (c c0 : Conn) (k : Chunk) (e : String)
    (h1 : c0.lens = c.lens) (h2 : c0.maxChunks = c.maxChunks) (h3 : c0.maxMsg = c.maxMsg) (h4 : c0.issued = c.issued) :
    PcSpec g b c k (closeWith c0 e).1 (closeWith c0 e).2 := by
  simp [PcSpec, closeWith, h1, h2, h3, h4]

theorem processChunk_spec (g b : Bool) (c : Conn) (k : Chunk) :
    PcSpec g b c k (processChunk g b c k).1 (processChunk g b c k).2 := by
  delta processChunk
  split
  · exact closeKeep_spec g b c k _
  · rename_i hg
    split
    · rename_i hab1; simp [PcSpec, hab1]
    · rename_i hab
      split
      · exact closeKeep_spec g b c k _
      · split
        · exact closeKeep_spec g b c k _
        · split
          · exact closeWith_spec g b c c k _ rfl rfl rfl rfl
          · rename_i hcnt
            split
            · exact closeWith_spec g b c c k _ rfl rfl rfl rfl
            · rename_i hsz
              simp only
              split
              · rename_i hint
                refine ⟨rfl, rfl, rfl, Or.inr (Or.inl ⟨rfl, by simp [hint], rfl, rfl, Or.inr ⟨rfl, ?_⟩⟩)⟩
                intro hb
                subst hb
                simp only [true_and, not_and, Nat.not_le, Nat.not_lt] at hcnt hsz
                exact ⟨hcnt, fun h => by have := hsz h; omega⟩
              · rename_i hfin
                have hfinal : k.fin = .final := by
                  cases hk : k.fin <;> simp_all
                cases recv c.lastSeq c.chanId (List.map (fun p => some p.2.1) (c.pending ++ [(k.ty, k.ci, k.size)])) with
                | err e => exact closeWith_spec g b c _ k _ rfl rfl rfl rfl
                | panic => exact closeWith_spec g b c _ k _ rfl rfl rfl rfl
                | ok l =>
                  simp only
                  cases decodeErr c.lens (if c.pending.isEmpty then k.rk else c.curRk)
                      (List.map (fun p => p.2.2 - overhead c.lens p.1) (c.pending ++ [(k.ty, k.ci, k.size)])).sum with
                  | some e => exact closeWith_spec g b c _ k _ rfl rfl rfl rfl
                  | none =>
                    simp only [dispatch]
                    cases hty : k.ty with
                    | clo => exact closeWith_spec g b c _ k _ rfl rfl rfl rfl
                    | opn =>
                      simp only
                      cases hrk : (if c.pending.isEmpty then k.rk else c.curRk) with
                      | «open» renew mode pvSame nonce =>
                        simp only
                        split
                        · exact closeWith_spec g b c _ k _ rfl rfl rfl rfl
                        · split
                          · simp [PcSpec, hfinal]; exact hty
                          · rename_i hpv
                            split
                            · exact closeWith_spec g b c _ k _ rfl rfl rfl rfl
                            · rename_i hren
                              split
                              · rename_i hmode
                                cases renew <;> simp [PcSpec, hfinal] <;> exact hty
                              · rename_i hmode
                                have hpv' : pvSame = true := by simpa using hpv
                                cases renew with
                                | false =>
                                  simp [PcSpec, hfinal]
                                  exact ⟨hty, fun _ => ⟨mode, ⟨nonce, by subst hpv'; simpa using hrk⟩, hmode⟩⟩
                                | true =>
                                  simp [PcSpec, hfinal]
                                  refine ⟨hty, fun h => ?_⟩
                                  simp [h] at hren
                      | getEndpoints => exact closeWith_spec g b c _ k _ rfl rfl rfl rfl
                      | createSession => exact closeWith_spec g b c _ k _ rfl rfl rfl rfl
                      | openBadEnum => exact closeWith_spec g b c _ k _ rfl rfl rfl rfl
                      | close => exact closeWith_spec g b c _ k _ rfl rfl rfl rfl
                      | junk => exact closeWith_spec g b c _ k _ rfl rfl rfl rfl
                    | msg =>
                      have hiss : g = true → c.issued = true := by
                        intro hgt
                        simp only [hgt, hty, true_and, Decidable.not_not] at hg
                        exact hg
                      simp only
                      cases hrk : (if c.pending.isEmpty then k.rk else c.curRk) with
                      | getEndpoints => simp [PcSpec, hfinal]; exact ⟨hty, hiss⟩
                      | createSession =>
                        simp only
                        split
                        · simp [PcSpec, hfinal]; exact ⟨hty, hiss⟩
                        · simp [PcSpec, hfinal]; exact ⟨hty, hiss⟩
                      | «open» _ _ _ _ => exact closeWith_spec g b c _ k _ rfl rfl rfl rfl
                      | openBadEnum => exact closeWith_spec g b c _ k _ rfl rfl rfl rfl
                      | close => exact closeWith_spec g b c _ k _ rfl rfl rfl rfl
                      | junk => exact closeWith_spec g b c _ k _ rfl rfl rfl rfl

theorem closed_step (g b : Bool) (c : Conn) (f : Frame) (h : c.phase = .closed) :
    stepWith g b c f = (c, .ignored) := by simp [stepWith, h]

/-- what one iteration of the reading loop can do -/
theorem step_cases (g b : Bool) (c : Conn) (f : Frame) :
    (c.phase = .closed ∧ stepWith g b c f = (c, .ignored)) ∨
    (c.phase = .waitingHello ∧ (stepWith g b c f = ({ c with phase := .processing }, .ack) ∨
        ∃ e, stepWith g b c f = ({ c with phase := .closed }, .closeErr e))) ∨
    (c.phase = .processing ∧ ((∃ e, stepWith g b c f = ({ c with phase := .closed }, .closeErr e)) ∨
        ∃ k, f = .chunk k ∧ stepWith g b c f = processChunk g b c k)) := by
  cases hp : c.phase with
  | closed => left; exact ⟨rfl, closed_step g b c f hp⟩
  | waitingHello =>
    right; left
    refine ⟨rfl, ?_⟩
    cases f with
    | hel k => cases k <;> simp [stepWith, hp, processHello, closeKeep]
    | other => simp [stepWith, hp, closeKeep]
    | chunk k => simp [stepWith, hp, closeKeep]
  | processing =>
    right; right
    refine ⟨rfl, ?_⟩
    cases f with
    | hel k => left; simp [stepWith, hp, closeKeep]
    | other => left; simp [stepWith, hp, closeKeep]
    | chunk k => right; exact ⟨k, rfl, by simp [stepWith, hp]⟩

/-! ## C10: what is buffered -/

def Bounded (c : Conn) : Prop :=
  (c.maxChunks > 0 → c.pending.length ≤ c.maxChunks) ∧ (c.maxMsg > 0 → c.bytes ≤ c.maxMsg)

theorem sum_snoc (l : List Nat) (n : Nat) : (l ++ [n]).sum = l.sum + n := by
  induction l with
  | nil => simp
  | cons a r ih => simp [ih]; omega

theorem pc_bounded (g : Bool) (c : Conn) (k : Chunk) (h : Bounded c) :
    Bounded (processChunk g true c k).1 ∧ (processChunk g true c k).1.maxChunks = c.maxChunks ∧
    (processChunk g true c k).1.maxMsg = c.maxMsg := by
  obtain ⟨_, e2, e3, hcase⟩ := processChunk_spec g true c k
  refine ⟨?_, e2, e3⟩
  have hnil : ∀ c' : Conn, c'.pending = [] → Bounded c' := by
    intro c' hp; simp [Bounded, Conn.bytes, hp]
  have hsame : ∀ c' : Conn, c'.pending = c.pending → c'.maxChunks = c.maxChunks → c'.maxMsg = c.maxMsg → Bounded c' := by
    intro c' hp h2 h3; simpa [Bounded, Conn.bytes, hp, h2, h3] using h
  rcases hcase with ⟨e, _, _, _, hp⟩ | ⟨_, _, _, _, hp⟩ | ⟨_, _, _, _, _, hp, _⟩ | ⟨_, _, _, _, hp, _⟩ | ⟨_, _, _, _, hp, _⟩
  · rcases hp with hp | hp
    · exact hnil _ hp
    · exact hsame _ hp e2 e3
  · rcases hp with hp | ⟨hp, hb⟩
    · exact hnil _ hp
    · obtain ⟨b1, b2⟩ := hb rfl
      constructor
      · intro hm; rw [hp, e2]; rw [e2] at hm; simp; have := b1 hm; omega
      · intro hm
        rw [e3] at hm
        have := b2 hm
        simp only [Conn.bytes, hp, List.map_append, List.map_cons, List.map_nil, sum_snoc, e3]
        simpa [Conn.bytes] using this
  · exact hnil _ hp
  · exact hnil _ hp
  · exact hnil _ hp

theorem step_bounded (g : Bool) (c : Conn) (f : Frame) (h : Bounded c) :
    Bounded (stepWith g true c f).1 ∧ (stepWith g true c f).1.maxChunks = c.maxChunks ∧
    (stepWith g true c f).1.maxMsg = c.maxMsg := by
  rcases step_cases g true c f with ⟨_, hs⟩ | ⟨_, hs | ⟨e, hs⟩⟩ | ⟨_, ⟨e, hs⟩ | ⟨k, _, hs⟩⟩
  · rw [hs]; exact ⟨h, rfl, rfl⟩
  · rw [hs]; exact ⟨h, rfl, rfl⟩
  · rw [hs]; exact ⟨h, rfl, rfl⟩
  · rw [hs]; exact ⟨h, rfl, rfl⟩
  · rw [hs]; exact pc_bounded g c k h

/-- **The server never holds more than the limits** — over every history of frames on one
connection: Hello or not, channel open or not, MSG / OPN / CLO chunks, intermediate / final /
abort, any sizes and numbering, well-formed or not, mixed types inside one pending message. -/
theorem pending_bounded (g : Bool) : ∀ (fs : List Frame) (c : Conn), Bounded c →
    Bounded (finalWith g true c fs) ∧ (finalWith g true c fs).maxChunks = c.maxChunks ∧
    (finalWith g true c fs).maxMsg = c.maxMsg := by
  intro fs
  induction fs with
  | nil => intro c h; exact ⟨h, rfl, rfl⟩
  | cons f fs ih =>
    intro c h
    obtain ⟨b1, e1, e2⟩ := step_bounded g c f h
    obtain ⟨b2, e3, e4⟩ := ih _ b1
    exact ⟨b2, by simpa [finalWith, e1] using e3, by simpa [finalWith, e2] using e4⟩

theorem init_bounded (l : Lens) (mc mm : Nat) : Bounded (Conn.init l mc mm) := by
  simp [Bounded, Conn.init, Conn.bytes]

/-- a chunk of ANY type that would be one too many is refused, the buffer is dropped and the
connection closes (unless the chunk was refused for another reason before the limits are looked
at, or is an abort) -/
theorem over_count_closes (g : Bool) (c : Conn) (k : Chunk)
    (hguard : ¬ (g = true ∧ k.ty = .msg ∧ ¬ c.issued = true)) (hf : k.fin ≠ .abort) (hm : k.mal = .ok)
    (hp : c.maxChunks > 0) (hfull : c.pending.length ≥ c.maxChunks) :
    processChunk g true c k = closeWith c "BadEncodingLimitsExceeded" := by
  delta processChunk
  rw [if_neg hguard, if_neg hf, if_neg (by simp [hm]), if_neg (by simp [hm]), if_pos ⟨rfl, hp, hfull⟩]

theorem over_size_closes (g : Bool) (c : Conn) (k : Chunk)
    (hguard : ¬ (g = true ∧ k.ty = .msg ∧ ¬ c.issued = true)) (hf : k.fin ≠ .abort) (hm : k.mal = .ok)
    (hcount : ¬ (c.maxChunks > 0 ∧ c.pending.length ≥ c.maxChunks))
    (hp : c.maxMsg > 0) (hbig : c.bytes + k.size > c.maxMsg) :
    processChunk g true c k = closeWith c "BadTcpMessageTooLarge" := by
  delta processChunk
  rw [if_neg hguard, if_neg hf, if_neg (by simp [hm]), if_neg (by simp [hm]),
    if_neg (by intro h; exact hcount ⟨h.2.1, h.2.2⟩), if_pos ⟨rfl, hp, hbig⟩]

/-- pinned source (no limits): `n` intermediate chunks of any type that passes the guard are all
kept — in particular OPN chunks before any channel is open -/
theorem unbounded_grows (g : Bool) (k : Chunk) (hk : k.fin = .intermediate) (hm : k.mal = .ok) (hty : k.ty ≠ .msg) :
    ∀ (n : Nat) (c : Conn), c.phase = .processing →
    (finalWith g false c (List.replicate n (.chunk k))).pending.length = c.pending.length + n := by
  intro n
  induction n with
  | zero => intro c _; rfl
  | succ n ih =>
    intro c hc
    simp only [List.replicate_succ, finalWith]
    have h1 : stepWith g false c (.chunk k) =
        ({ c with pending := c.pending ++ [(k.ty, k.ci, k.size)],
                  curRk := if c.pending.isEmpty then k.rk else c.curRk }, .stored) := by
      simp only [stepWith, hc]
      delta processChunk
      rw [if_neg (by simp [hty]), if_neg (by simp [hk]), if_neg (by simp [hm]), if_neg (by simp [hm]),
        if_neg (by simp), if_neg (by simp)]
      simp [hk, hc]
    rw [h1]
    simp only
    rw [ih _ (by exact hc)]
    simp; omega

def lens0 : Lens := { ovOpn := 79, ge := 70, cs := 150, opn := 50, clo := 30 }

/-- pinned source: 64 intermediate OPN chunks held against a limit of 4, before any channel is open -/
theorem C10_counterexample_unbounded_opn :
    (finalWith true false { Conn.init lens0 4 65536 with phase := .processing }
      (List.replicate 64 (.chunk ⟨.opn, ⟨0, 1, 1⟩, .intermediate, 10079, .openIssue, .ok⟩))).pending.length = 64 := by
  rw [unbounded_grows true _ rfl rfl (by decide) 64 _ rfl]
  rfl

/-! ## C15: what is answered -/

/-- until the first ACK nothing but connection-closing errors -/
def okBeforeAck : List Out → Bool
  | [] => true
  | .ack :: _ => true
  | .closeErr _ :: r => okBeforeAck r
  | .ignored :: r => okBeforeAck r
  | _ :: _ => false

/-- no response of the service layer before the first OpenSecureChannel response -/
def noServiceUntilOpen : List Out → Bool
  | [] => true
  | .opnResponse _ _ _ :: _ => true
  | .service _ _ :: _ => false
  | _ :: r => noServiceUntilOpen r

theorem closed_ignores (g b : Bool) : ∀ (fs : List Frame) (c : Conn), c.phase = .closed →
    runWith g b c fs = List.replicate fs.length .ignored := by
  intro fs
  induction fs with
  | nil => intro c _; rfl
  | cons f fs ih =>
    intro c hc
    simp only [runWith, closed_step g b c f hc, List.length_cons, List.replicate_succ, ih c hc]

theorem okBeforeAck_ignored : ∀ n, okBeforeAck (List.replicate n .ignored) = true := by
  intro n; induction n with
  | zero => rfl
  | succ n ih => simpa [List.replicate_succ, okBeforeAck] using ih

theorem noService_ignored : ∀ n, noServiceUntilOpen (List.replicate n .ignored) = true := by
  intro n; induction n with
  | zero => rfl
  | succ n ih => simpa [List.replicate_succ, noServiceUntilOpen] using ih

/-- **Nothing but a Hello is answered first.** -/
theorem only_hello_first (g b : Bool) (l : Lens) (mc mm : Nat) (fs : List Frame) :
    okBeforeAck (runWith g b (Conn.init l mc mm) fs) = true := by
  have gen : ∀ (fs : List Frame) (c : Conn), c.phase = .waitingHello → okBeforeAck (runWith g b c fs) = true := by
    intro fs
    induction fs with
    | nil => intro c _; rfl
    | cons f fs ih =>
      intro c hc
      simp only [runWith]
      rcases step_cases g b c f with ⟨h, _⟩ | ⟨_, hs | ⟨e, hs⟩⟩ | ⟨h, _⟩
      · rw [hc] at h; simp at h
      · rw [hs]; rfl
      · rw [hs]
        simp only [okBeforeAck]
        rw [closed_ignores g b fs _ rfl]
        exact okBeforeAck_ignored _
      · rw [hc] at h; simp at h
  exact gen fs _ rfl

/-- **No service before an OpenSecureChannel** (with the guard of the `fix:` commit). -/
theorem no_service_before_open (b : Bool) (l : Lens) (mc mm : Nat) (fs : List Frame) :
    noServiceUntilOpen (runWith true b (Conn.init l mc mm) fs) = true := by
  have gen : ∀ (fs : List Frame) (c : Conn), c.issued = false → noServiceUntilOpen (runWith true b c fs) = true := by
    intro fs
    induction fs with
    | nil => intro c _; rfl
    | cons f fs ih =>
      intro c hi
      simp only [runWith]
      rcases step_cases true b c f with ⟨_, hs⟩ | ⟨_, hs | ⟨e, hs⟩⟩ | ⟨_, ⟨e, hs⟩ | ⟨k, _, hs⟩⟩
      · rw [hs]; exact ih c hi
      · rw [hs]; exact ih _ hi
      · rw [hs]; exact ih _ hi
      · rw [hs]; exact ih _ hi
      · rw [hs]
        obtain ⟨_, _, _, hcase⟩ := processChunk_spec true b c k
        rcases hcase with ⟨e, ho, _, hiss, _⟩ | ⟨ho, _, _, hiss, _⟩ | ⟨ch, tk, rq, ho, _⟩ | ⟨e, rq, ho, _, _, hiss, _⟩ | ⟨n, rq, ho, _, _, _, _, _, hg⟩
        · rw [ho]; exact ih _ (by rw [hiss]; exact hi)
        · rw [ho]; exact ih _ (by rw [hiss]; exact hi)
        · rw [ho]; rfl
        · rw [ho]; exact ih _ (by rw [hiss]; exact hi)
        · have := hg rfl; rw [hi] at this; simp at this
  exact gen fs _ rfl

/-- the first OpenSecureChannel response of a connection answers an Issue request (a Renew on a
connection without an issued channel is never answered) -/
theorem first_open_is_issue (g b : Bool) (c : Conn) (k : Chunk) (hi : c.issued = false) (ch tk rq : Nat)
    (h : (processChunk g b c k).2 = .opnResponse ch tk rq) :
    (∃ m n, (if c.pending.isEmpty then k.rk else c.curRk) = .open false m true n ∧ m ≠ .invalid) ∧
      k.ty = .opn ∧ k.fin = .final ∧ (processChunk g b c k).1.issued = true := by
  obtain ⟨_, _, _, hcase⟩ := processChunk_spec g b c k
  rcases hcase with ⟨e, ho, _⟩ | ⟨ho, _⟩ | ⟨_, _, _, _, _, _, hty, hfin, hrk, hset⟩ | ⟨_, _, ho, _⟩ | ⟨n, rq', ho, _⟩
  · rw [ho] at h; simp at h
  · rw [ho] at h; simp at h
  · exact ⟨hrk hi, hty, hfin, hset⟩
  · rw [ho] at h; simp at h
  · rw [ho] at h; simp at h

/-- the channel counts as issued exactly from a SUCCESSFUL OpenSecureChannel on: a request that is
refused with a ServiceFault (protocol version, security mode), stored, or answered with an error leaves
`issued` as it was — only an OpenSecureChannel *response* sets it -/
theorem issued_only_by_open_response (g b : Bool) (c : Conn) (k : Chunk) :
    (processChunk g b c k).1.issued = c.issued ∨
    (∃ ch tk rq, (processChunk g b c k).2 = .opnResponse ch tk rq ∧ (processChunk g b c k).1.issued = true) := by
  obtain ⟨_, _, _, hcase⟩ := processChunk_spec g b c k
  rcases hcase with ⟨_, _, _, hiss, _⟩ | ⟨_, _, _, hiss, _⟩ | ⟨ch, tk, rq, ho, _, _, _, _, _, hset⟩ | ⟨_, _, _, _, _, hiss, _⟩ |
      ⟨_, _, _, _, _, hiss, _⟩
  · exact Or.inl hiss
  · exact Or.inl hiss
  · exact Or.inr ⟨ch, tk, rq, ho, hset⟩
  · exact Or.inl hiss
  · exact Or.inl hiss

/-- in particular an Issue that asks for an invalid security mode is refused and does NOT open the door
for service requests (the seeded change that round 3's generator missed) -/
theorem refused_issue_then_service :
    run (Conn.init lens0 0 0)
      [.hel .valid,
       .chunk ⟨.opn, ⟨0, 1, 1⟩, .final, 129, .open false .invalid true none, .ok⟩,
       .chunk ⟨.msg, ⟨0, 2, 2⟩, .final, 94, .getEndpoints, .ok⟩]
    = [.ack, .opnFault "BadSecurityModeRejected" 1, .closeErr "BadTcpSecureChannelUnknown"] := by
  decide

/-- a FINAL CloseSecureChannel chunk always ends the connection, whatever else is going on -/
theorem clo_closes (g b : Bool) (c : Conn) (k : Chunk) (hty : k.ty = .clo) (hfin : k.fin = .final) :
    (stepWith g b c (.chunk k)).1.phase = .closed ∧ ∀ n rq, (stepWith g b c (.chunk k)).2 ≠ .service n rq := by
  rcases step_cases g b c (.chunk k) with ⟨hc, hs⟩ | ⟨_, hs | ⟨e, hs⟩⟩ | ⟨_, ⟨e, hs⟩ | ⟨k', hk, hs⟩⟩
  · rw [hs]; exact ⟨hc, by simp⟩
  · simp [stepWith, closeKeep] at hs
    rename_i hw; rw [hw] at hs; simp at hs
  · rw [hs]; exact ⟨rfl, by simp⟩
  · rw [hs]; exact ⟨rfl, by simp⟩
  · simp at hk; subst hk
    rw [hs]
    obtain ⟨_, _, _, hcase⟩ := processChunk_spec g b c k
    rcases hcase with ⟨e, ho, hp, _⟩ | ⟨_, hnf, _⟩ | ⟨_, _, _, _, _, _, ht, _⟩ | ⟨_, _, _, _, _, _, ht, _⟩ | ⟨_, _, _, _, _, _, ht, _⟩
    · exact ⟨hp, by rw [ho]; simp⟩
    · exact absurd hfin hnf
    · rw [hty] at ht; simp at ht
    · rw [hty] at ht; simp at ht
    · rw [hty] at ht; simp at ht

theorem runWith_append (g b : Bool) : ∀ (a z : List Frame) (c : Conn),
    runWith g b c (a ++ z) = runWith g b c a ++ runWith g b (finalWith g b c a) z := by
  intro a
  induction a with
  | nil => intro z c; rfl
  | cons f fs ih => intro z c; simp [runWith, finalWith, ih]

/-- **Nothing after close.** Once a final CloseSecureChannel chunk was delivered, every later
frame is ignored. -/
theorem nothing_after_close (g b : Bool) (pre post : List Frame) (k : Chunk) (hty : k.ty = .clo) (hfin : k.fin = .final)
    (c : Conn) :
    runWith g b c (pre ++ .chunk k :: post) =
      runWith g b c pre ++ (stepWith g b (finalWith g b c pre) (.chunk k)).2 :: List.replicate post.length .ignored := by
  rw [runWith_append]
  simp only [runWith]
  rw [closed_ignores g b post _ (clo_closes g b _ k hty hfin).1]

/-- the same after ANY error that ended the reading loop -/
theorem nothing_after_error (g b : Bool) (c : Conn) (f : Frame) (e : String) (post : List Frame)
    (h : (stepWith g b c f).2 = .closeErr e) :
    runWith g b (stepWith g b c f).1 post = List.replicate post.length .ignored := by
  apply closed_ignores
  rcases step_cases g b c f with ⟨_, hs⟩ | ⟨_, hs | ⟨e', hs⟩⟩ | ⟨_, ⟨e', hs⟩ | ⟨k, _, hs⟩⟩
  · rw [hs] at h; simp at h
  · rw [hs] at h; simp at h
  · rw [hs]
  · rw [hs]
  · rw [hs] at h ⊢
    obtain ⟨_, _, _, hcase⟩ := processChunk_spec g b c k
    rcases hcase with ⟨_, _, hp, _⟩ | ⟨ho, _⟩ | ⟨_, _, _, ho, _⟩ | ⟨_, _, ho, _⟩ | ⟨_, _, ho, _⟩
    · exact hp
    · rw [ho] at h; simp at h
    · rw [ho] at h; simp at h
    · rw [ho] at h; simp at h
    · rw [ho] at h; simp at h

/-- pinned source (no guard): after HEL a GetEndpoints request in a MSG chunk is answered without
any OpenSecureChannel -/
theorem C15_counterexample_service_before_open :
    runWith false true (Conn.init lens0 0 0)
      [.hel .valid, .chunk ⟨.msg, ⟨0, 1, 41⟩, .final, 94, .getEndpoints, .ok⟩] = [.ack, .service "GetEndpointsResponse" 41] := by
  decide

/-- non-vacuity: an orderly connection, with a two-chunk request whose first chunk is a CLO-typed
intermediate one (types may be mixed; the final chunk's type decides the dispatch) -/
example : run (Conn.init lens0 5 0)
    [.hel .valid, .chunk ⟨.opn, ⟨0, 1, 41⟩, .final, 129, .openIssue, .ok⟩,
     .chunk ⟨.clo, ⟨1, 2, 42⟩, .intermediate, 60, .getEndpoints, .ok⟩,
     .chunk ⟨.msg, ⟨1, 3, 42⟩, .final, 60, .getEndpoints, .ok⟩,
     .chunk ⟨.clo, ⟨1, 4, 43⟩, .final, 54, .close, .ok⟩,
     .chunk ⟨.msg, ⟨1, 5, 44⟩, .final, 94, .getEndpoints, .ok⟩]
    = [.ack, .opnResponse 1 1 41, .stored, .service "GetEndpointsResponse" 42, .closeErr "BadConnectionClosed", .ignored] := by
  decide

end OpcuaVerif.SrvConn
