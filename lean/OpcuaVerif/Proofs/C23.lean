import OpcuaVerif.Model.C23
import OpcuaVerif.Generated.C23Limits

/-!
C23 — Revised subscription and monitored item parameters respect the limits.
Property theorems only.  Model: `OpcuaVerif.Model.C23` (floats are their IEEE-754 bit patterns with
the exact order of non-NaN values).
-/
namespace OpcuaVerif.C23

/-- limits a server can sensibly be configured with -/
structure LimitsSane (l : Limits) : Prop where
  pubNotNaN : isNaN l.minPub = false
  sampNotNaN : isNaN l.minSamp = false
  defKaPos : 1 ≤ l.defaultKa
  defKaLe : l.defaultKa ≤ l.maxKa
  life : 3 * l.maxKa ≤ l.maxLife
  noOverflow : 3 * l.maxKa < 2 ^ 32
  queue : 1 ≤ l.maxQueue

/-- `ServerState` as built by `Server::new_from_config` with the default configuration:
100 ms minimum intervals (`SUBSCRIPTION_TIMER_RATE_MS`), `DEFAULT_KEEP_ALIVE_COUNT = 10`,
`MAX_KEEP_ALIVE_COUNT = 30000`, lifetime `3 * 30000`, `MAX_DATA_CHANGE_QUEUE_SIZE = 10` -/
def defaultLimits : Limits :=
  { minPub := 0x4059000000000000, minSamp := 0x4059000000000000, defaultKa := 10, maxKa := 30000,
    maxLife := 90000, maxQueue := 10 }

theorem default_limits_sane : LimitsSane defaultLimits := by
  constructor <;> decide

/-- the limits regenerated from the Rust source on every run (tools/translate/c23_limits.py) are sane -/
theorem generated_limits_sane : LimitsSane generatedLimits := by
  constructor <;> decide

/-- **Publishing interval.**  For every requested value (any bit pattern: NaN, ±∞, negative,
subnormal …) the revised publishing interval is a number `≥` the server minimum. -/
theorem interval_ge_min (l : Limits) (h : isNaN l.minPub = false) (req : Nat) :
    fge (reviseInterval l req) l.minPub = true := by
  unfold reviseInterval fmax
  by_cases h1 : isNaN req = true
  · simp [h1, fge, h]
  · have h1' : isNaN req = false := by simpa using h1
    simp only [h1', h, Bool.false_eq_true, if_false]
    by_cases h2 : flt req l.minPub = true
    · simp [h2, fge, h]
    · have h2' : flt req l.minPub = false := by simpa using h2
      simp only [h2', Bool.false_eq_true, if_false]
      have h3 : ¬ key req < key l.minPub := by
        intro hlt; apply h2; simp [flt, h1', h, hlt]
      simp only [fge, h1', h, Bool.not_false, Bool.true_and, decide_eq_true_eq]
      omega

/-- **Keep-alive count** between 1 and the maximum, for every requested `u32`. -/
theorem ka_in_range (l : Limits) (h1 : 1 ≤ l.defaultKa) (h2 : l.defaultKa ≤ l.maxKa) (req : Nat) :
    1 ≤ reviseKa l req ∧ reviseKa l req ≤ l.maxKa := by
  unfold reviseKa
  split
  · omega
  · split <;> omega

/-- **Lifetime count** at least three times the revised keep-alive count, and no overflow panic. -/
theorem life_ge_3ka (l : Limits) (hs : LimitsSane l) (ka req : Nat) (hka : ka ≤ l.maxKa) :
    ∃ life, reviseLife l ka req = some life ∧ 3 * ka ≤ life := by
  have := hs.noOverflow
  have := hs.life
  unfold reviseLife
  simp only
  rw [if_neg (by omega)]
  refine ⟨_, rfl, ?_⟩
  split
  · omega
  · split <;> omega

/-- **`revise_subscription_values`**: total under sane limits, and all three inequalities. -/
theorem revise_respects_limits (l : Limits) (hs : LimitsSane l) (interval ka life : Nat) :
    ∃ i' ka' life', revise l interval ka life = some (i', ka', life') ∧
      fge i' l.minPub = true ∧ 1 ≤ ka' ∧ ka' ≤ l.maxKa ∧ 3 * ka' ≤ life' := by
  obtain ⟨k1, k2⟩ := ka_in_range l hs.defKaPos hs.defKaLe ka
  obtain ⟨life', hl, hge⟩ := life_ge_3ka l hs (reviseKa l ka) life k2
  refine ⟨reviseInterval l interval, reviseKa l ka, life', ?_, interval_ge_min l hs.pubNotNaN interval,
    k1, k2, hge⟩
  simp [revise, hl]

/-- **Sampling interval**: −1 or a number `≥` the minimum sampling interval, for every requested
bit pattern (after the `fix:` commit also for NaN). -/
theorem sampling_ok (l : Limits) (h : isNaN l.minSamp = false) (req : Nat) :
    sanitizeSampling l req = minusOne ∨ fge (sanitizeSampling l req) l.minSamp = true := by
  unfold sanitizeSampling sanitizeSamplingWith
  split
  · exact Or.inl rfl
  · right
    split
    · simp [fge, h]
    · rename_i h0 h1
      simp only [Bool.true_and, Bool.or_eq_true, not_or] at h1
      obtain ⟨⟨_, hn⟩, hlt⟩ := h1
      have hn' : isNaN req = false := by simpa using hn
      have h3 : ¬ key req < key l.minSamp := by
        intro hl; apply hlt; simp [flt, hn', h, hl]
      simp only [fge, hn', h, Bool.not_false, Bool.true_and, decide_eq_true_eq]
      omega

/-- **Queue size** between 1 and the server maximum, for every requested size. -/
theorem queue_in_range (l : Limits) (h : 1 ≤ l.maxQueue) (req : Nat) :
    1 ≤ sanitizeQueue l req ∧ sanitizeQueue l req ≤ l.maxQueue := by
  unfold sanitizeQueue C24.sanitize
  split
  · omega
  · split <;> omega

/-! ### Non-vacuity and the repaired defect -/

/-- a quiet NaN -/
def qnan : Nat := 0x7ff8000000000000

example : revise defaultLimits qnan 0 0 = some (0x4059000000000000, 10, 30) := by decide
example : sanitizeSampling defaultLimits qnan = 0x4059000000000000 := by decide
/-- −0.0 is "== 0.0", not "< 0.0": revised to the minimum -/
example : sanitizeSampling defaultLimits 0x8000000000000000 = 0x4059000000000000 := by decide
/-- −5e-324 (the smallest negative subnormal) is negative: −1 -/
example : sanitizeSampling defaultLimits 0x8000000000000001 = minusOne := by decide
/-- insane limits: `3 * ka` overflows `u32` and the real code panics (dev profile) -/
example : revise { defaultLimits with maxKa := 2 ^ 31, defaultKa := 1 } 0 (2 ^ 31) 0 = none := by decide

/-- **Repaired defect.**  The pinned `sanitize_sampling_interval` returned a NaN request unrevised:
the result is neither −1 nor `≥` the minimum. -/
theorem C23_counterexample_nan_sampling :
    sanitizeSamplingWith false defaultLimits qnan = qnan ∧ qnan ≠ minusOne ∧
      fge qnan defaultLimits.minSamp = false := by decide

end OpcuaVerif.C23
