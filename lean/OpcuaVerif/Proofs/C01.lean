import OpcuaVerif.Lemmas.EncRT
import OpcuaVerif.Lemmas.EncLen
import OpcuaVerif.Lemmas.EncNorm
import OpcuaVerif.Lemmas.EncSchemaRT
import OpcuaVerif.Generated.Schemas

/-!
C01 — Binary encoding round-trips every valid value exactly.  Property theorems only.

Model: `OpcuaVerif.Model.Enc` (`encV/encDV/encDI`, `lenV/…` = `byte_len`, `decV/decDV/decDI`), current
source (`ed = true`: no dimensions are written for an array without values; `lk = true`).  `WFV o d x`
(valid value within the decoding limits `o`, nesting within the depth limit when decoding starts with
`d` locks held) and the normalisation `normV` are in `Lemmas/EncSpec.lean`.
-/
namespace OpcuaVerif.C01
open OpcuaVerif.Enc

/-! ### the predicted length is the number of bytes written -/

theorem enc_len_variant (o : Opts) (d : Nat) (x : V) (h : WFV o d x) :
    (encV true x).length = lenV true x := (lenV_eq o x d h).1

theorem enc_len_data_value (o : Opts) (d : Nat) (x : DV) (h : WFDV o d x) :
    (encDV true x).length = lenDV true x := lenDV_eq o x d h

theorem enc_len_diagnostic_info (o : Opts) (d : Nat) (x : DI) (h : WFDI o d x) :
    (encDI true x).length = lenDI true x := lenDI_eq o x d h

/-! ### decode (encode x ++ r) = (norm x, r): equal value, exactly the encoding consumed -/

/-- **Round trip, Variant** — every built-in scalar, nested Variant / DataValue / DiagnosticInfo /
ExtensionObject within the depth limit, single- and multi-dimensional arrays; `r` is whatever
follows in the enclosing message and is left untouched, so the stream never desynchronises. -/
theorem dec_enc_variant (o : Opts) (cap : Nat) (hc : CapOK o cap) (x : V) (fuel d : Nat) (r : Bytes)
    (hw : WFV o d x) (hf : frV x ≤ fuel) :
    decV o cap true fuel d (encV true x ++ r) = .ok (normV x) r :=
  (rtV o cap hc x).2 fuel d r hw hf

/-- **Round trip, DataValue** -/
theorem dec_enc_data_value (o : Opts) (cap : Nat) (hc : CapOK o cap) (x : DV) (fuel d : Nat) (r : Bytes)
    (hw : WFDV o d x) (hf : frDV x ≤ fuel) :
    decDV o cap true fuel d (encDV true x ++ r) = .ok (normDV x) r :=
  rtDV o cap hc x fuel d r hw hf

/-- **Round trip, DiagnosticInfo** (no normalisation applies) -/
theorem dec_enc_diagnostic_info (o : Opts) (cap : Nat) (hc : CapOK o cap) (x : DI) (fuel d : Nat)
    (r : Bytes) (hw : WFDI o d x) (hf : frDI x ≤ fuel) :
    decDI o cap true fuel d (encDI true x ++ r) = .ok x r :=
  rtDI o cap hc x fuel d r hw hf

/-- the decoder consumes exactly `byte_len` bytes -/
theorem consumed_eq_byte_len (o : Opts) (cap : Nat) (hc : CapOK o cap) (x : V) (fuel : Nat) (r : Bytes)
    (hw : WFV o 0 x) (hf : frV x ≤ fuel) :
    ∃ v r', decV o cap true fuel 0 (encV true x ++ r) = .ok v r' ∧
      (encV true x ++ r).length - r'.length = lenV true x := by
  refine ⟨_, _, dec_enc_variant o cap hc x fuel 0 r hw hf, ?_⟩
  rw [← enc_len_variant o 0 x hw]
  simp

/-! ### the normalisation is a projection onto valid values -/

theorem norm_idem (x : V) : normV (normV x) = normV x := normV_idem x

theorem norm_idem_data_value (x : DV) : normDV (normDV x) = normDV x := normDV_idem x

theorem wf_norm (o : Opts) (d : Nat) (x : V) (h : WFV o d x) : WFV o d (normV x) := WFV_norm o x d h

/-- hence a decoded value re-encodes and decodes to itself, exactly -/
theorem reencode_stable (o : Opts) (cap : Nat) (hc : CapOK o cap) (x : V) (fuel : Nat) (r : Bytes)
    (hw : WFV o 0 x) (hf : frV (normV x) ≤ fuel) :
    decV o cap true fuel 0 (encV true (normV x) ++ r) = .ok (normV x) r := by
  have := dec_enc_variant o cap hc (normV x) fuel 0 r (wf_norm o 0 x hw) hf
  rwa [norm_idem] at this

/-! ### the defect that was repaired (encoder before the fix, `ed = false`) -/

/-- An `Int32` array without values but with (empty) dimensions — the value the decoder itself
produces for a null array — was encoded by the old encoder in 9 bytes of which the decoder reads 5:
four bytes of the encoding are left in the stream and desynchronise the enclosing message. -/
theorem C01_counterexample_empty_array_dimensions :
    (encV false (.arr 6 [] (some []))).length = 9 ∧
    ((decV Opts.default 65535 true 10 0 (encV false (.arr 6 [] (some [])) ++ [7])).val?.map (·.2))
      = some [0, 0, 0, 0, 7] := by
  decide

/-- … the repaired encoder writes the 5 bytes the decoder reads -/
example : encV true (.arr 6 [] (some [])) = [134, 0, 0, 0, 0] := by decide
example : ((decV Opts.default 65535 true 10 0 (encV true (.arr 6 [] (some [2, 3])) ++ [7])).val?.map (·.2))
      = some [7] := by decide

/-! ### non-vacuity -/

/-- a ReadResponse-like result: DataValue with a 2×1 Double matrix, status and both timestamps -/
def sample : DV :=
  .mk1 (.arr 11 [.sc (.double 4607182418800017408), .sc (.double 0)] (some [2, 1]))
    { status := some 0, srcTs := some 132000000000000000, srcPs := some 10,
      srvTs := some (-5), srvPs := none }

example : WFDV Opts.default 0 sample := by
  simp [sample, WFDV, WFV, WFElems, WFScalar, WFDims, WFDVRest, WFOpt, V.tid, Scalar.tid,
    AllPos, dimsProd, Opts.default]

example : frDV sample ≤ 10 := by decide

/-- a nested one: Variant(Variant(DataValue(LocalizedText))) with an ExtensionObject next to it -/
def sample2 : V :=
  .arr 24 [.var (.var (.dv (.mk1 (.sc (.ltext (some []) (some [104]))) ⟨none, none, some 3, none, none⟩))),
           .var (.sc (.extObj ⟨⟨2, .str (some [97])⟩, .bstr (some [1, 2, 3])⟩))] none

example : WFV Opts.default 0 sample2 := by
  simp [sample2, WFV, WFDV, WFElems, WFScalar, WFDims, WFDVRest, WFOpt, V.tid, Scalar.tid,
    WFStr, WFBStr, WFNodeId, WFIdent, WFBody, Opts.default, utf8Valid]

/-! ### generated request / response structures (translator T1) -/

/-- **Round trip for every schema**: for every schema `t` (in particular each of the 283 in
`Gen.schemas`: the 281 generated structures and the two hand-written headers) and every valid value
`v` of it, decoding `encode v ++ r` yields `norm v` and leaves exactly `r`.  Arrays of structures,
nested structures, enums, flag masks and embedded Variant / DataValue / DiagnosticInfo included. -/
theorem schema_roundtrip (o : Opts) (cap : Nat) (hc : CapOK o cap) (t : Ty) (v : SVal) (fuel d : Nat)
    (r : Bytes) (hw : WFS o d t v) (hf : frS v ≤ fuel) :
    decS o cap fuel t d (encS t v ++ r) = .ok (normS v) r :=
  rtS o cap fuel hc v t d r hw hf

/-- `byte_len` = bytes written, for every schema -/
theorem schema_enc_len (o : Opts) (t : Ty) (v : SVal) (d : Nat) (hw : WFS o d t v) :
    (encS t v).length = lenS t v := lenS_eq o v t d hw

/-- **Regenerated obligation**: in every generated `BinaryEncoder` impl, `byte_len`, `encode`,
`decode` and the constructor expression of `decode` mention the fields in declaration order and
treat each as the kind (one value / array) its declared type says — so the schema built from the
declaration describes all three functions.  Re-checked against the source on every run. -/
theorem schemas_regular : Gen.orders.all regular = true := by decide +kernel

/-- the translator saw all 283 structures, each with its orders -/
theorem schemas_complete :
    Gen.schemas.length = 283 ∧ Gen.orders.map (·.1) = Gen.schemas.map (·.1) := by decide +kernel

/-- every generated enum accepts in `decode` exactly its declared discriminants -/
theorem enum_tables_regular : Gen.enumTables.all (fun e => e.2.1 == e.2.2) = true := by decide +kernel

/-- non-vacuity: a valid `ReadValueId` (NodeId, attribute id, index range, data encoding) -/
example : WFS Opts.default 0 Gen.tReadValueId
    (.struct [.sc (.nodeId ⟨2, .str (some [97])⟩), .sc (.uint32 13), .sc (.str none), .sc (.qname 0 none)]) := by
  simp [Gen.tReadValueId, WFS, WFFields, WFScalar, WFNodeId, WFIdent, WFStr, Scalar.tid, Opts.default, utf8Valid]

/-! ### the DateTime defect that was repaired (`ticks()` before the fix) -/

/-- A `DateTime` a caller can construct (`DateTime::ymd(40000, 1, 1)` is about 1.2·10^19 ticks after
1601) made `ticks()` — and with it `checked_ticks()` and `encode` — overflow `i64` before the clamp
to 1601..9999 could apply: a panic in the dev profile. -/
theorem C01_counterexample_datetime_ticks_overflow :
    encDateTimeOld 12000000000000000000 = none ∧ encDateTimeOld (-12000000000000000000) = none
      ∧ encDateTimeOld 9223372036854775808 = none := by decide

/-- inside the `i64` range nothing changed -/
theorem datetime_old_encoder_in_range (t : Int) (h1 : -9223372036854775808 ≤ t) (h2 : t ≤ 9223372036854775807) :
    encDateTimeOld t = some (encDateTime t) := by
  unfold encDateTimeOld ticksOld i64Max
  simp only []
  split
  · rw [if_neg (by omega), if_neg (by omega)]; rfl
  · rw [if_neg (by omega), if_neg (by omega)]; rfl

/-- the repaired `ticks()` saturates, and clamping the saturated value is clamping the value: the
encoder is total and `decode (encode t) = clamp t` holds for EVERY chrono value (`WFScalar` puts no
condition on a DateTime, so `dec_enc_variant` covers them). -/
theorem datetime_encode_total (t : Int) : encDateTime t = le64 (ofS64 (dtChecked (ticksSat t))) := by
  rw [dtChecked_ticksSat]; rfl

/-- regenerated: every scalar field of every generated structure is one of the 22 built-in scalar kinds -/
theorem schemas_scalar_ids : (Gen.schemas.all fun p => p.2.scOk) = true := by decide +kernel

end OpcuaVerif.C01
