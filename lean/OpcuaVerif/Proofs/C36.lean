import OpcuaVerif.Model.C36

/-!
C36 — Each received notification is acknowledged exactly once.
Property theorems.  The model is `OpcuaVerif.Model.C36`.

Ghost bookkeeping (not part of the implementation): `received` = the acknowledgements owed for the
notification messages received so far (one per PublishResponse that carries notification data; a
keep-alive only announces the number the next notification message will carry), `done` = the acknowledgements
carried by publish requests that completed with a PublishResponse (requests the server has
demonstrably received and answered).
-/
namespace OpcuaVerif.C36

structure Ghost where
  received : List Ack
  done : List Ack
deriving Repr, DecidableEq

def acksOf (t : Option (List Ack)) : List Ack :=
  match t with
  | some a => a
  | none => []

/-- acknowledgements held by publish futures in flight -/
def inflight : List Flight → List Ack
  | [] => []
  | f :: fs => acksOf f.taken ++ inflight fs

def gstep (s : State) (g : Ghost) : Op → Ghost
  | .complete id sub seq _ ka =>
    match findFlight s.flights id with
    | some f => { received := if ka then g.received else g.received ++ [(sub, seq)],
                  done := g.done ++ acksOf f.taken }
    | none => g
  | _ => g

def runWith (src : Src) : State → Ghost → List Op → State × Ghost
  | s, g, [] => (s, g)
  | s, g, op :: ops => runWith src (stepWith src s op).2 (gstep s g op) ops

/-- histories on the source as it is now -/
def run := runWith .fixed

/-- conservation, as multiplicities: every received notification's acknowledgement is in exactly
one of: a successfully completed request, the pending list, a request in flight. -/
def Inv (s : State) (g : Ghost) : Prop :=
  ∀ a : Ack, g.received.count a = g.done.count a + s.pending.count a + (inflight s.flights).count a

theorem inflight_append (fs gs : List Flight) : inflight (fs ++ gs) = inflight fs ++ inflight gs := by
  induction fs with
  | nil => rfl
  | cons f fs ih => simp [inflight, ih]

theorem inflight_remove (fs : List Flight) (id : Nat) (f : Flight) (h : findFlight fs id = some f) (a : Ack) :
    (inflight fs).count a = (inflight (removeFlight fs id)).count a + (acksOf f.taken).count a := by
  induction fs with
  | nil => simp [findFlight] at h
  | cons x xs ih =>
    simp only [findFlight] at h
    by_cases hx : (x.id == id) = true
    · simp only [hx, if_true, Option.some.injEq] at h
      subst h
      simp only [removeFlight, hx, if_true, inflight, List.count_append]; omega
    · simp only [hx] at h
      have := ih h
      simp only [removeFlight, hx, inflight, List.count_append]
      simp only [Bool.false_eq_true, if_false, inflight, List.count_append]; omega

theorem requeue_pending (s : State) (t : Option (List Ack)) :
    (requeue s t).pending = s.pending ++ acksOf t ∧ (requeue s t).flights = s.flights := by
  cases t <;> simp [requeue, acksOf]

theorem takeAcks_spec (s : State) : acksOf (takeAcks s).1 = s.pending ∧ (takeAcks s).2.pending = [] ∧
    (takeAcks s).2.flights = s.flights := by
  unfold takeAcks
  cases h : s.pending with
  | nil => simp [acksOf]
  | cons a l => simp [acksOf]

theorem step_inv (s : State) (g : Ghost) (op : Op) (h : Inv s g) : Inv (step s op).2 (gstep s g op) := by
  intro a
  have ha := h a
  cases op with
  | start =>
    have ⟨t1, t2, t3⟩ := takeAcks_spec s
    simp only [step, stepWith, start, startWith, gstep]
    by_cases hc : s.connected = true
    · simp only [hc, if_true]
      simp only [t2, t3, inflight_append, inflight, List.count_append, t1, List.append_nil, List.count_nil]
      omega
    · simp only [hc]
      have ⟨r1, r2⟩ := requeue_pending (takeAcks s).2 (takeAcks s).1
      simp only [Bool.false_eq_true, if_false, r1, r2, t1, t2, t3, List.nil_append]
      omega
  | complete id sub seq more ka =>
    simp only [step, stepWith, completeWith, gstep]
    cases hf : findFlight s.flights id with
    | none => simpa using ha
    | some f =>
      have := inflight_remove s.flights id f hf a
      cases ka <;> simp only [Bool.not_true, Bool.not_false, if_true, if_false, Bool.false_eq_true,
        List.count_append] <;> omega
  | fail id k =>
    simp only [step, stepWith, fail, gstep]
    cases hf : findFlight s.flights id with
    | none => simpa using ha
    | some f =>
      have := inflight_remove s.flights id f hf a
      have ⟨r1, r2⟩ := requeue_pending { s with flights := removeFlight s.flights id } f.taken
      simp only [r1, r2, List.count_append]
      omega
  | setConnected c => simpa [step, stepWith, gstep] using ha
  | addSub id e => simpa [step, stepWith, gstep] using ha
  | delSub id => simpa [step, stepWith, gstep] using ha
  | setPub id e => simpa [step, stepWith, gstep] using ha
  | setItem id b => simpa [step, stepWith, gstep] using ha

/-- **conservation** over every history of publish starts, responses, failures, connection and
subscription changes. -/
theorem conservation (ops : List Op) (s : State) (g : Ghost) (h : Inv s g) :
    Inv (run s g ops).1 (run s g ops).2 := by
  induction ops generalizing s g with
  | nil => exact h
  | cons op ops ih => exact ih _ _ (step_inv s g op h)

theorem init_inv : Inv init ⟨[], []⟩ := by intro a; simp [init, inflight]

/-- **each received notification is acknowledged at most once successfully, and an acknowledgement
that was sent successfully is neither pending nor in flight again**: for a notification received
once (the server never repeats a sequence number of a subscription), the multiplicities in
successfully completed requests, in the pending list and in flight add up to one. -/
theorem acked_once (ops : List Op) (a : Ack) (h1 : (run init ⟨[], []⟩ ops).2.received.count a = 1) :
    let r := run init ⟨[], []⟩ ops
    r.2.done.count a + r.1.pending.count a + (inflight r.1.flights).count a = 1 := by
  have := conservation ops init ⟨[], []⟩ init_inv a
  simp only; omega

/-- never acknowledged without having been received -/
theorem acked_only_if_received (ops : List Op) (a : Ack) :
    (run init ⟨[], []⟩ ops).2.done.count a ≤ (run init ⟨[], []⟩ ops).2.received.count a := by
  have := conservation ops init ⟨[], []⟩ init_inv a
  omega

/-- **a started publish carries every pending acknowledgement** (and `None` when there is none),
and leaves nothing pending. -/
theorem start_takes_all (s : State) (hc : s.connected = true) :
    (step s .start).1 = .sent s.nextId (if s.pending.isEmpty then none else some s.pending) ∧
    (step s .start).2.pending = [] := by
  simp [step, stepWith, start, startWith, takeAcks, hc]

/-- **acknowledgements of a failed request are queued again**, behind what was received meanwhile -/
theorem fail_requeues (s : State) (id : Nat) (k : FailKind) (f : Flight) (h : findFlight s.flights id = some f) :
    (step s (.fail id k)).1 = .retErr k.status ∧ (step s (.fail id k)).2.pending = s.pending ++ acksOf f.taken := by
  simp only [step, stepWith, fail, h]
  exact ⟨trivial, (requeue_pending _ _).1⟩

/-- a publish that cannot be sent at all (channel not connected) loses nothing -/
theorem start_unconnected_keeps (s : State) (hc : s.connected = false) :
    (step s .start).1 = .retErr BadNotConnected ∧ (step s .start).2.pending = s.pending := by
  have ⟨t1, t2, _⟩ := takeAcks_spec s
  simp only [step, stepWith, start, startWith, hc]
  refine ⟨by simp, ?_⟩
  simp only [Bool.false_eq_true, if_false, (requeue_pending _ _).1, t1, t2, List.nil_append]

/-- a successful response never re-queues what the request carried -/
theorem complete_does_not_requeue (s : State) (id sub seq : Nat) (more ka : Bool) (f : Flight)
    (h : findFlight s.flights id = some f) :
    (step s (.complete id sub seq more ka)).2.pending = if ka then s.pending else s.pending ++ [(sub, seq)] := by
  cases ka <;> simp [step, stepWith, completeWith, h]

/-- **progress**: from a state without publishes in flight, one publish that is answered
acknowledges (successfully) everything received before it — each exactly as often as received. -/
theorem flush (s : State) (g : Ghost) (h : Inv s g) (hq : s.flights = []) (hc : s.connected = true)
    (sub seq : Nat) (more ka : Bool) (a : Ack) :
    (run s g [.start, .complete s.nextId sub seq more ka]).2.done.count a = g.received.count a := by
  have ha := h a
  have ⟨t1, t2, t3⟩ := takeAcks_spec s
  simp only [run, runWith, stepWith, start, startWith, hc, if_true, gstep, completeWith, hq, t3, List.nil_append, findFlight,
    beq_self_eq_true, List.count_append, t1]
  simp only [hq, inflight, List.count_nil] at ha
  omega

/-- **every data-carrying notification is queued for acknowledgement, whatever the client knows about
its subscription** — existing or not (never created, already deleted), publishing enabled or disabled,
with or without monitored items: the pending list after a response does not depend on `subs`. -/
theorem ack_independent_of_subscriptions (s : State) (subs' : List SubInfo) (id sub seq : Nat) (more ka : Bool) :
    (step { s with subs := subs' } (.complete id sub seq more ka)).2.pending =
      (step s (.complete id sub seq more ka)).2.pending := by
  simp only [step, stepWith, completeWith]
  cases findFlight s.flights id <;> rfl

theorem data_notification_always_acked (s : State) (id sub seq : Nat) (more : Bool) (f : Flight)
    (h : findFlight s.flights id = some f) :
    (sub, seq) ∈ (step s (.complete id sub seq more false)).2.pending := by
  simp [step, stepWith, completeWith, h]

/-! ### The subscription event loop -/

theorem startWith_inv (b : Bool) (s : State) (g : Ghost) (h : Inv s g) : Inv (startWith b s).2 g := by
  intro a
  have ha := h a
  have ⟨t1, t2, t3⟩ := takeAcks_spec s
  simp only [startWith]
  by_cases hc : s.connected = true
  · simp only [hc, if_true]
    simp only [t2, t3, inflight_append, inflight, List.count_append, t1, List.append_nil, List.count_nil]
    omega
  · simp only [hc]
    have ⟨r1, r2⟩ := requeue_pending (takeAcks s).2 (takeAcks s).1
    simp only [Bool.false_eq_true, if_false, r1, r2, t1, t2, t3, List.nil_append]
    omega

/-- the invariant only looks at the pending list and the flights -/
theorem inv_congr (s s' : State) (g : Ghost) (hp : s'.pending = s.pending) (hf : s'.flights = s.flights)
    (h : Inv s g) : Inv s' g := by
  intro a; have := h a; rw [hp, hf]; exact this

theorem loopStart_inv (s : State) (g : Ghost) (h : Inv s g) : Inv (loopStart s).2 g := by
  have := startWith_inv true s g h
  unfold loopStart
  split <;> simpa [*] using this

theorem loopStartTurn_inv (s : State) (g : Ghost) (h : Inv s g) : Inv (loopStartTurn s).2 g := by
  have h1 := loopStart_inv s g h
  unfold loopStartTurn
  simp only
  split
  · exact inv_congr _ _ g rfl rfl h1
  · exact h1

theorem loopTick_inv (s : State) (g : Ghost) (h : Inv s g) : Inv (loopTick s).2 g := by
  unfold loopTick
  split
  · split
    · exact loopStartTurn_inv _ g (inv_congr _ _ g rfl rfl h)
    · exact inv_congr _ _ g rfl rfl h
  · exact h

/-- conservation is kept by every stimulus of the event loop: external trigger, … -/
theorem loopTrigger_inv (s : State) (g : Ghost) (h : Inv s g) : Inv (loopTrigger s).2 g :=
  loopStartTurn_inv _ g (inv_congr _ _ g rfl rfl h)

/-- … a PublishResponse (with the follow-up publish when `more_notifications`, and the periodic
publish when it has become due), … -/
theorem loopComplete_inv (s : State) (g : Ghost) (id sub seq : Nat) (more ka : Bool) (evs : List Ev) (s' : State)
    (h : Inv s g) (hr : loopComplete s id sub seq more ka = some (evs, s')) :
    Inv s' (gstep s g (.complete id sub seq more ka)) := by
  have h1 : Inv (complete s id sub seq more ka).2 (gstep s g (.complete id sub seq more ka)) :=
    step_inv s g (.complete id sub seq more ka) h
  have h2 : Inv { (complete s id sub seq more ka).2 with waiting := false } (gstep s g (.complete id sub seq more ka)) :=
    inv_congr _ _ _ rfl rfl h1
  unfold loopComplete at hr
  cases hf : findLoopFlight s id with
  | none => simp [hf] at hr
  | some f =>
    simp only [hf] at hr
    cases more with
    | false =>
      simp only [Bool.false_eq_true, if_false, Option.some.injEq, Prod.mk.injEq] at hr
      rw [← hr.2]
      exact loopTick_inv _ _ (inv_congr _ _ _ rfl rfl h2)
    | true =>
      simp only [if_true, Option.some.injEq, Prod.mk.injEq] at hr
      rw [← hr.2]
      exact loopTick_inv _ _ (loopStartTurn_inv _ _ (inv_congr _ _ _ rfl rfl h2))

theorem markWaiting_same (s : State) (st : Nat) :
    (markWaiting s st).pending = s.pending ∧ (markWaiting s st).flights = s.flights ∧
    (markWaiting s st).connected = s.connected ∧ (markWaiting s st).maxPublish = s.maxPublish ∧
    (markWaiting s st).nextId = s.nextId ∧ (markWaiting s st).aged = s.aged ∧ (markWaiting s st).subs = s.subs := by
  unfold markWaiting; split <;> simp

/-- … and a failure (with the immediate re-publish after a timeout). -/
theorem loopFail_inv (s : State) (g : Ghost) (id : Nat) (k : FailKind) (evs : List Ev) (s' : State)
    (h : Inv s g) (hr : loopFail s id k = some (evs, s')) : Inv s' g := by
  have h0 : Inv (fail s id k).2 g := step_inv s g (.fail id k) h
  have hm := markWaiting_same (fail s id k).2 k.status
  have h1 : Inv (markWaiting (fail s id k).2 k.status) g := inv_congr _ _ g hm.1 hm.2.1 h0
  unfold loopFail at hr
  cases hf : findLoopFlight s id with
  | none => simp [hf] at hr
  | some f =>
    simp only [hf] at hr
    by_cases hret : k.status = BadTimeout ∧
        loopLen (markWaiting (fail s id k).2 k.status) < (markWaiting (fail s id k).2 k.status).maxPublish
    · rw [if_pos hret] at hr
      simp only [Option.some.injEq, Prod.mk.injEq] at hr
      rw [← hr.2]
      exact loopTick_inv _ _ (loopStartTurn_inv _ _ (inv_congr _ _ g rfl rfl h1))
    · rw [if_neg hret] at hr
      simp only [Option.some.injEq, Prod.mk.injEq] at hr
      rw [← hr.2]
      exact loopTick_inv _ _ (inv_congr _ _ g rfl rfl h1)

/-- **a timed-out publish is retried at once and carries everything that is owed**: when the
channel is connected, the loop is below its limit and no periodic publish is due, the failure is
reported, the very next request contains all pending acknowledgements followed by those of the
failed request, and nothing stays pending. -/
theorem timeout_resends_at_once (s : State) (id : Nat) (f : Flight) (hf : findFlight s.flights id = some f)
    (hl : f.viaLoop = true) (hc : s.connected = true) (ha : s.aged = false)
    (hcap : ((removeFlight s.flights id).filter (fun f => f.viaLoop)).length < s.maxPublish) :
    (loopFail s id .timeout).map (fun r => (r.1, r.2.pending)) =
      some ([.failed BadTimeout,
             .sent s.nextId (if (s.pending ++ acksOf f.taken).isEmpty then none else some (s.pending ++ acksOf f.taken))],
            []) := by
  have hfl : findLoopFlight s id = some f := by simp [findLoopFlight, hf, hl]
  have ⟨r1, r2⟩ := requeue_pending { s with flights := removeFlight s.flights id } f.taken
  have hfail : (fail s id .timeout).2 = requeue { s with flights := removeFlight s.flights id } f.taken := by
    simp [fail, hf]
  have hmw : markWaiting (fail s id .timeout).2 FailKind.timeout.status = (fail s id .timeout).2 := by
    unfold markWaiting; rw [if_neg (by decide)]
  have hconn : (fail s id .timeout).2.connected = true := by
    rw [hfail]; cases f.taken <;> simpa [requeue] using hc
  have hmax : (fail s id .timeout).2.maxPublish = s.maxPublish := by
    rw [hfail]; cases f.taken <;> simp [requeue]
  have hnext : (fail s id .timeout).2.nextId = s.nextId := by
    rw [hfail]; cases f.taken <;> simp [requeue]
  have haged : (fail s id .timeout).2.aged = false := by
    rw [hfail]; cases f.taken <;> simpa [requeue] using ha
  have hpend : (fail s id .timeout).2.pending = s.pending ++ acksOf f.taken := by rw [hfail]; exact r1
  have hflights : (fail s id .timeout).2.flights = removeFlight s.flights id := by rw [hfail]; exact r2
  have hlen : loopLen (fail s id .timeout).2 < (fail s id .timeout).2.maxPublish := by
    simp only [loopLen, hflights, hmax]; exact hcap
  unfold loopFail
  simp only [hfl, hmw]
  rw [if_pos ⟨rfl, hlen⟩]
  simp only [loopStartTurn, loopStart, startWith, takeAcks, newTurn, hconn, hpend, hnext, haged, Bool.false_and,
    if_true, yielded, loopTick, Bool.false_eq_true, false_and, if_false, Option.map_some, List.append_nil,
    FailKind.status, List.cons_append, List.nil_append]

/-- non-vacuity: the loop publishes on a trigger, follows `more_notifications`, retries a timeout -/
example :
    let s1 := (loopTrigger { init with maxPublish := 2 }).2
    (loopComplete s1 0 1 7 true false).map (·.1) = some [.publish, .sent 1 (some [(1, 7)])] ∧
    ((loopComplete s1 0 1 7 true false).bind fun r => (loopFail r.2 1 .timeout).map (·.1))
      = some [.failed BadTimeout, .sent 2 (some [(1, 7)])] := by decide

/-! ### Non-vacuity -/

instance : DecidableEq Ghost := inferInstance

/-- two publishes in flight, the first fails after the second succeeded: the failed request's
acknowledgement is sent again, the successful one's is not -/
example :
    let ops := [Op.start, .complete 0 1 10 false false, .start, .complete 1 1 11 false false, .start, .start,
                .complete 3 1 12 false false, .fail 2 .timeout, .start]
    (run init ⟨[], []⟩ ops).1.flights = [{ id := 4, taken := some [(1, 12), (1, 11)] }] ∧
    (run init ⟨[], []⟩ ops).2 = ⟨[(1, 10), (1, 11), (1, 12)], [(1, 10)]⟩ := by decide

/-! ### The defect of the pinned source (repaired by the `fix:` commit) -/

/-- The pinned `handle_notification` acknowledged keep-alive messages too.  A keep-alive carries
the sequence number of the *next* notification message, so that number is acknowledged twice —
once for the keep-alive and once more, after that request was answered, for the notification —
although it was received as a notification once: conservation fails. -/
theorem C36_counterexample_keepalive_acked :
    let ops := [Op.start, .complete 0 1 5 false true, .start, .complete 1 1 5 false false, .start,
                .complete 2 1 6 false false]
    (runWith .pinned init ⟨[], []⟩ ops).2.received.count (1, 5) = 1 ∧
    (runWith .pinned init ⟨[], []⟩ ops).2.done.count (1, 5) = 2 := by decide

/-- the same history on the repaired source -/
example :
    let ops := [Op.start, .complete 0 1 5 false true, .start, .complete 1 1 5 false false, .start,
                .complete 2 1 6 false false]
    (run init ⟨[], []⟩ ops).2.received.count (1, 5) = 1 ∧ (run init ⟨[], []⟩ ops).2.done.count (1, 5) = 1 := by decide

end OpcuaVerif.C36
