import OpcuaVerif.Model.C17
import OpcuaVerif.Generated.CryptoPolicy

/-!
C17 — Signature data verifies exactly when made by the right key over the right data.

Conditional on the IDEAL SIGNATURE FUNCTIONALITY of the model (`World`/`idealVerify`): a signature
verifies iff the key holder produced exactly that (digest, padding, data, signature) tuple.  The
theorems say what the repo's own code adds on top: the signed bytes are `certificate ‖ nonce`, the
digest/padding are the policy's, null inputs and None/Unknown produce no signature.
-/
namespace OpcuaVerif.C17

/-- policies that sign -/
def Policy.signing (p : Policy) : Prop := p ≠ .none ∧ p ≠ .unknown

instance (p : Policy) : Decidable p.signing := by unfold Policy.signing; infer_instance

theorem signing_alg (p : Policy) (h : p.signing) : ∃ a u, p.sigAlg? = some a ∧ p.sigUri? = some u := by
  cases p <;> simp_all [Policy.signing, Policy.sigAlg?, Policy.sigUri?]

/-! ### creation -/

/-- what `create_signature_data` does for a signing policy and non-null inputs -/
theorem create_signing (w : World) (key ks : Nat) (fresh : Bytes) (p : Policy) (hp : p.signing)
    (hlen : fresh.length = ks) (cert nonce : Bytes) :
    ∃ h pd u, p.sigAlg? = some (h, pd) ∧ p.sigUri? = some u ∧
      create w key ks fresh p (some cert) (some nonce) =
        .ok (w ++ [⟨key, h, pd, cert ++ nonce, fresh⟩], ⟨some u, some fresh⟩) := by
  cases p <;> simp_all [Policy.signing, Policy.sigAlg?, Policy.sigUri?, create, concat]

/-- null certificate, null nonce, `None` or `Unknown`: a null signature, nothing is signed -/
theorem create_null_branches (w : World) (key ks : Nat) (fresh : Bytes) (p : Policy)
    (cert nonce : Option Bytes) (h : cert = none ∨ nonce = none ∨ ¬ p.signing) :
    create w key ks fresh p cert nonce = .ok (w, ⟨none, none⟩) := by
  cases cert <;> cases nonce <;> cases p <;> simp_all [create, Policy.signing]

/-- `create_signature_data` panics only if RSA returned a signature of the wrong length -/
theorem create_total (w : World) (key ks : Nat) (fresh : Bytes) (p : Policy)
    (cert nonce : Option Bytes) (hlen : fresh.length = ks) :
    create w key ks fresh p cert nonce ≠ .panic := by
  cases cert <;> cases nonce <;> cases p <;> simp [create, Policy.sigAlg?, Policy.sigUri?, hlen]

/-! ### verification -/

/-- **Exact characterisation**: Good ⇔ the holder of the signing certificate's key signed exactly
`certificate ‖ nonce` with the verifying policy's digest and padding, giving exactly this signature. -/
theorem verify_good_iff (w : World) (sd : SigData) (p : Policy) (k : Nat) (cert nonce : Bytes) :
    verify w sd p (some k) cert nonce = .ok .good ↔
      ∃ h pd, p.sigAlg? = some (h, pd) ∧ (⟨k, h, pd, cert ++ nonce, sd.signature.getD []⟩ : Rec) ∈ w := by
  unfold verify
  cases hs : p.sigAlg? with
  | none => simp
  | some a =>
    obtain ⟨h, pd⟩ := a
    simp only [idealVerify, concat, List.contains_iff_mem]
    by_cases hm : (⟨k, h, pd, cert ++ nonce, sd.signature.getD []⟩ : Rec) ∈ w
    · simp only [hm, if_true, true_iff]
      exact ⟨h, pd, rfl, hm⟩
    · simp [hm]

/-- for signing policies `verify_signature_data` returns Good or BadSecurityChecksFailed — no panic -/
theorem verify_total (w : World) (sd : SigData) (p : Policy) (hp : p.signing) (k : Nat) (cert nonce : Bytes) :
    verify w sd p (some k) cert nonce = .ok .good ∨
    verify w sd p (some k) cert nonce = .ok .badSecurityChecksFailed := by
  obtain ⟨a, u, ha, _⟩ := signing_alg p hp
  obtain ⟨h, pd⟩ := a
  unfold verify
  simp only [ha]
  split <;> simp

/-- `None`/`Unknown` reach `panic!("Invalid policy")` (the callers exclude them) -/
theorem verify_unsupported_panics (w : World) (sd : SigData) (p : Policy) (hp : ¬ p.signing) (k : Nat)
    (cert nonce : Bytes) : verify w sd p (some k) cert nonce = .panic := by
  cases p <;> simp_all [Policy.signing, verify, Policy.sigAlg?]

/-- a signing certificate without a usable public key → BadUnexpectedError -/
theorem verify_no_key (w : World) (sd : SigData) (p : Policy) (cert nonce : Bytes) :
    verify w sd p none cert nonce = .ok .badUnexpectedError := rfl

/-! ### completeness -/

/-- **Completeness**: signature data created with a key over a certificate and nonce verifies
against the matching key, certificate bytes and nonce, for every signing policy — and keeps
verifying however the world grows afterwards. -/
theorem completeness (w more : World) (key ks : Nat) (fresh : Bytes) (p : Policy) (hp : p.signing)
    (hlen : fresh.length = ks) (cert nonce : Bytes) :
    ∃ w' sd, create w key ks fresh p (some cert) (some nonce) = .ok (w', sd) ∧
      verify (w' ++ more) sd p (some key) cert nonce = .ok .good := by
  obtain ⟨h, pd, u, ha, hu, hc⟩ := create_signing w key ks fresh p hp hlen cert nonce
  refine ⟨_, _, hc, ?_⟩
  rw [verify_good_iff]
  exact ⟨h, pd, ha, by simp⟩

/-! ### the signed bytes determine certificate and nonce -/

theorem concat_injective_same_length (c c' n n' : Bytes) (hl : c.length = c'.length)
    (h : concat c n = concat c' n') : c = c' ∧ n = n' := by
  unfold concat at h
  exact List.append_inj h hl

/-- DER encodings are prefix-free (the outer SEQUENCE carries its length).  Stated as the
hypothesis it is: neither encoding is a proper prefix of the other. -/
theorem concat_injective_prefix_free (c c' n n' : Bytes)
    (hpf : c <+: c' → c = c') (hpf' : c' <+: c → c' = c)
    (h : concat c n = concat c' n') : c = c' ∧ n = n' := by
  unfold concat at h
  rcases List.append_eq_append_iff.mp h with ⟨a, hc, hn⟩ | ⟨a, hc, hn⟩
  · have e := hpf ⟨a, hc.symm⟩
    subst e
    have : a = [] := by simpa using hc
    subst this
    exact ⟨rfl, by simpa using hn⟩
  · have e := hpf' ⟨a, hc.symm⟩
    subst e
    have : a = [] := by simpa using hc
    subst this
    exact ⟨rfl, by simpa using hn.symm⟩

/-! ### soundness -/

/-- key `k` has signed nothing in `w` -/
def Unused (w : World) (k : Nat) : Prop := ∀ r ∈ w, r.key ≠ k

/-- **Soundness** (ideal signatures): a key that had signed nothing signs `cert ‖ nonce` once.
Whatever verifies afterwards under that key was made over the same bytes, with the same digest and
padding, and IS that signature. -/
theorem soundness (w : World) (key ks : Nat) (fresh : Bytes) (p : Policy) (cert nonce : Bytes)
    (hun : Unused w key) (w' : World) (sd : SigData)
    (hc : create w key ks fresh p (some cert) (some nonce) = .ok (w', sd))
    (sd' : SigData) (p' : Policy) (cert' nonce' : Bytes)
    (hv : verify w' sd' p' (some key) cert' nonce' = .ok .good) :
    p.signing ∧ p'.sigAlg? = p.sigAlg? ∧ cert' ++ nonce' = cert ++ nonce ∧
      sd'.signature.getD [] = fresh ∧ sd.signature = some fresh := by
  by_cases hp : p.signing
  · by_cases hlen : fresh.length = ks
    · obtain ⟨h, pd, u, ha, hu, hc'⟩ := create_signing w key ks fresh p hp hlen cert nonce
      rw [hc'] at hc
      injection hc with hc
      injection hc with hw hsd
      subst hw hsd
      obtain ⟨h', pd', ha', hm⟩ := (verify_good_iff _ _ _ _ _ _).mp hv
      rw [List.mem_append] at hm
      rcases hm with hm | hm
      · exact absurd rfl (hun _ hm)
      · simp only [List.mem_singleton, Rec.mk.injEq] at hm
        obtain ⟨_, hh, hpd, hd, hs⟩ := hm
        subst hh hpd
        exact ⟨hp, by rw [ha, ha'], hd, hs, rfl⟩
    · exfalso
      obtain ⟨a, u, ha, hu⟩ := signing_alg p hp
      obtain ⟨h, pd⟩ := a
      cases p <;> simp_all [create, Policy.signing, Policy.sigAlg?, Policy.sigUri?]
  · exfalso
    rw [create_null_branches w key ks fresh p _ _ (Or.inr (Or.inr hp))] at hc
    injection hc with hc
    injection hc with hw hsd
    subst hw
    obtain ⟨h', pd', _, hm⟩ := (verify_good_iff _ _ _ _ _ _).mp hv
    exact absurd rfl (hun _ hm)

/-- Changing the nonce makes verification fail. -/
theorem changed_nonce_fails (w : World) (key ks : Nat) (fresh : Bytes) (p : Policy) (cert nonce : Bytes)
    (hun : Unused w key) (w' : World) (sd : SigData)
    (hc : create w key ks fresh p (some cert) (some nonce) = .ok (w', sd))
    (sd' : SigData) (p' : Policy) (nonce' : Bytes) (hne : nonce' ≠ nonce) :
    verify w' sd' p' (some key) cert nonce' ≠ .ok .good := by
  intro hv
  have := (soundness w key ks fresh p cert nonce hun w' sd hc sd' p' cert nonce' hv).2.2.1
  exact hne (List.append_cancel_left this)

/-- Changing the certificate makes verification fail (DER certificates: prefix-free). -/
theorem changed_cert_fails (w : World) (key ks : Nat) (fresh : Bytes) (p : Policy) (cert nonce : Bytes)
    (hun : Unused w key) (w' : World) (sd : SigData)
    (hc : create w key ks fresh p (some cert) (some nonce) = .ok (w', sd))
    (sd' : SigData) (p' : Policy) (cert' nonce' : Bytes) (hne : cert' ≠ cert)
    (hpf : cert' <+: cert → cert' = cert) (hpf' : cert <+: cert' → cert = cert') :
    verify w' sd' p' (some key) cert' nonce' ≠ .ok .good := by
  intro hv
  have := (soundness w key ks fresh p cert nonce hun w' sd hc sd' p' cert' nonce' hv).2.2.1
  exact hne (concat_injective_prefix_free cert' cert nonce' nonce hpf hpf' this).1

/-- Changing any signature byte (or its length, or nulling it) makes verification fail. -/
theorem changed_signature_fails (w : World) (key ks : Nat) (fresh : Bytes) (p : Policy) (cert nonce : Bytes)
    (hun : Unused w key) (w' : World) (sd : SigData)
    (hc : create w key ks fresh p (some cert) (some nonce) = .ok (w', sd))
    (sd' : SigData) (p' : Policy) (cert' nonce' : Bytes) (hne : sd'.signature.getD [] ≠ fresh) :
    verify w' sd' p' (some key) cert' nonce' ≠ .ok .good := by
  intro hv
  exact hne (soundness w key ks fresh p cert nonce hun w' sd hc sd' p' cert' nonce' hv).2.2.2.1

/-- Another signer (whose key signed nothing) never verifies. -/
theorem other_signer_fails (w : World) (k' : Nat) (hun : Unused w k') (sd : SigData) (p : Policy)
    (cert nonce : Bytes) : verify w sd p (some k') cert nonce ≠ .ok .good := by
  intro hv
  obtain ⟨h, pd, _, hm⟩ := (verify_good_iff _ _ _ _ _ _).mp hv
  exact absurd rfl (hun _ hm)

/-- … in particular after somebody else signed: creating with `key` leaves `k' ≠ key` unused. -/
theorem create_keeps_unused (w : World) (key ks : Nat) (fresh : Bytes) (p : Policy)
    (cert nonce : Option Bytes) (k' : Nat) (hk : k' ≠ key) (hun : Unused w k') (w' : World) (sd : SigData)
    (hc : create w key ks fresh p cert nonce = .ok (w', sd)) : Unused w' k' := by
  by_cases hs : (∃ c n, cert = some c ∧ nonce = some n) ∧ p.signing ∧ fresh.length = ks
  · obtain ⟨⟨c, n, rfl, rfl⟩, hp, hlen⟩ := hs
    obtain ⟨h, pd, u, _, _, hc'⟩ := create_signing w key ks fresh p hp hlen c n
    rw [hc'] at hc
    injection hc with hc
    injection hc with hw _
    subst hw
    intro r hr
    rw [List.mem_append] at hr
    rcases hr with hr | hr
    · exact hun r hr
    · simp only [List.mem_singleton] at hr
      subst hr
      exact fun e => hk e.symm
  · have : w' = w := by
      cases cert <;> cases nonce <;> cases p <;>
        simp_all [create, Policy.signing, Policy.sigAlg?, Policy.sigUri?] <;>
        (try (split at hc <;> simp_all))
    subst this
    exact hun

/-- the same digest/padding under two policy names is the same primitive: a signature made under
Basic256Sha256 also verifies under Aes128Sha256RsaOaep (RSA-SHA256 both) — and under no policy with
a different primitive. -/
theorem cross_policy (w : World) (key ks : Nat) (fresh : Bytes) (p p' : Policy) (hp : p.signing)
    (hlen : fresh.length = ks) (cert nonce : Bytes) (hun : Unused w key) :
    ∃ w' sd, create w key ks fresh p (some cert) (some nonce) = .ok (w', sd) ∧
      (verify w' sd p' (some key) cert nonce = .ok .good ↔ p'.sigAlg? = p.sigAlg?) := by
  obtain ⟨h, pd, u, ha, hu, hc⟩ := create_signing w key ks fresh p hp hlen cert nonce
  refine ⟨_, _, hc, ?_, ?_⟩
  · intro hv
    exact (soundness w key ks fresh p cert nonce hun _ _ hc _ p' cert nonce hv).2.1
  · intro he
    rw [verify_good_iff]
    exact ⟨h, pd, by rw [he, ha], by simp⟩

/-! ### the model's per-policy algorithm selection is the one in the source (translator T2) -/

def Policy.rustName : Policy → String
  | .none => "None" | .basic128Rsa15 => "Basic128Rsa15" | .basic256 => "Basic256"
  | .basic256Sha256 => "Basic256Sha256" | .aes128Sha256RsaOaep => "Aes128Sha256RsaOaep"
  | .aes256Sha256RsaPss => "Aes256Sha256RsaPss" | .unknown => "Unknown"

/-- the `PrivateKey::sign_*` / `PublicKey::verify_*` method that implements a digest/padding pair -/
def algFn (prefix_ : String) : Hash × SigPad → String
  | (.sha1, .pkcs1) => prefix_ ++ "_sha1"
  | (.sha256, .pkcs1) => prefix_ ++ "_sha256"
  | (.sha256, .pss) => prefix_ ++ "_sha256_pss"
  | (.sha1, .pss) => prefix_ ++ "_sha1_pss"

open OpcuaVerif.Generated.CryptoPolicy in
/-- regenerated from `security_policy.rs` / `mod.rs` on every check: signing and verifying use
the SAME digest/padding for every policy, namely the model's, and the algorithm URI is the
model's. -/
theorem model_matches_source (p : Policy) :
    p.sigAlg?.map (algFn "sign") = lookup signFn p.rustName ∧
    p.sigAlg?.map (algFn "verify") = lookup verifyFn p.rustName ∧
    p.sigUri? = lookup sigUri p.rustName := by
  cases p <;> decide +kernel

open OpcuaVerif.Generated.CryptoPolicy in
/-- `concat_data_and_nonce` appends data then nonce, and both `create_signature_data` and `verify_signature_data` pass (certificate, nonce) in that order
(regenerated from the source on every check; the right-hand sides are the shapes the model was
written from — a change of a guard, an argument order or a condition breaks this obligation) -/
theorem source_shape :
    lookup shape "concat.order" = some "data|nonce" ∧
    lookup shape "create.guard_and_data" = some "contained_cert.is_null()||nonce.is_null(),contained_cert.as_ref(),nonce.as_ref()" ∧
    lookup shape "verify.data" = some "contained_cert.as_ref(),contained_nonce" := by
  decide +kernel

/-! ### non-vacuity -/

example : Unused [] 7 := fun _ h => absurd h (by simp)

example : ∃ w' sd, create [] 7 4 [1, 2, 3, 4] .basic256Sha256 (some [48, 1, 9]) (some [5]) = .ok (w', sd) ∧
    verify w' sd .basic256Sha256 (some 7) [48, 1, 9] [5] = .ok .good ∧
    verify w' sd .basic256Sha256 (some 7) [48, 1, 9] [6] = .ok .badSecurityChecksFailed ∧
    verify w' sd .basic256Sha256 (some 8) [48, 1, 9] [5] = .ok .badSecurityChecksFailed ∧
    verify w' sd .aes256Sha256RsaPss (some 7) [48, 1, 9] [5] = .ok .badSecurityChecksFailed :=
  ⟨_, _, rfl, by decide, by decide, by decide, by decide⟩

end OpcuaVerif.C17
