import OpcuaVerif.Lemmas.C05

/-!
C05 — Relative path strings round-trip and parse safely.  Property theorems only; model
`OpcuaVerif.Model.C05` (+ regenerated `Generated.RefTypes`), lemmas `OpcuaVerif.Lemmas.C05`.

`current` is the source after the four `fix:` commits (namespace regex `[0-9]+`, `(?s)`, reference type
names unescaped, bracketed name ends at the first unescaped `>`).
The parser model is `Option`-valued: the modelled parse path has no panic site (no slicing, the
`unwrap`s are on captures that always participate, the `panic!` arm for flags is unreachable), so
"parsing never panics" holds by construction of the model and is tied by correspondence.
-/
namespace OpcuaVerif.C05
open OpcuaVerif.Text OpcuaVerif.C04 OpcuaVerif.Generated.RefTypes

/-- `unescape_browse_name(escape_browse_name(s)) = s` for EVERY string (the two 8-step `replace` folds) -/
theorem unescape_escape (s : List Char) : unescapeBN (escapeBN s) = s := unescape_escapeBN s

/-- regenerated obligation: the name → id and id → name tables of relative_path.rs are mutually
inverse and contain only plain (reserved-character free, non-empty) names -/
theorem reftype_tables_consistent :
    (∀ p ∈ idToName, lookupId p.2 nameToId = some p.1) ∧ (∀ p ∈ nameToId, lookupName p.2 idToName = some p.1) ∧
    (∀ p ∈ idToName, p.2 ≠ [] ∧ ∀ c ∈ p.2, c ∉ reserved) := tables_consistent

/-- target names: every namespace index 0..65535 (incl. ≥ 10) and every non-empty name over any
alphabet (reserved characters, non-ASCII, newlines) -/
theorem target_name_roundtrip (q : QN) (h : GoodTarget q) : targetName current (printTarget q) = some q :=
  target_roundtrip q h

/-- one element -/
theorem element_roundtrip (e : Elem) (bn : List Char) (h : GoodElem e bn) :
    ∃ text, printElem e = some text ∧ parseElem current text = some e := elem_roundtrip e bn h

/-- the printer panics exactly when some reference type has no browse name -/
theorem print_panics_iff (es : List Elem) :
    printPath (some es) = none ↔ ∃ e ∈ es, browseName e.ref = none := by
  induction es with
  | nil => simp [printPath, printElems]
  | cons e es ih =>
    simp only [printPath] at ih
    simp only [printPath, printElems, List.mem_cons, exists_eq_or_imp]
    cases hb : browseName e.ref with
    | none => simp [printElem, printRefType, hb]
    | some bn =>
      have : ∃ t, printElem e = some t := by
        simp only [printElem, printRefType, hb]
        split <;> (try split) <;> simp
      obtain ⟨t, ht⟩ := this
      rw [ht]
      cases hp : printElems es with
      | none => simp [ih.mp hp]
      | some r =>
        have : ¬ ∃ e ∈ es, browseName e.ref = none := fun h => by rw [ih.mpr h] at hp; cases hp
        simp [this]

/-- **Paths** (PARTIAL only in the sense of `GoodElem`): up to 32 elements; every reference type that has
a browse name (the 27 standard types by numeric id, or a string id with ANY non-empty name — reserved
characters, `>`, non-ASCII — that in namespace 0 is not a standard name), both flags arbitrary; every
target namespace 0..65535 and every non-empty target name over any alphabet; each element's text within
the 256-byte token limit.  What remains outside is format-inherent (recorded findings with counterexamples):
null/empty names, unresolvable reference types (printer panic), the namespace-0 name collision. -/
theorem path_roundtrip_partial (es : List Elem) (hlen : es.length ≤ maxElements)
    (hgood : ∀ e ∈ es, ∃ bn, GoodElem e bn)
    (hfit : ∀ e ∈ es, ∀ t, printElem e = some t → utf8Len t ≤ maxTokenLen) :
    ∃ text, printPath (some es) = some text ∧ parsePath text = some es := by
  have key : ∀ (es : List Elem), (∀ e ∈ es, ∃ bn, GoodElem e bn) →
      (∀ e ∈ es, ∀ t, printElem e = some t → utf8Len t ≤ maxTokenLen) →
      ∃ ps : List (Piece current), ps.map (·.elem) = es ∧ printElems es = some (textOf ps) := by
    intro es
    induction es with
    | nil => intro _ _; exact ⟨[], rfl, rfl⟩
    | cons e es ih =>
      intro hg hf
      obtain ⟨bn, hge⟩ := hg e (by simp)
      obtain ⟨text, hpr, hpa⟩ := elem_roundtrip e bn hge
      obtain ⟨d, body, rfl, hd, hs⟩ := printElem_shape e text hpr
      obtain ⟨ps, hm, hp⟩ := ih (fun x hx => hg x (by simp [hx])) (fun x hx => hf x (by simp [hx]))
      refine ⟨⟨e, d, body, hd, hs, hf e (by simp) _ hpr, hpa⟩ :: ps, by simp [hm], ?_⟩
      simp [printElems, hpr, hp, textOf, Piece.text]
  obtain ⟨ps, hm, hp⟩ := key es hgood hfit
  refine ⟨textOf ps, by simpa [printPath] using hp, ?_⟩
  have := parse_pieces current ps (by rw [← hm] at hlen; simpa using hlen)
  rw [hm] at this
  exact this

/-! ### non-vacuity -/

example : GoodElem ⟨⟨0, .numeric 47⟩, true, false, ⟨65535, some ['a', '&', '/', '>', 'é', '\n']⟩⟩
    ['H', 'a', 's', 'C', 'o', 'm', 'p', 'o', 'n', 'e', 'n', 't'] :=
  ⟨GoodRef.std 47 _ (by decide), ⟨by decide, by simp, by simp⟩⟩
example : GoodElem ⟨⟨7, .str (some ['a', '.', '>', ':', 'b'])⟩, true, false, ⟨10, some ['x', '>', 'y']⟩⟩
    ['a', '.', '>', ':', 'b'] :=
  ⟨GoodRef.str 7 _ (by decide) (by simp) (by simp), ⟨by decide, by simp, by simp⟩⟩
example : parsePath (['<', '#', '!', '2', ':', 'M', 'y', '>', '1', '0', ':', 'a', '&', '.', 'b']) =
    some [⟨⟨2, .str (some ['M', 'y'])⟩, true, false, ⟨10, some ['a', '.', 'b']⟩⟩] := by decide

/-! ### defects of the pinned source (fixed) -/

/-- pinned `[0-9+]`: namespace 10 is read as part of the name -/
theorem C05_counterexample_ns10_pinned :
    parsePathWith pinned ['/', '1', '0', ':', 'f', 'o', 'o'] = some [⟨⟨0, .numeric 33⟩, false, true, ⟨0, some ['1', '0', ':', 'f', 'o', 'o']⟩⟩] := by
  decide

/-- pinned regexes without `(?s)`: a target name is cut at a newline -/
theorem C05_counterexample_newline_pinned :
    parsePathWith ⟨true, false, false, false, false⟩ ['/', '1', ':', 'a', '\n', 'b'] = some [⟨⟨0, .numeric 33⟩, false, true, ⟨1, some ['a']⟩⟩] := by
  decide

/-- (recorded) printing a path whose reference type has no browse name panics (numeric id outside the table /
in another namespace / guid) -/
theorem C05_counterexample_print_panics :
    printPath (some [⟨⟨0, .numeric 129⟩, false, true, ⟨0, some ['x']⟩⟩]) = none ∧
    printPath (some [⟨⟨3, .numeric 47⟩, false, true, ⟨0, some ['x']⟩⟩]) = none := by decide

/-- pinned: a reference type browse name with a reserved character came back still escaped -/
theorem C05_counterexample_reftype_escaped_pinned :
    (printPath (some [⟨⟨2, .str (some ['a', '.', 'b'])⟩, false, true, ⟨0, some ['x']⟩⟩])).bind
        (parsePathWith ⟨true, true, false, false, false⟩) =
      some [⟨⟨2, .str (some ['a', '&', '.', 'b'])⟩, false, true, ⟨0, some ['x']⟩⟩] := by decide

/-- pinned: `>` in a target name after a bracketed reference type was taken for the closing bracket -/
theorem C05_counterexample_gt_in_target_pinned :
    (printPath (some [⟨⟨0, .numeric 34⟩, false, true, ⟨1, some ['a', '>', 'b']⟩⟩])).bind
        (parsePathWith ⟨true, true, true, false, false⟩) =
      some [⟨⟨0, .str (some ['H', 'a', 's', 'C', 'h', 'i', 'l', 'd', '>', '1', ':', 'a', '&'])⟩, false, true, ⟨0, some ['b']⟩⟩] := by
  decide

/-- both now round-trip -/
example : (printPath (some [⟨⟨2, .str (some ['a', '.', '>', 'b'])⟩, false, true, ⟨1, some ['a', '>', 'b']⟩⟩])).bind parsePath =
    some [⟨⟨2, .str (some ['a', '.', '>', 'b'])⟩, false, true, ⟨1, some ['a', '>', 'b']⟩⟩] := by decide

/-! ### recorded findings of the current source -/

/-- empty / null names are not distinguished: empty target name → null; null name loses its namespace;
an empty reference type name is misread -/
theorem C05_counterexample_null_empty :
    (printPath (some [⟨⟨0, .numeric 33⟩, false, true, ⟨1, some []⟩⟩])).bind parsePath =
      some [⟨⟨0, .numeric 33⟩, false, true, ⟨1, none⟩⟩] ∧
    (printPath (some [⟨⟨0, .numeric 33⟩, false, true, ⟨5, none⟩⟩])).bind parsePath =
      some [⟨⟨0, .numeric 33⟩, false, true, ⟨0, none⟩⟩] ∧
    -- a null element array and an empty one have the same (empty) text
    (printPath none = some [] ∧ printPath (some []) = some [] ∧ parsePath [] = some []) := by decide

/-- a string reference type id in namespace 0 equal to a standard name comes back as the numeric id -/
theorem C05_counterexample_std_string :
    (printPath (some [⟨⟨0, .str (some ['H', 'a', 's', 'C', 'h', 'i', 'l', 'd'])⟩, false, true, ⟨0, some ['x']⟩⟩])).bind parsePath =
      some [⟨⟨0, .numeric 34⟩, false, true, ⟨0, some ['x']⟩⟩] := by decide

end OpcuaVerif.C05
