import OpcuaVerif.Model.C33
import OpcuaVerif.Model.C33Filter

/-!
C33 — No well-formed request from an authenticated client crashes the server.
Property theorems for the *modelled* handlers (AddNodes / AddReferences in the repaired source:
total, for every address space and every request), counterexamples for the pinned source and for
the recorded (unrepaired) panic sites of event where-clause evaluation and the HasSubtype loop.
The other services are covered by generated-request testing only — that part is not a proof.
-/
namespace OpcuaVerif.C33

/-- the only fact about the address space the totality proof needs: the namespace used for
server-assigned node ids is a registered one -/
def WF (a : AS) : Prop := a.internalNs < a.namespaces

instance (a : AS) : Decidable (WF a) := by unfold WF; infer_instance

theorem addRef_ns (a : AS) (s t : NodeRef) (rt : Nat) :
    (a.addRef s t rt).namespaces = a.namespaces ∧ (a.addRef s t rt).internalNs = a.internalNs := by
  unfold AS.addRef; split <;> simp

theorem addNodeTail_ns (v : Variant) (a1 : AS) (newId : NodeRef) (r : AddNodeReq) (rt : Nat) :
    (addNodeTail v a1 newId r rt).2.namespaces = a1.namespaces ∧
    (addNodeTail v a1 newId r rt).2.internalNs = a1.internalNs := by
  unfold addNodeTail
  iterate 5 (split; · exact ⟨rfl, rfl⟩)
  simp only []
  split
  · simp [(addRef_ns _ _ _ _).1, (addRef_ns _ _ _ _).2]
  · simp [(addRef_ns _ _ _ _).1, (addRef_ns _ _ _ _).2]

theorem addNode_ns (v : Variant) (a : AS) (c : Bool) (r : AddNodeReq) :
    (addNode v a c r).2.namespaces = a.namespaces ∧ (addNode v a c r).2.internalNs = a.internalNs := by
  unfold addNode
  iterate 8 (split; · exact ⟨rfl, rfl⟩)
  split
  · exact ⟨rfl, rfl⟩
  · split
    · exact addNodeTail_ns _ _ _ _ _
    · exact addNodeTail_ns _ _ _ _ _

theorem addNodeTail_total (a1 : AS) (newId : NodeRef) (r : AddNodeReq) (rt : Nat)
    (h : newId.ns ≤ a1.namespaces) (site : Site) : (addNodeTail repaired a1 newId r rt).1 ≠ .panic site := by
  unfold addNodeTail repaired
  simp only [Bool.not_true, Bool.false_and, Bool.false_eq_true, ↓reduceIte]
  iterate 3 (split; · simp)
  split
  · rename_i hns; simp only [decide_eq_true_eq] at hns; omega
  · simp

theorem addNode_total (a : AS) (h : WF a) (c : Bool) (r : AddNodeReq) (site : Site) :
    (addNode repaired a c r).1 ≠ .panic site := by
  unfold addNode repaired
  simp only [Bool.not_true, Bool.false_and, Bool.false_eq_true, ↓reduceIte, Bool.true_and]
  iterate 3 (split; · simp)
  split
  · simp
  · rename_i hreg
    iterate 3 (split; · simp)
    split
    · simp
    · split
      · exact addNodeTail_total _ _ _ _ (by unfold WF at h; simp only []; omega) site
      · rename_i hnull
        refine addNodeTail_total _ _ _ _ ?_ site
        simp only [hnull, Bool.not_false, Bool.true_and, decide_eq_true_eq, ge_iff_le] at hreg
        simp at hnull
        simp at hreg
        omega

theorem addReference_ns (v : Variant) (a : AS) (c : Bool) (r : AddRefReq) :
    (addReference v a c r).2.namespaces = a.namespaces ∧ (addReference v a c r).2.internalNs = a.internalNs := by
  unfold addReference
  iterate 8 (split; · exact ⟨rfl, rfl⟩)
  split
  · exact ⟨rfl, rfl⟩
  · iterate 2 (split; · exact ⟨rfl, rfl⟩)
    split
    · exact addRef_ns _ _ _ _
    · exact addRef_ns _ _ _ _

theorem addReference_total (a : AS) (c : Bool) (r : AddRefReq) (site : Site) :
    (addReference repaired a c r).1 ≠ .panic site := by
  unfold addReference repaired
  simp only [Bool.true_and]
  iterate 6 (split; · simp)
  split
  · simp
  · rename_i hself
    split
    · simp
    · split
      · simp
      · split
        · simp
        · split <;> simp
theorem addNode_wf (v : Variant) (a : AS) (c : Bool) (r : AddNodeReq) (h : WF a) :
    WF (addNode v a c r).2 := by
  unfold WF at *
  rw [(addNode_ns v a c r).1, (addNode_ns v a c r).2]; exact h

theorem addReference_wf (v : Variant) (a : AS) (c : Bool) (r : AddRefReq) (h : WF a) :
    WF (addReference v a c r).2 := by
  unfold WF at *
  rw [(addReference_ns v a c r).1, (addReference_ns v a c r).2]; exact h

theorem mapItems_total {ρ : Type} (f : AS → ρ → Outcome × AS) (P : AS → Prop)
    (hf : ∀ a r site, P a → (f a r).1 ≠ .panic site) (hP : ∀ a r, P a → P (f a r).2)
    (l : List ρ) : ∀ (a : AS) (acc : List Status), P a →
      (∀ site, (mapItems f a l acc).1 ≠ .panic site) ∧ P (mapItems f a l acc).2 := by
  induction l with
  | nil => intro a acc h; simp [mapItems, h]
  | cons r rest ih =>
    intro a acc h
    simp only [mapItems]
    have h1 := hf a r
    have h2 := hP a r h
    cases hfa : f a r with
    | mk o a' =>
      rw [hfa] at h1 h2
      cases o with
      | status s => exact ih a' (s :: acc) h2
      | panic site => exact absurd rfl (h1 site h)

/-- **The AddNodes service is total** (null list, empty list, too many items, any items) -/
theorem addNodes_total (a : AS) (h : WF a) (c : Bool) (items : Option (List AddNodeReq)) :
    (∀ site, (addNodes repaired a c items).1 ≠ .panic site) ∧ WF (addNodes repaired a c items).2 := by
  unfold addNodes
  cases items with
  | none => simp [h]
  | some l =>
    simp only []
    split
    · simp [h]
    · split
      · simp [h]
      · exact mapItems_total (fun a r => addNode repaired a c r) WF
          (fun a r site ha => addNode_total a ha c r site) (fun a r ha => addNode_wf repaired a c r ha) l a [] h

/-- **The AddReferences service is total** -/
theorem addReferences_total (a : AS) (h : WF a) (c : Bool) (items : Option (List AddRefReq)) :
    (∀ site, (addReferences repaired a c items).1 ≠ .panic site) ∧ WF (addReferences repaired a c items).2 := by
  unfold addReferences
  cases items with
  | none => simp [h]
  | some l =>
    simp only []
    split
    · simp [h]
    · split
      · simp [h]
      · exact mapItems_total (fun a r => addReference repaired a c r) WF
          (fun a r site _ => addReference_total a c r site) (fun a r ha => addReference_wf repaired a c r ha) l a [] h

/-- **No history of AddNodes / AddReferences calls panics**: every call is answered and the next
one finds a well-formed address space again. -/
theorem run_total (c : Bool) (ops : List Op) : ∀ (a : AS), WF a → (run repaired c a ops).isSome = true := by
  induction ops with
  | nil => intro a _; rfl
  | cons op ops ih =>
    intro a h
    have hs : (∀ site, (step repaired c a op).1 ≠ .panic site) ∧ WF (step repaired c a op).2 := by
      cases op with
      | addNodes items => exact addNodes_total a h c items
      | addReferences items => exact addReferences_total a h c items
    simp only [run]
    cases hst : step repaired c a op with
    | mk o a' =>
      rw [hst] at hs
      cases o with
      | fault s => exact ih a' hs.2
      | results l => exact ih a' hs.2
      | panic site => exact absurd rfl (hs.1 site)

/-! ### the pinned source: the three defects that were repaired -/

/-- a small address space: Objects folder (0,85), BaseObjectType (0,58); 3 registered namespaces -/
def demoAS : AS :=
  { nodes := [⟨⟨0, 85⟩, 1, 0, 1⟩, ⟨⟨0, 58⟩, 8, 0, 2⟩], refs := [], namespaces := 3, nextAuto := 1000, internalNs := 1 }

example : WF demoAS := by decide

/-- an Object under the Objects folder, everything valid -/
def demoReq : AddNodeReq :=
  { reqId := .null, reqServerIndex := 0, cls := 1, bnNull := false, bnNs := 0, bn := 7, bnParses := true,
    parent := ⟨0, 85⟩, parentServerIndex := 0, refType := some 35, typeDef := ⟨0, 58⟩, attrs := .fits 1 false }

example : (addNode repaired demoAS true demoReq).1 = .status .Good := by decide
example : (addNode pinned demoAS true demoReq).1 = .status .Good := by decide

/-- browse name in namespace 2 (or with characters that are not valid relative-path text):
the pinned `add_node` unwraps a failed `RelativePath::from_str` -/
theorem C33_counterexample_browse_name_path :
    (addNode pinned demoAS true { demoReq with bnNs := 2 }).1 = .panic .browseNamePath ∧
    (addNode pinned demoAS true { demoReq with bnParses := false }).1 = .panic .browseNamePath := by
  decide

/-- requested node id in an unregistered namespace: `assert_namespace` panics in the pinned source -/
theorem C33_counterexample_assert_namespace :
    (addNode pinned demoAS true { demoReq with reqId := ⟨7, 1⟩ }).1 = .panic .assertNamespace := by
  decide

/-- AddReferences from a node to itself: `insert_reference` panics in the pinned source -/
theorem C33_counterexample_self_reference :
    (addReference pinned demoAS true
      { src := ⟨0, 85⟩, tgt := ⟨0, 85⟩, tgtServerIndex := 0, uriNull := true, tgtClass := 1,
        refType := some 35, isForward := true }).1 = .panic .selfReference := by
  decide

/-- a Variable whose attributes specify ArrayDimensions as null: `from_attributes` unwraps it in the
pinned source -/
theorem C33_counterexample_null_array_dimensions :
    (addNode pinned { demoAS with nodes := demoAS.nodes ++ [⟨⟨0, 63⟩, 16, 0, 3⟩] } true
      { demoReq with cls := 2, typeDef := ⟨0, 63⟩, attrs := .fits 2 true }).1 = .panic .arrayDimensions ∧
    (addNode repaired { demoAS with nodes := demoAS.nodes ++ [⟨⟨0, 63⟩, 16, 0, 3⟩] } true
      { demoReq with cls := 2, typeDef := ⟨0, 63⟩, attrs := .fits 2 true }).1 = .status .Good := by
  decide

/-- the same three requests on the repaired source -/
theorem C33_witnesses_answered_after_fix :
    (addNode repaired demoAS true { demoReq with bnNs := 2 }).1 = .status .Good ∧
    (addNode repaired demoAS true { demoReq with reqId := ⟨7, 1⟩ }).1 = .status .BadNodeIdRejected ∧
    (addReference repaired demoAS true
      { src := ⟨0, 85⟩, tgt := ⟨0, 85⟩, tgtServerIndex := 0, uriNull := true, tgtClass := 1,
        refType := some 35, isForward := true }).1 = .status .BadReferenceNotAllowed := by
  decide

/-! ### event where-clause evaluation (`events/operator.rs`): pinned source panics, repaired source total -/

theorem C33_counterexample_evfilter_operand_count :
    whereClausePanics false [⟨.eq, [.lit .int]⟩] = some .operandIndex ∧
    whereClausePanics false [⟨.between, [.lit .int, .lit .int]⟩] = some .operandIndex := by decide

theorem C33_counterexample_evfilter_element_index :
    whereClausePanics false [⟨.and, [.elem 5, .lit .int]⟩] = some .elementIndex := by decide

theorem C33_counterexample_evfilter_attribute_operand :
    whereClausePanics false [⟨.not, [.attr]⟩] = some .attributeOperand := by decide

theorem C33_counterexample_evfilter_nonconvertible_compare :
    whereClausePanics false [⟨.gt, [.lit .int, .lit .empty]⟩] = some .compareValues ∧
    whereClausePanics false [⟨.gt, [.lit .empty, .lit .int]⟩] = none := by decide

/-- the same clauses on the repaired source -/
theorem C33_evfilter_witnesses_answered_after_fix :
    whereClausePanics true [⟨.eq, [.lit .int]⟩] = none ∧
    whereClausePanics true [⟨.between, [.lit .int, .lit .int]⟩] = none ∧
    whereClausePanics true [⟨.and, [.elem 5, .lit .int]⟩] = none ∧
    whereClausePanics true [⟨.not, [.attr]⟩] = none ∧
    whereClausePanics true [⟨.gt, [.lit .int, .lit .empty]⟩] = none := by decide

/-- not a panic -/
def NP (v : Ev) : Prop := ∀ s, v ≠ .panic s

theorem cmp_np {a b : Ev} (ha : NP a) (hb : NP b) : NP (cmp true a b) := by
  intro s
  cases a with
  | panic t => exact absurd rfl (ha t)
  | err => simp [cmp]
  | val la =>
    cases b with
    | panic t => exact absurd rfl (hb t)
    | err => simp [cmp]
    | val lb => cases la <;> cases lb <;> simp [cmp]
    | bool => cases la <;> simp [cmp]
  | bool =>
    cases b with
    | panic t => exact absurd rfl (hb t)
    | err => simp [cmp]
    | val lb => simp [cmp]
    | bool => simp [cmp]

theorem inListTail_np {v0 : Ev} (h0 : NP v0) (l : List Ev) (hl : ∀ w ∈ l, NP w) :
    NP (inListTail true v0 l) := by
  induction l with
  | nil => intro s; simp [inListTail]
  | cons w rest ih =>
    simp only [inListTail]
    have hc := cmp_np h0 (hl w (by simp))
    split
    · rename_i s hs; exact absurd hs (hc s)
    · split
      · intro s; simp
      · exact ih (fun x hx => hl x (by simp [hx]))

theorem evalOperand_np (sub : List Nat → Nat → Ev) (hsub : ∀ used i, NP (sub used i))
    (used : List Nat) (o : Operand) : NP (evalOperand true sub used o) := by
  cases o with
  | lit l => intro s; simp [evalOperand]
  | attr => intro s; simp [evalOperand]
  | elem idx =>
    simp only [evalOperand]
    split
    · intro s; simp
    · exact hsub _ _

theorem unary_np (a : Ev) : NP a → NP (match a with
    | .panic s => .panic s
    | .err => .err
    | _ => .bool) := by
  intro ha s
  cases a with
  | panic t => exact absurd rfl (ha t)
  | err => simp
  | val l => simp
  | bool => simp

theorem seq2_np (a b : Ev) : NP a → NP b → NP (match a with
    | .panic s => .panic s
    | .err => .err
    | _ => (match b with
        | .panic s => .panic s
        | .err => .err
        | _ => .bool)) := by
  intro ha hb s
  cases a with
  | panic t => exact absurd rfl (ha t)
  | err => simp
  | val l => exact unary_np b hb s
  | bool => exact unary_np b hb s

theorem between_np (a b c : Ev) : NP a → NP b → NP c →
    NP (match cmp true a b with
      | .panic s => .panic s
      | .err => .err
      | _ =>
        if isEqualInts a b then
          (match cmp true a c with
            | .panic s => .panic s
            | .err => .err
            | _ => .bool)
        else .bool) := by
  intro ha hb hc s
  have h1 := cmp_np ha hb
  have h2 := cmp_np ha hc
  generalize cmp true a b = x at h1
  generalize cmp true a c = y at h2
  cases x with
  | panic t => exact absurd rfl (h1 t)
  | err => simp
  | val l =>
    simp only []
    split
    · exact unary_np y h2 s
    · simp
  | bool =>
    simp only []
    split
    · exact unary_np y h2 s
    · simp

/-- every element of every clause evaluates without reaching a panic site (repaired source) -/
theorem evalElem_np (els : List Elem) : ∀ fuel used i, NP (evalElem true els fuel used i) := by
  intro fuel
  induction fuel with
  | zero => intro used i s; simp [evalElem]
  | succ fuel ih =>
    intro used i
    have hO := evalOperand_np (evalElem true els fuel) ih used
    simp only [evalElem]
    split
    · intro s; simp
    · rename_i e _
      split
      · intro s; simp
      · rename_i hne
        split
        · intro s; simp
        · rename_i hmin
          simp only [Bool.true_and, decide_eq_true_eq, Nat.not_lt] at hmin
          have hpos : 0 < e.operands.length := by
            cases hq : e.operands with
            | nil => simp [hq] at hne
            | cons _ _ => simp
          have hv : ∀ k, k < e.operands.length → NP (match e.operands[k]? with
              | none => Ev.panic .operandIndex
              | some o => evalOperand true (evalElem true els fuel) used o) := by
            intro k hk
            rw [List.getElem?_eq_getElem hk]
            exact hO _
          have h0 := hv 0 hpos
          cases hop : e.op <;> simp only [hop, minOperands] at hmin <;> simp only []
          all_goals (try (have hl2 : ¬ e.operands.length < 2 := by omega))
          all_goals (try simp only [hl2, ↓reduceIte])
          · exact cmp_np h0 (hv 1 (by omega))
          · exact unary_np _ h0
          · exact cmp_np h0 (hv 1 (by omega))
          · exact cmp_np h0 (hv 1 (by omega))
          · exact cmp_np h0 (hv 1 (by omega))
          · exact cmp_np h0 (hv 1 (by omega))
          · exact unary_np _ h0
          · have hl3 : ¬ e.operands.length < 3 := by omega
            simp only [hl3, ↓reduceIte]
            exact between_np _ _ _ h0 (hv 1 (by omega)) (hv 2 (by omega))
          · apply inListTail_np h0
            intro w hw
            simp only [List.mem_map] at hw
            obtain ⟨o, _, rfl⟩ := hw
            exact hO _
          · exact seq2_np _ _ h0 (hv 1 (by omega))
          · exact seq2_np _ _ h0 (hv 1 (by omega))
          · intro s; simp

/-- **whereClause_no_panic** — in the repaired source, evaluating ANY where-clause (any operators,
any number of operands, any element indices, AttributeOperands, literals of any kind) on an event
reaches no panic site. -/
theorem whereClause_no_panic (els : List Elem) : whereClausePanics true els = none := by
  unfold whereClausePanics
  split
  · rfl
  · have h := evalElem_np els (els.length + 1) [0] 0
    cases hv : evalElem true els (els.length + 1) [0] 0 with
    | panic s => exact absurd hv (h s)
    | err => rfl
    | val l => rfl
    | bool => rfl

/-! ### HasSubtype cycle (repaired: `reference_type_matches` visits each type once) -/

/-- reference types 1 and 2 are each other's subtype (nothing else) -/
def cycleSubs : Nat → List Nat
  | 1 => [2]
  | 2 => [1]
  | _ => []

/-- **Counterexample for the pinned source**: with a HasSubtype cycle below the reference type asked
for, and a reference of a type that is not in that subtree, the loop of `reference_type_matches`
has not finished after any number of iterations. -/
theorem C33_counterexample_hassubtype_cycle (fuel : Nat) :
    matchLoop cycleSubs 9 fuel [1] = none ∧ matchLoop cycleSubs 9 fuel [2] = none := by
  induction fuel with
  | zero => simp [matchLoop]
  | succ n ih => simp [matchLoop, cycleSubs, ih]

/-- the repaired loop answers on the same cycle (within five iterations) -/
theorem C33_hassubtype_cycle_answered_after_fix :
    matchLoopVisited cycleSubs 9 5 [] [1] = some false ∧ matchLoopVisited cycleSubs 2 5 [] [1] = some true := by
  decide

/-- without the cycle the same question is answered -/
example : matchLoop (fun t => if t = 1 then [2] else []) 9 5 [1] = some false := by decide

end OpcuaVerif.C33
