import OpcuaVerif.Model.C33
import OpcuaVerif.Model.C33Filter

/-!
C33 — No well-formed request from an authenticated client crashes the server.
Property theorems for the *modelled* handlers (AddNodes / AddReferences in the repaired source:
total, for every address space and every request), counterexamples for the pinned source and for
the recorded (unrepaired) panic sites of event where-clause evaluation and the HasSubtype loop.
The other services are covered by generated-request testing only — that part is not a proof.
-/
namespace OpcuaVerif.C33

/-- the only fact about the address space the totality proof needs: the namespace used for
server-assigned node ids is a registered one -/
def WF (a : AS) : Prop := a.internalNs < a.namespaces

instance (a : AS) : Decidable (WF a) := by unfold WF; infer_instance

theorem addRef_ns (a : AS) (s t : NodeRef) (rt : Nat) :
    (a.addRef s t rt).namespaces = a.namespaces ∧ (a.addRef s t rt).internalNs = a.internalNs := by
  unfold AS.addRef; split <;> simp

theorem addNodeTail_ns (a1 : AS) (newId : NodeRef) (r : AddNodeReq) (rt : Nat) :
    (addNodeTail a1 newId r rt).2.namespaces = a1.namespaces ∧
    (addNodeTail a1 newId r rt).2.internalNs = a1.internalNs := by
  unfold addNodeTail
  iterate 4 (split; · exact ⟨rfl, rfl⟩)
  simp only []
  split
  · simp [(addRef_ns _ _ _ _).1, (addRef_ns _ _ _ _).2]
  · simp [(addRef_ns _ _ _ _).1, (addRef_ns _ _ _ _).2]

theorem addNode_ns (v : Variant) (a : AS) (c : Bool) (r : AddNodeReq) :
    (addNode v a c r).2.namespaces = a.namespaces ∧ (addNode v a c r).2.internalNs = a.internalNs := by
  unfold addNode
  iterate 8 (split; · exact ⟨rfl, rfl⟩)
  split
  · exact ⟨rfl, rfl⟩
  · split
    · exact addNodeTail_ns _ _ _ _
    · exact addNodeTail_ns _ _ _ _

theorem addNodeTail_total (a1 : AS) (newId : NodeRef) (r : AddNodeReq) (rt : Nat)
    (h : newId.ns ≤ a1.namespaces) (site : Site) : (addNodeTail a1 newId r rt).1 ≠ .panic site := by
  unfold addNodeTail
  iterate 3 (split; · simp)
  split
  · rename_i hns; simp only [decide_eq_true_eq] at hns; omega
  · simp

theorem addNode_total (a : AS) (h : WF a) (c : Bool) (r : AddNodeReq) (site : Site) :
    (addNode repaired a c r).1 ≠ .panic site := by
  unfold addNode repaired
  simp only [Bool.not_true, Bool.false_and, Bool.false_eq_true, ↓reduceIte, Bool.true_and]
  iterate 3 (split; · simp)
  split
  · simp
  · rename_i hreg
    iterate 3 (split; · simp)
    split
    · simp
    · split
      · exact addNodeTail_total _ _ _ _ (by unfold WF at h; simp only []; omega) site
      · rename_i hnull
        refine addNodeTail_total _ _ _ _ ?_ site
        simp only [hnull, Bool.not_false, Bool.true_and, decide_eq_true_eq, ge_iff_le] at hreg
        simp at hnull
        simp at hreg
        omega

theorem addReference_ns (v : Variant) (a : AS) (c : Bool) (r : AddRefReq) :
    (addReference v a c r).2.namespaces = a.namespaces ∧ (addReference v a c r).2.internalNs = a.internalNs := by
  unfold addReference
  iterate 8 (split; · exact ⟨rfl, rfl⟩)
  split
  · exact ⟨rfl, rfl⟩
  · iterate 2 (split; · exact ⟨rfl, rfl⟩)
    split
    · exact addRef_ns _ _ _ _
    · exact addRef_ns _ _ _ _

theorem addReference_total (a : AS) (c : Bool) (r : AddRefReq) (site : Site) :
    (addReference repaired a c r).1 ≠ .panic site := by
  unfold addReference repaired
  simp only [Bool.true_and]
  iterate 6 (split; · simp)
  split
  · simp
  · rename_i hself
    split
    · simp
    · split
      · simp
      · split
        · simp
        · split <;> simp
theorem addNode_wf (v : Variant) (a : AS) (c : Bool) (r : AddNodeReq) (h : WF a) :
    WF (addNode v a c r).2 := by
  unfold WF at *
  rw [(addNode_ns v a c r).1, (addNode_ns v a c r).2]; exact h

theorem addReference_wf (v : Variant) (a : AS) (c : Bool) (r : AddRefReq) (h : WF a) :
    WF (addReference v a c r).2 := by
  unfold WF at *
  rw [(addReference_ns v a c r).1, (addReference_ns v a c r).2]; exact h

theorem mapItems_total {ρ : Type} (f : AS → ρ → Outcome × AS) (P : AS → Prop)
    (hf : ∀ a r site, P a → (f a r).1 ≠ .panic site) (hP : ∀ a r, P a → P (f a r).2)
    (l : List ρ) : ∀ (a : AS) (acc : List Status), P a →
      (∀ site, (mapItems f a l acc).1 ≠ .panic site) ∧ P (mapItems f a l acc).2 := by
  induction l with
  | nil => intro a acc h; simp [mapItems, h]
  | cons r rest ih =>
    intro a acc h
    simp only [mapItems]
    have h1 := hf a r
    have h2 := hP a r h
    cases hfa : f a r with
    | mk o a' =>
      rw [hfa] at h1 h2
      cases o with
      | status s => exact ih a' (s :: acc) h2
      | panic site => exact absurd rfl (h1 site h)

/-- **The AddNodes service is total** (null list, empty list, too many items, any items) -/
theorem addNodes_total (a : AS) (h : WF a) (c : Bool) (items : Option (List AddNodeReq)) :
    (∀ site, (addNodes repaired a c items).1 ≠ .panic site) ∧ WF (addNodes repaired a c items).2 := by
  unfold addNodes
  cases items with
  | none => simp [h]
  | some l =>
    simp only []
    split
    · simp [h]
    · split
      · simp [h]
      · exact mapItems_total (fun a r => addNode repaired a c r) WF
          (fun a r site ha => addNode_total a ha c r site) (fun a r ha => addNode_wf repaired a c r ha) l a [] h

/-- **The AddReferences service is total** -/
theorem addReferences_total (a : AS) (h : WF a) (c : Bool) (items : Option (List AddRefReq)) :
    (∀ site, (addReferences repaired a c items).1 ≠ .panic site) ∧ WF (addReferences repaired a c items).2 := by
  unfold addReferences
  cases items with
  | none => simp [h]
  | some l =>
    simp only []
    split
    · simp [h]
    · split
      · simp [h]
      · exact mapItems_total (fun a r => addReference repaired a c r) WF
          (fun a r site _ => addReference_total a c r site) (fun a r ha => addReference_wf repaired a c r ha) l a [] h

/-- **No history of AddNodes / AddReferences calls panics**: every call is answered and the next
one finds a well-formed address space again. -/
theorem run_total (c : Bool) (ops : List Op) : ∀ (a : AS), WF a → (run repaired c a ops).isSome = true := by
  induction ops with
  | nil => intro a _; rfl
  | cons op ops ih =>
    intro a h
    have hs : (∀ site, (step repaired c a op).1 ≠ .panic site) ∧ WF (step repaired c a op).2 := by
      cases op with
      | addNodes items => exact addNodes_total a h c items
      | addReferences items => exact addReferences_total a h c items
    simp only [run]
    cases hst : step repaired c a op with
    | mk o a' =>
      rw [hst] at hs
      cases o with
      | fault s => exact ih a' hs.2
      | results l => exact ih a' hs.2
      | panic site => exact absurd rfl (hs.1 site)

/-! ### the pinned source: the three defects that were repaired -/

/-- a small address space: Objects folder (0,85), BaseObjectType (0,58); 3 registered namespaces -/
def demoAS : AS :=
  { nodes := [⟨⟨0, 85⟩, 1, 0, 1⟩, ⟨⟨0, 58⟩, 8, 0, 2⟩], refs := [], namespaces := 3, nextAuto := 1000, internalNs := 1 }

example : WF demoAS := by decide

/-- an Object under the Objects folder, everything valid -/
def demoReq : AddNodeReq :=
  { reqId := .null, reqServerIndex := 0, cls := 1, bnNull := false, bnNs := 0, bn := 7, bnParses := true,
    parent := ⟨0, 85⟩, parentServerIndex := 0, refType := some 35, typeDef := ⟨0, 58⟩, attrs := .fits 1 }

example : (addNode repaired demoAS true demoReq).1 = .status .Good := by decide
example : (addNode pinned demoAS true demoReq).1 = .status .Good := by decide

/-- browse name in namespace 2 (or with characters that are not valid relative-path text):
the pinned `add_node` unwraps a failed `RelativePath::from_str` -/
theorem C33_counterexample_browse_name_path :
    (addNode pinned demoAS true { demoReq with bnNs := 2 }).1 = .panic .browseNamePath ∧
    (addNode pinned demoAS true { demoReq with bnParses := false }).1 = .panic .browseNamePath := by
  decide

/-- requested node id in an unregistered namespace: `assert_namespace` panics in the pinned source -/
theorem C33_counterexample_assert_namespace :
    (addNode pinned demoAS true { demoReq with reqId := ⟨7, 1⟩ }).1 = .panic .assertNamespace := by
  decide

/-- AddReferences from a node to itself: `insert_reference` panics in the pinned source -/
theorem C33_counterexample_self_reference :
    (addReference pinned demoAS true
      { src := ⟨0, 85⟩, tgt := ⟨0, 85⟩, tgtServerIndex := 0, uriNull := true, tgtClass := 1,
        refType := some 35, isForward := true }).1 = .panic .selfReference := by
  decide

/-- the same three requests on the repaired source -/
theorem C33_witnesses_answered_after_fix :
    (addNode repaired demoAS true { demoReq with bnNs := 2 }).1 = .status .Good ∧
    (addNode repaired demoAS true { demoReq with reqId := ⟨7, 1⟩ }).1 = .status .BadNodeIdRejected ∧
    (addReference repaired demoAS true
      { src := ⟨0, 85⟩, tgt := ⟨0, 85⟩, tgtServerIndex := 0, uriNull := true, tgtClass := 1,
        refType := some 35, isForward := true }).1 = .status .BadReferenceNotAllowed := by
  decide

/-! ### recorded findings: event where-clause evaluation (`events/operator.rs`, repaired under C39) -/

theorem C33_counterexample_evfilter_operand_count :
    whereClausePanics [⟨.eq, [.lit .int]⟩] = some .operandIndex ∧
    whereClausePanics [⟨.between, [.lit .int, .lit .int]⟩] = some .operandIndex := by decide

theorem C33_counterexample_evfilter_element_index :
    whereClausePanics [⟨.and, [.elem 5, .lit .int]⟩] = some .elementIndex := by decide

theorem C33_counterexample_evfilter_attribute_operand :
    whereClausePanics [⟨.not, [.attr]⟩] = some .attributeOperand := by decide

theorem C33_counterexample_evfilter_nonconvertible_compare :
    whereClausePanics [⟨.gt, [.lit .int, .lit .empty]⟩] = some .compareValues ∧
    whereClausePanics [⟨.gt, [.lit .empty, .lit .int]⟩] = none := by decide

/-- a where-clause outside the recorded classes: every element has at least three operands, every
operand is an Int32 literal or an element reference inside the clause -/
def SafeOperand (n : Nat) (o : Operand) : Prop := o = .lit .int ∨ ∃ i, o = .elem i ∧ i < n

def SafeClause (els : List Elem) : Prop :=
  ∀ e ∈ els, 3 ≤ e.operands.length ∧ ∀ o ∈ e.operands, SafeOperand els.length o

/-- values that cannot make a comparison panic -/
def Calm (v : Ev) : Prop := v = .val .int ∨ v = .bool ∨ v = .err

theorem cmp_calm {a b : Ev} (ha : Calm a) (hb : Calm b) : Calm (cmp a b) := by
  rcases ha with rfl | rfl | rfl <;> rcases hb with rfl | rfl | rfl <;> simp [cmp, Calm]

theorem inListTail_calm {v0 : Ev} (h0 : Calm v0) (l : List Ev) (hl : ∀ w ∈ l, Calm w) :
    Calm (inListTail v0 l) := by
  induction l with
  | nil => simp [inListTail, Calm]
  | cons w rest ih =>
    simp only [inListTail]
    have hw := hl w (by simp)
    have hc := cmp_calm h0 hw
    split
    · rename_i s hs; rw [hs] at hc; simp [Calm] at hc
    · split
      · simp [Calm]
      · exact ih (fun x hx => hl x (by simp [hx]))

theorem between_calm {a b c : Ev} (ha : Calm a) (hb : Calm b) (hc : Calm c) :
    Calm (match cmp a b with
      | .panic s => .panic s
      | .err => .err
      | _ =>
        if isEqualInts a b then
          (match cmp a c with
            | .panic s => .panic s
            | .err => .err
            | _ => .bool)
        else .bool) := by
  rcases ha with rfl | rfl | rfl <;> rcases hb with rfl | rfl | rfl <;> rcases hc with rfl | rfl | rfl <;>
    simp [cmp, isEqualInts, Calm]

theorem operand_calm_of_elem (els : List Elem) (fuel : Nat)
    (hE : ∀ used i, i < els.length → Calm (evalElem els fuel used i))
    (used : List Nat) (o : Operand) (ho : SafeOperand els.length o) :
    Calm (evalOperand (evalElem els fuel) used o) := by
  rcases ho with rfl | ⟨i, rfl, hi⟩
  · simp [evalOperand, Calm]
  · simp only [evalOperand]
    split
    · simp [Calm]
    · exact hE _ i hi

/-- **whereClause_no_panic_partial** — partial: only for clauses outside the recorded classes
(enough operands everywhere, element indices in range, no AttributeOperand, no Empty literal);
the recorded classes themselves do panic (counterexamples above). -/
theorem whereClause_no_panic_partial (els : List Elem) (hs : SafeClause els) :
    whereClausePanics els = none := by
  have key : ∀ fuel used i, i < els.length → Calm (evalElem els fuel used i) := by
    intro fuel
    induction fuel with
    | zero => intro used i _; simp [evalElem, Calm]
    | succ fuel ih =>
      intro used i hi
      have hO := operand_calm_of_elem els fuel ih used
      simp only [evalElem]
      have hget : els[i]? = some els[i] := List.getElem?_eq_getElem hi
      rw [hget]
      simp only []
      obtain ⟨hlen, hops⟩ := hs els[i] (List.getElem_mem hi)
      have hne : els[i].operands.isEmpty = false := by
        cases hq : els[i].operands with
        | nil => rw [hq] at hlen; simp at hlen
        | cons _ _ => rfl
      simp only [hne, Bool.false_eq_true, ↓reduceIte]
      have hv : ∀ k, k < 3 → Calm (match els[i].operands[k]? with
          | none => Ev.panic .operandIndex
          | some o => evalOperand (evalElem els fuel) used o) := by
        intro k hk
        have hk' : k < els[i].operands.length := by omega
        rw [List.getElem?_eq_getElem hk']
        exact hO _ (hops _ (List.getElem_mem hk'))
      have h0 := hv 0 (by omega)
      have h1 := hv 1 (by omega)
      have h2 := hv 2 (by omega)
      have hl2 : ¬ els[i].operands.length < 2 := by omega
      have hl3 : ¬ els[i].operands.length < 3 := by omega
      have hbin := cmp_calm h0 h1
      have hseq : ∀ {a b : Ev}, Calm a → Calm b → Calm (match a with
          | .panic s => .panic s
          | .err => .err
          | _ => (match b with
              | .panic s => .panic s
              | .err => .err
              | _ => .bool)) := by
        intro a b ha hb
        rcases ha with rfl | rfl | rfl <;> rcases hb with rfl | rfl | rfl <;> simp [Calm]
      have hun : ∀ {a : Ev}, Calm a → Calm (match a with
          | .panic s => .panic s
          | .err => .err
          | _ => .bool) := by
        intro a ha
        rcases ha with rfl | rfl | rfl <;> simp [Calm]
      cases hop : els[i].op <;> simp only [hl2, hl3, ↓reduceIte]
      · exact hbin
      · exact hun h0
      · exact hbin
      · exact hbin
      · exact hbin
      · exact hbin
      · exact hun h0
      · -- between
        exact between_calm h0 h1 h2
      · -- inList
        apply inListTail_calm h0
        intro w hw
        simp only [List.mem_map] at hw
        obtain ⟨o, ho, rfl⟩ := hw
        exact hO _ (hops _ (List.mem_of_mem_drop ho))
      · exact hseq h0 h1
      · exact hseq h0 h1
      · simp [Calm]
  unfold whereClausePanics
  split
  · rfl
  · rename_i hne
    have hpos : 0 < els.length := by
      cases els with
      | nil => simp at hne
      | cons _ _ => simp
    have := key (els.length + 1) [0] 0 hpos
    rcases this with h | h | h <;> simp [h]

/-- the hypothesis is satisfiable -/
example : SafeClause [⟨.and, [.elem 1, .lit .int, .lit .int]⟩, ⟨.between, [.lit .int, .lit .int, .lit .int]⟩] := by
  intro e he
  simp only [List.mem_cons, List.mem_nil_iff, or_false] at he
  rcases he with rfl | rfl
  · refine ⟨by simp, ?_⟩
    intro o ho
    simp only [List.mem_cons, List.mem_nil_iff, or_false] at ho
    rcases ho with rfl | rfl | rfl
    · exact Or.inr ⟨1, rfl, by simp⟩
    · exact Or.inl rfl
    · exact Or.inl rfl
  · refine ⟨by simp, ?_⟩
    intro o ho
    simp only [List.mem_cons, List.mem_nil_iff, or_false] at ho
    rcases ho with rfl | rfl | rfl <;> exact Or.inl rfl

/-! ### recorded finding: HasSubtype cycle -/

/-- reference types 1 and 2 are each other's subtype (nothing else) -/
def cycleSubs : Nat → List Nat
  | 1 => [2]
  | 2 => [1]
  | _ => []

/-- **Counterexample (recorded finding)**: with a HasSubtype cycle below the reference type asked
for, and a reference of a type that is not in that subtree, the loop of `reference_type_matches`
has not finished after any number of iterations. -/
theorem C33_counterexample_hassubtype_cycle (fuel : Nat) :
    matchLoop cycleSubs 9 fuel [1] = none ∧ matchLoop cycleSubs 9 fuel [2] = none := by
  induction fuel with
  | zero => simp [matchLoop]
  | succ n ih => simp [matchLoop, cycleSubs, ih]

/-- without the cycle the same question is answered -/
example : matchLoop (fun t => if t = 1 then [2] else []) 9 5 [1] = some false := by decide

end OpcuaVerif.C33
