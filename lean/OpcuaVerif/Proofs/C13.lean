import OpcuaVerif.Model.C13
import OpcuaVerif.Generated.CryptoPolicy

/-!
C13 — Channel keys are derived per the specification and agree on both ends.

Every structural theorem is stated for an ARBITRARY `hmac` (resp. family `H : HashAlg → Hmac`)
whose outputs are non-empty (`HPos`); `realH_pos` discharges that hypothesis for the executable
HMAC-SHA1/HMAC-SHA256 of the model, which the correspondence run compares byte for byte with
OpenSSL through the real `make_secure_channel_keys`.
-/
namespace OpcuaVerif.C13

/-- every HMAC output is non-empty (true of any real HMAC: 20 resp. 32 bytes) -/
def HPos (hmac : Hmac) : Prop := ∀ k m, 0 < (hmac k m).length

/-- RFC 2104 zero-pads keys shorter than the block: the empty key and the key `[0]` are the same
key.  (Needed because the repaired `hmac_vec` hands `[0]` to OpenSSL for an empty key.) -/
def HEmptyKey (hmac : Hmac) : Prop := ∀ m, hmac [0] m = hmac [] m

/-- The two laws of the HMAC parameter the structural theorems need.  Hypotheses, never axioms;
`realH_laws` proves them for the model's executable HMAC-SHA1/256, `toyHmac` is a toy instance. -/
structure HmacLaws (hmac : Hmac) : Prop where
  pos : HPos hmac
  emptyKey : HEmptyKey hmac

/-- under the laws the repaired `hmac_vec` is the mathematical HMAC on every key -/
theorem hmacVec_guarded (hmac : Hmac) (hl : HmacLaws hmac) (k m : Bytes) :
    hmacVec true hmac k m = .ok (hmac k m) := by
  cases k with
  | nil => simp [hmacVec, hl.emptyKey m]
  | cons a t => simp [hmacVec]

/-! ### the specification stream -/

theorem stream_succ_length (hmac : Hmac) (hp : HPos hmac) (s d : Bytes) (k : Nat) :
    (specStream hmac s d k).length + 1 ≤ (specStream hmac s d (k + 1)).length := by
  have := hp s (specA hmac s d (k + 1) ++ d)
  simp only [specStream, specBlock, List.length_append]
  omega

theorem stream_len_ge (hmac : Hmac) (hp : HPos hmac) (s d : Bytes) (k : Nat) :
    k ≤ (specStream hmac s d k).length := by
  induction k with
  | zero => simp
  | succ k ih => have := stream_succ_length hmac hp s d k; omega

theorem stream_prefix (hmac : Hmac) (s d : Bytes) (j k : Nat) (h : j ≤ k) :
    ∃ t, specStream hmac s d k = specStream hmac s d j ++ t := by
  induction k with
  | zero =>
    have : j = 0 := by omega
    subst this; exact ⟨[], by simp⟩
  | succ k ih =>
    by_cases hj : j = k + 1
    · subst hj; exact ⟨[], by simp⟩
    · obtain ⟨t, ht⟩ := ih (by omega)
      exact ⟨t ++ specBlock hmac s d k, by simp [specStream, ht]⟩

/-- Truncations of the stream do not depend on how many blocks were produced, as long as there
are enough of them. -/
theorem stream_take_indep (hmac : Hmac) (s d : Bytes) (n j k : Nat)
    (hj : n ≤ (specStream hmac s d j).length) (hk : n ≤ (specStream hmac s d k).length) :
    (specStream hmac s d j).take n = (specStream hmac s d k).take n := by
  by_cases h : j ≤ k
  · obtain ⟨t, ht⟩ := stream_prefix hmac s d j k h
    rw [ht, List.take_append_of_le_length hj]
  · obtain ⟨t, ht⟩ := stream_prefix hmac s d k j (by omega)
    rw [ht, List.take_append_of_le_length hk]

theorem pHash_length (hmac : Hmac) (hp : HPos hmac) (s d : Bytes) (n : Nat) :
    (pHash hmac s d n).length = n := by
  have := stream_len_ge hmac hp s d n
  simp only [pHash, List.length_take]
  omega

/-- **Prefix property of the specification**: asking for fewer bytes gives a prefix. -/
theorem pHash_prefix (hmac : Hmac) (hp : HPos hmac) (s d : Bytes) (n m : Nat) (h : n ≤ m) :
    pHash hmac s d n = (pHash hmac s d m).take n := by
  have hn := stream_len_ge hmac hp s d n
  have hm := stream_len_ge hmac hp s d m
  simp only [pHash, List.take_take]
  rw [Nat.min_eq_left h]
  exact stream_take_indep hmac s d n n m hn (by omega)

/-! ### `hash::p_sha` equals the specification -/

theorem loop_spec (hmac : Hmac) (hl : HmacLaws hmac) (s d : Bytes) (len : Nat) :
    ∀ fuel i, len ≤ (specStream hmac s d i).length + fuel →
      pShaLoop true hmac s d len fuel (specA hmac s d i) (specStream hmac s d i) =
        .ok (pHash hmac s d len) := by
  have hp := hl.pos
  intro fuel
  induction fuel with
  | zero =>
    intro i h
    have hlt : ¬ (specStream hmac s d i).length < len := by omega
    simp only [pShaLoop, if_neg hlt, pHash]
    congr 1
    exact stream_take_indep hmac s d len i len (by omega) (stream_len_ge hmac hp s d len)
  | succ fuel ih =>
    intro i h
    by_cases hlt : (specStream hmac s d i).length < len
    · simp only [pShaLoop, if_pos hlt, hmacVec_guarded hmac hl, Outcome.bind]
      have := ih (i + 1) (by have := stream_succ_length hmac hp s d i; omega)
      simpa [specStream, specBlock, specA] using this
    · simp only [pShaLoop, if_neg hlt, pHash]
      congr 1
      exact stream_take_indep hmac s d len i len (by omega) (stream_len_ge hmac hp s d len)

/-- **`p_sha` is RFC 5246's `P_hash`** truncated to the requested length, for any HMAC; in
particular the loop terminates within `length` iterations and never panics. -/
theorem p_sha_eq_spec (hmac : Hmac) (hl : HmacLaws hmac) (secret seed : Bytes) (length : Nat) :
    pSha hmac secret seed length = .ok (pHash hmac secret seed length) := by
  have := loop_spec hmac hl secret seed length length 0 (by simp [specStream])
  simpa [pSha, pShaW, specA, specStream] using this

theorem pSha_terminates (hmac : Hmac) (hl : HmacLaws hmac) (secret seed : Bytes) (length : Nat) :
    pSha hmac secret seed length ≠ .diverge ∧ pSha hmac secret seed length ≠ .panic := by
  rw [p_sha_eq_spec hmac hl]; simp

/-- **Prefix property of the implementation** (`n ≤ m → p_sha n` is a prefix of `p_sha m`). -/
theorem p_sha_prefix (hmac : Hmac) (hl : HmacLaws hmac) (secret seed : Bytes) (n m : Nat) (h : n ≤ m) :
    ∃ x y, pSha hmac secret seed n = .ok x ∧ pSha hmac secret seed m = .ok y ∧ x = y.take n ∧
      x.length = n := by
  refine ⟨_, _, p_sha_eq_spec hmac hl secret seed n, p_sha_eq_spec hmac hl secret seed m,
    pHash_prefix hmac hl.pos secret seed n m h, pHash_length hmac hl.pos secret seed n⟩

/-- **`prf` is a slice of the stream and its slice never panics.** -/
theorem prf_eq_slice (hmac : Hmac) (hl : HmacLaws hmac) (secret seed : Bytes) (length offset N : Nat)
    (hN : offset + length ≤ N) :
    prf hmac secret seed length offset = .ok (((pHash hmac secret seed N).drop offset).take length) := by
  have hlen := pHash_length hmac hl.pos secret seed (offset + length)
  have hs := p_sha_eq_spec hmac hl secret seed (offset + length)
  unfold pSha at hs
  simp only [prf, prfW, hs, Outcome.bind, hlen, Nat.le_refl, if_true]
  congr 1
  rw [pHash_prefix hmac hl.pos secret seed (offset + length) N hN]
  rw [List.drop_take]
  simp only [List.take_take]
  congr 1
  omega

theorem prf_total (hmac : Hmac) (hl : HmacLaws hmac) (secret seed : Bytes) (length offset : Nat) :
    ∃ r, prf hmac secret seed length offset = .ok r ∧ r.length = length := by
  refine ⟨_, prf_eq_slice hmac hl secret seed length offset (offset + length) (Nat.le_refl _), ?_⟩
  have := pHash_length hmac hl.pos secret seed (offset + length)
  simp only [List.length_take, List.length_drop, this]
  omega

/-! ### `make_secure_channel_keys` = Table 33 of Part 6 -/

theorem three_slices {α : Type} (P : List α) (a b c : Nat) (h : P.length = a + b + c) :
    P.take a ++ (P.drop a).take b ++ (P.drop (a + b)).take c = P := by
  have h1 : (P.drop (a + b)).take c = P.drop (a + b) := by
    apply List.take_of_length_le; simp; omega
  rw [h1, ← List.drop_drop, List.append_assoc, List.take_append_drop, List.take_append_drop]

/-- The three derived values are the slices at offsets `0`, `sk`, `sk + ek` of ONE `P_hash`
stream with the policy's lengths. -/
theorem makeKeys_eq (H : HashAlg → Hmac) (hl : ∀ a, HmacLaws (H a)) (p : Policy) (secret seed : Bytes)
    (sk ek bs : Nat) (alg : HashAlg)
    (hsk : p.sigKeyLen? = some sk) (henc : p.encLens? = some (ek, bs)) (halg : p.hashAlg? = some alg) :
    makeKeys H p secret seed =
      .ok ⟨(pHash (H alg) secret seed (sk + ek + bs)).take sk,
           ((pHash (H alg) secret seed (sk + ek + bs)).drop sk).take ek,
           ((pHash (H alg) secret seed (sk + ek + bs)).drop (sk + ek)).take bs⟩ := by
  have h1 := prf_eq_slice (H alg) (hl alg) secret seed sk 0 (sk + ek + bs) (by omega)
  have h2 := prf_eq_slice (H alg) (hl alg) secret seed ek sk (sk + ek + bs) (by omega)
  have h3 := prf_eq_slice (H alg) (hl alg) secret seed bs (sk + ek) (sk + ek + bs) (by omega)
  unfold prf at h1 h2 h3
  simp only [makeKeys, makeKeysW, hsk, henc, halg, h1, h2, h3]
  simp [Outcome.bind]

/-- **keys_are_table33**: signing key ‖ encryption key ‖ IV is exactly the first
`sk + ek + bs` bytes of `P_hash(secret, seed)`, and each part has the policy's length. -/
theorem keys_are_table33 (H : HashAlg → Hmac) (hl : ∀ a, HmacLaws (H a)) (p : Policy) (secret seed : Bytes)
    (sk ek bs : Nat) (alg : HashAlg)
    (hsk : p.sigKeyLen? = some sk) (henc : p.encLens? = some (ek, bs)) (halg : p.hashAlg? = some alg) :
    ∃ k, makeKeys H p secret seed = .ok k ∧
      k.signing ++ k.encrypting ++ k.iv = pHash (H alg) secret seed (sk + ek + bs) ∧
      k.signing.length = sk ∧ k.encrypting.length = ek ∧ k.iv.length = bs := by
  refine ⟨_, makeKeys_eq H hl p secret seed sk ek bs alg hsk henc halg, ?_, ?_, ?_, ?_⟩
  · exact three_slices _ sk ek bs (pHash_length (H alg) (hl alg).pos secret seed (sk + ek + bs))
  all_goals
    have hl := pHash_length (H alg) (hl alg).pos secret seed (sk + ek + bs)
    simp only [List.length_take, List.length_drop, hl]
    omega


/-- Hand-written table from OPC UA Part 7 security profiles / Part 6 §6.7.5: P_hash digest,
DerivedSignatureKeyLength, encryption key length (AES-128/256) and block size, in BYTES. -/
def part6Table : Policy → Option (HashAlg × Nat × Nat × Nat)
  | .basic128Rsa15 => some (.sha1, 16, 16, 16)
  | .basic256 => some (.sha1, 24, 32, 16)
  | .basic256Sha256 => some (.sha256, 32, 32, 16)
  | .aes128Sha256RsaOaep => some (.sha256, 32, 16, 16)
  | .aes256Sha256RsaPss => some (.sha256, 32, 32, 16)
  | .none | .unknown => Option.none

/-- **lengths_match_part6**: the code's per-policy digest and lengths are those of the standard,
and exactly `None`/`Unknown` have none (finite table, checked exhaustively). -/
theorem lengths_match_part6 (p : Policy) :
    (match part6Table p with
     | some (alg, sk, ek, bs) => p.hashAlg? = some alg ∧ p.sigKeyLen? = some sk ∧ p.encLens? = some (ek, bs)
     | Option.none => p.hashAlg? = Option.none ∧ p.sigKeyLen? = Option.none ∧ p.encLens? = Option.none) := by
  cases p <;> exact ⟨rfl, rfl, rfl⟩

/-- For every supported policy the derived keys are the Part 6 slices of the policy's P_hash. -/
theorem keys_per_part6 (H : HashAlg → Hmac) (hl : ∀ a, HmacLaws (H a)) (p : Policy) (secret seed : Bytes)
    (alg : HashAlg) (sk ek bs : Nat) (ht : part6Table p = some (alg, sk, ek, bs)) :
    ∃ k, makeKeys H p secret seed = .ok k ∧
      k.signing ++ k.encrypting ++ k.iv = pHash (H alg) secret seed (sk + ek + bs) ∧
      k.signing.length = sk ∧ k.encrypting.length = ek ∧ k.iv.length = bs := by
  have h := lengths_match_part6 p
  rw [ht] at h
  exact keys_are_table33 H hl p secret seed sk ek bs alg h.2.1 h.2.2 h.1

/-- `None` and `Unknown` have no channel keys: the real function panics ("Invalid policy"); its
callers (`open_secure_channel`, the client's `end_issue_or_renew…`) exclude policy `None`. -/
theorem makeKeys_unsupported_panics (H : HashAlg → Hmac) (p : Policy) (secret seed : Bytes)
    (h : part6Table p = Option.none) : makeKeys H p secret seed = .panic := by
  cases p <;> simp_all [part6Table, makeKeys, makeKeysW, Policy.sigKeyLen?, Policy.derivedSigKeyBits?]

/-- and for supported policies it never panics or diverges -/
theorem makeKeys_total (H : HashAlg → Hmac) (hl : ∀ a, HmacLaws (H a)) (p : Policy) (secret seed : Bytes)
    (h : part6Table p ≠ Option.none) : ∃ k, makeKeys H p secret seed = .ok k := by
  match ht : part6Table p with
  | Option.none => exact absurd ht h
  | some (alg, sk, ek, bs) =>
    obtain ⟨k, hk, _⟩ := keys_per_part6 H hl p secret seed alg sk ek bs ht
    exact ⟨k, hk⟩

/-! ### both ends agree -/

/-- **roles_agree**: channel A holds (local a, remote b), its peer B holds (local b, remote a).
The keys A secures its messages with are the keys B verifies with, and vice versa — for any HMAC,
any policy, any nonces (no hypothesis at all). -/
theorem roles_agree (H : HashAlg → Hmac) (p : Policy) (a b : Bytes) (la ra lb rb : Keys)
    (hA : deriveKeys H p a b = .ok (la, ra)) (hB : deriveKeys H p b a = .ok (lb, rb)) :
    la = rb ∧ ra = lb := by
  unfold deriveKeys deriveKeysW at hA hB
  cases h1 : makeKeysW true H p a b <;> cases h2 : makeKeysW true H p b a <;>
    simp_all [Outcome.bind]

/-- … and one side derives its keys exactly when the other does. -/
theorem roles_agree_total (H : HashAlg → Hmac) (p : Policy) (a b : Bytes) (l r : Keys) :
    deriveKeys H p a b = .ok (l, r) ↔ deriveKeys H p b a = .ok (r, l) := by
  unfold deriveKeys deriveKeysW
  cases h1 : makeKeysW true H p a b <;> cases h2 : makeKeysW true H p b a <;>
    simp [Outcome.bind] <;> exact And.comm

/-- `derive_keys` wiring against Table 33: the local (sending) keys use secret = remote nonce,
seed = local nonce; the remote (verifying) keys the reverse. -/
theorem deriveKeys_wiring (H : HashAlg → Hmac) (p : Policy) (ln rn : Bytes) (l r : Keys)
    (h : deriveKeys H p ln rn = .ok (l, r)) :
    makeKeys H p rn ln = .ok l ∧ makeKeys H p ln rn = .ok r := by
  unfold deriveKeys deriveKeysW at h
  unfold makeKeys
  cases h1 : makeKeysW true H p ln rn <;> cases h2 : makeKeysW true H p rn ln <;> simp_all [Outcome.bind]

/-! ### different nonces, different keys (conditional) -/

/-- `P_hash` restricted to nonces of length `L` is injective on its first `N` bytes.  This is a
cryptographic idealisation (it cannot hold for all lengths by counting); it is a HYPOTHESIS of
`distinct_nonces_partial`, never an axiom. -/
def PHashInjOn (hmac : Hmac) (L N : Nat) : Prop :=
  ∀ s d s' d' : Bytes, s.length = L → d.length = L → s'.length = L → d'.length = L →
    pHash hmac s d N = pHash hmac s' d' N → s = s' ∧ d = d'

/-- **distinct_nonces_partial**: under the injectivity idealisation of the policy's `P_hash` on
nonces of the length in force, different nonce pairs give different key tuples.  Partial: the
hypothesis is cryptographic and is not (cannot be) proved of HMAC-SHA1/256 here. -/
theorem distinct_nonces_partial (H : HashAlg → Hmac) (hl : ∀ a, HmacLaws (H a)) (p : Policy)
    (alg : HashAlg) (sk ek bs L : Nat) (ht : part6Table p = some (alg, sk, ek, bs))
    (hinj : PHashInjOn (H alg) L (sk + ek + bs))
    (s d s' d' : Bytes) (hs : s.length = L) (hd : d.length = L) (hs' : s'.length = L) (hd' : d'.length = L)
    (hne : (s, d) ≠ (s', d')) :
    makeKeys H p s d ≠ makeKeys H p s' d' := by
  obtain ⟨k, hk, hcat, _⟩ := keys_per_part6 H hl p s d alg sk ek bs ht
  obtain ⟨k', hk', hcat', _⟩ := keys_per_part6 H hl p s' d' alg sk ek bs ht
  intro heq
  rw [hk, hk'] at heq
  have hkk : k = k' := by injection heq
  subst hkk
  have := hinj s d s' d' hs hd hs' hd' (by rw [← hcat, ← hcat'])
  exact hne (by rw [this.1, this.2])

/-- The key tuple determines, and is determined by, the first `sk + ek + bs` bytes of the stream. -/
theorem makeKeys_eq_iff (H : HashAlg → Hmac) (hl : ∀ a, HmacLaws (H a)) (p : Policy)
    (alg : HashAlg) (sk ek bs : Nat) (ht : part6Table p = some (alg, sk, ek, bs)) (s d s' d' : Bytes) :
    makeKeys H p s d = makeKeys H p s' d' ↔
      pHash (H alg) s d (sk + ek + bs) = pHash (H alg) s' d' (sk + ek + bs) := by
  have h := lengths_match_part6 p
  rw [ht] at h
  have e1 := makeKeys_eq H hl p s d sk ek bs alg h.2.1 h.2.2 h.1
  have e2 := makeKeys_eq H hl p s' d' sk ek bs alg h.2.1 h.2.2 h.1
  constructor
  · intro heq
    obtain ⟨k, hk, hcat, _⟩ := keys_per_part6 H hl p s d alg sk ek bs ht
    obtain ⟨k', hk', hcat', _⟩ := keys_per_part6 H hl p s' d' alg sk ek bs ht
    rw [hk, hk'] at heq
    have hkk : k = k' := by injection heq
    subst hkk
    rw [← hcat, ← hcat']
  · intro heq
    rw [e1, e2, heq]

/-- **The injectivity hypothesis of `distinct_nonces_partial` is the weakest possible**: "different
nonce pairs (of length `L`) give different key tuples" holds IF AND ONLY IF `P_hash` is injective on
such nonces in its first `sk + ek + bs` bytes.  So the property's last sentence is exactly a
statement about the hash, not about this code. -/
theorem distinct_nonces_iff_inj (H : HashAlg → Hmac) (hl : ∀ a, HmacLaws (H a)) (p : Policy)
    (alg : HashAlg) (sk ek bs L : Nat) (ht : part6Table p = some (alg, sk, ek, bs)) :
    (∀ s d s' d' : Bytes, s.length = L → d.length = L → s'.length = L → d'.length = L →
        (s, d) ≠ (s', d') → makeKeys H p s d ≠ makeKeys H p s' d') ↔
      PHashInjOn (H alg) L (sk + ek + bs) := by
  constructor
  · intro hdist s d s' d' hs hd hs' hd' heq
    by_cases hne : (s, d) = (s', d')
    · injection hne with h1 h2; exact ⟨h1, h2⟩
    · exact absurd ((makeKeys_eq_iff H hl p alg sk ek bs ht s d s' d').mpr heq)
        (hdist s d s' d' hs hd hs' hd' hne)
  · intro hinj s d s' d' hs hd hs' hd' hne
    exact distinct_nonces_partial H hl p alg sk ek bs L ht hinj s d s' d' hs hd hs' hd' hne

/-! ### the hypotheses are satisfiable; the concrete instance -/

theorem wordBytes_length (w : Nat) : (wordBytes w).length = 4 := rfl

theorem sha256_length (m : Bytes) : (sha256 m).length = 32 := by
  simp [sha256, S256.bytes, wordBytes]

theorem sha1_length (m : Bytes) : (sha1 m).length = 20 := by
  simp [sha1, S1.bytes, wordBytes]

theorem hmacSha256_length (k m : Bytes) : (hmacSha256 k m).length = 32 := by
  simp [hmacSha256, hmacWith, sha256_length]

theorem hmacSha1_length (k m : Bytes) : (hmacSha1 k m).length = 20 := by
  simp [hmacSha1, hmacWith, sha1_length]

/-- RFC 2104's key padding makes `[]` and `[0]` the same key — for ANY underlying hash -/
theorem hmacWith_emptyKey (hash : Bytes → Bytes) : HEmptyKey (hmacWith hash) := by
  intro m
  have h : ([0] : Bytes) ++ List.replicate 63 0 = List.replicate 64 0 := by decide
  simp [hmacWith, h]

/-- the executable HMACs of the model satisfy the laws -/
theorem realH_laws : ∀ a, HmacLaws (realH a) := by
  intro a
  cases a
  · exact ⟨fun k m => by show 0 < (hmacSha1 k m).length; rw [hmacSha1_length]; omega,
      hmacWith_emptyKey sha1⟩
  · exact ⟨fun k m => by show 0 < (hmacSha256 k m).length; rw [hmacSha256_length]; omega,
      hmacWith_emptyKey sha256⟩

/-- **Unconditional statement for the instance that runs against the real code**: for every
supported policy and all nonces, `make_secure_channel_keys` returns the Part 6 slices of
P_SHA1/P_SHA256 over the model's executable HMAC (which the correspondence run ties to OpenSSL). -/
theorem real_keys_per_part6 (p : Policy) (secret seed : Bytes)
    (alg : HashAlg) (sk ek bs : Nat) (ht : part6Table p = some (alg, sk, ek, bs)) :
    ∃ k, makeKeys realH p secret seed = .ok k ∧
      k.signing ++ k.encrypting ++ k.iv = pHash (realH alg) secret seed (sk + ek + bs) ∧
      k.signing.length = sk ∧ k.encrypting.length = ek ∧ k.iv.length = bs :=
  keys_per_part6 realH realH_laws p secret seed alg sk ek bs ht

/-- toy HMAC satisfying the laws (keys are zero-padded to 2 bytes, as HMAC pads to 64) and
injective enough for the non-vacuity example below -/
def toyHmac : Hmac := fun k m => 1 :: (k ++ List.replicate (2 - k.length) 0 ++ m)

example : HmacLaws toyHmac := ⟨fun k m => by simp [toyHmac], fun m => by simp [toyHmac]⟩

/-- non-vacuity of `PHashInjOn` together with the laws (nonce length 1, 8 output bytes) -/
example : PHashInjOn toyHmac 1 8 := by
  intro s d s' d' hs hd hs' hd' h
  have hp : HPos toyHmac := fun k m => by simp [toyHmac]
  match s, d, s', d', hs, hd, hs', hd' with
  | [a], [b], [a'], [b'], _, _, _, _ =>
    have e1 : ∀ x y : Nat, pHash toyHmac [x] [y] 8 = [1, x, 0, 1, x, 0, y, y] := by
      intro x y
      have := stream_take_indep toyHmac [x] [y] 8 8 1 (stream_len_ge toyHmac hp [x] [y] 8)
        (by simp [specStream, specBlock, specA, toyHmac])
      rw [pHash, this]
      simp [specStream, specBlock, specA, toyHmac]
    rw [e1, e1] at h
    simp at h
    simp [h.1, h.2]

/-! ### the recorded (fixed) defect: an empty secret panicked -/

/-- In the pinned source (`guardEmpty = false`: OpenSSL 3 rejects a zero-length HMAC key and
`hmac_vec` unwraps) a channel-key derivation with an empty secret panics, for every supported
policy and any seed — although `P_hash` is perfectly well defined there. -/
theorem C13_counterexample_empty_secret_unguarded (H : HashAlg → Hmac) (p : Policy) (seed : Bytes)
    (h : part6Table p ≠ Option.none) : makeKeysW false H p [] seed = .panic := by
  cases p <;> simp_all [part6Table] <;>
    simp [makeKeysW, Policy.sigKeyLen?, Policy.derivedSigKeyBits?, Policy.encLens?, Policy.hashAlg?,
      prfW, pShaW, pShaLoop, hmacVec, Outcome.bind]

/-- concrete witness replayed on the real code (corpus/C13/empty-secret.ops) -/
theorem C13_counterexample_empty_secret_witness :
    makeKeysW false realH .basic256Sha256 [] [1] = .panic ∧
    hmacVec false hmacSha1 [] [] = .panic :=
  ⟨C13_counterexample_empty_secret_unguarded realH .basic256Sha256 [1] (by decide), by simp [hmacVec]⟩

/-- non-vacuity of `roles_agree`: both derivations succeed for a supported policy -/
example : ∃ la ra, deriveKeys realH .basic256Sha256 [1] [2] = .ok (la, ra) := by
  obtain ⟨k1, h1⟩ := makeKeys_total realH realH_laws .basic256Sha256 [1] [2] (by decide)
  obtain ⟨k2, h2⟩ := makeKeys_total realH realH_laws .basic256Sha256 [2] [1] (by decide)
  unfold makeKeys at h1 h2
  exact ⟨k2, k1, by simp [deriveKeys, deriveKeysW, h1, h2, Outcome.bind]⟩

/-! ### zero-padding-equivalent secrets (recorded finding, format-inherent)

HMAC pads a key shorter than the block with zero bytes, so a secret and the same secret followed by
zero bytes (up to the block size of 64) are THE SAME key — and after the empty-key repair so are the
empty secret and `[0]`.  "Different nonces give different keys" is therefore false for exactly
such pairs, for RFC 5246's `P_hash` as much as for the code. -/

/-- RFC 2104 key padding, for ANY underlying hash: trailing zero bytes up to the block size do not
change the key. -/
theorem hmacWith_trailing_zeros (hash : Bytes → Bytes) (k : Bytes) (z : Nat) (h : k.length + z ≤ 64)
    (m : Bytes) : hmacWith hash (k ++ List.replicate z 0) m = hmacWith hash k m := by
  have h1 : ¬ (k.length + z > 64) := by omega
  have h2 : ¬ k.length > 64 := by omega
  have e : 64 - k.length = z + (64 - (k.length + z)) := by omega
  have hk : (k ++ List.replicate z 0) ++ List.replicate (64 - (k.length + z)) 0 =
      k ++ List.replicate (64 - k.length) 0 := by
    rw [List.append_assoc, List.replicate_append_replicate, ← e]
  simp only [hmacWith, List.length_append, List.length_replicate, if_neg h1, if_neg h2, hk]

/-- `P_hash` depends on the secret only through the keyed function `hmac secret ·`. -/
theorem specA_congr (hmac : Hmac) (s s' d : Bytes) (h : ∀ m, hmac s m = hmac s' m) (i : Nat) :
    specA hmac s d i = specA hmac s' d i := by
  induction i with
  | zero => rfl
  | succ i ih => simp only [specA, ih, h]

theorem pHash_congr (hmac : Hmac) (s s' d : Bytes) (h : ∀ m, hmac s m = hmac s' m) (n : Nat) :
    pHash hmac s d n = pHash hmac s' d n := by
  have hs : ∀ k, specStream hmac s d k = specStream hmac s' d k := by
    intro k
    induction k with
    | zero => rfl
    | succ k ih => simp only [specStream, specBlock, ih, specA_congr hmac s s' d h, h]
  simp only [pHash, hs]

/-- **C13_counterexample_trailing_zero_nonces**: for every supported policy, a secret and the same
secret with `z > 0` trailing zero bytes (together at most 64 bytes) derive IDENTICAL key tuples for
every seed, although the nonce pairs differ.  Recorded as the known finding
`C13-zero-padding-equivalent-secrets`; `distinct_nonces_iff_inj` remains the characterisation
(the injectivity hypothesis fails across lengths, which is why it is stated per length `L`). -/
theorem C13_counterexample_trailing_zero_nonces (p : Policy) (alg : HashAlg) (sk ek bs : Nat)
    (ht : part6Table p = some (alg, sk, ek, bs)) (s d : Bytes) (z : Nat) (hz : 0 < z)
    (hlen : s.length + z ≤ 64) :
    makeKeys realH p (s ++ List.replicate z 0) d = makeKeys realH p s d ∧
      (s ++ List.replicate z 0, d) ≠ (s, d) := by
  refine ⟨?_, ?_⟩
  · rw [makeKeys_eq_iff realH realH_laws p alg sk ek bs ht]
    apply pHash_congr
    intro m
    cases alg
    · exact hmacWith_trailing_zeros sha1 s z hlen m
    · exact hmacWith_trailing_zeros sha256 s z hlen m
  · intro h
    have := congrArg (fun x => x.1.length) h
    simp at this
    omega

/-- the same for the pair (empty secret, `[0]`), which the empty-key repair makes equivalent as
well (it already was for the specification) -/
theorem C13_counterexample_empty_vs_zero_secret (p : Policy) (alg : HashAlg) (sk ek bs : Nat)
    (ht : part6Table p = some (alg, sk, ek, bs)) (d : Bytes) :
    makeKeys realH p [0] d = makeKeys realH p [] d :=
  (C13_counterexample_trailing_zero_nonces p alg sk ek bs ht [] d 1 (by omega) (by simp)).1

/-! ### the model's per-policy constants are the ones in the source (translator T2) -/

/-- the Rust variant name of a policy -/
def Policy.rustName : Policy → String
  | .none => "None" | .basic128Rsa15 => "Basic128Rsa15" | .basic256 => "Basic256"
  | .basic256Sha256 => "Basic256Sha256" | .aes128Sha256RsaOaep => "Aes128Sha256RsaOaep"
  | .aes256Sha256RsaPss => "Aes256Sha256RsaPss" | .unknown => "Unknown"

def HashAlg.rustName : HashAlg → String
  | .sha1 => "sha1" | .sha256 => "sha256"

open OpcuaVerif.Generated.CryptoPolicy in
/-- `Generated/CryptoPolicy.lean` is regenerated from `security_policy.rs` on every check: the
derived signature key length, the encrypting key / block lengths and the P_hash digest the model
uses for each policy are exactly the constants and match arms of the source (and `None`/`Unknown`
have none). -/
theorem model_matches_source (p : Policy) :
    p.derivedSigKeyBits? = lookup derivedSigKeyBits p.rustName ∧
    p.encLens? = lookup encLens p.rustName ∧
    p.hashAlg?.map HashAlg.rustName = lookup prfDigest p.rustName := by
  cases p <;> decide +kernel

open OpcuaVerif.Generated.CryptoPolicy in
/-- the three `prf` calls of `make_secure_channel_keys`, the argument order of `derive_keys`, the slice of `prf`, the loop of `p_sha` and the empty-key substitution of `hmac_vec` have the shape the model copies
(regenerated from the source on every check; the right-hand sides are the shapes the model was
written from — a change of a guard, an argument order or a condition breaks this obligation) -/
theorem source_shape :
    lookup shape "keys.prf_calls" = some "secret,seed,signing_key_length,0|secret,seed,encrypting_key_length,signing_key_length|secret,seed,encrypting_block_size,signing_key_length+encrypting_key_length," ∧
    lookup shape "derive.remote_then_local" = some "remote_keys,&self.local_nonce,&self.remote_nonce|local_keys,&self.remote_nonce,&self.local_nonce" ∧
    lookup shape "prf.slice" = some "message_digest,secret,seed,offset+length,offset..(offset+length)" ∧
    lookup shape "p_sha.loop" = some "result.len()<length" ∧
    lookup shape "p_sha.a_next" = some "hmac_vec(message_digest,secret,&a_last)" ∧
    lookup shape "p_sha.block" = some "&a_next,seed" ∧
    lookup shape "p_sha.truncate" = some "length" ∧
    lookup shape "hmac_vec.empty_key" = some "ifkey.is_empty(){&[0u8][..]}else{key}" := by
  decide +kernel

/-! ### standard test vectors, evaluated by the kernel on the model's own definitions
(FIPS 180-4 "abc" and the 448-bit two-block message; RFC 2202 / RFC 4231 test case 2; RFC 4231 test
case 6 with a 131-byte key, i.e. longer than the block) -/

theorem sha256_abc : sha256 [0x61,0x62,0x63] = [0xba,0x78,0x16,0xbf,0x8f,0x01,0xcf,0xea,0x41,0x41,0x40,0xde,0x5d,0xae,0x22,0x23,0xb0,0x03,0x61,0xa3,0x96,0x17,0x7a,0x9c,0xb4,0x10,0xff,0x61,0xf2,0x00,0x15,0xad] := by decide +kernel

theorem sha1_abc : sha1 [0x61,0x62,0x63] = [0xa9,0x99,0x3e,0x36,0x47,0x06,0x81,0x6a,0xba,0x3e,0x25,0x71,0x78,0x50,0xc2,0x6c,0x9c,0xd0,0xd8,0x9d] := by decide +kernel

theorem sha256_two_blocks : sha256 [0x61,0x62,0x63,0x64,0x62,0x63,0x64,0x65,0x63,0x64,0x65,0x66,0x64,0x65,0x66,0x67,0x65,0x66,0x67,0x68,0x66,0x67,0x68,0x69,0x67,0x68,0x69,0x6a,0x68,0x69,0x6a,0x6b,0x69,0x6a,0x6b,0x6c,0x6a,0x6b,0x6c,0x6d,0x6b,0x6c,0x6d,0x6e,0x6c,0x6d,0x6e,0x6f,0x6d,0x6e,0x6f,0x70,0x6e,0x6f,0x70,0x71] =
    [0x24,0x8d,0x6a,0x61,0xd2,0x06,0x38,0xb8,0xe5,0xc0,0x26,0x93,0x0c,0x3e,0x60,0x39,0xa3,0x3c,0xe4,0x59,0x64,0xff,0x21,0x67,0xf6,0xec,0xed,0xd4,0x19,0xdb,0x06,0xc1] := by decide +kernel

theorem sha1_two_blocks : sha1 [0x61,0x62,0x63,0x64,0x62,0x63,0x64,0x65,0x63,0x64,0x65,0x66,0x64,0x65,0x66,0x67,0x65,0x66,0x67,0x68,0x66,0x67,0x68,0x69,0x67,0x68,0x69,0x6a,0x68,0x69,0x6a,0x6b,0x69,0x6a,0x6b,0x6c,0x6a,0x6b,0x6c,0x6d,0x6b,0x6c,0x6d,0x6e,0x6c,0x6d,0x6e,0x6f,0x6d,0x6e,0x6f,0x70,0x6e,0x6f,0x70,0x71] =
    [0x84,0x98,0x3e,0x44,0x1c,0x3b,0xd2,0x6e,0xba,0xae,0x4a,0xa1,0xf9,0x51,0x29,0xe5,0xe5,0x46,0x70,0xf1] := by decide +kernel

theorem hmacSha1_rfc2202_case2 : hmacSha1 [0x4a,0x65,0x66,0x65] [0x77,0x68,0x61,0x74,0x20,0x64,0x6f,0x20,0x79,0x61,0x20,0x77,0x61,0x6e,0x74,0x20,0x66,0x6f,0x72,0x20,0x6e,0x6f,0x74,0x68,0x69,0x6e,0x67,0x3f] =
    [0xef,0xfc,0xdf,0x6a,0xe5,0xeb,0x2f,0xa2,0xd2,0x74,0x16,0xd5,0xf1,0x84,0xdf,0x9c,0x25,0x9a,0x7c,0x79] := by decide +kernel

theorem hmacSha256_rfc4231_case2 : hmacSha256 [0x4a,0x65,0x66,0x65] [0x77,0x68,0x61,0x74,0x20,0x64,0x6f,0x20,0x79,0x61,0x20,0x77,0x61,0x6e,0x74,0x20,0x66,0x6f,0x72,0x20,0x6e,0x6f,0x74,0x68,0x69,0x6e,0x67,0x3f] =
    [0x5b,0xdc,0xc1,0x46,0xbf,0x60,0x75,0x4e,0x6a,0x04,0x24,0x26,0x08,0x95,0x75,0xc7,0x5a,0x00,0x3f,0x08,0x9d,0x27,0x39,0x83,0x9d,0xec,0x58,0xb9,0x64,0xec,0x38,0x43] := by decide +kernel

theorem hmacSha256_rfc4231_case6 :
    hmacSha256 (List.replicate 131 0xaa) [0x54,0x65,0x73,0x74,0x20,0x55,0x73,0x69,0x6e,0x67,0x20,0x4c,0x61,0x72,0x67,0x65,0x72,0x20,0x54,0x68,0x61,0x6e,0x20,0x42,0x6c,0x6f,0x63,0x6b,0x2d,0x53,0x69,0x7a,0x65,0x20,0x4b,0x65,0x79,0x20,0x2d,0x20,0x48,0x61,0x73,0x68,0x20,0x4b,0x65,0x79,0x20,0x46,0x69,0x72,0x73,0x74] =
    [0x60,0xe4,0x31,0x59,0x1e,0xe0,0xb6,0x7f,0x0d,0x8a,0x26,0xaa,0xcb,0xf5,0xb7,0x7f,0x8e,0x0b,0xc6,0x21,0x37,0x28,0xc5,0x14,0x05,0x46,0x04,0x0f,0x0e,0xe3,0x7f,0x54] := by
  decide +kernel

end OpcuaVerif.C13
