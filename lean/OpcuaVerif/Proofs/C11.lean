import OpcuaVerif.Model.C11

/-!
C11 — Framing is independent of how the byte stream is segmented.

Receive side: `prefix_stable`, `error_stable` (one `TcpCodec::decode` call is monotone in the
buffer), `segmentation` (any two ways of cutting a byte stream into reads give the same frames, the
same error outcome and the same residual buffer), `segmentation_bytewise`.

Send side: `sendbuffer_conserves` / `sendbuffer_exact` (emitted ++ unsent ++ queued = all secured
chunks, over every history of operations), `sendbuffer_never_drops`, `sink_total`,
`sendbuffer_progress` / `sendbuffer_complete` (polling with any positive partial-write sizes emits
everything, in order, once).
-/
namespace OpcuaVerif.C11

theorem readU32_append {b : Bytes} {n : Nat} {r : Bytes} (x : Bytes) (h : readU32 b = some (n, r)) :
    readU32 (b ++ x) = some (n, r ++ x) := by
  match b, h with
  | a :: b1 :: c :: d :: r', h =>
    simp [readU32] at h ⊢
    obtain ⟨h1, h2⟩ := h
    subst h1 h2
    simp

theorem parse_nil (o : Opts) (ty : MType) : parse o ty [] = none := by
  cases ty <;> simp [parse, parseChunk]

/-- `decode` is stable under more input: a frame that was produced is produced again, with the
extra bytes left in the buffer. -/
theorem prefix_stable (o : Opts) (b x : Bytes) (f : Frame) (r : Bytes)
    (h : decodeStep o b = .frame f r) : decodeStep o (b ++ x) = .frame f (r ++ x) := by
  unfold decodeStep at h ⊢
  by_cases hl : b.length > 8
  · have hl' : (b ++ x).length > 8 := by simp; omega
    rw [if_pos hl] at h
    rw [if_pos hl']
    match b, h with
    | t0 :: t1 :: t2 :: t3 :: r', h =>
      simp only [List.cons_append]
      cases hr : readU32 r' with
      | none => simp [hr] at h
      | some p =>
        obtain ⟨size, r2⟩ := p
        rw [readU32_append x hr]
        simp only [hr] at h
        dsimp only
        by_cases hbig : o.early = true ∧ o.maxMsg > 0 ∧ size > o.maxMsg
        · rw [if_pos hbig] at h; simp at h
        rw [if_neg hbig] at h
        rw [if_neg hbig]
        by_cases hs : (t0 :: t1 :: t2 :: t3 :: r').length ≥ size
        · have hs' : (t0 :: t1 :: t2 :: t3 :: (r' ++ x)).length ≥ size := by
            simp at hs ⊢; omega
          rw [if_pos hs] at h
          rw [if_pos hs']
          have e1 : (t0 :: t1 :: t2 :: t3 :: (r' ++ x)).take size = (t0 :: t1 :: t2 :: t3 :: r').take size := by
            have : t0 :: t1 :: t2 :: t3 :: (r' ++ x) = (t0 :: t1 :: t2 :: t3 :: r') ++ x := by simp
            rw [this, List.take_append_of_le_length hs]
          have e2 : (t0 :: t1 :: t2 :: t3 :: (r' ++ x)).drop size = (t0 :: t1 :: t2 :: t3 :: r').drop size ++ x := by
            have : t0 :: t1 :: t2 :: t3 :: (r' ++ x) = (t0 :: t1 :: t2 :: t3 :: r') ++ x := by simp
            rw [this, List.drop_append_of_le_length hs]
          rw [e1, e2]
          cases hp : parse o (mtype t0 t1 t2 t3) ((t0 :: t1 :: t2 :: t3 :: r').take size) with
          | none => simp [hp] at h
          | some f' =>
            simp [hp] at h ⊢
            obtain ⟨h1, h2⟩ := h
            subst h1 h2
            simp
        · rw [if_neg hs] at h; simp at h
  · rw [if_neg hl] at h; simp at h

/-- … and an error that was returned is returned again. -/
theorem error_stable (o : Opts) (b x : Bytes)
    (h : decodeStep o b = .error) : decodeStep o (b ++ x) = .error := by
  unfold decodeStep at h ⊢
  by_cases hl : b.length > 8
  · have hl' : (b ++ x).length > 8 := by simp; omega
    rw [if_pos hl] at h
    rw [if_pos hl']
    match b, h with
    | t0 :: t1 :: t2 :: t3 :: r', h =>
      simp only [List.cons_append]
      cases hr : readU32 r' with
      | none => simp [hr] at h
      | some p =>
        obtain ⟨size, r2⟩ := p
        rw [readU32_append x hr]
        simp only [hr] at h
        dsimp only
        by_cases hbig : o.early = true ∧ o.maxMsg > 0 ∧ size > o.maxMsg
        · rw [if_pos hbig]
        rw [if_neg hbig] at h
        rw [if_neg hbig]
        by_cases hs : (t0 :: t1 :: t2 :: t3 :: r').length ≥ size
        · have hs' : (t0 :: t1 :: t2 :: t3 :: (r' ++ x)).length ≥ size := by
            simp at hs ⊢; omega
          rw [if_pos hs] at h
          rw [if_pos hs']
          have e1 : (t0 :: t1 :: t2 :: t3 :: (r' ++ x)).take size = (t0 :: t1 :: t2 :: t3 :: r').take size := by
            have : t0 :: t1 :: t2 :: t3 :: (r' ++ x) = (t0 :: t1 :: t2 :: t3 :: r') ++ x := by simp
            rw [this, List.take_append_of_le_length hs]
          rw [e1]
          cases hp : parse o (mtype t0 t1 t2 t3) ((t0 :: t1 :: t2 :: t3 :: r').take size) with
          | none => rfl
          | some f' => simp [hp] at h
        · rw [if_neg hs] at h; simp at h
  · rw [if_neg hl] at h; simp at h

/-- every frame consumes at least one byte -/
theorem frame_lt (o : Opts) (b : Bytes) (f : Frame) (r : Bytes)
    (h : decodeStep o b = .frame f r) : r.length < b.length := by
  unfold decodeStep at h
  by_cases hl : b.length > 8
  · rw [if_pos hl] at h
    match b, h with
    | t0 :: t1 :: t2 :: t3 :: r', h =>
      cases hr : readU32 r' with
      | none => simp [hr] at h
      | some p =>
        obtain ⟨size, r2⟩ := p
        simp only [hr] at h
        by_cases hbig : o.early = true ∧ o.maxMsg > 0 ∧ size > o.maxMsg
        · rw [if_pos hbig] at h; simp at h
        rw [if_neg hbig] at h
        by_cases hs : (t0 :: t1 :: t2 :: t3 :: r').length ≥ size
        · rw [if_pos hs] at h
          cases hp : parse o (mtype t0 t1 t2 t3) ((t0 :: t1 :: t2 :: t3 :: r').take size) with
          | none => simp [hp] at h
          | some f' =>
            simp [hp] at h
            obtain ⟨_, h2⟩ := h
            have hpos : size ≠ 0 := by
              intro h0
              subst h0
              simp [parse_nil] at hp
            rw [← h2]
            simp at hs ⊢
            omega
        · rw [if_neg hs] at h; simp at h
  · rw [if_neg hl] at h; simp at h

theorem drainF_fuel (o : Opts) : ∀ (f1 f2 : Nat) (b : Bytes), b.length < f1 → b.length < f2 →
    drainF o f1 b = drainF o f2 b := by
  intro f1
  induction f1 with
  | zero => intro f2 b h; omega
  | succ n ih =>
    intro f2 b h1 h2
    cases f2 with
    | zero => omega
    | succ m =>
      simp only [drainF]
      cases hd : decodeStep o b with
      | none => rfl
      | error => rfl
      | frame f r =>
        have := frame_lt o b f r hd
        simp only
        rw [ih m r (by omega) (by omega)]

theorem drainF_succ (o : Opts) (fuel : Nat) (b : Bytes) : drainF o (fuel + 1) b =
    match decodeStep o b with
    | .none => ([], .more b)
    | .error => ([], .err)
    | .frame f r => (f :: (drainF o fuel r).1, (drainF o fuel r).2) := by
  rw [drainF]
  cases decodeStep o b <;> rfl

/-- unfolding equation of `drain` -/
theorem drain_eq (o : Opts) (b : Bytes) : drain o b =
    match decodeStep o b with
    | .none => ([], .more b)
    | .error => ([], .err)
    | .frame f r => (f :: (drain o r).1, (drain o r).2) := by
  unfold drain
  rw [drainF_succ o b.length b]
  cases hd : decodeStep o b with
  | none => rfl
  | error => rfl
  | frame f r =>
    have := frame_lt o b f r hd
    simp only
    rw [drainF_fuel o b.length (r.length + 1) r (by omega) (by omega)]

theorem drain_append (o : Opts) : ∀ (n : Nat) (b x : Bytes), b.length ≤ n →
    drain o (b ++ x) =
      match drain o b with
      | (fs, .err) => (fs, .err)
      | (fs, .more r) => (fs ++ (drain o (r ++ x)).1, (drain o (r ++ x)).2) := by
  intro n
  induction n with
  | zero =>
    intro b x h
    have : b = [] := by cases b <;> simp_all
    subst this
    rw [drain_eq o []]
    simp [decodeStep]
  | succ n ih =>
    intro b x h
    rw [drain_eq o b]
    cases hd : decodeStep o b with
    | none => simp
    | error =>
      rw [drain_eq o (b ++ x), error_stable o b x hd]
    | frame f r =>
      have hlt := frame_lt o b f r hd
      rw [drain_eq o (b ++ x), prefix_stable o b x f r hd]
      simp only
      rw [ih r x (by omega)]
      cases hdr : drain o r with
      | mk fs t =>
        cases t with
        | err => rfl
        | more r' => simp

/-- what `drain` leaves in the buffer needs more bytes before anything else happens -/
theorem drain_rest (o : Opts) : ∀ (n : Nat) (b : Bytes) (fs : List Frame) (r : Bytes), b.length ≤ n →
    drain o b = (fs, .more r) → drain o r = ([], .more r) := by
  intro n
  induction n with
  | zero =>
    intro b fs r h hd
    have : b = [] := by cases b <;> simp_all
    subst this
    rw [drain_eq o []] at hd
    simp [decodeStep] at hd
    obtain ⟨_, h2⟩ := hd
    subst h2
    rw [drain_eq o []]
    simp [decodeStep]
  | succ n ih =>
    intro b fs r h hd
    rw [drain_eq o b] at hd
    cases hs : decodeStep o b with
    | none =>
      simp [hs] at hd
      obtain ⟨_, h2⟩ := hd
      subst h2
      rw [drain_eq o b, hs]
    | error => simp [hs] at hd
    | frame f r' =>
      have hlt := frame_lt o b f r' hs
      simp [hs] at hd
      obtain ⟨_, h2⟩ := hd
      exact ih r' (drain o r').1 r (by omega) (by rw [← h2])

def tailState : Tail → RState
  | .more r => some r
  | .err => none

theorem feedAll_dead (o : Opts) (segs : List Bytes) : feedAll o none segs = ([], none) := by
  induction segs with
  | nil => rfl
  | cons seg rest ih => simp [feedAll, feed, ih]

theorem drain_nil (o : Opts) : drain o [] = ([], .more []) := by
  rw [drain_eq]; simp [decodeStep]

/-- reading a stream in segments = draining the concatenation once -/
theorem feedAll_eq (o : Opts) (segs : List Bytes) : ∀ buf : Bytes, drain o buf = ([], .more buf) →
    feedAll o (some buf) segs =
      ((drain o (buf ++ segs.flatten)).1, tailState (drain o (buf ++ segs.flatten)).2) := by
  induction segs with
  | nil => intro buf h; simp [feedAll, h, tailState]
  | cons seg rest ih =>
    intro buf _
    simp only [feedAll, feed, List.flatten_cons]
    rw [← List.append_assoc, drain_append o _ (buf ++ seg) rest.flatten (Nat.le_refl _)]
    cases hd : drain o (buf ++ seg) with
    | mk fs t =>
      cases t with
      | err => simp [feedAll_dead, tailState]
      | more r =>
        have hr := drain_rest o _ (buf ++ seg) fs r (Nat.le_refl _) hd
        simp only
        rw [ih r hr]

/-- **Segmentation independence.** Two ways of cutting the same byte stream into reads give the
same frames in the same order, the same error/no-error outcome and the same residual buffer. -/
theorem segmentation (o : Opts) (segs₁ segs₂ : List Bytes) (h : segs₁.flatten = segs₂.flatten) :
    feedAll o (some []) segs₁ = feedAll o (some []) segs₂ := by
  rw [feedAll_eq o segs₁ [] (drain_nil o), feedAll_eq o segs₂ [] (drain_nil o), h]

/-- down to single bytes -/
theorem segmentation_bytewise (o : Opts) (s : Bytes) :
    feedAll o (some []) (s.map fun b => [b]) = feedAll o (some []) [s] := by
  apply segmentation
  induction s with
  | nil => rfl
  | cons a r ih => simp_all


/-! ## send buffer -/

/-- structural invariant of a `SendBuffer` -/
def SBInv (s : SB) : Prop :=
  s.buf.length = s.cap ∧ s.cap = s.sendSize + 1024 ∧
  (match s.reading with
   | none => s.pos = 0
   | some e => s.pos < e ∧ e ≤ s.cap) ∧
  (∀ ch ∈ s.queue, 0 < ch.length ∧ (0 < s.sendSize → ch.length ≤ s.sendSize))

theorem new_inv (bs mm mc : Nat) : SBInv (SB.new bs mm mc) := by
  simp [SBInv, SB.new]

theorem secHdr_length (c : Chan) (k : CKind) : (secHdr c k).length = if k = .opn then 59 else 4 := by
  cases k <;> simp [secHdr, asymNone, u32le]

theorem mkChunk_length (c : Chan) (k : CKind) (seq req fin : Nat) (body : Bytes) :
    (mkChunk c k seq req fin body).length = 20 + (secHdr c k).length + body.length := by
  cases k <;> simp [mkChunk, kindCode, u32le] <;> omega

theorem chunksOfF_bound (n : Nat) : ∀ (fuel : Nat) (d : Bytes), ∀ p ∈ chunksOfF n fuel d, p.length ≤ n := by
  intro fuel
  induction fuel with
  | zero => intro d p hp; simp [chunksOfF] at hp
  | succ f ih =>
    intro d p hp
    simp only [chunksOfF] at hp
    split at hp
    · simp at hp
    · simp only [List.mem_cons] at hp
      rcases hp with h | h
      · subst h; simp; omega
      · exact ih _ _ h

theorem numberChunks_bound (c : Chan) (k : CKind) (seq req n : Nat) : ∀ (ps : List Bytes) (i : Nat) (cs : List Bytes),
    (∀ p ∈ ps, p.length ≤ n) → numberChunks c k seq req i ps = some cs →
    ∀ ch ∈ cs, 0 < ch.length ∧ ch.length ≤ 20 + (secHdr c k).length + n := by
  intro ps
  induction ps with
  | nil => intro i cs _ h ch hch; simp [numberChunks] at h; subst h; simp at hch
  | cons p ps ih =>
    intro i cs hb h ch hch
    simp only [numberChunks] at h
    cases ha : addU32 seq i with
    | none => simp [ha] at h
    | some s0 =>
      cases hn : numberChunks c k seq req (i + 1) ps with
      | none => simp [ha, hn] at h
      | some rest =>
        simp [ha, hn] at h
        subst h
        simp only [List.mem_cons] at hch
        rcases hch with h1 | h1
        · subst h1
          rw [mkChunk_length]
          have := hb p (by simp)
          omega
        · exact ih (i + 1) rest (fun q hq => hb q (by simp [hq])) hn ch h1

theorem write_inv (s : SB) (c : Chan) (cl : Bool) (req nid : Nat) (msg : Bytes) (s' : SB) (cs : List Bytes)
    (hi : SBInv s) (h : s.write c cl req nid msg = .ok s' cs) :
    SBInv s' ∧ s'.pending = s.pending ∧ s'.queue = s.queue ++ cs ∧ s'.sendSize = s.sendSize := by
  unfold SB.write at h
  split at h
  · simp at h
  · rename_i hr
    cases ha : addU32 s.lastSeq 1 with
    | none => simp [ha] at h
    | some first =>
      simp only [ha] at h
      cases he : chunkerEncode c cl first req s.maxMsg s.sendSize nid msg with
      | panic => simp [he] at h
      | err e => simp [he] at h
      | ok cs0 =>
        simp only [he] at h
        split at h
        · simp at h
        · cases hl : addU32 s.lastSeq cs0.length with
          | none => simp [hl] at h
          | some l =>
            simp [hl] at h
            obtain ⟨h1, h2⟩ := h
            subst h1 h2
            -- bound on the new chunks
            have hb : ∀ ch ∈ cs0, 0 < ch.length ∧ (0 < s.sendSize → ch.length ≤ s.sendSize) := by
              unfold chunkerEncode at he
              split at he
              · simp at he
              · split at he
                · rename_i hpos
                  split at he
                  · simp at he
                  · rename_i hge
                    cases hn : numberChunks c (msgKind msg) first req 0 (chunksOf (s.sendSize - (20 + (secHdr c (msgKind msg)).length)) msg) with
                    | none => simp [hn] at he
                    | some cs1 =>
                      simp [hn] at he
                      subst he
                      intro ch hch
                      have hsl : (secHdr c (msgKind msg)).length ≤ 59 := by
                        rw [secHdr_length]; split <;> omega
                      have := numberChunks_bound c (msgKind msg) first req (s.sendSize - (20 + (secHdr c (msgKind msg)).length)) _ 0 cs1
                        (chunksOfF_bound _ _ _) hn ch hch
                      constructor
                      · exact this.1
                      · intro _; omega
                · rename_i hz
                  simp at he
                  subst he
                  intro ch hch
                  simp at hch
                  subst hch
                  rw [mkChunk_length]
                  constructor
                  · omega
                  · intro hp; omega
            obtain ⟨i1, i2, i3, i4⟩ := hi
            refine ⟨⟨i1, i2, i3, ?_⟩, rfl, rfl, rfl⟩
            intro ch hch
            simp only [List.mem_append] at hch
            rcases hch with h1 | h1
            · exact i4 ch h1
            · exact hb ch h1

theorem encodeNext_ok_inv (s s' : SB) (hi : SBInv s) (h : s.encodeNext = .ok s') :
    SBInv s' ∧ s'.pending ++ s'.queue.flatten = s.pending ++ s.queue.flatten ∧ s'.sendSize = s.sendSize ∧
      (s.queue ≠ [] → s'.canRead = true ∧ s'.pending ≠ []) := by
  unfold SB.encodeNext at h
  split at h
  · simp at h
  · rename_i hr
    obtain ⟨i1, i2, i3, i4⟩ := hi
    have hnone : s.reading = none := by
      cases hh : s.reading <;> simp_all
    rw [hnone] at i3
    split at h
    · rename_i hq0
      simp at h; subst h; exact ⟨⟨i1, i2, by rw [hnone]; exact i3, i4⟩, rfl, rfl, fun hne => absurd hq0 hne⟩
    · rename_i ch q hq
      split at h
      · simp at h
      · rename_i hle
        simp at h
        subst h
        have hch := i4 ch (by rw [hq]; simp)
        refine ⟨⟨?_, i2, ?_, ?_⟩, ?_, rfl, ?_⟩
        · simp; omega
        · simp only; omega
        · intro c hc; exact i4 c (by rw [hq]; simp [hc])
        · simp [SB.pending, hnone, hq, i3]
        · intro _
          constructor
          · simp [SB.canRead]
          · simp [SB.pending, i3]
            intro h0; rw [h0] at hch; simp at hch

theorem encodeNext_no_err (s : SB) (hi : SBInv s) (hpos : 0 < s.sendSize) (hr : s.reading = none) :
    ∃ s', s.encodeNext = .ok s' := by
  unfold SB.encodeNext
  obtain ⟨i1, i2, i3, i4⟩ := hi
  simp only [hr, Option.isSome_none, Bool.false_eq_true, ↓reduceIte]
  split
  · exact ⟨s, rfl⟩
  · rename_i ch q hq
    have hch := i4 ch (by rw [hq]; simp)
    have := hch.2 hpos
    rw [if_neg (by omega)]
    exact ⟨_, rfl⟩

theorem sink_inv (s : SB) (k : Nat) (hi : SBInv s) :
    ∃ s' w, s.sink k = .ok s' w ∧ SBInv s' ∧ w ++ s'.pending = s.pending ∧ s'.queue = s.queue ∧
      (0 < k → s.pending ≠ [] → w ≠ []) ∧ s'.sendSize = s.sendSize := by
  obtain ⟨i1, i2, i3, i4⟩ := hi
  unfold SB.sink
  cases hr : s.reading with
  | none =>
    rw [hr] at i3
    have hp : s.pending = [] := by simp [SB.pending, hr]
    simp only [i3]
    rw [if_neg (by omega)]
    simp only [Nat.sub_self, List.take_zero, List.take_nil, List.length_nil, Nat.add_zero, ↓reduceIte]
    refine ⟨_, _, rfl, ⟨i1, i2, by simp, i4⟩, ?_, rfl, ?_, rfl⟩
    · rw [hp]; simp [SB.pending]
    · intro _ h; exact absurd hp h
  | some e =>
    rw [hr] at i3
    obtain ⟨h1, h2⟩ := i3
    simp only
    rw [if_neg (by omega)]
    have hlen : ((s.buf.drop s.pos).take (e - s.pos)).length = e - s.pos := by
      simp; omega
    generalize hoff : (s.buf.drop s.pos).take (e - s.pos) = offered at hlen
    have hpend : s.pending = offered := by simp [SB.pending, hr, hoff]
    have hwl : (offered.take k).length = min k (e - s.pos) := by simp [hlen]
    by_cases hfin : e = s.pos + (offered.take k).length
    · rw [if_pos hfin]
      refine ⟨_, _, rfl, ⟨i1, i2, by simp, i4⟩, ?_, rfl, ?_, rfl⟩
      · have : offered.take k = offered := by
          apply List.take_of_length_le; omega
        rw [hpend, this]
        simp [SB.pending]
      · intro hk _ hw
        rw [hw] at hfin; simp at hfin; omega
    · rw [if_neg hfin]
      refine ⟨_, _, rfl, ⟨i1, i2, ?_, i4⟩, ?_, rfl, ?_, rfl⟩
      · simp only; omega
      · rw [hpend]
        simp only [SB.pending]
        have : (s.buf.drop (s.pos + (offered.take k).length)).take (e - (s.pos + (offered.take k).length))
            = offered.drop (offered.take k).length := by
          rw [← hoff, List.drop_take, List.drop_drop]
          congr 1 <;> omega
        rw [this]
        have hd : offered.drop (offered.take k).length = offered.drop k := by
          rw [hwl]
          by_cases hk : k ≤ e - s.pos
          · rw [Nat.min_eq_left hk]
          · rw [Nat.min_eq_right (by omega), List.drop_of_length_le (by omega), List.drop_of_length_le (by omega)]
        rw [hd, List.take_append_drop]
      · intro hk _ hw
        have : (offered.take k).length = 0 := by rw [hw]; rfl
        rw [hwl] at this
        omega

theorem encodeNext_err_inv (s s' : SB) (e : String) (hi : SBInv s) (h : s.encodeNext = .err s' e) :
    SBInv s' ∧ s'.sendSize = s.sendSize ∧ (0 < s.sendSize → s' = s) := by
  unfold SB.encodeNext at h
  obtain ⟨i1, i2, i3, i4⟩ := hi
  split at h
  · simp at h; obtain ⟨h1, _⟩ := h; subst h1; exact ⟨⟨i1, i2, i3, i4⟩, rfl, fun _ => rfl⟩
  · split at h
    · simp at h
    · rename_i ch q hq
      split at h
      · rename_i hgt
        simp at h
        obtain ⟨h1, _⟩ := h
        subst h1
        refine ⟨⟨i1, i2, i3, ?_⟩, rfl, ?_⟩
        · intro c hc; exact i4 c (by rw [hq]; simp [hc])
        · intro hp
          have := (i4 ch (by rw [hq]; simp)).2 hp
          omega
      · simp at h

theorem canRead_pending (s : SB) (hi : SBInv s) : s.canRead = true ↔ s.pending ≠ [] := by
  obtain ⟨i1, i2, i3, i4⟩ := hi
  cases hr : s.reading with
  | none => rw [hr] at i3; simp [SB.canRead, SB.pending, hr, i3]
  | some e =>
    rw [hr] at i3
    simp only [SB.canRead, SB.pending, hr, Option.isSome_some, Bool.true_or, true_iff]
    intro h0
    have : ((s.buf.drop s.pos).take (e - s.pos)).length = e - s.pos := by simp; omega
    rw [h0] at this
    simp at this
    omega

/-- one `poll` with a writer that accepts at least one byte makes progress and loses nothing -/
theorem poll_progress (s : SB) (k : Nat) (hi : SBInv s) (hpos : 0 < s.sendSize) (hk : 0 < k) :
    ∃ s' w, s.poll k = .ok s' w ∧ SBInv s' ∧ s'.sendSize = s.sendSize ∧
      w ++ (s'.pending ++ s'.queue.flatten) = s.pending ++ s.queue.flatten ∧
      (s.pending ++ s.queue.flatten ≠ [] → w ≠ []) := by
  unfold SB.poll
  by_cases hse : s.shouldEncode = true
  · rw [if_pos hse]
    simp only [SB.shouldEncode, Bool.and_eq_true, Bool.not_eq_true', List.isEmpty_eq_false_iff] at hse
    obtain ⟨hq, hcr⟩ := hse
    have hrn : s.reading = none := by
      simp [SB.canRead] at hcr
      cases hh : s.reading <;> simp_all
    obtain ⟨s1, h1⟩ := encodeNext_no_err s hi hpos hrn
    obtain ⟨i1, e1, ss1, ne1⟩ := encodeNext_ok_inv s s1 hi h1
    obtain ⟨c1, p1⟩ := ne1 hq
    rw [h1]
    simp only [SB.pollSink, c1, ↓reduceIte]
    obtain ⟨s2, w, h2, i2, e2, q2, n2, ss2⟩ := sink_inv s1 k i1
    rw [h2]
    refine ⟨s2, w, rfl, i2, by rw [ss2, ss1], ?_, ?_⟩
    · rw [← e1, q2, ← e2]; simp
    · intro _; exact n2 hk p1
  · rw [if_neg hse]
    simp only [SB.pollSink]
    by_cases hc : s.canRead = true
    · rw [if_pos hc]
      obtain ⟨s2, w, h2, i2, e2, q2, n2, ss2⟩ := sink_inv s k hi
      rw [h2]
      refine ⟨s2, w, rfl, i2, ss2, ?_, ?_⟩
      · rw [q2, ← e2]; simp
      · intro _; exact n2 hk ((canRead_pending s hi).1 hc)
    · rw [if_neg hc]
      refine ⟨s, [], rfl, hi, rfl, by simp, ?_⟩
      intro hne
      exfalso
      have hp : s.pending = [] := by
        by_cases hh : s.pending = []
        · exact hh
        · exact absurd ((canRead_pending s hi).2 hh) hc
      simp only [SB.shouldEncode, Bool.and_eq_true, Bool.not_eq_true', not_and, Bool.not_eq_false] at hse
      have hq : s.queue = [] := by
        by_cases hh : s.queue = []
        · exact hh
        · exact absurd (hse (by simp [hh])) hc
      simp [hp, hq] at hne

/-- repeated `poll`; `none` when an error or panic stops the transport -/
def pollAll (s : SB) : List Nat → Option (SB × Bytes)
  | [] => some (s, [])
  | k :: ks =>
    match s.poll k with
    | .ok s' w => (pollAll s' ks).map fun (s'', w') => (s'', w ++ w')
    | _ => none

/-- **Progress.** From any state of the buffer, whatever positive numbers of bytes the socket
accepts per write, polling at least as many times as there are outstanding bytes emits exactly the
outstanding bytes — the rest of the chunk in the buffer, then every queued chunk, in order, once —
and leaves the buffer idle. -/
theorem sendbuffer_progress : ∀ (ks : List Nat) (s : SB), SBInv s → 0 < s.sendSize → (∀ k ∈ ks, 0 < k) →
    (s.pending ++ s.queue.flatten).length ≤ ks.length →
    ∃ s', pollAll s ks = some (s', s.pending ++ s.queue.flatten) ∧ SBInv s' ∧ s'.pending = [] ∧ s'.queue = [] := by
  intro ks
  induction ks with
  | nil =>
    intro s hi _ _ hlen
    have h0 : s.pending ++ s.queue.flatten = [] := by
      cases h : s.pending ++ s.queue.flatten with
      | nil => rfl
      | cons a l => rw [h] at hlen; simp at hlen
    simp only [List.append_eq_nil_iff] at h0
    refine ⟨s, by simp [pollAll, h0], hi, h0.1, ?_⟩
    cases hq : s.queue with
    | nil => rfl
    | cons ch q =>
      have := (hi.2.2.2 ch (by rw [hq]; simp)).1
      have h2 := h0.2
      rw [hq] at h2
      simp at h2
      rw [h2.1] at this
      simp at this
  | cons k ks ih =>
    intro s hi hpos hks hlen
    obtain ⟨s1, w, h1, i1, ss1, e1, n1⟩ := poll_progress s k hi hpos (hks k (by simp))
    have hlen1 : (s1.pending ++ s1.queue.flatten).length ≤ ks.length := by
      by_cases hz : s.pending ++ s.queue.flatten = []
      · rw [hz] at e1
        simp only [List.append_eq_nil_iff] at e1
        simp [e1.2.1, e1.2.2]
      · have hw := n1 hz
        have : w.length > 0 := by cases w <;> simp_all
        have hl := congrArg List.length e1
        simp only [List.length_append, List.length_cons] at hl hlen ⊢
        omega
    obtain ⟨s', h', i', p', q'⟩ := ih s1 i1 (by rw [ss1]; exact hpos) (fun k hk => hks k (by simp [hk])) hlen1
    refine ⟨s', ?_, i', p', q'⟩
    simp only [pollAll, h1, h', Option.map_some]
    rw [e1]

/-! ### histories of send-buffer operations -/

inductive TxOp where
  | write (req nid : Nat) (msg : Bytes)
  | enc
  | sink (k : Nat)
  | nextid
deriving Repr, DecidableEq

/-- the buffer together with ghost logs: every byte the socket accepted, every chunk of every
accepted message, and whether `encode_next_chunk` ever failed after taking a chunk off the queue -/
structure TxSt where
  sb : SB
  emitted : Bytes
  accepted : List Bytes
  dropped : Bool
deriving Repr, DecidableEq

/-- `none` = the implementation panicked -/
def txStep (c : Chan) (cl : Bool) (t : TxSt) : TxOp → Option TxSt
  | .write req nid msg =>
    match t.sb.write c cl req nid msg with
    | .ok s' cs => some { t with sb := s', accepted := t.accepted ++ cs }
    | .err _ => some t
    | .panic => none
  | .enc =>
    match t.sb.encodeNext with
    | .ok s' => some { t with sb := s' }
    | .err s' _ => some { t with sb := s', dropped := t.dropped || decide (s' ≠ t.sb) }
  | .sink k =>
    match t.sb.sink k with
    | .ok s' w => some { t with sb := s', emitted := t.emitted ++ w }
    | .panic => none
  | .nextid =>
    match t.sb.nextRequestId with
    | some (s', _) => some { t with sb := s' }
    | none => none

def txRun (c : Chan) (cl : Bool) : TxSt → List TxOp → Option TxSt
  | t, [] => some t
  | t, op :: ops =>
    match txStep c cl t op with
    | some t' => txRun c cl t' ops
    | none => none

def txInit (bs mm mc : Nat) : TxSt :=
  { sb := SB.new bs mm mc, emitted := [], accepted := [], dropped := false }

/-- conservation: what was emitted, then the rest of the chunk in the buffer, then the queue, is
the concatenation of all chunks of all accepted messages -/
def TxInv (t : TxSt) : Prop :=
  SBInv t.sb ∧
  (t.dropped = false → t.emitted ++ t.sb.pending ++ t.sb.queue.flatten = t.accepted.flatten)

theorem txStep_inv (c : Chan) (cl : Bool) (t t' : TxSt) (op : TxOp) (hi : TxInv t)
    (h : txStep c cl t op = some t') :
    TxInv t' ∧ t'.sb.sendSize = t.sb.sendSize ∧ (0 < t.sb.sendSize → t'.dropped = t.dropped) := by
  obtain ⟨hs, hc⟩ := hi
  cases op with
  | write req nid msg =>
    simp only [txStep] at h
    cases hw : t.sb.write c cl req nid msg with
    | ok s' cs =>
      simp [hw] at h; subst h
      obtain ⟨i1, p1, q1, ss1⟩ := write_inv t.sb c cl req nid msg s' cs hs hw
      refine ⟨⟨i1, ?_⟩, ss1, fun _ => rfl⟩
      intro hd
      simp only [p1, q1, List.flatten_append]
      rw [← hc hd]; simp
    | err e => simp [hw] at h; subst h; exact ⟨⟨hs, hc⟩, rfl, fun _ => rfl⟩
    | panic => simp [hw] at h
  | enc =>
    simp only [txStep] at h
    cases he : t.sb.encodeNext with
    | ok s' =>
      simp [he] at h; subst h
      obtain ⟨i1, e1, ss1, _⟩ := encodeNext_ok_inv t.sb s' hs he
      refine ⟨⟨i1, ?_⟩, ss1, fun _ => rfl⟩
      intro hd
      rw [List.append_assoc, e1, ← List.append_assoc]; exact hc hd
    | err s' e =>
      simp [he] at h; subst h
      obtain ⟨i1, ss1, same⟩ := encodeNext_err_inv t.sb s' e hs he
      refine ⟨⟨i1, ?_⟩, ss1, ?_⟩
      · intro hd
        simp at hd
        obtain ⟨hd1, hd2⟩ := hd
        subst hd2
        exact hc hd1
      · intro hp; simp [same hp]
  | sink k =>
    simp only [txStep] at h
    obtain ⟨s', w, h1, i1, e1, q1, _, ss1⟩ := sink_inv t.sb k hs
    simp [h1] at h; subst h
    refine ⟨⟨i1, ?_⟩, ss1, fun _ => rfl⟩
    intro hd
    simp only [q1]
    rw [← hc hd, ← e1]; simp
  | nextid =>
    simp only [txStep, SB.nextRequestId] at h
    cases ha : addU32 t.sb.lastReq 1 with
    | none => simp [ha] at h
    | some r =>
      simp [ha] at h; subst h
      exact ⟨⟨hs, hc⟩, rfl, fun _ => rfl⟩

/-- **Conservation.** After any history of writes, encodes, partial socket writes and request-id
draws on a fresh send buffer (that did not panic), the bytes the socket accepted, followed by the
unsent rest of the chunk in the buffer, followed by the queued chunks, are exactly the
concatenation of the chunks of all accepted messages in order — unless `encode_next_chunk`
reported `BadEncodingLimitsExceeded` (which closes the transport). -/
theorem sendbuffer_conserves (c : Chan) (cl : Bool) (ops : List TxOp) : ∀ (t t' : TxSt), TxInv t →
    txRun c cl t ops = some t' → TxInv t' := by
  induction ops with
  | nil => intro t t' hi h; simp [txRun] at h; subst h; exact hi
  | cons op ops ih =>
    intro t t' hi h
    simp only [txRun] at h
    cases hs : txStep c cl t op with
    | none => simp [hs] at h
    | some t1 =>
      simp only [hs] at h
      exact ih t1 t' (txStep_inv c cl t t1 op hi hs).1 h

/-- With a non-zero send buffer size (chunks are then cut to fit the buffer) no chunk is ever
dropped, so conservation holds unconditionally. -/
theorem sendbuffer_never_drops (c : Chan) (cl : Bool) (ops : List TxOp) : ∀ (t t' : TxSt), TxInv t →
    0 < t.sb.sendSize → txRun c cl t ops = some t' → t'.dropped = t.dropped := by
  induction ops with
  | nil => intro t t' _ _ h; simp [txRun] at h; subst h; rfl
  | cons op ops ih =>
    intro t t' hi hp h
    simp only [txRun] at h
    cases hs : txStep c cl t op with
    | none => simp [hs] at h
    | some t1 =>
      simp only [hs] at h
      obtain ⟨i1, ss1, d1⟩ := txStep_inv c cl t t1 op hi hs
      rw [ih t1 t' i1 (by rw [ss1]; exact hp) h, d1 hp]

theorem txInit_inv (bs mm mc : Nat) : TxInv (txInit bs mm mc) := by
  refine ⟨new_inv bs mm mc, ?_⟩
  intro _; simp [txInit, SB.new, SB.pending]

/-- The property for the send side, as one statement: on a fresh buffer of non-zero size, after
any history, emitted ++ (unsent rest of the buffer) ++ (queued chunks) = all secured chunks. -/
theorem sendbuffer_exact (c : Chan) (cl : Bool) (bs mm mc : Nat) (hbs : 0 < bs) (ops : List TxOp) (t : TxSt)
    (h : txRun c cl (txInit bs mm mc) ops = some t) :
    t.emitted ++ t.sb.pending ++ t.sb.queue.flatten = t.accepted.flatten := by
  have hi := sendbuffer_conserves c cl ops _ t (txInit_inv bs mm mc) h
  have hd := sendbuffer_never_drops c cl ops _ t (txInit_inv bs mm mc) (by simpa [txInit, SB.new] using hbs) h
  exact hi.2 (by rw [hd]; rfl)

/-- `read_into_async` never slices out of range (`&buf[pos..end]`). -/
theorem sink_total (c : Chan) (cl : Bool) (bs mm mc : Nat) (ops : List TxOp) (t : TxSt) (k : Nat)
    (h : txRun c cl (txInit bs mm mc) ops = some t) : t.sb.sink k ≠ .panic := by
  have hi := sendbuffer_conserves c cl ops _ t (txInit_inv bs mm mc) h
  obtain ⟨s', w, h1, _⟩ := sink_inv t.sb k hi.1
  rw [h1]; simp

theorem txRun_sendSize (c : Chan) (cl : Bool) (ops : List TxOp) : ∀ (t t' : TxSt), TxInv t →
    txRun c cl t ops = some t' → t'.sb.sendSize = t.sb.sendSize := by
  induction ops with
  | nil => intro t t' _ h; simp [txRun] at h; subst h; rfl
  | cons op ops ih =>
    intro t t' hi h
    simp only [txRun] at h
    cases hs : txStep c cl t op with
    | none => simp [hs] at h
    | some t1 =>
      simp only [hs] at h
      obtain ⟨i1, ss1, _⟩ := txStep_inv c cl t t1 op hi hs
      rw [ih t1 t' i1 h, ss1]

/-- **Nothing lost, nothing repeated, in order.** After any history on a fresh buffer, if the
transport keeps polling with a socket that accepts at least one byte per write, the total byte
stream written to the socket is exactly the concatenation of the secured chunks of all accepted
messages. -/
theorem sendbuffer_complete (c : Chan) (cl : Bool) (bs mm mc : Nat) (hbs : 0 < bs) (ops : List TxOp) (t : TxSt)
    (h : txRun c cl (txInit bs mm mc) ops = some t) (ks : List Nat) (hks : ∀ k ∈ ks, 0 < k)
    (hlen : (t.sb.pending ++ t.sb.queue.flatten).length ≤ ks.length) :
    ∃ s' w, pollAll t.sb ks = some (s', w) ∧ t.emitted ++ w = t.accepted.flatten ∧
      s'.pending = [] ∧ s'.queue = [] := by
  have hi := sendbuffer_conserves c cl ops _ t (txInit_inv bs mm mc) h
  have hss := txRun_sendSize c cl ops _ t (txInit_inv bs mm mc) h
  have hp : 0 < t.sb.sendSize := by rw [hss]; simpa [txInit, SB.new] using hbs
  obtain ⟨s', h1, _, p1, q1⟩ := sendbuffer_progress ks t.sb hi.1 hp hks hlen
  refine ⟨s', _, h1, ?_, p1, q1⟩
  rw [← sendbuffer_exact c cl bs mm mc hbs ops t h]; simp

/-! ### non-vacuity -/

/-- an ACK frame followed by one more byte decodes (hypothesis of `prefix_stable`) -/
example : decodeStep ⟨0, 100, true⟩ ([65, 67, 75, 70, 28, 0, 0, 0] ++ List.replicate 20 7 ++ [9])
    = .frame (.ack 117901063 117901063 117901063 117901063 117901063) [9] := by decide

/-- a frame with an unknown type errors once it is complete (hypothesis of `error_stable`) -/
example : decodeStep ⟨0, 100, true⟩ [88, 88, 88, 70, 9, 0, 0, 0, 1] = .error := by decide

/-- a declared size beyond the limit is an error once the bytes are there -/
example : decodeStep ⟨16, 100, true⟩ ([77, 83, 71, 70, 17, 0, 0, 0] ++ List.replicate 9 0) = .error := by decide

/-- two segmentations of one stream, evaluated -/
example : feedAll ⟨0, 100, true⟩ (some []) [[77, 83, 71], [70, 12, 0, 0, 0, 1, 0], [0, 0, 77]]
    = feedAll ⟨0, 100, true⟩ (some []) [[77, 83, 71, 70, 12, 0, 0, 0, 1, 0, 0, 0, 77]] := by decide

/-- a concrete history on a fresh buffer: one 3-byte message, encoded, drained by two partial
writes; every hypothesis of `sendbuffer_exact`/`sendbuffer_complete` holds for it -/
example : (txRun ⟨1, 2⟩ true (txInit 8196 0 0) [.write 5 1 [1, 2, 3], .enc, .sink 10, .sink 100]).map
    (fun t => (t.emitted, t.dropped, t.sb.queue, t.sb.reading))
    = some ([77, 83, 71, 70, 27, 0, 0, 0, 1, 0, 0, 0, 2, 0, 0, 0, 1, 0, 0, 0, 5, 0, 0, 0, 1, 2, 3], false, [], none) := by
  decide +kernel


/-! ### round trip: encoded frames come back, whatever the segmentation -/

theorem readU32_u32le (n : Nat) (r : Bytes) (h : n < 4294967296) : readU32 (u32le n ++ r) = some (n, r) := by
  simp [u32le, readU32]; omega

/-- a chunk frame as it appears on the wire: type code, final flag, total size, channel id, rest -/
def rawChunk (t0 t1 t2 fin chan : Nat) (body : Bytes) : Bytes :=
  [t0, t1, t2, fin] ++ u32le (12 + body.length) ++ u32le chan ++ body

def isChunkCode (t0 t1 t2 : Nat) : Prop :=
  (t0 = 77 ∧ t1 = 83 ∧ t2 = 71) ∨ (t0 = 79 ∧ t1 = 80 ∧ t2 = 78) ∨ (t0 = 67 ∧ t1 = 76 ∧ t2 = 79)

theorem rawChunk_length (t0 t1 t2 fin chan : Nat) (body : Bytes) :
    (rawChunk t0 t1 t2 fin chan body).length = 12 + body.length := by
  simp [rawChunk, u32le]; omega

/-- `TcpCodec::encode` of an ACK -/
def encAck (pv rbs sbs mms mcc : Nat) : Bytes :=
  [65, 67, 75, 70] ++ u32le 28 ++ u32le pv ++ u32le rbs ++ u32le sbs ++ u32le mms ++ u32le mcc

theorem decode_rawChunk (o : Opts) (t0 t1 t2 fin chan : Nat) (body x : Bytes)
    (hc : isChunkCode t0 t1 t2) (hf : fin = 70 ∨ fin = 67 ∨ fin = 65)
    (hsz : 12 + body.length < 4294967296) (hch : chan < 4294967296)
    (hlim : ¬ (o.maxMsg > 0 ∧ 12 + body.length > o.maxMsg)) :
    decodeStep o (rawChunk t0 t1 t2 fin chan body ++ x) = .frame (.chunk (rawChunk t0 t1 t2 fin chan body)) x := by
  have hlen := rawChunk_length t0 t1 t2 fin chan body
  unfold decodeStep
  have hl : (rawChunk t0 t1 t2 fin chan body ++ x).length > 8 := by simp [hlen]; omega
  rw [if_pos hl]
  have hshape : rawChunk t0 t1 t2 fin chan body ++ x
      = t0 :: t1 :: t2 :: fin :: (u32le (12 + body.length) ++ (u32le chan ++ body ++ x)) := by
    simp [rawChunk]
  rw [hshape]
  simp only [readU32_u32le _ _ hsz]
  rw [if_neg (by intro h; exact hlim ⟨h.2.1, h.2.2⟩)]
  rw [← hshape]
  have hge : (rawChunk t0 t1 t2 fin chan body ++ x).length ≥ 12 + body.length := by simp [hlen]
  rw [if_pos hge]
  have htake : (rawChunk t0 t1 t2 fin chan body ++ x).take (12 + body.length) = rawChunk t0 t1 t2 fin chan body := by
    rw [List.take_append_of_le_length (by omega), List.take_of_length_le (by omega)]
  have hdrop : (rawChunk t0 t1 t2 fin chan body ++ x).drop (12 + body.length) = x := by
    rw [List.drop_append_of_le_length (by omega), List.drop_of_length_le (by omega)]; simp
  rw [htake, hdrop]
  have hm : mtype t0 t1 t2 fin = .chunk := by
    unfold isChunkCode at hc
    rcases hc with ⟨a, b, c⟩ | ⟨a, b, c⟩ | ⟨a, b, c⟩ <;> rcases hf with f | f | f <;> subst a b c f <;> decide
  rw [hm]
  have hp : parse o .chunk (rawChunk t0 t1 t2 fin chan body) = some (.chunk (rawChunk t0 t1 t2 fin chan body)) := by
    simp only [parse, parseChunk, rawChunk, List.cons_append, List.nil_append]
    have h1 : ¬ ¬ ((t0 = 77 ∧ t1 = 83 ∧ t2 = 71) ∨ (t0 = 79 ∧ t1 = 80 ∧ t2 = 78) ∨ (t0 = 67 ∧ t1 = 76 ∧ t2 = 79)) :=
      fun h => h hc
    rw [if_neg h1]
    have h2 : ¬ ¬ (fin = 70 ∨ fin = 67 ∨ fin = 65) := fun h => h hf
    rw [if_neg h2]
    simp only [List.append_assoc, readU32_u32le _ _ hsz, readU32_u32le _ _ hch]
    rw [if_neg hlim]
    simp
  rw [hp]


theorem decode_encAck (o : Opts) (pv rbs sbs mms mcc : Nat) (x : Bytes)
    (h1 : pv < 4294967296) (h2 : rbs < 4294967296) (h3 : sbs < 4294967296) (h4 : mms < 4294967296)
    (h5 : mcc < 4294967296) (hlim : ¬ (o.maxMsg > 0 ∧ 28 > o.maxMsg)) :
    decodeStep o (encAck pv rbs sbs mms mcc ++ x) = .frame (.ack pv rbs sbs mms mcc) x := by
  have hlen : (encAck pv rbs sbs mms mcc).length = 28 := by simp [encAck, u32le]
  unfold decodeStep
  have hl : (encAck pv rbs sbs mms mcc ++ x).length > 8 := by simp [hlen]; omega
  rw [if_pos hl]
  have hshape : encAck pv rbs sbs mms mcc ++ x
      = 65 :: 67 :: 75 :: 70 :: (u32le 28 ++ (u32le pv ++ u32le rbs ++ u32le sbs ++ u32le mms ++ u32le mcc ++ x)) := by
    simp [encAck]
  rw [hshape]
  simp only [readU32_u32le 28 _ (by omega)]
  rw [if_neg (by intro h; exact hlim ⟨h.2.1, h.2.2⟩)]
  rw [← hshape]
  have hge : (encAck pv rbs sbs mms mcc ++ x).length ≥ 28 := by simp [hlen]
  rw [if_pos hge]
  have htake : (encAck pv rbs sbs mms mcc ++ x).take 28 = encAck pv rbs sbs mms mcc := by
    rw [List.take_append_of_le_length (by omega), List.take_of_length_le (by omega)]
  have hdrop : (encAck pv rbs sbs mms mcc ++ x).drop 28 = x := by
    rw [List.drop_append_of_le_length (by omega), List.drop_of_length_le (by omega)]; simp
  rw [htake, hdrop]
  have hm : mtype 65 67 75 70 = .ack := by decide
  rw [hm]
  have hp : parse o .ack (encAck pv rbs sbs mms mcc) = some (.ack pv rbs sbs mms mcc) := by
    simp only [parse, hlen]
    have hd : (encAck pv rbs sbs mms mcc).drop 8 = u32le pv ++ (u32le rbs ++ (u32le sbs ++ (u32le mms ++ (u32le mcc ++ [])))) := by
      simp [encAck, u32le]
    rw [hd]
    have h5' : readU32 (u32le mcc) = some (mcc, []) := by simpa using readU32_u32le mcc [] h5
    simp [readU32_u32le _ _ h1, readU32_u32le _ _ h2, readU32_u32le _ _ h3, readU32_u32le _ _ h4, h5']
  rw [hp]

/-- frames as a sender puts them on the wire -/
inductive WFrame where
  | chunk (t0 t1 t2 fin chan : Nat) (body : Bytes)
  | ack (pv rbs sbs mms mcc : Nat)
deriving Repr, DecidableEq

def WFrame.enc : WFrame → Bytes
  | .chunk t0 t1 t2 fin chan body => rawChunk t0 t1 t2 fin chan body
  | .ack pv rbs sbs mms mcc => encAck pv rbs sbs mms mcc

def WFrame.frame : WFrame → Frame
  | .chunk t0 t1 t2 fin chan body => .chunk (rawChunk t0 t1 t2 fin chan body)
  | .ack pv rbs sbs mms mcc => .ack pv rbs sbs mms mcc

/-- well-formed and within the receiver's limit -/
def WFrame.wf (o : Opts) : WFrame → Prop
  | .chunk t0 t1 t2 fin chan body =>
    isChunkCode t0 t1 t2 ∧ (fin = 70 ∨ fin = 67 ∨ fin = 65) ∧ 12 + body.length < 4294967296 ∧ chan < 4294967296 ∧
    ¬ (o.maxMsg > 0 ∧ 12 + body.length > o.maxMsg)
  | .ack pv rbs sbs mms mcc =>
    pv < 4294967296 ∧ rbs < 4294967296 ∧ sbs < 4294967296 ∧ mms < 4294967296 ∧ mcc < 4294967296 ∧
    ¬ (o.maxMsg > 0 ∧ 28 > o.maxMsg)

theorem decode_enc (o : Opts) (w : WFrame) (x : Bytes) (h : w.wf o) :
    decodeStep o (w.enc ++ x) = .frame w.frame x := by
  cases w with
  | chunk t0 t1 t2 fin chan body =>
    obtain ⟨a, b, c, d, e⟩ := h
    exact decode_rawChunk o t0 t1 t2 fin chan body x a b c d e
  | ack pv rbs sbs mms mcc =>
    obtain ⟨a, b, c, d, e, f⟩ := h
    exact decode_encAck o pv rbs sbs mms mcc x a b c d e f

theorem drain_encoded (o : Opts) : ∀ (ws : List WFrame), (∀ w ∈ ws, w.wf o) →
    drain o (ws.flatMap WFrame.enc) = (ws.map WFrame.frame, .more []) := by
  intro ws
  induction ws with
  | nil => intro _; simpa using drain_nil o
  | cons w ws ih =>
    intro h
    simp only [List.flatMap_cons, List.map_cons]
    rw [drain_eq, decode_enc o w _ (h w (by simp))]
    simp only
    rw [ih (fun w' hw' => h w' (by simp [hw']))]

/-- **Round trip under any segmentation.** However the concatenated encodings of a sequence of
well-formed chunk / ACK frames are cut into reads (down to single bytes), the framing layer yields
exactly those frames, in order, and is left with an empty buffer and no error. -/
theorem roundtrip_any_segmentation (o : Opts) (ws : List WFrame) (hwf : ∀ w ∈ ws, w.wf o) (segs : List Bytes)
    (h : segs.flatten = ws.flatMap WFrame.enc) :
    feedAll o (some []) segs = (ws.map WFrame.frame, some []) := by
  rw [feedAll_eq o segs [] (drain_nil o)]
  simp only [List.nil_append]
  rw [h, drain_encoded o ws hwf]
  rfl

/-- non-vacuity: an ACK followed by a two-byte-body MSG chunk -/
example : (WFrame.ack 0 8196 8196 0 0).wf ⟨0, 100, true⟩ ∧ (WFrame.chunk 77 83 71 70 1 [1, 2]).wf ⟨0, 100, true⟩ := by
  constructor <;> (simp [WFrame.wf, isChunkCode])


end OpcuaVerif.C11
