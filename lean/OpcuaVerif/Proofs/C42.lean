import OpcuaVerif.Lemmas.C42

/-!
C42 — JSON encoding of the built-in types round-trips (`from_value(to_value(x)) = x`).
Property theorems only; model `OpcuaVerif.Model.C42`, lemmas `OpcuaVerif.Lemmas.C42`.

`cfg = current mask` is the source after the four `fix:` commits; `mask` = union of the defined
StatusCode bits.  `WFVar`/`WFDVal` are the property's quantifier: integer ranges of the variant kinds,
millisecond DateTimes within 1601..9999 (`WFDT`), non-empty NodeId identifiers (`WFNode`), status codes
made of defined bits, ExpandedNodeId with a namespace URI only together with namespace index 0 (the one
`Namespace` slot of the JSON form; recorded finding for URI + index ≠ 0), no arrays (serialisation is an
error; recorded finding), and for every `Float` leaf the shortest-decimal law `floatBody cfg (float32J b) = b` — the
`ryu`/`f64::from_str` codec law for that value, which is an executable, decidable statement (see the
examples) but is not proved for all 2^32 patterns.
-/
namespace OpcuaVerif.C42
open OpcuaVerif.Text OpcuaVerif.C04

/-- UAString: null and every string (incl. the empty one) come back unchanged -/
theorem uastring_json_roundtrip (s : Option (List Char)) : uaStringJ (some (optStrJ s)) = some s := uaString_rt s

/-- ByteString: null and every byte string (incl. the empty one) -/
theorem bytestring_json_roundtrip (b : Option (List Nat)) (h : ∀ x, b = some x → ∀ y ∈ x, y < 256) :
    byteStringFromJ (some (byteStringJ b)) = some b := byteString_rt0 b h

/-- null and empty stay distinct in the JSON form -/
theorem null_empty_distinct :
    uaStringJ (some (optStrJ none)) ≠ uaStringJ (some (optStrJ (some []))) ∧
    byteStringFromJ (some (byteStringJ none)) ≠ byteStringFromJ (some (byteStringJ (some []))) := by decide

theorem guid_json_roundtrip (g : List Nat) (hl : g.length = 16) (hb : ∀ b ∈ g, b < 256) :
    (asStr (Json.str (printGuid g))).bind (fun s => parseGuid (utf8 s)) = some g := by
  simp [asStr, guid_roundtrip g hl hb]

/-- DateTime with millisecond precision, 1601-01-01 .. 9999-12-31T23:59:59 -/
theorem datetime_json_roundtrip (d : DT) (h : WFDT d) : dtFromJ (.str (printDtMillis d)) = some d := by
  simp [dtFromJ, dt_text_roundtrip d h]

theorem status_json_roundtrip (mask c : Nat) (h : c ≤ 4294967295) (hm : c &&& mask = c) :
    statusFromJ mask (natJ c) = some c := status_rt mask c h hm

theorem nodeid_json_roundtrip (n : NodeId) (h : WFNode n) : nodeIdFromJ (nodeIdJ n) = some n := nodeId_rt n h

/-- ExpandedNodeId: every value without namespace URI, and (current source) every value with a
namespace URI and namespace index 0.  PARTIAL only in that the JSON form — like Part 6 — has a single
`Namespace` slot: a URI together with an index ≠ 0 loses the index (`C42_counterexample_expanded_uri_index`). -/
theorem expnodeid_json_roundtrip_partial (uriJson : Bool) (e : ExpNodeId)
    (hu : e.uri = none ∨ (uriJson = true ∧ e.node.ns = 0)) (hs : e.svr ≤ 4294967295)
    (h : WFNode e.node) : expNodeIdFromJ uriJson (expNodeIdJ uriJson e) = some e := expNodeId_rt uriJson e hu hs h

theorem qname_json_roundtrip (q : QName) (h : q.ns ≤ 65535) : qnameFromJ (qnameJ q) = some q := qname_rt q h

theorem ltext_json_roundtrip (l : LText) : ltextFromJ (ltextJ l) = some l := ltext_rt l

/-- Variant (all modelled scalar kinds, nested Variant/DataValue to any depth): whenever the
serialiser returns a tree, the deserialiser maps it back to the same value. PARTIAL in the sense of
`WFVar` (see the module comment): no arrays, no namespace URIs, Float leaves under the codec law. -/
theorem variant_json_roundtrip_partial (cfg : Cfg) (v : Var) (h : WFVar cfg v) (fuel : Nat) (hf : v.depth ≤ fuel)
    (j : Json) (hj : varJ cfg v = .ok j) : varFromJ cfg fuel j = .ok v := var_rt cfg v h fuel hf j hj

theorem datavalue_json_roundtrip_partial (cfg : Cfg) (d : DVal) (h : WFDVal cfg d) (fuel : Nat) (hf : d.depth ≤ fuel)
    (j : Json) (hj : dvalJ cfg d = .ok j) : dvalFromJ cfg fuel j = .ok d := dval_rt cfg d h fuel hf j hj

/-- serialisation of a well-formed Variant never panics and never fails -/
theorem variant_serialises (cfg : Cfg) : ∀ (v : Var), WFVar cfg v → ∃ j, varJ cfg v = .ok j
  | .empty, _ => ⟨_, rfl⟩ | .bool _, _ => ⟨_, rfl⟩ | .sbyte _, _ => ⟨_, rfl⟩ | .byte _, _ => ⟨_, rfl⟩
  | .i16 _, _ => ⟨_, rfl⟩ | .u16 _, _ => ⟨_, rfl⟩ | .i32 _, _ => ⟨_, rfl⟩ | .u32 _, _ => ⟨_, rfl⟩
  | .i64 _, _ => ⟨_, rfl⟩ | .u64 _, _ => ⟨_, rfl⟩ | .float _, _ => ⟨_, rfl⟩ | .double _, _ => ⟨_, rfl⟩
  | .string _, _ => ⟨_, rfl⟩ | .dateTime _, _ => ⟨_, rfl⟩ | .guid _, _ => ⟨_, rfl⟩
  | .byteString _, _ => ⟨_, rfl⟩ | .xml _, _ => ⟨_, rfl⟩ | .nodeId _, _ => ⟨_, rfl⟩
  | .expNodeId _, _ => ⟨_, rfl⟩ | .status _, _ => ⟨_, rfl⟩ | .qname _, _ => ⟨_, rfl⟩ | .ltext _, _ => ⟨_, rfl⟩
  | .variant v, h => by
    obtain ⟨j, hj⟩ := variant_serialises cfg v (by simpa [WFVar] using h)
    exact ⟨variantJ 24 (some j), by simp [varJ, hj, bindJ]⟩
  | .dataValue (.mk (some v) st sts sp vts vp), h => by
    obtain ⟨j, hj⟩ := variant_serialises cfg v (by simp only [WFVar, WFDVal] at h; exact h.1)
    exact ⟨variantJ 23 (some (Json.obj ((kValue, j) :: dvalRest st sts sp vts vp))), by simp [varJ, dvalJ, hj, bindJ]⟩
  | .dataValue (.mk none st sts sp vts vp), _ =>
    ⟨variantJ 23 (some (Json.obj (dvalRest st sts sp vts vp))), by simp [varJ, dvalJ, bindJ]⟩
  | .array, h => by simp [WFVar] at h

/-! ### non-vacuity / the Float codec law on boundary values (executable instance) -/

example : WFVar (current 0xffffffff)
    (.variant (.dataValue (.mk (some (.i64 (-9223372036854775808))) (some 0x80350000) (some ⟨132223104000, 123000000⟩)
      (some 65535) none none))) := by
  simp [WFVar, WFDVal, WFRest, WFDT, current, endSecs]
example : WFVar (current 0) (.float 0x3f800000) := by simp only [WFVar]; decide          -- 1.0
example : WFVar (current 0) (.float 0x3dcccccd) := by simp only [WFVar]; decide          -- 0.1f32
example : WFVar (current 0) (.float 0x00000001) := by simp only [WFVar]; decide          -- smallest subnormal
example : WFVar (current 0) (.float 0x00800000) := by simp only [WFVar]; decide          -- smallest normal (lower gap is half)
example : WFVar (current 0) (.float 0x7f7fffff) := by simp only [WFVar]; decide          -- f32::MAX (after the fix)
example : WFVar (current 0) (.float 0xff7fffff) := by simp only [WFVar]; decide          -- f32::MIN
example : WFVar (current 0) (.float 0x7f800000) := by simp only [WFVar]; decide          -- +inf
example : WFVar (current 0) (.float nan32) := by simp only [WFVar]; decide
example : WFVar (current 0) (.double 0x7fefffffffffffff) := by simp only [WFVar]; decide

/-! ### defects of the pinned source (fixed) -/

/-- pinned: `Variant::Float(f32::MAX)` writes `3.4028235e38`, which read as f64 exceeds `f32::MAX as f64` -/
theorem C42_counterexample_f32max_pinned : floatBody (pinned 0) (some (float32J 0x7f7fffff)) = none := by decide

/-- pinned: `Variant::XmlElement(null)` writes a null body that the deserialiser rejects -/
theorem C42_counterexample_xml_null_pinned :
    (match varJ (pinned 0) (.xml none) with
     | .ok j => (varFromJ (pinned 0) 2 j).isErr
     | _ => false) = true := by decide

/-- pinned: serialising any array variant panicked (directly, nested in a Variant, in a DataValue) -/
theorem C42_counterexample_array_panics_pinned : (varJ (pinned 0) .array).isPanic = true ∧
    (varJ (pinned 0) (.variant .array)).isPanic = true ∧
    (dvalJ (pinned 0) (.mk (some .array) none none none none none)).isPanic = true := by
  decide

/-- pinned: the namespace URI of an ExpandedNodeId was not written: it came back null -/
theorem C42_counterexample_expanded_uri_pinned :
    expNodeIdFromJ false (expNodeIdJ false ⟨⟨0, .numeric 5⟩, some ['u'], 0⟩) = some ⟨⟨0, .numeric 5⟩, none, 0⟩ := by decide

/-! ### recorded findings of the current source -/

/-- array variants still cannot be serialised (an error now, no panic) -/
theorem C42_counterexample_array_not_serialisable : (varJ (current 0) .array).isErr = true ∧
    (varJ (current 0) (.variant .array)).isErr = true ∧
    (dvalJ (current 0) (.mk (some .array) none none none none none)).isErr = true := by
  decide

/-- a namespace URI takes the `Namespace` slot: a namespace index ≠ 0 next to it is lost -/
theorem C42_counterexample_expanded_uri_index :
    expNodeIdFromJ true (expNodeIdJ true ⟨⟨2, .numeric 5⟩, some ['u'], 0⟩) = some ⟨⟨0, .numeric 5⟩, some ['u'], 0⟩ := by decide

example : expNodeIdFromJ true (expNodeIdJ true ⟨⟨0, .numeric 5⟩, some ['u'], 7⟩) = some ⟨⟨0, .numeric 5⟩, some ['u'], 7⟩ := by decide

end OpcuaVerif.C42
