import OpcuaVerif.Model.C40
import OpcuaVerif.Model.SubMDrv

/-!
C40 — Republish and acknowledgement see the same retained notifications.
Property theorems only; the model is `OpcuaVerif.Model.SubM` (+ the map view of `Model.C40`).
-/
namespace OpcuaVerif.C40
open OpcuaVerif.SubM

/-! ### the map view of the three primitive operations -/

theorem lookupR_nil (k : Key) : lookupR [] k = none := rfl

theorem lookupR_cons (e : Key × Msg) (r : RQ) (k : Key) :
    lookupR (e :: r) k = if e.1 = k then some e.2 else lookupR r k := by
  unfold lookupR
  by_cases h : e.1 = k <;> simp [List.find?_cons, h]

/-- sending under key `k` stores exactly that message under `k` and touches no other key -/
theorem insertKey_lookup (k : Key) (m : Msg) (r : RQ) (k' : Key) :
    lookupR (insertKey k m r) k' = if k' = k then some m else lookupR r k' := by
  induction r with
  | nil =>
    by_cases h : k' = k
    · subst h; simp [insertKey, lookupR_cons]
    · have : ¬ k = k' := fun e => h e.symm
      simp [insertKey, lookupR_cons, lookupR_nil, h, this]
  | cons e rest ih =>
    obtain ⟨ke, me⟩ := e
    unfold insertKey
    by_cases h1 : k = ke
    · subst h1
      by_cases h : k' = k
      · subst h; simp [lookupR_cons]
      · have : ¬ k = k' := fun e => h e.symm
        simp [lookupR_cons, h, this]
    · simp only [h1, if_false]
      split
      · by_cases h : k' = k
        · subst h; simp [lookupR_cons]
        · have : ¬ k = k' := fun e => h e.symm
          simp [lookupR_cons, h, this]
      · rw [lookupR_cons, ih, lookupR_cons]
        by_cases h : k' = k
        · subst h
          have : ¬ ke = k' := fun e => h1 e.symm
          simp [this]
        · simp [h]

theorem lookupR_filter_ne (r : RQ) (a k : Key) :
    lookupR (r.filter (fun e => e.1 ≠ a)) k = if k = a then none else lookupR r k := by
  induction r with
  | nil => simp [lookupR_nil]
  | cons e rest ih =>
    by_cases h : e.1 = a
    · have : (e :: rest).filter (fun e => e.1 ≠ a) = rest.filter (fun e => e.1 ≠ a) := by
        simp [List.filter_cons, h]
      rw [this, ih, lookupR_cons]
      by_cases hk : k = a
      · simp [hk]
      · have : ¬ e.1 = k := by rw [h]; exact fun e => hk e.symm
        simp [hk, this]
    · have : (e :: rest).filter (fun e => e.1 ≠ a) = e :: rest.filter (fun e => e.1 ≠ a) := by
        simp [List.filter_cons, h]
      rw [this, lookupR_cons, ih, lookupR_cons]
      by_cases hk : k = a
      · subst hk; simp [h]
      · simp [hk]

theorem any_key_iff (r : RQ) (a : Key) : r.any (fun e => e.1 = a) = (lookupR r a).isSome := by
  induction r with
  | nil => rfl
  | cons e rest ih =>
    rw [lookupR_cons]
    by_cases h : e.1 = a <;> simp [List.any_cons, h, ih]

/-- **One acknowledgement, as a map operation**: the result is `Good` exactly when the subscription
exists and the key is retained (= what Republish would find), `BadSequenceNumberUnknown` when the
subscription exists and the key is not retained, `BadSubscriptionIdInvalid` otherwise. -/
theorem ackOne_result (subs : List Subn) (r : RQ) (a : Key) :
    (ackOne subs r a).2 =
      if hasSub subs a.1 = true then (if (lookupR r a).isSome then .good else .seqUnknown) else .subInvalid := by
  unfold ackOne
  rw [any_key_iff]
  by_cases h : hasSub subs a.1 = true <;> by_cases h2 : (lookupR r a).isSome = true <;> simp [h, h2]

/-- … and its effect: the acknowledged key (if its subscription exists) is gone, every other key keeps
its message. -/
theorem ackOne_lookup (subs : List Subn) (r : RQ) (a k : Key) :
    lookupR (ackOne subs r a).1 k = if k = a ∧ hasSub subs a.1 = true then none else lookupR r k := by
  unfold ackOne
  rw [any_key_iff]
  by_cases h : hasSub subs a.1 = true
  · by_cases h2 : (lookupR r a).isSome = true
    · simp only [h, h2, if_true, lookupR_filter_ne]
      by_cases hk : k = a <;> simp [hk]
    · simp only [h, h2, if_true]
      by_cases hk : k = a
      · subst hk
        have : lookupR r k = none := by
          cases hl : lookupR r k with
          | none => rfl
          | some x => rw [hl] at h2; simp at h2
        simp [this]
      · simp [hk]
  · simp [h]

/-- `ack_good_removes`: after an acknowledgement with result Good the notification is no longer
available, and no other notification is affected. -/
theorem ack_good_removes (subs : List Subn) (r : RQ) (a : Key) (h : (ackOne subs r a).2 = .good) :
    lookupR (ackOne subs r a).1 a = none ∧ ∀ k, k ≠ a → lookupR (ackOne subs r a).1 k = lookupR r k := by
  rw [ackOne_result] at h
  have hs : hasSub subs a.1 = true := by
    by_cases hs : hasSub subs a.1 = true
    · exact hs
    · simp [hs] at h
  refine ⟨by rw [ackOne_lookup]; simp [hs], fun k hk => by rw [ackOne_lookup]; simp [hk]⟩

/-- `ack_unknown_noop`: acknowledging an unknown sequence number (or an unknown subscription) reports
it and changes nothing. -/
theorem ack_unknown_noop (subs : List Subn) (r : RQ) (a : Key) (h : (ackOne subs r a).2 ≠ .good) :
    (ackOne subs r a).1 = r := by
  unfold ackOne at h ⊢
  by_cases hs : hasSub subs a.1 = true
  · by_cases h2 : r.any (fun e => e.1 = a) = true
    · simp [hs, h2] at h
    · simp [hs, h2]
  · simp [hs]

theorem ack_unknown_reported (subs : List Subn) (r : RQ) (a : Key) (hs : hasSub subs a.1 = true)
    (hn : lookupR r a = none) : (ackOne subs r a).2 = .seqUnknown := by
  rw [ackOne_result]; simp [hs, hn]

/-- `ack_results_aligned`: one result per acknowledgement, in order. -/
theorem ack_results_aligned (subs : List Subn) (r : RQ) (as : List Key) :
    (ackAll subs r as).2.length = as.length := by
  induction as generalizing r with
  | nil => rfl
  | cons a as ih => simp [ackAll, ih]

/-- the list of acknowledgements of one request, as a map operation -/
theorem ackAll_lookup (subs : List Subn) (r : RQ) (as : List Key) (k : Key) :
    lookupR (ackAll subs r as).1 k = if k ∈ as ∧ hasSub subs k.1 = true then none else lookupR r k := by
  induction as generalizing r with
  | nil => simp [ackAll]
  | cons a as ih =>
    simp only [ackAll]
    rw [ih, ackOne_lookup]
    by_cases h1 : k ∈ as ∧ hasSub subs k.1 = true
    · have : k ∈ a :: as ∧ hasSub subs k.1 = true := ⟨List.mem_cons_of_mem _ h1.1, h1.2⟩
      simp [h1, this]
    · by_cases h2 : k = a
      · subst h2
        by_cases hs : hasSub subs k.1 = true
        · simp [hs]
        · simp [hs]
      · have : (k ∈ a :: as ∧ hasSub subs k.1 = true) ↔ (k ∈ as ∧ hasSub subs k.1 = true) := by
          simp [List.mem_cons, h2]
        simp [h1, h2]

/-- the results of a request, position by position: the head is decided on the current queue, the
tail on the queue after the head was processed -/
theorem ackAll_cons (subs : List Subn) (r : RQ) (a : Key) (as : List Key) :
    (ackAll subs r (a :: as)).2 = (ackOne subs r a).2 :: (ackAll subs (ackOne subs r a).1 as).2 := rfl

/-- a duplicate acknowledgement inside one request is never `Good` the second time -/
theorem ack_duplicate_not_good (subs : List Subn) (r : RQ) (a : Key) (as : List Key) :
    (ackAll subs r (a :: as ++ [a])).2.getLast? ≠ some .good := by
  have happ : ∀ (xs : List Key) (r : RQ) (b : Key),
      (ackAll subs r (xs ++ [b])).2.getLast? = some (ackOne subs (ackAll subs r xs).1 b).2 := by
    intro xs
    induction xs with
    | nil => intro r b; simp [ackAll]
    | cons x xs ih =>
      intro r b
      have := ih (ackOne subs r x).1 b
      simp only [List.cons_append, ackAll]
      rw [List.getLast?_cons, this]; simp
  have := happ (a :: as) r a
  simp only [List.cons_append] at this ⊢
  rw [this, ackOne_result, ackAll_lookup]
  by_cases hs : hasSub subs a.1 = true <;> simp [hs]

/-! ### Republish -/

/-- `find_notification_message` is the map lookup, guarded by the existence of the subscription:
Republish and acknowledgement look at the same map. -/
theorem find_iff_lookup (subs : List Subn) (r : RQ) (sid seq : Nat) :
    findMsg subs r sid seq =
      if hasSub subs sid = true then
        (match lookupR r (sid, seq) with | some m => .ok m | none => .notAvailable)
      else .subInvalid := by
  unfold findMsg lookupR
  by_cases h : hasSub subs sid = true
  · simp only [h, if_true]
    cases List.find? (fun e => e.1 = (sid, seq)) r <;> rfl
  · simp [h]

/-- an acknowledgement is `Good` exactly when Republish would have found the message -/
theorem ack_good_iff_republishable (subs : List Subn) (r : RQ) (sid seq : Nat) :
    (ackOne subs r (sid, seq)).2 = .good ↔ ∃ m, findMsg subs r sid seq = .ok m := by
  rw [ackOne_result, find_iff_lookup]
  by_cases h : hasSub subs sid = true
  · cases hl : lookupR r (sid, seq) <;> simp [h]
  · simp [h]

/-! ### cleanup only removes -/

theorem lookupR_filter_sub (r : RQ) (p : Key × Msg → Bool) (k : Key) (m : Msg)
    (h : lookupR (r.filter p) k = some m) : lookupR r k = some m ∨ ∃ m', lookupR r k = some m' := by
  induction r with
  | nil => simp [lookupR_nil] at h
  | cons e rest ih =>
    rw [lookupR_cons]
    by_cases he : e.1 = k
    · right; exact ⟨e.2, by simp [he]⟩
    · simp only [he, if_false]
      by_cases hp : p e = true
      · rw [List.filter_cons_of_pos hp, lookupR_cons] at h
        simp only [he, if_false] at h
        exact ih h
      · rw [List.filter_cons_of_neg hp] at h
        exact ih h

/-- membership view, enough for "cleanup only removes and never alters" without a sortedness invariant -/
theorem mem_filter_drop (r : RQ) (p : Key × Msg → Bool) (n : Nat) (e : Key × Msg)
    (h : e ∈ (r.filter p).drop n) : e ∈ r :=
  (List.mem_filter.mp (List.mem_of_mem_drop h)).1

theorem cleanup_mem (subs : List Subn) (r : RQ) (e : Key × Msg) (h : e ∈ cleanup subs r) : e ∈ r := by
  unfold cleanup at h
  simp only [] at h
  split at h
  · exact mem_filter_drop _ _ _ _ h
  · exact (List.mem_filter.mp h).1

theorem cleanup_bound (subs : List Subn) (r : RQ) : (cleanup subs r).length ≤ max r.length (subs.length * 2 * 2) := by
  unfold cleanup
  simp only []
  split
  · rename_i h; simp only [List.length_drop]; omega
  · have := List.length_filter_le (fun e : Key × Msg => hasSub subs e.1.1) r
    omega

/-- after a cleanup nothing of a deleted subscription is retained and the queue is within its limit
(two entries per allowed publish request) -/
theorem cleanup_spec (subs : List Subn) (r : RQ) :
    (∀ e ∈ cleanup subs r, hasSub subs e.1.1 = true) ∧ (cleanup subs r).length ≤ subs.length * 2 * 2 := by
  unfold cleanup
  simp only []
  split
  · rename_i h
    refine ⟨fun e he => ?_, by simp only [List.length_drop]; omega⟩
    have := List.mem_of_mem_drop he
    simpa using (List.mem_filter.mp this).2
  · rename_i h
    refine ⟨fun e he => by simpa using (List.mem_filter.mp he).2, by omega⟩

/-- when the queue is within its limit, cleanup keeps every notification of a live subscription -/
theorem cleanup_keeps (subs : List Subn) (r : RQ) (h : r.length ≤ subs.length * 2 * 2) (k : Key)
    (hs : hasSub subs k.1 = true) : lookupR (cleanup subs r) k = lookupR r k := by
  unfold cleanup
  simp only []
  rw [if_neg (Nat.not_lt.mpr (Nat.le_trans (List.length_filter_le _ _) h))]
  induction r with
  | nil => rfl
  | cons e rest ih =>
    by_cases hp : hasSub subs e.1.1 = true
    · rw [List.filter_cons_of_pos (by simpa using hp), lookupR_cons, lookupR_cons]
      have := ih (by simp at h; omega)
      rw [this]
    · rw [List.filter_cons_of_neg (by simpa using hp), lookupR_cons]
      have hne : ¬ e.1 = k := by intro he; rw [he] at hp; exact hp hs
      simp only [hne, if_false]
      exact ih (by simp at h; omega)

/-! ### histories -/

/-- key order of the `BTreeMap<(u32, u32), _>` -/
def klt (a b : Key) : Prop := a.1 < b.1 ∨ (a.1 = b.1 ∧ a.2 < b.2)

theorem klt_trans {a b c : Key} (h1 : klt a b) (h2 : klt b c) : klt a c := by
  unfold klt at *; omega

theorem klt_irrefl (a : Key) : ¬ klt a a := by unfold klt; omega

theorem klt_total (a b : Key) : a = b ∨ klt a b ∨ klt b a := by
  unfold klt
  by_cases h : a = b
  · exact Or.inl h
  · right
    have : a.1 ≠ b.1 ∨ a.2 ≠ b.2 := by
      by_cases h1 : a.1 = b.1
      · right; intro h2; exact h (Prod.ext h1 h2)
      · left; exact h1
    omega

/-- the invariant of the retransmission queue: keys strictly ascending (hence unique) -/
def Sorted (r : RQ) : Prop := r.Pairwise (fun a b => klt a.1 b.1)

theorem lookupR_of_mem (r : RQ) (hs : Sorted r) (e : Key × Msg) (h : e ∈ r) : lookupR r e.1 = some e.2 := by
  induction r with
  | nil => cases h
  | cons x rest ih =>
    unfold Sorted at hs ih
    rw [List.pairwise_cons] at hs
    rw [lookupR_cons]
    rcases List.mem_cons.mp h with rfl | h'
    · simp
    · have : ¬ x.1 = e.1 := by
        intro hx
        have := hs.1 e h'
        rw [hx] at this
        exact klt_irrefl _ this
      simp only [this, if_false]
      exact ih hs.2 h'

theorem mem_of_lookupR (r : RQ) (k : Key) (m : Msg) (h : lookupR r k = some m) : (k, m) ∈ r := by
  induction r with
  | nil => simp [lookupR_nil] at h
  | cons x rest ih =>
    rw [lookupR_cons] at h
    by_cases hx : x.1 = k
    · simp only [hx, if_true] at h
      cases h
      exact List.mem_cons.mpr (Or.inl (by cases x; simp_all))
    · simp only [hx, if_false] at h
      exact List.mem_cons_of_mem _ (ih h)

theorem cleanup_sublist (subs : List Subn) (r : RQ) : (cleanup subs r).Sublist r := by
  unfold cleanup
  simp only []
  split
  · exact (List.drop_sublist _ _).trans List.filter_sublist
  · exact List.filter_sublist

/-- cleanup never alters a retained message: what is found afterwards was there before -/
theorem cleanup_lookup_sub (subs : List Subn) (r : RQ) (hs : Sorted r) (k : Key) (m : Msg)
    (h : lookupR (cleanup subs r) k = some m) : lookupR r k = some m :=
  lookupR_of_mem r hs (k, m) ((cleanup_sublist subs r).subset (mem_of_lookupR _ _ _ h))

theorem ackOne_sublist (subs : List Subn) (r : RQ) (a : Key) : (ackOne subs r a).1.Sublist r := by
  unfold ackOne
  split
  · split
    · exact List.filter_sublist
    · exact List.Sublist.refl _
  · exact List.Sublist.refl _

theorem ackAll_sublist (subs : List Subn) (r : RQ) (as : List Key) : (ackAll subs r as).1.Sublist r := by
  induction as generalizing r with
  | nil => exact List.Sublist.refl _
  | cons a as ih => exact (ih _).trans (ackOne_sublist subs r a)

theorem insertKey_mem (k : Key) (m : Msg) (r : RQ) (e : Key × Msg) (h : e ∈ insertKey k m r) :
    e = (k, m) ∨ e ∈ r := by
  induction r with
  | nil => simpa [insertKey] using h
  | cons x rest ih =>
    obtain ⟨kx, mx⟩ := x
    unfold insertKey at h
    by_cases h1 : k = kx
    · simp only [h1, if_true] at h
      rcases List.mem_cons.mp h with h | h
      · left; rw [h, h1]
      · right; exact List.mem_cons_of_mem _ h
    · simp only [h1, if_false] at h
      split at h
      · rcases List.mem_cons.mp h with h | h
        · exact Or.inl h
        · exact Or.inr h
      · rcases List.mem_cons.mp h with h | h
        · right; rw [h]; exact List.mem_cons_self
        · rcases ih h with h | h
          · exact Or.inl h
          · exact Or.inr (List.mem_cons_of_mem _ h)

theorem insertKey_sorted (k : Key) (m : Msg) (r : RQ) (hs : Sorted r) : Sorted (insertKey k m r) := by
  induction r with
  | nil => simp [insertKey, Sorted]
  | cons x rest ih =>
    obtain ⟨kx, mx⟩ := x
    unfold Sorted at hs ih ⊢
    rw [List.pairwise_cons] at hs
    unfold insertKey
    by_cases h1 : k = kx
    · simp only [h1, if_true]
      rw [List.pairwise_cons]
      exact ⟨hs.1, hs.2⟩
    · simp only [h1, if_false]
      split
      · rename_i hlt
        rw [List.pairwise_cons]
        refine ⟨fun e he => ?_, List.pairwise_cons.mpr hs⟩
        have hk : klt k kx := hlt
        rcases List.mem_cons.mp he with rfl | he
        · exact hk
        · exact klt_trans hk (hs.1 e he)
      · rename_i hnlt
        rw [List.pairwise_cons]
        refine ⟨fun e he => ?_, ih hs.2⟩
        rcases insertKey_mem k m rest e he with rfl | he
        · rcases klt_total k kx with h | h | h
          · exact absurd h h1
          · exact absurd h hnlt
          · exact h
        · exact hs.1 e he

theorem rstep_sorted (r : RQ) (op : ROp) (hs : Sorted r) : Sorted (rstep r op) := by
  cases op with
  | send k m => exact insertKey_sorted k m r hs
  | acks subs as => exact List.Pairwise.sublist (ackAll_sublist subs r as) hs
  | clean subs => exact List.Pairwise.sublist (cleanup_sublist subs r) hs

theorem rrun_sorted (r : RQ) (ops : List ROp) (hs : Sorted r) : Sorted (rrun r ops) := by
  induction ops generalizing r with
  | nil => exact hs
  | cons op ops ih => exact ih _ (rstep_sorted r op hs)

/-- one step never replaces the message under `k` by another one, unless it is a send under `k` -/
theorem rstep_same_or_gone (r : RQ) (hs : Sorted r) (op : ROp) (k : Key) (hk : ∀ m, op ≠ .send k m)
    (m' : Msg) (h : lookupR (rstep r op) k = some m') : lookupR r k = some m' := by
  cases op with
  | send k2 m2 =>
    simp only [rstep, insertKey_lookup] at h
    by_cases h2 : k = k2
    · exact absurd (by rw [h2]) (hk m2)
    · simpa [h2] using h
  | acks subs as =>
    simp only [rstep, ackAll_lookup] at h
    by_cases hc : k ∈ as ∧ hasSub subs k.1 = true
    · simp [hc] at h
    · simpa [hc] using h
  | clean subs => exact cleanup_lookup_sub subs r hs k m' h

/-- **`republish_identical`** over every history: whatever the session does to the retransmission
queue after a notification `m` was sent under key `k` (further sends under other keys,
acknowledgements — valid, duplicate, unknown —, purges, evictions), a later Republish of `k` either
finds nothing or finds exactly `m`. -/
theorem republish_identical (r : RQ) (hs : Sorted r) (k : Key) (m : Msg) (ops : List ROp)
    (hk : ∀ op ∈ ops, ∀ m2, op ≠ .send k m2) (m' : Msg)
    (h : lookupR (rrun (insertKey k m r) ops) k = some m') : m' = m := by
  have hgen : ∀ (ops : List ROp) (r0 : RQ), Sorted r0 → (∀ op ∈ ops, ∀ m2, op ≠ .send k m2) →
      lookupR (rrun r0 ops) k = some m' → lookupR r0 k = some m' := by
    intro ops
    induction ops with
    | nil => intro r0 _ _ h; exact h
    | cons op ops ih =>
      intro r0 hs0 hk0 h
      have h1 := ih (rstep r0 op) (rstep_sorted r0 op hs0)
        (fun o ho => hk0 o (List.mem_cons_of_mem _ ho)) h
      exact rstep_same_or_gone r0 hs0 op k (hk0 op List.mem_cons_self) m' h1
  have := hgen ops (insertKey k m r) (insertKey_sorted k m r hs) hk h
  rw [insertKey_lookup] at this
  simpa using this.symm

/-- **`republish_identical_until`**: the notification stays available, unchanged, for as long as no
op of the history touches its key — i.e. until it is acknowledged (with its subscription existing),
evicted/purged by a cleanup, or replaced. -/
theorem republish_identical_until (r : RQ) (hs : Sorted r) (k : Key) (m : Msg) (ops : List ROp)
    (h0 : lookupR r k = some m) (hu : untouched k r ops) : lookupR (rrun r ops) k = some m := by
  induction ops generalizing r with
  | nil => exact h0
  | cons op ops ih =>
    obtain ⟨hnt, hrest⟩ := hu
    refine ih (rstep r op) (rstep_sorted r op hs) ?_ hrest
    cases op with
    | send k2 m2 =>
      simp only [touches] at hnt
      simp only [rstep, insertKey_lookup]
      have : ¬ k = k2 := fun e => hnt e.symm
      simp [this, h0]
    | acks subs as =>
      simp only [touches] at hnt
      simp only [rstep, ackAll_lookup]
      simp [hnt, h0]
    | clean subs =>
      simp only [touches] at hnt
      simp only [rstep]
      cases hc : lookupR (cleanup subs r) k with
      | none => exact absurd hc hnt
      | some m2 =>
        have := cleanup_lookup_sub subs r hs k m2 hc
        rw [h0] at this
        rw [this]

/-! ### the pipeline keeps the invariant and retains what it sends -/

theorem transmit_sorted (trans : List (Nat × Req × Msg)) (ss : Sess) (hs : Sorted ss.retrans) :
    Sorted (transmit trans ss).retrans := by
  induction trans generalizing ss with
  | nil => exact hs
  | cons t rest ih =>
    obtain ⟨sid, rq, m⟩ := t
    simp only [transmit]
    exact ih _ (insertKey_sorted _ _ _ hs)

/-- every notification handed to a publish response is in the retransmission queue afterwards,
under (subscription id, sequence number), provided the batch does not reuse a key -/
theorem transmit_retains (trans : List (Nat × Req × Msg)) (ss : Sess)
    (hd : (trans.map fun t => (t.1, t.2.2.seq)).Nodup) :
    ∀ t ∈ trans, lookupR (transmit trans ss).retrans (t.1, t.2.2.seq) = some t.2.2 := by
  induction trans generalizing ss with
  | nil => intro t ht; cases ht
  | cons t0 rest ih =>
    obtain ⟨sid, rq, m⟩ := t0
    simp only [List.map_cons, List.nodup_cons] at hd
    have hpres : ∀ (l : List (Nat × Req × Msg)) (s : Sess) (k : Key),
        k ∉ l.map (fun t => (t.1, t.2.2.seq)) →
        lookupR (transmit l s).retrans k = lookupR s.retrans k := by
      intro l
      induction l with
      | nil => intro s k _; rfl
      | cons x xs ihx =>
        intro s k hk
        obtain ⟨sx, rx, mx⟩ := x
        simp only [List.map_cons, List.mem_cons, not_or] at hk
        simp only [transmit]
        rw [ihx _ k hk.2]
        simp only [insertKey_lookup]
        simp [hk.1]
    intro t ht
    rcases List.mem_cons.mp ht with rfl | ht
    · simp only [transmit]
      rw [hpres rest _ _ hd.1, insertKey_lookup]
      simp
    · simp only [transmit]
      exact ih _ hd.2 t ht

/-! ### the session applies only these operations -/

theorem visit_retrans (c : Cfg) (t : Bool) (ids : List Nat) (ss ss' : Sess)
    (trans trans' : List (Nat × Req × Msg)) (h : visit c t ids ss trans = .ok (ss', trans')) :
    ss'.retrans = ss.retrans := by
  induction ids generalizing ss trans with
  | nil => simp only [visit] at h; cases h; rfl
  | cons id ids ih =>
    simp only [visit] at h
    split at h
    · cases h
    · split at h
      · cases h
      · have := ih _ _ h
        simpa using this

theorem transmit_rrun (trans : List (Nat × Req × Msg)) (ss : Sess) :
    (transmit trans ss).retrans = rrun ss.retrans (trans.map fun t => ROp.send (t.1, t.2.2.seq) t.2.2) := by
  induction trans generalizing ss with
  | nil => rfl
  | cons t rest ih =>
    obtain ⟨sid, rq, m⟩ := t
    simp only [transmit, List.map_cons, rrun, List.foldl_cons, rstep]
    exact ih _

theorem rrun_append (r : RQ) (a b : List ROp) : rrun r (a ++ b) = rrun (rrun r a) b := by
  simp [rrun, List.foldl_append]

/-- **The session only ever applies `ROp`s to the retransmission queue**: a tick is a batch of sends
followed by one cleanup. -/
theorem sessTick_rrun (c : Cfg) (t : Bool) (ss ss' : Sess) (h : sessTick c t ss = .ok ss') :
    ∃ ops, ss'.retrans = rrun ss.retrans ops := by
  unfold sessTick at h
  split at h
  · cases h
  · rename_i s1 trans hv
    cases h
    refine ⟨(trans.map fun t => ROp.send (t.1, t.2.2.seq) t.2.2) ++ [.clean (transmit trans s1).subs], ?_⟩
    rw [rrun_append, ← visit_retrans c t _ ss s1 [] trans hv, ← transmit_rrun]
    rfl

theorem publish_rrun (c : Cfg) (ss ss' : Sess) (rid : Nat) (acks : Option (List Key)) (res : PubRes)
    (h : publish c ss rid acks = .ok (ss', res)) : ∃ ops, ss'.retrans = rrun ss.retrans ops := by
  unfold publish at h
  split at h
  · cases h; exact ⟨[], rfl⟩
  · simp only [] at h
    split at h
    · cases h
    · rename_i s1 hpre
      have h1 : ∃ ops, s1.retrans = rrun ss.retrans ops := by
        split at hpre
        · exact sessTick_rrun c false ss s1 hpre
        · cases hpre; exact ⟨[], rfl⟩
      obtain ⟨ops1, e1⟩ := h1
      split at h
      · cases h; exact ⟨ops1, e1⟩
      · split at h
        · cases h
        · rename_i s2 ht
          cases h
          obtain ⟨ops2, e2⟩ := sessTick_rrun c false _ _ ht
          cases acks with
          | none =>
            refine ⟨ops1 ++ ops2, ?_⟩
            rw [rrun_append, ← e1]; simpa using e2
          | some as =>
            refine ⟨ops1 ++ [.acks s1.subs as] ++ ops2, ?_⟩
            rw [rrun_append, rrun_append, ← e1]; simpa [rrun, rstep] using e2

/-- hence the key-order invariant (unique keys) holds along every session history -/
theorem sessTick_sorted (c : Cfg) (t : Bool) (ss ss' : Sess) (h : sessTick c t ss = .ok ss')
    (hs : Sorted ss.retrans) : Sorted ss'.retrans := by
  obtain ⟨ops, e⟩ := sessTick_rrun c t ss ss' h
  rw [e]; exact rrun_sorted _ _ hs

theorem publish_sorted (c : Cfg) (ss ss' : Sess) (rid : Nat) (acks : Option (List Key)) (res : PubRes)
    (h : publish c ss rid acks = .ok (ss', res)) (hs : Sorted ss.retrans) : Sorted ss'.retrans := by
  obtain ⟨ops, e⟩ := publish_rrun c ss ss' rid acks res h
  rw [e]; exact rrun_sorted _ _ hs

/-- the Republish service answers from the same map and does not change it -/
theorem republish_spec (ss : Sess) (sid seq : Nat) :
    (republish ss sid seq).2 = findMsg ss.subs ss.retrans sid seq ∧ (republish ss sid seq).1.retrans = ss.retrans := by
  unfold republish
  cases findMsg ss.subs ss.retrans sid seq <;> simp

/-! ### non-vacuity and the recorded finding -/

def m1 : Msg := { seq := 1, time := 1, body := .keepAlive }
def m2 : Msg := { seq := 2, time := 2, body := .data [{ handle := 1, value := 7, overflow := false }] }
def subs1 : List Subn := (createSub (init []) 0 1 2 6 true).1.subs

instance (k : Key) (r : RQ) (op : ROp) : Decidable (touches k r op) := by
  cases op <;> (unfold touches; infer_instance)

instance decUntouched (k : Key) : (r : RQ) → (ops : List ROp) → Decidable (untouched k r ops)
  | _, [] => isTrue trivial
  | r, op :: ops => by
    unfold untouched
    exact @instDecidableAnd _ _ _ (decUntouched k (rstep r op) ops)

/-- a history satisfying `untouched`: send (1,1), send (1,2), acknowledge (1,2) and an unknown key, clean -/
example : untouched (1, 1) (insertKey (1, 1) m1 [])
    [.send (1, 2) m2, .acks subs1 [(1, 2), (1, 9)], .clean subs1] := by decide +kernel

example : lookupR (rrun (insertKey (1, 1) m1 [])
    [.send (1, 2) m2, .acks subs1 [(1, 2), (1, 9)], .clean subs1]) (1, 1) = some m1 := by decide +kernel

example : (ackAll subs1 (insertKey (1, 2) m2 (insertKey (1, 1) m1 [])) [(1, 2), (1, 2), (1, 9), (5, 1)]).2
    = [.good, .seqUnknown, .seqUnknown, .subInvalid] := by decide +kernel

instance (a b : Key) : Decidable (klt a b) := by unfold klt; infer_instance

example : Sorted (insertKey (1, 2) m2 (insertKey (2, 1) m1 (insertKey (1, 1) m1 []))) := by
  unfold Sorted; decide +kernel

/-- the model run of `corpus/C40/expired-with-notification.ops` under a source variant -/
def expiredWitness (c : Cfg) : Outcome Sess :=
  let s0 := init [(1, 0)]
  let s1 := (createSub s0 255 1 2 6 true).1
  let s2 := (createItem s1 5 1 1 1 3 true .reporting none).1
  match publish c s2 1 (some [(1, 2)]) with
  | .panic => .panic
  | .ok (s3, _) =>
    let tick := fun (o : Outcome Sess) (dt : Nat) => match o with
      | .ok s => timer c s dt
      | .panic => .panic
    let o := [1, 1, 1, 1, 1].foldl tick (.ok s3)
    match o with
    | .ok s => timer c (write s 1 3) 6
    | .panic => .panic

/-- **Repaired finding** (outside the C40 statement, repaired by the C22/C26 slice): before that fix, a
subscription expiring on a tick on which its monitored items have data made `handle_state_result`
panic. -/
theorem C40_counterexample_expired_with_notification : expiredWitness preExpiryFix = .panic := by
  decide +kernel

/-- with the integrated source the same history closes the subscription normally -/
theorem expired_with_notification_repaired : expiredWitness current ≠ .panic := by decide +kernel

end OpcuaVerif.C40
