import OpcuaVerif.Model.C22
import OpcuaVerif.Lemmas.C22
import OpcuaVerif.Generated.C22Rows
import OpcuaVerif.Lemmas.C22Rows

/-!
C22 — Keep-alives keep flowing and idle subscriptions expire on time.
Property theorems only.  Model: `OpcuaVerif.Model.C22`; evaluation lemmas: `Lemmas/C22.lean`.

A history is a list of operations on a session that owns one subscription: timer ticks (with the
flag "the publishing interval elapsed" and "the monitored variable was written just before") and
arriving publish requests.  The ghost record counts publishing intervals.
-/
namespace OpcuaVerif.C22

inductive Op where
  | timer (elapsed write : Bool)
  | publish (rid : Nat)
deriving Repr, DecidableEq

/-- one operation; `none` = the implementation panicked -/
def step (z : Sess) : Op → Option (Sess × List Resp)
  | .timer e w => sessTick (if w then write z else z) true e
  | .publish r =>
    match publish z r with
    | .ok z' out => some (z', out)
    | .tooMany z' out => some (z', out)
    | .panic => none

/-- does this operation complete a publishing interval?  (The tick that leaves state Creating
starts the clock and is not counted.) -/
def counted (z : Sess) : Op → Bool
  | .timer e _ =>
    match z.sub with
    | some s => e && decide (s.state ≠ .creating)
    | none => false
  | .publish _ => false

def hasKa (out : List Resp) : Bool := out.any fun r => decide (r.2.1 = Msg.keepAlive)

/-- ghost counters: `n` publishing intervals since the subscription started, `gap` of them since
the last keep-alive response -/
structure Ghost where
  n : Nat
  gap : Nat
deriving Repr, DecidableEq

def gnext (g : Ghost) (z : Sess) (op : Op) (out : List Resp) : Ghost :=
  { n := if counted z op then g.n + 1 else g.n
    gap := if hasKa out then 0 else if counted z op then g.gap + 1 else g.gap }

/-- run a history; returns the final session, the ghost counters and all responses in order -/
def run : Sess → Ghost → List Op → Option (Sess × Ghost × List Resp)
  | z, g, [] => some (z, g, [])
  | z, g, op :: ops =>
    match step z op with
    | none => none
    | some (z', out) =>
      match run z' (gnext g z op out) ops with
      | none => none
      | some (z'', g', outs) => some (z'', g', out ++ outs)

/-- a fresh session: `Subscription::new`, no publish request yet -/
def start (maxLife maxKa : Nat) (enabled hasItem : Bool) : Sess :=
  { sub := some (mk maxLife maxKa enabled hasItem), reqs := [] }

/-! ### Regime 1: publish requests always available, no data changes -/

/-- "publish requests always available and no data changes": at every timer tick a request is
queued, and the variable is never written -/
def ServedIdle : Sess → List Op → Prop
  | _, [] => True
  | z, op :: ops =>
    (match op with
      | .timer _ w => w = false ∧ z.reqs ≠ []
      | .publish _ => True) ∧
    ∀ z' out, step z op = some (z', out) → ServedIdle z' ops

variable (K L : Nat)

/-- intervals until the next keep-alive is due -/
def due (s : Subn) : Nat :=
  match s.state with
  | .creating => 1
  | .normal => if s.sent then s.maxKa + 1 else 1
  | .keepAlive => s.ka
  | _ => 0

/-- the invariant of regime 1 (`gap` = intervals since the last keep-alive, `n` = intervals since
the subscription started) -/
def IdleInv (s : Subn) (gap n : Nat) : Prop :=
  (n = 0 → s.state = .creating ∨ (s.state = .normal ∧ s.sent = false)) ∧
  (s.maxKa = K ∧ s.maxLife = L) ∧
  (s.state = .creating ∨ s.state = .normal ∨ s.state = .keepAlive) ∧
  s.notifs = [] ∧ s.pending = false ∧ s.seq = succ32 s.lastSeq ∧
  1 ≤ s.maxKa ∧ s.maxKa + 3 ≤ s.maxLife ∧
  (s.state = .keepAlive → 1 ≤ s.ka ∧ s.ka ≤ s.maxKa) ∧
  gap + due s ≤ s.maxKa + 1 ∧
  s.maxLife + due s ≤ s.life + s.maxKa + 2

def SessInv (z : Sess) (g : Ghost) : Prop := ∃ s, z.sub = some s ∧ IdleInv K L s g.gap g.n

theorem pairLoop_nil (rs : List Nat) : pairLoop rs [] = ([], rs, []) := by
  cases rs <;> rfl

theorem pairLoop_one (r : Nat) (rs : List Nat) (m : Msg × Nat) :
    pairLoop (r :: rs) [m] = ([(r, m.1, m.2)], rs, []) := by
  simp [pairLoop, pairLoop_nil]

theorem clear_notifs_eq (s : Subn) (h : s.notifs = []) : { s with notifs := [] } = s := by
  cases s; simp_all

/-- One timer tick of the subscription with a request queued keeps the invariant; it either emits
nothing and the gap grows by the interval it counted, or (rows #7 and #15) emits exactly one
keep-alive and the gap restarts. -/
theorem subTick_served (s : Subn) (g n : Nat) (e : Bool) (h : IdleInv K L s g n) :
    ∃ s', subTick s true e true = some s' ∧
      ((s'.notifs = [] ∧ (n = 0 → (e && decide (s.state ≠ .creating)) = false) ∧
          IdleInv K L s' (if e && decide (s.state ≠ .creating) then g + 1 else g)
            (if e && decide (s.state ≠ .creating) then n + 1 else n)) ∨
       (∃ k, s'.notifs = [(.keepAlive, k)] ∧ (e && decide (s.state ≠ .creating)) = true ∧
          IdleInv K L { s' with notifs := [] } 0 (n + 1))) := by
  obtain ⟨n0, hKL, st, nq, np, sq, ka1, lf, kab, gp, lb⟩ := h
  rcases st with st | st | st
  · -- Creating: row #3
    refine ⟨_, tick_creating s true e true st nq (Or.inr rfl), Or.inl ⟨nq, by simp [st], ?_⟩⟩
    simp only [st, ne_eq, not_true_eq_false, decide_false, Bool.and_false, Bool.false_eq_true,
      if_false]
    simp [due, st] at gp lb
    refine ⟨fun _ => Or.inr ⟨rfl, rfl⟩, hKL, Or.inr (Or.inl rfl), nq, np, sq, ka1, lf, by simp, ?_, ?_⟩ <;>
      simp [due] <;> omega
  · -- Normal
    simp only [due, st] at gp lb
    have hdue : 1 ≤ (if s.sent = true then s.maxKa + 1 else 1) := by split <;> omega
    have hl1 : s.life ≠ 1 := by omega
    have hl0 : s.life ≠ 0 := by omega
    cases e
    · refine ⟨s, tick_quiet s (Or.inl st) nq hl1 true, Or.inl ⟨nq, by simp, ?_⟩⟩
      simp only [Bool.false_and, Bool.false_eq_true, if_false]
      exact ⟨n0, hKL, Or.inr (Or.inl st), nq, np, sq, ka1, lf, kab, by simpa [due, st] using gp,
        by simpa [due, st] using lb⟩
    · cases hs : s.sent
      · -- row #7: the first keep-alive
        refine ⟨_, tick_row7 s st nq np hs hl1 (by omega) sq, Or.inr ⟨s.seq, rfl, by simp [st], ?_⟩⟩
        refine ⟨by omega, hKL, Or.inr (Or.inl st), rfl, np, rfl, ka1, lf, ?_, ?_, ?_⟩
        · simp [st]
        · simp [due, st]
        · simp [due, st]; omega
      · -- row #9: enter KeepAlive
        simp only [hs, if_true] at gp lb
        have hn : n ≠ 0 := by
          intro h0; rcases n0 h0 with h | ⟨_, h⟩
          · rw [st] at h; cases h
          · rw [hs] at h; cases h
        refine ⟨_, tick_row9 s st nq np hs hl1 hl0 true, Or.inl ⟨nq, fun h => absurd h hn, ?_⟩⟩
        simp only [st, ne_eq, reduceCtorEq, not_false_eq_true, decide_true, Bool.and_self,
          if_true]
        refine ⟨by omega, hKL, Or.inr (Or.inr rfl), nq, np, sq, ka1, lf, ?_, ?_, ?_⟩
        · intro _; exact ⟨ka1, Nat.le_refl _⟩
        · simp [due]; omega
        · simp [due]; omega
  · -- KeepAlive
    obtain ⟨k1, k2⟩ := kab st
    simp only [due, st] at gp lb
    have hl1 : s.life ≠ 1 := by omega
    have hl0 : s.life ≠ 0 := by omega
    have hn : n ≠ 0 := by
      intro h0; rcases n0 h0 with h | ⟨h, _⟩ <;> rw [st] at h <;> cases h
    cases e
    · refine ⟨s, tick_quiet s (Or.inr (Or.inr st)) nq hl1 true, Or.inl ⟨nq, by simp, ?_⟩⟩
      simp only [Bool.false_and, Bool.false_eq_true, if_false]
      exact ⟨n0, hKL, Or.inr (Or.inr st), nq, np, sq, ka1, lf, fun _ => ⟨k1, k2⟩,
        by simpa [due, st] using gp, by simpa [due, st] using lb⟩
    · by_cases hk : s.ka = 1
      · -- row #15: keep-alive, both counters restart
        refine ⟨_, tick_row15 s st nq np hk hl1 (by omega) sq, Or.inr ⟨s.seq, rfl, by simp [st], ?_⟩⟩
        refine ⟨by omega, hKL, Or.inr (Or.inr st), rfl, np, rfl, ka1, lf, ?_, ?_, ?_⟩
        · intro _; exact ⟨ka1, Nat.le_refl _⟩
        · simp [due, st]
        · simp [due, st]; omega
      · -- row #16: countdown
        refine ⟨_, tick_row16 s st nq np (by omega) hl1 hl0 true, Or.inl ⟨nq, fun h => absurd h hn, ?_⟩⟩
        simp only [st, ne_eq, reduceCtorEq, not_false_eq_true, decide_true, Bool.and_self,
          if_true]
        refine ⟨by omega, hKL, Or.inr (Or.inr rfl), nq, np, sq, ka1, lf, ?_, ?_, ?_⟩
        · intro _; constructor <;> simp <;> omega
        · simp [due]; omega
        · simp [due]; omega

/-- the tick made when a publish request arrives (rows #3, #4, #13) changes nothing but Creating → Normal -/
theorem subTick_served_publish (s : Subn) (g n : Nat) (e : Bool) (h : IdleInv K L s g n) :
    ∃ s', subTick s false e true = some s' ∧ s'.notifs = [] ∧ IdleInv K L s' g n := by
  obtain ⟨n0, hKL, st, nq, np, sq, ka1, lf, kab, gp, lb⟩ := h
  rcases st with st | st | st
  · refine ⟨_, tick_creating s false e true st nq (Or.inr rfl), nq, ?_⟩
    simp [due, st] at gp lb
    refine ⟨fun _ => Or.inr ⟨rfl, rfl⟩, hKL, Or.inr (Or.inl rfl), nq, np, sq, ka1, lf, by simp, ?_, ?_⟩ <;>
      simp [due] <;> omega
  · have hdue : 1 ≤ due s := by simp only [due, st]; split <;> omega
    refine ⟨s, tick_publish_quiet s (Or.inl st) nq (by omega) e, nq, ?_⟩
    exact ⟨n0, hKL, Or.inr (Or.inl st), nq, np, sq, ka1, lf, kab, gp, lb⟩
  · have hdue : 1 ≤ due s := by simp only [due, st]; exact (kab st).1
    refine ⟨s, tick_publish_quiet s (Or.inr st) nq (by omega) e, nq, ?_⟩
    exact ⟨n0, hKL, Or.inr (Or.inr st), nq, np, sq, ka1, lf, kab, gp, lb⟩

theorem idle_not_closed (s : Subn) (g n : Nat) (h : IdleInv K L s g n) : s.state ≠ .closed := by
  obtain ⟨_, _, st, _⟩ := h
  rcases st with st | st | st <;> rw [st] <;> simp

theorem nonempty_isEmpty (l : List Nat) (h : l ≠ []) : (!l.isEmpty) = true := by
  cases l <;> simp_all

/-- `Subscriptions::tick` on the timer, with a request queued -/
theorem sessTick_served (z : Sess) (g : Ghost) (e : Bool) (h : SessInv K L z g) (hr : z.reqs ≠ []) :
    ∃ z' out, sessTick z true e = some (z', out) ∧ SessInv K L z' (gnext g z (.timer e false) out) ∧
      (∀ r ∈ out, r.2.1 = Msg.keepAlive) ∧
      (g.n = 0 → counted z (.timer e false) = true → ∃ r k, out = [(r, .keepAlive, k)]) := by
  obtain ⟨s, hs, hi⟩ := h
  obtain ⟨s', ht, hc⟩ := subTick_served K L s g.gap g.n e hi
  have ht' : subTickWith current s true e true = some s' := ht
  simp only [sessTick, sessTickWith, hs, nonempty_isEmpty _ hr, ht']
  rcases hc with ⟨hq, hn0, hinv⟩ | ⟨k, hq, hcnt, hinv⟩
  · rw [hq, pairLoop_nil]
    have hnc := idle_not_closed K L _ _ _ hinv
    refine ⟨_, _, rfl, ?_, by simp, ?_⟩
    · refine ⟨s', ?_, ?_⟩
      · simp [readyToRemove, hnc, clear_notifs_eq s' hq]
      · simpa [gnext, counted, hs, hasKa] using hinv
    · intro h0 hcn
      exfalso
      simp only [counted, hs] at hcn
      rw [hn0 h0] at hcn
      cases hcn
  · obtain ⟨r, rs, hrs⟩ : ∃ r rs, z.reqs = r :: rs := by
      cases hz : z.reqs with
      | nil => exact absurd hz hr
      | cons r rs => exact ⟨r, rs, rfl⟩
    rw [hq, hrs, pairLoop_one]
    have hnc := idle_not_closed K L _ _ _ hinv
    refine ⟨_, _, rfl, ?_, by simp, ?_⟩
    · refine ⟨{ s' with notifs := [] }, ?_, ?_⟩
      · simp [readyToRemove, hnc]
      · have hc2 : e = true ∧ ¬ s.state = .creating := by simpa using hcnt
        simpa [gnext, counted, hs, hasKa, hc2] using hinv
    · intro _ _; exact ⟨r, k, rfl⟩

/-- an arriving publish request is queued (or refused when two are queued already); nothing is sent -/
theorem publish_served (z : Sess) (g : Ghost) (r : Nat) (h : SessInv K L z g) :
    ∃ z', step z (.publish r) = some (z', []) ∧ SessInv K L z' g := by
  obtain ⟨s, hs, hi⟩ := h
  have key : ∀ (rq : List Nat), rq ≠ [] → ∃ s',
      sessTickWith current { sub := some s, reqs := rq } false false =
        some ({ sub := some s', reqs := rq }, []) ∧ IdleInv K L s' g.gap g.n := by
    intro rq hrq
    obtain ⟨s', ht, hq, hinv⟩ := subTick_served_publish K L s g.gap g.n false hi
    have ht' : subTickWith current s false false true = some s' := ht
    have hnc := idle_not_closed K L _ _ _ hinv
    refine ⟨s', ?_, hinv⟩
    simp [sessTickWith, nonempty_isEmpty _ hrq, ht', hq, pairLoop_nil, readyToRemove, hnc,
      clear_notifs_eq s' hq]
  obtain ⟨zs, zr⟩ := z
  simp only at hs
  subst hs
  by_cases hlen : zr.length ≥ 2
  · have hne : zr ≠ [] := by intro h0; subst h0; simp at hlen
    obtain ⟨s', h1, h2⟩ := key zr hne
    refine ⟨{ sub := some s', reqs := zr }, ?_, ⟨s', rfl, h2⟩⟩
    simp [step, publish, publishWith, maxPublishRequests, hlen, h1]
  · have hne : zr ++ [r] ≠ [] := by simp
    obtain ⟨s', h1, h2⟩ := key (zr ++ [r]) hne
    refine ⟨{ sub := some s', reqs := zr ++ [r] }, ?_, ⟨s', rfl, h2⟩⟩
    have hlen' : ¬ (2 ≤ zr.length) := hlen
    simp [step, publish, publishWith, maxPublishRequests, hlen', h1]

/-- **Master invariant of regime 1.**  Along every history in which requests are always available
and no data changes, nothing panics, the invariant holds, and every response is a keep-alive. -/
theorem served_idle_run (ops : List Op) : ∀ (z : Sess) (g : Ghost), SessInv K L z g → ServedIdle z ops →
    ∃ z' g' outs, run z g ops = some (z', g', outs) ∧ SessInv K L z' g' ∧
      ∀ r ∈ outs, r.2.1 = Msg.keepAlive := by
  induction ops with
  | nil => intro z g h _; exact ⟨z, g, [], rfl, h, by simp⟩
  | cons op ops ih =>
    intro z g h hs
    obtain ⟨hop, hrest⟩ := hs
    cases op with
    | timer e w =>
      obtain ⟨hw, hr⟩ := hop
      subst hw
      obtain ⟨z', out, hst, hinv, hka, _⟩ := sessTick_served K L z g e h hr
      have hstep : step z (.timer e false) = some (z', out) := by simpa [step] using hst
      obtain ⟨z'', g'', outs, hrun, hinv', hka'⟩ := ih z' _ hinv (hrest z' out hstep)
      refine ⟨z'', g'', out ++ outs, by simp [run, hstep, hrun], hinv', ?_⟩
      intro r hr
      rcases List.mem_append.mp hr with h1 | h1
      · exact hka r h1
      · exact hka' r h1
    | publish r =>
      obtain ⟨z', hstep, hinv⟩ := publish_served K L z g r h
      have hg : gnext g z (.publish r) [] = g := by simp [gnext, counted, hasKa]
      obtain ⟨z'', g'', outs, hrun, hinv', hka'⟩ := ih z' g hinv (hrest z' [] hstep)
      exact ⟨z'', g'', outs, by simp [run, hstep, hg, hrun], hinv', hka'⟩

theorem start_inv (en : Bool) (hK : 1 ≤ K) (hL : K + 3 ≤ L) :
    SessInv K L (start L K en false) ⟨0, 0⟩ := by
  refine ⟨_, rfl, ?_⟩
  simp [IdleInv, mk, due, succ32, u32Max]
  omega

/-- **Keep-alive period.**  Publishing enabled or not, requests always available, no data changes:
at no moment of any such history have more than `K = maxKa` publishing intervals passed since the
last keep-alive response (so consecutive keep-alives are at most `K + 1` intervals apart: the "one
interval of timer slack" of the property), and nothing panics. -/
theorem keepalive_period (en : Bool) (hK : 1 ≤ K) (hL : K + 3 ≤ L) (ops : List Op)
    (h : ServedIdle (start L K en false) ops) :
    ∃ z g outs, run (start L K en false) ⟨0, 0⟩ ops = some (z, g, outs) ∧ g.gap ≤ K := by
  obtain ⟨z, g, outs, hrun, ⟨s, _, hinv⟩, _⟩ :=
    served_idle_run K L ops _ _ (start_inv K L en hK hL) h
  refine ⟨z, g, outs, hrun, ?_⟩
  obtain ⟨_, ⟨hk, _⟩, st, _, _, _, _, _, kab, gp, _⟩ := hinv
  have : 1 ≤ due s := by
    rcases st with st | st | st <;> simp only [due, st]
    · omega
    · split <;> omega
    · exact (kab st).1
  omega

/-- **Never expires** (partial: the lifetime count must exceed the keep-alive count by 3, which the
server's own revision `lifetime ≥ 3·keep-alive` guarantees except for keep-alive count 1 with
lifetime count 3 — see `C22_counterexample_ka1_life3`).  Requests always available, no data
changes: the subscription is never closed or removed, every response is a keep-alive. -/
theorem never_expires_partial (en : Bool) (hK : 1 ≤ K) (hL : K + 3 ≤ L) (ops : List Op)
    (h : ServedIdle (start L K en false) ops) :
    ∃ z g outs s, run (start L K en false) ⟨0, 0⟩ ops = some (z, g, outs) ∧ z.sub = some s ∧
      s.state ≠ .closed ∧ ∀ r ∈ outs, r.2.1 = Msg.keepAlive := by
  obtain ⟨z, g, outs, hrun, ⟨s, hs, hinv⟩, hka⟩ :=
    served_idle_run K L ops _ _ (start_inv K L en hK hL) h
  exact ⟨z, g, outs, s, hrun, hs, idle_not_closed K L _ _ _ hinv, hka⟩

theorem servedIdle_prefix (pre suf : List Op) : ∀ z, ServedIdle z (pre ++ suf) → ServedIdle z pre := by
  induction pre with
  | nil => intro z _; trivial
  | cons a pre ih =>
    intro z h
    exact ⟨h.1, fun z' out hs => ih z' (h.2 z' out hs)⟩

theorem servedIdle_suffix (pre suf : List Op) : ∀ z g z' g' outs, ServedIdle z (pre ++ suf) →
    run z g pre = some (z', g', outs) → ServedIdle z' suf := by
  induction pre with
  | nil =>
    intro z g z' g' outs h hr
    simp [run] at hr
    obtain ⟨rfl, _, _⟩ := hr
    exact h
  | cons a pre ih =>
    intro z g z' g' outs h hr
    simp only [run, List.cons_append] at hr
    split at hr
    · cases hr
    · rename_i z1 out1 hstep
      split at hr
      · cases hr
      · rename_i z2 g2 outs2 hrun2
        simp only [Option.some.injEq, Prod.mk.injEq] at hr
        obtain ⟨rfl, rfl, _⟩ := hr
        exact ih z1 _ _ _ _ (h.2 z1 out1 hstep) hrun2

/-- **First keep-alive.**  In a history with requests always available and no data changes, the
timer tick that completes the FIRST publishing interval answers the oldest queued request with a
keep-alive (and nothing else). -/
theorem keepalive_first (en : Bool) (hK : 1 ≤ K) (hL : K + 3 ≤ L) (pre : List Op) (e w : Bool)
    (h : ServedIdle (start L K en false) (pre ++ [.timer e w]))
    (z : Sess) (g : Ghost) (outs : List Resp)
    (hrun : run (start L K en false) ⟨0, 0⟩ pre = some (z, g, outs))
    (hfirst : g.n = 0) (hcnt : counted z (.timer e w) = true) :
    ∃ z' r k, step z (.timer e w) = some (z', [(r, .keepAlive, k)]) := by
  obtain ⟨z1, g1, outs1, hrun1, hinv, _⟩ :=
    served_idle_run K L pre _ _ (start_inv K L en hK hL) (servedIdle_prefix _ _ _ h)
  rw [hrun] at hrun1
  simp only [Option.some.injEq, Prod.mk.injEq] at hrun1
  obtain ⟨rfl, rfl, _⟩ := hrun1
  obtain ⟨⟨hw, hr⟩, _⟩ := servedIdle_suffix _ _ _ _ _ _ _ h hrun
  subst hw
  obtain ⟨z', out, hst, _, _, hfst⟩ := sessTick_served K L z g e hinv hr
  obtain ⟨r, k, rfl⟩ := hfst hfirst hcnt
  exact ⟨z', r, k, by simpa [step] using hst⟩

/-! ### Regime 2: the client sends no publish requests -/

/-- the invariant of regime 2, valid with the merge switch `k` off and on (`n` = publishing
intervals since the subscription started).  With the switch off nothing is ever queued before the
status change and the closing happens exactly at interval `L`. -/
def GInv (L : Nat) (k : Bool) (s : Subn) (n : Nat) : Prop :=
  s.maxLife = L ∧
  ((s.seq = succ32 s.lastSeq ∧ n < L ∧ s.life + n = L ∧ (k = false → s.notifs = []) ∧
      ((s.state = .creating ∧ s.notifs = []) ∨ (s.state = .normal ∧ s.sent = false) ∨ s.state = .late)) ∨
   (s.state = .closed ∧ L ≤ n + 1 ∧ (∃ j, s.notifs.getLast? = some (.statusChange, j)) ∧
      (k = false → L ≤ n ∧ ∃ j, s.notifs = [(.statusChange, j)])))

theorem subTickK_unserved (L : Nat) (k : Bool) (s : Subn) (n : Nat) (e : Bool) (h : GInv L k s n) :
    ∃ s', subTickWith (cur k) s true e false = some s' ∧
      GInv L k s' (if e && decide (s.state ≠ .creating) then n + 1 else n) := by
  obtain ⟨hL, h | ⟨hc, hn, hlast, hex⟩⟩ := h
  · obtain ⟨sq, hlt, hlife, hk0, st⟩ := h
    rcases st with ⟨st, nq⟩ | st
    · refine ⟨_, tickK_creating k s e st nq, ?_⟩
      simp only [st, ne_eq, not_true_eq_false, decide_false, Bool.and_false, Bool.false_eq_true,
        if_false]
      exact ⟨hL, Or.inl ⟨sq, hlt, hlife, fun _ => nq, Or.inr (Or.inl ⟨rfl, rfl⟩)⟩⟩
    · have hnc : s.state ≠ .creating := by
        rcases st with ⟨st, _⟩ | st <;> rw [st] <;> simp
      have hcnt : decide (s.state ≠ .creating) = true := by simpa using hnc
      by_cases h1 : s.life = 1
      · -- lifetime exhausted
        by_cases he : e = true ∨ s.notifs ≠ []
        · refine ⟨_, tickK_row27 k s e st h1 sq he, hL, Or.inr ⟨rfl, ?_, ⟨s.seq, by simp⟩, ?_⟩⟩
          · split <;> omega
          · intro hk
            have hq := hk0 hk
            have he' : e = true := by
              rcases he with he | he
              · exact he
              · exact absurd hq he
            simp only [he', hcnt, Bool.and_self, if_true]
            exact ⟨by omega, s.seq, by simp [hq]⟩
        · have he1 : e = false := by
            cases e
            · rfl
            · exact absurd (Or.inl rfl) he
          have hq : s.notifs = [] := by
            cases hh : s.notifs with
            | nil => rfl
            | cons x l => exact absurd (Or.inr (by simp [hh])) he
          refine ⟨s, by rw [he1]; exact tickK_unserved_quiet k s st (Or.inr hq), ?_⟩
          simp only [he1, Bool.false_and, Bool.false_eq_true, if_false]
          exact ⟨hL, Or.inl ⟨sq, hlt, hlife, hk0, Or.inr st⟩⟩
      · cases e
        · refine ⟨s, tickK_unserved_quiet k s st (Or.inl h1), ?_⟩
          simp only [Bool.false_and, Bool.false_eq_true, if_false]
          exact ⟨hL, Or.inl ⟨sq, hlt, hlife, hk0, Or.inr st⟩⟩
        · refine ⟨_, tickK_row8_12 k s st h1 (by omega) sq, hL, Or.inl ⟨?_, ?_, ?_, ?_, Or.inr (Or.inr rfl)⟩⟩
          · show (if _ then succ32 s.seq else s.seq) = succ32 (if _ then s.seq else s.lastSeq)
            split
            · rfl
            · exact sq
          · simp only [hcnt, Bool.and_self, if_true]; omega
          · simp only [hcnt, Bool.and_self, if_true]
            show s.life - 1 + (n + 1) = L
            omega
          · intro hk
            show (if _ then s.notifs ++ [(Msg.data, s.seq)] else s.notifs) = []
            simp [hk, hk0 hk]
  · refine ⟨s, tickK_closed k s e hc, hL, Or.inr ⟨hc, ?_, hlast, ?_⟩⟩
    · split <;> omega
    · intro hk
      obtain ⟨h1, h2⟩ := hex hk
      exact ⟨by split <;> omega, h2⟩


theorem pairLoop_noreq (ms : List (Msg × Nat)) : pairLoop [] ms = ([], [], ms) := by
  cases ms <;> rfl

/-- the session-level step of regime 2 (the source as it is: switch = `current.keepOnNone`) -/
theorem step_unserved (s : Subn) (g : Ghost) (e w : Bool) (h : GInv L current.keepOnNone s g.n) :
    ∃ s', step { sub := some s, reqs := [] } (.timer e w) = some ({ sub := some s', reqs := [] }, []) ∧
      GInv L current.keepOnNone s' (gnext g { sub := some s, reqs := [] } (.timer e w) []).n := by
  -- a write only touches `pending`, which the invariant does not mention
  have hw : GInv L current.keepOnNone (if w then { s with pending := s.hasItem } else s) g.n := by
    cases w
    · exact h
    · exact h
  obtain ⟨s', ht, hinv⟩ := subTickK_unserved L current.keepOnNone _ g.n e hw
  have ht' : subTickWith current (if w then { s with pending := s.hasItem } else s) true e false
      = some s' := ht
  have hst : (if w then { s with pending := s.hasItem } else s).state = s.state := by
    cases w <;> rfl
  have hnr : readyToRemove s' = false := by
    obtain ⟨_, h | ⟨_, _, ⟨j, hj⟩, _⟩⟩ := hinv
    · obtain ⟨_, _, _, _, st⟩ := h
      rcases st with ⟨st, _⟩ | ⟨st, _⟩ | st <;> simp [readyToRemove, st]
    · cases hq : s'.notifs with
      | nil => rw [hq] at hj; simp at hj
      | cons x l => simp [readyToRemove, hq]
  refine ⟨s', ?_, ?_⟩
  · cases w <;>
      simp_all [step, write, sessTick, sessTickWith, pairLoop_noreq]
  · simpa [gnext, counted, hst] using hinv

/-- **Expiry on time.**  The client never sends a publish request (publishing enabled or not, with
or without a monitored item, whatever is written and whenever the interval elapses): nothing
panics, nothing is sent; the subscription is open as long as fewer than `L − 1` publishing
intervals have elapsed and closed, with the status change as its last queued notification, once `L`
have — "after about lifetime-count intervals (within one interval), and not before".  (The source
now keeps, with publishing enabled, a data notification collected while no request is queued —
the C21 repair, `current.keepOnNone = true` — so notifications can pile up before the status
change and row #27 can then fire on a non-elapsed tick.  For the source before that repair the
last conjunct gives the exact form: open with an empty queue before interval `L`, closed with
exactly the status change queued from interval `L` on.) -/
theorem expires_on_time (en it : Bool) (hL : 1 ≤ L) (ops : List Op)
    (hops : ∀ op ∈ ops, ∃ e w, op = Op.timer e w) :
    ∃ s g, run (start L K en it) ⟨0, 0⟩ ops = some ({ sub := some s, reqs := [] }, g, []) ∧
      (g.n + 1 < L → s.state ≠ .closed) ∧
      (L ≤ g.n → s.state = .closed ∧ ∃ j, s.notifs.getLast? = some (.statusChange, j)) ∧
      (current.keepOnNone = false →
        (g.n < L → s.state ≠ .closed ∧ s.notifs = []) ∧
        (L ≤ g.n → ∃ j, s.notifs = [(.statusChange, j)])) := by
  have key : ∀ (ops : List Op), (∀ op ∈ ops, ∃ e w, op = Op.timer e w) → ∀ (s : Subn) (g : Ghost),
      GInv L current.keepOnNone s g.n → ∃ s' g', run { sub := some s, reqs := [] } g ops =
        some ({ sub := some s', reqs := [] }, g', []) ∧ GInv L current.keepOnNone s' g'.n := by
    intro ops
    induction ops with
    | nil => intro _ s g h; exact ⟨s, g, rfl, h⟩
    | cons op ops ih =>
      intro hops s g h
      obtain ⟨e, w, rfl⟩ := hops op (by simp)
      obtain ⟨s1, hstep, hinv⟩ := step_unserved L s g e w h
      obtain ⟨s2, g2, hrun, hinv2⟩ := ih (fun op hop => hops op (by simp [hop])) s1 _ hinv
      exact ⟨s2, g2, by simp [run, hstep, hrun], hinv2⟩
  have h0 : GInv L current.keepOnNone (mk L K en it) 0 := by
    refine ⟨rfl, Or.inl ⟨by simp [mk, succ32, u32Max], by omega, by simp [mk], fun _ => rfl,
      Or.inl ⟨rfl, rfl⟩⟩⟩
  obtain ⟨s, g, hrun, hinv⟩ := key ops hops _ ⟨0, 0⟩ h0
  obtain ⟨_, hopen | hclosed⟩ := hinv
  · obtain ⟨_, hlt, _, hk0, st⟩ := hopen
    have hnc : s.state ≠ .closed := by
      rcases st with ⟨st, _⟩ | ⟨st, _⟩ | st <;> rw [st] <;> simp
    refine ⟨s, g, hrun, fun _ => hnc, fun h => by omega, fun hk => ⟨fun _ => ⟨hnc, hk0 hk⟩, fun h => by omega⟩⟩
  · obtain ⟨hc, hn, hlast, hex⟩ := hclosed
    refine ⟨s, g, hrun, fun h => by omega, fun _ => ⟨hc, hlast⟩, fun hk => ?_⟩
    obtain ⟨h1, h2⟩ := hex hk
    exact ⟨fun h => by omega, fun _ => h2⟩

/-- the first publish request after the expiry collects the BadTimeout status change, and the
subscription is removed -/
theorem late_request_collects (s : Subn) (k r : Nat) (hc : s.state = .closed)
    (hk : s.notifs = [(.statusChange, k)]) :
    step { sub := some s, reqs := [] } (.publish r) =
      some ({ sub := none, reqs := [] }, [(r, .statusChange, k)]) := by
  obtain ⟨state, maxLife, maxKa, life, ka, sent, enabled, notifs, seq, lastSeq, hasItem, pending⟩ := s
  simp only at hc hk
  subst hc hk
  simp [step, publish, publishWith, maxPublishRequests, sessTickWith, subTickWith, updateStateWith,
    handle, pairLoop, readyToRemove]

/-! ### The rows of the table, regenerated from the source -/

/-- **The model does in every row what the Rust source does** (regenerated obligation): whenever
`update_state` is handled by row `n ≠ 0`, that row is in the table regenerated from the source,
with the same action, and executing the row's source-order effect list on the subscription gives
exactly the model's new state. -/
theorem rows_sound (s s' : Subn) (t : Bool) (p : Params) (n : Nat) (a : Action)
    (h : updateState s t p = some (s', n, a)) :
    (n = 0 ∧ s' = s ∧ a = .none) ∨
    ∃ r ∈ generatedRows, r.num = n ∧ r.action = a ∧ applyEffs r.effs s = some s' := by
  unfold updateState updateStateWith at h
  split at h
  · cases h
  · split at h
    · cases h; right; simp [generatedRows, applyEffs, applyEff]
    · rename_i hl
      split at h
      · cases h; right; simp [generatedRows, applyEffs, applyEff]
      · repeat' split at h
        all_goals first
          | (cases h; simp [generatedRows, applyEffs, applyEff, resetLife, resetKa]; done)
          | (obtain ⟨h0, h1⟩ := map_startTimer _ _ _ h; cases h1; right
             try simp only [resetLife] at h0
             simp [generatedRows, applyEffs, applyEff, resetLife, resetKa, startTimer, h0]; done)
      · repeat' split at h
        all_goals first
          | (cases h; simp [generatedRows, applyEffs, applyEff, resetLife, resetKa]; done)
          | (obtain ⟨h0, h1⟩ := map_startTimer _ _ _ h; cases h1; right
             try simp only [resetLife] at h0
             simp [generatedRows, applyEffs, applyEff, resetLife, resetKa, startTimer, h0]; done)
      · simp only [act15, Option.map_map, current] at h
        repeat' split at h
        all_goals first
          | (cases h; simp [generatedRows, applyEffs, applyEff, resetLife, resetKa]; done)
          | (exfalso; simp_all; done)
          | (obtain ⟨h0, h1⟩ := map_startTimer _ _ _ h; cases h1; right
             try simp only [resetLife] at h0
             have hk : s.ka > 1 → s.ka ≠ 0 := by omega
             simp_all [generatedRows, applyEffs, applyEff, resetLife, resetKa, startTimer, cond15]
             done)
      · cases h; simp

/-- **`update_state` IS the table in the Rust source** (regenerated obligation).  `generatedRows` is
re-read from `subscription.rs` on every run: per row the states of its `match` arm, its guard
(parsed: operators and constants of the counter comparisons included), its action and its effects,
in source order.  Interpreting that table — initial panic, first row whose arm contains the state
and whose guard holds, effects in order — equals the hand-written model of `update_state` for
EVERY state, counter value, flag and input.  A changed guard (`> 1` → `>= 1`), action, or row
order in the source makes this theorem fail. -/
theorem rows_exact (s : Subn) (t : Bool) (p : Params) :
    interpRows generatedRows s t p = updateState s t p := rows_table_eq s t p

/-! ### Every history -/

theorem cnt_counted (z : Sess) (e w : Bool) : cnt z true e = counted z (.timer e w) := by
  unfold cnt counted
  cases z.sub <;> simp

/-- **Never before.**  In EVERY history (any interleaving of timer ticks, publish requests and
writes, whatever the subscription does with them), a subscription with lifetime count `L` is not
closed or removed before `L - 1` publishing intervals have elapsed since it started. -/
theorem not_closed_before (L K : Nat) (en it : Bool) (ops : List Op) (z : Sess) (g : Ghost)
    (outs : List Resp) (h : run (start L K en it) ⟨0, 0⟩ ops = some (z, g, outs))
    (hc : z.sub = none ∨ ∃ s, z.sub = some s ∧ s.state = .closed) : L ≤ g.n + 1 := by
  have key : ∀ (ops : List Op) (z0 : Sess) (g0 : Ghost) (z : Sess) (g : Ghost) (outs : List Resp),
      run z0 g0 ops = some (z, g, outs) → NB L z0 g0.n → NB L z g.n := by
    intro ops
    induction ops with
    | nil =>
      intro z0 g0 z g outs h hi
      simp only [run, Option.some.injEq, Prod.mk.injEq] at h
      obtain ⟨rfl, rfl, _⟩ := h
      exact hi
    | cons op ops ih =>
      intro z0 g0 z g outs h hi
      simp only [run] at h
      split at h
      · cases h
      · rename_i z1 out1 hstep
        split at h
        · cases h
        · rename_i z2 g2 outs2 hrun
          simp only [Option.some.injEq, Prod.mk.injEq] at h
          obtain ⟨rfl, rfl, _⟩ := h
          refine ih z1 _ _ _ _ hrun ?_
          cases op with
          | timer e w =>
            simp only [step] at hstep
            have hi' : NB L (if w then write z0 else z0) g0.n := by
              cases w
              · exact hi
              · exact write_nb L z0 g0.n hi
            have := sessTick_nb _ L _ _ true e _ g0.n hstep hi'
            have hcn : cnt (if w = true then write z0 else z0) true e = counted z0 (.timer e w) := by
              cases w
              · exact cnt_counted z0 e false
              · simp only [if_true, write_cnt]; exact cnt_counted z0 e true
            rw [hcn] at this
            simpa [gnext] using this
          | publish r =>
            have hg : (gnext g0 z0 (.publish r) out1).n = g0.n := by simp [gnext, counted]
            rw [hg]
            have hp := publish_nb current L z0 r g0.n hi
            simp only [step, publish] at hstep
            split at hstep
            · rename_i z' out' hpe
              simp only [Option.some.injEq, Prod.mk.injEq] at hstep
              obtain ⟨rfl, _⟩ := hstep
              rw [hpe] at hp; exact hp
            · rename_i z' out' hpe
              simp only [Option.some.injEq, Prod.mk.injEq] at hstep
              obtain ⟨rfl, _⟩ := hstep
              rw [hpe] at hp; exact hp
            · cases hstep
  have h0 : NB L (start L K en it) 0 := by
    simp [NB, start, mk]
  have := key ops _ _ _ _ _ h h0
  rcases hc with hc | ⟨s, hs, hcl⟩
  · simpa [NB, hc] using this
  · simp only [NB, hs] at this
    exact this.2.2 hcl

/-! ### Non-vacuity, and the defects (repaired or recorded) -/

def stepWith (v : Variant) (z : Sess) : Op → Option (Sess × List Resp)
  | .timer e w => sessTickWith v (if w then write z else z) true e
  | .publish r =>
    match publishWith v z r with
    | .ok z' out => some (z', out)
    | .tooMany z' out => some (z', out)
    | .panic => none

def runWith (v : Variant) : Sess → List Op → Option (Sess × List Resp)
  | z, [] => some (z, [])
  | z, op :: ops =>
    match stepWith v z op with
    | none => none
    | some (z', out) =>
      match runWith v z' ops with
      | none => none
      | some (z'', outs) => some (z'', out ++ outs)

/-- `n` rounds of "the client sends a publish request, then the publishing interval elapses" -/
def rounds : Nat → List Op
  | 0 => []
  | n + 1 => rounds n ++ [.publish (n + 1), .timer true false]

def kaCount (r : Option (Sess × List Resp)) : Option Nat :=
  r.map fun x => (x.2.filter fun y => decide (y.2.1 = Msg.keepAlive)).length

def subGone (r : Option (Sess × List Resp)) : Option Bool := r.map fun x => x.1.sub.isNone

instance (s : Subn) (g n : Nat) : Decidable (IdleInv K L s g n) := by unfold IdleInv; infer_instance

/-- the hypotheses of regime 1 are satisfiable: `rounds n` is a served idle history of a
subscription with keep-alive count 2 and lifetime count 6, and it produces keep-alives -/
example : kaCount (runWith current (start 6 2 true false) (rounds 12)) = some 6 := by decide
example : IdleInv 2 6 (mk 6 2 true false) 0 0 := by decide
/-- executable form of `ServedIdle` -/
def servedIdleB : Sess → List Op → Bool
  | _, [] => true
  | z, op :: ops =>
    (match op with
      | .timer _ w => !w && !z.reqs.isEmpty
      | .publish _ => true) &&
    match step z op with
    | some (z', _) => servedIdleB z' ops
    | none => true

theorem servedIdle_of_check (ops : List Op) : ∀ z, servedIdleB z ops = true → ServedIdle z ops := by
  induction ops with
  | nil => intro _ _; trivial
  | cons op ops ih =>
    intro z h
    simp only [servedIdleB, Bool.and_eq_true] at h
    refine ⟨?_, ?_⟩
    · cases op with
      | timer e w =>
        have := h.1
        cases w <;> cases hz : z.reqs <;> simp_all
      | publish r => trivial
    · intro z' out hs
      have := h.2
      rw [hs] at this
      exact ih z' this

example : ServedIdle (start 6 2 true false) (rounds 12) := servedIdle_of_check _ _ (by decide)

/-! #### The converse: too short a lifetime does expire -/

/-- a history checked to be "served idle" while it is run: `none` if a timer tick finds no request
queued, writes the variable, or the implementation panics -/
def okOp (z : Sess) : Op → Bool
  | .timer _ w => !w && !z.reqs.isEmpty
  | .publish _ => true

def runS : Sess → List Op → Option Sess
  | z, [] => some z
  | z, op :: ops =>
    if okOp z op then
      match step z op with
      | some (z', _) => runS z' ops
      | none => none
    else none

theorem runS_sound (ops : List Op) : ∀ (z z' : Sess), runS z ops = some z' →
    ServedIdle z ops ∧ ∀ g, ∃ g' outs, run z g ops = some (z', g', outs) := by
  induction ops with
  | nil =>
    intro z z' h
    simp only [runS, Option.some.injEq] at h
    subst h
    exact ⟨trivial, fun g => ⟨g, [], rfl⟩⟩
  | cons op ops ih =>
    intro z z' h
    simp only [runS] at h
    split at h
    · rename_i hok
      split at h
      · rename_i z1 out1 hstep
        obtain ⟨h1, h2⟩ := ih z1 z' h
        refine ⟨⟨?_, ?_⟩, ?_⟩
        · cases op with
          | timer e w =>
            simp only [okOp, Bool.and_eq_true, Bool.not_eq_true'] at hok
            refine ⟨hok.1, ?_⟩
            intro hz; rw [hz] at hok; simp at hok
          | publish r => trivial
        · intro z2 out2 hs2
          rw [hstep] at hs2
          simp only [Option.some.injEq, Prod.mk.injEq] at hs2
          obtain ⟨rfl, _⟩ := hs2
          exact h1
        · intro g
          obtain ⟨g', outs, hr⟩ := h2 (gnext g z op out1)
          exact ⟨g', out1 ++ outs, by simp [run, hstep, hr]⟩
      · cases h
    · cases h

theorem runS_append (a b : List Op) : ∀ z, runS z (a ++ b) = (runS z a).bind fun z' => runS z' b := by
  induction a with
  | nil => intro z; simp [runS]
  | cons op a ih =>
    intro z
    simp only [List.cons_append, runS]
    split
    · split
      · exact ih _
      · rfl
    · rfl


/-- the tick made for an arriving request when nothing happens (rows #4 / #13) -/
theorem sessTick_publish_quiet (s : Subn) (rq : List Nat) (hrq : rq ≠ [])
    (h : s.state = .normal ∨ s.state = .keepAlive) (hn : s.notifs = []) (hl : s.life ≠ 1) :
    sessTickWith current { sub := some s, reqs := rq } false false =
      some ({ sub := some s, reqs := rq }, []) := by
  have ht : subTickWith current s false false true = some s := tick_publish_quiet s h hn hl false
  have hnc : s.state ≠ .closed := by rcases h with h | h <;> rw [h] <;> simp
  simp [sessTickWith, nonempty_isEmpty _ hrq, ht, hn, pairLoop_nil, readyToRemove, hnc,
    clear_notifs_eq s hn]

/-- a session tick (any reason) that finds the lifetime exhausted while a request is queued:
the status change goes out with the oldest request and the subscription is removed -/
theorem sessTick_close_served (s : Subn) (r : Nat) (rs : List Nat) (timer e : Bool)
    (h : s.state = .normal ∨ s.state = .keepAlive) (hn : s.notifs = []) (hp : s.pending = false)
    (hl : s.life = 1) (hsq : s.seq = succ32 s.lastSeq) :
    sessTickWith current { sub := some s, reqs := r :: rs } timer e =
      some ({ sub := none, reqs := rs }, [(r, .statusChange, s.seq)]) := by
  have ht : subTickWith current s timer e true = some _ := tick_close_served s timer e h hn hp hl hsq
  simp [sessTickWith, ht, pairLoop, readyToRemove]

theorem sessTick_nosub (rq : List Nat) (timer e : Bool) :
    sessTickWith current { sub := none, reqs := rq } timer e = some ({ sub := none, reqs := rq }, []) := rfl

/-- an arriving request, nothing happens: it is queued, or refused when two are queued -/
theorem step_publish_quiet (s : Subn) (rq : List Nat) (r : Nat)
    (h : s.state = .normal ∨ s.state = .keepAlive) (hn : s.notifs = []) (hl : s.life ≠ 1) :
    ∃ rq', rq' ≠ [] ∧ step { sub := some s, reqs := rq } (.publish r) = some ({ sub := some s, reqs := rq' }, []) := by
  by_cases hlen : rq.length ≥ 2
  · have hne : rq ≠ [] := by intro h0; subst h0; simp at hlen
    refine ⟨rq, hne, ?_⟩
    simp [step, publish, publishWith, maxPublishRequests, hlen, sessTick_publish_quiet s rq hne h hn hl]
  · refine ⟨rq ++ [r], by simp, ?_⟩
    have hlen' : ¬ (2 ≤ rq.length) := hlen
    simp [step, publish, publishWith, maxPublishRequests, hlen',
      sessTick_publish_quiet s (rq ++ [r]) (by simp) h hn hl]

/-- an arriving request that finds the lifetime exhausted: the subscription is removed and a
request is still queued afterwards -/
theorem step_publish_close (s : Subn) (rq : List Nat) (r : Nat) (hrq : rq ≠ [])
    (h : s.state = .normal ∨ s.state = .keepAlive) (hn : s.notifs = []) (hp : s.pending = false)
    (hl : s.life = 1) (hsq : s.seq = succ32 s.lastSeq) :
    ∃ rq' out, rq' ≠ [] ∧ step { sub := some s, reqs := rq } (.publish r) = some ({ sub := none, reqs := rq' }, out) := by
  obtain ⟨r0, rs, rfl⟩ : ∃ r0 rs, rq = r0 :: rs := by
    cases rq with
    | nil => exact absurd rfl hrq
    | cons a l => exact ⟨a, l, rfl⟩
  by_cases hlen : (r0 :: rs).length ≥ 2
  · -- two (or more) queued: the first tick closes and frees a slot
    have h1 := sessTick_close_served s r0 rs false false h hn hp hl hsq
    have h1len : 1 ≤ rs.length := by simp at hlen; omega
    by_cases hlt : rs.length ≥ 2
    · have hne : rs ≠ [] := by intro h0; subst h0; simp at hlt
      refine ⟨rs, [(r0, .statusChange, s.seq)], hne, ?_⟩
      simp [step, publish, publishWith, maxPublishRequests, hlen, h1, hlt, h1len]
    · refine ⟨rs ++ [r], [(r0, .statusChange, s.seq)], by simp, ?_⟩
      have hlt' : ¬ (2 ≤ rs.length) := hlt
      simp [step, publish, publishWith, maxPublishRequests, hlen, h1, hlt', h1len, sessTick_nosub]
  · have hrs : rs = [] := by
      cases rs with
      | nil => rfl
      | cons a l => simp at hlen
    subst hrs
    have h1 := sessTick_close_served s r0 [r] false false h hn hp hl hsq
    refine ⟨[r], [(r0, .statusChange, s.seq)], by simp, ?_⟩
    have hlen' : ¬ (2 ≤ [r0].length) := hlen
    simp [step, publish, publishWith, maxPublishRequests, hlen', h1]


/-- timer tick in the keep-alive countdown (row #16) with a request queued -/
theorem step_timer16 (s : Subn) (rq : List Nat) (hrq : rq ≠ []) (h : s.state = .keepAlive)
    (hn : s.notifs = []) (hp : s.pending = false) (hk : 1 < s.ka) (hl : s.life ≠ 1) (hl0 : s.life ≠ 0) :
    step { sub := some s, reqs := rq } (.timer true false) =
      some ({ sub := some { s with life := s.life - 1, ka := s.ka - 1 }, reqs := rq }, []) := by
  have ht : subTickWith current s true true true = some _ := tick_row16 s h hn hp hk hl hl0 true
  simp [step, sessTick, sessTickWith, nonempty_isEmpty _ hrq, ht, hn, pairLoop_nil, readyToRemove, h]

theorem prefix2 (K L : Nat) (en : Bool) (hL : 3 ≤ L) :
    runS (start L K en false) (rounds 2) = some
      { sub := some { state := .keepAlive, maxLife := L, maxKa := K, life := L - 2, ka := K, sent := true,
                      enabled := en, notifs := [], seq := 2, lastSeq := 1, hasItem := false,
                      pending := false },
        reqs := [2] } := by
  have h1 : L ≠ 1 := by omega
  have h0 : L ≠ 0 := by omega
  have h2 : L - 1 ≠ 1 := by omega
  have h3 : L - 1 ≠ 0 := by omega
  have h4 : L - 1 - 1 = L - 2 := by omega
  cases en <;>
  simp [rounds, runS, okOp, step, publish, publishWith, maxPublishRequests, sessTick, sessTickWith,
    subTickWith, updateStateWith, handle, enqueue, startTimer, resetLife, resetKa, pairLoop,
    readyToRemove, start, mk, succ32, u32Max, current, cond15, act15, h0, h1, h2, h3, h4]


/-- the keep-alive countdown of a served idle subscription whose lifetime is too short: after
round `i` the lifetime counter is `L - i` and the keep-alive counter `K + 2 - i` -/
def Mid (K L i : Nat) (z : Sess) : Prop :=
  ∃ s, z.sub = some s ∧ z.reqs ≠ [] ∧ s.state = .keepAlive ∧ s.notifs = [] ∧ s.pending = false ∧
    s.seq = succ32 s.lastSeq ∧ s.life + i = L ∧ s.ka + i = K + 2

theorem round_mid (K L i r : Nat) (z : Sess) (hz : Mid K L i z) (hi : i + 2 ≤ L) (hLK : L ≤ K + 2) :
    ∃ z', runS z [.publish r, .timer true false] = some z' ∧ Mid K L (i + 1) z' := by
  obtain ⟨s, hs, hrq, st, nq, np, sq, hl, hk⟩ := hz
  obtain ⟨zs, zr⟩ := z
  simp only at hs hrq
  subst hs
  obtain ⟨rq', hrq', hp⟩ := step_publish_quiet s zr r (Or.inr st) nq (by omega)
  have ht := step_timer16 s rq' hrq' st nq np (by omega) (by omega) (by omega)
  refine ⟨{ sub := some { s with life := s.life - 1, ka := s.ka - 1 }, reqs := rq' },
    by simp [runS, okOp, hp, ht, nonempty_isEmpty _ hrq'], ?_⟩
  exact ⟨_, rfl, hrq', st, nq, np, sq, by simp; omega, by simp; omega⟩

theorem close_mid (K L i r : Nat) (z : Sess) (hz : Mid K L i z) (hi : i + 1 = L) :
    ∃ z', runS z [.publish r] = some z' ∧ z'.sub = none := by
  obtain ⟨s, hs, hrq, st, nq, np, sq, hl, hk⟩ := hz
  obtain ⟨zs, zr⟩ := z
  simp only at hs hrq
  subst hs
  obtain ⟨rq', out, _, hp⟩ := step_publish_close s zr r hrq (Or.inr st) nq np (by omega) sq
  exact ⟨{ sub := none, reqs := rq' }, by simp [runS, okOp, hp], rfl⟩

theorem rounds_mid (K L : Nat) (en : Bool) (hLK : L ≤ K + 2) : ∀ k, k + 3 ≤ L →
    ∃ z, runS (start L K en false) (rounds (k + 2)) = some z ∧ Mid K L (k + 2) z := by
  intro k
  induction k with
  | zero =>
    intro h
    refine ⟨_, prefix2 K L en (by omega), _, rfl, by simp, rfl, rfl, rfl, by simp [succ32, u32Max], ?_, ?_⟩ <;>
      simp <;> omega
  | succ k ih =>
    intro h
    obtain ⟨z, hr, hm⟩ := ih (by omega)
    obtain ⟨z', hr', hm'⟩ := round_mid K L (k + 2) (k + 3) z hm (by omega) hLK
    refine ⟨z', ?_, hm'⟩
    show runS _ (rounds (k + 2) ++ [.publish (k + 2 + 1), .timer true false]) = _
    rw [runS_append, hr]
    exact hr'

/-- **Converse of `never_expires_partial`.**  Lifetime count `L ≤ K + 2` (and at least 1): there
is a history with requests always available and no data changes that closes and removes the
subscription — `L − 1` rounds of "request, interval" and one more request (one round for `L = 1`). -/
theorem served_idle_expires (K L : Nat) (en : Bool) (hL1 : 1 ≤ L) (hLK : L ≤ K + 2) :
    ∃ ops z, runS (start L K en false) ops = some z ∧ z.sub = none := by
  by_cases h1 : L = 1
  · subst h1
    refine ⟨rounds 1, { sub := none, reqs := [] }, ?_, rfl⟩
    cases en <;>
    simp [rounds, runS, okOp, step, publish, publishWith, maxPublishRequests, sessTick, sessTickWith,
      subTickWith, updateStateWith, handle, enqueue, startTimer, resetLife, resetKa, pairLoop,
      readyToRemove, start, mk, succ32, u32Max, current, cond15, act15]
  · by_cases h2 : L = 2
    · subst h2
      refine ⟨rounds 1 ++ [.publish 2], { sub := none, reqs := [] }, ?_, rfl⟩
      cases en <;>
      simp [rounds, runS, okOp, step, publish, publishWith, maxPublishRequests, sessTick, sessTickWith,
        subTickWith, updateStateWith, handle, enqueue, startTimer, resetLife, resetKa, pairLoop,
        readyToRemove, start, mk, succ32, u32Max, current, cond15, act15]
    · obtain ⟨z, hr, hm⟩ := rounds_mid K L en hLK (L - 3) (by omega)
      obtain ⟨z', hc, hn⟩ := close_mid K L (L - 3 + 2) L z hm (by omega)
      refine ⟨rounds (L - 3 + 2) ++ [.publish L], z', ?_, hn⟩
      rw [runS_append, hr]
      exact hc


/-- **Never expires — exact characterisation.**  Keep-alive count `K ≥ 1`, lifetime count `L ≥ 1`,
publishing enabled or not: the subscription survives EVERY history with requests always available
and no data changes if and only if `L ≥ K + 3`.  (`←` is `never_expires_partial`; `→`: for
`L ≤ K + 2` the history of `served_idle_expires` closes it.)  The server's own revision guarantees
`L ≥ 3·K`, which leaves exactly (K, L) = (1, 3) on the wrong side: `never_expires_iff`. -/
theorem never_expires_iff_all (en : Bool) (hK : 1 ≤ K) (hL1 : 1 ≤ L) :
    (∀ ops : List Op, ServedIdle (start L K en false) ops →
      ∃ z g outs s, run (start L K en false) ⟨0, 0⟩ ops = some (z, g, outs) ∧ z.sub = some s ∧
        s.state ≠ .closed) ↔ K + 3 ≤ L := by
  constructor
  · intro h
    by_cases hle : K + 3 ≤ L
    · exact hle
    · exfalso
      obtain ⟨ops, z, hr, hn⟩ := served_idle_expires K L en hL1 (by omega)
      obtain ⟨hs, hrun⟩ := runS_sound ops _ _ hr
      obtain ⟨g', outs', hrun'⟩ := hrun ⟨0, 0⟩
      obtain ⟨z2, g2, outs2, s2, hrun2, hs2, _⟩ := h ops hs
      rw [hrun'] at hrun2
      simp only [Option.some.injEq, Prod.mk.injEq] at hrun2
      obtain ⟨rfl, _⟩ := hrun2
      rw [hn] at hs2
      cases hs2
  · intro hle ops hs
    obtain ⟨z, g, outs, s, hrun, hsub, hnc, _⟩ := never_expires_partial K L en hK hle ops hs
    exact ⟨z, g, outs, s, hrun, hsub, hnc⟩

/-- **Never expires — the strongest statement that is true of the configurations the server can
produce.**  `revise_subscription_values` (C23) yields keep-alive count `K ≥ 1` and lifetime count
`L ≥ 3·K`.  For those: a subscription that is always served and has no data changes is never
closed, in any such history, EXACTLY when the configuration is not (keep-alive 1, lifetime 3) —
and for that one configuration the history `rounds 4` closes it (recorded finding). -/
theorem never_expires_iff (en : Bool) (hK : 1 ≤ K) (hrev : 3 * K ≤ L) :
    (∀ ops : List Op, ServedIdle (start L K en false) ops →
      ∃ z g outs s, run (start L K en false) ⟨0, 0⟩ ops = some (z, g, outs) ∧ z.sub = some s ∧
        s.state ≠ .closed) ↔ ¬ (K = 1 ∧ L = 3) := by
  constructor
  · intro h ⟨hk, hl⟩
    subst hk hl
    have hserved : ServedIdle (start 3 1 en false) (rounds 4) :=
      servedIdle_of_check _ _ (by cases en <;> decide)
    obtain ⟨z, g, outs, s, hrun, hs, _⟩ := h (rounds 4) hserved
    have hnone : (run (start 3 1 en false) ⟨0, 0⟩ (rounds 4)).map (fun x => x.1.sub.isNone) = some true := by
      cases en <;> decide
    rw [hrun] at hnone
    simp [hs] at hnone
  · intro hne ops hs
    have hL : K + 3 ≤ L := by omega
    obtain ⟨z, g, outs, s, hrun, hsub, hnc, _⟩ := never_expires_partial K L en hK hL ops hs
    exact ⟨z, g, outs, s, hrun, hsub, hnc⟩

/-- regime 2: closed exactly at the 6th interval -/
example : (runWith current (start 6 2 true false) (List.replicate 6 (.timer true true))).map
    (fun x => (x.1.sub.map fun s => (s.state, s.life))) = some (some (.late, 1)) := by decide
example : (runWith current (start 6 2 true false) (List.replicate 7 (.timer true true))).map
    (fun x => (x.1.sub.map fun s => (s.state, s.notifs))) =
    some (some (.closed, [(.statusChange, 1)])) := by decide

/-- **Repaired defect (state #15).**  The pinned source tested `notifications_available` in row
#15: with publishing enabled, requests always available and no data, the keep-alive countdown
reaches 1 and sticks — ONE keep-alive in twelve publishing intervals (keep-alive count 2). -/
theorem C22_counterexample_state15_pinned :
    kaCount (runWith pinned (start 6 2 true false) (rounds 12)) = some 1 := by decide

/-- Flipping the test of row #15 alone is not enough: without the lifetime-counter reset the
served idle subscription (keep-alive count 3, lifetime count 9) expires. -/
theorem C22_counterexample_state15_condition_only :
    subGone (runWith { fix15c := true, fix15l := false, fixExpire := true }
      (start 9 3 true false) (rounds 12)) = some true := by decide

/-- **Repaired defect (expiry panic).**  No publish requests, the monitored variable changes in
the tick in which the lifetime counter is exhausted: the pinned source panicked
("SubscriptionExpired got a notification"). -/
theorem C22_counterexample_expire_panic_pinned :
    runWith pinned (start 3 1 true true)
      [.timer true false, .timer true true, .timer true true, .timer true true] = none := by decide

/-- **Recorded defect.**  Keep-alive count 1 with the smallest lifetime count the server allows
for it (3): rows #7 and #9 take the lifetime counter to 1 before row #15 can reset it, and the
served idle subscription expires at its third interval.  This is the one configuration excluded
by the hypothesis `K + 3 ≤ L` of `never_expires_partial`. -/
theorem C22_counterexample_ka1_life3 :
    subGone (runWith current (start 3 1 true false) (rounds 4)) = some true := by decide

end OpcuaVerif.C22
