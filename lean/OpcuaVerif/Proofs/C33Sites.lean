import OpcuaVerif.Generated.C33Sites
import OpcuaVerif.Proofs.C33
import OpcuaVerif.Model.C33Filter

/-!
C33 — every potential panic site that the translator finds on the modelled node-management paths
(regenerated from the source on every run) is classified here: which model `Site` it is, and which
theorem shows that the service cannot reach it.  A site the source gains later is not in this table,
so `all_sites_classified` stops checking (an unclassified obligation).
-/
namespace OpcuaVerif.C33

/-- classification: (file, function, kind, ordinal) ↦ the model's site -/
def classified : List ((String × String × String × Nat) × Site) := [
  -- `AddressSpace::insert` asserts the namespace of the new node: unreachable from AddNodes, the
  -- handler rejects unregistered namespaces first (`addNode_total`, site `assertNamespace`)
  (("address_space.rs", "assert_namespace", "panic", 0), .assertNamespace),
  -- `References::insert_reference` refuses source = target: unreachable from AddReferences, the
  -- handler answers BadReferenceNotAllowed first (`addReference_total`, site `selfReference`)
  (("references.rs", "insert_reference", "panic", 0), .selfReference)
]

/-- **Regenerated obligation**: the source has no potential panic site on the modelled paths that
is not classified (and thereby covered by `addNode_total` / `addReference_total`). -/
theorem all_sites_classified : ∀ s ∈ panicSites, s ∈ classified.map (·.1) := by
  decide

/-! ### guards, not only sites (regenerated from the source on every run) -/

/-- **Regenerated obligation**: the node-management handlers answer with the status codes the
model has, in the model's order (a guard that is removed, added or moved changes this list). -/
theorem status_order_as_modelled :
    statusOrder_add_nodes = ["BadTooManyOperations", "BadNothingToDo", "BadNothingToDo"] ∧
    statusOrder_add_references = ["BadTooManyOperations", "BadNothingToDo", "BadNothingToDo"] ∧
    statusOrder_add_node = ["BadUserAccessDenied", "BadNodeIdRejected", "BadNodeClassInvalid", "BadNodeIdRejected",
      "BadNodeIdExists", "BadBrowseNameInvalid", "BadBrowseNameDuplicated", "BadTypeDefinitionInvalid",
      "BadParentNodeIdInvalid", "Good", "BadNodeAttributesInvalid", "BadReferenceTypeIdInvalid"] ∧
    statusOrder_add_reference = ["BadUserAccessDenied", "BadServerUriInvalid", "BadReferenceLocalOnly",
      "BadSourceNodeIdInvalid", "BadTargetNodeIdInvalid", "BadNodeClassInvalid", "BadReferenceNotAllowed",
      "BadNodeClassInvalid", "Good", "BadDuplicateReferenceNotAllowed", "BadReferenceTypeIdInvalid"] := by
  decide

/-- operand count `evaluate` demands for an operator (by its source name) -/
def minFor (op : String) : Nat := (minOperandsTable.lookup op).getD minOperandsDefault

/-- source names of the operators each model operator stands for -/
def fopSourceNames : FOp → List String
  | .eq => ["Equals"] | .isNull => ["IsNull"] | .gt => ["GreaterThan"] | .lt => ["LessThan"]
  | .gte => ["GreaterThanOrEqual"] | .lte => ["LessThanOrEqual"] | .not => ["Not"] | .between => ["Between"]
  | .inList => ["InList"] | .and => ["And"] | .or => ["Or"]
  | .unsupported => ["RelatedTo", "InView", "OfType"]

/-- **Regenerated obligation**: the model's `minOperands` is the table written in `evaluate`. -/
theorem min_operands_as_modelled (op : FOp) : ∀ n ∈ fopSourceNames op, minFor n = minOperands op := by
  cases op <;> decide

/-- **Regenerated obligation**: every operator function reads only operands whose index is below the
count `evaluate` demands for every operator dispatched to it; the only non-constant operand index is
`operands[1..]` of `in_list` (needs one operand, two are demanded); `value_of` has no potential panic
site left. -/
theorem operand_indices_guarded :
    (∀ d ∈ operatorDispatch, ∀ m ∈ operatorMaxIndex, m.1 = d.2 → m.2 < minFor d.1) ∧
    (∀ d ∈ operatorDispatch, (operatorMaxIndex.lookup d.2).isSome = true) ∧
    (∀ x ∈ operatorOtherIndex, x = ("in_list", "1..")) ∧
    valueOfSites = [] := by
  decide

end OpcuaVerif.C33
