import OpcuaVerif.Generated.C33Sites
import OpcuaVerif.Proofs.C33

/-!
C33 — every potential panic site that the translator finds on the modelled node-management paths
(regenerated from the source on every run) is classified here: which model `Site` it is, and which
theorem shows that the service cannot reach it.  A site the source gains later is not in this table,
so `all_sites_classified` stops checking (an unclassified obligation).
-/
namespace OpcuaVerif.C33

/-- classification: (file, function, kind, ordinal) ↦ the model's site -/
def classified : List ((String × String × String × Nat) × Site) := [
  -- `AddressSpace::insert` asserts the namespace of the new node: unreachable from AddNodes, the
  -- handler rejects unregistered namespaces first (`addNode_total`, site `assertNamespace`)
  (("address_space.rs", "assert_namespace", "panic", 0), .assertNamespace),
  -- `References::insert_reference` refuses source = target: unreachable from AddReferences, the
  -- handler answers BadReferenceNotAllowed first (`addReference_total`, site `selfReference`)
  (("references.rs", "insert_reference", "panic", 0), .selfReference)
]

/-- **Regenerated obligation**: the source has no potential panic site on the modelled paths that
is not classified (and thereby covered by `addNode_total` / `addReference_total`). -/
theorem all_sites_classified : ∀ s ∈ panicSites, s ∈ classified.map (·.1) := by
  decide

end OpcuaVerif.C33
