import OpcuaVerif.Model.C18
import OpcuaVerif.Generated.CryptoPolicy
import OpcuaVerif.Lemmas.C18Table

/-!
C18 — Certificate trust verdicts follow the configured trust store.

The model is a finite decision table (`Row` → `Res`): every theorem below quantifies over ALL rows
(2^6 · 4 · 3 · 3 · 3 · 3 = 20 736).  `good_iff` and the table lemmas of `Lemmas/C18Table.lean` are
closed by the exhaustive case split `c18_table`; the other theorems follow from them.
-/
namespace OpcuaVerif.C18

/-- the acceptance condition of the property, as a predicate on the inputs alone -/
def Acceptable (tu sv ct rd ir td : Bool) (tf : TrustedFile) (k : KeyCheck) (tm : TimeV) (ho : HostV)
    (ur : UriV) : Prop :=
  rd = true ∧ td = true ∧ ir = false ∧                         -- stores exist, not in the rejected store
  (tf = .same ∨ (tf = .absent ∧ tu = true)) ∧                  -- byte-identical trusted copy, or unknown certs trusted
  k = .valid ∧                                                  -- key length valid for the policy
  (sv = true ∨                                                  -- verification skipped, or …
    ((ct = false ∨ tm = .valid) ∧ ho ≠ .mismatch ∧ ur ≠ .mismatch))

/-- **good_iff**: the certificate is accepted exactly under the property's condition. -/
theorem good_iff : ∀ (tu sv ct rd ir td : Bool) (tf : TrustedFile) (k : KeyCheck) (tm : TimeV) (ho : HostV)
    (ur : UriV),
    (validateOrReject ⟨tu, sv, ct, rd, ir, td, tf, k, tm, ho, ur⟩).status = some .good ↔
      Acceptable tu sv ct rd ir td tf k tm ho ur := by
  intro tu sv ct rd ir td tf k tm ho ur
  cases rd <;> cases ir <;> cases td <;> cases tf <;> cases k <;> cases sv <;>
    simp [validateOrReject, validate, Acceptable, Res.ret] <;>
    (cases tu <;> cases ct <;> cases tm <;> cases ho <;> cases ur <;> simp)

/-- the property's first sentence, literally ("accepted only if …") -/
theorem good_only_if (r : Row) (h : (validateOrReject r).status = some .good) :
    r.inRej = false ∧ (r.trusted = .same ∨ r.trustUnknown = true) ∧ r.key = .valid ∧
      (r.skipVerify = true ∨
        ((r.checkTime = false ∨ r.time = .valid) ∧ r.host ≠ .mismatch ∧ r.uri ≠ .mismatch)) := by
  obtain ⟨tu, sv, ct, rd, ir, td, tf, k, tm, ho, ur⟩ := r
  have := (good_iff tu sv ct rd ir td tf k tm ho ur).mp h
  unfold Acceptable at this
  obtain ⟨_, _, h3, h4, h5, h6⟩ := this
  refine ⟨h3, ?_, h5, h6⟩
  rcases h4 with h4 | h4
  · exact Or.inl h4
  · exact Or.inr h4.2

/-- **untrusted_unknown_rejected**: an unknown certificate (in neither store) that is not trusted
gets BadCertificateUntrusted and is placed in the rejected store. -/
theorem untrusted_unknown_rejected : ∀ (sv ct : Bool) (k : KeyCheck) (tm : TimeV) (ho : HostV) (ur : UriV),
    validateOrReject ⟨false, sv, ct, true, false, true, .absent, k, tm, ho, ur⟩ =
      ⟨some .badCertificateUntrusted, true, false⟩ := by
  intro sv ct k tm ho ur
  simp [validateOrReject, validate, Res.ret]

/-- **accepted_never_rejected**: an accepted certificate is not in the rejected store before the
call and is not placed there by it. -/
theorem accepted_never_rejected (tu sv ct rd ir td : Bool) (tf : TrustedFile) (k : KeyCheck) (tm : TimeV)
    (ho : HostV) (ur : UriV)
    (h : (validateOrReject ⟨tu, sv, ct, rd, ir, td, tf, k, tm, ho, ur⟩).status = some .good) :
      ir = false ∧ (validateOrReject ⟨tu, sv, ct, rd, ir, td, tf, k, tm, ho, ur⟩).storedRejected = false := by
  refine ⟨((good_iff tu sv ct rd ir td tf k tm ho ur).mp h).2.2.1, ?_⟩
  cases hs : (validateOrReject ⟨tu, sv, ct, rd, ir, td, tf, k, tm, ho, ur⟩).storedRejected with
  | false => rfl
  | true =>
    have := (stored_rejected_iff tu sv ct rd ir td tf k tm ho ur).mp hs
    rw [h] at this
    simp at this

/-- the trusted store only grows when unknown certificates are configured to be trusted -/
theorem stored_trusted_only_if (tu sv ct rd ir td : Bool) (tf : TrustedFile) (k : KeyCheck) (tm : TimeV)
    (ho : HostV) (ur : UriV)
    (h : (validateOrReject ⟨tu, sv, ct, rd, ir, td, tf, k, tm, ho, ur⟩).storedTrusted = true) :
      tu = true ∧ tf = .absent ∧ ir = false := by
  have := (stored_trusted_iff tu sv ct rd ir td tf k tm ho ur).mp h
  exact ⟨this.2.2.2.2, this.2.2.2.1, this.2.1⟩

/-- a certificate that is in the rejected store is never accepted, whatever else holds -/
theorem rejected_store_wins : ∀ (tu sv ct td : Bool) (tf : TrustedFile) (k : KeyCheck) (tm : TimeV)
    (ho : HostV) (ur : UriV),
    validateOrReject ⟨tu, sv, ct, true, true, td, tf, k, tm, ho, ur⟩ =
      ⟨some .badSecurityChecksFailed, false, false⟩ := by
  intro tu sv ct td tf k tm ho ur
  simp [validateOrReject, validate, Res.ret]

/-- a file under the certificate's name in `trusted/` with other contents never makes it trusted -/
theorem renamed_file_not_trusted (tu sv ct rd ir td : Bool) (k : KeyCheck) (tm : TimeV) (ho : HostV)
    (ur : UriV) (tf : TrustedFile) (htf : tf = .different ∨ tf = .garbage) :
    (validateOrReject ⟨tu, sv, ct, rd, ir, td, tf, k, tm, ho, ur⟩).status ≠ some .good := by
  intro h
  have := ((good_iff tu sv ct rd ir td tf k tm ho ur).mp h).2.2.2.1
  rcases htf with rfl | rfl <;> simp at this

/-- no panic unless the policy has no key lengths (`None`/`Unknown`, excluded by the callers) -/
theorem no_panic (tu sv ct rd ir td : Bool) (tf : TrustedFile) (k : KeyCheck) (tm : TimeV) (ho : HostV)
    (ur : UriV) (hk : k ≠ .panics) :
    (validateOrReject ⟨tu, sv, ct, rd, ir, td, tf, k, tm, ho, ur⟩).status ≠ none := by
  intro h
  exact hk ((panic_iff tu sv ct rd ir td tf k tm ho ur).mp h).2.2.2.2

/-- hand-written table of the asymmetric key lengths per security profile (OPC UA Part 7):
Basic128Rsa15, Basic256: 1024–2048; Basic256Sha256, Aes128-Sha256-RsaOaep, Aes256-Sha256-RsaPss:
2048–4096.  Checked for the key sizes in use. -/
def part7KeyOk : Policy → Nat → Option Bool
  | .basic128Rsa15, b | .basic256, b => some (decide (1024 ≤ b ∧ b ≤ 2048))
  | .basic256Sha256, b | .aes128Sha256RsaOaep, b | .aes256Sha256RsaPss, b => some (decide (2048 ≤ b ∧ b ≤ 4096))
  | .none, _ | .unknown, _ => Option.none

theorem keyCheck_matches_part7 (p : Policy) (bits : Nat) :
    (keyCheck p bits = .valid ↔ part7KeyOk p bits = some true) ∧
    (keyCheck p bits = .invalid ↔ part7KeyOk p bits = some false) ∧
    (keyCheck p bits = .panics ↔ part7KeyOk p bits = Option.none) := by
  cases p <;> simp [keyCheck, Policy.minMax?, part7KeyOk] <;>
    (by_cases h1 : 1024 ≤ bits <;> by_cases h2 : bits ≤ 2048 <;>
     by_cases h3 : 2048 ≤ bits <;> by_cases h4 : bits ≤ 4096 <;> simp [h1, h2, h3, h4] <;> omega)

/-- the property for concrete policies and key sizes: accepted ⇒ the key length is in the
policy's range -/
theorem good_key_length (tu sv ct rd ir td : Bool) (tf : TrustedFile) (p : Policy) (bits : Nat) (tm : TimeV)
    (ho : HostV) (ur : UriV)
    (h : (validateOrReject ⟨tu, sv, ct, rd, ir, td, tf, keyCheck p bits, tm, ho, ur⟩).status = some .good) :
    ∃ lo hi, p.minMax? = some (lo, hi) ∧ lo ≤ bits ∧ bits ≤ hi := by
  have hk := ((good_iff tu sv ct rd ir td tf _ tm ho ur).mp h).2.2.2.2.1
  unfold keyCheck at hk
  cases hm : p.minMax? with
  | none => simp [hm] at hk
  | some lh =>
    obtain ⟨lo, hi⟩ := lh
    simp only [hm] at hk
    by_cases hb : lo ≤ bits ∧ bits ≤ hi
    · exact ⟨lo, hi, rfl, hb.1, hb.2⟩
    · simp [hb] at hk

/-! ### the flag setters: each touches exactly one flag; a long-lived store decides by the flags as
last set individually -/

theorem setSkip_only (f : Flags) (b : Bool) :
    (f.setSkip b).skipVerify = b ∧ (f.setSkip b).trustUnknown = f.trustUnknown ∧ (f.setSkip b).checkTime = f.checkTime :=
  ⟨rfl, rfl, rfl⟩

theorem setTrust_only (f : Flags) (b : Bool) :
    (f.setTrust b).trustUnknown = b ∧ (f.setTrust b).skipVerify = f.skipVerify ∧ (f.setTrust b).checkTime = f.checkTime :=
  ⟨rfl, rfl, rfl⟩

theorem setTime_only (f : Flags) (b : Bool) :
    (f.setTime b).checkTime = b ∧ (f.setTime b).skipVerify = f.skipVerify ∧ (f.setTime b).trustUnknown = f.trustUnknown :=
  ⟨rfl, rfl, rfl⟩

inductive Setter where
  | skip | trust | time
deriving Repr, DecidableEq

def Flags.get (f : Flags) : Setter → Bool
  | .skip => f.skipVerify | .trust => f.trustUnknown | .time => f.checkTime

def Flags.apply (f : Flags) (op : Setter × Bool) : Flags :=
  match op.1 with
  | .skip => f.setSkip op.2 | .trust => f.setTrust op.2 | .time => f.setTime op.2

/-- the value a setter was last called with in a sequence of setter calls -/
def lastSet (k : Setter) : List (Setter × Bool) → Option Bool
  | [] => none
  | op :: rest => match lastSet k rest with
    | some v => some v
    | none => if op.1 = k then some op.2 else none

/-- **Any sequence of setter calls**: afterwards every flag has the value its OWN setter was last
called with, or its initial value if that setter was never called — no setter has a side effect on
another flag, in any order, any number of times. -/
theorem flags_as_last_set (ops : List (Setter × Bool)) (f : Flags) (k : Setter) :
    (ops.foldl Flags.apply f).get k = (lastSet k ops).getD (f.get k) := by
  induction ops generalizing f with
  | nil => rfl
  | cons op rest ih =>
    simp only [List.foldl_cons, lastSet]
    rw [ih]
    cases h : lastSet k rest with
    | some v => rfl
    | none =>
      obtain ⟨s, b⟩ := op
      cases s <;> cases k <;> simp [Flags.apply, Flags.get, Flags.setSkip, Flags.setTrust, Flags.setTime]

/-- a validation on a long-lived store is the table row made of the flags as they stand and the
directory state the earlier calls left -/
theorem live_check_good_iff (l : Live) (k : KeyCheck) (tm : TimeV) (ho : HostV) (ur : UriV) :
    (l.check k tm ho ur).1.status = some .good ↔
      Acceptable l.flags.trustUnknown l.flags.skipVerify l.flags.checkTime l.rejDir l.inRej l.trDir l.trusted k tm ho ur :=
  good_iff _ _ _ _ _ _ _ _ _ _ _

/-- in particular: with verification not skipped and `check_time` on (as last set), an expired or
not-yet-valid certificate is never accepted, whatever was set and unset before -/
theorem live_time_enforced (l : Live) (k : KeyCheck) (tm : TimeV) (ho : HostV) (ur : UriV)
    (hs : l.flags.skipVerify = false) (hc : l.flags.checkTime = true) (ht : tm ≠ .valid) :
    (l.check k tm ho ur).1.status ≠ some .good := by
  intro h
  have := ((live_check_good_iff l k tm ho ur).mp h).2.2.2.2.2
  rcases this with h1 | ⟨h2 | h2, _⟩
  · rw [hs] at h1; exact absurd h1 (by decide)
  · rw [hc] at h2; exact absurd h2 (by decide)
  · exact ht h2

/-! ### the model's key ranges are the ones in the source (translator T2) -/

def Policy.rustName : Policy → String
  | .none => "None" | .basic128Rsa15 => "Basic128Rsa15" | .basic256 => "Basic256"
  | .basic256Sha256 => "Basic256Sha256" | .aes128Sha256RsaOaep => "Aes128Sha256RsaOaep"
  | .aes256Sha256RsaPss => "Aes256Sha256RsaPss" | .unknown => "Unknown"

open OpcuaVerif.Generated.CryptoPolicy in
/-- regenerated from `security_policy.rs` on every check -/
theorem model_matches_source (p : Policy) : p.minMax? = lookup asymKeyLen p.rustName := by
  cases p <;> decide +kernel

open OpcuaVerif.Generated.CryptoPolicy in
/-- the statuses exempt from being stored in `rejected/`, and the sequence of conditions and returns of `validate_application_instance_cert`, are the ones the table model copies
(regenerated from the source on every check; the right-hand sides are the shapes the model was
written from — a change of a guard, an argument order or a condition breaks this obligation) -/
theorem source_shape :
    lookup shape "reject.not_stored_for" = some "StatusCode::BadUnexpectedError|StatusCode::BadSecurityChecksFailed" ∧
    lookup shape "validate.returns_in_order" = some "StatusCode::BadUnexpectedError|StatusCode::BadSecurityChecksFailed|StatusCode::BadUnexpectedError|StatusCode::BadCertificateUntrusted|StatusCode::BadUnexpectedError|StatusCode::BadSecurityChecksFailed|StatusCode::BadSecurityChecksFailed|StatusCode::Good|status_code|status_code|status_code" ∧
    lookup shape "validate.conditions_in_order" = some "!cert_path.exists()|cert_path.exists()|!cert_path.exists()|!cert_path.exists()|self.trust_unknown_certs|!CertificateStore::ensure_cert_and_file_are_the_same(cert,&cert_path)|!security_policy.is_valid_keylength(key_length)|self.skip_verify_certs|self.check_time|status_code.is_bad()|letSome(hostname)=hostname|status_code.is_bad()|letSome(application_uri)=application_uri|status_code.is_bad()" ∧
    lookup shape "keylength.range" = some "keylength>=min_max.0&&keylength<=min_max.1" := by
  decide +kernel

end OpcuaVerif.C18
