import OpcuaVerif.Lemmas.C07

/-!
C07 — any message survives chunking and channel security unchanged.

Property theorems only (model `OpcuaVerif.Model.C07` + receive path `OpcuaVerif.Model.C09`, lemmas
`OpcuaVerif.Lemmas.C07`).  The round trip is proved for MSG/CLO messages in every mode and any number of chunks (`roundtrip`),
after three repairs of the code (padding stripped on symmetric receive, no padding in Sign mode, body
budget); the pinned behaviour is kept as counterexample theorems.  OPN chunks exceed the negotiated
size (recorded finding).
-/
namespace OpcuaVerif.C07
open OpcuaVerif.C09

theorem mkChunks_mem (s : Sender) (t : MType) (seq req : Nat) : ∀ (bs : List Bytes) (i : Nat) (c : Bytes),
    c ∈ mkChunks s t seq req i bs → ∃ f q b, b ∈ bs ∧ c = newChunk s t f q req b := by
  intro bs
  induction bs with
  | nil => intro i c h; simp [mkChunks] at h
  | cons x xs ih =>
    intro i c h
    cases xs with
    | nil => simp [mkChunks] at h; exact ⟨_, _, x, by simp, h⟩
    | cons y ys =>
      simp only [mkChunks, List.mem_cons] at h
      rcases h with h | h
      · exact ⟨_, _, x, by simp, h⟩
      · obtain ⟨f, q, b, hb, hc⟩ := ih (i + 1) c (by simpa [mkChunks] using h)
        exact ⟨f, q, b, by simp [hb], hc⟩

theorem mem_flatten_length : ∀ (l : List Bytes) (b : Bytes), b ∈ l → b.length ≤ l.flatten.length := by
  intro l
  induction l with
  | nil => intro b h; simp at h
  | cons x xs ih =>
    intro b h
    simp only [List.mem_cons] at h
    simp only [List.flatten_cons, List.length_append]
    rcases h with rfl | h
    · omega
    · have := ih b h; omega

/-- inversion of `encode` with a chunk size limit -/
theorem encode_chunks_inv (s : Sender) (t : MType) (seq req maxMsg maxChunk msgLen : Nat) (data : Bytes)
    (cs : List Bytes) (hmc : 0 < maxChunk)
    (h : encode s t seq req maxMsg maxChunk msgLen data = .chunks cs) :
    ∃ mb, maxBody s t maxChunk = some mb ∧ overhead s t ≤ maxChunk ∧ mb ≤ maxChunk - overhead s t ∧
      0 < mb ∧ paddedSizeW SFixes.current s t mb ≤ maxChunk ∧
      cs = mkChunks s t seq req 0 (split mb data.length data) := by
  unfold encode encodeW at h
  by_cases h1 : maxMsg > 0 ∧ msgLen > maxMsg
  · rw [if_pos h1] at h; cases h
  · rw [if_neg h1, if_pos hmc] at h
    cases hmb : maxBodyW SFixes.current s t maxChunk with
    | none => rw [hmb] at h; cases h
    | some mb =>
      rw [hmb] at h
      (try simp only [] at h)
      by_cases h2 : maxChunk < overheadW SFixes.current s t
      · rw [if_pos h2] at h; cases h
      · rw [if_neg h2] at h
        by_cases h3 : mb = 0
        · rw [if_pos h3] at h; cases h
        · rw [if_neg h3] at h
          cases h
          have hbud : SFixes.current.budget = true := rfl
          unfold maxBodyW at hmb
          split at hmb
          · cases hmb
          · rename_i hge
            (try rw [if_pos hbud] at hmb)
            cases hmb
            have hfit := shrink_fits (fun b => decide (paddedSizeW SFixes.current s t b ≤ maxChunk)) _ h3
            refine ⟨_, ?_, by unfold overhead; omega, shrink_le _ _, Nat.pos_of_ne_zero h3,
              of_decide_eq_true hfit, rfl⟩
            unfold maxBody maxBodyW overhead
            rw [if_neg hge, if_pos hbud]

/-- **Header invariants** of what `Chunker::encode` produces with a chunk size limit: the number of
chunks is ⌈|data| / maxBody⌉, chunk `k` carries sequence number `seq + k`, the one request id, the
`k`-th slice of the data, and the final flag exactly when it is the last chunk; the slices are
non-empty, at most `maxBody` long and concatenate to the data. -/
theorem chunks_wellformed (s : Sender) (t : MType) (seq req maxMsg maxChunk msgLen : Nat) (data : Bytes)
    (cs : List Bytes) (hmc : 0 < maxChunk)
    (h : encode s t seq req maxMsg maxChunk msgLen data = .chunks cs) :
    ∃ (mb : Nat) (bodies : List Bytes), maxBody s t maxChunk = some mb ∧ 0 < mb ∧
      bodies.flatten = data ∧ (∀ b ∈ bodies, 0 < b.length ∧ b.length ≤ mb) ∧
      cs.length = (data.length + mb - 1) / mb ∧ cs.length = bodies.length ∧
      ∀ k b, bodies[k]? = some b →
        cs[k]? = some (newChunk s t (if k + 1 = bodies.length then .final else .intermediate) (seq + k) req b) := by
  obtain ⟨mb, hmb, _, _, hpos, _, hcs⟩ := encode_chunks_inv s t seq req maxMsg maxChunk msgLen data cs hmc h
  subst hcs
  refine ⟨mb, split mb data.length data, hmb, hpos, split_flatten mb hpos _ _ (Nat.le_refl _),
    split_pieces mb hpos _ _, ?_, mkChunks_length _ _ _ _ _ _, ?_⟩
  · rw [mkChunks_length, split_count mb hpos _ _ (Nat.le_refl _)]
  · intro k b hb
    have := mkChunks_get s t seq req _ 0 k b hb
    simpa using this

/-- without a limit (`max_chunk_size = 0`) there is exactly one, final, chunk holding all the data -/
theorem single_chunk (s : Sender) (t : MType) (seq req maxMsg msgLen : Nat) (data : Bytes) (cs : List Bytes)
    (h : encode s t seq req maxMsg 0 msgLen data = .chunks cs) :
    cs = [newChunk s t .final seq req data] := by
  unfold encode encodeW at h
  split at h
  · cases h
  · simp at h; exact h.symm

theorem recvAll_id (C : Crypto) (ch : Chan) : ∀ cs : List Bytes,
    (∀ c ∈ cs, recv C ch c = (ch, .ok c)) → recvAll C ch cs = some cs := by
  intro cs
  induction cs with
  | nil => intro _; rfl
  | cons c cs ih =>
    intro h
    simp only [recvAll, h c (by simp)]
    rw [ih (fun c' hc' => h c' (by simp [hc']))]
    rfl

/-- the receiving end of a sender's channel: same policy and mode, keys derived -/
def Matches (ch : Chan) (s : Sender) : Prop :=
  ch.policy = s.policy ∧ ch.mode = s.mode ∧ ch.keys = true

/-- every chunk `MessageChunk::new` makes comes back from the receiver exactly as it was made,
whatever the mode -/
theorem recv_chunk_id (SC : SCrypto) (C : Crypto) (laws : RTLaws SC C) (claws : CryptoLaws C)
    (s : Sender) (t : MType) (ht : t ≠ .opn) (ch : Chan) (hch : Matches ch s) (f : Fin) (seq req : Nat)
    (body : Bytes) (hn : 24 + body.length + 16 + 32 < 4294967296) :
    recv C ch (applySecurity SC s t (newChunk s t f seq req body)) = (ch, .ok (newChunk s t f seq req body)) := by
  by_cases hs : secured s
  · exact recv_secured_id SC C laws claws s hs t ht ch hch.1 hch.2.1 hch.2.2 f seq req body hn
  · have : applySecurity SC s t (newChunk s t f seq req body) = newChunk s t f seq req body := by
      simp [applySecurity, applySecurityW, hs]
    rw [this]
    have hns : ¬ ch.secured := by
      unfold Chan.secured; rw [hch.1, hch.2.1]; exact hs
    exact recv_unsecured_id _ C ch hns s t ht f seq req body (by omega)

theorem recvAll_map_id (C : Crypto) (ch : Chan) (g : Bytes → Bytes) : ∀ cs : List Bytes,
    (∀ c ∈ cs, recv C ch (g c) = (ch, .ok c)) → recvAll C ch (cs.map g) = some cs := by
  intro cs
  induction cs with
  | nil => intro _; rfl
  | cons c cs ih =>
    intro h
    simp only [List.map_cons, recvAll, h c (by simp)]
    rw [ih (fun c' hc' => h c' (by simp [hc']))]
    rfl

/-- **Round trip.**  For every policy, every mode (None, Sign, SignAndEncrypt), every chunk size
limit and every MSG/CLO message — any data, any number of chunks — the chunks the sender produces,
once secured (`apply_security`) and passed through the receiver's verification and decryption
(`verify_and_remove_security`), come back as exactly the chunks `Chunker::encode` made and
reassemble (`Chunker::decode`) to exactly the bytes that were sent.  Hypotheses: the primitives'
laws (`mac` verifies, AES decrypts what it encrypted, lengths), the receiver's channel matches the
sender's, sizes below 2^32.  (OPN chunks: checked by correspondence only.) -/
theorem roundtrip (SC : SCrypto) (C : Crypto) (laws : RTLaws SC C) (claws : CryptoLaws C) (s : Sender)
    (t : MType) (ht : t ≠ .opn) (ch : Chan) (hch : Matches ch s) (seq req maxMsg maxChunk msgLen : Nat)
    (data : Bytes) (hd : data ≠ []) (hlen : 24 + data.length + 16 + 32 < 4294967296) (cs : List Bytes)
    (h : encode s t seq req maxMsg maxChunk msgLen data = .chunks cs) :
    recvAll C ch (cs.map (applySecurity SC s t)) = some cs ∧ reassemble ch cs = some data := by
  by_cases hmc : 0 < maxChunk
  · obtain ⟨mb, _, _, _, hpos, _, hcs⟩ := encode_chunks_inv s t seq req maxMsg maxChunk msgLen data cs hmc h
    have hbl : ∀ b ∈ split mb data.length data, b.length ≤ data.length := by
      intro b hb
      have h1 : (split mb data.length data).flatten = data := split_flatten mb hpos _ _ (Nat.le_refl _)
      have : b.length ≤ (split mb data.length data).flatten.length := mem_flatten_length _ _ hb
      rwa [h1] at this
    constructor
    · apply recvAll_map_id
      intro c hc
      rw [hcs] at hc
      obtain ⟨f, q, b, hb, rfl⟩ := mkChunks_mem s t seq req _ 0 c hc
      exact recv_chunk_id SC C laws claws s t ht ch hch f q req b (by have := hbl b hb; omega)
    · rw [hcs, reassemble_mkChunks ch s t ht seq req _ 0, split_flatten mb hpos _ _ (Nat.le_refl _)]
      intro hnil
      have h1 := split_flatten mb hpos data.length data (Nat.le_refl _)
      rw [hnil] at h1; simp at h1; exact hd h1
  · have hz : maxChunk = 0 := by omega
    subst hz
    have hc := single_chunk s t seq req maxMsg msgLen data cs h
    subst hc
    constructor
    · apply recvAll_map_id
      intro c hc
      simp at hc; subst hc
      exact recv_chunk_id SC C laws claws s t ht ch hch .final seq req data hlen
    · simp [reassemble, bodyOf_newChunk ch s t ht, Fin.byte]

/-- **Size bound**: no MSG/CLO chunk on the wire exceeds the negotiated chunk size, in any mode. -/
theorem chunk_size_bound (SC : SCrypto) (laws : SLaws SC) (s : Sender) (t : MType) (ht : t ≠ .opn)
    (seq req maxMsg maxChunk msgLen : Nat) (data : Bytes) (cs : List Bytes) (hmc : 0 < maxChunk)
    (h : encode s t seq req maxMsg maxChunk msgLen data = .chunks cs) :
    ∀ c ∈ cs, (applySecurity SC s t c).length ≤ maxChunk := by
  intro c hc
  obtain ⟨mb, hmb, hov, hle, hpos, hfit, hcs⟩ :=
    encode_chunks_inv s t seq req maxMsg maxChunk msgLen data cs hmc h
  rw [hcs] at hc
  obtain ⟨f, q, b, hb, rfl⟩ := mkChunks_mem s t seq req _ 0 c hc
  have hbm := (split_pieces mb hpos _ _ b hb).2
  have hsh := secHdr_sym_length s t ht
  have hl := newChunk_length s t f q req b
  by_cases hs : secured s
  · rw [sym_secured_length SC laws s t ht hs _ (by rw [hl]; omega), hl, hsh]
    have hmono := paddedSize_mono s t ht hs b.length mb hbm
    unfold paddedSizeW at hmono hfit
    rw [hsh, sigSize_sym s t ht] at hmono hfit
    have e : 12 + 4 + 8 + b.length - 24 = b.length := by omega
    rw [e]
    unfold paddingSize
    omega
  · have : applySecurity SC s t (newChunk s t f q req b) = newChunk s t f q req b := by
      simp [applySecurity, applySecurityW, hs]
    rw [this, hl]
    unfold overhead overheadW at hov hle
    omega

/-! ### Non-vacuity, the repaired defects, the recorded finding -/

def senderNone : Sender :=
  { policy := .none, mode := .none, isClient := true, chanId := 1, tokenId := 2, cert := [],
    ownKey := 128, remoteKey := 128, thumb := List.replicate 20 1 }

def senderB128Sign : Sender := { senderNone with policy := .b128, mode := .sign }
def senderB128SE : Sender := { senderNone with policy := .b128, mode := .signEncrypt }

example : ¬ secured senderNone := by decide
example : secured senderB128SE := by decide
example : Matches (receiverOf senderB128SE) senderB128SE := by unfold Matches; decide

/-- the toy primitives satisfy the laws of `roundtrip` -/
example : RTLaws (toySC 128 128) (toyRC 128) where
  macLen := by intro p d; simp [toySC]
  aesLen := by intro d; simp [toySC]
  macOk := by intro p d; simp [toyRC]
  aesInv := by intro d; simp [toySC, toyRC]

/-- the whole pipeline on pre-split bodies, with selectable repairs: secure every chunk, receive
every chunk, reassemble -/
def pipelineW (F : Fixes) (X : SFixes) (s : Sender) (t : MType) (bodies : List Bytes) : Option Bytes :=
  let rec go : Chan → List Bytes → Option (List Bytes)
    | _, [] => some []
    | ch, w :: ws =>
      match recvWith F (toyRC s.ownKey) ch w with
      | (ch', .ok d) => (go ch' ws).map (d :: ·)
      | _ => none
  (go (receiverOf s) ((mkChunks s t 10 3 0 bodies).map
    (applySecurityW X (toySC s.remoteKey s.ownKey) s t))).bind (reassemble (receiverOf s))

/-- **Repaired (receiver)**: the pinned receiver stripped the signature of an encrypted MSG chunk but
kept its padding: data `1..8` sent in two chunks (bodies of 5 and 3 bytes) reassembled with the
15 and 1 padding bytes inside — 24 bytes of which the data is not a prefix. -/
theorem C07_counterexample_multichunk :
    pipelineW { Fixes.current with symPadding := false } SFixes.current senderB128SE .msg
        [[1, 2, 3, 4, 5], [6, 7, 8]] =
      some ([1, 2, 3, 4, 5] ++ List.replicate 15 14 ++ [6, 7, 8] ++ [0]) ∧
    ([1, 2, 3, 4, 5, 6, 7, 8] : Bytes).isPrefixOf
      ([1, 2, 3, 4, 5] ++ List.replicate 15 14 ++ [6, 7, 8] ++ [0]) = false := by
  decide

/-- **Repaired (sender)**: the pinned sender padded MSG chunks in Sign mode too; no receiver may strip
padding from an unencrypted chunk, so the same message failed in Sign mode as well. -/
theorem C07_counterexample_sign_padding :
    pipelineW Fixes.current SFixes.pinned senderB128Sign .msg [[1, 2, 3, 4, 5], [6, 7, 8]] =
      some ([1, 2, 3, 4, 5] ++ List.replicate 15 14 ++ [6, 7, 8] ++ [0]) := by
  decide

/-- the current code returns the data, in both modes and without security -/
example : pipelineW Fixes.current SFixes.current senderB128SE .msg [[1, 2, 3, 4, 5], [6, 7, 8]] =
    some [1, 2, 3, 4, 5, 6, 7, 8] := by decide
example : pipelineW Fixes.current SFixes.current senderB128Sign .msg [[1, 2, 3, 4, 5], [6, 7, 8]] =
    some [1, 2, 3, 4, 5, 6, 7, 8] := by decide
example : pipelineW Fixes.current SFixes.current senderNone .msg [[1, 2, 3, 4, 5], [6, 7, 8]] =
    some [1, 2, 3, 4, 5, 6, 7, 8] := by decide

/-- **Repaired (budget)**: Basic128Rsa15/SignAndEncrypt, limit 8196: the pinned budget was 8149 body
bytes (it assumed the 3 padding bytes of a 1-byte body) and a chunk with a full body needs 15:
24 + 8149 + 15 + 20 = 8208 > 8196 (observed on the real code: `sec=[8208,…]`).  The current budget
is 8147 bytes, which makes exactly 8192. -/
theorem C07_counterexample_size :
    maxBodyW SFixes.pinned senderB128SE .msg 8196 = some 8149 ∧
    paddedSizeW SFixes.pinned senderB128SE .msg 8149 = 8208 ∧
    paddedSizeW SFixes.current senderB128SE .msg 8147 = 8192 ∧
    paddedSizeW SFixes.current senderB128SE .msg 8148 = 8208 := by
  decide

/-- **Recorded**: OPN chunks — the RSA expansion (`cipher = ⌈plain / (k − overhead)⌉ · k`) is not
budgeted at all: with 1024-bit keys and Basic128Rsa15, 7020 plain bytes become 60 blocks of 128. -/
theorem C07_counterexample_opn_expansion :
    let ptbs := 128 - Policy.b128.rsaOverhead
    ptbs = 117 ∧ (7020 / ptbs) * 128 = 7680 ∧ 7680 - 7020 = 660 := by
  decide

end OpcuaVerif.C07
