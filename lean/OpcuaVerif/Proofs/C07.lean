import OpcuaVerif.Lemmas.C07

/-!
C07 — any message survives chunking and channel security unchanged.

Property theorems only (model `OpcuaVerif.Model.C07` + receive path `OpcuaVerif.Model.C09`, lemmas
`OpcuaVerif.Lemmas.C07`).  The round trip is proved for channels that do not sign (`roundtrip_partial`);
for signing channels the code does NOT have the property (recorded findings, counterexamples below).
-/
namespace OpcuaVerif.C07
open OpcuaVerif.C09

theorem mkChunks_mem (s : Sender) (t : MType) (seq req : Nat) : ∀ (bs : List Bytes) (i : Nat) (c : Bytes),
    c ∈ mkChunks s t seq req i bs → ∃ f q b, b ∈ bs ∧ c = newChunk s t f q req b := by
  intro bs
  induction bs with
  | nil => intro i c h; simp [mkChunks] at h
  | cons x xs ih =>
    intro i c h
    cases xs with
    | nil => simp [mkChunks] at h; exact ⟨_, _, x, by simp, h⟩
    | cons y ys =>
      simp only [mkChunks, List.mem_cons] at h
      rcases h with h | h
      · exact ⟨_, _, x, by simp, h⟩
      · obtain ⟨f, q, b, hb, hc⟩ := ih (i + 1) c (by simpa [mkChunks] using h)
        exact ⟨f, q, b, by simp [hb], hc⟩

theorem mem_flatten_length : ∀ (l : List Bytes) (b : Bytes), b ∈ l → b.length ≤ l.flatten.length := by
  intro l
  induction l with
  | nil => intro b h; simp at h
  | cons x xs ih =>
    intro b h
    simp only [List.mem_cons] at h
    simp only [List.flatten_cons, List.length_append]
    rcases h with rfl | h
    · omega
    · have := ih b h; omega

/-- inversion of `encode` with a chunk size limit -/
theorem encode_chunks_inv (s : Sender) (t : MType) (seq req maxMsg maxChunk msgLen : Nat) (data : Bytes)
    (cs : List Bytes) (hmc : 0 < maxChunk)
    (h : encode s t seq req maxMsg maxChunk msgLen data = .chunks cs) :
    ∃ mb, maxBody s t maxChunk = some mb ∧ overhead s t ≤ maxChunk ∧ mb = maxChunk - overhead s t ∧
      0 < mb ∧ cs = mkChunks s t seq req 0 (split mb data.length data) := by
  unfold encode at h
  by_cases h1 : maxMsg > 0 ∧ msgLen > maxMsg
  · rw [if_pos h1] at h; cases h
  · rw [if_neg h1, if_pos hmc] at h
    cases hmb : maxBody s t maxChunk with
    | none => rw [hmb] at h; cases h
    | some mb =>
      rw [hmb] at h
      (try simp only [] at h)
      by_cases h2 : maxChunk < overhead s t
      · rw [if_pos h2] at h; cases h
      · rw [if_neg h2] at h
        by_cases h3 : mb = 0
        · rw [if_pos h3] at h; cases h
        · rw [if_neg h3] at h
          cases h
          refine ⟨mb, rfl, by omega, ?_, Nat.pos_of_ne_zero h3, rfl⟩
          unfold maxBody at hmb
          split at hmb
          · cases hmb
          · cases hmb; rfl

/-- **Header invariants** of what `Chunker::encode` produces with a chunk size limit: the number of
chunks is ⌈|data| / maxBody⌉, chunk `k` carries sequence number `seq + k`, the one request id, the
`k`-th slice of the data, and the final flag exactly when it is the last chunk; the slices are
non-empty, at most `maxBody` long and concatenate to the data. -/
theorem chunks_wellformed (s : Sender) (t : MType) (seq req maxMsg maxChunk msgLen : Nat) (data : Bytes)
    (cs : List Bytes) (hmc : 0 < maxChunk)
    (h : encode s t seq req maxMsg maxChunk msgLen data = .chunks cs) :
    ∃ (mb : Nat) (bodies : List Bytes), maxBody s t maxChunk = some mb ∧ 0 < mb ∧
      bodies.flatten = data ∧ (∀ b ∈ bodies, 0 < b.length ∧ b.length ≤ mb) ∧
      cs.length = (data.length + mb - 1) / mb ∧ cs.length = bodies.length ∧
      ∀ k b, bodies[k]? = some b →
        cs[k]? = some (newChunk s t (if k + 1 = bodies.length then .final else .intermediate) (seq + k) req b) := by
  obtain ⟨mb, hmb, _, _, hpos, hcs⟩ := encode_chunks_inv s t seq req maxMsg maxChunk msgLen data cs hmc h
  subst hcs
  refine ⟨mb, split mb data.length data, hmb, hpos, split_flatten mb hpos _ _ (Nat.le_refl _),
    split_pieces mb hpos _ _, ?_, mkChunks_length _ _ _ _ _ _, ?_⟩
  · rw [mkChunks_length, split_count mb hpos _ _ (Nat.le_refl _)]
  · intro k b hb
    have := mkChunks_get s t seq req _ 0 k b hb
    simpa using this

/-- without a limit (`max_chunk_size = 0`) there is exactly one, final, chunk holding all the data -/
theorem single_chunk (s : Sender) (t : MType) (seq req maxMsg msgLen : Nat) (data : Bytes) (cs : List Bytes)
    (h : encode s t seq req maxMsg 0 msgLen data = .chunks cs) :
    cs = [newChunk s t .final seq req data] := by
  unfold encode at h
  split at h
  · cases h
  · simp at h; exact h.symm

theorem recvAll_id (C : Crypto) (ch : Chan) : ∀ cs : List Bytes,
    (∀ c ∈ cs, recv C ch c = (ch, .ok c)) → recvAll C ch cs = some cs := by
  intro cs
  induction cs with
  | nil => intro _; rfl
  | cons c cs ih =>
    intro h
    simp only [recvAll, h c (by simp)]
    rw [ih (fun c' hc' => h c' (by simp [hc']))]
    rfl

/-- **Round trip, partial**: on a channel that does not sign (policy None, or mode None/Invalid) every
MSG/CLO message — any data, any chunk size limit, any number of chunks — passes the receiver
unchanged chunk by chunk and reassembles to exactly the bytes that were sent.
Missing for the full property: channels in Sign/SignAndEncrypt mode (false for more than one chunk,
see `C07_counterexample_multichunk`) and OPN chunks. -/
theorem roundtrip_partial (C : Crypto) (SC : SCrypto) (s : Sender) (hs : ¬ secured s) (t : MType)
    (ht : t ≠ .opn) (ch : Chan) (hch : ¬ ch.secured) (seq req maxMsg maxChunk msgLen : Nat) (data : Bytes)
    (hd : data ≠ []) (hlen : 24 + data.length < 4294967296) (cs : List Bytes)
    (h : encode s t seq req maxMsg maxChunk msgLen data = .chunks cs) :
    recvAll C ch (cs.map (applySecurity SC s t)) = some cs ∧ reassemble ch cs = some data := by
  have happ : cs.map (applySecurity SC s t) = cs := by
    have : applySecurity SC s t = id := by funext c; simp [applySecurity, hs]
    rw [this, List.map_id]
  rw [happ]
  by_cases hmc : 0 < maxChunk
  · obtain ⟨mb, bodies, hmb, hpos, hflat, hpieces, _, hlen2, hget⟩ :=
      chunks_wellformed s t seq req maxMsg maxChunk msgLen data cs hmc h
    obtain ⟨mb', hmb', _, _, _, hcs'⟩ := encode_chunks_inv s t seq req maxMsg maxChunk msgLen data cs hmc h
    have hcs : cs = mkChunks s t seq req 0 (split mb data.length data) := by
      rw [hmb] at hmb'; cases hmb'; exact hcs'
    have hbl : ∀ b ∈ split mb data.length data, b.length ≤ data.length := by
      intro b hb
      have h1 : (split mb data.length data).flatten = data := split_flatten mb hpos _ _ (Nat.le_refl _)
      have : b.length ≤ (split mb data.length data).flatten.length := mem_flatten_length _ _ hb
      rwa [h1] at this
    constructor
    · apply recvAll_id
      intro c hc
      rw [hcs] at hc
      obtain ⟨f, q, b, hb, rfl⟩ := mkChunks_mem s t seq req _ 0 c hc
      exact recv_unsecured_id _ C ch hch s t ht f q req b (by have := hbl b hb; omega)
    · rw [hcs, reassemble_mkChunks ch s t ht seq req _ 0, split_flatten mb hpos _ _ (Nat.le_refl _)]
      intro hnil
      have h1 := split_flatten mb hpos data.length data (Nat.le_refl _)
      rw [hnil] at h1; simp at h1; exact hd h1
  · have hz : maxChunk = 0 := by omega
    subst hz
    have hc := single_chunk s t seq req maxMsg msgLen data cs h
    subst hc
    constructor
    · apply recvAll_id
      intro c hc
      simp at hc; subst hc
      exact recv_unsecured_id _ C ch hch s t ht .final seq req data hlen
    · simp [reassemble, bodyOf_newChunk ch s t ht, Fin.byte]

/-- **Size bound, channels that do not sign**: no chunk exceeds the negotiated size. -/
theorem chunk_size_bound_unsecured (SC : SCrypto) (s : Sender) (hs : ¬ secured s) (t : MType)
    (seq req maxMsg maxChunk msgLen : Nat) (data : Bytes) (cs : List Bytes) (hmc : 0 < maxChunk)
    (h : encode s t seq req maxMsg maxChunk msgLen data = .chunks cs) :
    ∀ c ∈ cs, (applySecurity SC s t c).length ≤ maxChunk := by
  intro c hc
  obtain ⟨mb, bodies, hmb, _, _, hpieces, _, hlen2, hget⟩ :=
    chunks_wellformed s t seq req maxMsg maxChunk msgLen data cs hmc h
  have hov : overhead s t ≤ maxChunk ∧ mb = maxChunk - overhead s t := by
    obtain ⟨mb', hmb', h1, h2, _, _⟩ := encode_chunks_inv s t seq req maxMsg maxChunk msgLen data cs hmc h
    rw [hmb] at hmb'; cases hmb'; exact ⟨h1, h2⟩
  obtain ⟨k, hk⟩ := List.getElem?_of_mem hc
  have hkl : k < bodies.length := by
    have := (List.getElem?_eq_some_iff.mp hk).1; omega
  have hb : bodies[k]? = some bodies[k] := List.getElem?_eq_getElem hkl
  have := hget k _ hb
  rw [hk] at this; cases this
  simp only [applySecurity, hs, if_false, newChunk_length]
  have := (hpieces _ (List.getElem_mem hkl)).2
  have : 12 + (secHdr s t).length + 8 ≤ overhead s t := by unfold overhead; omega
  omega

/-- **Size bound, signing channels, partial**: a secured MSG/CLO chunk exceeds the negotiated size by
less than one AES block (`≤ maxChunk + 15`).  Missing for the property: `≤ maxChunk` itself, which is
false (`C07_counterexample_size`). -/
theorem chunk_size_bound_sym_partial (SC : SCrypto) (laws : SLaws SC) (s : Sender) (hs : secured s)
    (t : MType) (ht : t ≠ .opn) (seq req maxMsg maxChunk msgLen : Nat) (data : Bytes) (cs : List Bytes)
    (hmc : 0 < maxChunk) (h : encode s t seq req maxMsg maxChunk msgLen data = .chunks cs) :
    ∀ c ∈ cs, (applySecurity SC s t c).length ≤ maxChunk + 15 := by
  intro c hc
  obtain ⟨mb, bodies, hmb, _, _, hpieces, _, hlen2, hget⟩ :=
    chunks_wellformed s t seq req maxMsg maxChunk msgLen data cs hmc h
  have hov : overhead s t ≤ maxChunk ∧ mb = maxChunk - overhead s t := by
    obtain ⟨mb', hmb', h1, h2, _, _⟩ := encode_chunks_inv s t seq req maxMsg maxChunk msgLen data cs hmc h
    rw [hmb] at hmb'; cases hmb'; exact ⟨h1, h2⟩
  obtain ⟨k, hk⟩ := List.getElem?_of_mem hc
  have hkl : k < bodies.length := by
    have := (List.getElem?_eq_some_iff.mp hk).1; omega
  have hb : bodies[k]? = some bodies[k] := List.getElem?_eq_getElem hkl
  have := hget k _ hb
  rw [hk] at this; cases this
  have hsh : (secHdr s t).length = 4 := by cases t <;> simp_all [secHdr, u32le]
  have hsig : sigSize s t = s.policy.symSig := by cases t <;> simp_all [sigSize]
  have hl := newChunk_length s t (if k + 1 = bodies.length then Fin.final else Fin.intermediate) (seq + k) req bodies[k]
  rw [sym_secured_length SC laws s t ht hs _ (by rw [hl]; omega), hl]
  have hb2 := (hpieces _ (List.getElem_mem hkl)).2
  have hp1 := (sym_block_aligned s t ht hs 1).2.1
  have hp2 := (sym_block_aligned s t ht hs (12 + (secHdr s t).length + 8 + bodies[k].length - 24)).2.2
  unfold overhead at hov
  omega

/-! ### Non-vacuity and the recorded findings -/

def senderNone : Sender :=
  { policy := .none, mode := .none, isClient := true, chanId := 1, tokenId := 2, cert := [],
    ownKey := 128, remoteKey := 128, thumb := List.replicate 20 1 }

def senderB128Sign : Sender := { senderNone with policy := .b128, mode := .sign }

example : ¬ secured senderNone := by decide
example : secured senderB128Sign := by decide

/-- The negotiated size is exceeded: Basic128Rsa15/Sign, limit 8196: the body budget is 8149 bytes
(it assumes the padding of a 1-byte body, 3) and a chunk with a full body needs 15 padding bytes:
24 + 8149 + 15 + 20 = 8208 > 8196 (observed on the real code: `sec=[8208,…]`). -/
theorem C07_counterexample_size :
    maxBody senderB128Sign .msg 8196 = some 8149 ∧
    24 + 8149 + (paddingSize senderB128Sign .msg 8149).1 + senderB128Sign.policy.symSig = 8208 := by
  decide

/-- the whole pipeline on pre-split bodies: secure every chunk, receive every chunk, reassemble -/
def pipeline (s : Sender) (t : MType) (bodies : List Bytes) : Option Bytes :=
  (recvAll (toyRC s.ownKey) (receiverOf s)
    ((mkChunks s t 10 3 0 bodies).map (applySecurity (toySC s.remoteKey s.ownKey) s t))).bind
    (reassemble (receiverOf s))

/-- Multi-chunk + signing does not round-trip: the receiver strips the signature but keeps the
padding, so the padding of every chunk but the last ends up INSIDE the reassembled body.  Small-scale
instance of the pipeline (data `1..8` in two chunks with bodies of 5 and 3 bytes, toy primitives):
what is reassembled is the first body, its 15 padding bytes, the second body and its padding byte —
24 bytes of which the 8 bytes sent are not a prefix. -/
theorem C07_counterexample_multichunk :
    pipeline senderB128Sign .msg [[1, 2, 3, 4, 5], [6, 7, 8]] =
      some ([1, 2, 3, 4, 5] ++ List.replicate 15 14 ++ [6, 7, 8] ++ [0]) ∧
    ([1, 2, 3, 4, 5, 6, 7, 8] : Bytes).isPrefixOf
      ([1, 2, 3, 4, 5] ++ List.replicate 15 14 ++ [6, 7, 8] ++ [0]) = false := by
  decide

/-- the same pipeline with a single chunk: the data comes back followed by the chunk's padding
(which the message decoder ignores); without signing nothing is added -/
example : pipeline senderB128Sign .msg [[1, 2, 3, 4, 5, 6, 7, 8]] =
    some ([1, 2, 3, 4, 5, 6, 7, 8] ++ List.replicate 12 11) := by decide

example : pipeline senderNone .msg [[1, 2, 3, 4, 5], [6, 7, 8]] = some [1, 2, 3, 4, 5, 6, 7, 8] := by
  decide

/-- OPN chunks: the RSA expansion (`cipher = ⌈plain / (k − overhead)⌉ · k`) is not budgeted at all:
with 1024-bit keys and Basic128Rsa15 a full 8196-byte budget becomes 117-byte blocks of 128 bytes. -/
theorem C07_counterexample_opn_expansion :
    let ptbs := 128 - Policy.b128.rsaOverhead
    ptbs = 117 ∧ (7020 / ptbs) * 128 = 7680 ∧ 7680 - 7020 = 660 := by
  decide

end OpcuaVerif.C07
