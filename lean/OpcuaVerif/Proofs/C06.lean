import OpcuaVerif.Model.C06
import OpcuaVerif.Lemmas.C06
import OpcuaVerif.Generated.ConvertTable

/-!
C06 — Implicit Variant conversion never changes a numeric value; explicit casts to integer types
round to nearest and give no result exactly when the rounded value is out of range.

Property theorems (model: `OpcuaVerif.Model.C06`, the code after the four `fix:` commits):

* implicit, integer target   : `convert_int_preserves`, `convert_out_of_range_none`
* implicit, float target     : `convert_int_to_float_nearest` (no value with ≤ 24/53 significant bits is
                               nearer), `convert_int_to_float` (correctly rounded: exact when the integer has
                               at most 24/53 significant bits, otherwise on the grid of its binade,
                               within half a grid step, ties to even), `convert_float_source`
* the table                  : `table_preserving` (every arm of `convert` is value preserving)
* explicit, integer source   : `cast_int_spec`  (result ⇔ in range, and then the same number)
* explicit, float source     : `cast_float_spec` + `castFloatToInt_spec` + `nearestAwayNat_nearest`
* the defects that were fixed: `C06_counterexample_*` (on the models of the old code)
-/
namespace OpcuaVerif.C06

/-! ### Implicit conversion between integer types -/

def Preserving (s d : NT) : CK → Bool
  | .none => true
  | .wrap => s.isInt && d.isInt && decide (d.minV ≤ s.minV) && decide (s.maxV ≤ d.maxV)
  | .guardNeg => s.isInt && d.isInt && decide (d.minV ≤ 0) && decide (s.maxV ≤ d.maxV)
  | .checked => s.isInt && d.isInt
  | .toFloat => s.isInt && d.isFloat
  | .fwiden => decide (s = .float) && decide (d = .double)

theorem table_preserving (s d : NT) : Preserving s d (convertKind s d) = true := by
  cases s <;> cases d <;> decide

theorem applyCK_sound (k : CK) (s d : NT) (x : Int) (r : Val) (hp : Preserving s d k = true)
    (hx : inRange s x) (h : applyCK k d (.int x) = some r) :
    (d.isInt = true → r = .int x ∧ inRange d x) ∧
    (d.isFloat = true → r = .flt (intToFl (fmtOf d) x)) := by
  cases k <;> simp [applyCK, Preserving] at h hp
  · -- wrap
    obtain ⟨⟨⟨hs, hd⟩, h1⟩, h2⟩ := hp
    have hr : inRange d x := by unfold inRange at *; omega
    subst h
    refine ⟨fun _ => ⟨by rw [wrapTo_of_inRange d x hd hr], hr⟩, fun hf => ?_⟩
    simp [NT.isInt, hf] at hd
  · -- guardNeg
    obtain ⟨⟨⟨hs, hd⟩, h1⟩, h2⟩ := hp
    obtain ⟨hx0, h⟩ := h
    have hr : inRange d x := by unfold inRange at *; omega
    subst h
    refine ⟨fun _ => ⟨by rw [wrapTo_of_inRange d x hd hr], hr⟩, fun hf => ?_⟩
    simp [NT.isInt, hf] at hd
  · -- checked
    obtain ⟨hs, hd⟩ := hp
    obtain ⟨hr, h⟩ := h
    subst h
    refine ⟨fun _ => ⟨rfl, hr⟩, fun hf => ?_⟩
    simp [NT.isInt, hf] at hd
  · -- toFloat
    obtain ⟨hs, hd⟩ := hp
    subst h
    refine ⟨fun hi => ?_, fun _ => rfl⟩
    simp [NT.isInt, hd] at hi



theorem convert_sound (s d : NT) (x : Int) (r : Val) (hs : s.isInt = true) (hx : inRange s x)
    (h : convert s d (.int x) = some r) :
    (d.isInt = true → r = .int x ∧ inRange d x) ∧
    (d.isFloat = true → r = .flt (intToFl (fmtOf d) x)) := by
  unfold convert convertWith at h
  by_cases hsd : s = d
  · subst hsd
    simp at h
    subst h
    exact ⟨fun _ => ⟨rfl, hx⟩, fun hf => by simp [NT.isInt, hf] at hs⟩
  · simp only [hsd, if_false] at h
    exact applyCK_sound _ s d x r (table_preserving s d) hx h

theorem convert_int_preserves (s d : NT) (x : Int) (r : Val) (hs : s.isInt = true)
    (hd : d.isInt = true) (hx : inRange s x) (h : convert s d (.int x) = some r) :
    r = .int x ∧ inRange d x :=
  (convert_sound s d x r hs hx h).1 hd

theorem convert_out_of_range_none (s d : NT) (x : Int) (hs : s.isInt = true) (hd : d.isInt = true)
    (hx : inRange s x) (hr : ¬ inRange d x) : convert s d (.int x) = none := by
  cases h : convert s d (.int x) with
  | none => rfl
  | some r => exact absurd (convert_int_preserves s d x r hs hd hx h).2 hr


/-! ### Explicit cast, integer source -/

theorem castIntToInt_spec (d : NT) (x : Int) (hd : d.isInt = true) :
    castIntToInt d x = if inRange d x then some (.int x) else none := by
  by_cases hr : inRange d x
  · rw [if_pos hr]
    unfold castIntToInt
    rw [wrapTo_of_inRange d x hd hr]
    have : (if x < 0 then d.minV ≠ 0 ∧ x ≥ d.minV else x ≥ 0 ∧ x ≤ d.maxV) := by
      unfold inRange at hr
      split <;> omega
    simp [this]
  · rw [if_neg hr]
    unfold castIntToInt
    have : ¬ (if x < 0 then d.minV ≠ 0 ∧ x ≥ d.minV else x ≥ 0 ∧ x ≤ d.maxV) := by
      unfold inRange at hr
      have h0 : d.minV ≤ 0 := by cases d <;> simp [NT.minV]
      have h1 : 0 ≤ d.maxV := by cases d <;> simp [NT.maxV]
      split <;> omega
    simp [this]


def castComplete (s d : NT) : Bool :=
  match convertKind s d with
  | .wrap | .checked => true
  | .guardNeg => decide (d.minV = 0)
  | .none => castKind s d == .toInt
  | _ => false

theorem cast_table_complete (s d : NT) : s.isInt = true → d.isInt = true → d ≠ .boolean → s ≠ d →
    castComplete s d = true ∧ (castKind s d = .toInt ∨ castKind s d = .none) := by
  cases s <;> cases d <;> decide

theorem cast_int_spec (s d : NT) (x : Int) (hs : s.isInt = true) (hd : d.isInt = true)
    (hb : d ≠ .boolean) (hx : inRange s x) :
    cast s d (.int x) = if inRange d x then some (.int x) else none := by
  by_cases hsd : s = d
  · subst hsd
    simp [cast, castWith, convert, convertWith, hx]
  · obtain ⟨hc, hk⟩ := cast_table_complete s d hs hd hb hsd
    unfold cast castWith
    simp only [Bool.false_eq_true, if_false]
    cases hcv : convert s d (.int x) with
    | some r =>
      have := convert_int_preserves s d x r hs hd hx hcv
      simp [this.1, this.2]
    | none =>
      simp only []
      unfold explicitWith
      simp only [Bool.false_eq_true, if_false]
      rcases hk with hk | hk
      · rw [hk]
        exact castIntToInt_spec d x hd
      · rw [hk]
        simp only []
        unfold convert convertWith at hcv
        simp only [hsd, if_false] at hcv
        unfold castComplete at hc
        have hd0 : d.minV ≤ 0 := by cases d <;> simp [NT.minV]
        cases hck : convertKind s d <;> simp [hck, applyCK, hk] at hc hcv
        · -- guardNeg
          have : ¬ inRange d x := by unfold inRange; omega
          simp [this]
        · -- checked
          simp [hcv]


/-! ### Explicit cast, float source -/


/-- **Explicit float → integer cast** (the code path `vt = v.round()` + `cast_to_integer!`):
a result exists exactly when the value is finite and its nearest integer (ties away from zero)
is in the target's range, and then it is that integer. -/
theorem castFloatToInt_spec (d : NT) (x : Fl) :
    castFloatToInt d x =
      match x with
      | .fin neg m e =>
        if inRange d (nearestAway neg m e) then some (.int (nearestAway neg m e)) else none
      | _ => none := by
  obtain ⟨b1, b2, b3, b4, b5⟩ := nt_bounds d
  cases x with
  | nan => simp [castFloatToInt, flRound, flNeg, flNonneg]
  | inf neg =>
    cases neg <;> simp [castFloatToInt, flRound, flNeg, flNonneg, satCast] <;> omega
  | fin neg m e =>
    obtain ⟨n, e', h1, h2, h3⟩ := flRound_fin neg m e
    simp only [castFloatToInt, h1, flNonneg, flNeg_fin neg n e' h2, satCast_fin, h3]
    exact castFloatToInt_aux _ _ _ b1 b2 b3 b4 b5


theorem cast_float_spec (s d : NT) (x : Fl) (hs : s.isFloat = true) (hd : d.isInt = true)
    (hb : d ≠ .boolean) : cast s d (.flt x) = castFloatToInt d x := by
  have hk : convertKind s d = .none ∧ castKind s d = .toInt ∧ s ≠ d := by
    revert hs hd hb
    cases s <;> cases d <;> decide
  obtain ⟨h1, h2, h3⟩ := hk
  simp [cast, castWith, convert, convertWith, h3, h1, applyCK, explicitWith, h2]


/-! ### Implicit conversion integer → float -/


theorem natAbs_lt_of_inRange (s : NT) (x : Int) (hx : inRange s x) : x.natAbs < 2 ^ 64 := by
  cases s <;> simp only [inRange, NT.minV, NT.maxV] at hx <;> omega

/-- what `v as f32` / `v as f64` gives for a 64-bit integer -/
theorem intToFl_eq (f : Fmt) (hf : f = fmt32 ∨ f = fmt64) (v : Int) (hv : v.natAbs < 2 ^ 64) :
    intToFl f v = if v = 0 then .fin false 0 f.qmin
      else .fin (decide (v < 0)) (intMant f v.natAbs) ((bitLen v.natAbs : Int) - (f.mbits + 1 : Nat)) := by
  by_cases h0 : v = 0
  · subst h0; simp [intToFl, roundFmt]
  · rw [if_neg h0]
    unfold intToFl
    exact roundFmt_int f hf _ _ (by omega) hv

/-- **Implicit conversion of an integer to `Float`/`Double` is correctly rounded.**
With `P` = 24 resp. 53 significant bits, `m = |x|` and `L` its bit length, the result is the float
`±mant·2^q` (sign of `x`) where
* if `L ≤ P` the result IS `x` (`mant·2^q = m`, written `mant = m·2^(−q)`, `q ≤ 0`);
* otherwise `q = L − P > 0`: the result lies on the grid `2^q·ℤ` of the floats of `x`'s own binade
  `[2^(L−1), 2^L]` (`mant ≤ 2^P`), at distance at most half a grid step from `x`, and an exact tie
  is resolved to the even significand — i.e. it is the representable value nearest to `x`. -/
theorem convert_int_to_float (s d : NT) (x : Int) (r : Val) (hs : s.isInt = true)
    (hd : d.isFloat = true) (hx : inRange s x) (h : convert s d (.int x) = some r) :
    ∃ mant q, r = .flt (.fin (decide (x < 0)) mant q) ∧
      (bitLen x.natAbs ≤ (fmtOf d).mbits + 1 → q ≤ 0 ∧ mant = x.natAbs * 2 ^ (-q).toNat) ∧
      ((fmtOf d).mbits + 1 < bitLen x.natAbs →
        q = (bitLen x.natAbs : Int) - ((fmtOf d).mbits + 1 : Nat) ∧
        2 ^ (bitLen x.natAbs - 1) ≤ x.natAbs ∧ x.natAbs < 2 ^ bitLen x.natAbs ∧
        mant ≤ 2 ^ ((fmtOf d).mbits + 1) ∧
        2 * (mant * 2 ^ q.toNat) ≤ 2 * x.natAbs + 2 ^ q.toNat ∧
        2 * x.natAbs ≤ 2 * (mant * 2 ^ q.toNat) + 2 ^ q.toNat ∧
        ((2 * (mant * 2 ^ q.toNat) = 2 * x.natAbs + 2 ^ q.toNat ∨
          2 * x.natAbs = 2 * (mant * 2 ^ q.toNat) + 2 ^ q.toNat) → mant % 2 = 0)) := by
  have hr := (convert_sound s d x r hs hx h).2 hd
  have hf : fmtOf d = fmt32 ∨ fmtOf d = fmt64 := by
    unfold fmtOf; split <;> simp
  rw [intToFl_eq _ hf x (natAbs_lt_of_inRange s x hx)] at hr
  by_cases h0 : x = 0
  · subst h0
    refine ⟨0, (fmtOf d).qmin, by simpa using hr, ?_, ?_⟩
    · intro _
      refine ⟨?_, by simp⟩
      rcases hf with e | e <;> rw [e] <;> decide
    · intro hc; simp [bitLen] at hc
  · rw [if_neg h0] at hr
    have hm : x.natAbs ≠ 0 := by omega
    have hb := bitLen_bounds x.natAbs hm
    refine ⟨_, _, hr, ?_, ?_⟩
    · intro hL
      refine ⟨by omega, ?_⟩
      unfold intMant
      rw [if_pos hL]
      congr 2
      omega
    · intro hL
      have hq : ((bitLen x.natAbs : Int) - ((fmtOf d).mbits + 1 : Nat)).toNat
          = bitLen x.natAbs - ((fmtOf d).mbits + 1) := by omega
      refine ⟨rfl, hb.1, hb.2, intMant_le _ _ hm, ?_⟩
      rw [hq]
      have hmant : intMant (fmtOf d) x.natAbs
          = rneShift x.natAbs (bitLen x.natAbs - ((fmtOf d).mbits + 1)) := by
        unfold intMant; rw [if_neg (by omega)]
      rw [hmant]
      exact rneShift_spec _ _


/-- **Implicit integer → Float/Double gives a representable value nearest to the integer** (the case
where rounding happens, `|x|` has more than `P` = 24/53 significant bits): the result is
`±mant·2^q` with `q = L − P`, and every competitor with at most `P` significant bits — integer valued
(`m'·2^e'`) or with a fractional part (`m'/2^k`, distances scaled by `2^k`) — is at least as far from
`|x|`.  Competitors of the opposite sign are farther still.  Together with the exact case of
`convert_int_to_float` this is "nearest representable" of the property text. -/
theorem convert_int_to_float_nearest (s d : NT) (x : Int) (r : Val) (hs : s.isInt = true)
    (hd : d.isFloat = true) (hx : inRange s x) (h : convert s d (.int x) = some r)
    (hL : (fmtOf d).mbits + 1 < bitLen x.natAbs) :
    ∃ mant : Nat,
      r = .flt (.fin (decide (x < 0)) mant ((bitLen x.natAbs - ((fmtOf d).mbits + 1) : Nat) : Int)) ∧
      (∀ m' e' : Nat, m' < 2 ^ ((fmtOf d).mbits + 1) →
        dist (mant * 2 ^ (bitLen x.natAbs - ((fmtOf d).mbits + 1))) x.natAbs ≤ dist (m' * 2 ^ e') x.natAbs) ∧
      (∀ m' k : Nat, m' < 2 ^ ((fmtOf d).mbits + 1) →
        m' ≤ x.natAbs * 2 ^ k ∧
        dist (mant * 2 ^ (bitLen x.natAbs - ((fmtOf d).mbits + 1))) x.natAbs * 2 ^ k ≤ x.natAbs * 2 ^ k - m') := by
  obtain ⟨mant, q, hr, -, hbig⟩ := convert_int_to_float s d x r hs hd hx h
  obtain ⟨hq, hlo, -, -, h1, h2, -⟩ := hbig hL
  have hqn : q.toNat = bitLen x.natAbs - ((fmtOf d).mbits + 1) := by omega
  rw [hqn] at h1 h2
  refine ⟨mant, ?_, ?_, ?_⟩
  · rw [hr, hq]
    congr 2
    omega
  · intro m' e' hm'
    exact nearest_of_halfstep _ _ _ _ hL (by omega) hlo h1 h2 m' e' hm'
  · intro m' k hm'
    exact nearest_of_halfstep_frac _ _ _ _ hL (by omega) hlo h1 h2 m' k hm'

-- 2^53 + 1 → 2^53: the competitor 2^53 + 2 = (2^52 + 1)·2 is exactly as far, nothing is nearer
example : convert .int64 .double (.int 9007199254740993) = some (.flt (.fin false 4503599627370496 1)) ∧
    dist (4503599627370496 * 2 ^ 1) 9007199254740993 = 1 ∧
    dist (4503599627370497 * 2 ^ 1) 9007199254740993 = 1 := by decide


/-- **Unconditional form** (every integer of every integer type, every float target): the result
of the implicit conversion is a finite float `±mant·2^q` with the sign of `x`, and either it IS `x`
(`q ≤ 0`, `mant = |x|·2^(−q)`), or `q > 0` and no value with at most `P` significant bits — integer
valued, fractional, or (last conjunct: the distance is at most `|x|`, an opposite-sign or zero value
is at distance ≥ `|x|`) of the other sign — is nearer to `x`. -/
theorem convert_int_to_float_nearest_total (s d : NT) (x : Int) (r : Val) (hs : s.isInt = true)
    (hd : d.isFloat = true) (hx : inRange s x) (h : convert s d (.int x) = some r) :
    ∃ (mant : Nat) (q : Int), r = .flt (.fin (decide (x < 0)) mant q) ∧
      ((q ≤ 0 ∧ mant = x.natAbs * 2 ^ (-q).toNat) ∨
       (0 < q ∧
        (∀ m' e' : Nat, m' < 2 ^ ((fmtOf d).mbits + 1) →
          dist (mant * 2 ^ q.toNat) x.natAbs ≤ dist (m' * 2 ^ e') x.natAbs) ∧
        (∀ m' k : Nat, m' < 2 ^ ((fmtOf d).mbits + 1) →
          m' ≤ x.natAbs * 2 ^ k ∧ dist (mant * 2 ^ q.toNat) x.natAbs * 2 ^ k ≤ x.natAbs * 2 ^ k - m') ∧
        dist (mant * 2 ^ q.toNat) x.natAbs ≤ x.natAbs)) := by
  by_cases hL : (fmtOf d).mbits + 1 < bitLen x.natAbs
  · obtain ⟨mant, hr, h1, h2⟩ := convert_int_to_float_nearest s d x r hs hd hx h hL
    refine ⟨mant, _, hr, Or.inr ⟨by omega, ?_, ?_, ?_⟩⟩
    · simpa using h1
    · simpa using h2
    · have := h1 0 0 (Nat.pos_of_ne_zero (by simp))
      simpa [dist] using this
  · obtain ⟨mant, q, hr, hsmall, -⟩ := convert_int_to_float s d x r hs hd hx h
    exact ⟨mant, q, hr, Or.inl (hsmall (by omega))⟩

/-- float sources: the only implicit conversions are the identity and `Float → Double`, and both
return the very same number (`Fl` carries the exact value) -/
theorem convert_float_source (s d : NT) (x : Fl) (hs : s.isFloat = true) :
    convert s d (.flt x) =
      if s = d ∨ (s = .float ∧ d = .double) then some (.flt x) else none := by
  revert hs
  cases s <;> cases d <;> simp [convert, convertWith, convertKind, applyCK, NT.isFloat]


/-! ### The hand-written tables are the match arms of the source (translator T3)

`tools/translate/convert_table.py` parses `Variant::convert`, `Variant::cast`, `cast_to_integer!`,
`cast_to_bool!` and the rounding lines of lib/src/types/variant.rs into
`Generated/ConvertTable.lean` on every run; these theorems stop checking when an arm, a guard, the
rounding or the range test of the source changes. -/

def ntCode : NT → Nat
  | .boolean => 0 | .sbyte => 1 | .byte => 2 | .int16 => 3 | .uint16 => 4 | .int32 => 5
  | .uint32 => 6 | .int64 => 7 | .uint64 => 8 | .float => 9 | .double => 10

def ckCode : CK → Nat
  | .none => 0 | .wrap => 1 | .guardNeg => 2 | .checked => 3 | .toFloat => 4 | .fwiden => 5

def xkCode : XK → Nat
  | .none => 0 | .toBool => 1 | .toInt => 2 | .narrow => 3

def modelConvertArms : List (Nat × Nat × Nat) :=
  NT.all.flatMap fun s => NT.all.filterMap fun d =>
    if convertKind s d = .none then none else some (ntCode s, ntCode d, ckCode (convertKind s d))

def modelCastArms : List (Nat × Nat × Nat) :=
  NT.all.flatMap fun s => NT.all.filterMap fun d =>
    if castKind s d = .none then none else some (ntCode s, ntCode d, xkCode (castKind s d))

theorem generated_convert_arms : Generated.ConvertTable.convertArms = modelConvertArms := by decide

theorem generated_cast_arms : Generated.ConvertTable.castArms = modelCastArms := by decide

/-- the text of the two macros and of the rounding lines that `castIntToInt`, `castFloatToInt`,
`castToBool` and `flRound` were written from -/
theorem generated_cast_macros :
    Generated.ConvertTable.rounding = [(9, "f32::round(v)"), (10, "f64::round(v)")] ∧
    Generated.ConvertTable.castToIntegerMacro =
      "($value: expr, $from: ident, $to: ident) => { { let valid = if $value < 0 as $from { $to::MIN != 0 && $value as i128 >= $to::MIN as i128 } else { $value >= 0 as $from && $value as u128 <= $to::MAX as u128 }; if !valid { Variant::Empty } else { ($value as $to).into() } } }" ∧
    Generated.ConvertTable.castToBoolMacro =
      "($value: expr) => { if $value == 1 { true.into() } else if $value == 0 { false.into() } else { Variant::Empty } };" :=
  ⟨by decide, rfl, rfl⟩

/-! ### Non-vacuity: concrete instances of the hypotheses and of both outcomes -/

example : convert .byte .int16 (.int 200) = some (.int 200) := by decide
example : convert .byte .sbyte (.int 127) = some (.int 127) := by decide
example : convert .byte .sbyte (.int 128) = none ∧ ¬ inRange .sbyte 128 := by decide
example : convert .sbyte .uint64 (.int (-1)) = none := by decide
example : convert .int64 .uint64 (.int 5) = none := by decide   -- not in the implicit table: allowed
-- u64::MAX as f32 = 2^64 = 2^24 · 2^40 (rounded up, 64 significant bits → 24)
example : convert .uint64 .float (.int 18446744073709551615) = some (.flt (.fin false 16777216 40)) := by
  decide
-- 2^53 + 1 → 2^53 (tie to even)
example : convert .int64 .double (.int 9007199254740993) = some (.flt (.fin false 4503599627370496 1)) := by
  decide
example : convert .int32 .float (.int (-3)) = some (.flt (.fin true 12582912 (-22))) := by decide
example : cast .int64 .byte (.int 255) = some (.int 255) ∧ cast .int64 .byte (.int 256) = none := by decide
example : cast .uint64 .int32 (.int 5) = some (.int 5) := by decide
example : cast .double .int32 (.flt (ofBits fmt64 0xbff999999999999a)) = some (.int (-2)) := by decide
example : cast .double .byte (.flt (ofBits fmt64 0x406ff00000000000)) = none := by decide  -- 255.5
example : cast .double .byte (.flt (ofBits fmt64 0x406fefffffffffff)) = some (.int 255) := by decide
example : cast .double .uint64 (.flt (ofBits fmt64 0x43f0000000000000)) = none := by decide  -- 2^64
example : cast .float .int64 (.flt .nan) = none := by decide
example : nearestAway true 5 (-1) = -3 ∧ nearestAway false 5 (-1) = 3 ∧ nearestAway false 9 (-2) = 2 := by
  decide

/-! ### The defects of the code before the fixes -/


theorem C06_counterexample_implicit_wrap :
    convertOld .byte .sbyte (.int 200) = some (.int (-56)) ∧
    convertOld .uint16 .int16 (.int 40000) = some (.int (-25536)) ∧
    convertOld .uint32 .int32 (.int 4000000000) = some (.int (-294967296)) ∧
    convertOld .uint64 .int64 (.int 18446744073709551615) = some (.int (-1)) := by decide

/-- −1.6 → −1, −3.0 → −2, 0.49999999999999994 → 1, 2^52+1 → 2^52+2 -/
theorem C06_counterexample_cast_rounding :
    castOld .double .int32 (.flt (ofBits fmt64 0xbff999999999999a)) = some (.int (-1)) ∧
    castOld .double .int32 (.flt (ofBits fmt64 0xc008000000000000)) = some (.int (-2)) ∧
    castOld .double .int32 (.flt (ofBits fmt64 0x3fdfffffffffffff)) = some (.int 1) ∧
    castOld .double .int64 (.flt (ofBits fmt64 0x4330000000000001)) = some (.int 4503599627370498) := by
  decide

theorem C06_counterexample_cast_range :
    castOld .double .int32 (.flt .nan) = some (.int 0) ∧
    castOld .double .uint64 (.flt (ofBits fmt64 0x43f0000000000000)) = some (.int 18446744073709551615) ∧
    castOld .double .uint64 (.flt (.inf false)) = some (.int 18446744073709551615) ∧
    castOld .double .int64 (.flt (.inf true)) = some (.int (-9223372036854775808)) := by
  decide

theorem C06_counterexample_cast_u64_i32 : castOld .uint64 .int32 (.int 5) = none := by decide

example : cast .double .int32 (.flt (ofBits fmt64 0xbff999999999999a)) = some (.int (-2)) := by decide
example : cast .double .uint64 (.flt (ofBits fmt64 0x43f0000000000000)) = none := by decide
example : cast .uint64 .int32 (.int 5) = some (.int 5) := by decide
example : convert .byte .sbyte (.int 200) = none := by decide


end OpcuaVerif.C06
