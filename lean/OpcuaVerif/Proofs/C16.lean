import OpcuaVerif.Model.C16
import OpcuaVerif.Generated.CryptoPolicy

/-!
C16 — Encrypted user passwords round-trip, bind to the nonce, and never crash.

RSA is a parameter (`Rsa`) with the laws `RsaLaws` as HYPOTHESES; `toyRsa_laws` shows they are
satisfiable.  All theorems are about `decrypt` = `decryptW ⟨true, true⟩`, the source after the two
`fix:` commits; the `C16_counterexample_*` theorems show the pinned source panicking.
-/
namespace OpcuaVerif.C16

/-- What the protocol logic needs from one-block RSA. -/
structure RsaLaws (r : Rsa) : Prop where
  /-- every key is larger than the largest padding overhead (real keys are ≥ 128 bytes) -/
  ks_big : 66 < r.ks
  /-- a message that fits the padding's block encrypts -/
  enc_ok : ∀ pad rnd m b, ptbs r.ks pad = some b → m.length ≤ b → ∃ c, r.encBlock pad rnd m = some c
  /-- a cipher block is exactly one key size long -/
  enc_len : ∀ pad rnd m c, r.encBlock pad rnd m = some c → c.length = r.ks
  /-- decryption inverts encryption, whatever the randomness -/
  dec_enc : ∀ pad rnd m c, r.encBlock pad rnd m = some c → r.decBlock pad c = some m
  /-- a decrypted block is never longer than the key size -/
  dec_len : ∀ pad c m, r.decBlock pad c = some m → m.length ≤ r.ks

theorem ptbs_lt (ks : Nat) (pad : Padding) (b : Nat) (h : ptbs ks pad = some b) : b < ks ∧ b + 11 ≤ ks := by
  cases pad <;> simp [ptbs, usizeSub] at h <;> omega

theorem ptbs_some (ks : Nat) (pad : Padding) (hks : 66 < ks) (hp : pad ≠ .pss) :
    ∃ b, ptbs ks pad = some b ∧ 0 < b := by
  cases pad with
  | pkcs1 => exact ⟨ks - 11, by simp [ptbs, usizeSub]; omega, by omega⟩
  | oaepSha1 => exact ⟨ks - 42, by simp [ptbs, usizeSub]; omega, by omega⟩
  | oaepSha256 => exact ⟨ks - 66, by simp [ptbs, usizeSub]; omega, by omega⟩
  | pss => exact absurd rfl hp

/-! ### block-wise encryption followed by block-wise decryption is the identity -/

theorem decLoop_nil (r : Rsa) (pad : Padding) (dstLen fuel : Nat) (out : Bytes) :
    privateDecryptLoop r pad dstLen fuel [] out = .ok out := by
  cases fuel <;> simp [privateDecryptLoop]

theorem rt_loop (r : Rsa) (hl : RsaLaws r) (pad : Padding) (b : Nat) (hb : ptbs r.ks pad = some b)
    (hb0 : 0 < b) (dstLenE : Nat) :
    ∀ fuel rnd src eout C, src.length ≤ fuel →
      publicEncryptLoop r pad b dstLenE fuel rnd src eout = .ok C →
      ∃ cs, C = eout ++ cs ∧ cs.length % r.ks = 0 ∧
        ∀ fuel2 dstLenD dout, cs.length ≤ fuel2 → dout.length + cs.length ≤ dstLenD →
          privateDecryptLoop r pad dstLenD fuel2 cs dout = .ok (dout ++ src) := by
  intro fuel
  induction fuel with
  | zero =>
    intro rnd src eout C hf h
    have : src = [] := List.length_eq_zero_iff.mp (by omega)
    subst this
    simp [publicEncryptLoop] at h
    exact ⟨[], by simp [h], by simp, fun f2 d dout _ _ => by simp [decLoop_nil]⟩
  | succ fuel ih =>
    intro rnd src eout C hf h
    cases hsrc : src with
    | nil =>
      subst hsrc
      simp [publicEncryptLoop] at h
      exact ⟨[], by simp [h], by simp, fun f2 d dout _ _ => by simp [decLoop_nil]⟩
    | cons x xs =>
      rw [hsrc] at h hf
      simp only [publicEncryptLoop, List.isEmpty_cons, Bool.false_eq_true, if_false] at h
      split at h
      · exact absurd h (by simp)
      · split at h
        · exact absurd h (by simp)
        · rename_i c hc
          have hclen := hl.enc_len _ _ _ _ hc
          have hdec := hl.dec_enc _ _ _ _ hc
          have hsub : ((x :: xs).drop b).length ≤ fuel := by
            simp only [List.length_drop, List.length_cons] at *; omega
          obtain ⟨cs', hC, hmod, hD⟩ := ih (rnd + 1) ((x :: xs).drop b) (eout ++ c) C hsub h
          refine ⟨c ++ cs', by simp [hC], ?_, ?_⟩
          · simp only [List.length_append, hclen, Nat.add_mod_left, hmod]
          · intro fuel2 dstLenD dout hf2 hroom
            have hks : 0 < r.ks := by have := hl.ks_big; omega
            simp only [List.length_append, hclen] at hf2 hroom
            obtain ⟨f, rfl⟩ : ∃ f, fuel2 = f + 1 := ⟨fuel2 - 1, by omega⟩
            have hne : (c ++ cs').isEmpty = false := by
              cases c with
              | nil => simp at hclen; omega
              | cons _ _ => rfl
            have htake : (c ++ cs').take r.ks = c := by
              rw [← hclen]; simp
            have hdrop : (c ++ cs').drop r.ks = cs' := by
              rw [← hclen]; simp
            have h1 : ¬ (c ++ cs').length < r.ks := by simp [hclen]
            have h2 : ¬ dout.length + r.ks > dstLenD := by omega
            simp only [privateDecryptLoop, hne, Bool.false_eq_true, if_false, h1, h2, htake, hdec, hdrop]
            have hb' := (ptbs_lt _ _ _ hb).1
            have htl : ((x :: xs).take b).length ≤ b := by simp [List.length_take]; omega
            rw [hD f dstLenD (dout ++ (x :: xs).take b) (by omega)
              (by simp only [List.length_append]; omega)]
            simp [List.append_assoc]

/-- `private_decrypt ∘ public_encrypt = id` on plaintexts of any length, and the ciphertext is a
whole number of blocks. -/
theorem publicEncrypt_privateDecrypt (r : Rsa) (hl : RsaLaws r) (pad : Padding) (rnd : Nat)
    (src C : Bytes) (dstLen : Nat) (h : publicEncrypt r pad rnd src dstLen = .ok C) :
    C.length % r.ks = 0 ∧ privateDecrypt r pad C C.length = .ok src := by
  unfold publicEncrypt at h
  split at h
  · exact absurd h (by simp)
  · rename_i b hb
    have hb0 : 0 < b := by
      have := hl.ks_big
      cases pad <;> simp [ptbs, usizeSub] at hb <;> omega
    obtain ⟨cs, hC, hmod, hD⟩ := rt_loop r hl pad b hb hb0 dstLen src.length rnd src [] C (Nat.le_refl _) h
    simp only [List.nil_append] at hC
    subst hC
    exact ⟨hmod, by simpa [privateDecrypt] using hD C.length C.length [] (Nat.le_refl _) (by simp)⟩

/-! ### `legacy_password_decrypt` on a known plaintext -/

theorem rd32_le32 (k : Nat) (hk : k < 4294967296) (rest : Bytes) : rd32 (le32 k ++ rest) = k := by
  simp [rd32, le32]; omega

/-- The framing logic of the repaired `legacy_password_decrypt`, given what RSA decrypted:
for a plaintext `le32 k ‖ body` (|body| = k) the result is decided by whether the nonce is the
tail of `body` and the rest is UTF-8. -/
theorem decrypt_of_plain (gl : Bool) (r : Rsa) (pad : Padding) (src nonce body : Bytes) (k : Nat)
    (hlen : src.length % r.ks = 0)
    (hdec : privateDecrypt r pad src src.length = .ok (le32 k ++ body))
    (hk : body.length = k) (hk32 : k < 4294967296) :
    decryptW ⟨gl, true⟩ r pad (some src) nonce =
      if nonce.length ≤ k ∧ body.drop (k - nonce.length) = nonce then
        (if utf8Valid (body.take (k - nonce.length)) then .ok (body.take (k - nonce.length))
         else .err .badEncoding)
      else .err .badDecoding := by
  have hl4 : (le32 k).length = 4 := rfl
  simp only [decryptW, hlen, hdec]
  have hg : (gl && (0 != 0)) = false := by simp
  simp only [hg, Bool.false_eq_true, if_false]
  have hdl : ¬ (le32 k ++ body ++ List.replicate (src.length - (le32 k ++ body).length) 0).length < 4 := by
    simp [hl4]
  rw [if_neg hdl]
  rw [List.append_assoc, rd32_le32 k hk32]
  have hact : (le32 k ++ body).length = k + 4 := by simp [hl4, hk]; omega
  simp only [hact, ne_eq, not_true_eq_false, if_false, Bool.true_and, decide_eq_true_eq]
  by_cases hn : nonce.length > k
  · simp only [hn, if_true]
    rw [if_neg (by omega)]
  · simp only [hn, if_false]
    have hsub : usizeSub (k + 4) nonce.length = some (k + 4 - nonce.length) := by
      simp [usizeSub]; omega
    simp only [hsub]
    have hnb : ¬ (k + 4 - nonce.length < 4) := by omega
    have e1 : k + 4 - nonce.length = 4 + (k - nonce.length) := by omega
    have hd1 : (le32 k ++ (body ++ List.replicate (src.length - (k + 4)) 0)).drop (k + 4 - nonce.length)
        = body.drop (k - nonce.length) ++ List.replicate (src.length - (k + 4)) 0 := by
      rw [e1, ← List.drop_drop, ← hl4, List.drop_left, List.drop_append_of_le_length (by omega)]
    have hd2 : (le32 k ++ (body ++ List.replicate (src.length - (k + 4)) 0)).drop 4
        = body ++ List.replicate (src.length - (k + 4)) 0 := by
      rw [← hl4, List.drop_left]
    have ht1 : (body.drop (k - nonce.length) ++ List.replicate (src.length - (k + 4)) 0).take nonce.length
        = body.drop (k - nonce.length) := by
      rw [List.take_append_of_le_length (by simp; omega)]
      apply List.take_of_length_le; simp; omega
    have ht2 : (body ++ List.replicate (src.length - (k + 4)) 0).take (k + 4 - nonce.length - 4)
        = body.take (k - nonce.length) := by
      rw [List.take_append_of_le_length (by omega)]
      congr 1; omega
    rw [hd1, ht1, hd2, ht2, if_neg hnb]
    have hle : nonce.length ≤ k := by omega
    by_cases heq : body.drop (k - nonce.length) = nonce
    · simp [heq, hle]
    · simp [heq]

/-! ### the property -/

/-- what `legacy_password_encrypt` produced decrypts (RSA layer) to the framed plaintext -/
theorem encrypt_spec (r : Rsa) (hl : RsaLaws r) (pad : Padding) (rnd : Nat) (pw nonce C : Bytes)
    (h : encrypt r pad rnd pw nonce = .ok C) :
    C.length % r.ks = 0 ∧ privateDecrypt r pad C C.length = .ok (plaintext pw nonce) := by
  dsimp only [encrypt] at h
  split at h
  · exact absurd h (by simp)
  · split at h
    · exact absurd h (by simp)
    · exact absurd h (by simp)
    · rename_i c hc
      split at h
      · injection h with h; subst h
        exact publicEncrypt_privateDecrypt r hl pad rnd _ _ _ hc
      · exact absurd h (by simp)

/-- number of RSA blocks for `n` plaintext bytes (the expression in `calculate_cipher_text_size`) -/
def nblocks (b n : Nat) : Nat := if n % b = 0 then n / b else n / b + 1

theorem nblocks_step (b n : Nat) (hb : 0 < b) (hn : 0 < n) : nblocks b n = nblocks b (n - b) + 1 := by
  unfold nblocks
  by_cases h : b ≤ n
  · rw [← Nat.mod_eq_sub_mod h, Nat.div_eq_sub_div hb h]
    split <;> rfl
  · have hlt : n < b := by omega
    have h0 : n - b = 0 := by omega
    rw [h0, Nat.mod_eq_of_lt hlt, Nat.div_eq_of_lt hlt]
    simp; omega

theorem encLoop_ok (r : Rsa) (hl : RsaLaws r) (pad : Padding) (b : Nat) (hb : ptbs r.ks pad = some b)
    (hb0 : 0 < b) (dstLen : Nat) :
    ∀ fuel rnd src eout, src.length ≤ fuel → eout.length + nblocks b src.length * r.ks ≤ dstLen →
      ∃ C, publicEncryptLoop r pad b dstLen fuel rnd src eout = .ok C ∧
        C.length = eout.length + nblocks b src.length * r.ks := by
  intro fuel
  induction fuel with
  | zero =>
    intro rnd src eout hf _
    have : src = [] := List.length_eq_zero_iff.mp (by omega)
    subst this
    exact ⟨eout, by simp [publicEncryptLoop], by simp [nblocks]⟩
  | succ fuel ih =>
    intro rnd src eout hf hroom
    cases hsrc : src with
    | nil => exact ⟨eout, by simp [publicEncryptLoop], by simp [nblocks]⟩
    | cons x xs =>
      rw [hsrc] at hf hroom
      have hstep := nblocks_step b (x :: xs).length hb0 (by simp)
      rw [hstep, Nat.add_mul] at hroom ⊢
      have h1 : ¬ eout.length + r.ks > dstLen := by omega
      have htl : ((x :: xs).take b).length ≤ b := by simp [List.length_take]; omega
      obtain ⟨c, hc⟩ := hl.enc_ok pad rnd ((x :: xs).take b) b hb htl
      have hclen := hl.enc_len _ _ _ _ hc
      have hdl : ((x :: xs).drop b).length = (x :: xs).length - b := by simp
      obtain ⟨C, hC, hCl⟩ := ih (rnd + 1) ((x :: xs).drop b) (eout ++ c)
        (by rw [hdl]; simp only [List.length_cons] at *; omega)
        (by rw [hdl]; simp only [List.length_append, hclen]; omega)
      refine ⟨C, ?_, ?_⟩
      · simp only [publicEncryptLoop, List.isEmpty_cons, Bool.false_eq_true, if_false, h1, hc]
        exact hC
      · rw [hCl, hdl]; simp only [List.length_append, hclen]; omega

/-- encryption succeeds for every supported padding: no panic (block sizes, `dst` slices,
`assert_eq!`) and no error -/
theorem encrypt_total (r : Rsa) (hl : RsaLaws r) (pad : Padding) (hp : pad ≠ .pss) (rnd : Nat)
    (pw nonce : Bytes) : ∃ C, encrypt r pad rnd pw nonce = .ok C := by
  obtain ⟨b, hb, hb0⟩ := ptbs_some r.ks pad hl.ks_big hp
  have hcts : cipherTextSize r.ks pad (plaintext pw nonce).length =
      some (nblocks b (plaintext pw nonce).length * r.ks) := by
    unfold cipherTextSize nblocks
    rw [hb]
    cases b with
    | zero => omega
    | succ n => rfl
  obtain ⟨C, hC, hCl⟩ := encLoop_ok r hl pad b hb hb0 (nblocks b (plaintext pw nonce).length * r.ks)
    (plaintext pw nonce).length rnd (plaintext pw nonce) [] (Nat.le_refl _) (by simp)
  refine ⟨C, ?_⟩
  dsimp only [encrypt]
  rw [hcts]
  simp only [publicEncrypt, hb, hC]
  simp at hCl
  simp [hCl]

/-- **Round trip**: a password encrypted for a nonce decrypts with the same nonce to itself — for
every padding, key size (`RsaLaws`), randomness, nonce, and every valid-UTF-8 password. -/
theorem roundtrip (r : Rsa) (hl : RsaLaws r) (pad : Padding) (rnd : Nat) (pw nonce C : Bytes)
    (hutf : utf8Valid pw = true) (h32 : pw.length + nonce.length < 4294967296)
    (h : encrypt r pad rnd pw nonce = .ok C) :
    decrypt r pad (some C) nonce = .ok pw := by
  obtain ⟨hmod, hdec⟩ := encrypt_spec r hl pad rnd pw nonce C h
  have hpl : plaintext pw nonce = le32 (pw.length + nonce.length) ++ (pw ++ nonce) := by
    simp [plaintext, Nat.mod_eq_of_lt h32]
  rw [hpl] at hdec
  have := decrypt_of_plain true r pad C nonce (pw ++ nonce) (pw.length + nonce.length) hmod hdec
    (by simp) h32
  unfold decrypt fixesAsInSource
  rw [this]
  have e : pw.length + nonce.length - nonce.length = pw.length := by omega
  simp [e, hutf]

/-- the RSA-level facts about a ciphertext produced by `legacy_password_encrypt`, packaged -/
theorem decrypt_encrypted (r : Rsa) (hl : RsaLaws r) (pad : Padding) (rnd : Nat) (pw nonce nonce' C : Bytes)
    (h32 : pw.length + nonce.length < 4294967296)
    (h : encrypt r pad rnd pw nonce = .ok C) :
    decrypt r pad (some C) nonce' =
      if nonce'.length ≤ pw.length + nonce.length ∧
          (pw ++ nonce).drop (pw.length + nonce.length - nonce'.length) = nonce' then
        (if utf8Valid ((pw ++ nonce).take (pw.length + nonce.length - nonce'.length)) then
           .ok ((pw ++ nonce).take (pw.length + nonce.length - nonce'.length))
         else .err .badEncoding)
      else .err .badDecoding := by
  obtain ⟨hmod, hdec⟩ := encrypt_spec r hl pad rnd pw nonce C h
  have hpl : plaintext pw nonce = le32 (pw.length + nonce.length) ++ (pw ++ nonce) := by
    simp [plaintext, Nat.mod_eq_of_lt h32]
  rw [hpl] at hdec
  exact decrypt_of_plain true r pad C nonce' (pw ++ nonce) (pw.length + nonce.length) hmod hdec
    (by simp) h32

/-- **Nonce binding, exact**: decrypting with ANY nonce `n'` succeeds exactly when `n'` is the tail
of `password ‖ nonce` and what precedes it is valid UTF-8 (and then returns that prefix). -/
theorem accept_iff (r : Rsa) (hl : RsaLaws r) (pad : Padding) (rnd : Nat) (pw nonce nonce' C pw' : Bytes)
    (h32 : pw.length + nonce.length < 4294967296)
    (h : encrypt r pad rnd pw nonce = .ok C) :
    decrypt r pad (some C) nonce' = .ok pw' ↔ (pw ++ nonce = pw' ++ nonce' ∧ utf8Valid pw' = true) := by
  rw [decrypt_encrypted r hl pad rnd pw nonce nonce' C h32 h]
  constructor
  · intro hd
    split at hd
    · rename_i hc
      split at hd
      · rename_i hu
        injection hd with hd
        subst hd
        refine ⟨?_, hu⟩
        conv => lhs; rw [← List.take_append_drop (pw.length + nonce.length - nonce'.length) (pw ++ nonce)]
        rw [hc.2]
      · exact absurd hd (by simp)
    · exact absurd hd (by simp)
  · intro ⟨heq, hu⟩
    have hlen : pw.length + nonce.length = pw'.length + nonce'.length := by
      have := congrArg List.length heq; simpa using this
    have e : pw.length + nonce.length - nonce'.length = pw'.length := by omega
    rw [e, heq]
    simp [hu]; omega

/-- **Different nonce of the same length fails** (with `BadDecodingError`). -/
theorem wrong_nonce_same_length (r : Rsa) (hl : RsaLaws r) (pad : Padding) (rnd : Nat)
    (pw nonce nonce' C : Bytes) (h32 : pw.length + nonce.length < 4294967296)
    (h : encrypt r pad rnd pw nonce = .ok C) (hlen : nonce'.length = nonce.length) (hne : nonce' ≠ nonce) :
    decrypt r pad (some C) nonce' = .err .badDecoding := by
  rw [decrypt_encrypted r hl pad rnd pw nonce nonce' C h32 h]
  have e : pw.length + nonce.length - nonce'.length = pw.length := by omega
  rw [e]
  simp [Ne.symm hne]

/-- More generally: a wrong nonce is accepted ONLY if it is a different-length tail of
`password ‖ nonce` — the recorded, format-inherent ambiguity (finding C16-suffix-nonce). -/
theorem wrong_nonce_rejected_unless_tail (r : Rsa) (hl : RsaLaws r) (pad : Padding) (rnd : Nat)
    (pw nonce nonce' C : Bytes) (h32 : pw.length + nonce.length < 4294967296)
    (h : encrypt r pad rnd pw nonce = .ok C)
    (hnt : ¬ ∃ p, pw ++ nonce = p ++ nonce') :
    ∃ e, decrypt r pad (some C) nonce' = .err e := by
  cases hd : decrypt r pad (some C) nonce' with
  | ok pw' =>
    exact absurd ⟨pw', ((accept_iff r hl pad rnd pw nonce nonce' C pw' h32 h).mp hd).1⟩ hnt
  | err e => exact ⟨e, rfl⟩
  | panic =>
    rw [decrypt_encrypted r hl pad rnd pw nonce nonce' C h32 h] at hd
    split at hd
    · split at hd <;> exact absurd hd (by simp)
    · exact absurd hd (by simp)

/-! ### the token layer -/

/-- **The algorithm URI written into the token names the padding the password was encrypted
with** — for every policy (after the two `fix:` commits on the constants). -/
theorem uri_names_padding (p : Policy) (pad : Padding) (u : AlgUri)
    (hp : p.encPadding? = some pad) (hu : p.encUriW true = some u) : u.padding = pad := by
  cases p <;> simp [Policy.encPadding?, Policy.encUriW] at hp hu <;> subst hp hu <;> rfl

/-- no policy encrypts passwords with the signature padding -/
theorem encPadding_ne_pss (p : Policy) (pad : Padding) (hp : p.encPadding? = some pad) : pad ≠ .pss := by
  cases p <;> simp [Policy.encPadding?] at hp <;> subst hp <;> decide

/-- a token can be made for every channel / user-token policy combination except an `Unknown`
channel policy with an empty token policy (the source panics there by design) -/
theorem makeToken_total (r : Rsa) (hl : RsaLaws r) (rnd : Nat) (chan : Policy) (tp : Option Policy)
    (nonce pw : Bytes) (hne : effectivePolicy chan tp ≠ .unknown) :
    ∃ out, makeToken r rnd chan tp nonce pw = .ok out := by
  unfold makeToken makeTokenW
  cases he : effectivePolicy chan tp with
  | none => exact ⟨_, rfl⟩
  | unknown => exact absurd he hne
  | basic128Rsa15 =>
    obtain ⟨C, hC⟩ := encrypt_total r hl .pkcs1 (by decide) rnd pw nonce
    exact ⟨(C, _), by simp [Policy.encPadding?, Policy.encUriW, hC]; rfl⟩
  | basic256 =>
    obtain ⟨C, hC⟩ := encrypt_total r hl .oaepSha1 (by decide) rnd pw nonce
    exact ⟨(C, _), by simp [Policy.encPadding?, Policy.encUriW, hC]; rfl⟩
  | basic256Sha256 =>
    obtain ⟨C, hC⟩ := encrypt_total r hl .oaepSha1 (by decide) rnd pw nonce
    exact ⟨(C, _), by simp [Policy.encPadding?, Policy.encUriW, hC]; rfl⟩
  | aes128Sha256RsaOaep =>
    obtain ⟨C, hC⟩ := encrypt_total r hl .oaepSha1 (by decide) rnd pw nonce
    exact ⟨(C, _), by simp [Policy.encPadding?, Policy.encUriW, hC]; rfl⟩
  | aes256Sha256RsaPss =>
    obtain ⟨C, hC⟩ := encrypt_total r hl .oaepSha256 (by decide) rnd pw nonce
    exact ⟨(C, _), by simp [Policy.encPadding?, Policy.encUriW, hC]; rfl⟩

/-- **Token round trip**: what `make_user_name_identity_token` produces — plain text or
encrypted, for any channel policy and user token policy — is read back by
`decrypt_user_identity_token_password` with the same nonce as the original password. -/
theorem token_roundtrip (r : Rsa) (hl : RsaLaws r) (rnd : Nat) (chan : Policy) (tp : Option Policy)
    (nonce pw field : Bytes) (alg : TokAlg) (hutf : utf8Valid pw = true)
    (h32 : pw.length + nonce.length < 4294967296)
    (h : makeToken r rnd chan tp nonce pw = .ok (field, alg)) :
    decryptToken r (some field) alg nonce = .ok pw := by
  unfold makeToken makeTokenW at h
  have key : ∀ (pad : Padding) (u : AlgUri) (c : Bytes),
      encrypt r pad rnd pw nonce = .ok c → (c, TokAlg.uri u) = (field, alg) → u.padding = pad →
      decryptToken r (some field) alg nonce = .ok pw := by
    intro pad u c he hm hup
    injection hm with h1 h2
    subst h1 h2
    simp only [decryptToken, hup]
    exact roundtrip r hl pad rnd pw nonce c hutf h32 he
  cases he : effectivePolicy chan tp <;> rw [he] at h <;> dsimp only at h
  · injection h with h
    injection h with h1 h2
    subst h1 h2
    simp [decryptToken, hutf]
  case unknown => exact absurd h (by simp)
  all_goals (
    simp only [Policy.encPadding?, Policy.encUriW, if_true] at h
    split at h
    · rename_i c hc
      injection h with h
      exact key _ _ c hc h rfl
    · exact absurd h (by simp)
    · exact absurd h (by simp))

/-- PINNED SOURCE (fixed): for Aes128-Sha256-RsaOaep and Aes256-Sha256-RsaPss the algorithm URI
constant named a different algorithm than the padding the password is encrypted with
(`rsa-1_5` for OAEP-SHA1, `rsa-oaep` for OAEP-SHA256), so the server decrypted with the wrong
padding and could never read the password its own client sent. -/
theorem C16_counterexample_uri_padding_mismatch_pinned :
    (Policy.aes128Sha256RsaOaep.encPadding? = some .oaepSha1 ∧
      (Policy.aes128Sha256RsaOaep.encUriW false).map AlgUri.padding = some .pkcs1) ∧
    (Policy.aes256Sha256RsaPss.encPadding? = some .oaepSha256 ∧
      (Policy.aes256Sha256RsaPss.encUriW false).map AlgUri.padding = some .oaepSha1) := by decide

/-- … and these two were the only mismatches -/
theorem pinned_mismatch_only_there (p : Policy) (pad : Padding) (u : AlgUri)
    (hp : p.encPadding? = some pad) (hu : p.encUriW false = some u) (hne : u.padding ≠ pad) :
    p = .aes128Sha256RsaOaep ∨ p = .aes256Sha256RsaPss := by
  cases p <;> simp [Policy.encPadding?, Policy.encUriW] at hp hu <;> subst hp hu <;> simp [AlgUri.padding] at hne ⊢

/-! ### the model's per-policy padding / URI tables are the source's (translator T2) -/

def Policy.rustName : Policy → String
  | .none => "None" | .basic128Rsa15 => "Basic128Rsa15" | .basic256 => "Basic256"
  | .basic256Sha256 => "Basic256Sha256" | .aes128Sha256RsaOaep => "Aes128Sha256RsaOaep"
  | .aes256Sha256RsaPss => "Aes256Sha256RsaPss" | .unknown => "Unknown"

def Padding.rustName : Padding → String
  | .pkcs1 => "Pkcs1" | .oaepSha1 => "OaepSha1" | .oaepSha256 => "OaepSha256" | .pss => "Pkcs1Pss"

def AlgUri.uri : AlgUri → String
  | .rsa15 => "http://www.w3.org/2001/04/xmlenc#rsa-1_5"
  | .rsaOaep => "http://www.w3.org/2001/04/xmlenc#rsa-oaep"
  | .rsaOaepSha256 => "http://opcfoundation.org/UA/security/rsa-oaep-sha2-256"

open OpcuaVerif.Generated.CryptoPolicy in
/-- regenerated from `security_policy.rs`, `mod.rs` and `user_identity.rs` on every check: the
padding and the algorithm URI per policy, and the server's URI → padding dispatch, are the model's -/
theorem model_matches_source :
    (∀ p : Policy, (p.encUriW true).map AlgUri.uri = lookup encUri p.rustName ∧
      p.encPadding?.map Padding.rustName = lookup encPadding p.rustName) ∧
    (∀ u : AlgUri, lookup tokenUriPadding u.uri = some u.padding.rustName) := by
  refine ⟨fun p => ?_, fun u => ?_⟩
  · cases p <;> decide +kernel
  · cases u <;> decide +kernel

open OpcuaVerif.Generated.CryptoPolicy in
/-- the padding overheads, the block count, every guard of `legacy_password_decrypt` in order, its subtraction and slices, and the length field of `legacy_password_encrypt` have the shape the model copies
(regenerated from the source on every check; the right-hand sides are the shapes the model was
written from — a change of a guard, an argument order or a condition breaks this obligation) -/
theorem source_shape :
    lookup shape "ptbs.arms" = some "Pkcs1,11|OaepSha1,42|OaepSha256,66" ∧
    lookup shape "ctsize.count" = some "ifdata_size%plain_text_block_size==0{data_size/plain_text_block_size}else{(data_size/plain_text_block_size)+1},self.cipher_text_block_size()" ∧
    lookup shape "decrypt.guards" = some "secret.is_null()|src.len()%server_key.size()!=0|plaintext_size+4!=actual_size|server_nonce.len()>plaintext_size|nonce!=server_nonce" ∧
    lookup shape "decrypt.nonce_begin" = some "actual_size-nonce_len" ∧
    lookup shape "decrypt.slices" = some "nonce_begin..(nonce_begin+nonce_len)|4..nonce_begin" ∧
    lookup shape "encrypt.size_and_length_field" = some "4+password.len()+server_nonce.len(),(plaintext_size-4)" := by
  decide +kernel

/-! ### decrypting ANY byte string never panics -/

theorem decLoop_no_panic (r : Rsa) (hks : 0 < r.ks)
    (hdl : ∀ pad c m, r.decBlock pad c = some m → m.length ≤ r.ks) (pad : Padding) (dstLen : Nat) :
    ∀ fuel src out, src.length ≤ fuel → src.length % r.ks = 0 → out.length + src.length ≤ dstLen →
      privateDecryptLoop r pad dstLen fuel src out ≠ .panic := by
  intro fuel
  induction fuel with
  | zero =>
    intro src out hf _ _
    have : src = [] := List.length_eq_zero_iff.mp (by omega)
    subst this
    simp [privateDecryptLoop]
  | succ fuel ih =>
    intro src out hf hmod hroom
    cases hsrc : src with
    | nil => simp [privateDecryptLoop]
    | cons x xs =>
      rw [hsrc] at hf hmod hroom
      have hge : r.ks ≤ (x :: xs).length := by
        have hpos : 0 < (x :: xs).length := by simp
        exact Nat.le_of_dvd hpos (Nat.dvd_of_mod_eq_zero hmod)
      have h1 : ¬ (x :: xs).length < r.ks := by omega
      have h2 : ¬ out.length + r.ks > dstLen := by omega
      simp only [privateDecryptLoop, List.isEmpty_cons, Bool.false_eq_true, if_false, h1, h2]
      split
      · simp
      · rename_i m hm
        have hml := hdl _ _ _ hm
        have hdlen : ((x :: xs).drop r.ks).length = (x :: xs).length - r.ks := by simp
        apply ih
        · rw [hdlen]; simp only [List.length_cons] at *; omega
        · rw [hdlen, ← Nat.mod_eq_sub_mod hge]; exact hmod
        · rw [hdlen]; simp only [List.length_append]; omega

/-- **Totality**: `legacy_password_decrypt` returns `Ok`/`Err`, never panics — for every secret
(null, empty, any length, any bytes), every nonce, every padding and any RSA whose decrypted
blocks are not longer than the key. -/
theorem decrypt_total (r : Rsa) (hks : 0 < r.ks)
    (hdl : ∀ pad c m, r.decBlock pad c = some m → m.length ≤ r.ks)
    (pad : Padding) (secret : Option Bytes) (nonce : Bytes) :
    decrypt r pad secret nonce ≠ .panic := by
  unfold decrypt fixesAsInSource decryptW
  cases secret with
  | none => simp
  | some src =>
    simp only [Bool.true_and]
    by_cases hmod : src.length % r.ks = 0
    · have hnp := decLoop_no_panic r hks hdl pad src.length src.length src [] (Nat.le_refl _) hmod (by simp)
      simp only [hmod, bne_self_eq_false, Bool.false_eq_true, if_false]
      unfold privateDecrypt
      cases hd : privateDecryptLoop r pad src.length src.length src [] with
      | panic => exact absurd hd hnp
      | err e => simp
      | ok plain =>
        simp only []
        split
        · simp
        · split
          · simp
          · rename_i hps
            split
            · simp
            · rename_i hg
              simp only [decide_eq_true_eq] at hg
              have hsub : usizeSub plain.length nonce.length = some (plain.length - nonce.length) := by
                simp [usizeSub]; omega
              simp only [hsub]
              split
              · simp
              · rw [if_neg (by omega)]
                split <;> simp
    · have : (src.length % r.ks != 0) = true := by simp [hmod]
      simp [this]

/-! ### the laws are satisfiable: the toy RSA the driver uses -/

theorem toySum_append (a b : Bytes) : toySum (a ++ b) = toySum a + toySum b := by
  unfold toySum
  rw [List.foldl_append]
  generalize List.foldl (· + ·) 0 a = s
  induction b generalizing s with
  | nil => simp
  | cons x xs ih => simp only [List.foldl_cons]; rw [ih, ih (0 + x)]; omega

theorem toy_dec_enc (ks : Nat) (hks : ks < 65536) (pad : Padding) (rnd : Nat) (m c : Bytes)
    (h : toyEnc ks pad rnd m = some c) : toyDec ks pad c = some m := by
  unfold toyEnc at h
  split at h
  · exact absurd h (by simp)
  · rename_i b hb
    split at h
    · rename_i hm
      have hbk := (ptbs_lt _ _ _ hb).2
      injection h with h
      subst h
      have hml : m.length / 256 * 256 + m.length % 256 = m.length := by omega
      have hbl : ([m.length / 256, m.length % 256] ++ m ++ List.replicate (ks - 4 - m.length) 0).length = ks - 2 := by
        simp; omega
      unfold toyDec
      rw [hb]
      simp only []
      have e0 : (([m.length / 256, m.length % 256] ++ m ++ List.replicate (ks - 4 - m.length) 0) ++
          [toyCk pad ([m.length / 256, m.length % 256] ++ m ++ List.replicate (ks - 4 - m.length) 0) / 256 % 256,
           toyCk pad ([m.length / 256, m.length % 256] ++ m ++ List.replicate (ks - 4 - m.length) 0) % 256]).getD 0 0
          = m.length / 256 := by simp
      have e1 : (([m.length / 256, m.length % 256] ++ m ++ List.replicate (ks - 4 - m.length) 0) ++
          [toyCk pad ([m.length / 256, m.length % 256] ++ m ++ List.replicate (ks - 4 - m.length) 0) / 256 % 256,
           toyCk pad ([m.length / 256, m.length % 256] ++ m ++ List.replicate (ks - 4 - m.length) 0) % 256]).getD 1 0
          = m.length % 256 := by simp
      rw [e0, e1, hml]
      generalize hbody : [m.length / 256, m.length % 256] ++ m ++ List.replicate (ks - 4 - m.length) 0 = body at *
      have ht : (body ++ [toyCk pad body / 256 % 256, toyCk pad body % 256]).take (ks - 2) = body := by
        rw [← hbl]; simp
      have hd : (body ++ [toyCk pad body / 256 % 256, toyCk pad body % 256]).drop (ks - 2) =
          [toyCk pad body / 256 % 256, toyCk pad body % 256] := by
        rw [← hbl]; simp
      rw [ht, hd]
      have hz : (body.drop (2 + m.length)).all (· == 0) = true := by
        rw [← hbody]
        have : ([m.length / 256, m.length % 256] ++ m ++ List.replicate (ks - 4 - m.length) 0).drop (2 + m.length)
            = List.replicate (ks - 4 - m.length) 0 := by
          rw [show (2 + m.length) = ([m.length / 256, m.length % 256] ++ m).length by simp; omega]
          rw [List.drop_left]
        rw [this]; simp
      have hr : ((body ++ [toyCk pad body / 256 % 256, toyCk pad body % 256]).drop 2).take m.length = m := by
        rw [← hbody]; simp
      have hlen : (body ++ [toyCk pad body / 256 % 256, toyCk pad body % 256]).length = ks := by
        simp [hbl]; omega
      simp [hlen, hm, hz, hr]
    · exact absurd h (by simp)

/-- the toy RSA of the driver satisfies every law (for realistic key sizes) -/
theorem toyRsa_laws (ks : Nat) (h1 : 66 < ks) (h2 : ks < 65536) : RsaLaws (toyRsa ks) where
  ks_big := h1
  enc_ok := by
    intro pad rnd m b hb hm
    simp only [toyRsa] at hb ⊢
    simp [toyEnc, hb, hm]
  enc_len := by
    intro pad rnd m c h
    simp only [toyRsa, toyEnc] at h ⊢
    split at h
    · exact absurd h (by simp)
    · rename_i b hb
      have := (ptbs_lt _ _ _ hb).2
      split at h
      · injection h with h; subst h; simp; omega
      · exact absurd h (by simp)
  dec_enc := fun pad rnd m c h => toy_dec_enc ks h2 pad rnd m c h
  dec_len := by
    intro pad c m h
    simp only [toyRsa, toyDec] at h ⊢
    split at h
    · exact absurd h (by simp)
    · split at h
      · injection h with h; subst h
        simp only [List.length_take, List.length_drop]; omega
      · exact absurd h (by simp)

/-- non-vacuity of `roundtrip` & co.: with the toy RSA encryption really succeeds -/
example : ∃ C, encrypt (toyRsa 128) .oaepSha1 0 [0x70, 0x77] [1, 2, 3] = .ok C :=
  encrypt_total (toyRsa 128) (toyRsa_laws 128 (by omega) (by omega)) .oaepSha1 (by decide) 0 _ _

/-! ### recorded findings -/

/-- FORMAT-INHERENT (recorded, known): a nonce that is a proper suffix of the real nonce is
accepted, and the "password" returned is `password ‖ rest of the nonce`.  Here: password "pw",
nonce `[1,2,3]`, decrypted with nonce `[3]` gives `pw ‖ [1,2]`. -/
theorem C16_counterexample_suffix_nonce (r : Rsa) (hl : RsaLaws r) (pad : Padding) (hp : pad ≠ .pss) :
    ∃ C, encrypt r pad 0 [0x70, 0x77] [1, 2, 3] = .ok C ∧
      decrypt r pad (some C) [3] = .ok [0x70, 0x77, 1, 2] := by
  obtain ⟨C, hC⟩ := encrypt_total r hl pad hp 0 [0x70, 0x77] [1, 2, 3]
  refine ⟨C, hC, ?_⟩
  rw [accept_iff r hl pad 0 _ _ _ C _ (by decide) hC]
  decide

/-- PINNED SOURCE (fixed): a ciphertext whose length is not a multiple of the key size panics in
`private_decrypt`'s `&src[src_idx..src_idx + ks]`. -/
theorem C16_counterexample_length_unguarded (r : Rsa) (hks : 1 < r.ks) (pad : Padding) (nonce : Bytes) :
    decryptW ⟨false, true⟩ r pad (some [0]) nonce = .panic := by
  simp [decryptW, privateDecrypt, privateDecryptLoop, hks]

/-- PINNED SOURCE (fixed): nonce longer than the decrypted plaintext → `actual_size - nonce_len`
underflows.  Plaintext `le32 0` (an empty password, empty nonce), decrypted with a 5-byte nonce. -/
theorem C16_counterexample_nonce_too_long_unguarded (r : Rsa) (hl : RsaLaws r) (pad : Padding) (hp : pad ≠ .pss) :
    ∃ C, encrypt r pad 0 [] [] = .ok C ∧ decryptW ⟨true, false⟩ r pad (some C) [9, 9, 9, 9, 9] = .panic := by
  obtain ⟨C, hC⟩ := encrypt_total r hl pad hp 0 [] []
  obtain ⟨hmod, hdec⟩ := encrypt_spec r hl pad 0 [] [] C hC
  refine ⟨C, hC, ?_⟩
  simp only [decryptW, hmod, hdec]
  simp [plaintext, le32, rd32, usizeSub]

/-- PINNED SOURCE (fixed): the crafted 6-byte plaintext `le32 2 ‖ a b` with the nonce
`[0, 0, a, b]` (which overlaps the length prefix) passes the nonce comparison and then slices
`&dst[4..2]`. -/
theorem C16_counterexample_overlap_unguarded (r : Rsa) (hl : RsaLaws r) (pad : Padding) (C : Bytes)
    (dstLen : Nat) (h : publicEncrypt r pad 0 [2, 0, 0, 0, 7, 8] dstLen = .ok C) :
    decryptW ⟨true, false⟩ r pad (some C) [0, 0, 7, 8] = .panic := by
  obtain ⟨hmod, hdec⟩ := publicEncrypt_privateDecrypt r hl pad 0 _ C dstLen h
  simp only [decryptW, hmod, hdec]
  simp [rd32, usizeSub]

/-- … and the crafted plaintext does encrypt (non-vacuity, toy RSA) -/
example : ∃ C, publicEncrypt (toyRsa 128) .pkcs1 0 [2, 0, 0, 0, 7, 8] 128 = .ok C := by
  have hl := toyRsa_laws 128 (by omega) (by omega)
  obtain ⟨C, hC, _⟩ := encLoop_ok (toyRsa 128) hl .pkcs1 117 (by decide) (by omega) 128 6 0
    [2, 0, 0, 0, 7, 8] [] (by decide) (by decide)
  exact ⟨C, by simpa [publicEncrypt, toyRsa, ptbs, usizeSub] using hC⟩

end OpcuaVerif.C16
