import OpcuaVerif.Model.C12
import OpcuaVerif.Proofs.C11

/-!
C12 — Sequence numbers increase by one per chunk and replays are rejected.

Receiver: `validate_accepts_only`, `validate_total`, `recv_total`, `accepted_increasing`,
`replay_rejected` (+ counterexamples on the pinned source, `fixed = false`).
Sender: `sender_consecutive`, `write_one_request_id`, `request_ids_distinct`, `mw_write_seq`
(+ the recorded u32 wrap-around counterexamples).
-/

namespace OpcuaVerif.C12
open OpcuaVerif.C11

theorem addU32_some {a b n : Nat} (h : addU32 a b = some n) : n = a + b ∧ a + b < 4294967296 := by
  unfold addU32 at h
  split at h
  · simp at h; exact ⟨h.symm, by assumption⟩
  · simp at h

/-- what passing the per-chunk loop means -/
theorem checkLoop_none (chanId first req0 : Nat) : ∀ (l : List (Option CI)) (i : Nat),
    checkLoop chanId first req0 i l = none →
    ∃ cs : List CI, l = cs.map some ∧ cs.map (·.seq) = List.range' (first + i) cs.length ∧
      (chanId ≠ 0 → ∀ c ∈ cs, c.chan = chanId) ∧
      (∀ c ∈ (if i = 0 then cs.tail else cs), c.req = req0) := by
  intro l
  induction l with
  | nil => intro i _; exact ⟨[], rfl, rfl, fun _ _ h => by simp at h, by simp⟩
  | cons x rest ih =>
    intro i h
    cases x with
    | none => simp [checkLoop] at h
    | some c =>
      simp only [checkLoop] at h
      split at h
      · simp at h
      · rename_i hchan
        cases ha : addU32 first i with
        | none => simp [ha] at h
        | some expected =>
          simp only [ha] at h
          split at h
          · simp at h
          · rename_i hseq
            split at h
            · simp at h
            · rename_i hreq
              obtain ⟨cs, e1, e2, e3, e4⟩ := ih (i + 1) h
              obtain ⟨hexp, _⟩ := addU32_some ha
              refine ⟨c :: cs, by simp [e1], ?_, ?_, ?_⟩
              · simp only [List.map_cons, List.length_cons, List.range'_succ]
                rw [e2]
                simp at hseq
                rw [hseq, hexp]
                simp [Nat.add_assoc]
              · intro hc x hx
                simp only [List.mem_cons] at hx
                rcases hx with hx | hx
                · subst hx
                  simp only [ne_eq, not_and, Decidable.not_not] at hchan
                  exact hchan hc
                · exact e3 hc x hx
              · simp only [Nat.succ_ne_zero, ↓reduceIte] at e4
                by_cases hi : i = 0
                · simp [hi]; exact e4
                · simp only [hi, ↓reduceIte]
                  intro x hx
                  simp only [List.mem_cons] at hx
                  rcases hx with hx | hx
                  · subst hx
                    simp only [ne_eq, not_and, Decidable.not_not] at hreq
                    exact hreq hi
                  · exact e4 x hx

/-- **A receiver accepts a message only if** its chunks all have readable headers, carry
consecutive sequence numbers starting at or above the expected one, share one request id and —
once the channel has an id — the channel's id.  The value returned is the last sequence number. -/
theorem validate_accepts_only (start chanId : Nat) (chunks : List (Option CI)) (last : Nat)
    (h : validateChunks start chanId chunks = .ok last) :
    ∃ (c0 : CI) (cs : List CI), chunks = (c0 :: cs).map some ∧ start ≤ c0.seq ∧
      (c0 :: cs).map (·.seq) = List.range' c0.seq (cs.length + 1) ∧
      (∀ c ∈ c0 :: cs, c.req = c0.req) ∧
      (chanId ≠ 0 → ∀ c ∈ c0 :: cs, c.chan = chanId) ∧
      last = c0.seq + cs.length ∧ last < 4294967296 := by
  unfold validateChunks validateChunksWith at h
  match chunks, h with
  | [], h => simp at h
  | none :: _, h => simp at h
  | some c0 :: rest, h =>
    simp only at h
    split at h
    · simp at h
    · rename_i hstart
      simp only [↓reduceIte] at h
      have hlen0 : (some c0 :: rest).length - 1 = rest.length := by simp
      rw [hlen0] at h
      cases ha : addU32 c0.seq rest.length with
      | none => rw [ha] at h; simp at h
      | some l =>
        rw [ha] at h
        simp only at h
        cases hl : checkLoop chanId c0.seq c0.req 0 (some c0 :: rest) with
        | some r =>
          simp only [hl] at h
          -- the loop never answers `ok`
          exfalso
          have : ∀ (l : List (Option CI)) (i : Nat) (r : VOut), checkLoop chanId c0.seq c0.req i l = some r →
              ∀ x, r ≠ .ok x := by
            intro l
            induction l with
            | nil => intro i r h; simp [checkLoop] at h
            | cons y ys ih =>
              intro i r h x
              cases y with
              | none => simp [checkLoop] at h; subst h; simp
              | some c =>
                simp only [checkLoop] at h
                split at h
                · simp at h; subst h; simp
                · cases hb : addU32 c0.seq i with
                  | none => simp [hb] at h; subst h; simp
                  | some e =>
                    simp only [hb] at h
                    split at h
                    · simp at h; subst h; simp
                    · split at h
                      · simp at h; subst h; simp
                      · exact ih (i + 1) r h x
          exact this _ 0 r hl last h
        | none =>
          simp only [hl] at h
          simp at h
          subst h
          obtain ⟨cs, e1, e2, e3, e4⟩ := checkLoop_none chanId c0.seq c0.req _ 0 hl
          obtain ⟨hl1, hl2⟩ := addU32_some ha
          cases cs with
          | nil => simp at e1
          | cons d ds =>
            simp only [List.map_cons, List.cons.injEq, Option.some.injEq] at e1
            obtain ⟨hd, hrest⟩ := e1
            subst hd
            have hlen : rest.length = ds.length := by rw [hrest]; simp
            refine ⟨c0, ds, by simp [hrest], by omega, by simpa using e2, ?_, e3, ?_, ?_⟩
            · intro c hc
              simp only [List.mem_cons] at hc
              rcases hc with hc | hc
              · subst hc; rfl
              · simp only [↓reduceIte, List.tail_cons] at e4
                exact e4 c hc
            · omega
            · omega

/-! ### totality (after the fixes) and the recorded counterexamples on the pinned source -/

theorem checkLoop_no_panic (chanId first req0 : Nat) : ∀ (l : List (Option CI)) (i : Nat),
    first + (i + l.length) ≤ 4294967296 → checkLoop chanId first req0 i l ≠ some .panic := by
  intro l
  induction l with
  | nil => intro i _; simp [checkLoop]
  | cons x rest ih =>
    intro i hb
    cases x with
    | none => simp [checkLoop]
    | some c =>
      simp only [checkLoop]
      split
      · simp
      · have : addU32 first i = some (first + i) := by
          unfold addU32; rw [if_pos]; simp at hb; omega
        simp only [this]
        split
        · simp
        · split
          · simp
          · apply ih (i + 1); simp at hb ⊢; omega

/-- `validate_chunks` (after the fix) never panics, whatever the chunks are. -/
theorem validate_total (start chanId : Nat) (chunks : List (Option CI)) :
    validateChunks start chanId chunks ≠ .panic := by
  unfold validateChunks validateChunksWith
  match chunks with
  | [] => simp
  | none :: _ => simp
  | some c0 :: rest =>
    simp only [↓reduceIte]
    split
    · simp
    · cases ha : addU32 c0.seq ((some c0 :: rest).length - 1) with
      | none => simp
      | some l =>
        simp only
        obtain ⟨h1, h2⟩ := addU32_some ha
        have hnp := checkLoop_no_panic chanId c0.seq c0.req (some c0 :: rest) 0 (by simp at h2 ⊢; omega)
        cases hl : checkLoop chanId c0.seq c0.req 0 (some c0 :: rest) with
        | none => simp
        | some r =>
          simp only
          intro hr; subst hr; exact hnp hl

/-- the receive step (after the fix) never panics -/
theorem recv_total (last chanId : Nat) (chunks : List (Option CI)) : recv last chanId chunks ≠ .panic := by
  unfold recv recvWith
  cases addU32 last 1 with
  | none => simp
  | some s => exact validate_total s chanId chunks

/-- pinned source: an empty chunk list indexes `chunks[0]` -/
theorem C12_counterexample_empty : validateChunksWith false 1 1 [] = .panic := by decide

/-- pinned source: one chunk numbered `u32::MAX` overflows `first + len - 1` -/
theorem C12_counterexample_seq_max :
    validateChunksWith false 1 1 [some ⟨1, 4294967295, 7⟩] = .panic := by decide

/-- pinned source: two chunks ending at `u32::MAX` overflow as well -/
theorem C12_counterexample_seq_max2 :
    validateChunksWith false 1 1 [some ⟨1, 4294967294, 7⟩, some ⟨1, 4294967295, 7⟩] = .panic := by decide

/-- pinned source: after a message ending at `u32::MAX` was accepted, `last + 1` overflows -/
theorem C12_counterexample_last_max : recvWith false 4294967295 1 [some ⟨1, 0, 7⟩] = .panic := by decide

/-! ### histories of received messages -/

/-- Every message of the history is offered to the receiver; returns the accepted ones in order and
the final high-water mark.  (Rejected messages leave the state unchanged; the real transports close
the connection, which is the special case "no further messages".) -/
def runRecv (chanId : Nat) : Nat → List (List CI) → List (List CI) × Nat
  | last, [] => ([], last)
  | last, m :: ms =>
    match recv last chanId (m.map some) with
    | .ok l' => ((m :: (runRecv chanId l' ms).1), (runRecv chanId l' ms).2)
    | _ => runRecv chanId last ms

theorem map_some_inj {α : Type} : ∀ {a b : List α}, a.map some = b.map some → a = b := by
  intro a
  induction a with
  | nil => intro b h; cases b <;> simp_all
  | cons x xs ih =>
    intro b h
    cases b with
    | nil => simp at h
    | cons y ys => simp at h; rw [h.1, ih h.2]

/-- one accepted message: all its sequence numbers lie strictly above the old mark and at or
below the new one -/
theorem recv_ok_bounds (last chanId : Nat) (m : List CI) (l' : Nat)
    (h : recv last chanId (m.map some) = .ok l') :
    m ≠ [] ∧ last < l' ∧ ∀ c ∈ m, last < c.seq ∧ c.seq ≤ l' := by
  unfold recv recvWith at h
  cases ha : addU32 last 1 with
  | none => simp [ha] at h
  | some s =>
    simp only [ha] at h
    obtain ⟨hs, _⟩ := addU32_some ha
    obtain ⟨c0, cs, e1, e2, e3, _, _, e6, _⟩ := validate_accepts_only s chanId _ l' h
    have hm : m = c0 :: cs := map_some_inj e1
    subst hm
    refine ⟨by simp, by omega, ?_⟩
    intro c hc
    have hmem : c.seq ∈ (c0 :: cs).map (·.seq) := List.mem_map_of_mem hc
    rw [e3, List.mem_range'_1] at hmem
    omega

/-- **Accepted sequence numbers only go up.** Over any history: the mark never decreases, every
chunk of every accepted message is numbered above the initial mark and at most the final one, and
every chunk of a later accepted message is numbered above every chunk of an earlier one. -/
theorem accepted_increasing (chanId : Nat) : ∀ (ms : List (List CI)) (last : Nat),
    last ≤ (runRecv chanId last ms).2 ∧
    (∀ m ∈ (runRecv chanId last ms).1, m ≠ [] ∧ ∀ c ∈ m, last < c.seq ∧ c.seq ≤ (runRecv chanId last ms).2) ∧
    List.Pairwise (fun m₁ m₂ => ∀ c ∈ m₁, ∀ d ∈ m₂, c.seq < d.seq) (runRecv chanId last ms).1 := by
  intro ms
  induction ms with
  | nil => intro last; simp [runRecv]
  | cons m ms ih =>
    intro last
    simp only [runRecv]
    cases hr : recv last chanId (m.map some) with
    | ok l' =>
      simp only
      obtain ⟨hne, hlt, hb⟩ := recv_ok_bounds last chanId m l' hr
      obtain ⟨i1, i2, i3⟩ := ih l'
      refine ⟨by omega, ?_, ?_⟩
      · intro x hx
        simp only [List.mem_cons] at hx
        rcases hx with hx | hx
        · subst hx
          exact ⟨hne, fun c hc => ⟨(hb c hc).1, by have := (hb c hc).2; omega⟩⟩
        · obtain ⟨a, b⟩ := i2 x hx
          exact ⟨a, fun c hc => ⟨by have := (b c hc).1; omega, (b c hc).2⟩⟩
      · simp only [List.pairwise_cons]
        refine ⟨?_, i3⟩
        intro m2 hm2 c hc d hd
        have := (hb c hc).2
        have := ((i2 m2 hm2).2 d hd).1
        omega
    | err e => simp only; exact ih last
    | panic => simp only; exact ih last

/-- **Replays are rejected.** A message that was accepted somewhere in a history is rejected when
it is presented again at any later time (any mark at or above the one reached). -/
theorem replay_rejected (chanId : Nat) (ms : List (List CI)) (last : Nat) (m : List CI)
    (hm : m ∈ (runRecv chanId last ms).1) (later : Nat) (hl : (runRecv chanId last ms).2 ≤ later) (l' : Nat) :
    recv later chanId (m.map some) ≠ .ok l' := by
  intro h
  obtain ⟨_, i2, _⟩ := accepted_increasing chanId ms last
  obtain ⟨hne, hb⟩ := i2 m hm
  obtain ⟨_, _, hb2⟩ := recv_ok_bounds later chanId m l' h
  cases m with
  | nil => exact hne rfl
  | cons c cs =>
    have h1 := (hb c (by simp)).2
    have h2 := (hb2 c (by simp)).1
    omega

/-- non-vacuity: a history with an accepted two-chunk message, a replay of it (rejected), a message
with a gap (accepted: only "greater than" is required) and an out-of-order one (rejected) -/
example : runRecv 1 0 [[⟨1, 1, 5⟩, ⟨1, 2, 5⟩], [⟨1, 1, 5⟩, ⟨1, 2, 5⟩], [⟨1, 7, 6⟩], [⟨1, 9, 6⟩, ⟨1, 8, 6⟩]]
    = ([[⟨1, 1, 5⟩, ⟨1, 2, 5⟩], [⟨1, 7, 6⟩]], 7) := by decide

example : validateChunks 3 1 [some ⟨1, 3, 9⟩, some ⟨1, 4, 9⟩, some ⟨1, 5, 9⟩] = .ok 5 := by decide
example : validateChunks 4294967295 1 [some ⟨1, 4294967295, 9⟩] = .ok 4294967295 := by decide
example : recv 4294967295 1 [some ⟨1, 0, 9⟩] = .err "BadSequenceNumberInvalid" := by decide

/-! ### sender: SendBuffer -/

theorem chunkSeq_mkChunk (c : Chan) (k : CKind) (seq req fin : Nat) (body : Bytes) (h : seq < 4294967296) :
    chunkSeq (mkChunk c k seq req fin body) = some seq := by
  cases k <;> simp [chunkSeq, seqOffset, mkChunk, kindCode, secHdr, asymNone, u32le, readU32] <;> omega

theorem chunkReq_mkChunk (c : Chan) (k : CKind) (seq req fin : Nat) (body : Bytes) (h : req < 4294967296) :
    chunkReq (mkChunk c k seq req fin body) = some req := by
  cases k <;> simp [chunkReq, seqOffset, mkChunk, kindCode, secHdr, asymNone, u32le, readU32] <;> omega

theorem numberChunks_seq (c : Chan) (k : CKind) (seq req : Nat) : ∀ (ps : List Bytes) (i : Nat) (cs : List Bytes),
    numberChunks c k seq req i ps = some cs →
    cs.length = ps.length ∧ cs.map chunkSeq = (List.range' (seq + i) ps.length).map some ∧
    (req < 4294967296 → ∀ ch ∈ cs, chunkReq ch = some req) := by
  intro ps
  induction ps with
  | nil => intro i cs h; simp [numberChunks] at h; subst h; simp
  | cons p ps ih =>
    intro i cs h
    simp only [numberChunks] at h
    cases ha : addU32 seq i with
    | none => simp [ha] at h
    | some s0 =>
      cases hn : numberChunks c k seq req (i + 1) ps with
      | none => simp [ha, hn] at h
      | some rest =>
        simp [ha, hn] at h
        subst h
        obtain ⟨e1, e2, e3⟩ := ih (i + 1) rest hn
        obtain ⟨hs, hlt⟩ := addU32_some ha
        refine ⟨by simp [e1], ?_, ?_⟩
        · simp only [List.map_cons, List.length_cons, List.range'_succ]
          rw [e2, chunkSeq_mkChunk _ _ _ _ _ _ (by omega), hs]
          simp [Nat.add_assoc]
        · intro hr ch hch
          simp only [List.mem_cons] at hch
          rcases hch with h1 | h1
          · subst h1; exact chunkReq_mkChunk _ _ _ _ _ _ hr
          · exact e3 hr ch h1

/-- what an accepted `write` does to the counters and what its chunks carry -/
theorem write_ok_seq (s : SB) (c : Chan) (cl : Bool) (req nid : Nat) (msg : Bytes) (s' : SB) (cs : List Bytes)
    (h : s.write c cl req nid msg = .ok s' cs) :
    s'.lastSeq = s.lastSeq + cs.length ∧ s'.lastSeq < 4294967296 ∧ s'.lastReq = s.lastReq ∧
    cs.map chunkSeq = (List.range' (s.lastSeq + 1) cs.length).map some ∧
    (req < 4294967296 → ∀ ch ∈ cs, chunkReq ch = some req) := by
  unfold SB.write at h
  split at h
  · simp at h
  · cases ha : addU32 s.lastSeq 1 with
    | none => simp [ha] at h
    | some first =>
      simp only [ha] at h
      obtain ⟨hf, hflt⟩ := addU32_some ha
      cases he : chunkerEncode c cl first req s.maxMsg s.sendSize nid msg with
      | panic => simp [he] at h
      | err e => simp [he] at h
      | ok cs0 =>
        simp only [he] at h
        split at h
        · simp at h
        · cases hl : addU32 s.lastSeq cs0.length with
          | none => simp [hl] at h
          | some l =>
            simp [hl] at h
            obtain ⟨h1, h2⟩ := h
            subst h1 h2
            obtain ⟨hl1, hl2⟩ := addU32_some hl
            refine ⟨hl1, by simp only; omega, rfl, ?_⟩
            unfold chunkerEncode at he
            split at he
            · simp at he
            · split at he
              · split at he
                · simp at he
                · cases hn : numberChunks c (msgKind msg) first req 0 (chunksOf (s.sendSize - (20 + (secHdr c (msgKind msg)).length)) msg) with
                  | none => simp [hn] at he
                  | some cs1 =>
                    simp [hn] at he
                    subst he
                    obtain ⟨e1, e2, e3⟩ := numberChunks_seq c (msgKind msg) first req _ 0 cs1 hn
                    rw [e1, e2, hf]
                    exact ⟨by simp, e3⟩
              · simp at he
                subst he
                refine ⟨?_, ?_⟩
                · simp [chunkSeq_mkChunk _ _ _ _ _ _ hflt, hf, List.range'_succ]
                · intro hr ch hch
                  simp at hch; subst hch
                  exact chunkReq_mkChunk _ _ _ _ _ _ hr

theorem sink_lastSeq (s : SB) (k : Nat) (s' : SB) (w : Bytes) (h : s.sink k = .ok s' w) :
    s'.lastSeq = s.lastSeq := by
  unfold SB.sink at h
  cases hr : s.reading <;> simp only [hr] at h <;> split at h <;> (try simp at h) <;> split at h <;>
    (simp at h; rw [← h.1])

/-- `lastSeq` counts the accepted chunks, which are numbered 1, 2, 3, … -/
def SeqInv (t : TxSt) : Prop :=
  t.sb.lastSeq = t.accepted.length ∧ t.accepted.map chunkSeq = (List.range' 1 t.accepted.length).map some

theorem txStep_seq (c : Chan) (cl : Bool) (t t' : TxSt) (op : TxOp) (hi : SeqInv t)
    (h : txStep c cl t op = some t') : SeqInv t' := by
  obtain ⟨h1, h2⟩ := hi
  cases op with
  | write req nid msg =>
    simp only [txStep] at h
    cases hw : t.sb.write c cl req nid msg with
    | ok s' cs =>
      simp [hw] at h; subst h
      obtain ⟨e1, _, _, e4, _⟩ := write_ok_seq t.sb c cl req nid msg s' cs hw
      refine ⟨by simp [e1, h1], ?_⟩
      simp only [List.map_append, List.length_append, h2, e4, h1]
      rw [← List.map_append]
      congr 1
      rw [show t.accepted.length + 1 = 1 + t.accepted.length by omega, List.range'_append_1]
    | err e => simp [hw] at h; subst h; exact ⟨h1, h2⟩
    | panic => simp [hw] at h
  | enc =>
    simp only [txStep] at h
    cases he : t.sb.encodeNext with
    | ok s' =>
      simp [he] at h; subst h
      have : s'.lastSeq = t.sb.lastSeq := by
        unfold SB.encodeNext at he
        split at he
        · simp at he
        · split at he
          · simp at he; subst he; rfl
          · split at he
            · simp at he
            · simp at he; subst he; rfl
      exact ⟨by simp [this, h1], h2⟩
    | err s' e =>
      simp [he] at h; subst h
      have : s'.lastSeq = t.sb.lastSeq := by
        unfold SB.encodeNext at he
        split at he
        · simp at he; rw [← he.1]
        · split at he
          · simp at he
          · split at he
            · simp at he; rw [← he.1]
            · simp at he
      exact ⟨by simp [this, h1], h2⟩
  | sink k =>
    simp only [txStep] at h
    cases hs : t.sb.sink k with
    | panic => simp [hs] at h
    | ok s' w =>
      simp [hs] at h; subst h
      have : s'.lastSeq = t.sb.lastSeq := sink_lastSeq t.sb k s' w hs
      exact ⟨by simp [this, h1], h2⟩
  | nextid =>
    simp only [txStep, SB.nextRequestId] at h
    cases ha : addU32 t.sb.lastReq 1 with
    | none => simp [ha] at h
    | some r => simp [ha] at h; subst h; exact ⟨h1, h2⟩

/-- **Sender: sequence numbers increase by exactly one per chunk.** After any history of
operations on a fresh send buffer (that did not hit the u32 overflow panic), the chunks of all
accepted messages, in order, carry the sequence numbers 1, 2, 3, … and the counter equals their
number (so it is below 2^32). -/
theorem sender_consecutive (c : Chan) (cl : Bool) (bs mm mc : Nat) (ops : List TxOp) (t : TxSt)
    (h : txRun c cl (txInit bs mm mc) ops = some t) :
    t.accepted.map chunkSeq = (List.range' 1 t.accepted.length).map some ∧
    t.sb.lastSeq = t.accepted.length := by
  have gen : ∀ (ops : List TxOp) (t0 t : TxSt), SeqInv t0 → txRun c cl t0 ops = some t → SeqInv t := by
    intro ops
    induction ops with
    | nil => intro t0 t hi h; simp [txRun] at h; subst h; exact hi
    | cons op ops ih =>
      intro t0 t hi h
      simp only [txRun] at h
      cases hs : txStep c cl t0 op with
      | none => simp [hs] at h
      | some t1 => simp only [hs] at h; exact ih t1 t (txStep_seq c cl t0 t1 op hi hs) h
  have := gen ops (txInit bs mm mc) t (by simp [SeqInv, txInit, SB.new]) h
  exact ⟨this.2, this.1⟩

/-- every chunk of one accepted message carries that message's request id -/
theorem write_one_request_id (s : SB) (c : Chan) (cl : Bool) (req nid : Nat) (msg : Bytes) (s' : SB)
    (cs : List Bytes) (hr : req < 4294967296) (h : s.write c cl req nid msg = .ok s' cs) :
    ∀ ch ∈ cs, chunkReq ch = some req :=
  (write_ok_seq s c cl req nid msg s' cs h).2.2.2.2 hr

/-- request ids handed out by `next_request_id`: `n` draws give `last+1, …, last+n` — pairwise
distinct — as long as the u32 counter does not overflow (then: panic, `none`). -/
def drawIds : SB → Nat → Option (List Nat)
  | _, 0 => some []
  | s, n + 1 =>
    match s.nextRequestId with
    | none => none
    | some (s', r) => (drawIds s' n).map (r :: ·)

theorem request_ids_distinct : ∀ (n : Nat) (s : SB) (ids : List Nat), drawIds s n = some ids →
    ids = List.range' (s.lastReq + 1) n ∧ ids.Nodup := by
  intro n
  induction n with
  | zero => intro s ids h; simp [drawIds] at h; subst h; simp
  | succ n ih =>
    intro s ids h
    simp only [drawIds, SB.nextRequestId] at h
    cases ha : addU32 s.lastReq 1 with
    | none => simp [ha] at h
    | some r =>
      simp only [ha, Option.map_some] at h
      obtain ⟨hr, _⟩ := addU32_some ha
      cases hd : drawIds { s with lastReq := r } n with
      | none => simp [hd] at h
      | some rest =>
        simp [hd] at h
        subst h
        obtain ⟨e1, _⟩ := ih _ rest hd
        simp only at e1
        have : r :: rest = List.range' (s.lastReq + 1) (n + 1) := by
          rw [List.range'_succ, e1, hr]
        rw [this]
        exact ⟨rfl, List.nodup_range' (step := 1) (by omega)⟩

/-- recorded finding (sender): at `last_sent_sequence_number = u32::MAX` the next write panics
(dev profile; wraps to 0 in release) -/
theorem C12_counterexample_sender_wrap :
    ({ SB.new 8196 0 0 with lastSeq := 4294967295 } : SB).write ⟨1, 1⟩ true 5 1 [1, 2, 3] = .panic := by
  decide +kernel

/-- … and with room for one chunk but not for two -/
example : ({ SB.new 8196 0 0 with lastSeq := 4294967294 } : SB).write ⟨1, 1⟩ true 5 1 [1, 2, 3]
    ≠ .panic := by decide +kernel

/-! ### sender: MessageWriter (server) -/

/-- an accepted `MessageWriter::write` appends exactly one chunk, numbered one above the previous
one and carrying the given request id -/
theorem mw_write_seq (s : MW) (c : Chan) (cl : Bool) (req nid : Nat) (msg : Bytes) (s' : MW)
    (h : s.write c cl req nid msg = .ok s') :
    s'.lastSeq = s.lastSeq + 1 ∧ s'.lastSeq < 4294967296 ∧
    ∃ ch, s'.out = s.out ++ ch ∧ chunkSeq ch = some (s.lastSeq + 1) ∧
      (req < 4294967296 → chunkReq ch = some req) := by
  unfold MW.write at h
  cases ha : addU32 s.lastSeq 1 with
  | none => simp [ha] at h
  | some first =>
    simp only [ha] at h
    obtain ⟨hf, hflt⟩ := addU32_some ha
    have he : ∀ r, chunkerEncode c cl first req s.maxMsg 0 nid msg = r →
        (∃ e, r = .err e) ∨ r = .ok [mkChunk c (msgKind msg) first req 70 msg] := by
      intro r hr
      unfold chunkerEncode at hr
      split at hr
      · exact Or.inl ⟨_, hr.symm⟩
      · simp at hr; exact Or.inr hr.symm
    rcases he _ rfl with ⟨e, he⟩ | he
    · simp [he] at h
    · simp only [he] at h
      split at h
      · simp at h
      · simp only [List.length_cons, List.length_nil, Nat.zero_add] at h
        rw [ha] at h
        simp only [List.foldl_cons, List.foldl_nil] at h
        split at h
        · simp at h
        · simp at h
          subst h
          refine ⟨by simp [hf], by simp only; omega, _, rfl, ?_, ?_⟩
          · rw [chunkSeq_mkChunk _ _ _ _ _ _ (by omega), hf]
          · intro hr; exact chunkReq_mkChunk _ _ _ _ _ _ hr

example : ((MW.new 100 0 0).write ⟨1, 1⟩ false 5 1 [1, 2, 3]) =
    .ok { bufLen := 100, lastReq := 1000, maxMsg := 0, maxChunks := 0, lastSeq := 1,
          out := [77, 83, 71, 70, 27, 0, 0, 0, 1, 0, 0, 0, 1, 0, 0, 0, 1, 0, 0, 0, 5, 0, 0, 0, 1, 2, 3] } := by decide

/-- recorded finding (sender): `next_request_id` at `u32::MAX` panics (dev profile) -/
theorem C12_counterexample_reqid_wrap :
    ({ SB.new 8196 0 0 with lastReq := 4294967295 } : SB).nextRequestId = none := by
  decide +kernel

end OpcuaVerif.C12
