import OpcuaVerif.Model.C31

/-!
C31 — Browse path translation finds exactly the matching nodes.
Property theorems.  The model is `OpcuaVerif.Model.C31`; the specification is the set-based
reachability `PathSpec` below.
-/
namespace OpcuaVerif.C31

/-! ### specification -/

/-- reflexive-transitive closure of the HasSubtype references: `b` is `a` or a subtype of `a` -/
inductive Reach (refs : List (Nat × Nat × Nat)) : Nat → Nat → Prop
  | refl (a : Nat) : Reach refs a a
  | step (a c b : Nat) : c ∈ children refs a → Reach refs c b → Reach refs a b

/-- the same with a bound on the length of the chain -/
inductive ReachN (refs : List (Nat × Nat × Nat)) : Nat → Nat → Nat → Prop
  | refl (n a : Nat) : ReachN refs n a a
  | step (n a c b : Nat) : c ∈ children refs a → ReachN refs n c b → ReachN refs (n + 1) a b

/-- a reference of type `ty` is to be followed by element `e`: no type given, the type itself, or
(when requested) one of its subtypes -/
def TyOK (g : Graph) (e : Elem) (ty : Nat) : Prop :=
  e.refType = 0 ∨ ty = e.refType ∨ (e.sub = true ∧ Reach g.refs e.refType ty)

/-- one element: a reference of an acceptable type in the requested direction from `a` to an
existing node `b` whose browse name is the target name -/
def StepSpec (g : Graph) (e : Elem) (a b : Nat) : Prop :=
  ∃ ty, (if e.inverse then (b, ty, a) ∈ g.refs else (a, ty, b) ∈ g.refs) ∧ TyOK g e ty ∧
    ∃ nm, nodeName? g.nodes b = some nm ∧ (e.name = 0 ∨ nm = e.name)

/-- element by element -/
def PathSpec (g : Graph) : List Elem → Nat → Nat → Prop
  | [], a, b => a = b
  | e :: es, a, b => ∃ m, StepSpec g e a m ∧ PathSpec g es m b

/-- every subtype chain fits into the fuel of the model's depth-first search (true on acyclic type
graphs, where a chain cannot use a HasSubtype reference twice; the real loop has no bound and does
not terminate on cyclic ones — C33) -/
def DepthOK (g : Graph) : Prop := ∀ a b, Reach g.refs a b → ReachN g.refs g.refs.length a b

/-! ### subtype search -/

theorem reach_sound (refs : List (Nat × Nat × Nat)) (f : Nat) : ∀ a b, reach refs f a b = true → Reach refs a b := by
  induction f with
  | zero => intro a b h; simp [reach] at h; subst h; exact .refl a
  | succ f ih =>
    intro a b h
    simp only [reach, Bool.or_eq_true, beq_iff_eq, List.any_eq_true] at h
    rcases h with h | ⟨c, hc, hr⟩
    · subst h; exact .refl a
    · exact .step a c b hc (ih c b hr)

theorem reach_complete (refs : List (Nat × Nat × Nat)) (n a b : Nat) (h : ReachN refs n a b) :
    ∀ f, n ≤ f → reach refs f a b = true := by
  induction h with
  | refl n a => intro f _; cases f <;> simp [reach]
  | step n a c b hc _ ih =>
    intro f hf
    cases f with
    | zero => omega
    | succ f =>
      simp only [reach, Bool.or_eq_true, beq_iff_eq, List.any_eq_true]
      exact Or.inr ⟨c, hc, ih f (by omega)⟩

theorem passes_sound (g : Graph) (e : Elem) (ty : Nat) (h : passes g (filterOf true e) ty = true) : TyOK g e ty := by
  unfold filterOf at h
  by_cases h0 : e.refType = 0
  · exact Or.inl h0
  · simp only [h0, if_false, if_true, passes, tyMatches, Bool.or_eq_true, beq_iff_eq, Bool.and_eq_true] at h
    rcases h with h | ⟨hs, hr⟩
    · exact Or.inr (Or.inl h.symm)
    · exact Or.inr (Or.inr ⟨hs, reach_sound _ _ _ _ hr⟩)

theorem passes_complete (g : Graph) (hd : DepthOK g) (e : Elem) (ty : Nat) (h : TyOK g e ty) :
    passes g (filterOf true e) ty = true := by
  unfold filterOf
  by_cases h0 : e.refType = 0
  · simp [h0, passes]
  · simp only [h0, if_false, if_true, passes, tyMatches, Bool.or_eq_true, beq_iff_eq, Bool.and_eq_true]
    rcases h with h | h | ⟨hs, hr⟩
    · exact absurd h h0
    · exact Or.inl h.symm
    · exact Or.inr ⟨hs, reach_complete _ _ _ _ (hd _ _ hr) _ (Nat.le_refl _)⟩

/-! ### one element -/

theorem mem_dedup (l : List Nat) (x : Nat) : x ∈ dedup l ↔ x ∈ l := by
  induction l with
  | nil => simp [dedup]
  | cons y ys ih =>
    unfold dedup
    split
    · rename_i hy
      constructor
      · intro h; exact List.mem_cons_of_mem _ (ih.mp h)
      · intro h
        rcases List.mem_cons.mp h with h | h
        · subst h; exact hy
        · exact ih.mpr h
    · constructor
      · intro h
        rcases List.mem_cons.mp h with h | h
        · subst h; simp
        · exact List.mem_cons_of_mem _ (ih.mp h)
      · intro h
        rcases List.mem_cons.mp h with h | h
        · subst h; simp
        · exact List.mem_cons_of_mem _ (ih.mpr h)

theorem mem_candidates (g : Graph) (flt : Option (Nat × Bool)) (inv : Bool) (a b : Nat) :
    b ∈ candidates g flt inv a ↔
      ∃ ty, (if inv then (b, ty, a) ∈ g.refs else (a, ty, b) ∈ g.refs) ∧ passes g flt ty = true := by
  unfold candidates
  cases inv with
  | true =>
    simp only [if_true, List.mem_map, List.mem_filter, decide_eq_true_eq]
    constructor
    · rintro ⟨⟨s, ty, t⟩, ⟨hm, ht, hp⟩, rfl⟩
      simp only at ht hp; subst ht
      exact ⟨ty, hm, hp⟩
    · rintro ⟨ty, hm, hp⟩
      exact ⟨(b, ty, a), ⟨hm, rfl, hp⟩, rfl⟩
  | false =>
    simp only [Bool.false_eq_true, if_false, List.mem_map, List.mem_filter, decide_eq_true_eq]
    constructor
    · rintro ⟨⟨s, ty, t⟩, ⟨hm, hs, hp⟩, rfl⟩
      simp only at hs hp; subst hs
      exact ⟨ty, hm, hp⟩
    · rintro ⟨ty, hm, hp⟩
      exact ⟨(a, ty, b), ⟨hm, rfl, hp⟩, rfl⟩

theorem mem_follow (g : Graph) (e : Elem) (a b : Nat) :
    b ∈ followWith true g e a ↔
      ∃ ty, (if e.inverse then (b, ty, a) ∈ g.refs else (a, ty, b) ∈ g.refs) ∧
        passes g (filterOf true e) ty = true ∧
        ∃ nm, nodeName? g.nodes b = some nm ∧ (e.name = 0 ∨ nm = e.name) := by
  unfold followWith
  rw [mem_dedup, List.mem_filter, mem_candidates]
  constructor
  · rintro ⟨⟨ty, hm, hp⟩, hn⟩
    cases hnm : nodeName? g.nodes b with
    | none => simp [hnm] at hn
    | some nm => exact ⟨ty, hm, hp, nm, rfl, by simpa [hnm] using hn⟩
  · rintro ⟨ty, hm, hp, nm, hnm, hn⟩
    exact ⟨⟨ty, hm, hp⟩, by simpa [hnm] using hn⟩

theorem follow_sound (g : Graph) (e : Elem) (a b : Nat) (h : b ∈ followWith true g e a) : StepSpec g e a b := by
  obtain ⟨ty, hm, hp, hn⟩ := (mem_follow g e a b).mp h
  exact ⟨ty, hm, passes_sound g e ty hp, hn⟩

theorem follow_complete (g : Graph) (hd : DepthOK g) (e : Elem) (a b : Nat) (h : StepSpec g e a b) :
    b ∈ followWith true g e a := by
  obtain ⟨ty, hm, ht, hn⟩ := h
  exact (mem_follow g e a b).mpr ⟨ty, hm, passes_complete g hd e ty ht, hn⟩

/-! ### the whole path -/

theorem walk_sound (g : Graph) (es : List Elem) : ∀ (cur ns : List Nat),
    walkWith true g es cur = .ok ns → ∀ b ∈ ns, ∃ a ∈ cur, PathSpec g es a b := by
  induction es with
  | nil => intro cur ns h b hb; simp [walkWith] at h; subst h; exact ⟨b, hb, rfl⟩
  | cons e es ih =>
    intro cur ns h b hb
    unfold walkWith at h
    split at h
    · simp at h
    · simp only at h
      split at h
      · simp at h; subst h; simp at hb
      · obtain ⟨m, hm, hp⟩ := ih _ _ h b hb
        obtain ⟨a, ha, hma⟩ := List.mem_flatMap.mp hm
        exact ⟨a, ha, m, follow_sound g e a m hma, hp⟩

theorem walk_complete (g : Graph) (hd : DepthOK g) (es : List Elem) : ∀ (cur ns : List Nat),
    walkWith true g es cur = .ok ns → ∀ a ∈ cur, ∀ b, PathSpec g es a b → b ∈ ns := by
  induction es with
  | nil => intro cur ns h a ha b hp; simp [walkWith] at h; subst h; simp [PathSpec] at hp; subst hp; exact ha
  | cons e es ih =>
    intro cur ns h a ha b hp
    obtain ⟨m, hs, hp'⟩ := hp
    have hm : m ∈ cur.flatMap (followWith true g e) :=
      List.mem_flatMap.mpr ⟨a, ha, follow_complete g hd e a m hs⟩
    unfold walkWith at h
    split at h
    · simp at h
    · simp only at h
      split at h
      · rename_i hempty
        simp only [List.isEmpty_iff] at hempty
        rw [hempty] at hm; simp at hm
      · exact ih _ _ h m hm b hp'

/-- **Soundness**: every returned node is reachable from the starting node by following the path
element by element (reference of the given type or, when requested, a subtype; requested
direction; target exists and carries the target name). -/
theorem translate_sound (g : Graph) (s : Nat) (es : List Elem) (ns : List Nat)
    (h : translate g s es = .ok ns) : ∀ b ∈ ns, PathSpec g es s b := by
  unfold translate translateWith at h
  split at h
  · simp at h
  · split at h
    · simp at h
    · split at h
      · simp at h
      · simp at h
      · rename_i ns' _ hw
        simp only [Except.ok.injEq] at h; subst h
        intro b hb
        obtain ⟨a, ha, hp⟩ := walk_sound g es [s] _ hw b hb
        simp at ha; subst ha; exact hp

/-- **Completeness** (type graphs whose subtype chains fit the search depth): every node reachable
along the path is returned. -/
theorem translate_complete (g : Graph) (hd : DepthOK g) (s : Nat) (es : List Elem) (ns : List Nat)
    (h : translate g s es = .ok ns) : ∀ b, PathSpec g es s b → b ∈ ns := by
  unfold translate translateWith at h
  split at h
  · simp at h
  · split at h
    · simp at h
    · split at h
      · simp at h
      · simp at h
      · rename_i ns' _ hw
        simp only [Except.ok.injEq] at h; subst h
        intro b hp
        exact walk_complete g hd es [s] _ hw s (by simp) b hp

/-- **BadNoMatch is returned only when no node matches.** -/
theorem nomatch_complete (g : Graph) (hd : DepthOK g) (s : Nat) (es : List Elem)
    (h : translate g s es = .error .badNoMatch) : ∀ b, ¬ PathSpec g es s b := by
  unfold translate translateWith at h
  split at h
  · simp at h
  · split at h
    · simp at h
    · split at h
      · rename_i st hw; simp at h; subst h
        -- the walk itself never fails with BadNoMatch
        exfalso
        have : ∀ (es : List Elem) (cur : List Nat), walkWith true g es cur ≠ .error .badNoMatch := by
          intro es
          induction es with
          | nil => intro cur; simp [walkWith]
          | cons e es ih =>
            intro cur; unfold walkWith
            split
            · simp
            · simp only; split
              · simp
              · exact ih _
        exact this _ _ hw
      · rename_i hw
        intro b hp
        have := walk_complete g hd es [s] _ hw s (by simp) b hp
        simp at this
      · simp at h

/-- **A Good answer is never empty, and for a well-formed request on an existing node the answer
is either Good or BadNoMatch.** -/
theorem translate_status (g : Graph) (s : Nat) (es : List Elem) (hs : (nodeName? g.nodes s).isSome)
    (hne : es ≠ []) (hnames : ∀ e ∈ es, e.name ≠ 0) :
    (∃ ns, ns ≠ [] ∧ translate g s es = .ok ns) ∨ translate g s es = .error .badNoMatch := by
  have hw : ∀ (es : List Elem) (cur : List Nat), (∀ e ∈ es, e.name ≠ 0) → ∃ ns, walkWith true g es cur = .ok ns := by
    intro es
    induction es with
    | nil => intro cur _; exact ⟨cur, rfl⟩
    | cons e es ih =>
      intro cur hn
      unfold walkWith
      rw [if_neg (hn e (by simp))]
      simp only
      split
      · exact ⟨[], rfl⟩
      · exact ih _ (fun e' he' => hn e' (List.mem_cons_of_mem _ he'))
  obtain ⟨ns, hns⟩ := hw es [s] hnames
  unfold translate translateWith
  cases hn : nodeName? g.nodes s with
  | none => simp [hn] at hs
  | some nm =>
    simp only
    rw [if_neg (by simpa using hne), hns]
    cases ns with
    | nil => exact Or.inr rfl
    | cons x xs => exact Or.inl ⟨x :: xs, by simp, rfl⟩

/-! ### the recorded defect of the pinned source (before the `fix:` commit) -/

/-- node 1 —(custom type 1000)→ node 2 "b1", node 1 —(Organizes 35)→ node 3 "b1" -/
def witness : Graph := ⟨[(1, 1), (2, 1), (3, 1)], [(1, 1000, 2), (1, 35, 3)]⟩

/-- On the pinned source a path element naming the custom reference type 1000 follows the
Organizes reference as well: node 3 is returned although no reference of type 1000 leads to it. -/
theorem C31_counterexample_nonstandard_reftype :
    translateWith false witness 1 [⟨1000, false, false, 1⟩] = .ok [2, 3] ∧
      ¬ PathSpec witness [⟨1000, false, false, 1⟩] 1 3 := by
  refine ⟨by rfl, ?_⟩
  rintro ⟨m, ⟨ty, hm, ht, -⟩, hp⟩
  simp only [PathSpec] at hp; subst hp
  simp only [witness, Bool.false_eq_true, if_false, List.mem_cons, Prod.mk.injEq, List.mem_nil_iff, or_false] at hm
  rcases hm with ⟨-, -, h⟩ | ⟨-, hty, -⟩
  · omega
  · subst hty
    rcases ht with h | h | ⟨h, -⟩ <;> simp at h

/-- the repaired source returns exactly node 2 -/
theorem witness_fixed : translate witness 1 [⟨1000, false, false, 1⟩] = .ok [2] := by rfl

/-! ### non-vacuity -/

/-- a graph with a two-level subtype chain 33 → 35 → 1000 satisfies `DepthOK` -/
def chain : Graph := ⟨[(1, 1), (2, 2)], [(33, 45, 35), (35, 45, 1000), (1, 1000, 2)]⟩

theorem chain_children (a c : Nat) (h : c ∈ children chain.refs a) : (a = 33 ∧ c = 35) ∨ (a = 35 ∧ c = 1000) := by
  unfold children at h
  obtain ⟨r, hr, rfl⟩ := List.mem_map.mp h
  obtain ⟨hm, hcond⟩ := List.mem_filter.mp hr
  simp only [chain, List.mem_cons, List.mem_nil_iff, or_false] at hm
  rcases hm with rfl | rfl | rfl <;> simp [hasSubtype] at hcond ⊢ <;> omega

theorem chain_depthOK : DepthOK chain := by
  intro a b h
  have h3 : chain.refs.length = 3 := rfl
  rw [h3]
  cases h with
  | refl => exact .refl _ _
  | step _ c _ hc h1 =>
    cases h1 with
    | refl => exact .step _ _ _ _ hc (.refl _ _)
    | step _ d _ hd h2 =>
      cases h2 with
      | refl => exact .step _ _ _ _ hc (.step _ _ _ _ hd (.refl _ _))
      | step _ x _ hx h3' =>
        exfalso
        rcases chain_children _ _ hc with ⟨rfl, rfl⟩ | ⟨rfl, rfl⟩
        · rcases chain_children _ _ hd with ⟨h, -⟩ | ⟨-, rfl⟩
          · omega
          · rcases chain_children _ _ hx with ⟨h, -⟩ | ⟨h, -⟩ <;> omega
        · rcases chain_children _ _ hd with ⟨h, -⟩ | ⟨h, -⟩ <;> omega

/-! ### acyclic HasSubtype graphs satisfy `DepthOK` -/

abbrev Edge := Nat × Nat × Nat

/-- `es` is a chain of HasSubtype references of `refs` leading from `a` to `b` -/
def IsChain (refs : List Edge) : Nat → Nat → List Edge → Prop
  | a, b, [] => a = b
  | a, b, e :: es => e ∈ refs ∧ e.1 = a ∧ e.2.1 = hasSubtype ∧ IsChain refs e.2.2 b es

theorem chain_of_reach (refs : List Edge) (a b : Nat) (h : Reach refs a b) : ∃ es, IsChain refs a b es := by
  induction h with
  | refl a => exact ⟨[], rfl⟩
  | step a c b hc _ ih =>
    obtain ⟨es, hes⟩ := ih
    unfold children at hc
    obtain ⟨r, hr, rfl⟩ := List.mem_map.mp hc
    obtain ⟨hm, hcond⟩ := List.mem_filter.mp hr
    simp only [decide_eq_true_eq] at hcond
    exact ⟨r :: es, hm, hcond.1, hcond.2, hes⟩

theorem reachN_of_chain (refs : List Edge) (es : List Edge) : ∀ a b, IsChain refs a b es → ReachN refs es.length a b := by
  induction es with
  | nil => intro a b h; simp only [IsChain] at h; subst h; exact .refl _ _
  | cons e es ih =>
    intro a b h
    obtain ⟨hm, h1, h2, hrest⟩ := h
    have hc : e.2.2 ∈ children refs a := by
      unfold children
      exact List.mem_map.mpr ⟨e, List.mem_filter.mpr ⟨hm, by simp [h1, h2]⟩, rfl⟩
    exact .step _ _ _ _ hc (ih _ _ hrest)

theorem reachN_mono (refs : List Edge) (n a b : Nat) (h : ReachN refs n a b) : ∀ m, n ≤ m → ReachN refs m a b := by
  induction h with
  | refl n a => intro m _; exact .refl _ _
  | step n a c b hc _ ih =>
    intro m hm
    cases m with
    | zero => omega
    | succ m => exact .step _ _ _ _ hc (ih m (by omega))

/-- pigeonhole: a duplicate-free list whose elements all occur in `l` is no longer than `l` -/
theorem length_le_of_nodup_subset (es : List Edge) : ∀ (l : List Edge), es.Nodup → (∀ e ∈ es, e ∈ l) →
    es.length ≤ l.length := by
  induction es with
  | nil => intro l _ _; simp
  | cons e es ih =>
    intro l hn hs
    have hne := List.nodup_cons.mp hn
    have he : e ∈ l := hs e (by simp)
    have hsub : ∀ x ∈ es, x ∈ l.erase e := by
      intro x hx
      have hxe : x ≠ e := fun h => hne.1 (h ▸ hx)
      exact (List.mem_erase_of_ne hxe).mpr (hs x (List.mem_cons_of_mem _ hx))
    have := ih (l.erase e) hne.2 hsub
    rw [List.length_erase_of_mem he] at this
    have hpos : 0 < l.length := List.length_pos_of_mem he
    simp only [List.length_cons]; omega

/-- along a chain in a ranked (hence acyclic) graph the sources strictly increase in rank, so no
reference is used twice -/
theorem chain_nodup (refs : List Edge) (rank : Nat → Nat)
    (hr : ∀ r ∈ refs, r.2.1 = hasSubtype → rank r.1 < rank r.2.2) (es : List Edge) :
    ∀ a b, IsChain refs a b es → es.Nodup ∧ ∀ e ∈ es, rank a ≤ rank e.1 := by
  induction es with
  | nil => intro a b _; simp
  | cons e es ih =>
    intro a b h
    obtain ⟨hm, h1, h2, hrest⟩ := h
    obtain ⟨hnd, hge⟩ := ih _ _ hrest
    have hlt := hr e hm h2
    refine ⟨List.nodup_cons.mpr ⟨?_, hnd⟩, ?_⟩
    · intro hin
      have := hge e hin
      omega
    · intro x hx
      rcases List.mem_cons.mp hx with hx | hx
      · subst hx; rw [h1]; exact Nat.le_refl _
      · have := hge x hx
        rw [← h1]; omega

theorem chain_subset (refs : List Edge) (es : List Edge) : ∀ a b, IsChain refs a b es → ∀ e ∈ es, e ∈ refs := by
  induction es with
  | nil => intro a b _ e he; simp at he
  | cons x es ih =>
    intro a b h e he
    obtain ⟨hm, -, -, hrest⟩ := h
    rcases List.mem_cons.mp he with he | he
    · subst he; exact hm
    · exact ih _ _ hrest e he

/-- **Every graph whose HasSubtype references go strictly upwards in some rank — i.e. every acyclic
reference type hierarchy — satisfies `DepthOK`**: a subtype chain cannot use a reference twice, so
it is no longer than the number of references (the fuel of the model's search).  With this,
`translate_complete` and `nomatch_complete` hold for all acyclic type graphs. -/
theorem depthOK_of_ranked (g : Graph) (rank : Nat → Nat)
    (hr : ∀ r ∈ g.refs, r.2.1 = hasSubtype → rank r.1 < rank r.2.2) : DepthOK g := by
  intro a b h
  obtain ⟨es, hes⟩ := chain_of_reach g.refs a b h
  have hn := (chain_nodup g.refs rank hr es a b hes).1
  have hlen := length_le_of_nodup_subset es g.refs hn (chain_subset g.refs es a b hes)
  exact reachN_mono _ _ _ _ (reachN_of_chain g.refs es a b hes) _ hlen

/-- completeness for acyclic (ranked) type graphs, without any further hypothesis -/
theorem translate_complete_acyclic (g : Graph) (rank : Nat → Nat)
    (hr : ∀ r ∈ g.refs, r.2.1 = hasSubtype → rank r.1 < rank r.2.2) (s : Nat) (es : List Elem) (ns : List Nat)
    (h : translate g s es = .ok ns) : ∀ b, PathSpec g es s b → b ∈ ns :=
  translate_complete g (depthOK_of_ranked g rank hr) s es ns h

/-- the graphs the driver admits (HasSubtype references only from a smaller to a larger id) are ranked
by the identity -/
example : DepthOK chain := depthOK_of_ranked chain id (by decide)

/-- following Hierarchical (33) with subtypes finds the node behind the custom subtype -/
example : translate chain 1 [⟨33, false, true, 2⟩] = .ok [2] := by rfl
example : translate chain 1 [⟨33, false, false, 2⟩] = .error .badNoMatch := by rfl

end OpcuaVerif.C31
