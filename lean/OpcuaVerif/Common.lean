/-
Line-protocol helpers shared by all model drivers.  Import-free (core only) so that the
`opcua_model` executable links.
-/
namespace OpcuaVerif

/-- A model driver: one operation per line in, one result line out. -/
structure Driver where
  σ : Type
  init : σ
  /-- `step s tokens` — `tokens` is the op line split on single spaces. -/
  step : σ → List String → σ × String

def hexDigit (c : Char) : Option Nat :=
  if '0' ≤ c ∧ c ≤ '9' then some (c.toNat - '0'.toNat)
  else if 'a' ≤ c ∧ c ≤ 'f' then some (c.toNat - 'a'.toNat + 10)
  else if 'A' ≤ c ∧ c ≤ 'F' then some (c.toNat - 'A'.toNat + 10)
  else none

def hexToBytesAux : List Char → List Nat → Option (List Nat)
  | [], acc => some acc.reverse
  | [_], _ => none
  | a :: b :: rest, acc =>
    match hexDigit a, hexDigit b with
    | some x, some y => hexToBytesAux rest ((16 * x + y) :: acc)
    | _, _ => none

/-- `x0a0b` / `0a0b` → bytes.  `-` is the empty/none marker handled by callers. -/
def hexToBytes (s : String) : Option (List Nat) :=
  let cs := s.toList
  let cs := match cs with
    | 'x' :: r => r
    | r => r
  hexToBytesAux cs []

def nibble (n : Nat) : Char :=
  if n < 10 then Char.ofNat (48 + n) else Char.ofNat (87 + n)

def bytesToHex (bs : List Nat) : String :=
  String.ofList (bs.foldr (fun b acc => nibble (b / 16 % 16) :: nibble (b % 16) :: acc) [])

def parseInt? (s : String) : Option Int :=
  match s.toList with
  | '-' :: r => (String.ofList r).toNat?.map (fun n => - (Int.ofNat n))
  | _ => s.toNat?.map Int.ofNat

def boolStr (b : Bool) : String := if b then "1" else "0"

def parseBool? (s : String) : Option Bool :=
  if s = "1" then some true else if s = "0" then some false else none

def joinSp (xs : List String) : String := " ".intercalate xs

def natList (xs : List Nat) : String := "[" ++ ",".intercalate (xs.map toString) ++ "]"

def intList (xs : List Int) : String := "[" ++ ",".intercalate (xs.map toString) ++ "]"

/-- parse `[1,2,3]` -/
def parseNatList? (s : String) : Option (List Nat) :=
  let inner := String.ofList ((s.toList.drop 1).dropLast)
  if inner.isEmpty then some [] else
  (inner.splitOn ",").mapM (fun t => t.toNat?)

end OpcuaVerif
