def hello := "world"
