/-
C13 — channel key derivation.

Specification side (written from FIPS 180-4, RFC 2104 and RFC 5246 §5, NOT from the Rust source):
executable SHA-1, SHA-256, HMAC and `P_hash`.

Implementation side (written from the Rust source):
  * `hash::p_sha`                                   lib/src/crypto/hash.rs:28-60        → `pShaLoop`/`pSha`
  * `SecurityPolicy::prf`                           lib/src/crypto/security_policy.rs:425-441 → `prf`
  * `SecurityPolicy::derived_signature_key_size`    security_policy.rs:345-361          → `Policy.sigKeyLen?`
  * `SecurityPolicy::make_secure_channel_keys`      security_policy.rs:477-505          → `makeKeys`
  * `SecureChannel::derive_keys`                    lib/src/core/comms/secure_channel.rs:358-371 → `deriveKeys`

All implementation-side functions take the HMAC as a parameter, so that the structural theorems
hold for ANY hmac; the driver instantiates it with the executable HMAC-SHA1 / HMAC-SHA256 below.
Bytes are `Nat`s `< 256` in a `List`.  No imports (the driver must link).
-/
namespace OpcuaVerif.C13

abbrev Bytes := List Nat

/-! ## 32-bit word helpers -/

def w32 : Nat := 4294967296

def add32 (a b : Nat) : Nat := (a + b) % w32
def rotr (x n : Nat) : Nat := ((x >>> n) ||| (x <<< (32 - n))) % w32
def rotl (x n : Nat) : Nat := ((x <<< n) ||| (x >>> (32 - n))) % w32
def not32 (x : Nat) : Nat := x ^^^ 4294967295

/-- big-endian bytes of a 32-bit word -/
def wordBytes (w : Nat) : Bytes := [w / 16777216 % 256, w / 65536 % 256, w / 256 % 256, w % 256]

/-- big-endian 32-bit words of a byte string whose length is a multiple of 4 (fuel = #words) -/
def toWords : Nat → Bytes → List Nat
  | 0, _ => []
  | n + 1, bs =>
    (bs.getD 0 0 * 16777216 + bs.getD 1 0 * 65536 + bs.getD 2 0 * 256 + bs.getD 3 0) :: toWords n (bs.drop 4)

/-- Merkle–Damgård padding of SHA-1/SHA-256: `0x80`, zeros up to 56 mod 64, 64-bit big-endian bit
length. -/
def mdPad (msg : Bytes) : Bytes :=
  let l := msg.length
  let bits := 8 * l
  msg ++ [128] ++ List.replicate ((119 - l % 64) % 64) 0 ++
    [bits / 72057594037927936 % 256, bits / 281474976710656 % 256, bits / 1099511627776 % 256,
     bits / 4294967296 % 256, bits / 16777216 % 256, bits / 65536 % 256, bits / 256 % 256, bits % 256]

/-- split into `n` blocks of 64 bytes -/
def blocks64 : Nat → Bytes → List Bytes
  | 0, _ => []
  | n + 1, bs => bs.take 64 :: blocks64 n (bs.drop 64)

/-! ## SHA-256 (FIPS 180-4 §6.2) -/

def k256 : List Nat := [
  0x428a2f98, 0x71374491, 0xb5c0fbcf, 0xe9b5dba5, 0x3956c25b, 0x59f111f1, 0x923f82a4, 0xab1c5ed5,
  0xd807aa98, 0x12835b01, 0x243185be, 0x550c7dc3, 0x72be5d74, 0x80deb1fe, 0x9bdc06a7, 0xc19bf174,
  0xe49b69c1, 0xefbe4786, 0x0fc19dc6, 0x240ca1cc, 0x2de92c6f, 0x4a7484aa, 0x5cb0a9dc, 0x76f988da,
  0x983e5152, 0xa831c66d, 0xb00327c8, 0xbf597fc7, 0xc6e00bf3, 0xd5a79147, 0x06ca6351, 0x14292967,
  0x27b70a85, 0x2e1b2138, 0x4d2c6dfc, 0x53380d13, 0x650a7354, 0x766a0abb, 0x81c2c92e, 0x92722c85,
  0xa2bfe8a1, 0xa81a664b, 0xc24b8b70, 0xc76c51a3, 0xd192e819, 0xd6990624, 0xf40e3585, 0x106aa070,
  0x19a4c116, 0x1e376c08, 0x2748774c, 0x34b0bcb5, 0x391c0cb3, 0x4ed8aa4a, 0x5b9cca4f, 0x682e6ff3,
  0x748f82ee, 0x78a5636f, 0x84c87814, 0x8cc70208, 0x90befffa, 0xa4506ceb, 0xbef9a3f7, 0xc67178f2]

structure S256 where
  a : Nat
  b : Nat
  c : Nat
  d : Nat
  e : Nat
  f : Nat
  g : Nat
  h : Nat

def S256.init : S256 :=
  ⟨0x6a09e667, 0xbb67ae85, 0x3c6ef372, 0xa54ff53a, 0x510e527f, 0x9b05688c, 0x1f83d9ab, 0x5be0cd19⟩

def S256.bytes (s : S256) : Bytes :=
  wordBytes s.a ++ wordBytes s.b ++ wordBytes s.c ++ wordBytes s.d ++
  wordBytes s.e ++ wordBytes s.f ++ wordBytes s.g ++ wordBytes s.h

/-- One round.  `w` is the sliding window `W[t] … W[t+15]` of the message schedule. -/
def round256 (sw : S256 × List Nat) (k : Nat) : S256 × List Nat :=
  let (s, w) := sw
  let wt := w.getD 0 0
  let s1 := rotr s.e 6 ^^^ rotr s.e 11 ^^^ rotr s.e 25
  let ch := (s.e &&& s.f) ^^^ (not32 s.e &&& s.g)
  let t1 := add32 (add32 (add32 (add32 s.h s1) ch) k) wt
  let s0 := rotr s.a 2 ^^^ rotr s.a 13 ^^^ rotr s.a 22
  let maj := (s.a &&& s.b) ^^^ (s.a &&& s.c) ^^^ (s.b &&& s.c)
  let t2 := add32 s0 maj
  let w1 := w.getD 1 0
  let w14 := w.getD 14 0
  let sg0 := rotr w1 7 ^^^ rotr w1 18 ^^^ (w1 >>> 3)
  let sg1 := rotr w14 17 ^^^ rotr w14 19 ^^^ (w14 >>> 10)
  let wnew := add32 (add32 (add32 sg1 (w.getD 9 0)) sg0) wt
  (⟨add32 t1 t2, s.a, s.b, s.c, add32 s.d t1, s.e, s.f, s.g⟩, w.drop 1 ++ [wnew])

def compress256 (s : S256) (block : Bytes) : S256 :=
  let r := (k256.foldl round256 (s, toWords 16 block)).1
  ⟨add32 s.a r.a, add32 s.b r.b, add32 s.c r.c, add32 s.d r.d,
   add32 s.e r.e, add32 s.f r.f, add32 s.g r.g, add32 s.h r.h⟩

def sha256 (msg : Bytes) : Bytes :=
  let p := mdPad msg
  ((blocks64 (p.length / 64) p).foldl compress256 S256.init).bytes

/-! ## SHA-1 (FIPS 180-4 §6.1) -/

structure S1 where
  a : Nat
  b : Nat
  c : Nat
  d : Nat
  e : Nat

def S1.init : S1 := ⟨0x67452301, 0xEFCDAB89, 0x98BADCFE, 0x10325476, 0xC3D2E1F0⟩

def S1.bytes (s : S1) : Bytes :=
  wordBytes s.a ++ wordBytes s.b ++ wordBytes s.c ++ wordBytes s.d ++ wordBytes s.e

def round1 (sw : S1 × List Nat) (t : Nat) : S1 × List Nat :=
  let (s, w) := sw
  let wt := w.getD 0 0
  let fk : Nat × Nat :=
    if t < 20 then ((s.b &&& s.c) ^^^ (not32 s.b &&& s.d), 0x5A827999)
    else if t < 40 then (s.b ^^^ s.c ^^^ s.d, 0x6ED9EBA1)
    else if t < 60 then ((s.b &&& s.c) ^^^ (s.b &&& s.d) ^^^ (s.c &&& s.d), 0x8F1BBCDC)
    else (s.b ^^^ s.c ^^^ s.d, 0xCA62C1D6)
  let temp := add32 (add32 (add32 (add32 (rotl s.a 5) fk.1) s.e) fk.2) wt
  let wnew := rotl (w.getD 13 0 ^^^ w.getD 8 0 ^^^ w.getD 2 0 ^^^ wt) 1
  (⟨temp, s.a, rotl s.b 30, s.c, s.d⟩, w.drop 1 ++ [wnew])

def compress1 (s : S1) (block : Bytes) : S1 :=
  let r := ((List.range 80).foldl round1 (s, toWords 16 block)).1
  ⟨add32 s.a r.a, add32 s.b r.b, add32 s.c r.c, add32 s.d r.d, add32 s.e r.e⟩

def sha1 (msg : Bytes) : Bytes :=
  let p := mdPad msg
  ((blocks64 (p.length / 64) p).foldl compress1 S1.init).bytes

/-! ## HMAC (RFC 2104), block size 64 for both hashes -/

def hmacWith (hash : Bytes → Bytes) (key data : Bytes) : Bytes :=
  let k0 := if key.length > 64 then hash key else key
  let k := k0 ++ List.replicate (64 - k0.length) 0
  hash (k.map (· ^^^ 0x5c) ++ hash (k.map (· ^^^ 0x36) ++ data))

def hmacSha1 : Bytes → Bytes → Bytes := hmacWith sha1
def hmacSha256 : Bytes → Bytes → Bytes := hmacWith sha256

/-! ## P_hash (RFC 5246 §5) — the specification

    A(0) = seed, A(i) = HMAC(secret, A(i-1));
    P_hash(secret, seed) = HMAC(secret, A(1) ++ seed) ++ HMAC(secret, A(2) ++ seed) ++ …  -/

abbrev Hmac := Bytes → Bytes → Bytes

def specA (hmac : Hmac) (secret seed : Bytes) : Nat → Bytes
  | 0 => seed
  | i + 1 => hmac secret (specA hmac secret seed i)

/-- the `i`-th output block, `i = 0` is `HMAC(secret, A(1) ++ seed)` -/
def specBlock (hmac : Hmac) (secret seed : Bytes) (i : Nat) : Bytes :=
  hmac secret (specA hmac secret seed (i + 1) ++ seed)

/-- the first `k` output blocks -/
def specStream (hmac : Hmac) (secret seed : Bytes) : Nat → Bytes
  | 0 => []
  | k + 1 => specStream hmac secret seed k ++ specBlock hmac secret seed k

/-- `P_hash(secret, seed)` truncated to `n` bytes (`n` blocks are always enough when every block
is non-empty). -/
def pHash (hmac : Hmac) (secret seed : Bytes) (n : Nat) : Bytes :=
  (specStream hmac secret seed n).take n

/-! ## Implementation side -/

inductive Outcome (α : Type) where
  | ok (a : α)
  | panic
  | diverge
deriving Repr, DecidableEq

def Outcome.bind {α β : Type} (o : Outcome α) (f : α → Outcome β) : Outcome β :=
  match o with
  | .ok a => f a
  | .panic => .panic
  | .diverge => .diverge

/-- `hash::hmac_vec` (hash.rs:62-68): `PKey::hmac(key).unwrap()` + `Signer`.  OpenSSL 3 refuses to
create a zero-length HMAC key, so in the pinned source an EMPTY key is a panic (`unwrap` on `Err`).
`guardEmpty = true` models the repaired source, which passes the one-byte key `[0]` instead
(RFC 2104 zero-pads short keys, so it is the same key — law `HmacLaws.emptyKey` in the proofs). -/
def hmacVec (guardEmpty : Bool) (hmac : Hmac) (key data : Bytes) : Outcome Bytes :=
  if key.isEmpty then (if guardEmpty then .ok (hmac [0] data) else .panic)
  else .ok (hmac key data)

/-- `hash::p_sha`'s `while result.len() < length` loop.  `diverge` = the fuel ran out (the real
loop would still be running); with `fuel = length` that cannot happen when HMAC outputs are
non-empty (theorem `pSha_terminates`). -/
def pShaLoop (g : Bool) (hmac : Hmac) (secret seed : Bytes) (length : Nat) :
    Nat → Bytes → Bytes → Outcome Bytes
  | 0, _, result => if result.length < length then .diverge else .ok (result.take length)
  | fuel + 1, aLast, result =>
    if result.length < length then
      (hmacVec g hmac secret aLast).bind fun aNext =>
      (hmacVec g hmac secret (aNext ++ seed)).bind fun bytes =>
      pShaLoop g hmac secret seed length fuel aNext (result ++ bytes)
    else .ok (result.take length)          -- `result.truncate(length)`

def pShaW (g : Bool) (hmac : Hmac) (secret seed : Bytes) (length : Nat) : Outcome Bytes :=
  pShaLoop g hmac secret seed length length seed []

/-- `SecurityPolicy::prf` after the digest has been selected:
`p_sha(secret, seed, offset + length)[offset..offset + length]`; the slice is a panic site. -/
def prfW (g : Bool) (hmac : Hmac) (secret seed : Bytes) (length offset : Nat) : Outcome Bytes :=
  (pShaW g hmac secret seed (offset + length)).bind fun r =>
    if offset + length ≤ r.length then .ok ((r.drop offset).take length) else .panic

inductive Policy where
  | none | basic128Rsa15 | basic256 | basic256Sha256 | aes128Sha256RsaOaep | aes256Sha256RsaPss | unknown
deriving Repr, DecidableEq

inductive HashAlg where
  | sha1 | sha256
deriving Repr, DecidableEq

/-- digest chosen by `prf` (`none` = `panic!("Invalid policy")`) -/
def Policy.hashAlg? : Policy → Option HashAlg
  | .basic128Rsa15 | .basic256 => some .sha1
  | .basic256Sha256 | .aes128Sha256RsaOaep | .aes256Sha256RsaPss => some .sha256
  | _ => Option.none

/-- `DERIVED_SIGNATURE_KEY_LENGTH` in bits, per policy module -/
def Policy.derivedSigKeyBits? : Policy → Option Nat
  | .basic128Rsa15 => some 128
  | .basic256 => some 192
  | .basic256Sha256 => some 256
  | .aes128Sha256RsaOaep => some 256
  | .aes256Sha256RsaPss => some 256
  | _ => Option.none

/-- `derived_signature_key_size` = bits / 8 (`none` = panic) -/
def Policy.sigKeyLen? (p : Policy) : Option Nat := p.derivedSigKeyBits?.map (· / 8)

/-- `(encrypting_key_length, encrypting_block_size)` of `make_secure_channel_keys` -/
def Policy.encLens? : Policy → Option (Nat × Nat)
  | .basic128Rsa15 | .aes128Sha256RsaOaep => some (16, 16)
  | .basic256 | .basic256Sha256 | .aes256Sha256RsaPss => some (32, 16)
  | _ => Option.none

structure Keys where
  signing : Bytes
  encrypting : Bytes
  iv : Bytes
deriving Repr, DecidableEq

/-- `SecurityPolicy::make_secure_channel_keys(secret, seed)`; `H` maps the digest to its HMAC. -/
def makeKeysW (g : Bool) (H : HashAlg → Hmac) (p : Policy) (secret seed : Bytes) : Outcome Keys :=
  match p.sigKeyLen? with
  | Option.none => .panic
  | some sk =>
    match p.encLens? with
    | Option.none => .panic
    | some (ek, bs) =>
      match p.hashAlg? with
      | Option.none => .panic
      | some alg =>
        (prfW g (H alg) secret seed sk 0).bind fun k1 =>
        (prfW g (H alg) secret seed ek sk).bind fun k2 =>
        (prfW g (H alg) secret seed bs (sk + ek)).bind fun k3 =>
        .ok ⟨k1, k2, k3⟩

/-- `SecureChannel::derive_keys`: returns `(local_keys, remote_keys)`.
`remote_keys = make(local_nonce, remote_nonce)` is assigned first, then
`local_keys = make(remote_nonce, local_nonce)`. -/
def deriveKeysW (g : Bool) (H : HashAlg → Hmac) (p : Policy) (localNonce remoteNonce : Bytes) :
    Outcome (Keys × Keys) :=
  (makeKeysW g H p localNonce remoteNonce).bind fun remoteKeys =>
  (makeKeysW g H p remoteNonce localNonce).bind fun localKeys =>
  .ok (localKeys, remoteKeys)

/-! The current source (after the `fix:` commit) guards the empty key. -/
def hmacVecCur := hmacVec true
def pSha := pShaW true
def prf := prfW true
def makeKeys := makeKeysW true
def deriveKeys := deriveKeysW true

/-- the concrete instance the real code uses (OpenSSL's HMAC-SHA1 / HMAC-SHA256) -/
def realH : HashAlg → Hmac
  | .sha1 => hmacSha1
  | .sha256 => hmacSha256

end OpcuaVerif.C13
