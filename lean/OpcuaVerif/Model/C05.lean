import OpcuaVerif.Model.Text
import OpcuaVerif.Model.C04
import OpcuaVerif.Generated.RefTypes
/-
C05 — model of relative path text (lib/src/types/relative_path.rs):

* printer `From<&RelativePath> for String`, `From<&RelativePathElement>`, `relative_path_reference_type`
  with `default_browse_name_resolver` (the `unwrap` of the resolver is an explicit panic outcome)
* `escape_browse_name` / `unescape_browse_name`: the sequential `str::replace` folds over the 8 reserved chars
* parser `RelativePath::from_str`: tokenizer loop (escape flag, 256-byte token limit, 32-element limit and
  its `break`), `RelativePathElement::from_str` with its UNANCHORED regex (leftmost match, leftmost-first
  alternatives, greedy `.*>` = last `>` of the line, `.` not matching `\n`), `target_name` with its regex,
  `default_node_resolver`.
The name tables, the reserved characters and the two limits are regenerated from the source
(`Generated/RefTypes.lean`).
-/
namespace OpcuaVerif.C05
open OpcuaVerif.Text OpcuaVerif.C04 OpcuaVerif.Generated.RefTypes

structure QN where
  ns : Nat
  name : Option (List Char)
deriving Repr, DecidableEq

structure Elem where
  ref : NodeId
  inverse : Bool
  subtypes : Bool
  target : QN
deriving Repr, DecidableEq

/-! ## escaping -/

/-- `escape_browse_name`: for each reserved char in order, `replace(c, "&c")` -/
def escapeBN (s : List Char) : List Char := reserved.foldl (fun acc c => replace [c] ['&', c] acc) s

/-- `unescape_browse_name`: for each reserved char in order, `replace("&c", "c")` -/
def unescapeBN (s : List Char) : List Char := reserved.foldl (fun acc c => replace ['&', c] [c] acc) s

/-! ## printer -/

def lookupName (id : Nat) : List (Nat × List Char) → Option (List Char)
  | [] => none
  | (i, n) :: r => if i = id then some n else lookupName id r

def lookupId (name : List Char) : List (List Char × Nat) → Option Nat
  | [] => none
  | (n, i) :: r => if n = name then some i else lookupId name r

/-- `default_browse_name_resolver` -/
def browseName (n : NodeId) : Option (List Char) :=
  match n.id with
  | .str s => some (s.getD [])
  | .numeric id => if n.ns = 0 then lookupName id idToName else none
  | _ => none

/-- `relative_path_reference_type`; `none` = the `unwrap` of the resolver panics -/
def printRefType (e : Elem) : Option (List Char) :=
  match browseName e.ref with
  | none => none
  | some bn =>
    if e.subtypes ∧ ¬ e.inverse ∧ e.ref = ⟨0, .numeric hierarchicalReferences⟩ then some ['/']
    else if e.subtypes ∧ ¬ e.inverse ∧ e.ref = ⟨0, .numeric aggregates⟩ then some ['.']
    else
      some ('<' :: (if e.subtypes then [] else ['#']) ++ (if e.inverse then ['!'] else []) ++
        (if e.ref.ns ≠ 0 then toDec e.ref.ns ++ [':'] else []) ++ escapeBN bn ++ ['>'])

def printTarget (q : QN) : List Char :=
  match q.name with
  | none => []
  | some n => toDec q.ns ++ ':' :: escapeBN n

def printElem (e : Elem) : Option (List Char) :=
  (printRefType e).map fun r => r ++ printTarget e.target

def printElems : List Elem → Option (List Char)
  | [] => some []
  | e :: es =>
    match printElem e, printElems es with
    | some a, some b => some (a ++ b)
    | _, _ => none

/-- `String::from(&RelativePath)`; `elements = none` is the null array -/
def printPath : Option (List Elem) → Option (List Char)
  | none => some []
  | some es => printElems es

/-! ## parser -/

/-- which source is modelled: `fixedNs` = target namespace regex `[0-9]+` (pinned: one char of
`[0-9+]`), `dotAll` = the `(?s)` flag on both regexes (pinned: `.` stops at `\n`), `unescRef` = the
browse name of a bracketed reference type is unescaped before it is resolved (pinned: resolved as
written), `firstGt` = that name is `(?:&.|[^&>#!])(?:&.|[^&>])*`, i.e. ends at the first unescaped `>`
(pinned: `[^#!].*` = up to the LAST `>`; `firstGt` is only used together with `dotAll`) -/
structure Cfg where
  fixedNs : Bool
  dotAll : Bool
  unescRef : Bool
  firstGt : Bool
  /-- not a source version but an input: the caller's node resolver finds nothing (`|_, _| None`) -/
  noResolver : Bool

/-- what `.*` consumes: the rest of the text, or (pinned) the rest of the current line -/
def takeLine (cfg : Cfg) (cs : List Char) : List Char := if cfg.dotAll then cs else (spanP (· ≠ '\n') cs).1

/-- `target_name`; `fixedNs = false` is the pinned regex `((?P<nsidx>[0-9+]):)?(?P<name>.*)` (one char),
`true` the repaired `[0-9]+`.  The regex is unanchored but always matches at position 0. -/
def targetName (cfg : Cfg) (cs : List Char) : Option QN :=
  let mk (ns : Nat) (rest : List Char) : QN :=
    let name := takeLine cfg rest
    ⟨ns, if name.isEmpty then none else some (unescapeBN name)⟩
  if cfg.fixedNs then
    match spanP isDigit cs with
    | (d, ':' :: r) =>
      if d.isEmpty then some (mk 0 cs)
      else match parseUnsigned 65535 d with
        | some ns => some (mk ns r)
        | none => none
    | _ => some (mk 0 cs)
  else
    match cs with
    | c :: ':' :: r =>
      if isDigit c then some (mk (digitVal c) r)
      else if c = '+' then none
      else some (mk 0 cs)
    | _ => some (mk 0 cs)

/-- position of the last `>` in a list, if any: (before, after) -/
def splitLastGt : List Char → Option (List Char × List Char)
  | [] => none
  | c :: cs =>
    match splitLastGt cs with
    | some (a, b) => some (c :: a, b)
    | none => if c = '>' then some ([], cs) else none

/-- `(?:&.|[^&>])*>`: the (still escaped) text up to the first unescaped `>`, and what follows it -/
def nameRest : List Char → Option (List Char × List Char)
  | [] => none
  | '>' :: r => some ([], r)
  | ['&'] => none
  | '&' :: y :: r =>
    match nameRest r with
    | some (a, b) => some ('&' :: y :: a, b)
    | none => none
  | c :: r =>
    match nameRest r with
    | some (a, b) => some (c :: a, b)
    | none => none

/-- the name of a bracketed reference type and the target text after the closing `>`:
current `(?P<name>(?:&.|[^&>#!])(?:&.|[^&>])*)>`, pinned `(?P<name>[^#!].*)>` -/
def bracketName (cfg : Cfg) (cs : List Char) : Option (List Char × List Char) :=
  match cs with
  | [] => none
  | c0 :: r =>
    if cfg.firstGt then
      if c0 = '&' then
        match r with
        | [] => none
        | y :: r' =>
          match nameRest r' with
          | some (a, b) => some ('&' :: y :: a, b)
          | none => none
      else if c0 = '>' ∨ c0 = '#' ∨ c0 = '!' then none
      else
        match nameRest r with
        | some (a, b) => some (c0 :: a, b)
        | none => none
    else if c0 = '#' ∨ c0 = '!' then none
    else
      match splitLastGt (takeLine cfg r) with
      | some (a, b) => some (c0 :: a, b)
      | none => none

/-- `((?P<nsidx>[0-9]+):)?` then the name: the group is tried first, skipped when the rest fails -/
def bracketNs (cfg : Cfg) (cs : List Char) : Option (Option (List Char) × List Char × List Char) :=
  let plain := (bracketName cfg cs).map fun (n, t) => (none, n, t)
  match spanP isDigit cs with
  | (d, ':' :: r) =>
    if d.isEmpty then plain
    else match bracketName cfg r with
      | some (n, t) => some (some d, n, t)
      | none => plain
  | _ => plain

structure Bracket where
  subtypes : Bool
  inverse : Bool
  nsidx : Option (List Char)
  name : List Char
  target : List Char

/-- after `<`: `(?P<flags>#|!|#!)?` leftmost-first, then namespace and name -/
def bracket (cfg : Cfg) (cs : List Char) : Option Bracket :=
  let mk (s i : Bool) (r : Option (Option (List Char) × List Char × List Char)) : Option Bracket :=
    r.map fun (ns, n, t) => ⟨s, i, ns, n, t⟩
  let none' : Option Bracket := mk true false (bracketNs cfg cs)
  match cs with
  | '#' :: r =>
    match mk false false (bracketNs cfg r) with
    | some b => some b
    | none =>
      match r with
      | '!' :: r2 =>
        match mk false true (bracketNs cfg r2) with
        | some b => some b
        | none => none'
      | _ => none'
  | '!' :: r =>
    match mk true true (bracketNs cfg r) with
    | some b => some b
    | none => none'
  | _ => none'

inductive RefCap where
  | slash
  | dot
  | angle (b : Bracket)

/-- leftmost match of the element regex: the reference type capture and the target text -/
def elemRe (cfg : Cfg) : List Char → Option (RefCap × List Char)
  | [] => none
  | c :: cs =>
    if c = '/' then some (.slash, takeLine cfg cs)
    else if c = '.' then some (.dot, takeLine cfg cs)
    else if c = '<' then
      match bracket cfg cs with
      | some b => some (.angle b, b.target)
      | none => elemRe cfg cs
    else elemRe cfg cs

/-- `default_node_resolver` (always `Some`) -/
def resolveNode (ns : Nat) (name : List Char) : NodeId :=
  if ns = 0 then
    match lookupId name nameToId with
    | some id => ⟨0, .numeric id⟩
    | none => ⟨0, .str (some name)⟩
  else ⟨ns, .str (some name)⟩

/-- `RelativePathElement::from_str` with the default resolver -/
def parseElem (cfg : Cfg) (tok : List Char) : Option Elem :=
  match elemRe cfg tok with
  | none => none
  | some (cap, target) =>
    match targetName cfg target with
    | none => none
    | some tn =>
      match cap with
      | .slash => some ⟨⟨0, .numeric hierarchicalReferences⟩, false, true, tn⟩
      | .dot => some ⟨⟨0, .numeric aggregates⟩, false, true, tn⟩
      | .angle b =>
        let name := if cfg.unescRef then unescapeBN b.name else b.name
        if cfg.noResolver then
          -- the namespace text is still validated before the resolver is asked
          match b.nsidx with
          | none => none
          | some d => if d = ['0'] then none else match parseUnsigned 65535 d with
            | some _ => none
            | none => none
        else
        match b.nsidx with
        | none => some ⟨resolveNode 0 name, b.inverse, b.subtypes, tn⟩
        | some d =>
          if d = ['0'] then some ⟨resolveNode 0 name, b.inverse, b.subtypes, tn⟩
          else match parseUnsigned 65535 d with
            | some ns => some ⟨resolveNode ns name, b.inverse, b.subtypes, tn⟩
            | none => none

/-- state of the tokenizer loop -/
structure TS where
  elems : List Elem        -- in order
  esc : Bool
  tok : List Char          -- in order
deriving Repr

inductive LoopOut where
  | run (s : TS)
  | broke (s : TS)         -- the `break` when 32 elements are already there
  | failed                 -- `return Err(())`

/-- one iteration of `for c in path.chars()` -/
def tokStep (cfg : Cfg) (s : TS) (c : Char) : LoopOut :=
  let check (s : TS) : LoopOut := if utf8Len s.tok > maxTokenLen then .failed else .run s
  if s.esc then check { s with tok := s.tok ++ [c], esc := false }
  else if c = '&' then check { s with tok := s.tok ++ [c], esc := true }
  else if c = '/' ∨ c = '.' ∨ c = '<' then
    if s.tok.isEmpty then check { s with tok := s.tok ++ [c] }
    else if s.elems.length = maxElements then .broke s
    else
      match parseElem cfg s.tok with
      | none => .failed
      | some e => check { s with elems := s.elems ++ [e], tok := [c] }
  else check { s with tok := s.tok ++ [c] }

def tokLoop (cfg : Cfg) : TS → List Char → LoopOut
  | s, [] => .run s
  | s, c :: cs =>
    match tokStep cfg s c with
    | .run s' => tokLoop cfg s' cs
    | o => o

/-- after the loop: the last token, if any, is one more element (unless 32 are already there) -/
def finishLoop (cfg : Cfg) : LoopOut → Option (List Elem)
  | .failed => none
  | .run s | .broke s =>
    if s.tok.isEmpty then some s.elems
    else if s.elems.length = maxElements then none
    else (parseElem cfg s.tok).map fun e => s.elems ++ [e]

/-- `RelativePath::from_str(path, &default_node_resolver)` -/
def parsePathWith (cfg : Cfg) (path : List Char) : Option (List Elem) :=
  finishLoop cfg (tokLoop cfg ⟨[], false, []⟩ path)

/-- the current source (after the four `fix:` commits) -/
def current : Cfg := ⟨true, true, true, true, false⟩

/-- the pinned source -/
def pinned : Cfg := ⟨false, false, false, false, false⟩

def parsePath := parsePathWith current

end OpcuaVerif.C05
