/-
C11 — model of the UA-TCP framing layer and of the client send buffer.

Receive side (`lib/src/core/comms/tcp_codec.rs`, `tcp_types.rs`, `message_chunk.rs`):
  `TcpCodec::decode` (strict `buf.len() > 8`, header peek, `split_to(message_size)`,
  `decode_message`), `MessageHeader::message_type`, `HelloMessage/AcknowledgeMessage/ErrorMessage::decode`,
  `MessageChunkHeader::decode`, `MessageChunk::decode`, `UAString::decode`, and the read loop of
  `tokio_util::codec::FramedRead` (decode until `None`, stop for ever at the first error,
  `decode_eof` = error when bytes remain).

Send side (`lib/src/client/transport/buffer.rs`, `core/comms/chunker.rs`, `message_chunk.rs`,
`secure_channel.rs::apply_security` for policy None):
  `SendBuffer::{new, write, encode_next_chunk, read_into_async, should_encode_chunks, can_read}`,
  `Chunker::encode`, `MessageChunk::new`, `MessageChunk::body_size_from_message_size`.

Bytes are `List Nat` (every element < 256 for well-formed input; the codec never produces others).
u32 arithmetic of the sender counters is modelled with the dev-profile overflow panic as an
explicit outcome (shared with C12).
-/
namespace OpcuaVerif.C11

abbrev Bytes := List Nat

/-! ### little-endian primitives -/

def u32le (n : Nat) : Bytes := [n % 256, n / 256 % 256, n / 65536 % 256, n / 16777216 % 256]

/-- `read_u32` on a cursor: `none` when fewer than four bytes remain. -/
def readU32 : Bytes → Option (Nat × Bytes)
  | a :: b :: c :: d :: r => some (a + 256 * b + 65536 * c + 16777216 * d, r)
  | _ => none

/-! ### UTF-8 validity (`String::from_utf8`), Unicode Table 3-7 -/

def cont (b : Nat) : Bool := 128 ≤ b && b ≤ 191

def utf8Valid : Bytes → Bool
  | [] => true
  | b0 :: r =>
    if b0 < 128 then utf8Valid r
    else if 194 ≤ b0 && b0 ≤ 223 then
      match r with
      | b1 :: r' => cont b1 && utf8Valid r'
      | _ => false
    else if 224 ≤ b0 && b0 ≤ 239 then
      match r with
      | b1 :: b2 :: r' =>
        let lo := if b0 = 224 then 160 else 128
        let hi := if b0 = 237 then 159 else 191
        (lo ≤ b1 && b1 ≤ hi) && cont b2 && utf8Valid r'
      | _ => false
    else if 240 ≤ b0 && b0 ≤ 244 then
      match r with
      | b1 :: b2 :: b3 :: r' =>
        let lo := if b0 = 240 then 144 else 128
        let hi := if b0 = 244 then 143 else 191
        (lo ≤ b1 && b1 ≤ hi) && cont b2 && cont b3 && utf8Valid r'
      | _ => false
    else false

/-! ### frames -/

inductive MType where
  | invalid | hello | ack | chunk | error
deriving Repr, DecidableEq

/-- `MessageHeader::message_type` on the first four bytes. -/
def mtype (t0 t1 t2 t3 : Nat) : MType :=
  let base : MType :=
    if t0 = 72 ∧ t1 = 69 ∧ t2 = 76 then .hello            -- HEL
    else if t0 = 65 ∧ t1 = 67 ∧ t2 = 75 then .ack         -- ACK
    else if t0 = 69 ∧ t1 = 82 ∧ t2 = 82 then .error       -- ERR
    else if (t0 = 77 ∧ t1 = 83 ∧ t2 = 71) ∨ (t0 = 79 ∧ t1 = 80 ∧ t2 = 78) ∨ (t0 = 67 ∧ t1 = 76 ∧ t2 = 79)
      then .chunk                                         -- MSG / OPN / CLO
    else .invalid
  if t3 = 70 then base                                    -- 'F'
  else if t3 = 67 ∨ t3 = 65 then (if base = .chunk then .chunk else .invalid)   -- 'C' / 'A'
  else .invalid

inductive Frame where
  | hello (pv rbs sbs mms mcc : Nat) (url : Option Bytes)
  | ack (pv rbs sbs mms mcc : Nat)
  | error (code : Nat) (reason : Option Bytes)
  | chunk (data : Bytes)
deriving Repr, DecidableEq

/-- Decoding limits that the framing layer consults. -/
structure Opts where
  maxMsg : Nat      -- DecodingOptions::max_message_size (0 = no limit)
  maxStr : Nat      -- DecodingOptions::max_string_length
  /-- `true`: the source after the C10 `fix:` commit (a frame declaring more than `maxMsg` bytes is
  rejected as soon as its header is seen); `false`: the pinned source (waits for all the bytes). -/
  early : Bool := true
deriving Repr, DecidableEq

/-- `UAString::decode`: outer `none` = decoding error, inner `none` = null string. -/
def readString (o : Opts) (b : Bytes) : Option (Option Bytes × Bytes) :=
  match readU32 b with
  | none => none
  | some (n, r) =>
    if n = 4294967295 then some (none, r)                 -- len == -1
    else if n ≥ 2147483648 then none                      -- len < -1
    else if n > o.maxStr then none
    else if r.length < n then none                        -- read_exact fails
    else if utf8Valid (r.take n) then some (some (r.take n), r.drop n) else none

/-- `MessageChunkHeader::decode` + `MessageChunk::decode` on the bytes of one frame. -/
def parseChunk (o : Opts) (fb : Bytes) : Option Frame :=
  match fb with
  | t0 :: t1 :: t2 :: t3 :: r =>
    if ¬ ((t0 = 77 ∧ t1 = 83 ∧ t2 = 71) ∨ (t0 = 79 ∧ t1 = 80 ∧ t2 = 78) ∨ (t0 = 67 ∧ t1 = 76 ∧ t2 = 79)) then none
    else if ¬ (t3 = 70 ∨ t3 = 67 ∨ t3 = 65) then none
    else match readU32 r with
      | none => none
      | some (size, r) =>
        match readU32 r with
        | none => none
        | some (chan, body) =>
          if o.maxMsg > 0 ∧ size > o.maxMsg then none     -- BadTcpMessageTooLarge
          else
            -- header re-encoded into a zeroed buffer of `size` bytes, rest read over the top
            let want := size - 12
            some (.chunk ([t0, t1, t2, t3] ++ u32le size ++ u32le chan ++ body.take want
                          ++ List.replicate (want - body.length) 0))
  | _ => none

/-- `TcpCodec::decode_message` on the `message_size` bytes split off the buffer. -/
def parse (o : Opts) (ty : MType) (fb : Bytes) : Option Frame :=
  match ty with
  | .invalid => none
  | .chunk => parseChunk o fb
  | .hello =>
    -- MessageHeader::decode again (4 bytes + u32), then five u32 and the endpoint url
    if fb.length < 8 then none else
    match readU32 (fb.drop 8) with
    | none => none
    | some (pv, r) => match readU32 r with
      | none => none
      | some (rbs, r) => match readU32 r with
        | none => none
        | some (sbs, r) => match readU32 r with
          | none => none
          | some (mms, r) => match readU32 r with
            | none => none
            | some (mcc, r) => match readString o r with
              | none => none
              | some (url, _) => some (.hello pv rbs sbs mms mcc url)
  | .ack =>
    if fb.length < 8 then none else
    match readU32 (fb.drop 8) with
    | none => none
    | some (pv, r) => match readU32 r with
      | none => none
      | some (rbs, r) => match readU32 r with
        | none => none
        | some (sbs, r) => match readU32 r with
          | none => none
          | some (mms, r) => match readU32 r with
            | none => none
            | some (mcc, _) => some (.ack pv rbs sbs mms mcc)
  | .error =>
    if fb.length < 8 then none else
    match readU32 (fb.drop 8) with
    | none => none
    | some (code, r) => match readString o r with
      | none => none
      | some (reason, _) => some (.error code reason)

/-- Result of one call of `TcpCodec::decode` on the receive buffer. -/
inductive Step where
  | none                                  -- `Ok(None)`: wait for more bytes, buffer untouched
  | frame (f : Frame) (rest : Bytes)      -- `Ok(Some(f))`, `rest` stays in the buffer
  | error                                 -- `Err(_)`
deriving Repr, DecidableEq

/-- `TcpCodec::decode`. -/
def decodeStep (o : Opts) (b : Bytes) : Step :=
  if b.length > 8 then
    match b with
    | t0 :: t1 :: t2 :: t3 :: r =>
      match readU32 r with
      | some (size, _) =>
        if o.early = true ∧ o.maxMsg > 0 ∧ size > o.maxMsg then .error   -- BadTcpMessageTooLarge
        else if b.length ≥ size then
          match parse o (mtype t0 t1 t2 t3) (b.take size) with
          | some f => .frame f (b.drop size)
          | none => .error
        else .none
      | none => .none     -- unreachable: b.length > 8
    | _ => .none          -- unreachable
  else .none

/-- Outcome of draining the buffer the way `FramedRead` does after a read: decode until
`Ok(None)` (leaving `rest`) or until the first error. -/
inductive Tail where
  | more (rest : Bytes)
  | err
deriving Repr, DecidableEq

/-- Repeated `decode`; `fuel` bounds the number of frames (every frame consumes ≥ 1 byte, so
`b.length + 1` always suffices: `drain`). -/
def drainF (o : Opts) : Nat → Bytes → List Frame × Tail
  | 0, b => ([], .more b)
  | fuel + 1, b =>
    match decodeStep o b with
    | .none => ([], .more b)
    | .error => ([], .err)
    | .frame f r =>
      let (fs, t) := drainF o fuel r
      (f :: fs, t)

def drain (o : Opts) (b : Bytes) : List Frame × Tail := drainF o (b.length + 1) b

/-- Receiver state: the codec buffer, or `none` once an error was returned (FramedRead never
calls `decode` again). -/
abbrev RState := Option Bytes

/-- One socket read delivering `seg`: the frames produced, whether the stream errored. -/
def feed (o : Opts) (s : RState) (seg : Bytes) : RState × List Frame × Bool :=
  match s with
  | none => (none, [], true)
  | some buf =>
    match drain o (buf ++ seg) with
    | (fs, .more r) => (some r, fs, false)
    | (fs, .err) => (none, fs, true)

/-- All reads of a connection: every frame in order, and the final state. -/
def feedAll (o : Opts) : RState → List Bytes → List Frame × RState
  | s, [] => ([], s)
  | s, seg :: segs =>
    match feed o s seg with
    | (s', fs, _) =>
      let (fs', s'') := feedAll o s' segs
      (fs ++ fs', s'')

/-- End of stream (`decode_eof`): `true` = clean, `false` = "bytes remaining on stream" / errored. -/
def eofClean : RState → Bool
  | some [] => true
  | _ => false

/-! ### sender: Chunker::encode for a symmetric `MSG` on a policy-None channel -/

/-- u32 addition with the dev-profile overflow check. -/
def addU32 (a b : Nat) : Option Nat := if a + b < 4294967296 then some (a + b) else none

/-- `slice.chunks(n)` for `n > 0`; fuel = length of the data. -/
def chunksOfF (n : Nat) : Nat → Bytes → List Bytes
  | 0, _ => []
  | fuel + 1, d => if d.isEmpty then [] else d.take n :: chunksOfF n fuel (d.drop n)

def chunksOf (n : Nat) (d : Bytes) : List Bytes := chunksOfF n d.length d

/-- Parameters of the channel that end up in chunk headers. -/
structure Chan where
  channelId : Nat
  tokenId : Nat
deriving Repr, DecidableEq

/-- chunk type of a message (`Chunker::message_type`) -/
inductive CKind where
  | msg | opn | clo
deriving Repr, DecidableEq

/-- `AsymmetricSecurityHeader::none()` encoded: policy uri …#None, null certificate, null thumbprint -/
def asymNone : Bytes :=
  [47, 0, 0, 0, 104,116,116,112,58,47,47,111,112,99,102,111,117,110,100,97,116,105,111,110,46,111,114,103,47,85,65,47,83,101,99,117,114,105,116,121,80,111,108,105,99,121,35,78,111,110,101, 255, 255, 255, 255, 255, 255, 255, 255]

/-- `make_security_header`: asymmetric for OPN, the token id otherwise (policy None) -/
def secHdr (c : Chan) : CKind → Bytes
  | .opn => asymNone
  | _ => u32le c.tokenId

def kindCode : CKind → Bytes
  | .msg => [77, 83, 71]
  | .opn => [79, 80, 78]
  | .clo => [67, 76, 79]

/-- `Chunker::message_type`, read off the node id that prefixes the encoded message (four-byte
encoding, namespace 0): OpenSecureChannel request / response 446 / 449, CloseSecureChannel 452 / 455 -/
def msgKind : Bytes → CKind
  | 1 :: 0 :: lo :: hi :: _ =>
    let id := lo + 256 * hi
    if id = 446 ∨ id = 449 then .opn else if id = 452 ∨ id = 455 then .clo else .msg
  | _ => .msg

/-- `MessageChunk::new` on a policy-None channel. `fin`: 70 = F, 67 = C. -/
def mkChunk (c : Chan) (k : CKind) (seq req fin : Nat) (body : Bytes) : Bytes :=
  kindCode k ++ [fin] ++ u32le (20 + (secHdr c k).length + body.length) ++ u32le c.channelId
    ++ secHdr c k ++ u32le seq ++ u32le req ++ body

inductive EncOut where
  | ok (chunks : List Bytes)
  | err (code : String)
  | panic
deriving Repr, DecidableEq

/-- the pieces become chunks numbered `seq + i` (checked add: `sequence_number + i as u32`), the
last one final (`F` = 70), the others intermediate (`C` = 67). -/
def numberChunks (c : Chan) (k : CKind) (seq req : Nat) : Nat → List Bytes → Option (List Bytes)
  | _, [] => some []
  | i, p :: ps =>
    match addU32 seq i with
    | none => none
    | some s =>
      match numberChunks c k seq req (i + 1) ps with
      | none => none
      | some rest => some (mkChunk c k s req (if ps.isEmpty then 70 else 67) p :: rest)

/-- `Chunker::encode`. `nid` = length of the encoded node id that prefixes `msg`; `clientRole`
selects the too-large status. -/
def chunkerEncode (c : Chan) (clientRole : Bool) (seq req maxMsg maxChunk nid : Nat) (msg : Bytes) : EncOut :=
  if maxMsg > 0 ∧ msg.length - nid > maxMsg then
    .err (if clientRole then "BadRequestTooLarge" else "BadResponseTooLarge")
  else if maxChunk > 0 then
    if maxChunk < 8196 then .err "BadTcpInternalError"
    else
      match numberChunks c (msgKind msg) seq req 0 (chunksOf (maxChunk - (20 + (secHdr c (msgKind msg)).length)) msg) with
      | some cs => .ok cs
      | none => .panic
  else .ok [mkChunk c (msgKind msg) seq req 70 msg]

/-! ### SendBuffer -/

structure SB where
  cap : Nat                      -- buffer.get_ref().len() = buffer_size + 1024
  buf : Bytes                    -- buffer.get_ref(): `cap` bytes, zero until written by apply_security
  pos : Nat                      -- buffer.position()
  reading : Option Nat           -- `Reading(end)` / `Writing`
  queue : List Bytes             -- queued chunks (their `data`)
  lastReq : Nat
  lastSeq : Nat
  maxMsg : Nat
  maxChunks : Nat
  sendSize : Nat
deriving Repr, DecidableEq

/-- `SendBuffer::new` -/
def SB.new (bufferSize maxMsg maxChunks : Nat) : SB :=
  { cap := bufferSize + 1024, buf := List.replicate (bufferSize + 1024) 0, pos := 0, reading := none, queue := [],
    lastReq := 1000, lastSeq := 0, maxMsg := maxMsg, maxChunks := maxChunks, sendSize := bufferSize }

inductive WriteOut where
  | ok (s : SB) (cs : List Bytes) -- the chunks queued by this call
  | err (code : String)
  | panic
deriving Repr, DecidableEq

/-- `SendBuffer::write` -/
def SB.write (s : SB) (c : Chan) (clientRole : Bool) (req nid : Nat) (msg : Bytes) : WriteOut :=
  if s.reading.isSome then .err "BadInvalidState" else
  match addU32 s.lastSeq 1 with
  | none => .panic
  | some first =>
    match chunkerEncode c clientRole first req s.maxMsg s.sendSize nid msg with
    | .panic => .panic
    | .err e => .err e
    | .ok cs =>
      if s.maxChunks > 0 ∧ cs.length > s.maxChunks then .err "BadCommunicationError"
      else match addU32 s.lastSeq cs.length with
        | none => .panic
        | some l => .ok { s with lastSeq := l, queue := s.queue ++ cs } cs

/-- `SendBuffer::next_request_id` (u32 `+= 1`) -/
def SB.nextRequestId (s : SB) : Option (SB × Nat) :=
  (addU32 s.lastReq 1).map fun r => ({ s with lastReq := r }, r)

inductive EncNext where
  | ok (s : SB)
  | err (s : SB) (code : String)   -- the chunk was already popped
deriving Repr, DecidableEq

/-- `SendBuffer::encode_next_chunk` with `apply_security` of a policy-None channel
(copy into the buffer, `BadEncodingLimitsExceeded` when it does not fit). -/
def SB.encodeNext (s : SB) : EncNext :=
  if s.reading.isSome then .err s "BadInvalidState" else
  match s.queue with
  | [] => .ok s
  | ch :: q =>
    if ch.length > s.cap then .err { s with queue := q } "BadEncodingLimitsExceeded"
    else .ok { s with queue := q, buf := ch ++ s.buf.drop ch.length, reading := some ch.length }

inductive SinkOut where
  | ok (s : SB) (written : Bytes)
  | panic                          -- `buf[pos..end]` with pos > end or end > len
deriving Repr, DecidableEq

/-- `SendBuffer::read_into_async` with a writer that accepts at most `k` bytes of what it is
offered. -/
def SB.sink (s : SB) (k : Nat) : SinkOut :=
  let (en, pos) := match s.reading with
    | none => (s.pos, 0)
    | some e => (e, s.pos)
  if pos > en ∨ en > s.buf.length then .panic else
  let offered := (s.buf.drop pos).take (en - pos)
  let w := offered.take k
  let pos' := pos + w.length
  if en = pos' then .ok { s with reading := none, pos := 0 } w
  else .ok { s with reading := some en, pos := pos' } w

def SB.canRead (s : SB) : Bool := s.reading.isSome || s.pos != 0
def SB.shouldEncode (s : SB) : Bool := !s.queue.isEmpty && !s.canRead

inductive PollOut where
  | ok (s : SB) (w : Bytes)
  | err (s : SB) (code : String)
  | panic
deriving Repr, DecidableEq

def SB.pollSink (s : SB) (k : Nat) : PollOut :=
  if s.canRead then
    match s.sink k with
    | .ok s' w => .ok s' w
    | .panic => .panic
  else .ok s []

/-- The send half of `TcpTransport::poll_inner` (client/transport/tcp.rs): encode the next chunk
when the buffer is idle, then, if there is something to send, one `read_into_async` on a writer
that accepts `k` bytes. -/
def SB.poll (s : SB) (k : Nat) : PollOut :=
  if s.shouldEncode then
    match s.encodeNext with
    | .err s' e => .err s' e
    | .ok s' => s'.pollSink k
  else s.pollSink k

/-- bytes of the chunk in the buffer that the writer has not accepted yet -/
def SB.pending (s : SB) : Bytes :=
  match s.reading with
  | none => []
  | some e => (s.buf.drop s.pos).take (e - s.pos)

end OpcuaVerif.C11
