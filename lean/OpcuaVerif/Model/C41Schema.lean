import OpcuaVerif.Model.Text
import OpcuaVerif.Model.C42
/-
C41 — model of the serde-derive layer that `Config::save` / `Config::load` go through
(lib/src/core/config.rs with `serde_yaml`; the structs of server/config.rs and client/config.rs):
a document tree `Doc` (what `serde_yaml::Value` holds) and a schema-directed normalisation
`norm : Ty → Doc → Option Doc` = `to_value(from_value::<T>(doc))`, i.e. "load a document into the
struct and look at what `save` would write":

* derived `Deserialize` on a struct: fields by name from a mapping (unknown keys ignored, `null` = empty
  mapping), a missing field is an error except for `Option` (→ None) and `#[serde(default = …)]`;
* derived `Serialize`: fields in declaration order, `skip_serializing_if = "Option::is_none"` omits the
  key, `#[serde(skip)]` fields are not part of the document at all;
* integers range-checked, floats also from integers (`as f64`), strings/bools only from their own kind;
* `Vec` from a sequence (or null), `BTreeSet<String>` → sorted without duplicates, `BTreeMap<String, T>`
  → sorted by key; `Duration` = `{secs, nanos}` with unknown keys rejected and the nanosecond carry.

A typed configuration value is represented by its canonical document (`WF`); the YAML text layer of
`serde_yaml` is not modelled (covered by the oracle of the correspondence run).
-/
namespace OpcuaVerif.C41
open OpcuaVerif.Text

abbrev Key := List Char

inductive Doc where
  | null
  | bool (b : Bool)
  | int (z : Int)
  | flt (bits : Nat)
  | str (s : List Char)
  | seq (l : List Doc)
  | map (kv : List (Key × Doc))
deriving Repr

mutual
  inductive Ty where
    | bool
    | uint (max : Nat)
    | sint (lo hi : Int)
    | f64
    | str
    | opt (t : Ty)
    | seq (t : Ty)
    | strSet
    | map (t : Ty)
    | duration
    | struct (fs : Fields)
  /-- fields in declaration order: name, type, `skip_serializing_if = "Option::is_none"`, string default -/
  inductive Fields where
    | nil
    | cons (name : Key) (t : Ty) (skipNone : Bool) (dflt : Option (List Char)) (rest : Fields)
end

/-- order of `String` keys in a `BTreeMap`/`BTreeSet`: code points, lexicographic -/
def keyLt : Key → Key → Bool
  | [], [] => false
  | [], _ :: _ => true
  | _ :: _, [] => false
  | a :: as, b :: bs => if a.toNat < b.toNat then true else if a = b then keyLt as bs else false

def lookup (k : Key) : List (Key × Doc) → Option Doc
  | [] => none
  | (k', v) :: r => if k' = k then some v else lookup k r

/-- insert into a key-sorted association list (an equal key is replaced) -/
def insKV (k : Key) (v : Doc) : List (Key × Doc) → List (Key × Doc)
  | [] => [(k, v)]
  | (k', v') :: r =>
    if keyLt k k' then (k, v) :: (k', v') :: r
    else if k = k' then (k, v) :: r
    else (k', v') :: insKV k v r

def sortKV : List (Key × Doc) → List (Key × Doc)
  | [] => []
  | (k, v) :: r => insKV k v (sortKV r)

def insStr (k : Key) : List Key → List Key
  | [] => [k]
  | k' :: r => if keyLt k k' then k :: k' :: r else if k = k' then k' :: r else k' :: insStr k r

def sortStr : List Key → List Key
  | [] => []
  | k :: r => insStr k (sortStr r)

def allStr : List Doc → Option (List Key)
  | [] => some []
  | .str s :: r => (allStr r).map (s :: ·)
  | _ :: _ => none

def u64Max : Nat := 18446744073709551615
def kSecs : Key := ['s', 'e', 'c', 's']
def kNanos : Key := ['n', 'a', 'n', 'o', 's']

/-- every key of a `Duration` mapping must be `secs` or `nanos` -/
def durKeysOk : List (Key × Doc) → Bool
  | [] => true
  | (k, _) :: r => (k = kSecs || k = kNanos) && durKeysOk r

def normDuration (kv : List (Key × Doc)) : Option Doc :=
  if !durKeysOk kv then none
  else
    match lookup kSecs kv, lookup kNanos kv with
    | some (.int s), some (.int n) =>
      if 0 ≤ s ∧ s ≤ u64Max ∧ 0 ≤ n ∧ n ≤ 4294967295 then
        let total := s.toNat + n.toNat / 1000000000
        if total ≤ u64Max then some (.map [(kSecs, .int total), (kNanos, .int (n.toNat % 1000000000 : Nat))]) else none
      else none
    | _, _ => none

def isOpt : Ty → Bool
  | .opt _ => true
  | _ => false

mutual
  /-- `to_value(from_value::<T>(d))` for the type described by the schema -/
  def norm : Ty → Doc → Option Doc
    | .bool, .bool b => some (.bool b)
    | .uint max, .int z => if 0 ≤ z ∧ z ≤ max then some (.int z) else none
    | .sint lo hi, .int z => if lo ≤ z ∧ z ≤ hi then some (.int z) else none
    | .f64, .flt b => some (.flt b)
    | .f64, .int z => some (.flt (C42.intToF64 z))
    | .str, .str s => some (.str s)
    | .opt _, .null => some .null
    | .opt t, d => norm t d
    | .seq _, .null => some (.seq [])
    | .seq t, .seq l => (normList t l).map Doc.seq
    | .strSet, .null => some (.seq [])
    | .strSet, .seq l => (allStr l).map fun ks => .seq ((sortStr ks).map Doc.str)
    | .map _, .null => some (.map [])
    | .map t, .map kv => (normVals t kv).map fun r => .map (sortKV r)
    | .duration, .map kv => normDuration kv
    | .struct fs, .null => (normFields fs []).map Doc.map
    | .struct fs, .map kv => (normFields fs kv).map Doc.map
    | _, _ => none
  def normList : Ty → List Doc → Option (List Doc)
    | _, [] => some []
    | t, d :: r =>
      match norm t d, normList t r with
      | some d', some r' => some (d' :: r')
      | _, _ => none
  def normVals : Ty → List (Key × Doc) → Option (List (Key × Doc))
    | _, [] => some []
    | t, (k, d) :: r =>
      match norm t d, normVals t r with
      | some d', some r' => some ((k, d') :: r')
      | _, _ => none
  def normFields : Fields → List (Key × Doc) → Option (List (Key × Doc))
    | .nil, _ => some []
    | .cons name t skipNone dflt rest, kv =>
      let v : Option Doc :=
        match lookup name kv with
        | some d => norm t d
        | none =>
          match dflt with
          | some s => some (.str s)
          | none => if isOpt t then some .null else none
      match v, normFields rest kv with
      | some .null, some r => if skipNone then some r else some ((name, .null) :: r)
      | some d, some r => some ((name, d) :: r)
      | _, _ => none
end

end OpcuaVerif.C41
