/-
C22 — model of the subscription state machine and its keep-alive / lifetime counters
(`lib/src/server/subscriptions/subscription.rs`: `update_state` (Part 4 §5.13.1.2 state table, the
17 numbered arms + #27), `tick`, `handle_state_result`, `enqueue_notification`,
`start_publishing_timer`, `reset_*_counter`; `lib/src/server/subscriptions/subscriptions.rs`:
`tick` (request pairing, removal of closed subscriptions) and `enqueue_publish_request`, for a
session that owns ONE subscription).

Abstractions: time is the Boolean "did the publishing interval elapse at this timer tick"
(`test_and_set_publishing_interval_elapsed` belongs to C26); the monitored items of the
subscription are one Boolean `pending` = "sampling the items now yields a data change" (a
Reporting item with sampling interval −1 and no filter: pending after creation and after every
write); notification messages are (kind, sequence number); publish requests are their ids.
-/
namespace OpcuaVerif.C22

inductive SState where
  | closed | creating | normal | late | keepAlive
deriving Repr, DecidableEq

inductive Action where
  | none | keepAlive | notifications | created | expired
deriving Repr, DecidableEq

/-- kind of a `NotificationMessage` -/
inductive Msg where
  | keepAlive | data | statusChange
deriving Repr, DecidableEq

def u32Max : Nat := 4294967295

/-- `Handle::next` on a handle whose first value is 1; also `expected_sequence_number` -/
def succ32 (n : Nat) : Nat := if n = u32Max then 1 else n + 1

structure Subn where
  state : SState
  maxLife : Nat
  maxKa : Nat
  life : Nat                     -- lifetime_counter
  ka : Nat                       -- keep_alive_counter
  sent : Bool                    -- first_message_sent
  enabled : Bool                 -- publishing_enabled
  notifs : List (Msg × Nat)      -- notifications (kind, sequence number), oldest first
  seq : Nat                      -- sequence_number (next value handed out)
  lastSeq : Nat                  -- last_sequence_number
  hasItem : Bool                 -- the subscription has its monitored item
  pending : Bool                 -- sampling the item now reports a data change
deriving Repr, DecidableEq

/-- `Subscription::new` (+ optionally one monitored item created right away) -/
def mk (maxLife maxKa : Nat) (enabled hasItem : Bool) : Subn :=
  { state := .creating, maxLife := maxLife, maxKa := maxKa, life := maxLife, ka := maxKa,
    sent := false, enabled := enabled, notifs := [], seq := 1, lastSeq := 0,
    hasItem := hasItem, pending := hasItem }

structure Params where
  na : Bool        -- notifications_available
  more : Bool      -- more_notifications
  req : Bool       -- publishing_req_queued
  expired : Bool   -- publishing_timer_expired
deriving Repr, DecidableEq

def resetLife (s : Subn) : Subn := { s with life := s.maxLife }
def resetKa (s : Subn) : Subn := { s with ka := s.maxKa }

/-- `start_publishing_timer`: `lifetime_counter -= 1` on `u32` (dev profile: panics at 0) -/
def startTimer (s : Subn) : Option Subn :=
  if s.life = 0 then none else some { s with life := s.life - 1 }

/-- Which source is modelled.  `fix15c = fix15l = false` is the pinned state #15 (tests
`notifications_available` instead of its negation and never resets the lifetime counter);
`fixExpire = false` is the pinned `SubscriptionExpired` arm of `handle_state_result` (panics when
the monitored items reported a change in the expiring tick).  The current source (after the two
`fix:` commits) is `current`. -/
structure Variant where
  fix15c : Bool       -- #15 tests `!notifications_available`
  fix15l : Bool       -- #15 resets the lifetime counter
  fixExpire : Bool
  /-- the repair of C21 (`handle_state_result`, arm `None`: with publishing enabled a collected
  notification is queued instead of dropped); `false` = the source before that repair -/
  keepOnNone : Bool := false
deriving Repr, DecidableEq

def current : Variant := { fix15c := true, fix15l := true, fixExpire := true, keepOnNone := true }
def pinned : Variant := { fix15c := false, fix15l := false, fixExpire := false, keepOnNone := false }

/-- state #15 of the table -/
def cond15 (v : Variant) (s : Subn) (p : Params) : Bool :=
  p.expired && p.req && decide (s.ka = 1) &&
    (!s.enabled || (s.enabled && (if v.fix15c then !p.na else p.na)))

def act15 (v : Variant) (s : Subn) : Option Subn :=
  (startTimer (if v.fix15l then resetLife s else s)).map resetKa

/-- `update_state`.  `timer = true` is `TickReason::TickTimerFired`, `false` is
`ReceivePublishRequest`.  Result: new state, number of the handling table row, action;
`none` = panic. -/
def updateStateWith (v : Variant) (s : Subn) (timer : Bool) (p : Params) :
    Option (Subn × Nat × Action) :=
  if !timer && p.expired then none
  else if (s.state = .normal ∨ s.state = .late ∨ s.state = .keepAlive) ∧ s.life = 1 then
    some ({ s with state := .closed }, 27, .expired)
  else match s.state with
  | .creating => some ({ s with state := .normal, sent := false }, 3, .created)
  | .normal =>
    if !timer && (!s.enabled || (s.enabled && !p.more)) then some (s, 4, .none)
    else if !timer && s.enabled && p.more then
      some ({ resetLife s with sent := true }, 5, .notifications)
    else if p.expired && p.req && s.enabled && p.na then
      (startTimer (resetLife s)).map fun s => ({ s with sent := true }, 6, .notifications)
    else if p.expired && p.req && !s.sent && (!s.enabled || (s.enabled && !p.na)) then
      (startTimer (resetLife s)).map fun s => ({ s with sent := true }, 7, .keepAlive)
    else if p.expired && !p.req && (!s.sent || (s.enabled && p.na)) then
      (startTimer s).map fun s => ({ s with state := .late }, 8, .none)
    else if p.expired && s.sent && (!s.enabled || (s.enabled && !p.na)) then
      (startTimer s).map fun s => ({ resetKa s with state := .keepAlive }, 9, .none)
    else some (s, 0, .none)
  | .late =>
    if !timer && s.enabled && (p.na || p.more) then
      some ({ resetLife s with state := .normal, sent := true }, 10, .notifications)
    else if !timer && (!s.enabled || (s.enabled && !p.na && !p.more)) then
      some ({ resetLife s with state := .keepAlive, sent := true }, 11, .keepAlive)
    else if p.expired then
      (startTimer s).map fun s => (s, 12, .none)
    else some (s, 0, .none)
  | .keepAlive =>
    if !timer then some (s, 13, .none)
    else if p.expired && s.enabled && p.na && p.req then
      some ({ s with sent := true, state := .normal }, 14, .notifications)
    else if cond15 v s p then
      (act15 v s).map fun s => (s, 15, .keepAlive)
    else if p.expired && decide (s.ka > 1) && (!s.enabled || (s.enabled && !p.na)) then
      (startTimer s).map fun s => ({ s with ka := s.ka - 1 }, 16, .none)
    else if p.expired && !p.req &&
        (decide (s.ka = 1) || (decide (s.ka > 1) && s.enabled && p.na)) then
      (startTimer s).map fun s => ({ s with state := .late }, 17, .none)
    else some (s, 0, .none)
  | .closed => some (s, 0, .none)

/-- One effect of a table row on the subscription, as it is written in the Rust source.  The
translator `tools/translate/c22_rows.py` regenerates, from `update_state`, the list of effects of
every row (`Generated/C22Rows.lean`); `Proofs/C22.lean` proves that interpreting them agrees with
`updateStateWith current`. -/
inductive Eff where
  | resetLife | startTimer | resetKa | decKa
  | setState (st : SState)
  | setSent (b : Bool)
deriving Repr, DecidableEq

inductive Cmp where
  | eq | ne | gt | ge | lt | le
deriving Repr, DecidableEq

/-- the guard of a table row as written in the Rust source: a Boolean expression over the
tick reason (`recv` = ReceivePublishRequest), the inputs, the flags and comparisons of the two
counters with constants -/
inductive Cond where
  | tt | recv | enabled | sent | more | na | req | expired
  | ka (c : Cmp) (n : Nat)
  | life (c : Cmp) (n : Nat)
  | not (a : Cond)
  | and (a b : Cond)
  | or (a b : Cond)
deriving Repr, DecidableEq

structure Row where
  num : Nat
  states : List SState        -- the states of the enclosing `match self.state` arm
  guard : Cond
  action : Action
  effs : List Eff
deriving Repr, DecidableEq

def evalCmp (c : Cmp) (a b : Nat) : Bool :=
  match c with
  | .eq => decide (a = b) | .ne => decide (a ≠ b) | .gt => decide (a > b)
  | .ge => decide (a ≥ b) | .lt => decide (a < b) | .le => decide (a ≤ b)

def applyEff (s : Subn) : Eff → Option Subn
  | .resetLife => some (resetLife s)
  | .startTimer => startTimer s
  | .resetKa => some (resetKa s)
  | .decKa => if s.ka = 0 then none else some { s with ka := s.ka - 1 }   -- `u32` `-= 1`
  | .setState st => some { s with state := st }
  | .setSent b => some { s with sent := b }

def applyEffs : List Eff → Subn → Option Subn
  | [], s => some s
  | e :: es, s =>
    match applyEff s e with
    | some s' => applyEffs es s'
    | none => none

def evalCond (s : Subn) (timer : Bool) (p : Params) : Cond → Bool
  | .tt => true
  | .recv => !timer
  | .enabled => s.enabled
  | .sent => s.sent
  | .more => p.more
  | .na => p.na
  | .req => p.req
  | .expired => p.expired
  | .ka c n => evalCmp c s.ka n
  | .life c n => evalCmp c s.life n
  | .not a => !evalCond s timer p a
  | .and a b => evalCond s timer p a && evalCond s timer p b
  | .or a b => evalCond s timer p a || evalCond s timer p b

/-- the control flow of `update_state` over a table of rows in source order: the initial panic,
then the FIRST row whose match arm contains the state and whose guard holds; its effects in
order; row 0 / action None when no row applies -/
def interpRows (rows : List Row) (s : Subn) (timer : Bool) (p : Params) :
    Option (Subn × Nat × Action) :=
  if !timer && p.expired then none
  else
    match rows.find? (fun r => r.states.contains s.state && evalCond s timer p r.guard) with
    | some r => (applyEffs r.effs s).map fun s' => (s', r.num, r.action)
    | none => some (s, 0, .none)

/-- `enqueue_notification`: panics unless the sequence number is the expected one -/
def enqueue (s : Subn) (k : Msg) (n : Nat) : Option Subn :=
  if n ≠ succ32 s.lastSeq then none
  else some { s with lastSeq := n, notifs := s.notifs ++ [(k, n)] }

/-- `handle_state_result`; `notif` = sequence number of the data-change message collected by
`tick_monitored_items` in this tick, if any -/
def handle (v : Variant) (s : Subn) (a : Action) (notif : Option Nat) : Option Subn :=
  match a with
  | .none =>
    match notif with
    | some n => if v.keepOnNone && s.enabled then enqueue s .data n else some { s with seq := n }
    | none => some s
  | .keepAlive =>
    let s := match notif with
      | some n => { s with seq := n }
      | none => s
    enqueue { s with seq := succ32 s.seq } .keepAlive s.seq
  | .notifications =>
    match notif with
    | some n => enqueue s .data n
    | none => some s
  | .created =>
    match notif with
    | some _ => none
    | none => some s
  | .expired =>
    match notif with
    | some n =>
      if v.fixExpire then
        enqueue { s with hasItem := false, pending := false, seq := succ32 n } .statusChange n
      else none
    | none =>
      enqueue { s with hasItem := false, pending := false, seq := succ32 s.seq } .statusChange s.seq

/-- `Subscription::tick` (publishing interval > 0).  `elapsedIn` = the publishing interval has
elapsed since it was last seen to elapse (ignored for `ReceivePublishRequest` and forced in state
Creating). -/
def subTickWith (v : Variant) (s : Subn) (timer elapsedIn reqQueued : Bool) : Option Subn :=
  let elapsed := timer && (decide (s.state = .creating) || elapsedIn)
  -- tick_monitored_items: only in Normal/Late/KeepAlive; collects only when the interval elapsed
  let sample := elapsed && decide (s.state ≠ .closed) && decide (s.state ≠ .creating) && s.hasItem
  let notif : Option Nat := if sample && s.pending then some s.seq else none
  let s1 : Subn :=
    if sample then
      { s with pending := false, seq := if s.pending then succ32 s.seq else s.seq }
    else s
  let na := !s1.notifs.isEmpty || notif.isSome
  let more := decide (s1.notifs.length > 1)
  if na || elapsed || reqQueued then
    match updateStateWith v s1 timer { na := na, more := more, req := reqQueued, expired := elapsed } with
    | none => none
    | some (s2, _, a) => handle v s2 a notif
  else some s1

/-- a published response: request id, kind and sequence number of the notification message -/
abbrev Resp := Nat × Msg × Nat

/-- the pairing loop of `Subscriptions::tick` -/
def pairLoop : List Nat → List (Msg × Nat) → List Resp × List Nat × List (Msg × Nat)
  | r :: rs, m :: ms =>
    let (out, rs', ms') := pairLoop rs ms
    ((r, m.1, m.2) :: out, rs', ms')
  | rs, ms => ([], rs, ms)

/-- a session with (at most) one subscription -/
structure Sess where
  sub : Option Subn
  reqs : List Nat          -- publish_request_queue, oldest first
deriving Repr, DecidableEq

def readyToRemove (s : Subn) : Bool := decide (s.state = .closed) && s.notifs.isEmpty

/-- `Subscriptions::tick`; `none` = panic -/
def sessTickWith (v : Variant) (z : Sess) (timer elapsedIn : Bool) : Option (Sess × List Resp) :=
  match z.sub with
  | none => some (z, [])
  | some s =>
    match subTickWith v s timer elapsedIn (!z.reqs.isEmpty) with
    | none => none
    | some s' =>
      let (out, rs, ms) := pairLoop z.reqs s'.notifs
      let s'' := { s' with notifs := ms }
      some ({ sub := if readyToRemove s'' then none else some s'', reqs := rs }, out)

def maxPublishRequests (z : Sess) : Nat := if z.sub.isSome then 2 else 0

inductive PubOut where
  | ok (z : Sess) (out : List Resp)
  | tooMany (z : Sess) (out : List Resp)     -- Err(BadTooManyPublishRequests)
  | panic
deriving Repr, DecidableEq

/-- `Subscriptions::enqueue_publish_request` (requests carry no acknowledgements) -/
def publishWith (v : Variant) (z : Sess) (rid : Nat) : PubOut :=
  let maxR := maxPublishRequests z
  let first : Option (Sess × List Resp) :=
    if z.reqs.length ≥ maxR then sessTickWith v z false false else some (z, [])
  match first with
  | none => .panic
  | some (z1, out1) =>
    if z1.reqs.length ≥ maxR then .tooMany z1 out1
    else
      match sessTickWith v { z1 with reqs := z1.reqs ++ [rid] } false false with
      | none => .panic
      | some (z2, out2) => .ok z2 (out1 ++ out2)

/-- a client write to the monitored variable -/
def write (z : Sess) : Sess :=
  match z.sub with
  | some s => { z with sub := some { s with pending := s.hasItem } }
  | none => z

/-- ModifySubscription on the subscription, with the values already revised (C23):
`set_publishing_interval` (resets the lifetime counter), `set_max_keep_alive_count`,
`set_max_lifetime_count`, `set_priority`, `reset_lifetime_counter`, `reset_keep_alive_counter` -/
def modifySub (s : Subn) (ka life : Nat) : Subn :=
  { s with maxKa := ka, maxLife := life, life := life, ka := ka }

/-- SetPublishingMode: `set_publishing_enabled` (+ `reset_lifetime_counter`) -/
def setEnabled (s : Subn) (b : Bool) : Subn := { s with enabled := b, life := s.maxLife }

/-- any other service call that names the subscription (create / modify / delete monitored items,
republish): `reset_lifetime_counter` -/
def touch (s : Subn) : Subn := resetLife s

/-- the current source -/
def updateState := updateStateWith current
def subTick := subTickWith current
def sessTick := sessTickWith current
def publish := publishWith current

end OpcuaVerif.C22
