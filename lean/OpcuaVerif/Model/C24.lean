/-
C24 — model of the monitored-item notification queue
(`lib/src/server/subscriptions/monitored_item.rs`: `enqueue_notification_message`,
`all_notifications`, `sanitize_queue_size`, and the queue resize in `modify`).

A notification is abstracted to a natural number (the sample's identity); the overflow bit that
the real code ORs into the sample's status is the `Bool` paired with it.
-/
namespace OpcuaVerif.C24

structure Item where
  size : Nat                       -- queue_size (≥ 1 after sanitize)
  discardOldest : Bool
  queue : List (Nat × Bool)        -- oldest first; (sample, overflow bit set on that sample)
  overflow : Bool                  -- queue_overflow flag
deriving Repr, DecidableEq

/-- `sanitize_queue_size` -/
def sanitize (maxQ req : Nat) : Nat :=
  if req = 0 ∨ req = 1 then 1 else if req > maxQ then maxQ else req

def mk (maxQ req : Nat) (discardOldest : Bool) : Item :=
  { size := sanitize maxQ req, discardOldest := discardOldest, queue := [], overflow := false }

/-- `enqueue_notification_message` -/
def enqueue (it : Item) (x : Nat) : Item :=
  if it.queue.length = it.size then
    let q := if it.discardOldest then it.queue.tail else it.queue.dropLast
    let ov := decide (it.size > 1)
    { it with queue := q ++ [(x, ov)], overflow := it.overflow || ov }
  else
    { it with queue := it.queue ++ [(x, false)] }

/-- `all_notifications` : returns the drained queue (`none` when empty) -/
def drain (it : Item) : Item × Option (List (Nat × Bool)) :=
  if it.queue.isEmpty then (it, none)
  else ({ it with queue := [], overflow := false }, some it.queue)

/-- Outcome of `modify`: the real code computes `queue_size - len` on `usize`, which panics in
the dev profile when `len > queue_size`; that is an explicit outcome here. -/
inductive ModifyOut where
  | ok (it : Item)
  | panic
deriving Repr, DecidableEq

/-- The resize part of `modify` as it is written in the source.  `usizeSub a b` is `a - b` on
`usize` with the dev-profile overflow check. -/
def usizeSub (a b : Nat) : Option Nat := if b ≤ a then some (a - b) else none

/-- `modify` (queue part).  `swapped = true` models the pinned source
(`queue_size - notification_queue.len()`), `false` the repaired operand order. The driver and the
theorems use the variant selected by `Generated`-free constant `modifyAsInSource` below. -/
def modifyWith (swapped : Bool) (maxQ : Nat) (it : Item) (req : Nat) (discardOldest : Bool) : ModifyOut :=
  let size := sanitize maxQ req
  let it := { it with size := size, discardOldest := discardOldest }
  if it.queue.length > size then
    let d := if swapped then usizeSub size it.queue.length else usizeSub it.queue.length size
    match d with
    | some discard => .ok { it with queue := it.queue.drop discard }
    | none => .panic
  else .ok it

/-- The current source (after the `fix:` commit) subtracts in the right order. -/
def modify := modifyWith false

end OpcuaVerif.C24
